#!/bin/bash
# tools/mutcheck.sh <property> <mutation dir with patch.diff, demo/, README.md> [check ids...]
# 1. scratch copy of /repo with the patch; 2. confirms: builds, the touched modules' existing tests
# pass, the demonstration fails with the patch and passes without; 3. runs the listed checks (default:
# the property's own) against the patched copy through VERIF_REPO; prints a summary line per step.
set -u
P=$1; M=$(realpath $2); shift 2; CHECKS=${@:-$P}
export GOFLAGS=-mod=mod GOPROXY=off GOSUMDB=off GOTOOLCHAIN=local GOWORK=off
W=/tmp/mutrun/$(basename $(dirname $M))-$(basename $M); rm -rf $W; mkdir -p $W
cp -r /repo $W/with; cp -r /repo $W/without
( cd $W/with && git apply $M/patch.diff ) || { echo "MUT $M: patch does not apply"; exit 2; }
mods=$(cd $W/with && git diff --name-only | sed -E 's#^(go/appencryption|go/securememory|server/go)/.*#\1#' | sort -u)
for m in $mods; do
  pk="./..."; [ "$m" = go/appencryption ] && pk=". ./internal/... ./pkg/... ./plugins/..."
  ( cd $W/with/$m && go build ./... ) >/dev/null 2>&1 && echo "MUT build $m: ok" || echo "MUT build $m: FAILS"
  if [ "$m" = go/securememory ]; then
    ( cd $W/with/$m && go test ./... 2>&1 | grep -v MemLockLimit | grep -E "^(--- FAIL|FAIL|ok)" | grep -v "^ok" | grep -v "protectedmemory" | head -5 ); echo "MUT tests $m: see above (protectedmemory package has a baseline failure)"
  else
    ( cd $W/with/$m && go test $pk 2>&1 | grep -E "^(--- FAIL|FAIL)" | head -5 ) ; ( cd $W/with/$m && go test $pk >/dev/null 2>&1 ) && echo "MUT tests $m: pass" || echo "MUT tests $m: FAIL"
  fi
done
echo "--- RUN.txt:"; cat $M/demo/RUN.txt 2>/dev/null
# demonstration: DEMO_DIR = package dir relative to the repo root, DEMO_RUN = -run regex
if [ -n "${DEMO_DIR:-}" ]; then
  for v in with without; do
    mkdir -p $W/$v/$DEMO_DIR; cp $M/demo/*_test.go $W/$v/$DEMO_DIR/ 2>/dev/null
    ( cd $W/$v/$DEMO_DIR && go test . -run "${DEMO_RUN:-Mut}" -count=1 >$W/demo-$v.out 2>&1 ) && echo "MUT demo $v patch: PASS" || echo "MUT demo $v patch: FAIL"
    rm -f $W/$v/$DEMO_DIR/$(basename $M/demo/*_test.go)
  done
fi
echo "--- checks against the patched tree:"
for c in $CHECKS; do
  ( cd /verif && VERIF_REPO=$W/with timeout 1200 bin/check $c --tier ${TIER:-quick} > $W/check-$c.out 2>&1; echo "MUT check $c: exit=$? $(grep -E '^VIOLATION|^KNOWN' $W/check-$c.out | head -3 | cut -c1-200)" )
  [ -f /verif/replays/$c-violation.txt ] && cp /verif/replays/$c-violation.txt $W/ 2>/dev/null
done
( cd /verif && build/extract -repo /repo -out lean/AsherahVerif/Generated >/dev/null 2>&1 )
echo "scratch: $W (remove when done)"
