#!/usr/bin/env python3
"""Regenerates /verif/MANIFEST.json from the table below (the manifest is data; this is its source)."""
import json, os
ROOT = os.path.dirname(os.path.dirname(os.path.abspath(__file__)))
props = [json.loads(l) for l in open(os.path.join(ROOT, "properties.jsonl"))]
TB = "Trusted: Lean 4.33 kernel (axioms propext, Classical.choice, Quot.sound only; audited per theorem on every run), the Go harness + Lean model driver, the go/ast extractor. "
C = {}
C["C15"] = dict(engine="E2 cache", design_ref="DESIGN.md §4 C15",
  text="Lean 4 theorems about an executable model of pkg/cache (all four policies, any capacity >= 1, any expiry, any TinyLFU sketch answers, every operation sequence): size bound, key-map/policy bijection, no panic, exact lookup/callback behaviour per operation, victim definitions. Tied to the code by a differential correspondence through the public builder API (random + exhaustive short sequences), regenerated constants, and a policy-independent bounded-map monitor executed on the implementation's traces.",
  note=TB + "Modelled not verified: TinyLFU count-min sketch/doorkeeper/hash (oracle), container/list, sync, scheduling of the async event goroutine (callbacks compared cumulatively).",
  technique="Lean 4 inductive invariant + per-step refinement theorems; differential correspondence")
C["C06"] = dict(engine="partition", design_ref="DESIGN.md §4 C06",
  text="Lean 4 proofs over List UInt8: default partitions are isolated for all byte-string ids/service/product and every cache/store state; the empty id is refused; the suffixed scheme is isolated iff neither id continues the other by '_…' (partial theorem); the full statement is refuted on a witness (F-4, known finding); cacheKey injective on every cache's id family. Ids are defined from the regenerated Sprintf formats; the guard-before-lookup order is a regenerated skeleton.",
  note=TB + "Everything after the decrypt guard is an arbitrary continuation in the theorems; fmt.Sprintf/strings.Index/strconv modelled and compared differentially. Known finding F-4 listed in known_findings.json.",
  technique="Lean 4 theorems over byte lists + regenerated formats/skeletons + exhaustive/adversarial differential correspondence with a foreign-record=>error monitor")
C["C17"] = dict(engine="E7 kms", design_ref="DESIGN.md §4 C17",
  text="Lean 4 proofs over an executable model of both AWS KMS plugins: unwrap succeeds iff some configured region with an entry can decrypt and returns the wrapped key; regions tried preferred-first in client order; wrap succeeds iff some region generates, one entry per succeeding region, data key wiped; v1/v2 envelopes interoperate - for any number of regions, any failure subsets, any preferred region.",
  note=TB + "Model tied to source by regenerated skeletons/statements/json tags (Generated = Expected by decide) and exhaustive differential runs against the real plugins with fake regional KMS clients. Symbolic crypto; map and channel order as oracles; encoding/json, sort and the AWS SDK trusted; real AWS KMS not available offline.",
  technique="Lean 4 model + induction/refinement proofs; exhaustive and seeded differential correspondence through the public API; go/ast fact regeneration")
C["C19"] = dict(engine="E8 server", design_ref="DESIGN.md §4 C19",
  text="Lean 4 proofs: for every request sequence, failing-Send position and end of stream, the handler model of server.go sends exactly one response per request, refuses encrypt/decrypt without a session and a second get-session, answers exactly like the SDK session once ready, and - with the nil-session tests the extractor detects in the current source - never panics; for the code as found before the fix the negation is proved on a witness.",
  note=TB + "SDK session, gRPC transport and protobuf codec are parameters / not modelled (probed once per run over a real grpc.Server on a unix socket); tie = regenerated skeletons (rfl) + differential run against the real AppEncryption.Session + protocol monitor on the real traces.",
  technique="Lean 4 state machine with explicit panic outcomes, induction over stream logs, guard-parameterised model regenerated from source; exhaustive + concurrent differential testing")
C["C08"] = dict(engine="E4 conc/keyref", design_ref="DESIGN.md §4 C08",
  text="Lean 4 proof of the key-cache reference protocol as a transition system with any number of anonymous threads, arbitrary eviction victims, synchronous or queued eviction callbacks and arbitrary schedules: counting invariant (references cover cache entry, pending callbacks and every holder), hence a held key is never destroyed and no operation fails on a destroyed key. The protocol facts (increment inside the read-locked block, slow path under the write lock, callback releases only the cache's reference, replaced entries released) are regenerated from key_cache.go and proved equal to the ones the theorems assume; the pre-fix variant is proved unsafe on a 6-step schedule.",
  note=TB + "Lock-delimited blocks are atomic steps of the model. The real Go scheduler/memory model is not proved: the real code is explored under preemption-bounded schedules (every sync point x operation pairs x 30+ scenarios, all policies, capacities 1-2) and randomised stress (sync and async eviction) through sync points injected by build overlay; only real effects (operation error, wrong payload, use after close, deadlock) count.",
  technique="Lean 4 inductive invariant over an interleaving model parameterised by regenerated protocol facts; preemption-bounded systematic schedule exploration of the real code")
C["C16"] = dict(engine="E4 conc/sesscache", design_ref="DESIGN.md §4 C16",
  text="Lean 4 proof of the session-cache protocol (Get with eviction/expiry, usage counter, remover goroutines, holder Close, factory Close) as a transition system with any number of holders and arbitrary schedules: a held session is never closed, a hit returns the cached session (sharing), every session is in exactly one life phase (cached / one remover / closed once), the remover is enabled once users reach zero, factory close hands every cached session to a remover. Protocol facts regenerated from session_cache.go; two variants proved unsafe on witnesses.",
  note=TB + "Inner session behaviour is engine E3; real scheduler explored by hxconc (sesscache-* preemption scenarios for all four policies at capacity 1, stress with session cache), not proved; session expiry timing abstracted to 'may expire at any Get'.",
  technique="Lean 4 inductive invariant over an interleaving model parameterised by regenerated protocol facts; preemption-bounded schedule exploration of the real code")
C["C14"] = dict(engine="E4 conc/keyrace", design_ref="DESIGN.md §4 C14",
  text="Lean 4 proof over an interleaving model of the key-creation protocol (metastore-call skeleton of loadLatestOrCreateIntermediateKey / createIntermediateKey / loadLatestOrCreateSystemKey / intermediateKeyFromEKR): any number of processes, arbitrary schedules at the granularity of single metastore calls, any well-formed starting store, any clock and policy: rows are never modified or removed, every finished process uses an IK that is stored with exactly the material it uses and whose SK is stored, a process whose insert is refused cannot be using its unsaved material, no process fails, every process finishes within 8 of its own steps. The model is compared call by call with the real SDK on ALL interleavings of 2 processes from 10 starting states (and 3-5 processes up to a limit) through a gate metastore.",
  note=TB + "Processes run without key caching so that every protocol step is visible (with caches a process makes a subset of these calls; sequential cache behaviour is engine E3). In-memory metastore; KMS/AEAD do not fail here (faults are C02). Interleaving control needs no source hook: every metastore call blocks in the harness until released.",
  technique="Lean 4 inductive invariant over an N-process interleaving model; exhaustive schedule enumeration of the real SDK through a gate metastore, compared call by call")
C["C18"] = dict(engine="E1 fmt", design_ref="DESIGN.md §4 C18",
  text="Lean 4 proofs (unbounded) of the laws of a reference implementation written from the documentation: AES-GCM layout ct||tag(16)||nonce(12) is opened iff it is a seal output, for every block function; base64 / JSON (string level) / record / SQL row / both DynamoDB item shapes / protobuf mapping / key-id / KMS-envelope round trips; whole key-hierarchy round trip; regenerated constants, tags, formats and skeletons equal the documented ones. On every run two-directional translation validation of the Go SDK against that reference (SDK writes -> reference decrypts the full chain; reference writes -> SDK decrypts), raw AEAD byte-for-byte with the PRNG pinned into crypto/rand, and every carrier (encoding/json, SQL row, both AWS marshalers, protobuf).",
  note=TB + "Go's encoding/json, crypto/aes, AWS marshalers and protobuf codec are validated differentially, not verified; AES itself is tested against NIST vectors and crypto/aes (every GCM theorem holds for an arbitrary block function); ids assumed valid UTF-8; payloads <= gcmMaxDataSize; protobuf mapping drops Revoked and key-id parsing is ambiguous with '_' (both stated as counterexamples).",
  technique="executable Lean reference codec + structural-induction proofs; decide over regenerated facts; two-pass differential correspondence")
ENGINES = [
 dict(name="E2 cache", path="lean/AsherahVerif/Model/Cache.lean", serves_properties=["C15"], kind_free_text="Lean model+theorems; go/cmd/hxcache"),
 dict(name="E3 envelope", path="lean/AsherahVerif/Model/Envelope.lean", serves_properties=["C01","C02","C03","C04","C05","C07","C09","C10","C20"], kind_free_text="Lean model of envelope.go/key_cache.go/session.go in a state+error monad, Hoare-style proofs; go/cmd/hxenv with virtual clock overlay; Spec/EnvelopeMon monitors"),
 dict(name="E1 fmt", path="lean/AsherahVerif/Model/Gcm.lean", serves_properties=["C18"], kind_free_text="GCM/AES/codec reference; go/cmd/hxfmt"),
 dict(name="E4 conc", path="lean/AsherahVerif/Model/KeyRef.lean", serves_properties=["C08","C14","C16"], kind_free_text="interleaving models + go/cmd/hxconc schedule exploration"),
 dict(name="partition", path="lean/AsherahVerif/Model/Partition.lean", serves_properties=["C06"], kind_free_text="byte-level id model; go/cmd/hxpartition"),
 dict(name="E7 kms", path="lean/AsherahVerif/Model/Kms.lean", serves_properties=["C17"], kind_free_text="both AWS KMS plugins; go/cmd/hxkms"),
 dict(name="E8 server", path="lean/AsherahVerif/Model/Server.lean", serves_properties=["C19"], kind_free_text="sidecar handler state machine; go/cmd/hxserver"),
]
extra = os.path.join(ROOT, "tools", "manifest_extra.json")
if os.path.exists(extra):
    for k, v in json.load(open(extra)).items(): C[k] = v
checks = []
for pid in sorted(C):
    c = C[pid]
    checks.append(dict(property_id=pid, quick_cmd="bin/check %s --tier quick" % pid, thorough_cmd="bin/check %s --tier thorough" % pid,
        evidence_file="/verif/evidence/%s.json" % pid, replay_cmd_template="bin/check %s --replay {path}" % pid, engine=c["engine"],
        level_claimed=dict(category="proof", text=c["text"], design_ref=c["design_ref"]), level_note=c["note"], technique=c["technique"]))
na = [dict(property_id=p["id"], reason="check not built yet in this round of work (engine planned in DESIGN.md section 4); not claimed until its theorems and correspondence exist")
      for p in props if p["id"] not in C]
m = dict(version=1, setup_cmd="bin/setup",
  hooks=dict(guard="verif", enable="go build -tags verif -overlay <generated overlay.json>: no hook is committed in /repo; the virtual clock, sync points and export shims are injected by a build overlay regenerated from the working tree by go/cmd/overlay on every run",
    baseline_off_cmd="for m in $(cat /w/out/gomods.txt); do MF=$(cd /repo/$m && . /w/out/goenv.sh && gomodflag); (cd /repo/$m && go test $MF -json -vet=off -count=1 -timeout 25m ./...); done",
    source_commits=[], add_only=True),
  engines=ENGINES, checks=checks, not_applicable=na,
  notes="Lean 4 machine-checked proofs about hand-written executable models, tied to /repo on every run by regenerated facts (go/cmd/extract) and differential correspondence (go/cmd/hx* vs compiled Lean model drivers). Genuine defects found are repaired by fix: commits in /repo or listed in known_findings.json. See DESIGN.md.")
json.dump(m, open(os.path.join(ROOT, "MANIFEST.json"), "w"), indent=1)
print("claimed:", [c["property_id"] for c in checks], "not claimed:", [n["property_id"] for n in na])
