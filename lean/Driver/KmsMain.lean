import AsherahVerif.Driver.Kms
/- model driver executable of engine `kms` (C17, KMS part of C10); protocol: AsherahVerif/Driver/Kms.lean -/
open AsherahVerif.Driver

def main (_args : List String) : IO UInt32 := do
  runEngine KmsEngine.engine
  return 0
