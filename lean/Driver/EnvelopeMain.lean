import AsherahVerif.Driver.Envelope
open AsherahVerif.Driver

def main (_args : List String) : IO UInt32 := do
  runEngine EnvEngine.engine; return 0
