import AsherahVerif.Driver.SecMem
open AsherahVerif.Driver
/- model driver executable of engine `secmem` (C11, C12): reads the harness' trace on stdin. -/
def main (_args : List String) : IO UInt32 := do
  runEngine SecMemEngine.engine
  return 0
