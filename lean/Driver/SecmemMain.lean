import AsherahVerif.Driver.Loop
/- model driver executable of engine `secmem` (stub until the engine is built) -/
def main (_args : List String) : IO UInt32 := do
  IO.eprintln "engine secmem: not built yet"; return 2
