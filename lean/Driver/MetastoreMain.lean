import AsherahVerif.Driver.Metastore
open AsherahVerif.Driver

/- model driver executable of engine `metastore` (C13): reads the harness trace on stdin -/
def main (_args : List String) : IO UInt32 := do
  runEngine MetastoreEngine.engine; return 0
