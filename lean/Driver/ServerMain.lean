import AsherahVerif.Driver.Server
/- model driver executable of engine `server` (C19): reads the harness' trace on stdin -/
open AsherahVerif.Driver

def main (_args : List String) : IO UInt32 := do
  runEngine ServerEngine.engine
  return 0
