import AsherahVerif.Driver.Partition
open AsherahVerif.Driver
/- model driver executable of engine `partition` (C06): reads hxpartition's trace on stdin -/
def main (_args : List String) : IO UInt32 := do
  runEngine PartitionEngine.engine
  return 0
