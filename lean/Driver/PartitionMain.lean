import AsherahVerif.Driver.Loop
/- model driver executable of engine `partition` (stub until the engine is built) -/
def main (_args : List String) : IO UInt32 := do
  IO.eprintln "engine partition: not built yet"; return 2
