import AsherahVerif.Driver.Cache
open AsherahVerif.Driver

def main (args : List String) : IO UInt32 := do
  match args with
  | ["cache"] => runEngine CacheEngine.engine; return 0
  | _ => IO.eprintln "usage: modeldriver <engine>"; return 2
