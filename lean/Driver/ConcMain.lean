import AsherahVerif.Driver.Conc
import AsherahVerif.Driver.Race
open AsherahVerif.Driver.Conc

def main (args : List String) : IO UInt32 := do
  match args with
  | "keyref" :: rest => IO.println (keyref rest); return 0
  | "sesscache" :: rest => IO.println (sesscache rest); return 0
  | ["race"] => AsherahVerif.Driver.runEngine AsherahVerif.Driver.Race.engine; return 0
  | _ => IO.eprintln "usage: md_conc keyref <nKeys> <maxHeld> <maxObjs> <depth>"; return 2
