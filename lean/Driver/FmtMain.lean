import AsherahVerif.Driver.Fmt
open AsherahVerif.Driver

/- model driver executable of engine `fmt` (C18): `md_fmt` checks a trace of go/cmd/hxfmt,
`md_fmt answer` is the reference ENCODER answering the harness' build requests (direction
"reference writes / SDK reads"). -/
def main (args : List String) : IO UInt32 := do
  match args with
  | [] => runEngine FmtEngine.engine; return 0
  | ["answer"] => FmtEngine.answerLoop (← IO.getStdin) (← IO.getStdout); return 0
  | _ => IO.eprintln "usage: md_fmt [answer]"; return 2
