/-
AES-GCM as used by `go/appencryption/pkg/crypto/aead` (aead.go, aes256gcm.go), written GENERICALLY
over a block function `E : κ → Block → Block` (κ = the prepared key of the block cipher).

  * `Block`      128 bits as two big-endian 64-bit halves (byte 0 = most significant byte of `hi`)
  * `gfmul`      multiplication in GF(2^128) exactly as NIST SP 800-38D algorithm 1
  * `ghash`      GHASH_H over (empty AAD, ciphertext): zero-padded 16-byte blocks, then the block
                 [len(A)]_64 ‖ [len(C)]_64 (bit lengths)
  * `j0`         pre-counter block for a 96-bit IV:  IV ‖ 0^31 ‖ 1
  * `inc32`      increments the last 32 bits modulo 2^32
  * `ctrXor`     GCTR: data ⊕ E(cb) ‖ E(inc32 cb) ‖ …, truncated to |data|
  * `gcmSeal`    `cryptoFunc.Encrypt`'s result layout:   ciphertext ‖ tag(16) ‖ nonce(12)
  * `gcmOpenE/gcmOpen` `cryptoFunc.Decrypt`, branch by branch (see below)

`cryptoFunc.Decrypt(data, key)`:
    c(key) fails                           → error (key size; modelled in `Cipher.prep`, see `goDecrypt`)
    len(data) < NonceSize (12)             → error "data length is shorter than nonce size"
    noncePos := len(data) - 12
    aead.Open(nil, data[noncePos:], data[:noncePos], nil)   (crypto/cipher gcm.Open, Go 1.23):
        len(nonce) ≠ 12 → panic            — unreachable: the slice has exactly 12 bytes
        len(ct) < 16                       → errOpen          (so 12 ≤ |data| < 28 is an ERROR, no panic)
        len(ct) > ((1<<32)-2)*16 + 16      → errOpen
        tag mismatch                       → errOpen
        otherwise                          → plaintext
`cryptoFunc.Encrypt(data, key)`: error when len(data) > gcmMaxDataSize = ((1<<32)-2)*16, otherwise
    nonce := 12 random bytes written at the END of the buffer, Seal writes ct‖tag at the start.

Core Lean only (this file is linked into the compiled driver).
-/
namespace AsherahVerif.Gcm

abbrev Bytes := List UInt8

structure Block where
  hi : UInt64
  lo : UInt64
deriving DecidableEq, Repr, Inhabited

namespace Block
def zero : Block := ⟨0, 0⟩
def xor (a b : Block) : Block := ⟨a.hi ^^^ b.hi, a.lo ^^^ b.lo⟩

/-- big-endian value of the first 8 bytes of `bs` (missing bytes count as 0: zero padding on the right). -/
def be64 (bs : Bytes) : UInt64 :=
  let g (i : Nat) : UInt64 := (bs.getD i 0).toUInt64
  (g 0 <<< 56) ||| (g 1 <<< 48) ||| (g 2 <<< 40) ||| (g 3 <<< 32) |||
  (g 4 <<< 24) ||| (g 5 <<< 16) ||| (g 6 <<< 8) ||| g 7

def bytes64 (w : UInt64) : Bytes :=
  [(w >>> 56).toUInt8, (w >>> 48).toUInt8, (w >>> 40).toUInt8, (w >>> 32).toUInt8,
   (w >>> 24).toUInt8, (w >>> 16).toUInt8, (w >>> 8).toUInt8, w.toUInt8]

/-- the (up to) 16 first bytes of `bs`, zero padded on the right, as a block. -/
def ofBytes (bs : Bytes) : Block := ⟨be64 bs, be64 (bs.drop 8)⟩
def toBytes (b : Block) : Bytes := bytes64 b.hi ++ bytes64 b.lo
end Block

/-! ### GF(2^128) -/

/-- one step of SP 800-38D algorithm 1; `x` is shifted left so that its next bit is the msb of `x.hi`. -/
def gfstep (x z v : Block) : Block × Block × Block :=
  let z' := if x.hi &&& 0x8000000000000000 != 0 then z.xor v else z
  let lsb := v.lo &&& 1
  let vs : Block := ⟨v.hi >>> 1, (v.lo >>> 1) ||| (v.hi <<< 63)⟩
  let v' : Block := if lsb != 0 then ⟨vs.hi ^^^ 0xE100000000000000, vs.lo⟩ else vs
  let x' : Block := ⟨(x.hi <<< 1) ||| (x.lo >>> 63), x.lo <<< 1⟩
  (x', z', v')

def gfloop : Nat → Block → Block → Block → Block
  | 0, _, z, _ => z
  | n + 1, x, z, v => let r := gfstep x z v; gfloop n r.1 r.2.1 r.2.2

/-- X • Y in GF(2^128) with the GCM bit order and reduction polynomial. -/
def gfmul (x y : Block) : Block := gfloop 128 x Block.zero y

/-- absorb `n` 16-byte blocks of `data` (the last one zero padded). -/
def ghashBlocks (h : Block) : Nat → Block → Bytes → Block
  | 0, y, _ => y
  | n + 1, y, data => ghashBlocks h n (gfmul (y.xor (Block.ofBytes data)) h) (data.drop 16)

def nblocks (len : Nat) : Nat := (len + 15) / 16

/-- GHASH_H(A = ε, C = ct). -/
def ghash (h : Block) (ct : Bytes) : Block :=
  let y := ghashBlocks h (nblocks ct.length) Block.zero ct
  gfmul (y.xor ⟨0, UInt64.ofNat (8 * ct.length)⟩) h

/-! ### counter mode -/

def be32 (bs : Bytes) : UInt64 :=
  let g (i : Nat) : UInt64 := (bs.getD i 0).toUInt64
  (g 0 <<< 24) ||| (g 1 <<< 16) ||| (g 2 <<< 8) ||| g 3

/-- J0 for a 96-bit nonce: nonce ‖ 00 00 00 01. -/
def j0 (nonce : Bytes) : Block := ⟨Block.be64 nonce, (be32 (nonce.drop 8) <<< 32) ||| 1⟩

def inc32 (b : Block) : Block :=
  ⟨b.hi, (b.lo &&& 0xFFFFFFFF00000000) ||| ((b.lo + 1) &&& 0x00000000FFFFFFFF)⟩

def keystream {κ : Type} (E : κ → Block → Block) (k : κ) : Nat → Block → Bytes
  | 0, _ => []
  | n + 1, cb => (E k cb).toBytes ++ keystream E k n (inc32 cb)

def xorBytes : Bytes → Bytes → Bytes
  | a :: as, b :: bs => (a ^^^ b) :: xorBytes as bs
  | _, _ => []

/-- GCTR_K(cb, data). -/
def ctrXor {κ : Type} (E : κ → Block → Block) (k : κ) (cb : Block) (data : Bytes) : Bytes :=
  xorBytes data (keystream E k (nblocks data.length) cb)

/-! ### the AEAD of pkg/crypto/aead -/

def nonceSize : Nat := 12
def tagSize : Nat := 16
def blockSize : Nat := 16
/-- `gcmMaxDataSize = ((1 << 32) - 2) * gcmBlockSize`. -/
def maxDataSize : Nat := ((1 <<< 32) - 2) * blockSize

def tag {κ : Type} (E : κ → Block → Block) (k : κ) (nonce ct : Bytes) : Bytes :=
  ((ghash (E k Block.zero) ct).xor (E k (j0 nonce))).toBytes

/-- ciphertext part of `Seal`. -/
def encBody {κ : Type} (E : κ → Block → Block) (k : κ) (nonce pt : Bytes) : Bytes :=
  ctrXor E k (inc32 (j0 nonce)) pt

/-- what `cryptoFunc.Encrypt` returns when the random nonce drawn is `nonce`:  ct ‖ tag ‖ nonce. -/
def gcmSeal {κ : Type} (E : κ → Block → Block) (k : κ) (nonce pt : Bytes) : Bytes :=
  let ct := encBody E k nonce pt
  ct ++ tag E k nonce ct ++ nonce

inductive Err where
  | keySize      -- aes.NewCipher rejected the key
  | tooLarge     -- Encrypt: "data too large for GCM"
  | shortNonce   -- Decrypt: "data length is shorter than nonce size"
  | auth         -- Decrypt: "error decrypting data: cipher: message authentication failed"
deriving DecidableEq, Repr, Inhabited

def Err.name : Err → String
  | .keySize => "keysize" | .tooLarge => "toolarge" | .shortNonce => "short" | .auth => "auth"

/-- `cryptoFunc.Decrypt` after the cipher has been built (no branch of it can panic). -/
def gcmOpenE {κ : Type} (E : κ → Block → Block) (k : κ) (c : Bytes) : Except Err Bytes :=
  if c.length < nonceSize then .error .shortNonce else
  let noncePos := c.length - nonceSize
  let nonce := c.drop noncePos
  let body := c.take noncePos
  -- gcm.Open
  if body.length < tagSize then .error .auth else
  if body.length > maxDataSize + tagSize then .error .auth else
  let t := body.drop (body.length - tagSize)
  let ct := body.take (body.length - tagSize)
  if t == tag E k nonce ct then .ok (ctrXor E k (inc32 (j0 nonce)) ct) else .error .auth

def gcmOpen {κ : Type} (E : κ → Block → Block) (k : κ) (c : Bytes) : Option Bytes :=
  match gcmOpenE E k c with
  | .ok p => some p
  | .error _ => none

/-- the last 12 bytes (the nonce position of the layout). -/
def last12 (c : Bytes) : Bytes := c.drop (c.length - nonceSize)

/-- `cryptoFunc.Encrypt` after the cipher has been built, with the random source's answer `nonce`
(exactly `nonceSize` bytes are requested from `internal.FillRandom`). -/
def gcmSealE {κ : Type} (E : κ → Block → Block) (k : κ) (nonce pt : Bytes) : Except Err Bytes :=
  if pt.length > maxDataSize then .error .tooLarge else .ok (gcmSeal E k nonce pt)

/-- a block cipher with its key set-up (`aes.NewCipher`: `prep = none` ⇔ key size error). -/
structure Cipher where
  κ : Type
  prep : Bytes → Option κ
  E : κ → Block → Block

/-- `cryptoFunc.Encrypt(data, key)` with the nonce the random source delivers. -/
def goEncrypt (C : Cipher) (key nonce data : Bytes) : Except Err Bytes :=
  match C.prep key with
  | none => .error .keySize
  | some k => gcmSealE C.E k nonce data

/-- `cryptoFunc.Decrypt(data, key)`. -/
def goDecrypt (C : Cipher) (key data : Bytes) : Except Err Bytes :=
  match C.prep key with
  | none => .error .keySize
  | some k => gcmOpenE C.E k data

end AsherahVerif.Gcm
