/-
E2 — executable model of `go/appencryption/pkg/cache` (cache.go, lru.go, lfu.go, tlfu.go).

Keys and values are `Nat`.  Go's pointer structure (`map[K]*cacheItem`, `container/list`
elements, `item.parent`) is flattened into
  * `items`  — `byKey` as an association list (one entry per key),
  * `pol`    — the eviction policy's bookkeeping as lists of keys.
Every place where the Go code would dereference nil is an explicit `Res.panic`
(capacity 0: `Set` evicts a nil victim).  The frequency sketch / doorkeeper of TinyLFU is
an oracle: the `Nat → Bool` argument of `step` answers "candidateFreq > victimFreq" for the
i-th eviction the operation performs (counted down from the number of items for `Close`).

Core Lean only (this file is linked into the `modeldriver` executable).
-/
namespace AsherahVerif.Cache

inductive Kind | lru | lfu | slru | tinylfu
deriving DecidableEq, Repr, Inhabited

structure Item where
  key : Nat
  val : Nat
  exp : Nat          -- `expiration`; only meaningful when the cache has an expiry
deriving DecidableEq, Repr, Inhabited

/-- segmented LRU (lru.go `slru`): both lists most-recently-used first. -/
structure Slru where
  protCap : Nat
  prob : List Nat
  prot : List Nat
deriving DecidableEq, Repr, Inhabited

/-- policy bookkeeping.
* `lru order`   : `evictList`, front = most recently used.
* `lfu ents`    : `(key, frequency)` in the order in which the keys entered their current
                  frequency bucket (oldest first).  Go keeps one `byAccess` list per frequency,
                  appended at the back; restricting `ents` to one frequency gives that list.
* `slru`        : probation / protected.
* `tiny w win s`: admission window LRU of capacity `w` (`win`, MRU first) in front of an SLRU. -/
inductive Pol
  | lru (order : List Nat)
  | lfu (ents : List (Nat × Nat))
  | slru (s : Slru)
  | tiny (winCap : Nat) (win : List Nat) (s : Slru)
deriving DecidableEq, Repr, Inhabited

structure Cache where
  cap : Nat
  expiry : Nat               -- 0 = no expiry (Go: `c.expiry > 0` guards every use)
  now : Nat                  -- the injected `Clock`
  items : List Item          -- byKey
  pol : Pol
  closing : Bool
deriving Repr, Inhabited

inductive Op
  | set (k v : Nat) | get (k : Nat) | del (k : Nat) | len | capacity | tick (d : Nat) | close
deriving DecidableEq, Repr, Inhabited

inductive Res
  | unit | val (v : Nat) | miss | bool (b : Bool) | num (n : Nat) | panic
deriving DecidableEq, Repr, Inhabited

/-! ### policy primitives -/

def moveFront (k : Nat) (l : List Nat) : List Nat := k :: l.erase k

namespace Slru
def access (s : Slru) (k : Nat) : Slru :=
  if k ∈ s.prot then { s with prot := moveFront k s.prot }
  else
    let prob := s.prob.erase k
    let prot := k :: s.prot
    if prot.length > s.protCap then
      -- demote the protected LRU tail to the front of probation
      match prot.getLast? with
      | some b => { s with prob := b :: prob, prot := prot.dropLast }
      | none => { s with prob := prob, prot := prot }
    else { s with prob := prob, prot := prot }
def admit (s : Slru) (k : Nat) : Slru := { s with prob := k :: s.prob }
def victim (s : Slru) : Option Nat :=
  match s.prob.getLast? with
  | some k => some k
  | none => s.prot.getLast?
def remove (s : Slru) (k : Nat) : Slru :=
  if k ∈ s.prot then { s with prot := s.prot.erase k } else { s with prob := s.prob.erase k }
def keys (s : Slru) : List Nat := s.prob ++ s.prot
end Slru

/-- minimum frequency present. -/
def lfuMin : List (Nat × Nat) → Option Nat
  | [] => none
  | (_, f) :: t => match lfuMin t with
    | none => some f
    | some m => some (min f m)

def lfuFreq (ents : List (Nat × Nat)) (k : Nat) : Option Nat :=
  (ents.find? (·.1 == k)).map (·.2)

def lfuErase (ents : List (Nat × Nat)) (k : Nat) : List (Nat × Nat) :=
  ents.filter (·.1 != k)

/-- `lfu.increment`: a new item enters frequency 1, a known one moves to `f+1`; in both cases
it goes to the back of that frequency's access list. -/
def lfuIncr (ents : List (Nat × Nat)) (k : Nat) : List (Nat × Nat) :=
  match lfuFreq ents k with
  | none => ents ++ [(k, 1)]
  | some f => lfuErase ents k ++ [(k, f + 1)]

def lfuVictim (ents : List (Nat × Nat)) : Option Nat :=
  match lfuMin ents with
  | none => none
  | some m => (ents.find? (·.2 == m)).map (·.1)

namespace Pol
def keys : Pol → List Nat
  | .lru o => o
  | .lfu e => e.map (·.1)
  | .slru s => s.keys
  | .tiny _ w s => w ++ s.keys

def access : Pol → Nat → Pol
  | .lru o, k => .lru (moveFront k o)
  | .lfu e, k => .lfu (lfuIncr e k)
  | .slru s, k => .slru (s.access k)
  | .tiny c w s, k => if k ∈ w then .tiny c (moveFront k w) s else .tiny c w (s.access k)

def admit : Pol → Nat → Pol
  | .lru o, k => .lru (k :: o)
  | .lfu e, k => .lfu (lfuIncr e k)
  | .slru s, k => .slru (s.admit k)
  | .tiny c w s, k =>
    if c = 0 then .tiny c w (s.admit k)            -- bypassed(): no admission window
    else if w.length < c then .tiny c (k :: w) s
    else match w.getLast? with
      | some v => .tiny c (k :: w.dropLast) (s.admit v)
      | none => .tiny c (k :: w) s

def remove : Pol → Nat → Pol
  | .lru o, k => .lru (o.erase k)
  | .lfu e, k => .lfu (lfuErase e k)
  | .slru s, k => .slru (s.remove k)
  | .tiny c w s, k => if k ∈ w then .tiny c (w.erase k) s else .tiny c w (s.remove k)

/-- `Victim()`: the key to evict and the policy state afterwards (TinyLFU's `Victim` may
promote the window candidate into the main segment). `orc` = "candidateFreq > victimFreq". -/
def victim : Pol → Bool → Option Nat × Pol
  | .lru o, _ => (o.getLast?, .lru o)
  | .lfu e, _ => (lfuVictim e, .lfu e)
  | .slru s, _ => (s.victim, .slru s)
  | .tiny c w s, orc =>
    match w.getLast? with
    | none => (s.victim, .tiny c w s)
    | some cand =>
      match s.victim with
      | none => (some cand, .tiny c w s)
      | some v =>
        if orc then (some v, .tiny c w.dropLast (s.admit cand))
        else (some cand, .tiny c w s)
end Pol

/-! ### the cache -/

def lookup (items : List Item) (k : Nat) : Option Item := items.find? (·.key == k)
def eraseKey (items : List Item) (k : Nat) : List Item := items.filter (·.key != k)
def setVal (items : List Item) (k v e : Nat) : List Item :=
  items.map fun it => if it.key == k then { it with val := v, exp := e } else it

/-- `int(float64(capacity) * ratio)` is supplied by the caller (the driver computes it with
IEEE doubles from the regenerated constants; the theorems hold for every value). -/
def mk (kind : Kind) (cap expiry protCap winCap : Nat) : Cache :=
  { cap := cap, expiry := expiry, now := 0, items := [], closing := false,
    pol := match kind with
      | .lru => .lru []
      | .lfu => .lfu []
      | .slru => .slru ⟨protCap, [], []⟩
      | .tinylfu => .tiny winCap [] ⟨protCap, [], []⟩ }

/-- `evictItem`: drop from `byKey`, tell the policy, emit the callback. -/
def evictItem (c : Cache) (it : Item) : Cache × List (Nat × Nat) :=
  ({ c with items := eraseKey c.items it.key, pol := c.pol.remove it.key }, [(it.key, it.val)])

/-- `evict`: `none` = Go dereferences a nil victim (panic). -/
def evict (c : Cache) (orc : Bool) : Option (Cache × List (Nat × Nat)) :=
  match c.pol.victim orc with
  | (none, _) => none
  | (some k, pol') =>
    match lookup c.items k with
    | none => none
    | some it => some (evictItem { c with pol := pol' } it)

/-- `Close`'s loop `for c.size > 0 { c.evict() }`; fuel = number of items. -/
def evictAll (orc : Nat → Bool) : Nat → Cache → List (Nat × Nat) → Option (Cache × List (Nat × Nat))
  | 0, c, acc => some (c, acc)
  | n + 1, c, acc =>
    if c.items.isEmpty then some (c, acc)
    else match evict c (orc n) with
      | none => none
      | some (c', cbs) => evictAll orc n c' (acc ++ cbs)

def closedPol : Pol → Pol
  | .lru _ => .lru []
  | .lfu _ => .lfu []
  | .slru s => .slru { s with prob := [], prot := [] }
  | .tiny c _ s => .tiny c [] { s with prob := [], prot := [] }

def expireAt (c : Cache) : Nat := if c.expiry > 0 then c.now + c.expiry else 0

structure Out where
  cache : Cache
  res : Res
  cbs : List (Nat × Nat) := []
deriving Repr, Inhabited

def step (c : Cache) (op : Op) (orc : Nat → Bool) : Out :=
  match op with
  | .tick d => { cache := { c with now := c.now + d }, res := .unit }
  | .len => { cache := c, res := .num c.items.length }
  | .capacity => { cache := c, res := .num (if c.closing then 0 else c.cap) }
  | .set k v =>
    if c.closing then { cache := c, res := .unit }
    else match lookup c.items k with
      | some _ =>
        { cache := { c with items := setVal c.items k v (expireAt c), pol := c.pol.access k },
          res := .unit }
      | none =>
        if c.items.length = c.cap then
          match evict c (orc 0) with
          | none => { cache := c, res := .panic }
          | some (c', cbs) =>
            { cache := { c' with items := c'.items ++ [⟨k, v, expireAt c⟩], pol := c'.pol.admit k },
              res := .unit, cbs := cbs }
        else
          { cache := { c with items := c.items ++ [⟨k, v, expireAt c⟩], pol := c.pol.admit k },
            res := .unit }
  | .get k =>
    if c.closing then { cache := c, res := .miss }
    else match lookup c.items k with
      | none => { cache := c, res := .miss }
      | some it =>
        if c.expiry > 0 ∧ it.exp < c.now then
          let (c', cbs) := evictItem c it
          { cache := c', res := .miss, cbs := cbs }
        else { cache := { c with pol := c.pol.access k }, res := .val it.val }
  | .del k =>
    if c.closing then { cache := c, res := .bool false }
    else match lookup c.items k with
      | none => { cache := c, res := .bool false }
      | some _ =>
        { cache := { c with items := eraseKey c.items k, pol := c.pol.remove k }, res := .bool true }
  | .close =>
    if c.closing then { cache := c, res := .unit }
    else match evictAll orc c.items.length { c with closing := true } [] with
      | none => { cache := { c with closing := true }, res := .panic }
      | some (c', cbs) => { cache := { c' with pol := closedPol c'.pol }, res := .unit, cbs := cbs }

/-- run a whole operation list with one oracle answer per operation. -/
def run (c : Cache) : List (Op × (Nat → Bool)) → Cache × List (Res × List (Nat × Nat))
  | [] => (c, [])
  | (op, orc) :: rest =>
    let o := step c op orc
    let (c', outs) := run o.cache rest
    (c', (o.res, o.cbs) :: outs)

end AsherahVerif.Cache
