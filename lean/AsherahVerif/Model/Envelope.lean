import AsherahVerif.Model.Cache
/-
E3 — executable model of the envelope-encryption core:
  go/appencryption/envelope.go, key_cache.go, session.go (factory/session wiring), policy.go
  (`newKeyTimestamp`), internal/key.go (`CryptoKey`, `IsKeyExpired`, `IsKeyInvalid`, `WithKeyFunc`).

* Crypto is symbolic: key material is a fresh `Nat` name; `Ct.enc k n pt` opens exactly under `k`.
  The byte-level counterpart (AES-256-GCM) is engine `fmt`.
* Go pointers become explicit heaps: `World.keys` (CryptoKey + cachedCryptoKey objects, mutable
  `revoked`/`refs`/`closed`), `World.secrets` (every secret the SecretFactory handed out),
  `World.bufs` (every ordinary heap slice that received plaintext key material).
* Every external call (Metastore, KMS, AEAD, SecretFactory) consumes one token of `World.faults`
  (empty = no fault) and is appended to the call log; the theorems quantify over all fault lists.
* The virtual clock `now` (ns) only moves between operations.
* Bounded key caches delegate the eviction decision to the E2 cache model (`AsherahVerif.Cache`),
  exactly as key_cache.go delegates to pkg/cache; `simple` is the never-evicting map.

Core Lean only (linked into `md_envelope`).
-/
namespace AsherahVerif.Env

inductive KeyId | sk | ik (p : Nat)
deriving DecidableEq, Repr, Inhabited

structure KeyMeta where
  kid : KeyId
  created : Int
deriving DecidableEq, Repr, Inhabited

inductive Pt | payload (p : Nat) | key (m : Nat)
deriving DecidableEq, Repr, Inhabited

inductive Ct | enc (k n : Nat) (pt : Pt) | kms (m : Nat) | junk (j : Nat)
deriving DecidableEq, Repr, Inhabited

/-- `EnvelopeKeyRecord` as stored. `parent = none` models a row without `ParentKeyMeta`. -/
structure Row where
  kid : KeyId
  created : Int
  revoked : Bool
  enc : Ct
  parent : Option KeyMeta
deriving DecidableEq, Repr, Inhabited

structure DrrKey where
  created : Int
  enc : Ct
  parent : Option KeyMeta
deriving DecidableEq, Repr, Inhabited

/-- `DataRowRecord`; `key = none` models `drr.Key == nil`. -/
structure Drr where
  key : Option DrrKey
  data : Ct
deriving DecidableEq, Repr, Inhabited

structure Secret where
  mat : Nat
  closes : Nat := 0          -- number of Close calls that reached the secret
  aac : Nat := 0             -- accesses after close
deriving Repr, Inhabited

/-- an ordinary heap slice that held plaintext key material. -/
structure Buf where
  mat : Nat
  wiped : Bool := false
deriving Repr, Inhabited

/-- `internal.CryptoKey` together with the `cachedCryptoKey` wrapper (refs; 0 = not wrapped). -/
structure KeyObj where
  created : Int
  revoked : Bool
  mat : Nat
  sec : Nat                  -- index into `World.secrets`
  closed : Bool := false     -- `once.Do(k.close)` has run
  refs : Int := 0
deriving Repr, Inhabited

structure CEntry where
  loadedAt : Int
  obj : Nat                  -- index into `World.keys`
deriving Repr, Inhabited, DecidableEq

inductive CacheMode | never | simple | bounded
deriving DecidableEq, Repr, Inhabited

/-- `keyCache` (or `neverCache`). `slots` names the cache keys the bounded policy model works on:
the position of a `KeyMeta` in `slots` is its key in `pol`. -/
structure KeyCache where
  mode : CacheMode
  ents : List (KeyMeta × CEntry) := []
  latest : List (KeyId × KeyMeta) := []
  slots : List KeyMeta := []
  pol : Cache.Cache := Cache.mk .lru 0 0 0 0
deriving Repr, Inhabited

structure Policy where
  expireAfter : Int          -- ns
  revokeInterval : Int       -- ns
  precision : Int            -- ns, 0 = none
  cacheSK : Bool
  cacheIK : Bool
  sharedIK : Bool
  skKind : Option (Cache.Kind × Nat) := none    -- none = simple
  ikKind : Option (Cache.Kind × Nat) := none
deriving Repr, Inhabited

structure Factory where
  pol : Policy
  skCache : Nat              -- index into `World.caches`
  sharedIk : Option Nat
  closed : Bool := false
deriving Repr, Inhabited

structure Session where
  fac : Nat
  part : Nat
  ikCache : Nat
  closed : Bool := false
deriving Repr, Inhabited

inductive Fault | ok | err | dup | errw
deriving DecidableEq, Repr, Inhabited

inductive Call
  | load (m : KeyMeta) (found : Bool) (failed : Bool)
  | loadLatest (k : KeyId) (found : Option Int) (failed : Bool)
  | store (m : KeyMeta) (res : Bool)
  | kmsEnc (failed : Bool)
  | kmsDec (failed : Bool)
  | aeadEnc (k : Nat) (pt : Pt) (failed : Bool)
  | aeadDec (k : Nat) (res : Option Pt)
  | newSecret (failed : Bool)
  | randSecret (failed : Bool)
deriving DecidableEq, Repr, Inhabited

structure World where
  now : Int := 0
  store : List Row := []
  mats : Nat := 0
  nonces : Nat := 0
  secrets : List Secret := []
  bufs : List Buf := []
  keys : List KeyObj := []
  caches : List KeyCache := []
  facs : List Factory := []
  sessions : List Session := []
  faults : List Fault := []
  log : List Call := []
deriving Repr, Inhabited

inductive Err
  | metastore | kms | aead | alloc | notFound | badRecord | wrongPartition | secretClosed | noParent | closed | panic
deriving DecidableEq, Repr, Inhabited

/-- state + error monad; the state survives an error, as in Go. -/
def M (α : Type) := World → Except Err α × World

instance : Monad M where
  pure a := fun w => (.ok a, w)
  bind x f := fun w => match x w with
    | (.ok a, w') => f a w'
    | (.error e, w') => (.error e, w')

def throw {α : Type} (e : Err) : M α := fun w => (.error e, w)
def get : M World := fun w => (.ok w, w)
def modify (f : World → World) : M Unit := fun w => (.ok (), f w)
/-- run `x`; then run `fin` whatever `x` returned (Go `defer`). -/
def finallyDo {α : Type} (x : M α) (fin : M Unit) : M α := fun w =>
  match x w with
  | (r, w') => match fin w' with
    | (_, w'') => (r, w'')
/-- run `x` and hand its outcome to the continuation (Go `if err != nil { … }`). -/
def tryM {α : Type} (x : M α) : M (Except Err α) := fun w =>
  match x w with
  | (r, w') => (.ok r, w')

def logCall (c : Call) : M Unit := modify fun w => { w with log := w.log ++ [c] }

def takeFault : M Fault := fun w =>
  match w.faults with
  | [] => (.ok .ok, w)
  | f :: rest => (.ok f, { w with faults := rest })

/-! ### list helpers -/

def setAt {α : Type} (l : List α) (i : Nat) (f : α → α) : List α :=
  l.mapIdx fun j a => if j = i then f a else a

def assocGet {κ α : Type} [DecidableEq κ] (l : List (κ × α)) (k : κ) : Option α :=
  (l.find? (·.1 = k)).map (·.2)

def assocSet {κ α : Type} [DecidableEq κ] (l : List (κ × α)) (k : κ) (v : α) : List (κ × α) :=
  if (l.find? (·.1 = k)).isSome then l.map fun p => if p.1 = k then (k, v) else p
  else l ++ [(k, v)]

def assocDel {κ α : Type} [DecidableEq κ] (l : List (κ × α)) (k : κ) : List (κ × α) :=
  l.filter (·.1 ≠ k)

/-! ### Metastore (insert-only table; `Row.revoked` flips only through `World.revoke`) -/

def findRow (store : List Row) (m : KeyMeta) : Option Row :=
  store.find? fun r => r.kid = m.kid ∧ r.created = m.created

def latestRow (store : List Row) (k : KeyId) : Option Row :=
  (store.filter (·.kid = k)).foldl
    (fun acc r => match acc with
      | none => some r
      | some a => if a.created < r.created then some r else some a) none

def msLoad (m : KeyMeta) : M (Option Row) := do
  let f ← takeFault
  let w ← get
  if f ≠ .ok then
    logCall (.load m false true); throw .metastore
  else
    let r := findRow w.store m
    logCall (.load m r.isSome false)
    pure r

def msLoadLatest (k : KeyId) : M (Option Row) := do
  let f ← takeFault
  let w ← get
  if f ≠ .ok then
    logCall (.loadLatest k none true); throw .metastore
  else
    let r := latestRow w.store k
    logCall (.loadLatest k (r.map (·.created)) false)
    pure r

/-- `tryStore`: every failure (error, duplicate, error-after-write) is just `false`. -/
def msStore (r : Row) : M Bool := do
  let f ← takeFault
  let w ← get
  let exists_ := (findRow w.store ⟨r.kid, r.created⟩).isSome
  match f with
  | .ok =>
    if exists_ then logCall (.store ⟨r.kid, r.created⟩ false); pure false
    else
      modify fun w => { w with store := w.store ++ [r] }
      logCall (.store ⟨r.kid, r.created⟩ true); pure true
  | .errw =>
    -- the row is written (if absent) but the caller sees a failure
    if !exists_ then modify fun w => { w with store := w.store ++ [r] }
    logCall (.store ⟨r.kid, r.created⟩ false); pure false
  | _ => logCall (.store ⟨r.kid, r.created⟩ false); pure false

/-! ### SecretFactory, secrets, heap buffers -/

def newBuf (m : Nat) : M Nat := fun w => (.ok w.bufs.length, { w with bufs := w.bufs ++ [{ mat := m }] })
def wipeBuf (b : Nat) : M Unit := modify fun w => { w with bufs := setAt w.bufs b fun x => { x with wiped := true } }

/-- `factory.New(buf)`: copies into protected memory and wipes the source, also when it fails. -/
def secretNew (b : Nat) (m : Nat) : M Nat := do
  let f ← takeFault
  wipeBuf b
  if f ≠ .ok then logCall (.newSecret true); throw .alloc
  else
    logCall (.newSecret false)
    fun w => (.ok w.secrets.length, { w with secrets := w.secrets ++ [{ mat := m }] })

/-- `factory.CreateRandom(32)`: a fresh material name. -/
def secretRandom : M (Nat × Nat) := do
  let f ← takeFault
  if f ≠ .ok then logCall (.randSecret true); throw .alloc
  else
    logCall (.randSecret false)
    fun w => (.ok (w.secrets.length, w.mats),
              { w with secrets := w.secrets ++ [{ mat := w.mats }], mats := w.mats + 1 })

def secretClose (s : Nat) : M Unit :=
  modify fun w => { w with secrets := setAt w.secrets s fun x => { x with closes := x.closes + 1 } }

/-! ### CryptoKey / cachedCryptoKey objects -/

def newKeyObj (created : Int) (revoked : Bool) (mat sec : Nat) : M Nat := fun w =>
  (.ok w.keys.length, { w with keys := w.keys ++ [{ created, revoked, mat, sec }] })

def keyObj (o : Nat) : M KeyObj := fun w => (.ok (w.keys.getD o default), w)

/-- `CryptoKey.Close`: `once.Do` → `secret.Close()`. -/
def keyCloseRaw (o : Nat) : M Unit := do
  let k ← keyObj o
  if k.closed then pure ()
  else
    modify fun w => { w with keys := setAt w.keys o fun x => { x with closed := true } }
    secretClose k.sec

/-- `cachedCryptoKey.Close`: decrement; at zero (or below) close the key. -/
def keyRelease (o : Nat) : M Unit := do
  modify fun w => { w with keys := setAt w.keys o fun x => { x with refs := x.refs - 1 } }
  let k ← keyObj o
  if k.refs > 0 then pure () else keyCloseRaw o

def keyIncr (o : Nat) : M Unit :=
  modify fun w => { w with keys := setAt w.keys o fun x => { x with refs := x.refs + 1 } }

/-- `newCachedCryptoKey`: the wrapper starts with one reference. -/
def keyWrap (o : Nat) : M Unit :=
  modify fun w => { w with keys := setAt w.keys o fun x => { x with refs := 1 } }

/-- `internal.WithKeyFunc`: access to a destroyed secret is an error (and is recorded). -/
def withKey {α : Type} (o : Nat) (f : Nat → M α) : M α := do
  let k ← keyObj o
  let w ← get
  let s := w.secrets.getD k.sec default
  if s.closes > 0 then
    modify fun w => { w with secrets := setAt w.secrets k.sec fun x => { x with aac := x.aac + 1 } }
    throw .secretClosed
  else f k.mat

/-! ### KMS and AEAD (symbolic) -/

def kmsEncrypt (m : Nat) : M Ct := do
  let f ← takeFault
  if f ≠ .ok then logCall (.kmsEnc true); throw .kms
  else logCall (.kmsEnc false); pure (.kms m)

/-- returns (heap buffer, material). -/
def kmsDecrypt (c : Ct) : M (Nat × Nat) := do
  let f ← takeFault
  if f ≠ .ok then logCall (.kmsDec true); throw .kms
  else match c with
    | .kms m => logCall (.kmsDec false); let b ← newBuf m; pure (b, m)
    | _ => logCall (.kmsDec true); throw .kms

def aeadEncrypt (pt : Pt) (k : Nat) : M Ct := do
  let f ← takeFault
  if f ≠ .ok then logCall (.aeadEnc k pt true); throw .aead
  else
    logCall (.aeadEnc k pt false)
    fun w => (.ok (.enc k w.nonces pt), { w with nonces := w.nonces + 1 })

def aeadDecrypt (c : Ct) (k : Nat) : M Pt := do
  let f ← takeFault
  if f ≠ .ok then logCall (.aeadDec k none); throw .aead
  else match c with
    | .enc k' _ pt => if k' = k then logCall (.aeadDec k (some pt)); pure pt
                      else logCall (.aeadDec k none); throw .aead
    | _ => logCall (.aeadDec k none); throw .aead

/-! ### policy.go / internal/key.go -/

def nsPerSec : Int := 1000000000

/-- `time.Now().After(time.Unix(created,0).Add(expireAfter))`. -/
def isExpired (now created expireAfter : Int) : Bool := now > created * nsPerSec + expireAfter

/-- `newKeyTimestamp`: truncate to the precision (a divisor of a day, see DESIGN §7), then seconds. -/
def keyTimestamp (now precision : Int) : Int :=
  if precision > 0 then (now - now % precision) / nsPerSec else now / nsPerSec

def isKeyInvalid (k : KeyObj) (now expireAfter : Int) : Bool := k.revoked || isExpired now k.created expireAfter

/-! ### key_cache.go -/

def getCache (c : Nat) : M KeyCache := fun w => (.ok (w.caches.getD c default), w)
def setCache (c : Nat) (kc : KeyCache) : M Unit :=
  modify fun w => { w with caches := setAt w.caches c fun _ => kc }

def slotOf (kc : KeyCache) (m : KeyMeta) : Option Nat :=
  let i := kc.slots.findIdx (· = m)
  if i < kc.slots.length then some i else none

/-- release a list of keys in order (eviction callbacks, `Close`). -/
def releaseAll : List Nat → M Unit
  | [] => pure ()
  | v :: rest => do keyRelease v; releaseAll rest

/-- `c.keys.Get(id)` (bounded: also touches the policy's recency/frequency bookkeeping). -/
def cacheGet (c : Nat) (m : KeyMeta) : M (Option CEntry) := do
  let kc ← getCache c
  match kc.mode with
  | .never => pure none
  | .simple => pure (assocGet kc.ents m)
  | .bounded =>
    match slotOf kc m with
    | none => pure none
    | some s =>
      let o := Cache.step kc.pol (.get s) (fun _ => false)
      setCache c { kc with pol := o.cache }
      match o.res with
      | .val _ => pure (assocGet kc.ents m)
      | _ => pure none

/-- `c.keys.Set(id, e)`; evicted entries get the `onEvict` callback = `value.key.Close()`. -/
def cacheSet (c : Nat) (m : KeyMeta) (e : CEntry) : M Unit := do
  let kc ← getCache c
  match kc.mode with
  | .never => pure ()
  | .simple => setCache c { kc with ents := assocSet kc.ents m e }
  | .bounded =>
    let (kc, s) := match slotOf kc m with
      | some s => (kc, s)
      | none => ({ kc with slots := kc.slots ++ [m] }, kc.slots.length)
    let o := Cache.step kc.pol (.set s 0) (fun _ => false)
    let evicted := o.cbs.filterMap fun (k, _) => kc.slots[k]?
    let ents := evicted.foldl (fun acc em => assocDel acc em) kc.ents
    let victims := evicted.filterMap fun em => (assocGet kc.ents em).map (·.obj)
    setCache c { kc with pol := o.cache, ents := assocSet ents m e }
    releaseAll victims

def getLatestMeta (kc : KeyCache) (k : KeyId) : Option KeyMeta := assocGet kc.latest k

/-- `read`: `Created == 0` means "latest" and goes through the alias map. -/
def cacheRead (c : Nat) (m : KeyMeta) : M (Option CEntry) := do
  let kc ← getCache c
  let m' := if m.created = 0 then (getLatestMeta kc m.kid).getD m else m
  cacheGet c m'

def isReloadRequired (e : CEntry) (k : KeyObj) (now interval : Int) : Bool :=
  if k.revoked then false else e.loadedAt + interval < now

/-- `getFresh`: (key, fresh?) — a stale hit returns the key with `false`. -/
def getFresh (c : Nat) (m : KeyMeta) (interval : Int) : M (Option Nat × Bool) := do
  match ← cacheRead c m with
  | none => pure (none, false)
  | some e =>
    let k ← keyObj e.obj
    let w ← get
    if isReloadRequired e k w.now interval then pure (some e.obj, false) else pure (some e.obj, true)

/-- `write`: maintain the latest alias, then `Set`; a replaced entry holding another key object
has the cache's reference released (F-2 repair). -/
def cacheWrite (c : Nat) (m : KeyMeta) (e : CEntry) : M Unit := do
  let k ← keyObj e.obj
  let kc ← getCache c
  let m' : KeyMeta := if m.created = 0 then ⟨m.kid, k.created⟩ else m
  let setLatest : Bool :=
    if m.created = 0 then true
    else match getLatestMeta kc m.kid with
      | none => true
      | some l => l.created < k.created
  if setLatest then setCache c { kc with latest := assocSet kc.latest m.kid m' }
  let kc ← getCache c
  let existing := match kc.mode with
    | .never => none
    | _ => assocGet kc.ents m'
  -- peek (Go: `c.keys.Get(id)`, which for a bounded cache also counts as an access)
  let _ ← cacheGet c m'
  match existing with
  | some old => if old.obj ≠ e.obj then keyRelease old.obj
  | none => pure ()
  cacheSet c m' e

/-- `load`: call the loader; merge into an existing entry only when it is the same key
(same creation stamp, F-1 repair); otherwise cache the loaded key. -/
def cacheLoad (c : Nat) (m : KeyMeta) (loader : KeyMeta → M Nat) : M Nat := do
  let k ← loader m
  let ko ← keyObj k
  match ← cacheRead c m with
  | some e =>
    let eo ← keyObj e.obj
    if eo.created = ko.created then
      modify fun w => { w with keys := setAt w.keys e.obj fun x => { x with revoked := ko.revoked } }
      let w ← get
      keyCloseRaw k
      let e' : CEntry := { e with loadedAt := w.now }
      cacheWrite c m e'
      pure e.obj
    else
      let w ← get
      keyWrap k
      cacheWrite c m { loadedAt := w.now, obj := k }
      pure k
  | none =>
    let w ← get
    keyWrap k
    cacheWrite c m { loadedAt := w.now, obj := k }
    pure k

/-- `keyCacher.GetOrLoad` for both `keyCache` and `neverCache`. -/
def getOrLoad (c : Nat) (m : KeyMeta) (interval : Int) (loader : KeyMeta → M Nat) : M Nat := do
  let kc ← getCache c
  match kc.mode with
  | .never =>
    let k ← loader m
    keyWrap k
    pure k
  | _ =>
    -- read-locked fast path and write-locked slow path do the same lookup sequentially
    match ← getFresh c m interval with
    | (some k, true) => keyIncr k; pure k
    | _ =>
      match ← getFresh c m interval with
      | (some k, true) => keyIncr k; pure k
      | _ =>
        let k ← cacheLoad c m loader
        keyIncr k
        pure k

/-- `keyCacher.GetOrLoadLatest`. -/
def getOrLoadLatest (c : Nat) (kid : KeyId) (interval expireAfter : Int) (loader : KeyMeta → M Nat) : M Nat := do
  let kc ← getCache c
  match kc.mode with
  | .never =>
    let k ← loader ⟨kid, 0⟩
    keyWrap k
    pure k
  | _ =>
    let m : KeyMeta := ⟨kid, 0⟩
    let key ← match ← getFresh c m interval with
      | (some k, true) => pure k
      | _ => cacheLoad c m loader
    let ko ← keyObj key
    let w ← get
    if isKeyInvalid ko w.now expireAfter then
      let reloaded ← loader m
      let ro ← keyObj reloaded
      let w ← get
      keyWrap reloaded
      cacheWrite c ⟨kid, ro.created⟩ { loadedAt := w.now, obj := reloaded }
      keyIncr reloaded
      pure reloaded
    else
      keyIncr key
      pure key

/-- `keyCache.Close` / `neverCache.Close`. -/
def cacheClose (c : Nat) : M Unit := do
  let kc ← getCache c
  match kc.mode with
  | .never => pure ()
  | .simple => releaseAll (kc.ents.map (·.2.obj))
  | .bounded =>
    let o := Cache.step kc.pol .close (fun _ => false)
    let evicted := o.cbs.filterMap fun (k, _) => kc.slots[k]?
    let victims := evicted.filterMap fun em => (assocGet kc.ents em).map (·.obj)
    setCache c { kc with pol := o.cache, ents := [] }
    releaseAll victims

/-! ### envelope.go -/

structure Ctx where
  pol : Policy
  part : Nat
  skCache : Nat
  ikCache : Nat

def Ctx.ikId (x : Ctx) : KeyId := .ik x.part

def isEnvelopeInvalid (x : Ctx) (r : Row) (now : Int) : Bool :=
  isExpired now r.created x.pol.expireAfter || r.revoked

/-- `generateKey`. -/
def generateKey (x : Ctx) : M Nat := do
  let w ← get
  let created := keyTimestamp w.now x.pol.precision
  let (s, m) ← secretRandom
  newKeyObj created false m s

/-- `systemKeyFromEKR`. -/
def systemKeyFromEKR (r : Row) : M Nat := do
  let (b, m) ← kmsDecrypt r.enc
  let s ← secretNew b m
  newKeyObj r.created r.revoked m s

/-- `loadSystemKey`. -/
def loadSystemKey (m : KeyMeta) : M Nat := do
  match ← msLoad m with
  | none => throw .notFound
  | some r => systemKeyFromEKR r

/-- `getOrLoadSystemKey`. -/
def getOrLoadSystemKey (x : Ctx) (m : KeyMeta) : M Nat :=
  getOrLoad x.skCache m x.pol.revokeInterval loadSystemKey

/-- `tryStoreSystemKey`. -/
def tryStoreSystemKey (sk : Nat) : M Bool := do
  let ko ← keyObj sk
  let enc ← withKey sk fun m => kmsEncrypt m
  msStore { kid := .sk, created := ko.created, revoked := false, enc := enc, parent := none }

/-- `mustLoadLatest`. -/
def mustLoadLatest (k : KeyId) : M Row := do
  match ← msLoadLatest k with
  | none => throw .notFound
  | some r => pure r

/-- `loadLatestOrCreateSystemKey`. -/
def loadLatestOrCreateSystemKey (x : Ctx) : M Nat := do
  let r ← msLoadLatest .sk
  let w ← get
  match r with
  | some r =>
    if !isEnvelopeInvalid x r w.now then systemKeyFromEKR r
    else createSK
  | none => createSK
where
  createSK : M Nat := do
    let sk ← generateKey x
    match ← tryM (tryStoreSystemKey sk) with
    | .ok true => pure sk
    | .ok false =>
      keyCloseRaw sk
      let r ← mustLoadLatest .sk
      systemKeyFromEKR r
    | .error e =>
      keyCloseRaw sk
      throw e

/-- `intermediateKeyFromEKR`: if the row names another system key than the one at hand, fetch
that one (and — F-3 — release it afterwards). -/
def intermediateKeyFromEKR (x : Ctx) (sk : Nat) (r : Row) (releaseLoaded : Bool) : M Nat := do
  let so ← keyObj sk
  let (sk', loaded) ← match r.parent with
    | some p =>
      if so.created ≠ p.created then do
        let l ← getOrLoadSystemKey x p
        pure (l, true)
      else pure (sk, false)
    | none => pure (sk, false)
  let body : M Nat := do
    let pt ← withKey sk' fun skm => aeadDecrypt r.enc skm
    match pt with
    | .key m =>
      let b ← newBuf m
      let s ← secretNew b m
      newKeyObj r.created r.revoked m s
    | .payload _ => throw .aead      -- not key-shaped: `factory.New` would wrap garbage; see DESIGN
  if loaded && releaseLoaded then finallyDo body (keyRelease sk') else body

/-- `tryStoreIntermediateKey`. -/
def tryStoreIntermediateKey (x : Ctx) (ik sk : Nat) : M Bool := do
  let io ← keyObj ik
  let so ← keyObj sk
  let enc ← withKey ik fun ikm => withKey sk fun skm => aeadEncrypt (.key ikm) skm
  msStore { kid := x.ikId, created := io.created, revoked := false, enc := enc,
            parent := some ⟨.sk, so.created⟩ }

/-- `createIntermediateKey`. -/
def createIntermediateKey (x : Ctx) (releaseLoaded : Bool) : M Nat := do
  let sk ← getOrLoadLatest x.skCache .sk x.pol.revokeInterval x.pol.expireAfter
            (fun _ => loadLatestOrCreateSystemKey x)
  finallyDo (do
    let ik ← generateKey x
    match ← tryM (tryStoreIntermediateKey x ik sk) with
    | .ok true => pure ik
    | .ok false =>
      keyCloseRaw ik
      let r ← mustLoadLatest x.ikId
      intermediateKeyFromEKR x sk r releaseLoaded
    | .error e =>
      keyCloseRaw ik
      throw e) (keyRelease sk)

/-- `getValidIntermediateKey`. -/
def getValidIntermediateKey (x : Ctx) (sk : Nat) (r : Row) (releaseLoaded : Bool) : M (Option Nat) := do
  let so ← keyObj sk
  let w ← get
  if isKeyInvalid so w.now x.pol.expireAfter then pure none
  else match ← tryM (intermediateKeyFromEKR x sk r releaseLoaded) with
    | .ok ik => pure (some ik)
    | .error _ => pure none

/-- `loadLatestOrCreateIntermediateKey` (a latest row without parent meta is an error, F-8 repair). -/
def loadLatestOrCreateIntermediateKey (x : Ctx) (releaseLoaded : Bool) : M Nat := do
  let r ← msLoadLatest x.ikId
  let w ← get
  match r with
  | none => createIntermediateKey x releaseLoaded
  | some r =>
    if isEnvelopeInvalid x r w.now then createIntermediateKey x releaseLoaded
    else match r.parent with
      | none => throw .noParent
      | some p =>
        match ← tryM (getOrLoadSystemKey x p) with
        | .error _ => createIntermediateKey x releaseLoaded
        | .ok sk =>
          finallyDo (do
            match ← getValidIntermediateKey x sk r releaseLoaded with
            | some ik => pure ik
            | none => createIntermediateKey x releaseLoaded) (keyRelease sk)

/-- `loadIntermediateKey` (row without parent meta is an error, F-8 repair). -/
def loadIntermediateKey (x : Ctx) (m : KeyMeta) (releaseLoaded : Bool) : M Nat := do
  match ← msLoad m with
  | none => throw .notFound
  | some r =>
    match r.parent with
    | none => throw .noParent
    | some p =>
      let sk ← getOrLoadSystemKey x p
      finallyDo (intermediateKeyFromEKR x sk r releaseLoaded) (keyRelease sk)

/-- `EncryptPayload`. -/
def encryptPayload (x : Ctx) (payload : Nat) (releaseLoaded : Bool) : M Drr := do
  let ik ← getOrLoadLatest x.ikCache x.ikId x.pol.revokeInterval x.pol.expireAfter
            (fun _ => loadLatestOrCreateIntermediateKey x releaseLoaded)
  finallyDo (do
    let w ← get
    let (s, m) ← secretRandom
    let drk ← newKeyObj (w.now / nsPerSec) false m s
    finallyDo (do
      let encData ← withKey drk fun dm => aeadEncrypt (.payload payload) dm
      let encKey ← withKey ik fun im => withKey drk fun dm => aeadEncrypt (.key dm) im
      let io ← keyObj ik
      let dko ← keyObj drk
      pure { key := some { created := dko.created, enc := encKey, parent := some ⟨x.ikId, io.created⟩ },
             data := encData }) (keyCloseRaw drk)) (keyRelease ik)

/-- `decryptRow`. -/
def decryptRow (ik : Nat) (dk : DrrKey) (data : Ct) : M Nat :=
  withKey ik fun im => do
    let pt ← aeadDecrypt dk.enc im
    match pt with
    | .key dm =>
      let b ← newBuf dm
      finallyDo (do
        match ← aeadDecrypt data dm with
        | .payload p => pure p
        | .key _ => throw .aead) (wipeBuf b)
    | .payload _ => throw .aead

/-- `DecryptDataRowRecord`. -/
def decryptDataRowRecord (x : Ctx) (d : Drr) (releaseLoaded : Bool) : M Nat := do
  match d.key with
  | none => throw .badRecord
  | some dk =>
    match dk.parent with
    | none => throw .badRecord
    | some p =>
      if p.kid ≠ x.ikId then throw .wrongPartition
      else
        let ik ← getOrLoad x.ikCache p x.pol.revokeInterval (fun m => loadIntermediateKey x m releaseLoaded)
        finallyDo (decryptRow ik dk d.data) (keyRelease ik)

/-! ### session.go -/

def newCache (mode : CacheMode) (kind : Option (Cache.Kind × Nat)) (protCap winCap : Nat) : KeyCache :=
  match mode, kind with
  | .bounded, some (k, cap) => { mode := .bounded, pol := Cache.mk k cap 0 protCap winCap }
  | m, _ => { mode := m }

def addCache (kc : KeyCache) : M Nat := fun w => (.ok w.caches.length, { w with caches := w.caches ++ [kc] })

def cacheOf (on : Bool) (kind : Option (Cache.Kind × Nat)) (protCap winCap : Nat) : KeyCache :=
  if !on then newCache .never none 0 0
  else match kind with
    | none => newCache .simple none 0 0
    | some k => newCache .bounded (some k) protCap winCap

/-- `NewSessionFactory` (key caches only; the session cache is engine E4/C16). `pc`/`wc` carry
`int(float64(cap)*ratio)` for the SLRU/TinyLFU caches, computed by the driver. -/
def newFactory (p : Policy) (skPc skWc ikPc ikWc : Nat) : M Nat := do
  let sk ← addCache (cacheOf p.cacheSK p.skKind skPc skWc)
  let shared ← if p.sharedIK then do
      let c ← addCache (cacheOf true p.ikKind ikPc ikWc); pure (some c)
    else pure none
  fun w => (.ok w.facs.length, { w with facs := w.facs ++ [{ pol := p, skCache := sk, sharedIk := shared }] })

/-- `GetSession` / `newSession`. -/
def getSession (f : Nat) (part : Nat) (ikPc ikWc : Nat) : M Nat := do
  let w ← get
  let fac := w.facs.getD f default
  let ikc ← match fac.sharedIk with
    | some c => pure c
    | none => addCache (cacheOf fac.pol.cacheIK fac.pol.ikKind ikPc ikWc)
  fun w => (.ok w.sessions.length, { w with sessions := w.sessions ++ [{ fac := f, part := part, ikCache := ikc }] })

def sessionCtx (w : World) (s : Nat) : Ctx :=
  let ss := w.sessions.getD s default
  let fac := w.facs.getD ss.fac default
  { pol := fac.pol, part := ss.part, skCache := fac.skCache, ikCache := ss.ikCache }

/-- `Session.Close` → `envelopeEncryption.Close`. The `closed` flag is a ghost (Go keeps none):
the properties only speak about operations on sessions and factories that are still open. -/
def closeSession (s : Nat) : M Unit := do
  let w ← get
  let ss := w.sessions.getD s default
  let fac := w.facs.getD ss.fac default
  modify fun w => { w with sessions := setAt w.sessions s fun x => { x with closed := true } }
  if fac.pol.sharedIK then pure () else cacheClose ss.ikCache

/-- `SessionFactory.Close`. -/
def closeFactory (f : Nat) : M Unit := do
  let w ← get
  let fac := w.facs.getD f default
  modify fun w => { w with facs := setAt w.facs f fun x => { x with closed := true } }
  match fac.sharedIk with
  | some c => cacheClose c
  | none => pure ()
  cacheClose fac.skCache

/-- a session on which the property statements still speak: neither it nor its factory is closed. -/
def sessionOpen (w : World) (s : Nat) : Prop :=
  ∃ ss, w.sessions[s]? = some ss ∧ ss.closed = false ∧ ∃ fac, w.facs[ss.fac]? = some fac ∧ fac.closed = false

/-! ### environment operations -/

/-- out-of-band revocation: flip the flag of a stored row. -/
def revoke (m : KeyMeta) : M Unit :=
  modify fun w => { w with store := w.store.map fun r =>
    if r.kid = m.kid ∧ r.created = m.created then { r with revoked := true } else r }

def advance (d : Nat) : M Unit := modify fun w => { w with now := w.now + d }

/-- public operations reset the per-operation call log and install the fault schedule. -/
def beginOp (faults : List Fault) : M Unit := modify fun w => { w with log := [], faults := faults }

def encrypt (s : Nat) (payload : Nat) (faults : List Fault) (releaseLoaded : Bool) : M Drr := do
  beginOp faults
  let w ← get
  encryptPayload (sessionCtx w s) payload releaseLoaded

def decrypt (s : Nat) (d : Drr) (faults : List Fault) (releaseLoaded : Bool) : M Nat := do
  beginOp faults
  let w ← get
  decryptDataRowRecord (sessionCtx w s) d releaseLoaded

/-! ### histories: the operations a caller and the environment can perform -/

/-- `fixLeak` = whether `intermediateKeyFromEKR` releases the extra system key reference
(true for the current tree; kept as a parameter so the pre-repair behaviour stays expressible). -/
inductive Op
  | newFactory (p : Policy) (skPc skWc ikPc ikWc : Nat)
  | getSession (f part ikPc ikWc : Nat)
  | encrypt (s payload : Nat) (faults : List Fault)
  | decrypt (s : Nat) (d : Drr) (faults : List Fault)
  | closeSession (s : Nat)
  | closeFactory (f : Nat)
  | advance (d : Nat)
  | revoke (m : KeyMeta)
  | corruptRow (m : KeyMeta) (dropParent : Bool)     -- out-of-band damage to a stored row (C07)
deriving Repr, Inhabited

inductive Out
  | unit
  | id (n : Nat)
  | record (d : Drr)
  | payload (p : Nat)
  | error (e : Err)
deriving Repr, Inhabited, DecidableEq

def corruptRow (m : KeyMeta) (dropParent : Bool) : M Unit :=
  modify fun w => { w with store := w.store.map fun r =>
    if r.kid = m.kid ∧ r.created = m.created then
      (if dropParent then { r with parent := none } else { r with enc := .junk 2 }) else r }

def applyOp (w : World) (op : Op) : Out × World :=
  let wrap {α : Type} (f : α → Out) (r : Except Err α × World) : Out × World :=
    match r with
    | (.ok a, w') => (f a, w')
    | (.error e, w') => (.error e, w')
  match op with
  | .newFactory p a b c d => wrap Out.id (newFactory p a b c d w)
  | .getSession f part c d => wrap Out.id (getSession f part c d w)
  | .encrypt s pay fl => wrap Out.record (encrypt s pay fl true w)
  | .decrypt s d fl => wrap Out.payload (decrypt s d fl true w)
  | .closeSession s => wrap (fun _ => Out.unit) ((do beginOp []; closeSession s) w)
  | .closeFactory f => wrap (fun _ => Out.unit) ((do beginOp []; closeFactory f) w)
  | .advance d => wrap (fun _ => Out.unit) (advance d w)
  | .revoke m => wrap (fun _ => Out.unit) (revoke m w)
  | .corruptRow m dp => wrap (fun _ => Out.unit) (corruptRow m dp w)

/-- run a history from a world, collecting the outputs. -/
def runOps (w : World) : List Op → List Out × World
  | [] => ([], w)
  | op :: rest =>
    let (o, w') := applyOp w op
    let (os, w'') := runOps w' rest
    (o :: os, w'')

/-- the initial world at virtual time `t`. -/
def World.init (t : Int) : World := { now := t }

/-! ### observables -/

def liveSecrets (w : World) : Nat := (w.secrets.filter (·.closes = 0)).length
def closedSecrets (w : World) : Nat := (w.secrets.filter (·.closes > 0)).length
def multiClosed (w : World) : Nat := (w.secrets.filter (·.closes > 1)).length
def accessesAfterClose (w : World) : Nat := w.secrets.foldl (fun a s => a + s.aac) 0
def dirtyBufs (w : World) : Nat := (w.bufs.filter (!·.wiped)).length

end AsherahVerif.Env
