/-
E7 — executable model of the two AWS KMS plugins
  * `go/appencryption/plugins/aws-v1/kms/aws.go`              (`Plugin.v1`)
  * `go/appencryption/plugins/aws-v2/kms/{kms,builder}.go`    (`Plugin.v2`)

What is modelled, function by function:
  `sortClients` (v1), `Builder.Build` (v2)                   → `sortClients`, `newAWSv1`, `buildV2`
  `generateDataKey` (both)                                    → `generateDataKey`
  `encryptAllRegions` (v1), `encryptRegionalKEKs`+`encryptAllRegions` (v2) → `encryptAllRegions`
  `EncryptKey` (both) incl. `defer internal.MemClr(dataKey.Plaintext)`      → `encryptKeyBody`, `encryptKey`
  `keys.get` (v1, first entry of a region), the `keks` map (v2, last entry) → `getV1`, `mapV2`
  `DecryptKey` (both)                                         → `decryptLoop`, `decryptKey`
  JSON shape of `envelope` / `encryptionKey` / `regionalKEK`  → `renderEnvelope`

External behaviour is a parameter:
  * `Cloud`   — what the regional KMS clients answer (`gen`/`enc`/`dec`), any functions;
  * the order in which v1's map iteration (`createAWSKMSClients`) / v2's `range b.arnMap` visit the
    regions — the input list of `newAWSv1` / `buildV2` is that order;
  * `sched`   — the order in which the concurrently produced regional KEKs arrive on the channel
    (any permutation; the theorems assume nothing but `List.Perm`).

Crypto is symbolic: a data key is a name (`DataKey.id`) plus `valid` (= has the AES-256 key size; the
real AEAD refuses any other); `aeadSeal k pt` opens exactly under the same valid key.  A KMS ciphertext
`Blob` records the master-key ARN it was produced under and the data key inside.

Heap buffers that receive plaintext data-key bytes from the KMS client (`GenerateDataKeyOutput.Plaintext`,
`DecryptOutput.Plaintext`) are `Buf`s with a `wiped` flag; only `memClr` sets it.

`wipe : Bool` in `decryptLoop`/`decryptKey` says whether `DecryptKey` calls `internal.MemClr` on the KMS
plaintext right after `Crypto.Decrypt`.  The code as found does not (defect F-7); the flag is
computed from the regenerated skeleton of `DecryptKey` (see Expected/Kms.lean and Props/C17.lean), so the
executable model always follows the tree it is checked against.

Where Go would dereference nil (`*resp.KeyId` when GenerateDataKey answered without a KeyId) the
model has `Res.panic` (v1: same goroutine, recoverable) resp. `Res.fatal` (v2: the dereference
happens in a goroutine of its own, the process dies).  `NewBuilder` with an empty ARN map: `Res.panic`.

Core Lean only (linked into the `md_kms` executable).
-/
namespace AsherahVerif.Kms

inductive Plugin | v1 | v2
deriving DecidableEq, Repr, Inhabited

structure DataKey where
  id : Nat
  valid : Bool
deriving DecidableEq, Repr, Inhabited

/-- AEAD ciphertext (`Crypto.Encrypt` output), symbolic. -/
inductive Ct
  | sealed (key : Nat) (pt : Nat)
  | junk
deriving DecidableEq, Repr, Inhabited

/-- `Crypto.Encrypt(pt, key)`: fails for a key that is not an AES-256 key. -/
def aeadSeal (k : DataKey) (pt : Nat) : Option Ct := if k.valid then some (.sealed k.id pt) else none

/-- `Crypto.Decrypt(ct, key)`. -/
def aeadOpen (ct : Ct) (k : DataKey) : Option Nat :=
  match ct with
  | .sealed kid pt => if k.valid = true ∧ kid = k.id then some pt else none
  | .junk => none

/-- KMS ciphertext: `key` wrapped under the master key `arn`. -/
structure Blob where
  arn : String
  key : DataKey
deriving DecidableEq, Repr, Inhabited

/-- `AWSKMSClient` (v1) / `regionalClient` (v2); `kms` identifies the client object. -/
structure Client where
  region : String
  arn : String
  kms : Nat
deriving DecidableEq, Repr, Inhabited

/-- `encryptionKey` (v1) / `regionalKEK` (v2). -/
structure Kek where
  region : String
  arn : String
  blob : Blob
deriving DecidableEq, Repr, Inhabited

structure Envelope where
  encKey : Ct
  keks : List Kek
deriving DecidableEq, Repr, Inhabited

/-- a successful `GenerateDataKeyOutput`. -/
structure GenOut where
  keyId : Option String
  key : DataKey
  blob : Blob
deriving DecidableEq, Repr, Inhabited

/-- answers of the regional KMS services during one operation (`none` = the call returned an error). -/
structure Cloud where
  gen : Client → Option GenOut
  enc : Client → DataKey → Option Blob
  dec : Client → Blob → Option DataKey

inductive Call | gen (c : Client) | enc (c : Client) | dec (c : Client)
deriving DecidableEq, Repr, Inhabited

structure Buf where
  key : DataKey
  wiped : Bool
deriving DecidableEq, Repr, Inhabited

/-- `internal.MemClr`. -/
def memClr (b : Buf) : Buf := { b with wiped := true }

inductive Err | allRegionsFailed | aead | decryptFailedAll | unmarshal | prefRequired
deriving DecidableEq, Repr, Inhabited

inductive Res (α : Type)
  | ok (a : α) | err (e : Err) | panic | fatal
deriving DecidableEq, Repr, Inhabited

/-- result, KMS calls in program order (concurrent `enc` calls: client order), plaintext buffers the
KMS clients handed out during the call, with their state when the call returns. -/
structure Out (α : Type) where
  res : Res α
  calls : List Call
  bufs : List Buf
deriving Repr

/-! ### construction: preferred region first -/

/-- v1 `sortClients`: `sort.SliceStable` with `less(i, _) = clients[i].Region == preferredRegion`.
For a list in which at most one client has the preferred region (the clients come from a map keyed by
region) this `less` agrees with the order "preferred < others" on every pair of distinct indices, so the
stable sort yields the preferred client followed by the others in their previous order. -/
def sortClients (pref : String) (cs : List Client) : List Client :=
  cs.filter (·.region == pref) ++ cs.filter (·.region != pref)

/-- v1 `NewAWS`: `cs` = the clients in map-iteration order. -/
def newAWSv1 (pref : String) (cs : List Client) : Res (List Client) := .ok (sortClients pref cs)

/-- v2 `NewBuilder(..).WithPreferredRegion(pref).Build()`: `cs` = the regions in `range b.arnMap` order. -/
def buildV2 (pref : String) (cs : List Client) : Res (List Client) :=
  if cs.isEmpty then .panic                                   -- NewBuilder: "arnMap must contain at least one entry"
  else if pref = "" ∧ cs.length > 1 then .err .prefRequired
  else .ok (cs.foldl (fun acc c => if c.region = pref then c :: acc else acc ++ [c]) [])

/-! ### EncryptKey -/

/-- `generateDataKey`: the first client whose GenerateDataKey succeeds. -/
def generateDataKey (cloud : Cloud) : List Client → Option GenOut × List Call
  | [] => (none, [])
  | c :: cs =>
    match cloud.gen c with
    | some o => (some o, [.gen c])
    | none => let r := generateDataKey cloud cs; (r.1, .gen c :: r.2)

/-- the entry a client contributes: the generator's own ciphertext when its ARN is the reported KeyId,
otherwise the result of `Encrypt` in that region, nothing when that fails. -/
def regionalKek (cloud : Cloud) (kid : String) (o : GenOut) (c : Client) : Option Kek :=
  if c.arn = kid then some ⟨c.region, c.arn, o.blob⟩
  else (cloud.enc c o.key).map fun b => ⟨c.region, c.arn, b⟩

/-- `encryptAllRegions`; `none` = nil dereference of `resp.KeyId` in the first loop iteration. -/
def encryptAllRegions (cloud : Cloud) (o : GenOut) (cs : List Client) : Option (List Kek) × List Call :=
  match cs, o.keyId with
  | [], _ => (some [], [])
  | _ :: _, none => (none, [])
  | cs, some kid => (some (cs.filterMap (regionalKek cloud kid o)), (cs.filter (·.arn ≠ kid)).map .enc)

def encryptKeyBody (p : Plugin) (cloud : Cloud) (sched : List Kek → List Kek) (clients : List Client)
    (pt : Nat) : Out Envelope :=
  match generateDataKey cloud clients with
  | (none, calls) => ⟨.err .allRegionsFailed, calls, []⟩
  | (some o, calls) =>
    let buf : Buf := ⟨o.key, false⟩                            -- dataKey.Plaintext
    match aeadSeal o.key pt with
    | none => ⟨.err .aead, calls, [buf]⟩
    | some ct =>
      match encryptAllRegions cloud o clients with
      | (none, calls') => ⟨if p = .v1 then .panic else .fatal, calls ++ calls', [buf]⟩
      | (some keks, calls') => ⟨.ok ⟨ct, sched keks⟩, calls ++ calls', [buf]⟩

/-- `EncryptKey`: the body, then the deferred `internal.MemClr(dataKey.Plaintext)` (it runs on return
and on a panic of the calling goroutine; not when the process dies). -/
def encryptKey (p : Plugin) (cloud : Cloud) (sched : List Kek → List Kek) (clients : List Client)
    (pt : Nat) : Out Envelope :=
  let o := encryptKeyBody p cloud sched clients pt
  if o.res = .fatal then o else { o with bufs := o.bufs.map memClr }

/-! ### DecryptKey -/

/-- v1 `keys.get`: the first entry of the region. -/
def getV1 (keks : List Kek) (r : String) : Option Kek := keks.find? (·.region == r)

/-- v2: `for _, kek := range kekEn.KEKs { keks[kek.Region] = kek }` — the last entry of a region wins. -/
def mapV2 (keks : List Kek) : String → Option Kek :=
  keks.foldl (fun m k => fun r => if r = k.region then some k else m r) (fun _ => none)

def lookup (p : Plugin) (keks : List Kek) : String → Option Kek :=
  match p with
  | .v1 => getV1 keks
  | .v2 => mapV2 keks

/-- the client loop of `DecryptKey`: skip clients without an entry, continue past a KMS error and past
an AEAD error, return on the first success. -/
def decryptLoop (wipe : Bool) (cloud : Cloud) (look : String → Option Kek) (ek : Ct) :
    List Client → Option Nat × List Call × List Buf
  | [] => (none, [], [])
  | c :: cs =>
    match look c.region with
    | none => decryptLoop wipe cloud look ek cs
    | some kek =>
      match cloud.dec c kek.blob with
      | none => let r := decryptLoop wipe cloud look ek cs; (r.1, .dec c :: r.2.1, r.2.2)
      | some dk =>
        let buf : Buf := ⟨dk, wipe⟩                            -- output.Plaintext (+ MemClr right after the AEAD call, if present)
        match aeadOpen ek dk with
        | none => let r := decryptLoop wipe cloud look ek cs; (r.1, .dec c :: r.2.1, buf :: r.2.2)
        | some pt => (some pt, [.dec c], [buf])

/-- `DecryptKey`; `env = none`: `json.Unmarshal` failed. -/
def decryptKey (p : Plugin) (wipe : Bool) (cloud : Cloud) (clients : List Client) (env : Option Envelope) : Out Nat :=
  match env with
  | none => ⟨.err .unmarshal, [], []⟩
  | some e =>
    let r := decryptLoop wipe cloud (lookup p e.keks) e.encKey clients
    ⟨match r.1 with | some pt => .ok pt | none => .err .decryptFailedAll, r.2.1, r.2.2⟩

/-! ### a cloud that follows the KMS contract, with injected faults -/

inductive DecMode | ok | fail | wrong (k : DataKey)
deriving DecidableEq, Repr, Inhabited

structure Faults where
  genFail : Client → Bool
  encFail : Client → Bool
  decMode : Client → DecMode
  keyId : Client → Option String      -- what GenerateDataKey reports as KeyId (AWS: the key's ARN)
  newKey : DataKey                    -- the data key GenerateDataKey hands out

/-- a region's KMS wraps under its own master key and opens only what was wrapped under it. -/
def Faults.cloud (f : Faults) : Cloud where
  gen c := if f.genFail c then none else some ⟨f.keyId c, f.newKey, ⟨c.arn, f.newKey⟩⟩
  enc c k := if f.encFail c then none else some ⟨c.arn, k⟩
  dec c b :=
    if b.arn ≠ c.arn then none else
    match f.decMode c with
    | .ok => some b.key
    | .fail => none
    | .wrong k => some k

/-! ### JSON shape (field names are parameters: they are regenerated from the struct tags) -/

structure Tags where
  encryptedKey : String
  kmsKeks : String
  region : String
  arn : String
  encryptedKek : String
deriving DecidableEq, Repr, Inhabited

def renderKey (k : DataKey) : String := (if k.valid then "dk" else "bad") ++ toString k.id

def renderCt : Ct → String
  | .sealed k p => "E(dk" ++ toString k ++ ",p" ++ toString p ++ ")"
  | .junk => "junk"

def renderKek (t : Tags) (k : Kek) : String :=
  "{" ++ t.region ++ ":" ++ k.region ++ "," ++ t.arn ++ ":" ++ k.arn ++ "," ++ t.encryptedKek ++ ":W(" ++
    k.blob.arn ++ "," ++ renderKey k.blob.key ++ ")}"

/-- `json.Marshal(envelope)` with the byte strings replaced by what they contain.  v1 initialises
`KMSKEKs` with `make(keys, 0)` (`[]`), v2 appends to a nil slice (`null` when nothing arrived). -/
def renderEnvelope (p : Plugin) (t : Tags) (e : Envelope) : String :=
  "{" ++ t.encryptedKey ++ ":" ++ renderCt e.encKey ++ "," ++ t.kmsKeks ++ ":" ++
    (if e.keks.isEmpty then (match p with | .v1 => "[]" | .v2 => "null")
     else "[" ++ ",".intercalate (e.keks.map (renderKek t)) ++ "]") ++ "}"

end AsherahVerif.Kms
