/-
E8 `server` — executable model of the per-stream handler of the gRPC sidecar,
`/repo/server/go/pkg/server/server.go`:

  Go                                              model
  ----------------------------------------------  --------------------------------------------
  streamer.handler == nil                          `HState.uninit`
  streamer.handler = &defaultHandler{session: s}   `HState.ready s`
  streamer.handler = &defaultHandler{session: nil} `HState.failedInit`   (rejected get-session)
  streamer.handleRequest (type switch)             `step`
  defaultHandler.GetSession / Encrypt / Decrypt    `hGetSession` (inside `step`) / `hEncrypt` / `hDecrypt`
  defaultHandler.Close, the `defer` in Stream      `closeHandler`, `finish`
  streamer.Stream (Recv / handle / Send loop)      `run`

Where Go dereferences a nil pointer / calls a method on a nil interface the model says `panic`
(never a default): `h.session.Encrypt`, `h.session.Decrypt`, `h.session.Close` with a nil session,
and `toProtobufDRR` on a record without `Key` / `Key.ParentKeyMeta`.

Whether `Encrypt`, `Decrypt`, `Close` test `h.session == nil` first is a parameter (`Guards`),
regenerated from the source by go/cmd/extract (Generated/Server.lean): the unchanged code has none
of the three tests (defect F-10), the repaired code has all three.

The SDK (session factory + sessions) is a parameter: `Sdk`, an oracle whose answers may depend on
the moment of the call (`tick` = index of the request on the stream), so that a stateful,
randomised SDK is covered by quantifying over all `Sdk`s.  What the SDK itself guarantees is stated
as hypotheses (`SdkLaws`), never as axioms; `simSdk` shows they are satisfiable and is what the
model driver executes.  Not modelled: the gRPC transport and the protobuf codec (a request is the
decoded oneof; getters of nil sub-messages yield zero values exactly as the generated code does).
-/
namespace AsherahVerif.Server

/-- which `defaultHandler` methods start with `if h.session == nil { … }` -/
structure Guards where
  enc : Bool
  dec : Bool
  close : Bool
deriving DecidableEq, Repr

/-- server.go as it is before the F-10 repair -/
def Guards.unfixed : Guards := ⟨false, false, false⟩
/-- server.go with the nil-session tests in Encrypt, Decrypt and Close -/
def Guards.fixed : Guards := ⟨true, true, true⟩
def Guards.all (g : Guards) : Bool := g.enc && g.dec && g.close

/-- the SDK as seen by the handler.  `tick` lets the answers depend on when they are asked. -/
structure Sdk (Id Sess Payload Record : Type) where
  /-- `sessionFactory.GetSession(id)`; `none` = error -/
  getSession : (tick : Nat) → Id → Option Sess
  /-- `session.Encrypt(ctx, data)`; `none` = error -/
  encrypt : (tick : Nat) → Sess → Payload → Option Record
  /-- `session.Decrypt(ctx, drr)`; `none` = error -/
  decrypt : (tick : Nat) → Sess → Record → Option Payload
  /-- the returned `*DataRowRecord` has non-nil `Key` and `Key.ParentKeyMeta` (`toProtobufDRR`
  dereferences both) -/
  hasKeyMeta : Record → Bool

/-- the decoded `SessionRequest` oneof -/
inductive Request (Id Payload Record : Type) where
  | getSession (id : Id)
  | encrypt (p : Payload)
  | decrypt (r : Record)
  /-- no oneof member set -/
  | empty
deriving DecidableEq, Repr

/-- the text of an `ErrorResponse`, by origin -/
inductive ErrKind where
  /-- `UninitializedSessionResponse` -/
  | uninitialized
  /-- `SessionAlreadyInitializedResponse` -/
  | alreadyInitialized
  /-- `newErrorResponse(err.Error())` for an error returned by the SDK -/
  | sdk
deriving DecidableEq, Repr

/-- what is handed to `stream.Send` -/
inductive Response (Payload Record : Type) where
  /-- `new(pb.SessionResponse)`: successful get-session -/
  | ok
  | enc (r : Record)
  | dec (p : Payload)
  | err (k : ErrKind)
  /-- `handleRequest` falls out of the type switch and returns a nil `*pb.SessionResponse` -/
  | nilMsg
deriving DecidableEq, Repr

/-- per-stream protocol state (`streamer.handler` and `defaultHandler.session`) -/
inductive HState (Sess : Type) where
  | uninit
  | ready (s : Sess)
  | failedInit
deriving DecidableEq, Repr

/-- result of one handler method -/
inductive HResp (Payload Record : Type) where
  | resp (r : Response Payload Record)
  | panic
deriving DecidableEq, Repr

/-- result of `handleRequest` -/
inductive Outcome (Sess Payload Record : Type) where
  | reply (st : HState Sess) (r : Response Payload Record)
  | panic
deriving DecidableEq, Repr

section
variable {Id Sess Payload Record : Type}

/-- `defaultHandler.Encrypt` with `h.session = sess` -/
def hEncrypt (g : Guards) (sdk : Sdk Id Sess Payload Record) (t : Nat) :
    Option Sess → Payload → HResp Payload Record
  | none, _ => if g.enc then .resp (.err .uninitialized) else .panic      -- h.session.Encrypt on nil
  | some s, p =>
    match sdk.encrypt t s p with
    | none => .resp (.err .sdk)
    | some r => if sdk.hasKeyMeta r then .resp (.enc r) else .panic       -- toProtobufDRR derefs

/-- `defaultHandler.Decrypt` with `h.session = sess` (`fromProtobufDRR` uses nil-safe getters only) -/
def hDecrypt (g : Guards) (sdk : Sdk Id Sess Payload Record) (t : Nat) :
    Option Sess → Record → HResp Payload Record
  | none, _ => if g.dec then .resp (.err .uninitialized) else .panic      -- h.session.Decrypt on nil
  | some s, r =>
    match sdk.decrypt t s r with
    | none => .resp (.err .sdk)
    | some p => .resp (.dec p)

/-- the handler's session field, `none` when there is no handler -/
def HState.session? : HState Sess → Option (Option Sess)
  | .uninit => none
  | .ready s => some (some s)
  | .failedInit => some none

def liftH (st : HState Sess) : HResp Payload Record → Outcome Sess Payload Record
  | .resp r => .reply st r
  | .panic => .panic

/-- `streamer.handleRequest` -/
def step (g : Guards) (sdk : Sdk Id Sess Payload Record) (t : Nat)
    (st : HState Sess) (req : Request Id Payload Record) : Outcome Sess Payload Record :=
  match req with
  | .decrypt r =>
    match st.session? with
    | none => .reply st (.err .uninitialized)
    | some sess => liftH st (hDecrypt g sdk t sess r)
  | .encrypt p =>
    match st.session? with
    | none => .reply st (.err .uninitialized)
    | some sess => liftH st (hEncrypt g sdk t sess p)
  | .getSession id =>
    match st.session? with
    | some _ => .reply st (.err .alreadyInitialized)
    | none =>
      -- s.handler = s.NewHandler(); defaultHandler.GetSession
      match sdk.getSession t id with
      | none => .reply .failedInit (.err .sdk)        -- handler installed, session stays nil
      | some s => .reply (.ready s) .ok
  | .empty => .reply st .nilMsg                        -- "TODO: handle default": return nil

/-- the deferred function of `Stream`: `if s.handler != nil { s.handler.Close() }` -/
inductive CloseOut (Sess : Type) where
  | noHandler
  | closed (s : Sess)
  /-- repaired code: nil session, nothing to close -/
  | skipped
  | panic
deriving DecidableEq, Repr

def closeHandler (g : Guards) : HState Sess → CloseOut Sess
  | .uninit => .noHandler
  | .ready s => .closed s
  | .failedInit => if g.close then .skipped else .panic                    -- h.session.Close on nil

/-- how `Stream` returns -/
inductive Ret where
  | nil
  | err
  | panic
deriving DecidableEq, Repr

/-- what the stream receives: a request (with the fate of the `Send` of its response) or a transport
error from `Recv`; the end of the list is `io.EOF` -/
inductive Item (Id Payload Record : Type) where
  | msg (r : Request Id Payload Record) (sendOk : Bool)
  | recvErr
deriving DecidableEq, Repr

structure Result (Id Sess Payload Record : Type) where
  /-- (tick, request, response handed to `Send`) in order -/
  log : List (Nat × Request Id Payload Record × Response Payload Record)
  ret : Ret
  /-- the session the deferred `Close` closed -/
  closed : Option Sess

def Result.sent (r : Result Id Sess Payload Record) : List (Response Payload Record) := r.log.map (·.2.2)

/-- leaving `Stream` with return value `ret`: the deferred close runs (also while panicking) -/
def finish (g : Guards) (st : HState Sess) (ret : Ret) : Result Id Sess Payload Record :=
  match closeHandler g st with
  | .panic => ⟨[], .panic, none⟩
  | .closed s => ⟨[], ret, some s⟩
  | .noHandler => ⟨[], ret, none⟩
  | .skipped => ⟨[], ret, none⟩

/-- `streamer.Stream` -/
def run (g : Guards) (sdk : Sdk Id Sess Payload Record) :
    Nat → HState Sess → List (Item Id Payload Record) → Result Id Sess Payload Record
  | _, st, [] => finish g st .nil                                  -- Recv: io.EOF, return nil
  | _, st, .recvErr :: _ => finish g st .err                       -- Recv: other error, return it
  | t, st, .msg req sendOk :: rest =>
    match step g sdk t st req with
    | .panic => finish g st .panic
    | .reply st' resp =>
      let tail := if sendOk then run g sdk (t + 1) st' rest else finish g st' .err
      { tail with log := (t, req, resp) :: tail.log }

/-- a client that only sends requests, every `Send` succeeds, then closes its side -/
def requests (reqs : List (Request Id Payload Record)) : List (Item Id Payload Record) :=
  reqs.map (Item.msg · true)

/-- number of requests `Stream` takes from `Recv` and answers before it returns for a reason other
than a panic: up to the first transport error, including the request whose `Send` failed -/
def processed : List (Item Id Payload Record) → Nat
  | [] => 0
  | .recvErr :: _ => 0
  | .msg _ true :: rest => processed rest + 1
  | .msg _ false :: _ => 1

/-- the return value `Stream` owes when nothing panics -/
def cleanRet : List (Item Id Payload Record) → Ret
  | [] => .nil
  | .recvErr :: _ => .err
  | .msg _ true :: rest => cleanRet rest
  | .msg _ false :: _ => .err

/-- what the SDK promises the handler (proved for the SDK model in E3, hypotheses here) -/
structure SdkLaws (sdk : Sdk Id Sess Payload Record) (part : Sess → Id) (emptyId : Id) : Prop where
  session_part : ∀ {t id s}, sdk.getSession t id = some s → part s = id
  rejects_empty : ∀ t, sdk.getSession t emptyId = none
  wellformed : ∀ {t s p r}, sdk.encrypt t s p = some r → sdk.hasKeyMeta r = true
  /-- a genuine record decrypts, in any session of the same partition, to what was encrypted -/
  roundtrip : ∀ {t s p r} (t' : Nat) (s' : Sess),
    sdk.encrypt t s p = some r → part s' = part s → sdk.decrypt t' s' r = some p
  /-- a record of another partition is refused -/
  foreign : ∀ {t s p r} (t' : Nat) (s' : Sess),
    sdk.encrypt t s p = some r → part s' ≠ part s → sdk.decrypt t' s' r = none
  /-- anything no session ever produced is refused (corrupted, truncated, empty, invented) -/
  corrupt : ∀ {r} (t' : Nat) (s' : Sess),
    (∀ t s p, sdk.encrypt t s p ≠ some r) → sdk.decrypt t' s' r = none

end

/-! ### a concrete SDK (satisfiability of the laws; executed by the model driver) -/

/-- record of the simulated SDK: partition and payload it was made from; `genuine = false` for
anything that did not come out of `encrypt` unchanged -/
structure SimRecord where
  part : Nat
  payload : Nat
  genuine : Bool
deriving DecidableEq, Repr

/-- partitions are numbers, 0 is the empty partition id; a session is its partition -/
def simSdk : Sdk Nat Nat Nat SimRecord where
  getSession _ id := if id = 0 then none else some id
  encrypt _ s p := some ⟨s, p, true⟩
  decrypt _ s r := if r.genuine && r.part == s then some r.payload else none
  hasKeyMeta _ := true

end AsherahVerif.Server
