import AsherahVerif.Model.Server
import AsherahVerif.Generated.Server
/-
The variant of the handler methods in the tree the facts were regenerated from: the model's `Guards`
filled in with `Generated.Server.encGuard/decGuard/closeGuard`.  Used by the model driver (so the
differential check compares the real sidecar with the model OF THE CURRENT TREE) and by Props/C19
(`current_tree`, `never_panics_current`).
-/
namespace AsherahVerif.Server

def currentGuards : Guards :=
  ⟨AsherahVerif.Generated.Server.encGuard, AsherahVerif.Generated.Server.decGuard,
   AsherahVerif.Generated.Server.closeGuard⟩

end AsherahVerif.Server
