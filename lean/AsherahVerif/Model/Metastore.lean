import AsherahVerif.Model.MetastoreCodec
/-
E6 — executable model of the four metastore implementations (property C13).

* `Table`      the specification: an insert-only table keyed by (id, created).
* `Mem`        `pkg/persistence/memory.go`: `map[string]map[int64]*EnvelopeKeyRecord`.
* `Sql`        a relational table with the documented schema `PRIMARY KEY (id, created)` executing
               the parsed statements; `sqlStep` = `pkg/persistence/sql.go` on top of it.
* `Ddb`        DynamoDB: history of accepted `PutItem`s, conditional put, `GetItem`/`Query` that see
               the whole history when `ConsistentRead = true` and the history `lag` writes ago
               otherwise (`lag` is an oracle), `ScanIndexForward`, `Limit`, projections;
               `ddb1Step` = `plugins/aws-v1/persistence/dynamodb.go`,
               `ddb2Step` = `plugins/aws-v2/dynamodb/metastore/metastore.go` on top of it.

Each Go backend = (request built from the literals regenerated from /repo, passed in as `SqlLits` /
`DdbLits` / `Names`) ∘ (backend semantics) ∘ (decoder).  Go's `(bool, error)` / `(*Record, error)` results
are `Res`; places where the Go code would panic are `Res.panic`.

`EnvelopeKeyRecord.ID` carries the tag `json:"-"` and is not part of `DynamoDBEnvelope`/`envelope`:
the three persistent backends do not store it, a loaded record has `ID = ""` (`Rec.eraseId`).

Core Lean only (linked into `md_metastore`).
-/
namespace AsherahVerif.Metastore

structure KeyMeta where
  id : String
  created : Int
deriving DecidableEq, Repr, Inhabited

/-- `appencryption.EnvelopeKeyRecord` -/
structure Rec where
  id : String
  revoked : Bool
  created : Int
  key : List UInt8
  parent : Option KeyMeta
deriving DecidableEq, Repr, Inhabited

def Rec.eraseId (r : Rec) : Rec := { r with id := "" }
def Rec.zero : Rec := ⟨"", false, 0, [], none⟩

inductive Err
  | dup          -- SQL: duplicate primary key
  | cond         -- DynamoDB: ConditionalCheckFailedException
  | injected     -- connection lost / InternalServerError (fault oracle)
  | syntax | table | column | type    -- SQL errors
  | validation   -- DynamoDB ValidationException
  | decode       -- the stored value could not be decoded
  | other
deriving DecidableEq, Repr, Inhabited

/-- what a metastore call returns.  `stored ok err` is Go's `(ok, err)`; `loaded r` is `(r, nil)`;
`fail e` is `(nil, e)`. -/
inductive Res
  | stored (ok : Bool) (err : Option Err)
  | loaded (r : Option Rec)
  | fail (e : Err)
  | panic
deriving DecidableEq, Repr, Inhabited

inductive Op
  | store (id : String) (c : Int) (r : Rec)
  | load (id : String) (c : Int)
  | latest (id : String)
deriving DecidableEq, Repr, Inhabited

def Op.id : Op → String
  | .store id _ _ => id | .load id _ => id | .latest id => id

def Op.eraseId : Op → Op
  | .store id c r => .store id c r.eraseId
  | o => o

/-- per-operation environment: `fault` = the backend request of this operation fails;
`lag` = an eventually consistent read is answered from the state `lag` writes ago. -/
structure Env where
  fault : Bool := false
  lag : Nat := 0
deriving Repr, Inhabited

/-! ## specification -/

abbrev Key := String × Int
abbrev Table := List (Key × Rec)

namespace Table

def load : Table → String → Int → Option Rec
  | [], _, _ => none
  | ((i, c'), r) :: t, id, c => if i = id ∧ c' = c then some r else load t id c

/-- insert-if-absent -/
def store (t : Table) (id : String) (c : Int) (r : Rec) : Table × Bool :=
  if (t.load id c).isSome then (t, false) else (t ++ [((id, c), r)], true)

def stamps (t : Table) (id : String) : List Int := (t.filter (·.1.1 = id)).map (·.1.2)

def maxOf : List Int → Option Int
  | [] => none
  | c :: cs => some (cs.foldl max c)

/-- the record with the greatest `created` for the id -/
def loadLatest (t : Table) (id : String) : Option Rec :=
  match maxOf (t.stamps id) with
  | none => none
  | some c => t.load id c

def step (t : Table) : Op → Table × Res
  | .store id c r => let (t', ok) := t.store id c r; (t', .stored ok none)
  | .load id c => (t, .loaded (t.load id c))
  | .latest id => (t, .loaded (t.loadLatest id))

/-- with failing requests: a failed request leaves the table unchanged and reports failure. -/
def stepF (t : Table) (op : Op) (fault : Bool) : Table × Res :=
  if fault then
    (t, match op with | .store _ _ _ => .stored false (some .injected) | _ => .fail .injected)
  else t.step op

def run (t : Table) : List (Op × Bool) → Table × List Res
  | [] => (t, [])
  | (op, f) :: rest =>
    let (t1, r) := t.stepF op f
    let (t2, rs) := run t1 rest
    (t2, r :: rs)

/-- tables are compared as finite maps -/
def Equiv (a b : Table) : Prop := ∀ id c, a.load id c = b.load id c

end Table

/-- a result as the specification sees it: Store's boolean, what a read returned; which error an
operation reported is immaterial (only that a read failed). -/
def Res.proj : Res → Res
  | .stored ok _ => .stored ok none
  | .fail _ => .fail .other
  | r => r

/-! ## generic association lists (Go maps) and sorting -/

def aGet {κ α} [DecidableEq κ] : List (κ × α) → κ → Option α
  | [], _ => none
  | (k, v) :: t, x => if k = x then some v else aGet t x

/-- `m[k] = v`: replace in place or append -/
def aSet {κ α} [DecidableEq κ] : List (κ × α) → κ → α → List (κ × α)
  | [], x, v => [(x, v)]
  | (k, w) :: t, x, v => if k = x then (k, v) :: t else (k, w) :: aSet t x v

def insertSorted {α} (lt : α → α → Bool) (x : α) : List α → List α
  | [] => [x]
  | y :: ys => if lt x y then x :: y :: ys else y :: insertSorted lt x ys

/-- stable insertion sort -/
def isort {α} (lt : α → α → Bool) (l : List α) : List α := l.foldl (fun acc x => insertSorted lt x acc) []

/-! ## in-memory metastore (memory.go) -/

abbrev Inner := List (Int × Rec)

structure Mem where
  envs : List (String × Inner) := []
deriving Repr, Inhabited

namespace Mem

/-- `s.Envelopes[keyID][created]` (a missing outer entry yields a nil map, whose lookup misses) -/
def get2 (m : Mem) (id : String) (c : Int) : Option Rec :=
  match aGet m.envs id with
  | none => none
  | some inner => aGet inner c

def load (m : Mem) (id : String) (c : Int) : Res := .loaded (m.get2 id c)

def loadLatest (m : Mem) (id : String) : Res :=
  match aGet m.envs id with
  | none => .loaded none
  | some inner =>
    -- `for created := range keyIDMap { append }`, `sort.Slice(<)`, `createdKeys[len-1]`
    let sorted := isort (fun a b => decide (a < b)) (inner.map (·.1))
    match sorted.getLast? with
    | none => .panic                       -- index out of range [-1] (an empty inner map)
    | some latest =>
      match aGet inner latest with
      | some r => .loaded (some r)
      | none => .loaded none

def store (m : Mem) (id : String) (c : Int) (r : Rec) : Mem × Res :=
  if (m.get2 id c).isSome then (m, .stored false none)
  else
    let envs1 := if (aGet m.envs id).isSome then m.envs else aSet m.envs id []
    match aGet envs1 id with
    | none => (m, .panic)                  -- assignment to entry in nil map (cannot happen: just made)
    | some inner => ({ envs := aSet envs1 id (aSet inner c r) }, .stored true none)

def step (m : Mem) : Op → Mem × Res
  | .store id c r => m.store id c r
  | .load id c => (m, m.load id c)
  | .latest id => (m, m.loadLatest id)

def run (m : Mem) : List Op → Mem × List Res
  | [] => (m, [])
  | op :: rest =>
    let (m1, r) := m.step op
    let (m2, rs) := run m1 rest
    (m2, r :: rs)

def abs (m : Mem) : Table :=
  m.envs.flatMap fun (id, inner) => inner.map fun (c, r) => ((id, c), r)

end Mem

/-! ## record codecs -/

/-- the serialised names of the record's fields (computed from regenerated struct tags) -/
structure Names where
  revoked : String
  revokedOmit : Bool
  created : String
  key : String
  parent : String
  parentOmit : Bool
  keyId : String
  pCreated : String
deriving DecidableEq, Repr, Inhabited

def tagNameS (tag : String) : String := String.ofList (tagName tag)

/-- `rec` = tags of the record struct (Go field name ↦ tag), `km` = tags of the key-meta struct -/
def Names.ofTags (rec km : List (String × String)) : Names :=
  { revoked := tagNameS (tagOf rec "Revoked"), revokedOmit := tagOmitEmpty (tagOf rec "Revoked"),
    created := tagNameS (tagOf rec "Created"), key := tagNameS (tagOf rec "EncryptedKey"),
    parent := tagNameS (tagOf rec "ParentKeyMeta"), parentOmit := tagOmitEmpty (tagOf rec "ParentKeyMeta"),
    keyId := tagNameS (tagOf km "ID"), pCreated := tagNameS (tagOf km "Created") }

/-! ### JSON row (sql.go: `json.Marshal(envelope)` / `json.Unmarshal`) -/

def memberText (name : String) (val : List Char) : List Char := jsonString name.toList ++ ':' :: val

def joinComma : List (List Char) → List Char
  | [] => []
  | [x] => x
  | x :: y :: rest => x ++ ',' :: joinComma (y :: rest)

def boolText (b : Bool) : List Char := if b then ['t', 'r', 'u', 'e'] else ['f', 'a', 'l', 's', 'e']

def keyMetaText (N : Names) (k : KeyMeta) : List Char :=
  '{' :: (joinComma [memberText N.keyId (jsonString k.id.toList), memberText N.pCreated (fmtInt k.created)] ++ ['}'])

/-- the text `json.Marshal(&EnvelopeKeyRecord{…})` produces (fields in declaration order) -/
def encodeRowText (N : Names) (r : Rec) : List Char :=
  '{' :: (joinComma (
    (if r.revoked || !N.revokedOmit then [memberText N.revoked (boolText r.revoked)] else []) ++
    [memberText N.created (fmtInt r.created), memberText N.key (jsonString (b64Encode r.key))] ++
    (match r.parent with
     | some k => [memberText N.parent (keyMetaText N k)]
     | none => if N.parentOmit then [] else [memberText N.parent ['n', 'u', 'l', 'l']])) ++ ['}'])

/-- a fold that stops at the first failure -/
def foldOpt {σ α : Type} (step : σ → α → Option σ) : σ → List α → Option σ
  | s, [] => some s
  | s, a :: t => match step s a with
    | some s' => foldOpt step s' t
    | none => none

/-- one member of a JSON object into `KeyMeta` (unknown members ignored, `null` leaves the field) -/
def stepKeyMetaJ (N : Names) (km : KeyMeta) (kv : List Char × Json) : Option KeyMeta :=
  let idx := fieldIndex [N.keyId.toList, N.pCreated.toList] kv.1
  if idx = some 0 then
    match kv.2 with
    | .str s => some { km with id := String.ofList s }
    | .null => some km
    | _ => none
  else if idx = some 1 then
    match kv.2 with
    | .num l => match parseInt l with
      | some i => some { km with created := i }
      | none => none
    | .null => some km
    | _ => none
  else some km

def decodeKeyMetaJ (N : Names) (km : KeyMeta) (kvs : List (List Char × Json)) : Option KeyMeta :=
  foldOpt (stepKeyMetaJ N) km kvs

/-- one member of a JSON object into `EnvelopeKeyRecord` -/
def stepEkrJ (N : Names) (r : Rec) (kv : List Char × Json) : Option Rec :=
  let idx := fieldIndex [N.revoked.toList, N.created.toList, N.key.toList, N.parent.toList] kv.1
  if idx = some 0 then
    match kv.2 with
    | .bool b => some { r with revoked := b }
    | .null => some r
    | _ => none
  else if idx = some 1 then
    match kv.2 with
    | .num l => match parseInt l with
      | some i => some { r with created := i }
      | none => none
    | .null => some r
    | _ => none
  else if idx = some 2 then
    match kv.2 with
    | .str s => match b64Decode s with
      | some bs => some { r with key := bs }
      | none => none
    | .null => some { r with key := [] }
    | _ => none
  else if idx = some 3 then
    match kv.2 with
    | .obj kvs =>
      -- an existing pointer is reused (a repeated member merges into it)
      match decodeKeyMetaJ N (r.parent.getD ⟨"", 0⟩) kvs with
      | some km => some { r with parent := some km }
      | none => none
    | .null => some { r with parent := none }
    | _ => none
  else some r

/-- `EnvelopeKeyRecord` from the members of a JSON object -/
def decodeEkrJ (N : Names) (r : Rec) (kvs : List (List Char × Json)) : Option Rec :=
  foldOpt (stepEkrJ N) r kvs

/-- `parseEnvelope` after `Scan`: `json.Unmarshal([]byte(text), &keyRecord)` with `keyRecord` a nil
`*EnvelopeKeyRecord`: `null` leaves it nil (the caller gets `nil, nil`), an object fills a new record,
anything else is an error. -/
def decodeRowText (N : Names) (text : String) : Except Err (Option Rec) :=
  match parseJson text.toList with
  | none => .error .decode
  | some .null => .ok none
  | some (.obj kvs) =>
    match decodeEkrJ N Rec.zero kvs with
    | some r => .ok (some r)
    | none => .error .decode
  | some _ => .error .decode

/-! ### DynamoDB items -/

def intAV (i : Int) : AV := .n (String.ofList (fmtInt i))

/-- aws-sdk-go v1 `dynamodbattribute`: empty strings are written as NULL -/
def strAV1 (s : String) : AV := if s = "" then .null else .s s

/-- `dynamodbattribute.MarshalMap(&DynamoDBEnvelope{…})` (v1; names from its `json` tags) -/
def marshalEnvelopeV1 (N : Names) (r : Rec) : Item :=
  (if r.revoked || !N.revokedOmit then [(N.revoked, AV.bool r.revoked)] else []) ++
  [(N.created, intAV r.created), (N.key, strAV1 (String.ofList (b64Encode r.key)))] ++
  (match r.parent with
   | some k => [(N.parent, AV.m [(N.keyId, strAV1 k.id), (N.pCreated, intAV k.created)])]
   | none => if N.parentOmit then [] else [(N.parent, AV.null)])

/-- `attributevalue.MarshalMap(&envelope{…})` (v2; names from the `dynamodbav` tags; empty strings stay strings) -/
def marshalEnvelopeV2 (N : Names) (r : Rec) : Item :=
  (if r.revoked || !N.revokedOmit then [(N.revoked, AV.bool r.revoked)] else []) ++
  [(N.created, intAV r.created), (N.key, AV.s (String.ofList (b64Encode r.key)))] ++
  (match r.parent with
   | some k => [(N.parent, AV.m [(N.keyId, AV.s k.id), (N.pCreated, intAV k.created)])]
   | none => if N.parentOmit then [] else [(N.parent, AV.null)])

def stepKeyMetaAV (N : Names) (km : KeyMeta) (kv : String × AV) : Option KeyMeta :=
  let idx := fieldIndex [N.keyId.toList, N.pCreated.toList] kv.1.toList
  if idx = some 0 then
    match kv.2 with
    | .s s => some { km with id := s }
    | .null => some { km with id := "" }
    | _ => none
  else if idx = some 1 then
    match kv.2 with
    | .n l => match parseInt l.toList with
      | some i => some { km with created := i }
      | none => none
    | .null => some { km with created := 0 }
    | _ => none
  else some km

def decodeKeyMetaAV (N : Names) (km : KeyMeta) (it : Item) : Option KeyMeta := foldOpt (stepKeyMetaAV N) km it

/-- the envelope attributes with the key still a string (v2's `envelope` struct; v1 decodes the
base64 on the way because the target field is a `[]byte`) -/
structure EnvS where
  revoked : Bool := false
  created : Int := 0
  key : String := ""
  parent : Option KeyMeta := none

def stepEnvAV (N : Names) (e : EnvS) (kv : String × AV) : Option EnvS :=
  let idx := fieldIndex [N.revoked.toList, N.created.toList, N.key.toList, N.parent.toList] kv.1.toList
  if idx = some 0 then
    match kv.2 with
    | .bool b => some { e with revoked := b }
    | .null => some { e with revoked := false }
    | _ => none
  else if idx = some 1 then
    match kv.2 with
    | .n l => match parseInt l.toList with
      | some i => some { e with created := i }
      | none => none
    | .null => some { e with created := 0 }
    | _ => none
  else if idx = some 2 then
    match kv.2 with
    | .s s => some { e with key := s }
    | .null => some { e with key := "" }
    | _ => none
  else if idx = some 3 then
    match kv.2 with
    | .m kvs => match decodeKeyMetaAV N ⟨"", 0⟩ kvs with
      | some km => some { e with parent := some km }
      | none => none
    | .null => some { e with parent := none }
    | _ => none
  else some e

def decodeEnvAV (N : Names) (e : EnvS) (it : Item) : Option EnvS := foldOpt (stepEnvAV N) e it

def EnvS.toRec (e : EnvS) (id : String) : Option Rec :=
  match b64Decode e.key.toList with
  | some bs => some ⟨id, e.revoked, e.created, bs, e.parent⟩
  | none => none

/-- v1 `parseResult(res.Item[keyRecord])`: `dynamodbattribute.Unmarshal(av, &EnvelopeKeyRecord{})`;
a nil or NULL attribute yields the zero record. -/
def unmarshalEkrV1 (N : Names) : Option AV → Option Rec
  | none => some Rec.zero
  | some .null => some Rec.zero
  | some (.m kvs) => match decodeEnvAV N {} kvs with
    | some e => e.toRec ""
    | none => none
  | some _ => none

/-- names of the v2 `metastoreItem` attributes -/
structure ItemNames where
  id : String
  created : String
  keyRecord : String
deriving DecidableEq, Repr, Inhabited

/-- v2 `decodeItem`: `attributevalue.UnmarshalMap(m, &metastoreItem{})`, nil-envelope check, base64. -/
def stepItemV2 (IN : ItemNames) (N : Names) (acc : String × Option EnvS) (kv : String × AV) : Option (String × Option EnvS) :=
  -- ID string, Created int64 (unused), KeyRecord *envelope
  let idx := fieldIndex [IN.id.toList, IN.created.toList, IN.keyRecord.toList] kv.1.toList
  if idx = some 0 then
    match kv.2 with | .s s => some (s, acc.2) | .null => some ("", acc.2) | _ => none
  else if idx = some 1 then
    match kv.2 with
    | .n l => match parseInt l.toList with | some _ => some acc | none => none
    | .null => some acc
    | _ => none
  else if idx = some 2 then
    match kv.2 with
    | .m kvs => match decodeEnvAV N {} kvs with | some e => some (acc.1, some e) | none => none
    | .null => some (acc.1, none)
    | _ => none
  else some acc

def decodeItemV2 (IN : ItemNames) (N : Names) (item : Item) : Option Rec :=
  match foldOpt (stepItemV2 IN N) ("", none) item with
  | some (id, some e) => e.toRec id
  | _ => none                               -- includes "unexpected nil envelope key record"

/-! ## SQL backend -/

inductive SqlVal
  | str (s : String)
  | time (unix : Int)       -- `time.Unix(created, 0)`
deriving DecidableEq, Repr, Inhabited

structure SqlRow where
  id : String
  created : Int             -- TIMESTAMP (seconds)
  keyRecord : String
deriving DecidableEq, Repr, Inhabited

structure Sql where
  dialect : Dialect
  rows : List SqlRow := []
deriving Repr, Inhabited

def sqlTable : String := "encryption_key"

/-- the value of a column of a row, as a `SqlVal` -/
def SqlRow.get (r : SqlRow) (col : String) : Option SqlVal :=
  if col = "id" then some (.str r.id)
  else if col = "created" then some (.time r.created)
  else if col = "key_record" then some (.str r.keyRecord)
  else none

/-- an argument converted to the column's type -/
def typed (col : String) (v : SqlVal) : Except Err SqlVal :=
  if col = "id" ∨ col = "key_record" then
    match v with | .str s => .ok (.str s) | _ => .error .type
  else if col = "created" then
    match v with | .time t => .ok (.time t) | _ => .error .type
  else .error .column

def Stmt.nparams : Stmt → Nat
  | .insert _ _ ps => ps.foldl (fun m i => max m (i + 1)) 0
  | .select _ _ cs _ _ => cs.foldl (fun m c => max m (c.param + 1)) 0

def Stmt.table : Stmt → String
  | .insert t _ _ => t
  | .select _ t _ _ _ => t

/-- prepare + bind: syntax errors first, then `database/sql`'s argument count check, then the
connection (fault), then the table. -/
def sqlPrepare (db : Sql) (fault : Bool) (q : String) (args : List SqlVal) : Except Err Stmt :=
  match parseSql db.dialect q with
  | none => .error .syntax
  | some st =>
    if st.nparams ≠ args.length then .error .other
    else if fault then .error .injected
    else if st.table ≠ sqlTable then .error .table
    else .ok st

def bindCols : List String → List Nat → List SqlVal → List (String × SqlVal) → Except Err (List (String × SqlVal))
  | c :: cs, p :: ps, args, acc =>
    if (aGet acc c).isSome then .error .column            -- column specified twice
    else match args[p]? with
      | none => .error .other
      | some v => match typed c v with
        | .error e => .error e
        | .ok v' => bindCols cs ps args (acc ++ [(c, v')])
  | _, _, _, acc => .ok acc

/-- `db.ExecContext(query, args…)` -/
def sqlExec (db : Sql) (fault : Bool) (q : String) (args : List SqlVal) : Except Err Sql :=
  match sqlPrepare db fault q args with
  | .error e => .error e
  | .ok (.select ..) => .error .syntax
  | .ok (.insert _ cols ps) =>
    match bindCols cols ps args [] with
    | .error e => .error e
    | .ok vals =>
      match aGet vals "id", aGet vals "created", aGet vals "key_record" with
      | some (.str id), some (.time c), some (.str kr) =>
        if db.rows.any (fun r => r.id = id ∧ r.created = c) then .error .dup     -- PRIMARY KEY (id, created)
        else .ok { db with rows := db.rows ++ [⟨id, c, kr⟩] }
      | _, _, _ => .error .type                             -- NOT NULL column without a value

def sqlValLt : SqlVal → SqlVal → Bool
  | .str a, .str b => decide (a < b)
  | .time a, .time b => decide (a < b)
  | _, _ => false

def condsHold (r : SqlRow) : List (String × SqlVal) → Bool
  | [] => true
  | (c, v) :: rest => (r.get c == some v) && condsHold r rest

def bindConds : List Cond → List SqlVal → Except Err (List (String × SqlVal))
  | [], _ => .ok []
  | c :: cs, args =>
    match args[c.param]? with
    | none => .error .other
    | some v => match typed c.col v with
      | .error e => .error e
      | .ok v' => match bindConds cs args with
        | .error e => .error e
        | .ok rest => .ok ((c.col, v') :: rest)

/-- `db.QueryRowContext(query, args…).Scan(&text)`: `none` = `sql.ErrNoRows`. -/
def sqlQueryRow (db : Sql) (fault : Bool) (q : String) (args : List SqlVal) : Except Err (Option String) :=
  match sqlPrepare db fault q args with
  | .error e => .error e
  | .ok (.insert ..) => .error .syntax
  | .ok (.select col _ conds order limit) =>
    if (SqlRow.get default col).isNone then .error .column else
    match bindConds conds args with
    | .error e => .error e
    | .ok want =>
      let rows := db.rows.filter (condsHold · want)
      let sorted : Except Err (List SqlRow) :=
        match order with
        | none => .ok rows
        | some (oc, desc) =>
          if (SqlRow.get default oc).isNone then .error .column
          else .ok (isort (fun a b =>
            match a.get oc, b.get oc with
            | some x, some y => if desc then sqlValLt y x else sqlValLt x y
            | _, _ => false) rows)
      match sorted with
      | .error e => .error e
      | .ok rows =>
        let rows := match limit with | some n => rows.take n | none => rows
        match rows with
        | [] => .ok none
        | r :: _ =>
          match r.get col with
          | some (.str s) => .ok (some s)
          | _ => .ok (some "<timestamp>")      -- a TIMESTAMP scanned into a string: some non-JSON text

/-- literals of sql.go -/
structure SqlLits where
  loadKeyQuery : String
  storeKeyQuery : String
  loadLatestQuery : String
  postgres : String
  oracle : String
  mysql : String
deriving DecidableEq, Repr, Inhabited

/-- `SQLMetastoreDBType.q` -/
def q (L : SqlLits) (t : String) (sql : String) : String :=
  if t = L.postgres then String.ofList (qRewrite '$' 0 sql.toList)
  else if t = L.oracle then String.ofList (qRewrite ':' 0 sql.toList)
  else sql

/-- the metastore's three statements after `NewSQLMetastore(db, opts…)`; `dbType = none`: no
`WithSQLMetastoreDBType` option -/
structure SqlMs where
  loadKeyQuery : String
  storeKeyQuery : String
  loadLatestQuery : String
deriving Repr, Inhabited

def newSqlMs (L : SqlLits) (dbType : Option String) : SqlMs :=
  match dbType with
  | none => ⟨L.loadKeyQuery, L.storeKeyQuery, L.loadLatestQuery⟩
  | some t => ⟨q L t L.loadKeyQuery, q L t L.storeKeyQuery, q L t L.loadLatestQuery⟩

/-- a request as the backend saw it (canonically printed by the driver) -/
inductive Req
  | sql (q : String) (args : List SqlVal)
  | put (table : String) (item : Item) (cond : Option String)
  | get (table : String) (key : Item) (consistent : Option Bool) (proj : String) (names : List (String × String))
  | query (table : String) (keyCond : String) (names : List (String × String)) (values : Item)
      (consistent : Option Bool) (forward : Option Bool) (limit : Option Int) (proj : String)
deriving Repr, Inhabited

structure Out (σ : Type) where
  st : σ
  res : Res
  reqs : List Req

/-- `parseEnvelope(row)` -/
def parseEnvelope (N : Names) : Except Err (Option String) → Res
  | .error e => .fail e
  | .ok none => .loaded none                       -- sql.ErrNoRows
  | .ok (some text) =>
    match decodeRowText N text with
    | .ok r => .loaded r
    | .error e => .fail e

def sqlStep (N : Names) (ms : SqlMs) (db : Sql) (env : Env) : Op → Out Sql
  | .store id c r =>
    let args := [SqlVal.str id, .time c, .str (String.ofList (encodeRowText N r))]
    match sqlExec db env.fault ms.storeKeyQuery args with
    | .ok db' => ⟨db', .stored true none, [.sql ms.storeKeyQuery args]⟩
    | .error e => ⟨db, .stored false (some e), [.sql ms.storeKeyQuery args]⟩
  | .load id c =>
    let args := [SqlVal.str id, .time c]
    ⟨db, parseEnvelope N (sqlQueryRow db env.fault ms.loadKeyQuery args), [.sql ms.loadKeyQuery args]⟩
  | .latest id =>
    let args := [SqlVal.str id]
    ⟨db, parseEnvelope N (sqlQueryRow db env.fault ms.loadLatestQuery args), [.sql ms.loadLatestQuery args]⟩

def Sql.abs (N : Names) (db : Sql) : Table :=
  db.rows.filterMap fun r =>
    match decodeRowText N r.keyRecord with
    | .ok (some rec) => some ((r.id, r.created), rec)
    | _ => none

/-! ## DynamoDB backend -/

structure Ddb where
  table : String
  hashKey : String
  rangeKey : String
  history : List Item := []
deriving Repr, Inhabited

/-- primary key of an item under the table's schema (hash: non-empty string, range: number) -/
def Ddb.keyOf (d : Ddb) (it : Item) : Option Key :=
  match itemGet it d.hashKey, itemGet it d.rangeKey with
  | some (.s h), some (.n t) =>
    if h = "" then none else
    match parseInt t.toList with
    | some c => some (h, c)
    | none => none
  | _, _ => none

/-- the table after a sequence of accepted writes: a put of an existing key replaces the item -/
def replayPut (d : Ddb) (acc : List Item) (it : Item) : List Item :=
  if acc.any (fun x => d.keyOf x == d.keyOf it) then
    acc.map fun x => if d.keyOf x == d.keyOf it then it else x
  else acc ++ [it]

def Ddb.replay (d : Ddb) (h : List Item) : List Item := h.foldl (replayPut d) []

def Ddb.current (d : Ddb) : List Item := d.replay d.history

/-- what a read sees: everything when strongly consistent, otherwise the table `lag` writes ago -/
def Ddb.view (d : Ddb) (consistent : Option Bool) (lag : Nat) : List Item :=
  if consistent = some true then d.current
  else d.replay (d.history.take (d.history.length - lag))

def trimWs (s : List Char) : List Char := ((s.dropWhile isWs).reverse.dropWhile isWs).reverse

def badPathChar (c : Char) : Bool :=
  c = ' ' ∨ c = '(' ∨ c = ')' ∨ c = ':' ∨ c = '=' ∨ c = '<' ∨ c = '>' ∨ c = ','

/-- an attribute path: `#alias` resolved through ExpressionAttributeNames, or a plain name -/
def resolveName (tok : List Char) (names : List (String × String)) : Option String :=
  let t := trimWs tok
  match t with
  | '#' :: _ => aGet names (String.ofList t)
  | [] => none
  | _ => if t.any badPathChar then none else some (String.ofList t)

/-- `fn(path)` -/
def fnArg (fn : String) (e : List Char) : Option (List Char) :=
  match dropPrefix? (fn.toList ++ ['(']) e with
  | some rest => match rest.reverse with
    | ')' :: body => some body.reverse
    | _ => none
  | none => none

/-- supported conditions: `attribute_not_exists(p)`, `attribute_exists(p)`; `existing = none`: no item with that key -/
def evalCond (expr : String) (names : List (String × String)) (existing : Option Item) : Option Bool :=
  let e := trimWs expr.toList
  let has (p : String) : Bool := match existing with | some it => (itemGet it p).isSome | none => false
  match fnArg "attribute_not_exists" e with
  | some arg => (resolveName arg names).map fun p => !has p
  | none =>
    match fnArg "attribute_exists" e with
    | some arg => (resolveName arg names).map fun p => has p
    | none => none

/-- `lhs = rhs` -/
def splitEq : List Char → Option (List Char × List Char)
  | [] => none
  | c :: cs =>
    match c, cs with
    | ' ', '=' :: ' ' :: rest => some ([], rest)
    | _, _ => match splitEq cs with
      | some (l, r) => some (c :: l, r)
      | none => none

def splitComma : List Char → List (List Char)
  | [] => [[]]
  | c :: cs =>
    match splitComma cs with
    | [] => [[c]]
    | h :: t => if c = ',' then [] :: h :: t else (c :: h) :: t

def projectItem (it : Item) (proj : String) (names : List (String × String)) : Option Item :=
  let rec go : List (List Char) → Option Item
    | [] => some []
    | p :: ps =>
      match resolveName p names, go ps with
      | some n, some rest => match itemGet it n with
        | some v => some ((n, v) :: rest)
        | none => some rest
      | _, _ => none
  go (splitComma proj.toList)

def ddbCheck (d : Ddb) (fault : Bool) (table : String) : Except Err Unit :=
  if fault then .error .injected
  else if table ≠ d.table then .error .table
  else .ok ()

/-- PutItem -/
def ddbPut (d : Ddb) (fault : Bool) (table : String) (item : Item) (cond : Option String) : Except Err Ddb :=
  match ddbCheck d fault table with
  | .error e => .error e
  | .ok _ =>
    match d.keyOf item with
    | none => .error .validation
    | some k =>
      let accept : Except Err Ddb := .ok { d with history := d.history ++ [item] }
      match cond with
      | none => accept
      | some c =>
        match evalCond c [] (d.current.find? fun it => d.keyOf it == some k) with
        | none => .error .validation
        | some false => .error .cond
        | some true => accept

/-- GetItem: `none` = no such item -/
def ddbGet (d : Ddb) (env : Env) (table : String) (key : Item) (consistent : Option Bool) (proj : String)
    (names : List (String × String)) : Except Err (Option Item) :=
  match ddbCheck d env.fault table with
  | .error e => .error e
  | .ok _ =>
    if key.length ≠ 2 then .error .validation else
    match d.keyOf key with
    | none => .error .validation
    | some k =>
      match (d.view consistent env.lag).find? fun it => d.keyOf it == some k with
      | none => .ok none
      | some it => match projectItem it proj names with
        | some p => .ok (some p)
        | none => .error .validation

/-- the items of one partition with their sort keys -/
def Ddb.rowsFor (d : Ddb) (h : String) (items : List Item) : List (Int × Item) :=
  items.filterMap fun it =>
    match d.keyOf it with
    | some (h', c) => if h' = h then some (c, it) else none
    | none => none

/-- `ScanIndexForward`: ascending by sort key when true (the default), descending when false -/
def pairLt (asc : Bool) (a b : Int × Item) : Bool := if asc then decide (a.1 < b.1) else decide (b.1 < a.1)

def mapProject (items : List Item) (proj : String) (names : List (String × String)) : Option (List Item) :=
  items.mapM fun it => projectItem it proj names

/-- Query with a key condition `<hash key> = :v` -/
def ddbQuery (d : Ddb) (env : Env) (table : String) (keyCond : String) (names : List (String × String)) (values : Item)
    (consistent : Option Bool) (forward : Option Bool) (limit : Option Int) (proj : String) : Except Err (List Item) :=
  match ddbCheck d env.fault table with
  | .error e => .error e
  | .ok _ =>
    if (match limit with | some l => decide (l < 1) | none => false) then .error .validation else
    match splitEq keyCond.toList with
    | none => .error .validation
    | some (lhs, rhs) =>
      if (splitEq rhs).isSome then .error .validation else
      match resolveName lhs names, itemGet values (String.ofList (trimWs rhs)) with
      | some n, some (.s h) =>
        if n ≠ d.hashKey then .error .validation else
        let rows := d.rowsFor h (d.view consistent env.lag)
        let sorted := isort (pairLt (forward.getD true)) rows
        let limited := match limit with | some l => sorted.take l.toNat | none => sorted
        match mapProject (limited.map (·.2)) proj names with
        | some items => .ok items
        | none => .error .validation
      | _, _ => .error .validation

/-- literals of one DynamoDB metastore implementation, regenerated from its source -/
structure DdbLits where
  partitionKey : String
  sortKey : String
  keyRecord : String
  defaultTable : String
  conditionExpr : String
  getConsistent : Option Bool
  queryConsistent : Option Bool
  scanForward : Option Bool
  limit : Option Int
deriving DecidableEq, Repr, Inhabited

/-- `WithTableName(name)` (ignored when empty) on top of the default -/
def ddbTableName (L : DdbLits) (opt : Option String) : String :=
  match opt with
  | some t => if t = "" then L.defaultTable else t
  | none => L.defaultTable

/-- what the SDKs' `expression.Builder` produces for the two expressions the metastores build
(aliases are numbered in the order key condition, projection): modelled SDK behaviour. -/
def exprGetNames (L : DdbLits) : List (String × String) := [("#0", L.keyRecord)]
def exprGetProj : String := "#0"
def exprQueryNames (L : DdbLits) : List (String × String) := [("#0", L.partitionKey), ("#1", L.keyRecord)]
def exprQueryKeyCond : String := "#0 = :0"
def exprQueryProj : String := "#1"

def ddbKeyItem (L : DdbLits) (id : String) (c : Int) : Item := [(L.partitionKey, .s id), (L.sortKey, intAV c)]

/-- version specific parts of the two DynamoDB metastores -/
structure DdbCodec where
  marshal : Rec → Item                       -- the `KeyRecord` map written by Store
  decodeGet : Item → Option Rec              -- from the (projected) item GetItem/Query returned

def ddbStep (L : DdbLits) (C : DdbCodec) (table : String) (d : Ddb) (env : Env) : Op → Out Ddb
  | .store id c r =>
    let item : Item := ddbKeyItem L id c ++ [(L.keyRecord, .m (C.marshal r))]
    let req := Req.put table item (some L.conditionExpr)
    match ddbPut d env.fault table item (some L.conditionExpr) with
    | .ok d' => ⟨d', .stored true none, [req]⟩
    | .error e => ⟨d, .stored false (some e), [req]⟩
  | .load id c =>
    let req := Req.get table (ddbKeyItem L id c) L.getConsistent exprGetProj (exprGetNames L)
    match ddbGet d env table (ddbKeyItem L id c) L.getConsistent exprGetProj (exprGetNames L) with
    | .error e => ⟨d, .fail e, [req]⟩
    | .ok none => ⟨d, .loaded none, [req]⟩
    | .ok (some it) =>
      match C.decodeGet it with
      | some r => ⟨d, .loaded (some r), [req]⟩
      | none => ⟨d, .fail .decode, [req]⟩
  | .latest id =>
    let values : Item := [(":0", .s id)]
    let req := Req.query table exprQueryKeyCond (exprQueryNames L) values L.queryConsistent L.scanForward L.limit exprQueryProj
    match ddbQuery d env table exprQueryKeyCond (exprQueryNames L) values L.queryConsistent L.scanForward L.limit exprQueryProj with
    | .error e => ⟨d, .fail e, [req]⟩
    | .ok [] => ⟨d, .loaded none, [req]⟩
    | .ok (it :: _) =>
      match C.decodeGet it with
      | some r => ⟨d, .loaded (some r), [req]⟩
      | none => ⟨d, .fail .decode, [req]⟩

/-- aws-v1: `DynamoDBEnvelope` written (names `NE`), `EnvelopeKeyRecord` read (names `ND`) from `item[keyRecord]` -/
def codecV1 (L : DdbLits) (NE ND : Names) : DdbCodec :=
  { marshal := marshalEnvelopeV1 NE, decodeGet := fun it => unmarshalEkrV1 ND (itemGet it L.keyRecord) }

/-- aws-v2: `envelope` written and read (names `N`), inside a `metastoreItem` (names `IN`) -/
def codecV2 (IN : ItemNames) (N : Names) : DdbCodec :=
  { marshal := marshalEnvelopeV2 N, decodeGet := decodeItemV2 IN N }

/-- the specification's view of a DynamoDB table -/
def Ddb.abs (d : Ddb) (C : DdbCodec) (project : Item → Item) : Table :=
  d.current.filterMap fun it =>
    match d.keyOf it, C.decodeGet (project it) with
    | some k, some r => some (k, r)
    | _, _ => none

/-- the effect of the metastores' projection (`KeyRecord` only) -/
def projKeyRecord (L : DdbLits) (it : Item) : Item :=
  match itemGet it L.keyRecord with
  | some v => [(L.keyRecord, v)]
  | none => []

/-- run a backend over operations with their environments -/
def runOut {σ} (step : σ → Env → Op → Out σ) : σ → List (Op × Env) → σ × List Res
  | s, [] => (s, [])
  | s, (op, env) :: rest =>
    let o := step s env op
    let (s', rs) := runOut step o.st rest
    (s', o.res :: rs)

end AsherahVerif.Metastore
