/-
E4 / C08 — interleaving model of the key-cache reference protocol
(go/appencryption/key_cache.go: GetOrLoad, GetOrLoadLatest, load, write, cachedCryptoKey.Close,
onEvict; go/appencryption/pkg/cache: evict callback, synchronous or through the event goroutine).

Any number of threads run  acquire → use → release  against one shared key cache.  Atomic steps are
the lock-delimited blocks of the Go code (a block under `rw.RLock` only reads and atomically
increments, so treating it as atomic is sound).  The eviction victim is arbitrary (covers every
policy and capacity ≥ 1); the eviction callback runs inside the step (synchronous caches) or is
queued for the event goroutine (asynchronous).  Which block contains the reference-count increment
is a *protocol fact* read off the source by the extractor (`Facts`), not a modelling choice: with
`incrUnderReadLock = false` the fast path of `GetOrLoad` is two steps (look up; increment later).

Core Lean only.
-/
namespace AsherahVerif.KeyRef

/-- protocol facts regenerated from key_cache.go (see Generated/KeyCacheFacts.lean). -/
structure Facts where
  /-- `GetOrLoad` fast path: `tracked(k)` happens before `c.rw.RUnlock()` -/
  incrUnderReadLock : Bool
  /-- the slow path (lookup again, load, write, `tracked`) is one `rw.Lock` … `Unlock` block -/
  slowPathUnderWriteLock : Bool
  /-- `GetOrLoadLatest` holds `rw.Lock` from lookup to `tracked` -/
  latestUnderWriteLock : Bool
  /-- the evict callback only releases the cache's own reference (`value.key.Close()`) -/
  evictReleasesCacheRef : Bool
  /-- `write` releases the cache's reference of an entry it replaces by another key object -/
  replaceReleasesOld : Bool
deriving DecidableEq, Repr

def Facts.good : Facts := ⟨true, true, true, true, true⟩

structure Obj where
  refs : Int
  destroyed : Bool
deriving DecidableEq, Repr, Inhabited

/-- Threads are anonymous (any number of them): the state keeps the multiset of handles that are
currently held (`holders`, one occurrence per holding thread) and, when the increment is delayed,
the multiset of looked-up-but-not-yet-counted objects (`looked`). -/
structure St where
  cache : List (Nat × Nat)        -- cache key ↦ object
  objs : List Obj
  pending : List Nat              -- evicted objects whose callback the event goroutine has not run yet
  holders : List Nat
  looked : List Nat
  failed : Bool                   -- some operation used a destroyed key ("secret has already been destroyed")
deriving DecidableEq, Repr, Inhabited

inductive Step
  | hit (key : Nat)                                -- GetOrLoad / GetOrLoadLatest finds a fresh entry
  | incr (o : Nat)                                 -- the delayed increment (¬incrUnderReadLock)
  | load (key : Nat) (victim : Option Nat) (async : Bool)
      -- slow path: loader returned a new key object; it is written under `key`; the policy may
      -- evict `victim` (a cache key) first
  | merge (key : Nat)                              -- slow path, same key re-read: keep the entry
  | use (o : Nat)                                  -- WithKeyFunc on a held key
  | release (o : Nat)                              -- cachedCryptoKey.Close by a holder
  | deliver                                        -- event goroutine runs the oldest pending callback
deriving DecidableEq, Repr, Inhabited

def lookup (c : List (Nat × Nat)) (k : Nat) : Option Nat := (c.find? (·.1 == k)).map (·.2)
def erase (c : List (Nat × Nat)) (k : Nat) : List (Nat × Nat) := c.filter (·.1 != k)

def updObj (objs : List Obj) (o : Nat) (f : Obj → Obj) : List Obj :=
  objs.mapIdx fun i x => if i = o then f x else x

/-- `cachedCryptoKey.Close`: decrement; destroy at zero. -/
def decr (objs : List Obj) (o : Nat) : List Obj :=
  updObj objs o fun x => { refs := x.refs - 1, destroyed := x.destroyed || decide (x.refs - 1 ≤ 0) }

def incrO (objs : List Obj) (o : Nat) : List Obj := updObj objs o fun x => { x with refs := x.refs + 1 }

/-- the policy evicts `victim` (a cache key other than the one being written) before the new
entry is inserted; its callback releases the cache's reference now (synchronous cache) or later
(through the event goroutine). `none` = not a possible eviction. -/
def evictVictim (F : Facts) (s : St) (key : Nat) (victim : Option Nat) (async : Bool) :
    Option (List (Nat × Nat) × List Obj × List Nat) :=
  match victim with
  | none => some (s.cache, s.objs, s.pending)
  | some vk =>
    match lookup s.cache vk with
    | none => none
    | some vo =>
      if vk = key then none
      else if async then some (erase s.cache vk, s.objs, s.pending ++ [vo])
      else some (erase s.cache vk, (if F.evictReleasesCacheRef then decr s.objs vo else s.objs), s.pending)

/-- one atomic step; `none` = the step is not enabled in this state. -/
def step (F : Facts) (s : St) : Step → Option St
  | .hit key =>
    match lookup s.cache key with
    | some o =>
      if F.incrUnderReadLock then some { s with objs := incrO s.objs o, holders := o :: s.holders }
      else some { s with looked := o :: s.looked }
    | none => none
  | .incr o =>
    if o ∈ s.looked then some { s with objs := incrO s.objs o, looked := s.looked.erase o, holders := o :: s.holders }
    else none
  | .load key victim async =>
    let r := evictVictim F s key victim async
    match r with
    | none => none
    | some (cache1, objs1, pending1) =>
      -- a replaced entry under the same key (reload of an invalid latest key)
      let objs2 :=
        match lookup cache1 key with
        | some old => if F.replaceReleasesOld then decr objs1 old else objs1
        | none => objs1
      let o := objs2.length
      -- newCacheEntry: refs = 1 (the cache's); tracked: +1 for the caller
      some { s with cache := erase cache1 key ++ [(key, o)], objs := objs2 ++ [{ refs := 2, destroyed := false }],
                    pending := pending1, holders := o :: s.holders }
  | .merge key =>
    match lookup s.cache key with
    | some o => some { s with objs := incrO s.objs o, holders := o :: s.holders }
    | none => none
  | .use o =>
    if o ∈ s.holders then
      (if (s.objs.getD o default).destroyed then some { s with failed := true } else some s)
    else none
  | .release o =>
    if o ∈ s.holders then some { s with objs := decr s.objs o, holders := s.holders.erase o } else none
  | .deliver =>
    match s.pending with
    | [] => none
    | o :: rest => some { s with pending := rest, objs := if F.evictReleasesCacheRef then decr s.objs o else s.objs }

/-- run a schedule; disabled steps are skipped. -/
def run (F : Facts) (s : St) : List Step → St
  | [] => s
  | st :: rest => match step F s st with
    | some s' => run F s' rest
    | none => run F s rest

def init : St := { cache := [], objs := [], pending := [], holders := [], looked := [], failed := false }

/-- the bad states: some operation failed because its key had been destroyed. -/
def bad (s : St) : Bool := s.failed

/-! ### bounded exploration (search for a violating schedule when the facts change) -/

def allSteps (nKeys : Nat) (s : St) : List Step :=
  let ks := List.range nKeys
  let os := List.range s.objs.length
  let victims : List (Option Nat) := none :: (s.cache.map fun p => some p.1)
  (ks.flatMap fun k =>
      [Step.hit k, Step.merge k] ++ victims.flatMap fun v => [Step.load k v false, Step.load k v true]) ++
  (os.flatMap fun o => [Step.incr o, Step.use o, Step.release o]) ++ [Step.deliver]

/-- breadth-first search to `depth` with at most `maxHeld` simultaneously held/looked handles and
`maxObjs` objects; returns (states visited, transitions, a violating schedule). -/
def bfs (F : Facts) (nKeys maxHeld maxObjs depth : Nat) : Nat × Nat × Option (List Step) :=
  let small (s : St) : Bool := s.holders.length + s.looked.length ≤ maxHeld && s.objs.length ≤ maxObjs
  let rec go (fuel : Nat) (frontier : List (St × List Step)) (seen : List St) (trans : Nat) :
      Nat × Nat × Option (List Step) :=
    match fuel with
    | 0 => (seen.length, trans, none)
    | fuel + 1 =>
      let (next, seen', trans', found) :=
        frontier.foldl (fun (acc : List (St × List Step) × List St × Nat × Option (List Step)) (p : St × List Step) =>
          if acc.2.2.2.isSome then acc else
          (allSteps nKeys p.1).foldl (fun (acc : List (St × List Step) × List St × Nat × Option (List Step)) st =>
            let (next, seen, trans, found) := acc
            if found.isSome then acc else
            match step F p.1 st with
            | none => acc
            | some s' =>
              if bad s' then (next, seen, trans + 1, some (p.2 ++ [st]))
              else if !small s' || seen.contains s' then (next, seen, trans + 1, found)
              else ((s', p.2 ++ [st]) :: next, s' :: seen, trans + 1, found)) acc)
          ([], seen, trans, none)
      match found with
      | some sched => (seen'.length, trans', some sched)
      | none => if next.isEmpty then (seen'.length, trans', none) else go fuel next seen' trans'
  go depth [(init, [])] [init] 0

end AsherahVerif.KeyRef
