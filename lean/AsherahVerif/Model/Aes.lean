import AsherahVerif.Model.Gcm
/-
Executable AES (FIPS 197) block encryption for 128/192/256-bit keys — the instance of the block
function `E` with which the generic GCM model (Model/Gcm.lean) is run against `crypto/aes` +
`crypto/cipher` in the correspondence.  Nothing is PROVED about AES: the GCM theorems hold for every
block function; this instance is validated against Go's implementation on random inputs and against
NIST vectors (Props/C18.lean non-vacuity examples and the driver's self test).

Representation: the state is four big-endian 32-bit columns; the key schedule an `Array UInt32` of
4·(Nr+1) words (`Nr = Nk + 6`).  Only the S-box is a table.
-/
namespace AsherahVerif.Aes
open AsherahVerif.Gcm

def sbox : Array UInt8 := #[
  0x63, 0x7c, 0x77, 0x7b, 0xf2, 0x6b, 0x6f, 0xc5, 0x30, 0x01, 0x67, 0x2b, 0xfe, 0xd7, 0xab, 0x76,
  0xca, 0x82, 0xc9, 0x7d, 0xfa, 0x59, 0x47, 0xf0, 0xad, 0xd4, 0xa2, 0xaf, 0x9c, 0xa4, 0x72, 0xc0,
  0xb7, 0xfd, 0x93, 0x26, 0x36, 0x3f, 0xf7, 0xcc, 0x34, 0xa5, 0xe5, 0xf1, 0x71, 0xd8, 0x31, 0x15,
  0x04, 0xc7, 0x23, 0xc3, 0x18, 0x96, 0x05, 0x9a, 0x07, 0x12, 0x80, 0xe2, 0xeb, 0x27, 0xb2, 0x75,
  0x09, 0x83, 0x2c, 0x1a, 0x1b, 0x6e, 0x5a, 0xa0, 0x52, 0x3b, 0xd6, 0xb3, 0x29, 0xe3, 0x2f, 0x84,
  0x53, 0xd1, 0x00, 0xed, 0x20, 0xfc, 0xb1, 0x5b, 0x6a, 0xcb, 0xbe, 0x39, 0x4a, 0x4c, 0x58, 0xcf,
  0xd0, 0xef, 0xaa, 0xfb, 0x43, 0x4d, 0x33, 0x85, 0x45, 0xf9, 0x02, 0x7f, 0x50, 0x3c, 0x9f, 0xa8,
  0x51, 0xa3, 0x40, 0x8f, 0x92, 0x9d, 0x38, 0xf5, 0xbc, 0xb6, 0xda, 0x21, 0x10, 0xff, 0xf3, 0xd2,
  0xcd, 0x0c, 0x13, 0xec, 0x5f, 0x97, 0x44, 0x17, 0xc4, 0xa7, 0x7e, 0x3d, 0x64, 0x5d, 0x19, 0x73,
  0x60, 0x81, 0x4f, 0xdc, 0x22, 0x2a, 0x90, 0x88, 0x46, 0xee, 0xb8, 0x14, 0xde, 0x5e, 0x0b, 0xdb,
  0xe0, 0x32, 0x3a, 0x0a, 0x49, 0x06, 0x24, 0x5c, 0xc2, 0xd3, 0xac, 0x62, 0x91, 0x95, 0xe4, 0x79,
  0xe7, 0xc8, 0x37, 0x6d, 0x8d, 0xd5, 0x4e, 0xa9, 0x6c, 0x56, 0xf4, 0xea, 0x65, 0x7a, 0xae, 0x08,
  0xba, 0x78, 0x25, 0x2e, 0x1c, 0xa6, 0xb4, 0xc6, 0xe8, 0xdd, 0x74, 0x1f, 0x4b, 0xbd, 0x8b, 0x8a,
  0x70, 0x3e, 0xb5, 0x66, 0x48, 0x03, 0xf6, 0x0e, 0x61, 0x35, 0x57, 0xb9, 0x86, 0xc1, 0x1d, 0x9e,
  0xe1, 0xf8, 0x98, 0x11, 0x69, 0xd9, 0x8e, 0x94, 0x9b, 0x1e, 0x87, 0xe9, 0xce, 0x55, 0x28, 0xdf,
  0x8c, 0xa1, 0x89, 0x0d, 0xbf, 0xe6, 0x42, 0x68, 0x41, 0x99, 0x2d, 0x0f, 0xb0, 0x54, 0xbb, 0x16]

@[inline] def sub (b : UInt8) : UInt8 := sbox.getD b.toNat 0

@[inline] def xtime (b : UInt8) : UInt8 :=
  (b <<< 1) ^^^ (if b &&& 0x80 != 0 then 0x1b else 0)

@[inline] def byteOf (w : UInt32) (i : UInt32) : UInt8 := (w >>> (24 - 8 * i)).toUInt8

@[inline] def pack (a b c d : UInt8) : UInt32 :=
  (a.toUInt32 <<< 24) ||| (b.toUInt32 <<< 16) ||| (c.toUInt32 <<< 8) ||| d.toUInt32

def subWord (w : UInt32) : UInt32 :=
  pack (sub (byteOf w 0)) (sub (byteOf w 1)) (sub (byteOf w 2)) (sub (byteOf w 3))

def rotWord (w : UInt32) : UInt32 := (w <<< 8) ||| (w >>> 24)

/-- key words of the cipher key (big-endian), `nk` of them. -/
def keyWords : Nat → Bytes → Array UInt32 → Array UInt32
  | 0, _, acc => acc
  | n + 1, bs, acc =>
    keyWords n (bs.drop 4) (acc.push (pack (bs.getD 0 0) (bs.getD 1 0) (bs.getD 2 0) (bs.getD 3 0)))

/-- FIPS 197 §5.2 KeyExpansion: extend `w` by `n` more words; `i` = index of the next word,
`rc` = current round constant. -/
def expandLoop (nk : Nat) : Nat → Nat → UInt8 → Array UInt32 → Array UInt32
  | 0, _, _, w => w
  | n + 1, i, rc, w =>
    let prev := w.getD (i - 1) 0
    let back := w.getD (i - nk) 0
    if i % nk == 0 then
      let t := subWord (rotWord prev) ^^^ (rc.toUInt32 <<< 24)
      expandLoop nk n (i + 1) (xtime rc) (w.push (back ^^^ t))
    else if nk > 6 && i % nk == 4 then
      expandLoop nk n (i + 1) rc (w.push (back ^^^ subWord prev))
    else
      expandLoop nk n (i + 1) rc (w.push (back ^^^ prev))

/-- `aes.NewCipher`: `none` for a key that is not 16, 24 or 32 bytes long. -/
def expandKey (key : Bytes) : Option (Array UInt32) :=
  let len := key.length
  if len == 16 || len == 24 || len == 32 then
    let nk := len / 4
    let w := keyWords nk key (Array.mkEmpty (4 * (nk + 7)))
    some (expandLoop nk (4 * (nk + 7) - nk) nk 1 w)
  else none

structure St where
  c0 : UInt32
  c1 : UInt32
  c2 : UInt32
  c3 : UInt32

@[inline] def St.addKey (s : St) (w : Array UInt32) (r : Nat) : St :=
  ⟨s.c0 ^^^ w.getD (4 * r) 0, s.c1 ^^^ w.getD (4 * r + 1) 0, s.c2 ^^^ w.getD (4 * r + 2) 0, s.c3 ^^^ w.getD (4 * r + 3) 0⟩

/-- SubBytes, ShiftRows and MixColumns for the output column made of the given four input columns. -/
@[inline] def mixCol (a b c d : UInt32) : UInt32 :=
  let a0 := sub (byteOf a 0); let a1 := sub (byteOf b 1); let a2 := sub (byteOf c 2); let a3 := sub (byteOf d 3)
  let x0 := xtime a0; let x1 := xtime a1; let x2 := xtime a2; let x3 := xtime a3
  pack (x0 ^^^ (x1 ^^^ a1) ^^^ a2 ^^^ a3) (a0 ^^^ x1 ^^^ (x2 ^^^ a2) ^^^ a3)
       (a0 ^^^ a1 ^^^ x2 ^^^ (x3 ^^^ a3)) ((x0 ^^^ a0) ^^^ a1 ^^^ a2 ^^^ x3)

@[inline] def lastCol (a b c d : UInt32) : UInt32 :=
  pack (sub (byteOf a 0)) (sub (byteOf b 1)) (sub (byteOf c 2)) (sub (byteOf d 3))

def round (w : Array UInt32) (r : Nat) (s : St) : St :=
  St.addKey ⟨mixCol s.c0 s.c1 s.c2 s.c3, mixCol s.c1 s.c2 s.c3 s.c0, mixCol s.c2 s.c3 s.c0 s.c1, mixCol s.c3 s.c0 s.c1 s.c2⟩ w r

def finalRound (w : Array UInt32) (r : Nat) (s : St) : St :=
  St.addKey ⟨lastCol s.c0 s.c1 s.c2 s.c3, lastCol s.c1 s.c2 s.c3 s.c0, lastCol s.c2 s.c3 s.c0 s.c1, lastCol s.c3 s.c0 s.c1 s.c2⟩ w r

def rounds (w : Array UInt32) : Nat → Nat → St → St
  | 0, _, s => s
  | n + 1, r, s => rounds w n (r + 1) (round w r s)

/-- Cipher(in, w) of FIPS 197 §5.1 with `Nr = |w|/4 - 1`. -/
def encryptBlock (w : Array UInt32) (b : Block) : Block :=
  let nr := w.size / 4 - 1
  let s : St := ⟨(b.hi >>> 32).toUInt32, b.hi.toUInt32, (b.lo >>> 32).toUInt32, b.lo.toUInt32⟩
  let s := s.addKey w 0
  let s := rounds w (nr - 1) 1 s
  let s := finalRound w nr s
  ⟨(s.c0.toUInt64 <<< 32) ||| s.c1.toUInt64, (s.c2.toUInt64 <<< 32) ||| s.c3.toUInt64⟩

/-- AES as a `Cipher` of the GCM model: key set-up = key expansion. -/
def cipher : Cipher := { κ := Array UInt32, prep := expandKey, E := encryptBlock }

end AsherahVerif.Aes
