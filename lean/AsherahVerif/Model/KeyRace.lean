/-
C14 — racing key creators, interleaved at the granularity of individual metastore calls.

N processes (each a fresh `SessionFactory` without key caching, i.e. every lookup goes to the
metastore — the configuration in which every step of the creation protocol is visible) each
perform one `Encrypt` for the same partition against one shared, insert-only metastore.  One step
of the system = one process performs its next metastore call (`LoadLatest`, `Load`, `Store`) and
all the local computation up to its next call.  The program of a process is the metastore-call
skeleton of `loadLatestOrCreateIntermediateKey` / `createIntermediateKey` /
`loadLatestOrCreateSystemKey` / `intermediateKeyFromEKR` (envelope.go); KMS and AEAD calls are
local and always succeed here (faults are C02's subject).

Key material is a name `(pid, n)`: a process that generates a key and loses the insert must not use
that material — it must adopt the stored row's.

Core Lean only.
-/
namespace AsherahVerif.KeyRace

inductive Kid | sk | ik
deriving DecidableEq, Repr, Inhabited

structure Row where
  kid : Kid
  created : Int
  revoked : Bool
  mat : Nat × Nat          -- (creator pid, serial): identifies the wrapped key material
  parent : Int             -- for IK rows: creation stamp of the SK it is wrapped under
deriving DecidableEq, Repr, Inhabited

structure Policy where
  now : Int                -- ns; the clock does not move during the race
  expireAfter : Int
  precision : Int
deriving DecidableEq, Repr, Inhabited

def nsPerSec : Int := 1000000000
def isExpired (p : Policy) (created : Int) : Bool := p.now > created * nsPerSec + p.expireAfter
def stamp (p : Policy) : Int := if p.precision > 0 then (p.now - p.now % p.precision) / nsPerSec else p.now / nsPerSec
def invalid (p : Policy) (r : Row) : Bool := isExpired p r.created || r.revoked

/-- what a finished process used. -/
structure Used where
  ikCreated : Int
  ikMat : Nat × Nat
  skCreated : Int
deriving DecidableEq, Repr, Inhabited

inductive Pc
  | start                                   -- next: LoadLatest(ik)
  | loadParent (r : Row)                    -- next: Load(sk @ r.parent)
  | llSK                                    -- createIntermediateKey → loadLatestOrCreateSystemKey: LoadLatest(sk)
  | storeSK                                 -- Store(sk @ stamp)
  | llSKretry                               -- mustLoadLatest(sk) after a refused insert
  | storeIK (sk : Row)                      -- Store(ik @ stamp, parent = sk.created)
  | llIKretry (sk : Row)                    -- mustLoadLatest(ik) after a refused insert
  | loadParent2 (r : Row)                   -- intermediateKeyFromEKR: the adopted IK names another SK
  | done (u : Used)
  | failed
deriving DecidableEq, Repr, Inhabited

structure St where
  store : List Row
  procs : List Pc
  serial : List Nat          -- per process: next material serial
deriving DecidableEq, Repr, Inhabited

def findRow (s : List Row) (k : Kid) (c : Int) : Option Row := s.find? fun r => r.kid = k ∧ r.created = c

def latest (s : List Row) (k : Kid) : Option Row :=
  (s.filter (·.kid = k)).foldl (fun acc r => match acc with
    | none => some r
    | some a => if a.created < r.created then some r else some a) none

def setPc (l : List Pc) (i : Nat) (p : Pc) : List Pc := l.mapIdx fun j x => if j = i then p else x
def bump (l : List Nat) (i : Nat) : List Nat := l.mapIdx fun j x => if j = i then x + 1 else x

/-- process `i` performs its next metastore call. `none` = it has none left. -/
def step (p : Policy) (st : St) (i : Nat) : Option St :=
  match st.procs[i]? with
  | none => none
  | some pc =>
    let goto (q : Pc) : Option St := some { st with procs := setPc st.procs i q }
    match pc with
    | .start =>
      match latest st.store .ik with
      | some r => if invalid p r then goto .llSK else goto (.loadParent r)
      | none => goto .llSK
    | .loadParent r =>
      match findRow st.store .sk r.parent with
      | none => goto .llSK                              -- getOrLoadSystemKey failed → createIntermediateKey
      | some s => if invalid p s then goto .llSK        -- getValidIntermediateKey: parent invalid
                  else goto (.done ⟨r.created, r.mat, s.created⟩)
    | .llSK =>
      match latest st.store .sk with
      | some s => if invalid p s then goto .storeSK else goto (.storeIK s)
      | none => goto .storeSK
    | .storeSK =>
      let n := st.serial.getD i 0
      let new : Row := { kid := .sk, created := stamp p, revoked := false, mat := (i, n), parent := 0 }
      if (findRow st.store .sk (stamp p)).isSome then
        some { st with procs := setPc st.procs i .llSKretry, serial := bump st.serial i }
      else
        some { store := st.store ++ [new], procs := setPc st.procs i (.storeIK new), serial := bump st.serial i }
    | .llSKretry =>
      match latest st.store .sk with
      | some s => goto (.storeIK s)                      -- adopted without a validity check
      | none => goto .failed
    | .storeIK sk =>
      let n := st.serial.getD i 0
      let new : Row := { kid := .ik, created := stamp p, revoked := false, mat := (i, n), parent := sk.created }
      if (findRow st.store .ik (stamp p)).isSome then
        some { st with procs := setPc st.procs i (.llIKretry sk), serial := bump st.serial i }
      else
        some { store := st.store ++ [new], procs := setPc st.procs i (.done ⟨new.created, new.mat, sk.created⟩),
               serial := bump st.serial i }
    | .llIKretry sk =>
      match latest st.store .ik with
      | some r => if r.parent = sk.created then goto (.done ⟨r.created, r.mat, sk.created⟩) else goto (.loadParent2 r)
      | none => goto .failed
    | .loadParent2 r =>
      match findRow st.store .sk r.parent with
      | some s => goto (.done ⟨r.created, r.mat, s.created⟩)
      | none => goto .failed
    | .done _ => none
    | .failed => none

/-- run a schedule (a list of process indices); indices of finished processes are skipped. -/
def run (p : Policy) (st : St) : List Nat → St
  | [] => st
  | i :: rest => match step p st i with
    | some st' => run p st' rest
    | none => run p st rest

def init (store : List Row) (n : Nat) : St := { store := store, procs := List.replicate n .start, serial := List.replicate n 0 }

/-- the call process `i` is about to make and what it will see (for the correspondence). -/
def describe (p : Policy) (st : St) (i : Nat) (off : Int := 0) : String :=
  let showL (k : String) (r : Option Row) : String := match r with
    | some r => s!"LL:{k}:{r.created - off}" | none => s!"LL:{k}:-"
  match st.procs[i]? with
  | some .start => showL "ik" (latest st.store .ik)
  | some (.loadParent r) => s!"L:sk@{r.parent - off}:{if (findRow st.store .sk r.parent).isSome then 1 else 0}"
  | some .llSK => showL "sk" (latest st.store .sk)
  | some .storeSK => s!"S:sk@{stamp p - off}:{if (findRow st.store .sk (stamp p)).isSome then 0 else 1}"
  | some .llSKretry => showL "sk" (latest st.store .sk)
  | some (.storeIK _) => s!"S:ik@{stamp p - off}:{if (findRow st.store .ik (stamp p)).isSome then 0 else 1}"
  | some (.llIKretry _) => showL "ik" (latest st.store .ik)
  | some (.loadParent2 r) => s!"L:sk@{r.parent - off}:{if (findRow st.store .sk r.parent).isSome then 1 else 0}"
  | some (.done _) => "done"
  | some .failed => "failed"
  | none => "none"

end AsherahVerif.KeyRace
