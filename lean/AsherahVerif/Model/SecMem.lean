/-
E5 — executable model of `go/securememory` (protectedmemory/secret.go, memguard/secret.go,
internal/memcall/{memcall,util}.go, internal/secrets/reader.go, securememory.go counters).

Part (a): sequential semantics of BOTH secret implementations over one shadow page per secret
  `{mapped, locked, dontdump, prot ∈ {none, ro, rw}, content ∈ {zero, orig id, rand id}}`
with a fault oracle `List Bool` (`true` = "this call fails"; an exhausted list answers "succeeds")
consumed, in program order, by every Alloc / Lock / Protect / Unlock / Free call and by the random
read, and an event trace of the primitives (every call records the page content it was issued on, so
"the Wipe of a page precedes its Unlock/Free" is a property of the trace).
Where Go would fault the model has explicit outcomes: `Res.panic` (memguard's `core.Panic`),
`Res.crash` (SIGSEGV: touching / wiping a page that is unmapped or not accessible),
`Res.deadlock` (sequential `Close` from inside a reader callback: `cond.Wait` forever).

Part (b): the interleaving system of the reader / closer protocol: any number of threads, each of
which may at any time call `access`, touch the bytes (only between its `access` and `release`, as the
API demands), `release`, `Close`, `IsClosed`; the atomic steps are exactly the blocks delimited by
`s.rw.Lock()/Unlock()` in access / release / Close (+ close) — `cond.Wait` releases the lock, so a
waiting closer is a separate thread state that re-runs the loop body when woken — under an arbitrary
scheduler, with faults.

The code shape facts the model is parameterised by (`Cfg`) are regenerated from /repo
(Generated/SecMem.lean, tied in Props/C12.lean).  Core Lean only (linked into `md_secmem`).
-/
namespace AsherahVerif.SecMem

inductive Impl | pm | mg
deriving DecidableEq, Repr, Inhabited

inductive Prot | none | ro | rw
deriving DecidableEq, Repr, Inhabited

/-- what the page holds: zeros (fresh mmap / wiped), the bytes handed to `New` by creation `id`,
or bytes of the random source written by creation `id` (also: a partially filled random read). -/
inductive Content | zero | orig (id : Nat) | rand (id : Nat)
deriving DecidableEq, Repr, Inhabited

def Content.isSecret : Content → Bool
  | .zero => false
  | _ => true

/-- shadow page (protectedmemory: the mmap'ed region; memguard: the buffer's *inner* region, the
only part the asherah code touches; `guards` = the library's guard pages are still mapped). -/
structure Page where
  mapped : Bool
  locked : Bool
  dontdump : Bool
  prot : Prot
  content : Content
  guards : Bool
deriving DecidableEq, Repr, Inhabited

def Page.absent : Page :=
  { mapped := false, locked := false, dontdump := false, prot := .none, content := .zero, guards := false }

def Page.readable (p : Page) : Bool := p.mapped && p.prot != .none
def Page.writable (p : Page) : Bool := p.mapped && p.prot == .rw

/-- memory primitives.  `allocG`/`freeG`/`canary`/`guard` only occur inside the memguard library
(allocation incl. two guard pages, free of the whole region, canary fill, `Protect(guard page)`).
`freeInner` is `memcall.Free` applied (through the interface) to the *inner* region of a memguard
buffer: the real primitive is `Protect(RW); wipe; munmap`, and `x/sys/unix.Munmap` rejects a slice
it did not hand out itself (EINVAL) — so it wipes the region and then ALWAYS fails (observed by
running the real code; the harness reports it as `free:ERR`). -/
inductive Prim
  | alloc | lock | protect (p : Prot) | unlock | free | rand
  | allocG | freeG | canary | guard | freeInner
deriving DecidableEq, Repr, Inhabited

/-- one call of a primitive. `lib` = issued inside the memguard library (not through
`memcall.Interface`, hence not injectable by the harness); `before` = page content at the call. -/
structure Call where
  prim : Prim
  ok : Bool
  lib : Bool
  before : Content
deriving DecidableEq, Repr, Inhabited

inductive Ev
  | call (c : Call)
  | copyIn        -- subtle.ConstantTimeCopy / LockedBuffer.Move into the page
  | wipe          -- core.Wipe of the page
  | wipeSrc       -- core.Wipe of the caller's buffer
  | allocInc      -- securememory.AllocCounter.Inc(1)
  | inuseInc      -- securememory.InUseCounter.Inc(1)
  | inuseDec      -- securememory.InUseCounter.Dec(1)
deriving DecidableEq, Repr, Inhabited

inductive Res | ok | err | closedErr | panic | deadlock | crash
deriving DecidableEq, Repr, Inhabited

def applyPrim (id : Nat) (pg : Page) : Prim → Page
  | .alloc => { mapped := true, locked := false, dontdump := false, prot := .rw, content := .zero, guards := false }
  | .allocG => { mapped := true, locked := false, dontdump := false, prot := .rw, content := .zero, guards := true }
  | .lock => { pg with locked := true, dontdump := true }      -- memcall.Lock = madvise(DONTDUMP) + mlock
  | .protect p => { pg with prot := p }
  | .unlock => { pg with locked := false }
  | .free => { pg with mapped := false, locked := false }
  | .freeG => { pg with mapped := false, locked := false, guards := false }
  | .rand => { pg with content := .rand id }
  | .canary => pg
  | .guard => pg
  | .freeInner => { pg with prot := .rw, content := .zero }

/-- primitives that report failure even when no fault is injected. -/
def Prim.alwaysFails : Prim → Bool
  | .freeInner => true
  | _ => false

/-- effect of a FAILED call: nothing, except that a failing reader may already have written part
of the buffer (conservative: the page then counts as holding random secret bytes). -/
def failPrim (id : Nat) (pg : Page) : Prim → Page
  | .rand => { pg with content := .rand id }
  | _ => pg

/-- a run of primitive calls: page, remaining fault oracle, events so far, SIGSEGV flag. -/
structure Run where
  page : Page
  fl : List Bool
  evs : List Ev
  crashed : Bool := false
deriving Repr, Inhabited

def Run.call (r : Run) (id : Nat) (prim : Prim) (lib : Bool) : Bool × Run :=
  let fail := r.fl.headD false
  let ok := !fail && !prim.alwaysFails
  let ev := Ev.call { prim := prim, ok := ok, lib := lib, before := r.page.content }
  if fail then (false, { r with fl := r.fl.tail, evs := r.evs ++ [ev], page := failPrim id r.page prim })
  else (ok, { r with fl := r.fl.tail, evs := r.evs ++ [ev], page := applyPrim id r.page prim })

/-- `core.Wipe(page)`: a store to every byte — SIGSEGV unless the page is mapped read-write. -/
def Run.wipe (r : Run) : Run :=
  if r.page.writable then { r with page := { r.page with content := .zero }, evs := r.evs ++ [.wipe] }
  else { r with crashed := true, evs := r.evs ++ [.wipe] }

def Run.wipeIf (b : Bool) (r : Run) : Run := if b then r.wipe else r

/-- copy the caller's bytes into the page, then wipe the caller's buffer. -/
def Run.copyIn (r : Run) (id : Nat) : Run :=
  if r.page.writable then { r with page := { r.page with content := .orig id }, evs := r.evs ++ [.copyIn, .wipeSrc] }
  else { r with crashed := true, evs := r.evs ++ [.copyIn] }

/-- `memcall.Clean(c, b)`: Unlock then Free, both attempted, errors grouped (util.go).
`inner` = `b` is the inner region of a memguard buffer. -/
def Run.clean (r : Run) (id : Nat) (inner : Bool := false) : Run :=
  let r1 := (r.call id .unlock false).2
  (r1.call id (if inner then .freeInner else .free) false).2

/-! ### code-shape parameters (regenerated from /repo, see Props/C12 `theCode`) -/

/-- which creation-failure paths wipe before they clean up.  All `false` = the code as found
(defect F-6); the proposed repair sets the four protectedmemory flags. -/
structure Cfg where
  wipeArgOnNewFail : Bool        -- pm `New`: `core.Wipe(b)` before `return nil, err` when newSecret fails
  wipeOnNewProtectFail : Bool    -- pm `New`: `core.Wipe(secret.bytes)` before `memcall.Clean`
  wipeOnRandFail : Bool          -- pm `createRandom`: wipe before Clean when the random read fails
  wipeOnRandProtectFail : Bool   -- pm `createRandom`: wipe before Unlock/Free when Protect fails
  mgWipeOnProtectFail : Bool     -- mg `newFromBuffer`: `lb.Melt(); lb.Wipe()` before `memcall.Clean(inner)`
deriving DecidableEq, Repr, Inhabited

def Cfg.asFound : Cfg := ⟨false, false, false, false, false⟩
def Cfg.repairedPm : Cfg := ⟨true, true, true, true, false⟩
def Cfg.repaired : Cfg := ⟨true, true, true, true, true⟩

/-- protocol facts of access / release / Close (regenerated from the skeletons, Props/C11 `theProto`):
the interleaving system is parameterised by them, so that each theorem names the facts it needs and
`Props/C11` can show what goes wrong without them. -/
structure Proto where
  accessChecksClosing : Bool   -- access() refuses when closing || closed, before touching anything
  closeWaits : Bool            -- Close() calls close() only when accessCounter == 0, else cond.Wait()
  releaseBroadcasts : Bool     -- release() defers s.c.Broadcast()
deriving DecidableEq, Repr, Inhabited

def Proto.good : Proto := ⟨true, true, true⟩

/-! ### a secret -/

structure Sec where
  impl : Impl
  id : Nat
  len : Nat
  born : Content           -- what creation stored: `orig id` (New) or `rand id` (CreateRandom)
  page : Page
  closing : Bool
  closed : Bool            -- pm: `closed`; mg: `!buffer.IsAlive()`
  counter : Nat            -- accessCounter
deriving DecidableEq, Repr, Inhabited

structure CreateOut where
  res : Res
  sec : Option Sec         -- `some` iff `res = ok`
  page : Page              -- final state of the page the call touched (`Page.absent` if none)
  srcWiped : Bool          -- the caller's buffer `b` was wiped (New only)
  evs : List Ev
  rest : List Bool
  crashed : Bool
deriving Repr, Inhabited

def mkSec (impl : Impl) (id len : Nat) (born : Content) (pg : Page) : Sec :=
  { impl := impl, id := id, len := len, born := born, page := pg, closing := false, closed := false, counter := 0 }

/-- protectedmemory `newSecret`: size check, Alloc, Lock (Free on failure). -/
def pmNewSecret (id len : Nat) (fl : List Bool) : Bool × Run :=
  let r0 : Run := { page := Page.absent, fl := fl, evs := [] }
  if len < 1 then (false, r0) else
  let a := r0.call id .alloc false
  if !a.1 then (false, a.2) else
  let l := a.2.call id .lock false
  if !l.1 then (false, (l.2.call id .free false).2)
  else (true, l.2)

def failOut (r : Run) (srcWiped : Bool) (res : Res := .err) : CreateOut :=
  { res := if r.crashed then .crash else res, sec := none, page := r.page, srcWiped := srcWiped,
    evs := r.evs, rest := r.fl, crashed := r.crashed }

def okOut (impl : Impl) (id len : Nat) (born : Content) (r : Run) (srcWiped : Bool) : CreateOut :=
  if r.crashed then failOut r srcWiped else
  { res := .ok, sec := some (mkSec impl id len born r.page), page := r.page, srcWiped := srcWiped,
    evs := r.evs ++ [.allocInc, .inuseInc], rest := r.fl, crashed := false }

/-- protectedmemory `SecretFactory.New(b)`, `len = len(b)`. -/
def pmNew (cfg : Cfg) (id len : Nat) (fl : List Bool) : CreateOut :=
  let n := pmNewSecret id len fl
  if !n.1 then
    failOut { n.2 with evs := n.2.evs ++ (if cfg.wipeArgOnNewFail then [.wipeSrc] else []) } cfg.wipeArgOnNewFail
  else
    let r := n.2.copyIn id
    let p := r.call id (.protect .none) false
    if !p.1 then failOut ((p.2.wipeIf cfg.wipeOnNewProtectFail).clean id) true
    else okOut .pm id len (.orig id) p.2 true

/-- protectedmemory `createRandom(size, readFunc)`. -/
def pmRand (cfg : Cfg) (id len : Nat) (fl : List Bool) : CreateOut :=
  let n := pmNewSecret id len fl
  if !n.1 then failOut n.2 false else
  let rd := n.2.call id .rand false
  if !rd.1 then failOut ((rd.2.wipeIf cfg.wipeOnRandFail).clean id) false else
  let p := rd.2.call id (.protect .none) false
  if !p.1 then failOut ((p.2.wipeIf cfg.wipeOnRandProtectFail).clean id) false
  else okOut .pm id len (.rand id) p.2 false

/-- memguard `core.NewBuffer(size)`: every failure is `core.Panic`. `none` = panicked. -/
def mgNewBuffer (id : Nat) (fl : List Bool) : Bool × Run :=
  let r0 : Run := { page := Page.absent, fl := fl, evs := [] }
  let a := r0.call id .allocG true
  if !a.1 then (false, a.2) else
  let l := a.2.call id .lock true
  if !l.1 then (false, l.2) else
  let c := l.2.call id .canary true
  if !c.1 then (false, c.2) else
  let g1 := c.2.call id .guard true
  if !g1.1 then (false, g1.2) else
  let g2 := g1.2.call id .guard true
  if !g2.1 then (false, g2.2) else (true, g2.2)

/-- memguard `Buffer.destroy()` as called by `LockedBuffer.Destroy()`: Protect(memory, RW); wipe;
canary check (assumed to pass: no overflow in the model); wipe; Unlock(inner); Free(memory).
`false` = `core.Panic`. -/
def mgDestroy (id : Nat) (r : Run) : Bool × Run :=
  let p := r.call id (.protect .rw) true
  if !p.1 then (false, p.2) else
  let w := p.2.wipe
  let u := w.call id .unlock true
  if !u.1 then (false, u.2) else
  let f := u.2.call id .freeG true
  (f.1, f.2)

/-- memguard `newFromBuffer(lb)` for an alive buffer whose content is `born`. -/
def mgFromBuffer (cfg : Cfg) (id len : Nat) (born : Content) (r : Run) (srcWiped : Bool) : CreateOut :=
  let p := r.call id (.protect .none) false
  if !p.1 then
    if cfg.mgWipeOnProtectFail then
      -- `lb.Melt()` = library Protect(inner, RW), `core.Panic` on failure; then `lb.Wipe()`
      let m := p.2.call id (.protect .rw) true
      if !m.1 then failOut m.2 srcWiped .panic
      else failOut (m.2.wipe.clean id true) srcWiped
    else failOut (p.2.clean id true) srcWiped
  else okOut .mg id len born p.2 srcWiped

/-- memguard `SecretFactory.New(b)`: `NewBufferFromBytes` (NewBuffer, Move, Freeze) + newFromBuffer. -/
def mgNew (cfg : Cfg) (id len : Nat) (fl : List Bool) : CreateOut :=
  if len < 1 then failOut { page := Page.absent, fl := fl, evs := [] } false else
  let n := mgNewBuffer id fl
  if !n.1 then failOut n.2 false .panic else
  let r := n.2.copyIn id
  let fz := r.call id (.protect .ro) true
  if !fz.1 then failOut fz.2 true .panic else
  mgFromBuffer cfg id len (.orig id) fz.2 true

/-- memguard `SecretFactory.CreateRandom(size)`: `NewBufferRandom` (NewBuffer, Scramble, Freeze). -/
def mgRand (cfg : Cfg) (id len : Nat) (fl : List Bool) : CreateOut :=
  if len < 1 then failOut { page := Page.absent, fl := fl, evs := [] } false else
  let n := mgNewBuffer id fl
  if !n.1 then failOut n.2 false .panic else
  let sc := n.2.call id .rand true
  if !sc.1 then failOut sc.2 false .panic else
  let fz := sc.2.call id (.protect .ro) true
  if !fz.1 then failOut fz.2 false .panic else
  mgFromBuffer cfg id len (.rand id) fz.2 false

def create (cfg : Cfg) (impl : Impl) (random : Bool) (id len : Nat) (fl : List Bool) : CreateOut :=
  match impl, random with
  | .pm, false => pmNew cfg id len fl
  | .pm, true => pmRand cfg id len fl
  | .mg, false => mgNew cfg id len fl
  | .mg, true => mgRand cfg id len fl

/-! ### access / release / Close (identical protocol in both packages; `close` differs) -/

structure StepOut where
  res : Res
  sec : Sec
  evs : List Ev
  rest : List Bool
deriving Repr, Inhabited

/-- `access()`: under the write lock. -/
def access (pf : Proto) (s : Sec) (fl : List Bool) : StepOut :=
  if pf.accessChecksClosing && (s.closing || s.closed) then { res := .closedErr, sec := s, evs := [], rest := fl } else
  if s.counter == 0 then
    let p := (Run.mk s.page fl [] false).call s.id (.protect .ro) false
    if !p.1 then { res := .err, sec := { s with page := p.2.page }, evs := p.2.evs, rest := p.2.fl }
    else { res := .ok, sec := { s with page := p.2.page, counter := s.counter + 1 }, evs := p.2.evs, rest := p.2.fl }
  else { res := .ok, sec := { s with counter := s.counter + 1 }, evs := [], rest := fl }

/-- `release()`: under the write lock; the counter is decremented first, then the protection is
dropped by the last reader (an error leaves the decrement in place). -/
def release (s : Sec) (fl : List Bool) : StepOut :=
  let s1 := { s with counter := s.counter - 1 }
  if s1.counter == 0 then
    let p := (Run.mk s.page fl [] false).call s.id (.protect .none) false
    { res := if p.1 then .ok else .err, sec := { s1 with page := p.2.page }, evs := p.2.evs, rest := p.2.fl }
  else { res := .ok, sec := s1, evs := [], rest := fl }

/-- protectedmemory `close()`: Protect RW, Wipe, Unlock, Free, closed := true, InUseCounter.Dec. -/
def pmClose (s : Sec) (fl : List Bool) : StepOut :=
  let p := (Run.mk s.page fl [] false).call s.id (.protect .rw) false
  if !p.1 then { res := .err, sec := { s with page := p.2.page }, evs := p.2.evs, rest := p.2.fl } else
  let w := p.2.wipe
  if w.crashed then { res := .crash, sec := { s with page := w.page }, evs := w.evs, rest := w.fl } else
  let u := w.call s.id .unlock false
  if !u.1 then { res := .err, sec := { s with page := u.2.page }, evs := u.2.evs, rest := u.2.fl } else
  let f := u.2.call s.id .free false
  if !f.1 then { res := .err, sec := { s with page := f.2.page }, evs := f.2.evs, rest := f.2.fl } else
  { res := .ok, sec := { s with page := f.2.page, closed := true }, evs := f.2.evs ++ [.inuseDec], rest := f.2.fl }

/-- memguard: `s.buffer.Destroy()` (panics on failure) then InUseCounter.Dec. -/
def mgClose (s : Sec) (fl : List Bool) : StepOut :=
  let d := mgDestroy s.id (Run.mk s.page fl [] false)
  if d.2.crashed then { res := .crash, sec := { s with page := d.2.page }, evs := d.2.evs, rest := d.2.fl } else
  if !d.1 then { res := .panic, sec := { s with page := d.2.page }, evs := d.2.evs, rest := d.2.fl }
  else { res := .ok, sec := { s with page := d.2.page, closed := true }, evs := d.2.evs ++ [.inuseDec], rest := d.2.fl }

def closeInner (s : Sec) (fl : List Bool) : StepOut :=
  match s.impl with
  | .pm => pmClose s fl
  | .mg => mgClose s fl

/-- one pass of `Close`'s loop body with the lock held (`closing` already set):
`none` = `s.c.Wait()` (the lock is released and the caller suspends). -/
def closeBody (pf : Proto) (s : Sec) (fl : List Bool) : Option StepOut :=
  if s.closed then some { res := .ok, sec := s, evs := [], rest := fl }
  else if s.counter == 0 || !pf.closeWaits then some (closeInner s fl)
  else none

/-- sequential `Close()`: with readers inside it can only wait for ever. -/
def close (pf : Proto) (s : Sec) (fl : List Bool) : StepOut :=
  let s1 := { s with closing := true }
  match closeBody pf s1 fl with
  | some o => o
  | none => { res := .deadlock, sec := s1, evs := [], rest := fl }

def isClosed (s : Sec) : Bool := s.closed

/-- what a reader callback observes when it touches the bytes. -/
inductive Seen | bytes (c : Content) | fault
deriving DecidableEq, Repr, Inhabited

def touch (s : Sec) : Seen := if s.page.readable then .bytes s.page.content else .fault

structure WithOut where
  res : Res
  sec : Sec
  evs : List Ev
  rest : List Bool
  called : Bool            -- the action ran
  inside : Option Page     -- page as seen inside the innermost callback
  seen : Option Seen       -- what it read there
deriving Repr, Inhabited

/-- `WithBytes` / `WithBytesFunc` whose action calls `WithBytes` again `nest` times (nested readers
of one goroutine) and reads the bytes in the innermost callback.  A `release` error is combined
with the action's error (`errors.WithMessage`): the result is an error if either is. -/
def withBytes (pf : Proto) : Nat → Sec → List Bool → WithOut
  | nest, s, fl =>
    let a := access pf s fl
    if a.res != .ok then
      { res := a.res, sec := a.sec, evs := a.evs, rest := a.rest, called := false, inside := none, seen := none }
    else
      match nest with
      | 0 =>
        let sn := touch a.sec
        if sn == .fault then
          { res := .crash, sec := a.sec, evs := a.evs, rest := a.rest, called := true, inside := some a.sec.page, seen := some sn }
        else
          let r := release a.sec a.rest
          { res := r.res, sec := r.sec, evs := a.evs ++ r.evs, rest := r.rest, called := true,
            inside := some a.sec.page, seen := some sn }
      | n + 1 =>
        let i := withBytes pf n a.sec a.rest
        if i.res == .crash then { i with evs := a.evs ++ i.evs, called := true } else
        let r := release i.sec i.rest
        { res := if i.res != .ok then i.res else r.res, sec := r.sec, evs := a.evs ++ i.evs ++ r.evs,
          rest := r.rest, called := true, inside := i.inside, seen := i.seen }

/-- `secrets.Reader.Read(p)` with `len(p) = k` at offset `i`: bytes copied, new offset, EOF. -/
def readerStep (len i k : Nat) : Nat × Nat × Bool :=
  if i ≥ len then (0, i, true)
  else
    let n := min k (len - i)
    (n, i + n, i + n ≥ len)

/-! ### a world of secrets (what the line-protocol driver replays) -/

structure World where
  cfg : Cfg
  pf : Proto := Proto.good
  secs : List Sec := []              -- successfully created secrets, index = sid
  readers : List (Nat × Nat) := []   -- (sid, offset), index = rid
  inuse : Int := 0
  allocs : Nat := 0
  nextId : Nat := 0
deriving Repr, Inhabited

inductive Op
  | new (impl : Impl) (len : Nat)
  | rand (impl : Impl) (len : Nat)
  | withB (sid nest : Nat)
  | withF (sid nest : Nat)
  | newReader (sid : Nat)
  | read (rid k : Nat)
  | close (sid : Nat)
  | isClosed (sid : Nat)
deriving DecidableEq, Repr, Inhabited

structure Obs where
  res : Res := .ok
  evs : List Ev := []
  page : Option Page := none       -- page of the secret concerned after the operation
  inside : Option Page := none
  seen : Option Seen := none
  srcWiped : Bool := false
  n : Nat := 0                     -- Reader.Read: bytes copied
  off : Nat := 0                   -- Reader.Read: offset the copy started at
  eof : Bool := false
  flag : Bool := false             -- IsClosed
  counter : Nat := 0
  created : Option Nat := none     -- sid of a new secret
  badOp : Bool := false
deriving Repr, Inhabited

def inuseDelta : List Ev → Int
  | [] => 0
  | .inuseInc :: t => inuseDelta t + 1
  | .inuseDec :: t => inuseDelta t - 1
  | _ :: t => inuseDelta t

def allocDelta : List Ev → Nat
  | [] => 0
  | .allocInc :: t => allocDelta t + 1
  | _ :: t => allocDelta t

def World.createOp (w : World) (impl : Impl) (random : Bool) (len : Nat) (fl : List Bool) : World × Obs :=
  let c := create w.cfg impl random w.nextId len fl
  let w1 := { w with nextId := w.nextId + 1, inuse := w.inuse + inuseDelta c.evs, allocs := w.allocs + allocDelta c.evs }
  match c.sec with
  | some s => ({ w1 with secs := w1.secs ++ [s] },
               { res := c.res, evs := c.evs, page := some c.page, srcWiped := c.srcWiped, created := some w.secs.length })
  | none => (w1, { res := c.res, evs := c.evs, page := some c.page, srcWiped := c.srcWiped })

def World.withOp (w : World) (sid nest : Nat) (fl : List Bool) : World × Obs :=
  match w.secs[sid]? with
  | none => (w, { badOp := true })
  | some s =>
    let o := withBytes w.pf nest s fl
    ({ w with secs := w.secs.set sid o.sec, inuse := w.inuse + inuseDelta o.evs },
     { res := o.res, evs := o.evs, page := some o.sec.page, inside := o.inside, seen := o.seen, counter := o.sec.counter })

def World.readOp (w : World) (rid k : Nat) (fl : List Bool) : World × Obs :=
  match w.readers[rid]? with
  | none => (w, { badOp := true })
  | some (sid, i) =>
    match w.secs[sid]? with
    | none => (w, { badOp := true })
    | some s =>
      let o := withBytes w.pf 0 s fl
      let rs := if o.called && o.res != .crash then readerStep s.len i k else (0, i, false)
      ({ w with secs := w.secs.set sid o.sec, readers := w.readers.set rid (sid, rs.2.1), inuse := w.inuse + inuseDelta o.evs },
       { res := o.res, evs := o.evs, page := some o.sec.page, inside := o.inside, seen := o.seen,
         n := rs.1, off := i, eof := rs.2.2 && o.res == .ok, counter := o.sec.counter })

def World.closeOp (w : World) (sid : Nat) (fl : List Bool) : World × Obs :=
  match w.secs[sid]? with
  | none => (w, { badOp := true })
  | some s =>
    let o := close w.pf s fl
    ({ w with secs := w.secs.set sid o.sec, inuse := w.inuse + inuseDelta o.evs },
     { res := o.res, evs := o.evs, page := some o.sec.page, counter := o.sec.counter })

def World.step (w : World) (op : Op) (fl : List Bool) : World × Obs :=
  match op with
  | .new impl len => w.createOp impl false len fl
  | .rand impl len => w.createOp impl true len fl
  | .withB sid nest => w.withOp sid nest fl
  | .withF sid nest => w.withOp sid nest fl
  | .newReader sid =>
    match w.secs[sid]? with
    | none => (w, { badOp := true })
    | some _ => ({ w with readers := w.readers ++ [(sid, 0)] }, { created := some w.readers.length })
  | .read rid k => w.readOp rid k fl
  | .close sid => w.closeOp sid fl
  | .isClosed sid =>
    match w.secs[sid]? with
    | none => (w, { badOp := true })
    | some s => (w, { flag := isClosed s, page := some s.page, counter := s.counter })

def World.run (w : World) : List (Op × List Bool) → World
  | [] => w
  | (op, fl) :: t => World.run (w.step op fl).1 t

/-- the observations of an operation sequence. -/
def World.trace (w : World) : List (Op × List Bool) → List Obs
  | [] => []
  | (op, fl) :: t => (w.step op fl).2 :: World.trace (w.step op fl).1 t

/-- repeated `Close()` attempts, each under its own faults: the secret afterwards and the sum of
the in-use counter movements. -/
def closeAttempts (pf : Proto) (s : Sec) : List (List Bool) → Sec × Int
  | [] => (s, 0)
  | fl :: t =>
    let o := close pf s fl
    let r := closeAttempts pf o.sec t
    (r.1, inuseDelta o.evs + r.2)

/-- number of secrets that were created and are not closed. -/
def live : List Sec → Int
  | [] => 0
  | s :: t => live t + (if s.closed then 0 else 1)

/-! ### trace properties -/

/-- "the Wipe of a page precedes its Unlock/Free": scanning the trace, the page is *dirty* from the
moment secret bytes are written (copy-in, random read — even a failed one) until the next Wipe, and
no Unlock/Free call (successful or not) may be issued on a dirty page. -/
def wipeBeforeRelease : Bool → List Ev → Bool
  | _, [] => true
  | dirty, .call c :: t =>
    match c.prim with
    | .unlock | .free | .freeG | .freeInner => !dirty && wipeBeforeRelease dirty t
    | .rand => wipeBeforeRelease true t
    | _ => wipeBeforeRelease dirty t
  | _, .copyIn :: t => wipeBeforeRelease true t
  | _, .wipe :: t => wipeBeforeRelease false t
  | dirty, _ :: t => wipeBeforeRelease dirty t

/-- the same property read off the contents recorded in the call events (what the harness's
shadow page table observes): no Unlock/Free is issued on a page that still holds secret bytes. -/
def releasesClean : List Ev → Bool
  | [] => true
  | .call c :: t =>
    (match c.prim with
     | .unlock | .free | .freeG | .freeInner => !c.before.isSecret
     | _ => true) && releasesClean t
  | _ :: t => releasesClean t

def anyFailed : List Ev → Bool
  | [] => false
  | .call c :: t => !c.ok || anyFailed t
  | _ :: t => anyFailed t

/-- a cleanup primitive (Unlock / Free) itself failed. -/
def cleanupFailed : List Ev → Bool
  | [] => false
  | .call c :: t =>
    (match c.prim with
     | .unlock | .free | .freeG | .freeInner => !c.ok
     | _ => false) || cleanupFailed t
  | _ :: t => cleanupFailed t

/-! ### part (b): the interleaving system -/

/-- a goroutine: `depth` = number of its `access` calls not yet released (it is inside `depth`
nested callbacks); `wait = some signalled` = suspended in `Close`'s `s.c.Wait()`, `signalled` once a
`Broadcast` has happened since it went to sleep. -/
structure Thread where
  depth : Nat := 0
  wait : Option Bool := none
deriving DecidableEq, Repr, Inhabited

inductive Act
  | access | touch | release | closeCall | wake | isClosed
deriving DecidableEq, Repr, Inhabited

structure CState where
  pf : Proto := Proto.good
  sec : Sec
  threads : List Thread
  crashed : Bool := false        -- some reader took a SIGSEGV
  panicked : Bool := false       -- memguard's `core.Panic` (only under library faults)
  badRead : Bool := false        -- some reader saw bytes other than the secret's
  faulted : Bool := false        -- ghost: some step so far ran with a non-empty fault oracle
  closeRets : Nat := 0           -- ghost: number of Close calls that have returned nil
  inuse : Int := 1
deriving Repr, Inhabited

def depthSum : List Thread → Nat
  | [] => 0
  | t :: ts => t.depth + depthSum ts

def signalAll (ts : List Thread) : List Thread :=
  ts.map fun t => match t.wait with
    | some _ => { t with wait := some true }
    | none => t

/-- outcome of running `Close`'s loop body for thread `tid` with the lock held. -/
def closeStep (st : CState) (tid : Nat) (t : Thread) (s : Sec) (fl : List Bool) : CState :=
  match closeBody st.pf s fl with
  | none => { st with sec := s, threads := st.threads.set tid { t with wait := some false } }
  | some o =>
    { st with sec := o.sec, threads := st.threads.set tid { t with wait := none },
              panicked := st.panicked || o.res == .panic,
              crashed := st.crashed || o.res == .crash,
              closeRets := st.closeRets + (if o.res == .ok then 1 else 0),
              inuse := st.inuse + inuseDelta o.evs }

/-- one atomic step of the running-or-waiting thread `t` = `st.threads[tid]`. -/
def cstepCore (st : CState) (tid : Nat) (t : Thread) (a : Act) (fl : List Bool) : CState :=
  match t.wait, a with
  | some true, .wake => closeStep st tid t st.sec fl
  | some _, _ => st
  | none, .access =>
    let o := access st.pf st.sec fl
    if o.res == .ok then { st with sec := o.sec, threads := st.threads.set tid { t with depth := t.depth + 1 } }
    else { st with sec := o.sec }
  | none, .touch =>
    if t.depth == 0 then st else
    match touch st.sec with
    | .fault => { st with crashed := true }
    | .bytes c => { st with badRead := st.badRead || c != st.sec.born }
  | none, .release =>
    if t.depth == 0 then st else
    let o := release st.sec fl
    let ts := st.threads.set tid { t with depth := t.depth - 1 }
    { st with sec := o.sec, threads := if st.pf.releaseBroadcasts then signalAll ts else ts }
  | none, .closeCall => closeStep st tid t { st.sec with closing := true } fl
  | none, .isClosed => st
  | none, .wake => st

/-- one atomic step of thread `tid`; a step that is not enabled (or comes after a crash/panic took
the process down) leaves the state unchanged. -/
def cstep (st : CState) (tid : Nat) (a : Act) (fl : List Bool) : CState :=
  if st.crashed || st.panicked then st else
  match st.threads[tid]? with
  | none => st
  | some t => cstepCore { st with faulted := st.faulted || !fl.isEmpty } tid t a fl

def crun (st : CState) : List (Nat × Act × List Bool) → CState
  | [] => st
  | (tid, a, fl) :: t => crun (cstep st tid a fl) t

/-- a freshly created secret shared by `n` goroutines. -/
def cinit (pf : Proto) (s : Sec) (n : Nat) : CState :=
  { pf := pf, sec := s, threads := List.replicate n {} }

end AsherahVerif.SecMem
