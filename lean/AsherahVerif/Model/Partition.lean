import AsherahVerif.Generated.Partition
/-
Engine `partition` (property C06): executable model of

  go/appencryption/partition.go        (all of it)
  go/appencryption/session.go          SessionFactory.GetSession (empty-id refusal), newPartition
  go/appencryption/envelope.go         the guard sequence at the top of DecryptDataRowRecord and the
                                       ParentKeyMeta that EncryptPayload writes into a record
  go/appencryption/key_cache.go        cacheKey

Go strings are byte strings: `==`, `+`, `fmt.Sprintf("%s")` and `strings.Index` act on bytes.  The
model therefore works over `Bytes := List UInt8` — every byte sequence, valid UTF-8 or not.

The four key-id formats are NOT written down here: they are the regenerated
`Generated.Partition.fmt*` (bytes of the `fmt.Sprintf` format literals of the current /repo) and the
id functions are `sprintf` of those.  Editing a format in /repo changes these definitions.

Core Lean only (this file is linked into the `md_partition` executable).
-/
namespace AsherahVerif.Partition
open AsherahVerif.Generated.Partition

abbrev Bytes := List UInt8

/-- `'_'` -/
def us : UInt8 := 95
/-- `'%'` -/
def pct : UInt8 := 37
/-- `'s'` -/
def verbS : UInt8 := 115

/-- `fmt.Sprintf(format, args…)` for formats whose only verb is `%s` and string arguments: each
`%s` is replaced by the raw bytes of the next argument.  Anything this model does not cover (another
verb, a trailing `%`, too few or too many arguments — where Go prints `%!s(MISSING)`/`%!(EXTRA …)`)
is `none`; `Props.C06.formats_render` proves that this never happens for the regenerated formats. -/
def sprintf : Bytes → List Bytes → Option Bytes
  | [], [] => some []
  | [], _ :: _ => none
  | c :: rest, args =>
    if c = pct then
      match rest, args with
      | v :: rest', a :: args' =>
        if v = verbS then (sprintf rest' args').map (a ++ ·) else none
      | _, _ => none
    else (sprintf rest args).map (c :: ·)

/-- result of `sprintf`, `[]` in the (excluded, see `sprintf`) unsupported case. -/
def render (format : Bytes) (args : List Bytes) : Bytes := (sprintf format args).getD []

/-! ### partition.go -/

/-- `defaultPartition.SystemKeyID` : `Sprintf("_SK_%s_%s", p.service, p.product)` -/
def skId (service product : Bytes) : Bytes := render fmtSK [service, product]

/-- `defaultPartition.IntermediateKeyID` : `Sprintf("_IK_%s_%s_%s", p.id, p.service, p.product)` -/
def ikId (id service product : Bytes) : Bytes := render fmtIK [id, service, product]

/-- `suffixedPartition.SystemKeyID` -/
def skIdSfx (service product suffix : Bytes) : Bytes := render fmtSKSfx [service, product, suffix]

/-- `suffixedPartition.IntermediateKeyID` -/
def ikIdSfx (id service product suffix : Bytes) : Bytes :=
  render fmtIKSfx [id, service, product, suffix]

/-- `strings.Index(s, sub)`: index of the first occurrence of `sub` in `s`, `none` for Go's `-1`. -/
def index : Bytes → Bytes → Option Nat
  | [], sub => if sub.isPrefixOf [] then some 0 else none
  | c :: t, sub => if sub.isPrefixOf (c :: t) then some 0 else (index t sub).map (· + 1)

/-- `defaultPartition.IsValidIntermediateKeyID(id)` : `id == p.IntermediateKeyID()` -/
def isValidIK (p service product : Bytes) (id : Bytes) : Bool :=
  id == ikId p service product

/-- `suffixedPartition.IsValidIntermediateKeyID(id)` :
`id == p.IntermediateKeyID() || strings.Index(id, p.defaultPartition.IntermediateKeyID()) == 0` -/
def isValidIKSfx (p service product suffix : Bytes) (id : Bytes) : Bool :=
  id == ikIdSfx p service product suffix || index id (ikId p service product) == some 0

/-- the two implementations of interface `partition`. -/
inductive Part where
  | dflt (id service product : Bytes)
  | sfx (id service product suffix : Bytes)
  deriving DecidableEq, Repr

namespace Part
def partitionId : Part → Bytes
  | dflt id _ _ => id
  | sfx id _ _ _ => id
def systemKeyID : Part → Bytes
  | dflt _ s pr => skId s pr
  | sfx _ s pr x => skIdSfx s pr x
def intermediateKeyID : Part → Bytes
  | dflt id s pr => ikId id s pr
  | sfx id s pr x => ikIdSfx id s pr x
def isValidIntermediateKeyID : Part → Bytes → Bool
  | dflt id s pr, k => isValidIK id s pr k
  | sfx id s pr x, k => isValidIKSfx id s pr x k
end Part

/-- the same decision as `Part.isValidIntermediateKeyID` with the partition's own ids computed once
(the driver checks millions of pairs per session; `Props.C06.validator_correct` proves the two
equal for every partition and id). -/
structure Validator where
  own : Bytes
  unsuffixed : Option Bytes
  deriving Repr

def Part.validator : Part → Validator
  | .dflt id s pr => { own := ikId id s pr, unsuffixed := none }
  | .sfx id s pr x => { own := ikIdSfx id s pr x, unsuffixed := some (ikId id s pr) }

def Validator.accepts (v : Validator) (id : Bytes) : Bool :=
  id == v.own || (match v.unsuffixed with | some u => u.isPrefixOf id | none => false)

/-! ### session.go -/

/-- what `SessionFactory.newPartition` looks at: `Config.Service`, `Config.Product` and the
metastore — `regionSuffix = none` when the metastore does not implement
`interface{ GetRegionSuffix() string }`, `some s` when it does and answers `s`. -/
structure Factory where
  service : Bytes
  product : Bytes
  regionSuffix : Option Bytes
  deriving DecidableEq, Repr

/-- `SessionFactory.newPartition`: suffixed iff the metastore reports a non-empty suffix. -/
def newPartition (f : Factory) (id : Bytes) : Part :=
  match f.regionSuffix with
  | some s => if s.length > 0 then .sfx id f.service f.product s else .dflt id f.service f.product
  | none => .dflt id f.service f.product

/-- `GetSession` refuses exactly the empty id (`if id == "" { return nil, errors.New(…) }`). -/
def getSessionOk (id : Bytes) : Bool := id ≠ []

/-- `GetSession`: `none` = "partition id cannot be empty"; otherwise a session, of which this model
keeps the partition (with or without the session cache the partition is `newPartition id`:
`newSession` is the session cache's loader). -/
def getSession (f : Factory) (id : Bytes) : Option Part :=
  if getSessionOk id then some (newPartition f id) else none

/-! ### envelope.go -/

structure KeyMeta where
  id : Bytes
  created : Int
  deriving DecidableEq, Repr

/-- `EnvelopeKeyRecord` as far as the guard is concerned (`ParentKeyMeta` is a pointer). -/
structure Ekr where
  parentKeyMeta : Option KeyMeta
  deriving DecidableEq, Repr

/-- `DataRowRecord` as far as the guard is concerned (`Key` is a pointer). -/
structure Drr where
  key : Option Ekr
  deriving DecidableEq, Repr

/-- the record `EncryptPayload` of a session returns carries
`ParentKeyMeta{Created: ik.Created(), ID: e.partition.IntermediateKeyID()}`. -/
def recordOf (part : Part) (ikCreated : Int) : Drr :=
  { key := some { parentKeyMeta := some { id := part.intermediateKeyID, created := ikCreated } } }

inductive Guard where
  | errKeyNil          -- "datarow key record cannot be empty"
  | errParentNil       -- "parent key cannot be empty"
  | errInvalidId       -- "unable to decrypt record"
  | proceed (m : KeyMeta)   -- go on to `e.ikCache.GetOrLoad(*drr.Key.ParentKeyMeta, loader)`
  deriving DecidableEq, Repr

/-- what `DecryptDataRowRecord` decides from the record BEFORE it looks up any key. -/
def decryptGuard (part : Part) (drr : Drr) : Guard :=
  match drr.key with
  | none => .errKeyNil
  | some k =>
    match k.parentKeyMeta with
    | none => .errParentNil
    | some m => if !part.isValidIntermediateKeyID m.id then .errInvalidId else .proceed m

inductive Res where
  | err
  | plaintext (b : Bytes)
  deriving DecidableEq, Repr

/-- `DecryptDataRowRecord` with everything after the guard (cache lookup, metastore, KMS, AEAD) as
an arbitrary continuation: the theorems quantify over it. -/
def decrypt (part : Part) (drr : Drr) (rest : KeyMeta → Res) : Res :=
  match decryptGuard part drr with
  | .proceed m => rest m
  | _ => .err

/-! ### key_cache.go -/

def digit (n : Nat) : UInt8 := UInt8.ofNat (48 + n % 10)

/-- decimal digits of a natural number, most significant first; `fuel` > `n` suffices. -/
def decNatF : Nat → Nat → Bytes
  | 0, _ => []
  | f + 1, n => if n < 10 then [digit n] else decNatF f (n / 10) ++ [digit n]

def decNat (n : Nat) : Bytes := decNatF (n + 1) n

/-- `strconv.FormatInt(c, 10)` (for every integer, in particular every int64). -/
def decimal (c : Int) : Bytes :=
  if c < 0 then 45 :: decNat c.natAbs else decNat c.toNat

/-- `cacheKey(id, create) = id + strconv.FormatInt(create, 10)` — no separator. -/
def cacheKey (id : Bytes) (created : Int) : Bytes := id ++ decimal created

end AsherahVerif.Partition
