/-
E4 / C16 — interleaving model of the session cache (go/appencryption/session_cache.go on top of
pkg/cache): `cacheWrapper.Get` (lookup-or-load, possible eviction, usage increment),
`sharedEncryption.Close` (decrement + broadcast), the remover goroutine spawned by the evict
callback (`Remove`: wait for zero users, then close the inner session), expiry, factory close.

Any number of anonymous holder threads; the eviction victim is arbitrary (every policy, capacity
≥ 1); expiry may strike any cached session at any `Get`.  Atomic steps are the mutex-delimited
blocks.  Which block contains the usage increment, and whether `Remove` waits for zero users, are
protocol facts read off the source (`Facts`).

Core Lean only.
-/
namespace AsherahVerif.SessCache

structure Facts where
  /-- `Get`: `getOrAdd` and `incrementSharedSessionUsage` happen under one `c.mu` critical section -/
  incrUnderCacheMutex : Bool
  /-- `Remove`: `for s.accessCounter > 0 { s.cond.Wait() }` precedes `s.Encryption.Close()` -/
  removeWaitsForZero : Bool
  /-- the evict callback starts exactly one remover for the evicted session -/
  evictSpawnsRemover : Bool
  /-- `sharedEncryption.Close` only decrements (and broadcasts); it never closes the inner session -/
  closeOnlyDecrements : Bool
deriving DecidableEq, Repr

def Facts.good : Facts := ⟨true, true, true, true⟩

structure Sess where
  part : Nat
  users : Int            -- accessCounter
  closes : Nat           -- how many times the inner Encryption.Close ran
  removers : Nat         -- remover goroutines that have not finished
deriving DecidableEq, Repr, Inhabited

structure St where
  cache : List (Nat × Nat)     -- partition ↦ session
  sess : List Sess
  holders : List Nat           -- one occurrence per caller that was handed the session and has not closed it
  pendingIncr : List Nat       -- handed out, usage not yet counted (only if ¬incrUnderCacheMutex)
  closedFactory : Bool
  failed : Bool                -- a holder used a session whose inner session was already closed
deriving DecidableEq, Repr, Inhabited

inductive Step
  | getHit (p : Nat)                                  -- partition cached: share the session
  | getLoad (p : Nat) (victim : Option Nat) (expired : Bool)
      -- not cached (or the cached one just expired: `expired`): load a new session; the policy may
      -- evict `victim` (a cached partition) first
  | incr (s : Nat)                                    -- delayed usage increment (¬incrUnderCacheMutex)
  | use (s : Nat)                                     -- Encrypt/Decrypt on a held session
  | close (s : Nat)                                   -- holder's Session.Close
  | remove (s : Nat)                                  -- a remover finds zero users and closes the inner session
  | factoryClose
deriving DecidableEq, Repr, Inhabited

def lookup (c : List (Nat × Nat)) (k : Nat) : Option Nat := (c.find? (·.1 == k)).map (·.2)
def erase (c : List (Nat × Nat)) (k : Nat) : List (Nat × Nat) := c.filter (·.1 != k)
def upd (l : List Sess) (i : Nat) (f : Sess → Sess) : List Sess := l.mapIdx fun j x => if j = i then f x else x

/-- evict callback: `go v.encryption.(*sharedEncryption).Remove()` -/
def spawnRemover (F : Facts) (l : List Sess) (s : Nat) : List Sess :=
  if F.evictSpawnsRemover then upd l s fun x => { x with removers := x.removers + 1 } else l

def step (F : Facts) (st : St) : Step → Option St
  | .getHit p =>
    if st.closedFactory then none else
    match lookup st.cache p with
    | some s =>
      if F.incrUnderCacheMutex then
        some { st with sess := upd st.sess s fun x => { x with users := x.users + 1 }, holders := s :: st.holders }
      else some { st with pendingIncr := s :: st.pendingIncr }
    | none => none
  | .getLoad p victim expired =>
    if st.closedFactory then none else
    -- an expired entry of this partition is evicted by `Get` first
    let r1 : Option (List (Nat × Nat) × List Sess) :=
      match lookup st.cache p with
      | some old => if expired then some (erase st.cache p, spawnRemover F st.sess old) else none
      | none => if expired then none else some (st.cache, st.sess)
    match r1 with
    | none => none
    | some (c1, l1) =>
      let r2 : Option (List (Nat × Nat) × List Sess) :=
        match victim with
        | none => some (c1, l1)
        | some vp =>
          match lookup c1 vp with
          | some vs => if vp = p then none else some (erase c1 vp, spawnRemover F l1 vs)
          | none => none
      match r2 with
      | none => none
      | some (c2, l2) =>
        let s := l2.length
        if F.incrUnderCacheMutex then
          some { st with cache := c2 ++ [(p, s)], sess := l2 ++ [{ part := p, users := 1, closes := 0, removers := 0 }],
                         holders := s :: st.holders }
        else
          some { st with cache := c2 ++ [(p, s)], sess := l2 ++ [{ part := p, users := 0, closes := 0, removers := 0 }],
                         pendingIncr := s :: st.pendingIncr }
  | .incr s =>
    if s ∈ st.pendingIncr then
      some { st with sess := upd st.sess s fun x => { x with users := x.users + 1 },
                     pendingIncr := st.pendingIncr.erase s, holders := s :: st.holders }
    else none
  | .use s =>
    if s ∈ st.holders then
      (if (st.sess.getD s default).closes > 0 then some { st with failed := true } else some st)
    else none
  | .close s =>
    if s ∈ st.holders then
      some { st with sess := upd st.sess s fun x => { x with users := x.users - 1 }, holders := st.holders.erase s }
    else none
  | .remove s =>
    let x := st.sess.getD s default
    if x.removers > 0 ∧ (x.users ≤ 0 ∨ !F.removeWaitsForZero) then
      some { st with sess := upd st.sess s fun x => { x with removers := x.removers - 1, closes := x.closes + 1 } }
    else none
  | .factoryClose =>
    if st.closedFactory then none else
    some { st with closedFactory := true, cache := [],
                   sess := st.cache.foldl (fun l e => spawnRemover F l e.2) st.sess }

def run (F : Facts) (st : St) : List Step → St
  | [] => st
  | x :: rest => match step F st x with
    | some st' => run F st' rest
    | none => run F st rest

def init : St := { cache := [], sess := [], holders := [], pendingIncr := [], closedFactory := false, failed := false }

def bad (st : St) : Bool := st.failed || st.sess.any (·.closes > 1)

/-! ### bounded exploration -/

def allSteps (nParts : Nat) (st : St) : List Step :=
  let ps := List.range nParts
  let ss := List.range st.sess.length
  let victims : List (Option Nat) := none :: (st.cache.map fun e => some e.1)
  (ps.flatMap fun p => [Step.getHit p] ++ victims.flatMap fun v => [Step.getLoad p v false, Step.getLoad p v true]) ++
  (ss.flatMap fun s => [Step.incr s, Step.use s, Step.close s, Step.remove s]) ++ [Step.factoryClose]

def bfs (F : Facts) (nParts maxHeld maxSess depth : Nat) : Nat × Nat × Option (List Step) :=
  let small (s : St) : Bool := s.holders.length + s.pendingIncr.length ≤ maxHeld && s.sess.length ≤ maxSess
  let rec go (fuel : Nat) (frontier : List (St × List Step)) (seen : List St) (trans : Nat) :
      Nat × Nat × Option (List Step) :=
    match fuel with
    | 0 => (seen.length, trans, none)
    | fuel + 1 =>
      let (next, seen', trans', found) :=
        frontier.foldl (fun (acc : List (St × List Step) × List St × Nat × Option (List Step)) (p : St × List Step) =>
          if acc.2.2.2.isSome then acc else
          (allSteps nParts p.1).foldl (fun (acc : List (St × List Step) × List St × Nat × Option (List Step)) x =>
            let (next, seen, trans, found) := acc
            if found.isSome then acc else
            match step F p.1 x with
            | none => acc
            | some s' =>
              if bad s' then (next, seen, trans + 1, some (p.2 ++ [x]))
              else if !small s' || seen.contains s' then (next, seen, trans + 1, found)
              else ((s', p.2 ++ [x]) :: next, s' :: seen, trans + 1, found)) acc)
          ([], seen, trans, none)
      match found with
      | some sched => (seen'.length, trans', some sched)
      | none => if next.isEmpty then (seen'.length, trans', none) else go fuel next seen' trans'
  go depth [(init, [])] [init] 0

end AsherahVerif.SessCache
