/-
E6 — codecs used by the metastore backends (part of the executable model, core Lean only):

* decimal integers (`strconv.FormatInt(_, 10)`, `strconv.Itoa`, DynamoDB `N`, JSON numbers),
* `base64.StdEncoding` (Encode; Decode: padded, `\r`/`\n` ignored, trailing bits not checked),
* the JSON text that `encoding/json` writes/reads for `EnvelopeKeyRecord` (HTML-escaping encoder,
  generic parser: whitespace, all escapes incl. surrogate pairs, objects/arrays/literals/numbers),
* DynamoDB attribute values,
* the SQL token stream / statement shapes a backend accepts, and `SQLMetastoreDBType.q`.

Strings are Lean `String`s (sequences of Unicode scalar values): Go strings that are not valid
UTF-8 are outside the model (`encoding/json` would replace the offending bytes by U+FFFD).
Integers are unbounded; the int64 range is a constraint of the harness' generator.
-/
namespace AsherahVerif.Metastore

/-! ### decimal -/

def digitChar (d : Nat) : Char := Char.ofNat (48 + d)

/-- digits of `n`, most significant first; `f` is fuel (`n < f` suffices). -/
def natDigitsF : Nat → Nat → List Char
  | 0, _ => []
  | f + 1, n => if n < 10 then [digitChar n] else natDigitsF f (n / 10) ++ [digitChar (n % 10)]

def natDigits (n : Nat) : List Char := natDigitsF (n + 1) n

/-- `strconv.FormatInt(i, 10)` -/
def fmtInt : Int → List Char
  | .ofNat n => natDigits n
  | .negSucc n => '-' :: natDigits (n + 1)

def digitVal (c : Char) : Option Nat :=
  if 48 ≤ c.toNat ∧ c.toNat ≤ 57 then some (c.toNat - 48) else none

def parseNatAcc : Nat → List Char → Option Nat
  | acc, [] => some acc
  | acc, c :: cs => match digitVal c with
    | some d => parseNatAcc (acc * 10 + d) cs
    | none => none

/-- a non-empty string of decimal digits -/
def parseNat : List Char → Option Nat
  | [] => none
  | cs => parseNatAcc 0 cs

/-- optional `-`, then digits (what `strconv.ParseInt(_, 10, 64)` accepts, without `+`; DynamoDB's
number syntax restricted to integers) -/
def parseInt : List Char → Option Int
  | '-' :: cs => (parseNat cs).map fun n => - (Int.ofNat n)
  | cs => (parseNat cs).map Int.ofNat

/-! ### base64 (StdEncoding) -/

def b64Char (n : Nat) : Char :=
  if n < 26 then Char.ofNat (65 + n)
  else if n < 52 then Char.ofNat (97 + (n - 26))
  else if n < 62 then Char.ofNat (48 + (n - 52))
  else if n = 62 then '+' else '/'

def b64Val (c : Char) : Option Nat :=
  let v := c.toNat
  if 65 ≤ v ∧ v ≤ 90 then some (v - 65)
  else if 97 ≤ v ∧ v ≤ 122 then some (v - 97 + 26)
  else if 48 ≤ v ∧ v ≤ 57 then some (v - 48 + 52)
  else if v = 43 then some 62
  else if v = 47 then some 63
  else none

def b64Encode : List UInt8 → List Char
  | a :: b :: c :: rest =>
    b64Char (a.toNat / 4) :: b64Char ((a.toNat % 4) * 16 + b.toNat / 16) ::
    b64Char ((b.toNat % 16) * 4 + c.toNat / 64) :: b64Char (c.toNat % 64) :: b64Encode rest
  | [a, b] =>
    [b64Char (a.toNat / 4), b64Char ((a.toNat % 4) * 16 + b.toNat / 16), b64Char ((b.toNat % 16) * 4), '=']
  | [a] => [b64Char (a.toNat / 4), b64Char ((a.toNat % 4) * 16), '=', '=']
  | [] => []

def byteOf (n : Nat) : UInt8 := UInt8.ofNat n

/-- quanta of four characters; `=` padding only in the last quantum. -/
def b64DecodeQ : List Char → Option (List UInt8)
  | [] => some []
  | a :: b :: c :: d :: rest =>
    match b64Val a, b64Val b with
    | some x, some y =>
      if rest.isEmpty ∧ d = '=' then
        if c = '=' then some [byteOf (x * 4 + y / 16)]
        else match b64Val c with
          | some z => some [byteOf (x * 4 + y / 16), byteOf ((y % 16) * 16 + z / 4)]
          | none => none
      else match b64Val c, b64Val d, b64DecodeQ rest with
        | some z, some w, some r =>
          some (byteOf (x * 4 + y / 16) :: byteOf ((y % 16) * 16 + z / 4) :: byteOf ((z % 4) * 64 + w) :: r)
        | _, _, _ => none
    | _, _ => none
  | _ => none

def isNewline (c : Char) : Bool := c = '\r' ∨ c = '\n'

/-- `base64.StdEncoding.DecodeString` -/
def b64Decode (s : List Char) : Option (List UInt8) := b64DecodeQ (s.filter fun c => !isNewline c)

/-! ### JSON text -/

inductive Json where
  | null
  | bool (b : Bool)
  | num (lit : List Char)
  | str (s : List Char)
  | arr (xs : List Json)
  | obj (kvs : List (List Char × Json))
deriving Repr, Inhabited

def hexDigit (n : Nat) : Char := if n < 10 then Char.ofNat (48 + n) else Char.ofNat (87 + n)

def hexVal (c : Char) : Option Nat :=
  let v := c.toNat
  if 48 ≤ v ∧ v ≤ 57 then some (v - 48)
  else if 97 ≤ v ∧ v ≤ 102 then some (v - 87)
  else if 65 ≤ v ∧ v ≤ 70 then some (v - 55)
  else none

def u4 (n : Nat) : List Char :=
  ['\\', 'u', hexDigit (n / 4096 % 16), hexDigit (n / 256 % 16), hexDigit (n / 16 % 16), hexDigit (n % 16)]

/-- one character as `encoding/json` writes it inside a string (HTML escaping on, the default of
`json.Marshal`). -/
def jsonEscapeChar (c : Char) : List Char :=
  if c = '"' then ['\\', '"']
  else if c = '\\' then ['\\', '\\']
  else if c = '\n' then ['\\', 'n']
  else if c = '\r' then ['\\', 'r']
  else if c = '\t' then ['\\', 't']
  else if c = Char.ofNat 8 then ['\\', 'b']
  else if c = Char.ofNat 12 then ['\\', 'f']
  else if c.toNat < 32 ∨ c = '<' ∨ c = '>' ∨ c = '&' ∨ c.toNat = 0x2028 ∨ c.toNat = 0x2029 then u4 c.toNat
  else [c]

def jsonEscape : List Char → List Char
  | [] => []
  | c :: cs => jsonEscapeChar c ++ jsonEscape cs

def jsonString (s : List Char) : List Char := '"' :: (jsonEscape s ++ ['"'])

def isWs (c : Char) : Bool := c = ' ' ∨ c = '\t' ∨ c = '\n' ∨ c = '\r'

def skipWs : List Char → List Char
  | [] => []
  | c :: cs => if isWs c then skipWs cs else c :: cs

def hex4 (a b c d : Char) : Option Nat :=
  match hexVal a, hexVal b, hexVal c, hexVal d with
  | some x, some y, some z, some w => some (x * 4096 + y * 256 + z * 16 + w)
  | _, _, _, _ => none

def replacementChar : Char := Char.ofNat 0xFFFD

/-- one escape sequence, positioned after the backslash: the character it denotes and the rest.
`\uD83D\uDD11` pairs are combined, a lone surrogate becomes U+FFFD (as `encoding/json` does). -/
def parseEscape : List Char → Option (Char × List Char)
  | [] => none
  | e :: r1 =>
    if e = '"' then some ('"', r1)
    else if e = '\\' then some ('\\', r1)
    else if e = '/' then some ('/', r1)
    else if e = 'b' then some (Char.ofNat 8, r1)
    else if e = 'f' then some (Char.ofNat 12, r1)
    else if e = 'n' then some ('\n', r1)
    else if e = 'r' then some ('\r', r1)
    else if e = 't' then some ('\t', r1)
    else if e = 'u' then
      match r1 with
      | h1 :: h2 :: h3 :: h4 :: r2 =>
        match hex4 h1 h2 h3 h4 with
        | none => none
        | some u =>
          if 0xD800 ≤ u ∧ u < 0xDC00 then
            -- high surrogate: combined with a directly following \uDC00..\uDFFF
            match r2 with
            | b1 :: b2 :: l1 :: l2 :: l3 :: l4 :: r3 =>
              match (if b1 = '\\' ∧ b2 = 'u' then hex4 l1 l2 l3 l4 else none) with
              | some lo =>
                if 0xDC00 ≤ lo ∧ lo < 0xE000 then
                  some (Char.ofNat (0x10000 + (u - 0xD800) * 1024 + (lo - 0xDC00)), r3)
                else some (replacementChar, r2)
              | none => some (replacementChar, r2)
            | _ => some (replacementChar, r2)
          else some ((if 0xDC00 ≤ u ∧ u < 0xE000 then replacementChar else Char.ofNat u), r2)
      | _ => none
    else none

/-- the body of a string after its opening quote: (decoded characters, rest after the closing
quote).  Control characters below 0x20 are a syntax error.  The fuel counts characters. -/
def parseStrBodyF : Nat → List Char → Option (List Char × List Char)
  | 0, _ => none
  | _ + 1, [] => none
  | f + 1, c :: r =>
    if c = '"' then some ([], r)
    else if c = '\\' then
      match parseEscape r with
      | none => none
      | some (x, r') =>
        match parseStrBodyF f r' with
        | some (s, r'') => some (x :: s, r'')
        | none => none
    else if c.toNat < 32 then none
    else
      match parseStrBodyF f r with
      | some (s, r') => some (c :: s, r')
      | none => none

def parseStrBody (cs : List Char) : Option (List Char × List Char) := parseStrBodyF cs.length cs

def isNumChar (c : Char) : Bool :=
  (48 ≤ c.toNat ∧ c.toNat ≤ 57) ∨ c = '-' ∨ c = '+' ∨ c = '.' ∨ c = 'e' ∨ c = 'E'

/-- the maximal run of number characters (the literal is validated where it is converted). -/
def scanNum : List Char → List Char × List Char
  | [] => ([], [])
  | c :: cs => if isNumChar c then let (n, r) := scanNum cs; (c :: n, r) else ([], c :: cs)

def dropPrefix? : List Char → List Char → Option (List Char)
  | [], cs => some cs
  | _ :: _, [] => none
  | p :: ps, c :: cs => if p = c then dropPrefix? ps cs else none

mutual
/-- one JSON value (leading whitespace allowed); fuel bounds nesting plus members. -/
def parseValue : Nat → List Char → Option (Json × List Char)
  | 0, _ => none
  | f + 1, cs =>
    match skipWs cs with
    | [] => none
    | c :: r =>
      if c = '{' then
        match skipWs r with
        | [] => none
        | c2 :: r2 =>
          if c2 = '}' then some (.obj [], r2)
          else match parseMembers f (c2 :: r2) with
            | some (ms, r3) => some (.obj ms, r3)
            | none => none
      else if c = '[' then
        match skipWs r with
        | [] => none
        | c2 :: r2 =>
          if c2 = ']' then some (.arr [], r2)
          else match parseElems f (c2 :: r2) with
            | some (xs, r3) => some (.arr xs, r3)
            | none => none
      else if c = '"' then
        match parseStrBody r with
        | some (s, r') => some (.str s, r')
        | none => none
      else if c = 't' then (dropPrefix? ['r', 'u', 'e'] r).map fun r' => (.bool true, r')
      else if c = 'f' then (dropPrefix? ['a', 'l', 's', 'e'] r).map fun r' => (.bool false, r')
      else if c = 'n' then (dropPrefix? ['u', 'l', 'l'] r).map fun r' => (.null, r')
      else if isNumChar c then
        let (n, r') := scanNum (c :: r)
        some (.num n, r')
      else none
/-- members of an object, positioned at the opening quote of a key; consumes the closing brace. -/
def parseMembers : Nat → List Char → Option (List (List Char × Json) × List Char)
  | 0, _ => none
  | f + 1, cs =>
    match cs with
    | [] => none
    | c :: r =>
      if c = '"' then
        match parseStrBody r with
        | none => none
        | some (k, r1) =>
          match skipWs r1 with
          | [] => none
          | c1 :: r2 =>
            if c1 = ':' then
              match parseValue f r2 with
              | none => none
              | some (v, r3) =>
                match skipWs r3 with
                | [] => none
                | c3 :: r4 =>
                  if c3 = ',' then
                    match parseMembers f (skipWs r4) with
                    | some (ms, r5) => some ((k, v) :: ms, r5)
                    | none => none
                  else if c3 = '}' then some ([(k, v)], r4)
                  else none
            else none
      else none
/-- elements of an array, positioned at the first element; consumes the closing bracket. -/
def parseElems : Nat → List Char → Option (List Json × List Char)
  | 0, _ => none
  | f + 1, cs =>
    match parseValue f cs with
    | none => none
    | some (v, r3) =>
      match skipWs r3 with
      | [] => none
      | c3 :: r4 =>
        if c3 = ',' then
          match parseElems f r4 with
          | some (xs, r5) => some (v :: xs, r5)
          | none => none
        else if c3 = ']' then some ([v], r4)
        else none
end

/-- a whole document: one value, then only whitespace. -/
def parseJson (cs : List Char) : Option Json :=
  match parseValue (cs.length + 1) cs with
  | some (j, r) => if (skipWs r).isEmpty then some j else none
  | none => none

/-! ### struct tags -/

/-- name part of a `json:"Name,omitempty"` / `dynamodbav:"…"` tag -/
def tagName (tag : String) : List Char := tag.toList.takeWhile (· ≠ ',')

def tagOmitEmpty (tag : String) : Bool :=
  (tag.toList.dropWhile (· ≠ ',')) == ",omitempty".toList

def tagOf (tags : List (String × String)) (field : String) : String :=
  match tags.find? (·.1 = field) with
  | some (_, t) => t
  | none => ""

def asciiLower (c : Char) : Char := if 65 ≤ c.toNat ∧ c.toNat ≤ 90 then Char.ofNat (c.toNat + 32) else c

/-- `strings.EqualFold` restricted to ASCII letters -/
def equalFold (a b : List Char) : Bool := a.map asciiLower == b.map asciiLower

/-- field lookup of `encoding/json` and of both DynamoDB attribute decoders: exact name first, then
case-insensitively; returns the index of the field. -/
def fieldIndex (names : List (List Char)) (key : List Char) : Option Nat :=
  match names.findIdx? (· = key) with
  | some i => some i
  | none => names.findIdx? (equalFold · key)

/-! ### DynamoDB attribute values -/

inductive AV where
  | s (v : String)
  | n (v : String)
  | bool (b : Bool)
  | null
  | m (kvs : List (String × AV))
deriving Repr, Inhabited

abbrev Item := List (String × AV)

def itemGet : Item → String → Option AV
  | [], _ => none
  | (k, v) :: t, name => if k = name then some v else itemGet t name

/-! ### SQL text: tokens, statements, placeholder rewriting -/

def isIdentStart (c : Char) : Bool :=
  c = '_' ∨ (97 ≤ c.toNat ∧ c.toNat ≤ 122) ∨ (65 ≤ c.toNat ∧ c.toNat ≤ 90)
def isDigit (c : Char) : Bool := 48 ≤ c.toNat ∧ c.toNat ≤ 57

inductive TokClass | ident | digits | ph
deriving DecidableEq, Repr

/-- tokenizer state: finished tokens (reversed), the token being read (reversed) and its class -/
structure TokSt where
  done : List (List Char) := []
  cur : List Char := []
  cls : TokClass := .ident
  bad : Bool := false

def TokSt.flush (s : TokSt) : TokSt :=
  if s.cur.isEmpty then s
  else if s.cls = .ph ∧ s.cur.length = 1 then { s with bad := true }      -- bare `$` or `:`
  else { s with done := s.cur.reverse :: s.done, cur := [] }

def tokStep (s : TokSt) (c : Char) : TokSt :=
  if s.bad then s else
  let continues : Bool :=
    !s.cur.isEmpty && (match s.cls with
      | .ident => isIdentStart c || isDigit c
      | .digits => isDigit c
      | .ph => isDigit c)
  if continues then { s with cur := c :: s.cur } else
  let s := s.flush
  if s.bad then s
  else if isWs c then s
  else if isIdentStart c then { s with cur := [c], cls := .ident }
  else if isDigit c then { s with cur := [c], cls := .digits }
  else if c = '$' ∨ c = ':' then { s with cur := [c], cls := .ph }
  else if c = '?' ∨ c = '(' ∨ c = ')' ∨ c = ',' ∨ c = '=' then { s with done := [c] :: s.done }
  else { s with bad := true }

/-- identifiers, numbers, `?`, `$n`, `:n` and the punctuation `( ) , =`; anything else is a syntax error -/
def tokenize (q : List Char) : Option (List (List Char)) :=
  let s := (q.foldl tokStep {}).flush
  if s.bad then none else some s.done.reverse

inductive Dialect | mysql | postgres | oracle
deriving DecidableEq, Repr, Inhabited

structure Cond where
  col : String
  param : Nat
deriving DecidableEq, Repr

inductive Stmt
  | insert (table : String) (cols : List String) (params : List Nat)
  | select (col : String) (table : String) (conds : List Cond) (order : Option (String × Bool)) (limit : Option Nat)
deriving DecidableEq, Repr

def isIdentTok (t : List Char) : Bool := match t with | c :: _ => isIdentStart c | [] => false

def upper (c : Char) : Char := if 97 ≤ c.toNat ∧ c.toNat ≤ 122 then Char.ofNat (c.toNat - 32) else c
def isKw (t : List Char) (kw : String) : Bool := t.map upper == kw.toList

/-- the 0-based argument index a placeholder token denotes in the given dialect; `nq` counts the `?`
seen so far. -/
def placeholder (d : Dialect) (nq : Nat) (t : List Char) : Option (Nat × Nat) :=
  match d, t with
  | .mysql, ['?'] => some (nq, nq + 1)
  | .postgres, '$' :: ds => match parseNat ds with
    | some (n + 1) => some (n, nq)
    | _ => none
  | .oracle, ':' :: ds => match parseNat ds with
    | some (n + 1) => some (n, nq)
    | _ => none
  | _, _ => none

/-- `c {, c} )` -/
def parseCols : List (List Char) → Option (List String × List (List Char))
  | c :: sep :: rest =>
    if !isIdentTok c then none
    else if sep = [')'] then some ([String.ofList c], rest)
    else if sep = [','] then
      match parseCols rest with
      | some (cs, r) => some (String.ofList c :: cs, r)
      | none => none
    else none
  | _ => none

/-- `p {, p} )` -/
def parsePhs (d : Dialect) : Nat → List (List Char) → Option (List Nat × List (List Char))
  | nq, p :: sep :: rest =>
    match placeholder d nq p with
    | none => none
    | some (i, nq') =>
      if sep = [')'] then some ([i], rest)
      else if sep = [','] then
        match parsePhs d nq' rest with
        | some (is, r) => some (i :: is, r)
        | none => none
      else none
  | _, _ => none

/-- `c = p {AND c = p}`; returns the conditions and the remaining tokens -/
def parseConds (d : Dialect) : Nat → List (List Char) → Option (List Cond × List (List Char))
  | nq, c :: e :: p :: rest =>
    if !isIdentTok c ∨ e ≠ ['='] then none else
    match placeholder d nq p with
    | none => none
    | some (i, nq') =>
      match rest with
      | a :: rest' =>
        if isKw a "AND" then
          match parseConds d nq' rest' with
          | some (cs, r) => some (⟨String.ofList c, i⟩ :: cs, r)
          | none => none
        else some ([⟨String.ofList c, i⟩], rest)
      | [] => some ([⟨String.ofList c, i⟩], [])
  | _, _ => none

def parseTail (toks : List (List Char)) : Option (Option (String × Bool) × Option Nat) :=
  -- [ORDER BY c [ASC|DESC]] [LIMIT n]
  let ord : Option (Option (String × Bool) × List (List Char)) :=
    match toks with
    | o :: b :: c :: rest =>
      if isKw o "ORDER" then
        if isKw b "BY" ∧ isIdentTok c then
          match rest with
          | dir :: rest' =>
            if isKw dir "DESC" then some (some (String.ofList c, true), rest')
            else if isKw dir "ASC" then some (some (String.ofList c, false), rest')
            else some (some (String.ofList c, false), rest)
          | [] => some (some (String.ofList c, false), [])
        else none
      else some (none, toks)
    | o :: _ => if isKw o "ORDER" then none else some (none, toks)
    | [] => some (none, [])
  match ord with
  | none => none
  | some (o, rest) =>
    match rest with
    | [] => some (o, none)
    | [l, n] => if isKw l "LIMIT" then (parseNat n).map fun k => (o, some k) else none
    | _ => none

/-- the statements a backend of the given dialect accepts (see go/internal/fakesql). -/
def parseSql (d : Dialect) (q : String) : Option Stmt :=
  match tokenize q.toList with
  | none => none
  | some toks =>
    match toks with
    | k1 :: k2 :: t :: lp :: rest =>
      if isKw k1 "INSERT" then
        if isKw k2 "INTO" ∧ isIdentTok t ∧ lp = ['('] then
          match parseCols rest with
          | some (cols, v :: lp2 :: rest2) =>
            if isKw v "VALUES" ∧ lp2 = ['('] then
              match parsePhs d 0 rest2 with
              | some (ps, []) => if cols.length = ps.length then some (.insert (String.ofList t) cols ps) else none
              | _ => none
            else none
          | _ => none
        else none
      else if isKw k1 "SELECT" then
        -- SELECT c FROM t WHERE …      (k2 = c, t = FROM, lp = table)
        match rest with
        | w :: rest2 =>
          if isIdentTok k2 ∧ isKw t "FROM" ∧ isIdentTok lp ∧ isKw w "WHERE" then
            match parseConds d 0 rest2 with
            | some (conds, rest3) =>
              match parseTail rest3 with
              | some (o, l) => some (.select (String.ofList k2) (String.ofList lp) conds o l)
              | none => none
            | none => none
          else none
        | [] => none
      else none
    | _ => none

/-- `qrx.ReplaceAllStringFunc(sql, …)`: the i-th `?` becomes `pref` followed by `strconv.Itoa(i)`. -/
def qRewrite (pref : Char) : Nat → List Char → List Char
  | _, [] => []
  | n, c :: cs => if c = '?' then (pref :: natDigits (n + 1)) ++ qRewrite pref (n + 1) cs else c :: qRewrite pref n cs

end AsherahVerif.Metastore
