import AsherahVerif.Model.Metastore
import AsherahVerif.Generated.Metastore
import AsherahVerif.Expected.Metastore
/-
The metastore model instantiated with the literals of the current source (`genFacts`, used by the
driver) and with the literals the theorems are proved for (`expFacts`).  `Props/C13.lean` proves
`genFacts = expFacts`.
-/
namespace AsherahVerif.Metastore

structure Facts where
  sql : SqlLits
  rowNames : Names            -- EnvelopeKeyRecord / KeyMeta `json` tags (SQL row; v1 decoder)
  idTag : String              -- tag of EnvelopeKeyRecord.ID (`-`: never serialised)
  v1 : DdbLits
  v1Enc : Names               -- DynamoDBEnvelope / KeyMeta `json` tags (v1 encoder)
  v2 : DdbLits
  v2Names : Names             -- envelope / keyMeta `dynamodbav` tags
  v2Item : ItemNames          -- metastoreItem `dynamodbav` tags
deriving DecidableEq, Repr

namespace G
open AsherahVerif.Generated.Metastore
def facts : Facts :=
  { sql := ⟨sqlLoadKeyQuery, sqlStoreKeyQuery, sqlLoadLatestQuery, sqlPostgres, sqlOracle, sqlMySQL⟩,
    rowNames := Names.ofTags ekrJsonTags keyMetaJsonTags,
    idTag := tagOf ekrJsonTags "ID",
    v1 := ⟨V1.partitionKey, V1.sortKey, V1.keyRecord, V1.defaultTableName, V1.conditionExpression,
           V1.getConsistentRead, V1.queryConsistentRead, V1.queryScanIndexForward, V1.queryLimit⟩,
    v1Enc := Names.ofTags V1.envelopeJsonTags keyMetaJsonTags,
    v2 := ⟨V2.partitionKey, V2.sortKey, V2.keyRecord, V2.defaultTableName, V2.conditionExpression,
           V2.getConsistentRead, V2.queryConsistentRead, V2.queryScanIndexForward, V2.queryLimit⟩,
    v2Names := Names.ofTags V2.envelopeTags V2.keyMetaTags,
    v2Item := ⟨tagNameS (tagOf V2.itemTags "ID"), tagNameS (tagOf V2.itemTags "Created"), tagNameS (tagOf V2.itemTags "KeyRecord")⟩ }
end G

namespace E
open AsherahVerif.Expected.Metastore
def facts : Facts :=
  { sql := ⟨sqlLoadKeyQuery, sqlStoreKeyQuery, sqlLoadLatestQuery, sqlPostgres, sqlOracle, sqlMySQL⟩,
    rowNames := Names.ofTags ekrJsonTags keyMetaJsonTags,
    idTag := tagOf ekrJsonTags "ID",
    v1 := ⟨V1.partitionKey, V1.sortKey, V1.keyRecord, V1.defaultTableName, V1.conditionExpression,
           V1.getConsistentRead, V1.queryConsistentRead, V1.queryScanIndexForward, V1.queryLimit⟩,
    v1Enc := Names.ofTags V1.envelopeJsonTags keyMetaJsonTags,
    v2 := ⟨V2.partitionKey, V2.sortKey, V2.keyRecord, V2.defaultTableName, V2.conditionExpression,
           V2.getConsistentRead, V2.queryConsistentRead, V2.queryScanIndexForward, V2.queryLimit⟩,
    v2Names := Names.ofTags V2.envelopeTags V2.keyMetaTags,
    v2Item := ⟨tagNameS (tagOf V2.itemTags "ID"), tagNameS (tagOf V2.itemTags "Created"), tagNameS (tagOf V2.itemTags "KeyRecord")⟩ }
end E

/-- the DynamoDB table the documentation prescribes (docs/Metastore.md: partition key `Id` (string),
sort key `Created` (number)) under the given name -/
def docTable (name : String) : Ddb := { table := name, hashKey := "Id", rangeKey := "Created" }

/-- the SQL database of the given dialect holding the documented, empty `encryption_key` table -/
def docSql (d : Dialect) : Sql := { dialect := d }

/-- how a SQL metastore is constructed: without option, or with `WithSQLMetastoreDBType(t)` -/
inductive SqlSetup | default | mysql | postgres | oracle
deriving DecidableEq, Repr, Inhabited

def SqlSetup.dbType (F : Facts) : SqlSetup → Option String
  | .default => none | .mysql => some F.sql.mysql | .postgres => some F.sql.postgres | .oracle => some F.sql.oracle

/-- the statements of `NewSQLMetastore(db, opts…)` -/
def SqlSetup.ms (F : Facts) (s : SqlSetup) : SqlMs := newSqlMs F.sql (s.dbType F)

/-- the placeholder dialect of the database behind it -/
def SqlSetup.dialect : SqlSetup → Dialect
  | .default => .mysql | .mysql => .mysql | .postgres => .postgres | .oracle => .oracle

def Facts.codec1 (F : Facts) : DdbCodec := codecV1 F.v1 F.v1Enc F.rowNames
def Facts.codec2 (F : Facts) : DdbCodec := codecV2 F.v2Item F.v2Names

end AsherahVerif.Metastore
