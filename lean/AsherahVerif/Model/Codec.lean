import AsherahVerif.Model.Gcm
/-
The "independent implementation written from the documentation" (property C18): encoders and
decoders for everything asherah stores or puts on a wire, written from
docs/DesignAndArchitecture.md, docs/Metastore.md, server/protos/appencryption.proto, RFC 4648
(base64) and RFC 8259 (JSON) — NOT from the Go code.  The Go harness (go/cmd/hxfmt) runs the real
SDK against it in both directions on every check.

  * `b64Encode/b64Decode`        standard alphabet with padding (what encoding/json uses for []byte)
  * `JV`, `JV.print`, `parseJson` a minimal JSON value type, compact printer in Go's field order and
                                  escaping, parser accepting any field order / white space
  * `KeyMeta/EKR/DRR`            the records; `toJson/fromJson`, `encodeEKR/decodeEKR`, `encodeDRR/decodeDRR`
  * SQL `key_record` text        = the EKR JSON text (table encryption_key(id, created, key_record))
  * `AV`, `ekrToAV`, `itemToAV`, `avToEKR…`   the DynamoDB item of both plugins as an attribute tree
  * `PbDRR…`, `toPb`, `fromPb`   the protobuf field mapping (records, not wire bytes)
  * `skId/ikId`, `parseKeyId`    key-id builders / parser
  * `KmsEnvelope`                the AWS KMS plugins' envelope JSON
  * `buildChain`, `decryptChain` reference ENCODER / DECODER of a whole key hierarchy
                                  (static KMS: the SK is AES-GCM-wrapped under the master key)

Strings are `List Char` (Unicode scalar values; the driver converts from/to UTF-8), byte strings
`List UInt8`, timestamps `Int64` (Go's int64).  Core Lean only.
-/
namespace AsherahVerif.Codec
open AsherahVerif.Gcm (Bytes)

abbrev Str := List Char

/-! ## base64 (RFC 4648 §4, with padding) -/

def b64Char (n : Nat) : Char :=
  if n < 26 then Char.ofNat (65 + n)
  else if n < 52 then Char.ofNat (97 + (n - 26))
  else if n < 62 then Char.ofNat (48 + (n - 52))
  else if n = 62 then '+' else '/'

def b64Val (c : Char) : Option Nat :=
  let n := c.toNat
  if 65 ≤ n ∧ n ≤ 90 then some (n - 65)
  else if 97 ≤ n ∧ n ≤ 122 then some (n - 97 + 26)
  else if 48 ≤ n ∧ n ≤ 57 then some (n - 48 + 52)
  else if c = '+' then some 62
  else if c = '/' then some 63
  else none

def b64Encode : Bytes → Str
  | [] => []
  | [x] =>
    let n := x.toNat * 65536
    [b64Char (n / 262144), b64Char (n / 4096 % 64), '=', '=']
  | [x, y] =>
    let n := x.toNat * 65536 + y.toNat * 256
    [b64Char (n / 262144), b64Char (n / 4096 % 64), b64Char (n / 64 % 64), '=']
  | x :: y :: z :: rest =>
    let n := x.toNat * 65536 + y.toNat * 256 + z.toNat
    b64Char (n / 262144) :: b64Char (n / 4096 % 64) :: b64Char (n / 64 % 64) :: b64Char (n % 64) :: b64Encode rest

/-- strict decoder: length a multiple of 4, padding only in the last quantum, unused bits zero. -/
def b64Decode : Str → Option Bytes
  | [] => some []
  | [a, b, c, d] =>
    if c = '=' ∧ d = '=' then do
      let va ← b64Val a; let vb ← b64Val b
      if vb % 16 = 0 then some [UInt8.ofNat ((va * 262144 + vb * 4096) / 65536)] else none
    else if d = '=' then do
      let va ← b64Val a; let vb ← b64Val b; let vc ← b64Val c
      let n := va * 262144 + vb * 4096 + vc * 64
      if vc % 4 = 0 then some [UInt8.ofNat (n / 65536), UInt8.ofNat (n / 256 % 256)] else none
    else do
      let va ← b64Val a; let vb ← b64Val b; let vc ← b64Val c; let vd ← b64Val d
      let n := va * 262144 + vb * 4096 + vc * 64 + vd
      some [UInt8.ofNat (n / 65536), UInt8.ofNat (n / 256 % 256), UInt8.ofNat (n % 256)]
  | a :: b :: c :: d :: rest => do
    let va ← b64Val a; let vb ← b64Val b; let vc ← b64Val c; let vd ← b64Val d
    let n := va * 262144 + vb * 4096 + vc * 64 + vd
    let r ← b64Decode rest
    some (UInt8.ofNat (n / 65536) :: UInt8.ofNat (n / 256 % 256) :: UInt8.ofNat (n % 256) :: r)
  | _ => none

/-! ## decimal integers -/

def digitChar (n : Nat) : Char := Char.ofNat (48 + n)
def isDigit (c : Char) : Bool := 48 ≤ c.toNat && c.toNat ≤ 57
def digitVal (c : Char) : Nat := c.toNat - 48

/-- decimal digits of `n` (fuel `f` > n suffices; `natDigits` supplies `n + 1`). -/
def natDigitsF : Nat → Nat → Str
  | 0, _ => []
  | f + 1, n => if n < 10 then [digitChar n] else natDigitsF f (n / 10) ++ [digitChar (n % 10)]

def natDigits (n : Nat) : Str := natDigitsF (n + 1) n

def intDigits (i : Int) : Str := if i < 0 then '-' :: natDigits i.natAbs else natDigits i.toNat

def digitsVal (ds : Str) : Nat := ds.foldl (fun a c => a * 10 + digitVal c) 0

/-- longest prefix of digits, and the rest. -/
def spanDigits : Str → Str × Str
  | [] => ([], [])
  | c :: r => if isDigit c then let p := spanDigits r; (c :: p.1, p.2) else ([], c :: r)

def int64OfInt (i : Int) : Option Int64 :=
  if -9223372036854775808 ≤ i ∧ i ≤ 9223372036854775807 then some (Int64.ofInt i) else none

def signOf64 : Str → Bool × Str
  | '-' :: r => (true, r)
  | '+' :: r => (false, r)
  | r => (false, r)

def parseInt64Body (neg : Bool) (ds : Str) : Option Int64 :=
  match spanDigits ds with
  | ([], _) => none
  | (d, []) => int64OfInt (if neg then -(digitsVal d : Int) else (digitsVal d : Int))
  | _ => none

/-- a DynamoDB `N` attribute / strconv.ParseInt(s, 10, 64): optional sign, digits only, in range. -/
def parseInt64Str (s : Str) : Option Int64 :=
  parseInt64Body (signOf64 s).1 (signOf64 s).2

/-! ## JSON (RFC 8259; numbers restricted to integers — the documented shapes contain no others) -/

inductive JV where
  | null
  | bool (b : Bool)
  | num (i : Int)
  | str (s : Str)
  | arr (xs : List JV)
  | obj (kvs : List (Str × JV))
deriving Repr, Inhabited

def hexDigit (n : Nat) : Char := if n < 10 then Char.ofNat (48 + n) else Char.ofNat (87 + n)

def hexVal (c : Char) : Option Nat :=
  let n := c.toNat
  if 48 ≤ n ∧ n ≤ 57 then some (n - 48)
  else if 97 ≤ n ∧ n ≤ 102 then some (n - 87)
  else if 65 ≤ n ∧ n ≤ 70 then some (n - 55)
  else none

/-- encoding/json's escaping (HTML-safe mode, the default of `json.Marshal`). -/
def escapeChar (c : Char) : Str :=
  if c = '"' then ['\\', '"']
  else if c = '\\' then ['\\', '\\']
  else if c = '\n' then ['\\', 'n']
  else if c = '\r' then ['\\', 'r']
  else if c = '\t' then ['\\', 't']
  else if c = '\x08' then ['\\', 'b']
  else if c = '\x0c' then ['\\', 'f']
  else if c.toNat < 0x20 ∨ c = '<' ∨ c = '>' ∨ c = '&' ∨ c.toNat = 0x2028 ∨ c.toNat = 0x2029 then
    let n := c.toNat
    ['\\', 'u', hexDigit (n / 4096), hexDigit (n / 256 % 16), hexDigit (n / 16 % 16), hexDigit (n % 16)]
  else [c]

/-- string body followed by the closing quote. -/
def escBody : Str → Str
  | [] => ['"']
  | c :: r => escapeChar c ++ escBody r

def quote (s : Str) : Str := '"' :: escBody s

mutual
def JV.print : JV → Str
  | .null => ['n', 'u', 'l', 'l']
  | .bool true => ['t', 'r', 'u', 'e']
  | .bool false => ['f', 'a', 'l', 's', 'e']
  | .num i => intDigits i
  | .str s => quote s
  | .arr [] => ['[', ']']
  | .arr (v :: t) => '[' :: (v.print ++ printTailElems t)
  | .obj [] => ['{', '}']
  | .obj ((k, v) :: t) => '{' :: (quote k ++ ':' :: (v.print ++ printTailMembers t))
def printTailElems : List JV → Str
  | [] => [']']
  | v :: t => ',' :: (v.print ++ printTailElems t)
def printTailMembers : List (Str × JV) → Str
  | [] => ['}']
  | (k, v) :: t => ',' :: (quote k ++ ':' :: (v.print ++ printTailMembers t))
end

def isWs (c : Char) : Bool := c = ' ' || c = '\n' || c = '\t' || c = '\r'

def skipWs : Str → Str
  | [] => []
  | c :: r => if isWs c then skipWs r else c :: r

def simpleEscape (e : Char) : Option Char :=
  if e = '"' then some '"' else if e = '\\' then some '\\' else if e = '/' then some '/'
  else if e = 'b' then some '\x08' else if e = 'f' then some '\x0c' else if e = 'n' then some '\n'
  else if e = 'r' then some '\r' else if e = 't' then some '\t' else none

def hex4 (a b c d : Char) : Option Nat := do
  let x ← hexVal a; let y ← hexVal b; let z ← hexVal c; let w ← hexVal d
  pure (x * 4096 + y * 256 + z * 16 + w)

def consChar (c : Char) (p : Option (Str × Str)) : Option (Str × Str) :=
  match p with
  | some (s, r) => some (c :: s, r)
  | none => none

def replacement : Char := Char.ofNat 0xFFFD

/-- emit U+FFFD for a pending unpaired high surrogate. -/
def flush (pend : Option Nat) (p : Option (Str × Str)) : Option (Str × Str) :=
  match pend with
  | some _ => consChar replacement p
  | none => p

/-- the characters of a string literal after its opening quote, and what follows the closing quote.
`\uXXXX` escapes: surrogate pairs are combined, a lone surrogate becomes U+FFFD; `pend` is a high
surrogate escape just read and not yet paired (callers start with `none`). -/
def parseStrBodyP : Option Nat → Str → Option (Str × Str)
  | _, [] => none
  | pend, c :: r =>
    if c = '"' then flush pend (some ([], r))
    else if c = '\\' then
      match r with
      | [] => none
      | e :: r2 =>
        if e = 'u' then
          match r2 with
          | h1 :: h2 :: h3 :: h4 :: r3 =>
            match hex4 h1 h2 h3 h4 with
            | none => none
            | some n =>
              if 0xD800 ≤ n ∧ n < 0xDC00 then flush pend (parseStrBodyP (some n) r3)
              else if 0xDC00 ≤ n ∧ n < 0xE000 then
                match pend with
                | some hi => consChar (Char.ofNat (0x10000 + (hi - 0xD800) * 0x400 + (n - 0xDC00))) (parseStrBodyP none r3)
                | none => consChar replacement (parseStrBodyP none r3)
              else flush pend (consChar (Char.ofNat n) (parseStrBodyP none r3))
          | _ => none
        else
          match simpleEscape e with
          | some ch => flush pend (consChar ch (parseStrBodyP none r2))
          | none => none
    else if c.toNat < 0x20 then none
    else flush pend (consChar c (parseStrBodyP none r))

def parseStrBody (s : Str) : Option (Str × Str) := parseStrBodyP none s

def signOf : Str → Bool × Str
  | '-' :: r => (true, r)
  | r => (false, r)

def parseNumBody (neg : Bool) (ds : Str) : Option (Int × Str) :=
  match spanDigits ds with
  | ([], _) => none
  | (d, rest) =>
    if (d.length > 1 ∧ d.head? = some '0') then none else
    match rest with
    | c :: _ => if c = '.' ∨ c = 'e' ∨ c = 'E' then none
                else some (if neg then -(digitsVal d : Int) else (digitsVal d : Int), rest)
    | [] => some (if neg then -(digitsVal d : Int) else (digitsVal d : Int), rest)

/-- an integer literal `-?(0|[1-9][0-9]*)` not followed by a fraction or exponent. -/
def parseNum (s : Str) : Option (Int × Str) :=
  parseNumBody (signOf s).1 (signOf s).2

mutual
/-- one JSON value (leading white space skipped) and the remaining input; `none` = syntax error. -/
def parseValue : Nat → Str → Option (JV × Str)
  | 0, _ => none
  | f + 1, s =>
    match skipWs s with
    | [] => none
    | c :: r =>
      if c = '"' then
        match parseStrBody r with
        | some (x, r') => some (.str x, r')
        | none => none
      else if c = '[' then
        match skipWs r with
        | [] => none
        | c2 :: r2 =>
          if c2 = ']' then some (.arr [], r2) else
          match parseValue f (c2 :: r2) with
          | none => none
          | some (v, r3) =>
            match parseTailElems f r3 with
            | none => none
            | some (vs, r4) => some (.arr (v :: vs), r4)
      else if c = '{' then
        match skipWs r with
        | [] => none
        | c2 :: r2 =>
          if c2 = '}' then some (.obj [], r2) else
          match parseMember f (c2 :: r2) with
          | none => none
          | some (kv, r3) =>
            match parseTailMembers f r3 with
            | none => none
            | some (kvs, r4) => some (.obj (kv :: kvs), r4)
      else if c = 'n' then
        match r with
        | 'u' :: 'l' :: 'l' :: r' => some (.null, r')
        | _ => none
      else if c = 't' then
        match r with
        | 'r' :: 'u' :: 'e' :: r' => some (.bool true, r')
        | _ => none
      else if c = 'f' then
        match r with
        | 'a' :: 'l' :: 's' :: 'e' :: r' => some (.bool false, r')
        | _ => none
      else
        match parseNum (c :: r) with
        | some (i, r') => some (.num i, r')
        | none => none
/-- `"key" : value` (leading white space skipped). -/
def parseMember : Nat → Str → Option ((Str × JV) × Str)
  | 0, _ => none
  | f + 1, s =>
    match skipWs s with
    | [] => none
    | c :: r =>
      if c = '"' then
        match parseStrBody r with
        | none => none
        | some (k, r1) =>
          match skipWs r1 with
          | [] => none
          | c2 :: r2 =>
            if c2 = ':' then
              match parseValue f r2 with
              | some (v, r3) => some ((k, v), r3)
              | none => none
            else none
      else none
/-- `(, value)* ]` -/
def parseTailElems : Nat → Str → Option (List JV × Str)
  | 0, _ => none
  | f + 1, s =>
    match skipWs s with
    | [] => none
    | c :: r =>
      if c = ']' then some ([], r)
      else if c = ',' then
        match parseValue f r with
        | none => none
        | some (v, r2) =>
          match parseTailElems f r2 with
          | none => none
          | some (vs, r3) => some (v :: vs, r3)
      else none
/-- `(, member)* }` -/
def parseTailMembers : Nat → Str → Option (List (Str × JV) × Str)
  | 0, _ => none
  | f + 1, s =>
    match skipWs s with
    | [] => none
    | c :: r =>
      if c = '}' then some ([], r)
      else if c = ',' then
        match parseMember f r with
        | none => none
        | some (kv, r2) =>
          match parseTailMembers f r2 with
          | none => none
          | some (kvs, r3) => some (kv :: kvs, r3)
      else none
end

/-- a complete JSON text: one value, optionally surrounded by white space. -/
def parseJson (s : Str) : Option JV :=
  match parseValue (s.length + 1) s with
  | some (v, r) => if skipWs r = [] then some v else none
  | none => none

/-! ## the records -/

structure KeyMeta where
  id : Str
  created : Int64
deriving DecidableEq, Repr, Inhabited

/-- EnvelopeKeyRecord without its `ID` (never serialised: `json:"-"`; it is the row key). -/
structure EKR where
  revoked : Bool
  created : Int64
  key : Bytes
  parent : Option KeyMeta
deriving DecidableEq, Repr, Inhabited

structure DRR where
  key : Option EKR
  data : Bytes
deriving DecidableEq, Repr, Inhabited

def nKeyId : Str := "KeyId".toList
def nCreated : Str := "Created".toList
def nKey : Str := "Key".toList
def nData : Str := "Data".toList
def nRevoked : Str := "Revoked".toList
def nParentKeyMeta : Str := "ParentKeyMeta".toList

def lookup {α : Type} (k : Str) : List (Str × α) → Option α
  | [] => none
  | (k', v) :: t => if k' = k then some v else lookup k t

def KeyMeta.toJson (m : KeyMeta) : JV :=
  .obj [(nKeyId, .str m.id), (nCreated, .num m.created.toInt)]

def EKR.toJson (e : EKR) : JV :=
  .obj ((if e.revoked then [(nRevoked, JV.bool true)] else []) ++
        [(nCreated, .num e.created.toInt), (nKey, .str (b64Encode e.key))] ++
        (match e.parent with
         | some m => [(nParentKeyMeta, m.toJson)]
         | none => []))

def DRR.toJson (d : DRR) : JV :=
  .obj [(nKey, match d.key with
               | some e => e.toJson
               | none => .null),
        (nData, .str (b64Encode d.data))]

/-! decoders: an absent member or `null` leaves the zero value (as every JSON binding of the SDKs
does); a member of the wrong type is an error. -/

def fieldStr (kvs : List (Str × JV)) (k : Str) : Option Str :=
  match lookup k kvs with
  | none => some []
  | some .null => some []
  | some (.str s) => some s
  | some _ => none

def fieldInt64 (kvs : List (Str × JV)) (k : Str) : Option Int64 :=
  match lookup k kvs with
  | none => some 0
  | some .null => some 0
  | some (.num i) => int64OfInt i
  | some _ => none

def fieldBool (kvs : List (Str × JV)) (k : Str) : Option Bool :=
  match lookup k kvs with
  | none => some false
  | some .null => some false
  | some (.bool b) => some b
  | some _ => none

def fieldBytes (kvs : List (Str × JV)) (k : Str) : Option Bytes :=
  match lookup k kvs with
  | none => some []
  | some .null => some []
  | some (.str s) => b64Decode s
  | some _ => none

def KeyMeta.fromJson : JV → Option KeyMeta
  | .obj kvs => do
    let id ← fieldStr kvs nKeyId
    let c ← fieldInt64 kvs nCreated
    pure ⟨id, c⟩
  | _ => none

def EKR.fromJson : JV → Option EKR
  | .obj kvs => do
    let rev ← fieldBool kvs nRevoked
    let c ← fieldInt64 kvs nCreated
    let k ← fieldBytes kvs nKey
    let p ← match lookup nParentKeyMeta kvs with
      | none => some none
      | some .null => some none
      | some j => (KeyMeta.fromJson j).map some
    pure ⟨rev, c, k, p⟩
  | _ => none

def DRR.fromJson : JV → Option DRR
  | .obj kvs => do
    let k ← match lookup nKey kvs with
      | none => some none
      | some .null => some none
      | some j => (EKR.fromJson j).map some
    let d ← fieldBytes kvs nData
    pure ⟨k, d⟩
  | _ => none

def encodeEKR (e : EKR) : Str := e.toJson.print
def decodeEKR (s : Str) : Option EKR := (parseJson s).bind EKR.fromJson
def encodeDRR (d : DRR) : Str := d.toJson.print
def decodeDRR (s : Str) : Option DRR := (parseJson s).bind DRR.fromJson

/-! ## SQL row (table `encryption_key(id, created, key_record)`) -/

structure SqlRow where
  id : Str
  created : Int64        -- TIMESTAMP column: unix seconds
  keyRecord : Str        -- TEXT column: the EKR JSON
deriving DecidableEq, Repr

def sqlRowOf (id : Str) (created : Int64) (e : EKR) : SqlRow := ⟨id, created, encodeEKR e⟩
def sqlRowDecode (r : SqlRow) : Option EKR := decodeEKR r.keyRecord

/-! ## DynamoDB item (aws-v1 `dynamodbattribute` and aws-v2 `attributevalue` produce the same tree,
except that v1 turns empty strings into NULL) -/

inductive AV where
  | s (v : Str)
  | n (v : Str)
  | bool (b : Bool)
  | null
  | b (v : Bytes)
  | m (kvs : List (Str × AV))
  | l (xs : List AV)
deriving Repr, Inhabited

def nId : Str := "Id".toList
def nKeyRecord : Str := "KeyRecord".toList

def keyMetaToAV (m : KeyMeta) : AV := .m [(nKeyId, .s m.id), (nCreated, .n (intDigits m.created.toInt))]

/-- the `KeyRecord` attribute. -/
def ekrToAV (e : EKR) : AV :=
  .m ((if e.revoked then [(nRevoked, AV.bool true)] else []) ++
      [(nCreated, .n (intDigits e.created.toInt)), (nKey, .s (b64Encode e.key))] ++
      (match e.parent with
       | some m => [(nParentKeyMeta, keyMetaToAV m)]
       | none => []))

/-- the whole item `Store` puts (aws-v2 plugin; `attributevalue` keeps an empty string as `S ""`). -/
def itemToAV (id : Str) (created : Int64) (e : EKR) : AV :=
  .m [(nId, .s id), (nCreated, .n (intDigits created.toInt)), (nKeyRecord, ekrToAV e)]

/-- aws-sdk-go v1's `dynamodbattribute` marshals an EMPTY string as NULL. -/
def avS1 (s : Str) : AV := if s = [] then .null else .s s

def keyMetaToAV1 (m : KeyMeta) : AV := .m [(nKeyId, avS1 m.id), (nCreated, .n (intDigits m.created.toInt))]

/-- the `KeyRecord` attribute as the aws-v1 plugin writes it. -/
def ekrToAV1 (e : EKR) : AV :=
  .m ((if e.revoked then [(nRevoked, AV.bool true)] else []) ++
      [(nCreated, .n (intDigits e.created.toInt)), (nKey, avS1 (b64Encode e.key))] ++
      (match e.parent with
       | some m => [(nParentKeyMeta, keyMetaToAV1 m)]
       | none => []))

/-- the whole item of the aws-v1 plugin: `Id`/`Created` are built by hand (`S`, `N`), only the
`KeyRecord` map goes through the marshaler. -/
def itemToAV1 (id : Str) (created : Int64) (e : EKR) : AV :=
  .m [(nId, .s id), (nCreated, .n (intDigits created.toInt)), (nKeyRecord, ekrToAV1 e)]

def avStr (kvs : List (Str × AV)) (k : Str) : Option Str :=
  match lookup k kvs with
  | none => some []
  | some .null => some []
  | some (.s v) => some v
  | some _ => none

def avInt64 (kvs : List (Str × AV)) (k : Str) : Option Int64 :=
  match lookup k kvs with
  | none => some 0
  | some .null => some 0
  | some (.n v) => parseInt64Str v
  | some _ => none

def avBool (kvs : List (Str × AV)) (k : Str) : Option Bool :=
  match lookup k kvs with
  | none => some false
  | some .null => some false
  | some (.bool b) => some b
  | some _ => none

def avToKeyMeta : AV → Option KeyMeta
  | .m kvs => do
    let id ← avStr kvs nKeyId
    let c ← avInt64 kvs nCreated
    pure ⟨id, c⟩
  | _ => none

/-- `KeyRecord` attribute → record (base64 text in `Key`). -/
def avToEKR : AV → Option EKR
  | .m kvs => do
    let rev ← avBool kvs nRevoked
    let c ← avInt64 kvs nCreated
    let ks ← avStr kvs nKey
    let k ← b64Decode ks
    let p ← match lookup nParentKeyMeta kvs with
      | none => some none
      | some .null => some none
      | some j => (avToKeyMeta j).map some
    pure ⟨rev, c, k, p⟩
  | _ => none

/-- whole item → (Id, record); the `KeyRecord` attribute is mandatory. -/
def avToItem : AV → Option (Str × EKR)
  | .m kvs => do
    let id ← avStr kvs nId
    match lookup nKeyRecord kvs with
    | none => none
    | some .null => none
    | some kr => do
      let e ← avToEKR kr
      pure (id, e)
  | _ => none

/-! ## protobuf mapping (server/go/pkg/server/server.go: toProtobufDRR / fromProtobufDRR) -/

structure PbKeyMeta where
  created : Int64
  keyId : Str
deriving DecidableEq, Repr

structure PbEKR where
  created : Int64
  key : Bytes
  parent : Option PbKeyMeta
deriving DecidableEq, Repr

structure PbDRR where
  key : Option PbEKR
  data : Bytes
deriving DecidableEq, Repr

inductive PbOut where
  | ok (p : PbDRR)
  | panic            -- nil pointer dereference in toProtobufDRR
deriving DecidableEq, Repr

/-- `toProtobufDRR`: dereferences `drr.Key` and `drr.Key.ParentKeyMeta` unconditionally; `Revoked`
has no protobuf field. -/
def toPb (d : DRR) : PbOut :=
  match d.key with
  | none => .panic
  | some e =>
    match e.parent with
    | none => .panic
    | some m => .ok ⟨some ⟨e.created, e.key, some ⟨m.created, m.id⟩⟩, d.data⟩

/-- `fromProtobufDRR`: nil-safe getters, always builds `Key` and `ParentKeyMeta`. -/
def fromPb (p : PbDRR) : DRR :=
  let k := p.key.getD ⟨0, [], none⟩
  let m := k.parent.getD ⟨0, []⟩
  ⟨some ⟨false, k.created, k.key, some ⟨m.keyId, m.created⟩⟩, p.data⟩

/-! ## key ids (partition.go) -/

def pSK : Str := "_SK_".toList
def pIK : Str := "_IK_".toList

def withSuffix (s : Str) : Option Str → Str
  | none => s
  | some sfx => s ++ '_' :: sfx

/-- `_SK_<service>_<product>[_<suffix>]` -/
def skId (service product : Str) (suffix : Option Str) : Str :=
  withSuffix (pSK ++ service ++ '_' :: product) suffix

/-- `_IK_<partition>_<service>_<product>[_<suffix>]` -/
def ikId (partition service product : Str) (suffix : Option Str) : Str :=
  withSuffix (pIK ++ partition ++ '_' :: service ++ '_' :: product) suffix

/-- split at every '_'. -/
def splitU : Str → List Str
  | [] => [[]]
  | c :: r =>
    if c = '_' then [] :: splitU r
    else match splitU r with
      | h :: t => (c :: h) :: t
      | [] => [[c]]

inductive KeyId where
  | sk (service product : Str) (suffix : Option Str)
  | ik (partition service product : Str) (suffix : Option Str)
deriving DecidableEq, Repr

/-- parse a key id into its components, assuming no component contains '_'. -/
def parseKeyId (id : Str) : Option KeyId :=
  match splitU id with
  | [[], ['S', 'K'], s, p] => some (.sk s p none)
  | [[], ['S', 'K'], s, p, x] => some (.sk s p (some x))
  | [[], ['I', 'K'], pa, s, p] => some (.ik pa s p none)
  | [[], ['I', 'K'], pa, s, p, x] => some (.ik pa s p (some x))
  | _ => none

def KeyId.render : KeyId → Str
  | .sk s p x => skId s p x
  | .ik pa s p x => ikId pa s p x

/-! ## AWS KMS envelope (plugins/aws-v1/kms, plugins/aws-v2/kms) -/

structure Kek where
  region : Str
  arn : Str
  encryptedKek : Bytes
deriving DecidableEq, Repr

structure KmsEnvelope where
  encryptedKey : Bytes
  keks : List Kek
deriving DecidableEq, Repr

def nEncryptedKey : Str := "encryptedKey".toList
def nKmsKeks : Str := "kmsKeks".toList
def nRegion : Str := "region".toList
def nArn : Str := "arn".toList
def nEncryptedKek : Str := "encryptedKek".toList

def Kek.toJson (k : Kek) : JV :=
  .obj [(nRegion, .str k.region), (nArn, .str k.arn), (nEncryptedKek, .str (b64Encode k.encryptedKek))]

def KmsEnvelope.toJson (e : KmsEnvelope) : JV :=
  .obj [(nEncryptedKey, .str (b64Encode e.encryptedKey)), (nKmsKeks, .arr (e.keks.map Kek.toJson))]

def Kek.fromJson : JV → Option Kek
  | .obj kvs => do
    let r ← fieldStr kvs nRegion
    let a ← fieldStr kvs nArn
    let k ← fieldBytes kvs nEncryptedKek
    pure ⟨r, a, k⟩
  | _ => none

def keksFromJson : List JV → Option (List Kek)
  | [] => some []
  | j :: t => do
    let k ← Kek.fromJson j
    let ks ← keksFromJson t
    pure (k :: ks)

def KmsEnvelope.fromJson : JV → Option KmsEnvelope
  | .obj kvs => do
    let ek ← fieldBytes kvs nEncryptedKey
    let ks ← match lookup nKmsKeks kvs with
      | none => some []
      | some .null => some []
      | some (.arr xs) => keksFromJson xs
      | some _ => none
    pure ⟨ek, ks⟩
  | _ => none

/-! ## a whole key hierarchy: reference encoder and decoder -/

/-- a metastore row as the SDK would store it: id, created, EKR JSON text. -/
abbrev Row := SqlRow

def findRow (store : List Row) (id : Str) (created : Int64) : Option Row :=
  store.find? (fun r => r.id = id ∧ r.created = created)

inductive ChainErr where
  | badDrr | noKey | noParent
  | ikMissing | badIkRow | ikNoParent
  | skMissing | badSkRow
  | skOpen (e : Gcm.Err) | ikOpen (e : Gcm.Err) | drkOpen (e : Gcm.Err) | dataOpen (e : Gcm.Err)
deriving DecidableEq, Repr

def ChainErr.name : ChainErr → String
  | .badDrr => "bad-drr" | .noKey => "no-key" | .noParent => "no-parent"
  | .ikMissing => "ik-missing" | .badIkRow => "bad-ik-row" | .ikNoParent => "ik-no-parent"
  | .skMissing => "sk-missing" | .badSkRow => "bad-sk-row"
  | .skOpen e => "sk-open-" ++ e.name | .ikOpen e => "ik-open-" ++ e.name
  | .drkOpen e => "drk-open-" ++ e.name | .dataOpen e => "data-open-" ++ e.name

def liftOpen (f : Gcm.Err → ChainErr) : Except Gcm.Err Bytes → Except ChainErr Bytes
  | .ok b => .ok b
  | .error e => .error (f e)

def orErr {α : Type} (e : ChainErr) : Option α → Except ChainErr α
  | some a => .ok a
  | none => .error e

/-- the reference DECRYPTOR: DRR JSON → base64 → AES-GCM chain  master ⊢ SK ⊢ IK ⊢ DRK ⊢ data, every
key record found in `store` by the (id, created) its child names.  Static KMS: the SK row's `Key`
is the AEAD layout under the master key itself. -/
def decryptChain (C : Gcm.Cipher) (store : List Row) (master : Bytes) (drrJson : Str) : Except ChainErr Bytes := do
  let drr ← orErr .badDrr (decodeDRR drrJson)
  let drk ← orErr .noKey drr.key
  let ikMeta ← orErr .noParent drk.parent
  let ikRow ← orErr .ikMissing (findRow store ikMeta.id ikMeta.created)
  let ikRec ← orErr .badIkRow (sqlRowDecode ikRow)
  let skMeta ← orErr .ikNoParent ikRec.parent
  let skRow ← orErr .skMissing (findRow store skMeta.id skMeta.created)
  let skRec ← orErr .badSkRow (sqlRowDecode skRow)
  let sk ← liftOpen .skOpen (Gcm.goDecrypt C master skRec.key)
  let ik ← liftOpen .ikOpen (Gcm.goDecrypt C sk ikRec.key)
  let drkBytes ← liftOpen .drkOpen (Gcm.goDecrypt C ik drk.key)
  liftOpen .dataOpen (Gcm.goDecrypt C drkBytes drr.data)

/-- everything the reference ENCODER needs; all randomness (keys, nonces) is an input. -/
structure BuildReq where
  master : Bytes
  sk : Bytes
  ik : Bytes
  drk : Bytes
  n1 : Bytes
  n2 : Bytes
  n3 : Bytes
  n4 : Bytes
  partition : Str
  service : Str
  product : Str
  suffix : Option Str
  skCreated : Int64
  ikCreated : Int64
  drkCreated : Int64
  skRevoked : Bool
  ikRevoked : Bool
  payload : Bytes

structure Built where
  skRow : Row
  ikRow : Row
  drr : Str

/-- the reference ENCODER: SK row, IK row and DRR JSON for `payload`. -/
def buildChain (C : Gcm.Cipher) (r : BuildReq) : Except Gcm.Err Built := do
  let skEnc ← Gcm.goEncrypt C r.master r.n1 r.sk
  let ikEnc ← Gcm.goEncrypt C r.sk r.n2 r.ik
  let drkEnc ← Gcm.goEncrypt C r.ik r.n3 r.drk
  let data ← Gcm.goEncrypt C r.drk r.n4 r.payload
  let skid := skId r.service r.product r.suffix
  let ikid := ikId r.partition r.service r.product r.suffix
  pure {
    skRow := sqlRowOf skid r.skCreated ⟨r.skRevoked, r.skCreated, skEnc, none⟩
    ikRow := sqlRowOf ikid r.ikCreated ⟨r.ikRevoked, r.ikCreated, ikEnc, some ⟨skid, r.skCreated⟩⟩
    drr := encodeDRR ⟨some ⟨false, r.drkCreated, drkEnc, some ⟨ikid, r.ikCreated⟩⟩, data⟩ }

end AsherahVerif.Codec
