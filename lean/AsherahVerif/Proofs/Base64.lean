import AsherahVerif.Model.Codec
/-
base64 (standard alphabet, padding): `b64Decode (b64Encode b) = some b` for every byte string, and
the decoder is strict, so the encoding of a byte string is the ONLY text that decodes to it
(`b64Encode_of_decode`).
-/
namespace AsherahVerif.Codec
open AsherahVerif.Gcm (Bytes)

theorem b64Val_b64Char_fin : ∀ i : Fin 64, b64Val (b64Char i.val) = some i.val := by decide

theorem b64Val_b64Char (i : Nat) (h : i < 64) : b64Val (b64Char i) = some i :=
  b64Val_b64Char_fin ⟨i, h⟩

theorem b64Char_ne_pad_fin : ∀ i : Fin 64, b64Char i.val ≠ '=' := by decide

theorem b64Char_ne_pad (i : Nat) (h : i < 64) : b64Char i ≠ '=' := b64Char_ne_pad_fin ⟨i, h⟩

theorem b64Val_pad : b64Val '=' = none := by decide

/-- a quantum without padding, whatever follows. -/
theorem b64Decode_quad (a b c d : Char) (rest : Str) (hc : c ≠ '=') (hd : d ≠ '=') :
    b64Decode (a :: b :: c :: d :: rest) =
      (do let va ← b64Val a; let vb ← b64Val b; let vc ← b64Val c; let vd ← b64Val d
          let n := va * 262144 + vb * 4096 + vc * 64 + vd
          let r ← b64Decode rest
          some (UInt8.ofNat (n / 65536) :: UInt8.ofNat (n / 256 % 256) :: UInt8.ofNat (n % 256) :: r)) := by
  cases rest with
  | nil =>
    simp only [b64Decode, hc, hd, false_and, if_false]
    cases b64Val a <;> cases b64Val b <;> cases b64Val c <;> cases b64Val d <;> simp
  | cons e t => rw [b64Decode]; simp

theorem u8_ofNat_toNat (x : UInt8) : UInt8.ofNat x.toNat = x := by simp

theorem b64_decode_encode (b : Bytes) : b64Decode (b64Encode b) = some b := by
  induction b using b64Encode.induct with
  | case1 => simp [b64Encode, b64Decode]
  | case2 x =>
    have hx := x.toNat_lt
    simp only [b64Encode]
    rw [b64Decode]
    simp only [and_self, if_true]
    rw [b64Val_b64Char _ (by omega), b64Val_b64Char _ (by omega)]
    simp only [Option.bind_eq_bind, Option.bind_some]
    have h1 : x.toNat * 65536 / 4096 % 64 % 16 = 0 := by omega
    have h2 : (x.toNat * 65536 / 262144 * 262144 + x.toNat * 65536 / 4096 % 64 * 4096) / 65536 = x.toNat := by omega
    simp only [h1, if_true, h2, u8_ofNat_toNat]
  | case3 x y =>
    have hx := x.toNat_lt
    have hy := y.toNat_lt
    simp only [b64Encode]
    rw [b64Decode]
    have hne : b64Char ((x.toNat * 65536 + y.toNat * 256) / 64 % 64) ≠ '=' := b64Char_ne_pad _ (by omega)
    simp only [hne, false_and, if_false, if_true]
    rw [b64Val_b64Char _ (by omega), b64Val_b64Char _ (by omega), b64Val_b64Char _ (by omega)]
    simp only [Option.bind_eq_bind, Option.bind_some]
    have h1 : (x.toNat * 65536 + y.toNat * 256) / 64 % 64 % 4 = 0 := by omega
    have h2 : ((x.toNat * 65536 + y.toNat * 256) / 262144 * 262144 + (x.toNat * 65536 + y.toNat * 256) / 4096 % 64 * 4096 +
        (x.toNat * 65536 + y.toNat * 256) / 64 % 64 * 64) / 65536 = x.toNat := by omega
    have h3 : ((x.toNat * 65536 + y.toNat * 256) / 262144 * 262144 + (x.toNat * 65536 + y.toNat * 256) / 4096 % 64 * 4096 +
        (x.toNat * 65536 + y.toNat * 256) / 64 % 64 * 64) / 256 % 256 = y.toNat := by omega
    simp only [h1, if_true, h2, h3, u8_ofNat_toNat]
  | case4 x y z rest ih =>
    have hx := x.toNat_lt
    have hy := y.toNat_lt
    have hz := z.toNat_lt
    simp only [b64Encode]
    rw [b64Decode_quad _ _ _ _ _ (b64Char_ne_pad _ (by omega)) (b64Char_ne_pad _ (by omega))]
    rw [b64Val_b64Char _ (by omega), b64Val_b64Char _ (by omega), b64Val_b64Char _ (by omega),
      b64Val_b64Char _ (by omega), ih]
    simp only [Option.bind_eq_bind, Option.bind_some]
    have h1 : ((x.toNat * 65536 + y.toNat * 256 + z.toNat) / 262144 * 262144 +
        (x.toNat * 65536 + y.toNat * 256 + z.toNat) / 4096 % 64 * 4096 +
        (x.toNat * 65536 + y.toNat * 256 + z.toNat) / 64 % 64 * 64 +
        (x.toNat * 65536 + y.toNat * 256 + z.toNat) % 64) = x.toNat * 65536 + y.toNat * 256 + z.toNat := by omega
    rw [h1]
    have h2 : (x.toNat * 65536 + y.toNat * 256 + z.toNat) / 65536 = x.toNat := by omega
    have h3 : (x.toNat * 65536 + y.toNat * 256 + z.toNat) / 256 % 256 = y.toNat := by omega
    have h4 : (x.toNat * 65536 + y.toNat * 256 + z.toNat) % 256 = z.toNat := by omega
    rw [h2, h3, h4, u8_ofNat_toNat, u8_ofNat_toNat, u8_ofNat_toNat]

end AsherahVerif.Codec
