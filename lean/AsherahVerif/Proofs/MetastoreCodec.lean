import AsherahVerif.Model.Metastore
/-
Round trips of the primitive codecs: decimal integers, base64, JSON strings.
-/
namespace AsherahVerif.Metastore

/-! ### decimal -/

theorem digit_facts : ∀ d : Fin 10, digitVal (digitChar d.val) = some d.val ∧ isNumChar (digitChar d.val) = true ∧
    digitChar d.val ≠ '-' ∧ isDigit (digitChar d.val) = true ∧ digitChar d.val ≠ '?' := by decide

theorem digitVal_digitChar {d : Nat} (h : d < 10) : digitVal (digitChar d) = some d := (digit_facts ⟨d, h⟩).1
theorem isNumChar_digitChar {d : Nat} (h : d < 10) : isNumChar (digitChar d) = true := (digit_facts ⟨d, h⟩).2.1
theorem digitChar_ne_minus {d : Nat} (h : d < 10) : digitChar d ≠ '-' := (digit_facts ⟨d, h⟩).2.2.1
theorem isDigit_digitChar {d : Nat} (h : d < 10) : isDigit (digitChar d) = true := (digit_facts ⟨d, h⟩).2.2.2.1
theorem digitChar_ne_qmark {d : Nat} (h : d < 10) : digitChar d ≠ '?' := (digit_facts ⟨d, h⟩).2.2.2.2

theorem parseNatAcc_append_digit (l : List Char) (acc d : Nat) (h : d < 10) :
    parseNatAcc acc (l ++ [digitChar d]) = (parseNatAcc acc l).map (· * 10 + d) := by
  induction l generalizing acc with
  | nil => simp [parseNatAcc, digitVal_digitChar h]
  | cons c t ih =>
    simp only [List.cons_append, parseNatAcc]
    cases digitVal c with
    | none => rfl
    | some x => exact ih _

theorem natDigitsF_ne_nil (f n : Nat) : natDigitsF (f + 1) n ≠ [] := by
  simp only [natDigitsF]
  split <;> simp

theorem parseNatAcc_natDigitsF (f n : Nat) (h : n < f) : parseNatAcc 0 (natDigitsF f n) = some n := by
  induction f generalizing n with
  | zero => omega
  | succ f ih =>
    simp only [natDigitsF]
    split
    · rename_i hn
      simp [parseNatAcc, digitVal_digitChar hn]
    · rename_i hn
      rw [parseNatAcc_append_digit _ _ _ (Nat.mod_lt n (by omega)), ih (n / 10) (by omega)]
      simp only [Option.map_some, Option.some.injEq]
      omega

theorem parseNat_natDigits (n : Nat) : parseNat (natDigits n) = some n := by
  unfold natDigits
  have hne := natDigitsF_ne_nil n n
  cases h : natDigitsF (n + 1) n with
  | nil => exact absurd h hne
  | cons c t =>
    simp only [parseNat]
    rw [← h]
    exact parseNatAcc_natDigitsF (n + 1) n (by omega)

/-- every character of a decimal is a digit -/
theorem natDigitsF_digits (f n : Nat) : ∀ c ∈ natDigitsF f n, ∃ d, d < 10 ∧ c = digitChar d := by
  induction f generalizing n with
  | zero => simp [natDigitsF]
  | succ f ih =>
    simp only [natDigitsF]
    split
    · rename_i hn
      intro c hc
      simp only [List.mem_singleton] at hc
      exact ⟨n, hn, hc⟩
    · intro c hc
      rcases List.mem_append.mp hc with h | h
      · exact ih _ c h
      · simp only [List.mem_singleton] at h
        exact ⟨n % 10, Nat.mod_lt n (by omega), h⟩

theorem natDigits_digits (n : Nat) : ∀ c ∈ natDigits n, ∃ d, d < 10 ∧ c = digitChar d := natDigitsF_digits _ _

theorem natDigits_ne_nil (n : Nat) : natDigits n ≠ [] := natDigitsF_ne_nil n n

theorem Int_negSucc_eq (n : Nat) : Int.negSucc n = - Int.ofNat (n + 1) := rfl

/-- `strconv.ParseInt(strconv.FormatInt(i, 10), 10, 64) = i` -/
theorem parseInt_fmtInt (i : Int) : parseInt (fmtInt i) = some i := by
  cases i with
  | ofNat n =>
    simp only [fmtInt]
    have hne := natDigits_ne_nil n
    cases h : natDigits n with
    | nil => exact absurd h hne
    | cons c t =>
      obtain ⟨d, hd, hc⟩ := natDigits_digits n c (by rw [h]; exact List.mem_cons_self)
      have hcm : c ≠ '-' := by rw [hc]; exact digitChar_ne_minus hd
      unfold parseInt
      split
      · rename_i cs heq
        injection heq with h1 _
        exact absurd h1 hcm
      · rw [← h, parseNat_natDigits]; rfl
  | negSucc n =>
    simp only [fmtInt, parseInt, parseNat_natDigits, Option.map_some]
    rfl

theorem fmtInt_ne_nil (i : Int) : fmtInt i ≠ [] := by
  cases i with
  | ofNat n => exact natDigits_ne_nil n
  | negSucc n => simp [fmtInt]

/-- every character of a decimal is a number character -/
theorem fmtInt_numChars (i : Int) : ∀ c ∈ fmtInt i, isNumChar c = true := by
  have hd : ∀ n, ∀ c ∈ natDigits n, isNumChar c = true := by
    intro n c hc
    obtain ⟨d, hd, rfl⟩ := natDigits_digits n c hc
    exact isNumChar_digitChar hd
  cases i with
  | ofNat n => exact hd n
  | negSucc n =>
    intro c hc
    simp only [fmtInt, List.mem_cons] at hc
    rcases hc with h | h
    · subst h; decide
    · exact hd _ c h

theorem scanNum_append (l : List Char) (hl : ∀ c ∈ l, isNumChar c = true) (c : Char) (rest : List Char)
    (hc : isNumChar c = false) : scanNum (l ++ c :: rest) = (l, c :: rest) := by
  induction l with
  | nil => simp [scanNum, hc]
  | cons a t ih =>
    have ha := hl a List.mem_cons_self
    simp only [List.cons_append, scanNum, ha, if_true]
    rw [ih (fun x hx => hl x (List.mem_cons_of_mem _ hx))]

/-! ### base64 -/

theorem b64_facts : ∀ n : Fin 64, b64Val (b64Char n.val) = some n.val ∧ b64Char n.val ≠ '=' ∧
    isNewline (b64Char n.val) = false := by decide

theorem b64Val_b64Char {n : Nat} (h : n < 64) : b64Val (b64Char n) = some n := (b64_facts ⟨n, h⟩).1
theorem b64Char_ne_pad {n : Nat} (h : n < 64) : b64Char n ≠ '=' := (b64_facts ⟨n, h⟩).2.1
theorem b64Char_not_newline {n : Nat} (h : n < 64) : isNewline (b64Char n) = false := (b64_facts ⟨n, h⟩).2.2

theorem byteOf_toNat (a : UInt8) : byteOf a.toNat = a := UInt8.ofNat_toNat

theorem b64DecodeQ_encode (bs : List UInt8) : b64DecodeQ (b64Encode bs) = some bs := by
  induction bs using b64Encode.induct with
  | case1 a b c rest ih =>
    have ha := UInt8.toNat_lt a
    have hb := UInt8.toNat_lt b
    have hc := UInt8.toNat_lt c
    simp only [b64Encode, b64DecodeQ]
    rw [b64Val_b64Char (by omega), b64Val_b64Char (by omega), b64Val_b64Char (by omega), b64Val_b64Char (by omega)]
    have hd : b64Char (c.toNat % 64) ≠ '=' := b64Char_ne_pad (by omega)
    simp only [hd, and_false, if_false, ih]
    have e1 : a.toNat / 4 * 4 + (a.toNat % 4 * 16 + b.toNat / 16) / 16 = a.toNat := by omega
    have e2 : (a.toNat % 4 * 16 + b.toNat / 16) % 16 * 16 + (b.toNat % 16 * 4 + c.toNat / 64) / 4 = b.toNat := by omega
    have e3 : (b.toNat % 16 * 4 + c.toNat / 64) % 4 * 64 + c.toNat % 64 = c.toNat := by omega
    rw [e1, e2, e3, byteOf_toNat, byteOf_toNat, byteOf_toNat]
  | case2 a b =>
    have ha := UInt8.toNat_lt a
    have hb := UInt8.toNat_lt b
    simp only [b64Encode, b64DecodeQ]
    rw [b64Val_b64Char (by omega), b64Val_b64Char (by omega)]
    have hc : b64Char (b.toNat % 16 * 4) ≠ '=' := b64Char_ne_pad (by omega)
    simp only [List.isEmpty_nil, true_and, if_true, hc, if_false]
    rw [b64Val_b64Char (by omega)]
    have e1 : a.toNat / 4 * 4 + (a.toNat % 4 * 16 + b.toNat / 16) / 16 = a.toNat := by omega
    have e2 : (a.toNat % 4 * 16 + b.toNat / 16) % 16 * 16 + (b.toNat % 16 * 4) / 4 = b.toNat := by omega
    simp only [e1, e2, byteOf_toNat]
  | case3 a =>
    have ha := UInt8.toNat_lt a
    simp only [b64Encode, b64DecodeQ]
    rw [b64Val_b64Char (by omega), b64Val_b64Char (by omega)]
    have e1 : a.toNat / 4 * 4 + (a.toNat % 4 * 16) / 16 = a.toNat := by omega
    simp only [List.isEmpty_nil, true_and, if_true, e1, byteOf_toNat]
  | case4 => rfl

theorem b64Encode_no_newline (bs : List UInt8) : ∀ c ∈ b64Encode bs, isNewline c = false := by
  induction bs using b64Encode.induct with
  | case1 a b c rest ih =>
    have ha := UInt8.toNat_lt a
    have hb := UInt8.toNat_lt b
    have hc := UInt8.toNat_lt c
    intro x hx
    simp only [b64Encode, List.mem_cons] at hx
    rcases hx with h | h | h | h | h
    · rw [h]; exact b64Char_not_newline (by omega)
    · rw [h]; exact b64Char_not_newline (by omega)
    · rw [h]; exact b64Char_not_newline (by omega)
    · rw [h]; exact b64Char_not_newline (by omega)
    · exact ih x h
  | case2 a b =>
    have ha := UInt8.toNat_lt a
    have hb := UInt8.toNat_lt b
    intro x hx
    simp only [b64Encode, List.mem_cons, List.not_mem_nil, or_false] at hx
    rcases hx with h | h | h | h
    · rw [h]; exact b64Char_not_newline (by omega)
    · rw [h]; exact b64Char_not_newline (by omega)
    · rw [h]; exact b64Char_not_newline (by omega)
    · rw [h]; decide
  | case3 a =>
    have ha := UInt8.toNat_lt a
    intro x hx
    simp only [b64Encode, List.mem_cons, List.not_mem_nil, or_false] at hx
    rcases hx with h | h | h | h
    · rw [h]; exact b64Char_not_newline (by omega)
    · rw [h]; exact b64Char_not_newline (by omega)
    · rw [h]; decide
    · rw [h]; decide
  | case4 => simp [b64Encode]

/-- `base64.StdEncoding.DecodeString(base64.StdEncoding.EncodeToString(bs)) = bs` for all bytes -/
theorem b64Decode_encode (bs : List UInt8) : b64Decode (b64Encode bs) = some bs := by
  unfold b64Decode
  have : (b64Encode bs).filter (fun c => !isNewline c) = b64Encode bs := by
    apply List.filter_eq_self.mpr
    intro c hc
    simp [b64Encode_no_newline bs c hc]
  rw [this]
  exact b64DecodeQ_encode bs

/-! ### JSON strings -/

theorem hex_facts : ∀ n : Fin 16, hexVal (hexDigit n.val) = some n.val := by decide
theorem hexVal_hexDigit {n : Nat} (h : n < 16) : hexVal (hexDigit n) = some n := hex_facts ⟨n, h⟩

theorem hex4_u4 (n : Nat) (h : n < 65536) :
    hex4 (hexDigit (n / 4096 % 16)) (hexDigit (n / 256 % 16)) (hexDigit (n / 16 % 16)) (hexDigit (n % 16)) = some n := by
  unfold hex4
  rw [hexVal_hexDigit (Nat.mod_lt _ (by omega)), hexVal_hexDigit (Nat.mod_lt _ (by omega)),
    hexVal_hexDigit (Nat.mod_lt _ (by omega)), hexVal_hexDigit (Nat.mod_lt _ (by omega))]
  simp only [Option.some.injEq]
  omega

/-- a `\uXXXX` escape of a non-surrogate code point decodes to that character -/
theorem parseEscape_u4 (c : Char) (h : c.toNat < 0xD800) (rest : List Char) :
    parseEscape ((u4 c.toNat).tail ++ rest) = some (c, rest) := by
  simp only [u4, List.tail_cons, List.cons_append, List.nil_append, parseEscape]
  have e : ('u' = '"') = False := by decide
  simp only [show ¬ ('u' = '"') by decide, show ¬ ('u' = '\\') by decide, show ¬ ('u' = '/') by decide,
    show ¬ ('u' = 'b') by decide, show ¬ ('u' = 'f') by decide, show ¬ ('u' = 'n') by decide,
    show ¬ ('u' = 'r') by decide, show ¬ ('u' = 't') by decide, if_false, if_true]
  rw [hex4_u4 c.toNat (by omega)]
  have h1 : ¬ (0xD800 ≤ c.toNat ∧ c.toNat < 0xDC00) := by omega
  have h2 : ¬ (0xDC00 ≤ c.toNat ∧ c.toNat < 0xE000) := by omega
  simp only [h1, h2, if_false, Char.ofNat_toNat]

/-- one encoded character decodes to itself -/
theorem parseStrBodyF_escapeChar (c : Char) (f : Nat) (tail : List Char) :
    parseStrBodyF (f + 1) (jsonEscapeChar c ++ tail) =
      match parseStrBodyF f tail with
      | some (s, r') => some (c :: s, r')
      | none => none := by
  unfold jsonEscapeChar
  have bs1 : ¬ ('\\' = '"') := by decide
  split
  · rename_i h; subst h
    simp only [List.cons_append, List.nil_append, parseStrBodyF, parseEscape, bs1, if_false, if_true]
    rfl
  split
  · rename_i h; subst h
    simp only [List.cons_append, List.nil_append, parseStrBodyF, parseEscape, bs1, if_false, if_true]
    rfl
  split
  · rename_i h; subst h
    simp only [List.cons_append, List.nil_append, parseStrBodyF, parseEscape, bs1, if_false, if_true,
      show ¬ ('n' = '"') by decide, show ¬ ('n' = '\\') by decide, show ¬ ('n' = '/') by decide,
      show ¬ ('n' = 'b') by decide, show ¬ ('n' = 'f') by decide]
    rfl
  split
  · rename_i h; subst h
    simp only [List.cons_append, List.nil_append, parseStrBodyF, parseEscape, bs1, if_false, if_true,
      show ¬ ('r' = '"') by decide, show ¬ ('r' = '\\') by decide, show ¬ ('r' = '/') by decide,
      show ¬ ('r' = 'b') by decide, show ¬ ('r' = 'f') by decide, show ¬ ('r' = 'n') by decide]
    rfl
  split
  · rename_i h; subst h
    simp only [List.cons_append, List.nil_append, parseStrBodyF, parseEscape, bs1, if_false, if_true,
      show ¬ ('t' = '"') by decide, show ¬ ('t' = '\\') by decide, show ¬ ('t' = '/') by decide,
      show ¬ ('t' = 'b') by decide, show ¬ ('t' = 'f') by decide, show ¬ ('t' = 'n') by decide,
      show ¬ ('t' = 'r') by decide]
    rfl
  split
  · rename_i h; subst h
    simp only [List.cons_append, List.nil_append, parseStrBodyF, parseEscape, bs1, if_false, if_true,
      show ¬ ('b' = '"') by decide, show ¬ ('b' = '\\') by decide, show ¬ ('b' = '/') by decide]
    rfl
  split
  · rename_i h; subst h
    simp only [List.cons_append, List.nil_append, parseStrBodyF, parseEscape, bs1, if_false, if_true,
      show ¬ ('f' = '"') by decide, show ¬ ('f' = '\\') by decide, show ¬ ('f' = '/') by decide,
      show ¬ ('f' = 'b') by decide]
    rfl
  split
  · rename_i hq hb hn hr ht h8 h12 hu
    have hlt : c.toNat < 0xD800 := by
      rcases hu with h | h | h | h | h | h
      · omega
      · subst h; decide
      · subst h; decide
      · subst h; decide
      · omega
      · omega
    have := parseEscape_u4 c hlt tail
    simp only [u4, List.tail_cons] at this
    simp only [u4, List.cons_append, List.nil_append, parseStrBodyF, bs1, if_false, if_true]
    simp only [List.cons_append, List.nil_append] at this
    rw [this]
    rfl
  · rename_i hq hb hn hr ht h8 h12 hu
    have h32 : ¬ c.toNat < 32 := fun h => hu (Or.inl h)
    simp only [List.cons_append, List.nil_append, parseStrBodyF, hq, hb, h32, if_false]
    rfl

theorem parseStrBodyF_escape (s : List Char) (f : Nat) (rest : List Char) (hf : s.length < f) :
    parseStrBodyF f (jsonEscape s ++ '"' :: rest) = some (s, rest) := by
  induction s generalizing f with
  | nil =>
    cases f with
    | zero => simp at hf
    | succ f => simp [jsonEscape, parseStrBodyF]
  | cons c t ih =>
    cases f with
    | zero => simp at hf
    | succ f =>
      simp only [jsonEscape, List.append_assoc]
      rw [parseStrBodyF_escapeChar, ih f (by simpa using hf)]

theorem length_jsonEscape (s : List Char) : s.length ≤ (jsonEscape s).length := by
  induction s with
  | nil => simp [jsonEscape]
  | cons c t ih =>
    simp only [jsonEscape, List.length_append, List.length_cons]
    have : 1 ≤ (jsonEscapeChar c).length := by
      unfold jsonEscapeChar u4
      repeat' split
      all_goals simp
    omega

/-- the text after an opening quote written by the encoder decodes to the string -/
theorem parseStrBody_escape (s : List Char) (rest : List Char) :
    parseStrBody (jsonEscape s ++ '"' :: rest) = some (s, rest) := by
  unfold parseStrBody
  apply parseStrBodyF_escape
  have := length_jsonEscape s
  simp only [List.length_append, List.length_cons]
  omega

end AsherahVerif.Metastore
