import AsherahVerif.Model.Partition
/-
Helper lemmas for C06 about the key-id naming scheme of partition.go:
closed forms of the four ids (derived from the regenerated formats), `strings.Index(..) == 0` is
"has prefix", and the list-combinatorics behind (non-)isolation of the suffixed scheme.
-/
namespace AsherahVerif.Partition
open AsherahVerif.Generated.Partition

/-- `"_IK_"` -/
def ikPre : Bytes := [95, 73, 75, 95]
/-- `"_SK_"` -/
def skPre : Bytes := [95, 83, 75, 95]
/-- the part of an intermediate-key id that follows the partition id: `"_" ++ service ++ "_" ++ product` -/
def tail (service product : Bytes) : Bytes := us :: (service ++ us :: product)

/-! ### closed forms (these unfold the regenerated formats: an edited format breaks them) -/

theorem sprintf_fmtSK (s pr : Bytes) :
    sprintf fmtSK [s, pr] = some (skPre ++ s ++ us :: pr) := by
  simp [sprintf, fmtSK, pct, verbS, skPre, us]

theorem sprintf_fmtIK (p s pr : Bytes) :
    sprintf fmtIK [p, s, pr] = some (ikPre ++ p ++ tail s pr) := by
  simp [sprintf, fmtIK, pct, verbS, ikPre, tail, us]

theorem sprintf_fmtSKSfx (s pr x : Bytes) :
    sprintf fmtSKSfx [s, pr, x] = some (skPre ++ s ++ us :: pr ++ us :: x) := by
  simp [sprintf, fmtSKSfx, pct, verbS, skPre, us]

theorem sprintf_fmtIKSfx (p s pr x : Bytes) :
    sprintf fmtIKSfx [p, s, pr, x] = some (ikPre ++ p ++ tail s pr ++ us :: x) := by
  simp [sprintf, fmtIKSfx, pct, verbS, ikPre, tail, us]

theorem skId_eq (s pr : Bytes) : skId s pr = skPre ++ s ++ us :: pr := by
  simp [skId, render, sprintf_fmtSK]

theorem ikId_eq (p s pr : Bytes) : ikId p s pr = ikPre ++ p ++ tail s pr := by
  simp [ikId, render, sprintf_fmtIK]

theorem skIdSfx_eq (s pr x : Bytes) : skIdSfx s pr x = skPre ++ s ++ us :: pr ++ us :: x := by
  simp [skIdSfx, render, sprintf_fmtSKSfx]

theorem ikIdSfx_eq (p s pr x : Bytes) : ikIdSfx p s pr x = ikPre ++ p ++ tail s pr ++ us :: x := by
  simp [ikIdSfx, render, sprintf_fmtIKSfx]

/-- a suffixed IK id is the unsuffixed one followed by `"_" ++ suffix`. -/
theorem ikIdSfx_eq_ikId (p s pr x : Bytes) : ikIdSfx p s pr x = ikId p s pr ++ us :: x := by
  rw [ikIdSfx_eq, ikId_eq]

/-! ### strings.Index -/

theorem index_eq_zero (s sub : Bytes) : index s sub = some 0 ↔ sub <+: s := by
  rw [← List.isPrefixOf_iff_prefix]
  cases s with
  | nil => simp [index]
  | cons c t =>
    simp only [index]
    by_cases h : sub.isPrefixOf (c :: t) = true
    · simp [h]
    · simp [h]

theorem isValidIK_iff (p s pr id : Bytes) : isValidIK p s pr id = true ↔ id = ikId p s pr := by
  simp [isValidIK]

theorem isValidIKSfx_iff (p s pr x id : Bytes) :
    isValidIKSfx p s pr x id = true ↔ id = ikIdSfx p s pr x ∨ ikId p s pr <+: id := by
  simp [isValidIKSfx, index_eq_zero]

theorem validator_accepts (part : Part) (id : Bytes) :
    part.validator.accepts id = part.isValidIntermediateKeyID id := by
  cases part with
  | dflt p s pr => simp [Part.validator, Validator.accepts, Part.isValidIntermediateKeyID, isValidIK]
  | sfx p s pr x =>
    simp only [Part.validator, Validator.accepts, Part.isValidIntermediateKeyID, isValidIKSfx]
    congr 1
    rw [Bool.eq_iff_iff]
    simp [index_eq_zero]

/-! ### list combinatorics -/

/-- two strings continued by the same byte `u`, one a prefix of the other: they are equal, or one of
them continues the other by `u`. -/
theorem prefix_cases {α : Type} {p q A B : List α} {u : α}
    (h : p ++ u :: A <+: q ++ u :: B) : p = q ∨ p ++ [u] <+: q ∨ q ++ [u] <+: p := by
  obtain ⟨r, hr⟩ := h
  rw [List.append_assoc] at hr
  rcases List.append_eq_append_iff.mp hr with ⟨as, hq, h2⟩ | ⟨bs, hp, h2⟩
  · cases as with
    | nil => left; simpa using hq.symm
    | cons a as' =>
      have : u = a := by simpa using (List.cons.inj h2).1
      subst this
      right; left
      exact ⟨as', by rw [hq]; simp⟩
  · cases bs with
    | nil => left; simpa using hp
    | cons b bs' =>
      have : u = b := by simpa using (List.cons.inj h2).1
      subst this
      right; right
      exact ⟨bs', by rw [hp]; simp⟩

/-- the decomposition of a string at the LAST occurrence of a byte is unique. -/
theorem split_last_unique {α : Type} {a a' b b' : List α} {u : α}
    (h : a ++ u :: b = a' ++ u :: b') (hb : u ∉ b) (hb' : u ∉ b') : a = a' ∧ b = b' := by
  rcases List.append_eq_append_iff.mp h with ⟨as, ha, h2⟩ | ⟨bs, ha, h2⟩
  · cases as with
    | nil => simp at ha h2; exact ⟨ha.symm, h2⟩
    | cons c as' =>
      exfalso
      have h3 := (List.cons.inj h2).2
      exact hb (by rw [h3]; simp)
  · cases bs with
    | nil => simp at ha h2; exact ⟨ha, h2.symm⟩
    | cons c bs' =>
      exfalso
      have h3 := (List.cons.inj h2).2
      exact hb' (by rw [h3]; simp)

theorem exists_last_split {α : Type} [DecidableEq α] {c : α} {l : List α} (h : c ∈ l) :
    ∃ a b, l = a ++ c :: b ∧ c ∉ b := by
  induction l with
  | nil => cases h
  | cons x t ih =>
    by_cases ht : c ∈ t
    · obtain ⟨a, b, e, hb⟩ := ih ht
      exact ⟨x :: a, b, by rw [e]; rfl, hb⟩
    · have : c = x := by
        rcases List.mem_cons.mp h with e | e
        · exact e
        · exact absurd e ht
      subst this
      exact ⟨[], t, rfl, ht⟩

/-- strings with a common tail that contains a byte `c`, each followed by a `c`-free string: if the
concatenations agree then so do the heads and the followers. -/
theorem common_tail_inj {α : Type} [DecidableEq α] {x y t d1 d2 : List α} {c : α}
    (hc : c ∈ t) (h1 : c ∉ d1) (h2 : c ∉ d2) (h : x ++ t ++ d1 = y ++ t ++ d2) :
    x = y ∧ d1 = d2 := by
  obtain ⟨a, b, e, hb⟩ := exists_last_split hc
  subst e
  have h' : (x ++ a) ++ c :: (b ++ d1) = (y ++ a) ++ c :: (b ++ d2) := by
    simpa [List.append_assoc] using h
  have := split_last_unique h' (by simp [hb, h1]) (by simp [hb, h2])
  exact ⟨List.append_cancel_right this.1, List.append_cancel_left this.2⟩

/-! ### which foreign ids a session accepts -/

/-- default scheme: the IK id determines the partition id (any service, product). -/
theorem ikId_inj {p q s pr : Bytes} (h : ikId p s pr = ikId q s pr) : p = q := by
  rw [ikId_eq, ikId_eq] at h
  simpa [List.append_assoc] using h

theorem ikIdSfx_inj {p q s pr x : Bytes} (h : ikIdSfx p s pr x = ikIdSfx q s pr x) : p = q := by
  rw [ikIdSfx_eq_ikId, ikIdSfx_eq_ikId] at h
  exact ikId_inj (List.append_cancel_right h)

/-- EXACT description of what the suffixed guard of a session for `p` accepts among the ids of
records produced for `q` (same service, product, suffix): its own, and every `q` for which
`p ++ "_svc_prod"` is a prefix of `q ++ "_svc_prod_sfx"`. -/
theorem sfx_accepts_iff (p q s pr x : Bytes) :
    isValidIKSfx p s pr x (ikIdSfx q s pr x) = true ↔
      p = q ∨ p ++ tail s pr <+: q ++ tail s pr ++ us :: x := by
  rw [isValidIKSfx_iff]
  constructor
  · rintro (h | h)
    · exact Or.inl (ikIdSfx_inj h).symm
    · right
      rw [ikId_eq, ikIdSfx_eq] at h
      simpa [List.append_assoc, List.prefix_append_right_inj] using h
  · rintro (h | h)
    · left; rw [h]
    · right
      rw [ikId_eq, ikIdSfx_eq]
      simpa [List.append_assoc, List.prefix_append_right_inj] using h

end AsherahVerif.Partition
