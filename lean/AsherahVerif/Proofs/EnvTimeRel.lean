import AsherahVerif.Proofs.EnvTimeBase
/-
Step relations for the time-related proofs.  `Resp R x`: every run of `x` relates the world before
to the world after by `R` (`R` reflexive and transitive, so it composes through `bind`), with the
`resp_auto [lemmas]` tactic in the style of `ext_auto`.  Instances:

* `Q0`: key caches untouched, `revoked` flags of key objects untouched, an empty fault schedule
  stays empty — true of every primitive below the cache layer;
* `IL`: the call log only grew, and only by process-internal calls (AEAD, secret allocation);
* `SV`: nothing changed except cache-internal policy bookkeeping (bounded caches' recency state).
-/
set_option linter.unusedVariables false
namespace AsherahVerif.Env

class RT (R : World → World → Prop) : Prop where
  refl : ∀ w, R w w
  trans : ∀ {a b c : World}, R a b → R b c → R a c

def Resp (R : World → World → Prop) {α : Type} (x : M α) : Prop := ∀ w, R w (x w).2

set_option linter.unusedSectionVars false
namespace Resp
variable {R : World → World → Prop} [RT R] {α β : Type}

theorem pure (a : α) : Resp R (Pure.pure a : M α) := fun w => RT.refl w
theorem throw (e : Err) : Resp R (Env.throw e : M α) := fun w => RT.refl w
theorem get : Resp R Env.get := fun w => RT.refl w
theorem getCache (c : Nat) : Resp R (Env.getCache c) := fun w => RT.refl w
theorem keyObj (o : Nat) : Resp R (Env.keyObj o) := fun w => RT.refl w

theorem bind {x : M α} {f : α → M β} (hx : Resp R x) (hf : ∀ a, Resp R (f a)) : Resp R (x >>= f) := by
  intro w
  have h1 := hx w
  simp only [bind_run]
  cases hr : x w with
  | mk r w' =>
    rw [hr] at h1
    cases r with
    | ok a => exact RT.trans h1 (hf a w')
    | error e => exact h1

theorem finallyDo {x : M α} {fin : M Unit} (hx : Resp R x) (hf : Resp R fin) : Resp R (Env.finallyDo x fin) := by
  intro w; simp only [finallyDo_run]; exact RT.trans (hx w) (hf _)

theorem tryM {x : M α} (hx : Resp R x) : Resp R (Env.tryM x) := by
  intro w; simp only [tryM_run]; exact hx w

theorem modify {f : World → World} (h : ∀ w, R w (f w)) : Resp R (Env.modify f) := fun w => h w
end Resp

macro "resp_step" : tactic => `(tactic| first
  | with_reducible exact Resp.pure _ | with_reducible exact Resp.throw _ | with_reducible exact Resp.get
  | with_reducible exact Resp.getCache _ | with_reducible exact Resp.keyObj _
  | with_reducible assumption
  | with_reducible apply Resp.finallyDo | with_reducible apply Resp.tryM | with_reducible apply Resp.bind
  | (with_reducible intro _) | split | dsimp only)

/-- try the listed lemmas, syntactically (`with_reducible`), in order. -/
syntax "try_rules" "[" term,* "]" : tactic
macro_rules
  | `(tactic| try_rules []) => `(tactic| fail "no rule applies")
  | `(tactic| try_rules [$l]) => `(tactic| with_reducible apply $l)
  | `(tactic| try_rules [$l, $ls,*]) => `(tactic| first | with_reducible apply $l | try_rules [$ls,*])

syntax "resp_auto" ("[" term,* "]")? : tactic
macro_rules
  | `(tactic| resp_auto) => `(tactic| repeat (any_goals resp_step))
  | `(tactic| resp_auto [$ls,*]) => `(tactic| repeat (any_goals (first | resp_step | try_rules [$ls,*])))

instance : RT Ext := ⟨Ext.refl, Ext.trans⟩
theorem Resp.of_extends {α : Type} {x : M α} (h : Extends x) : Resp Ext x := h

/-! ### `Q0`: below the cache layer -/

structure Q0 (w w' : World) : Prop where
  caches : w'.caches = w.caches
  faults : w.faults = [] → w'.faults = []
  rev : ∀ (i : Nat) (k : KeyObj), w.keys[i]? = some k → ∃ k' : KeyObj, w'.keys[i]? = some k' ∧ k'.revoked = k.revoked

instance : RT Q0 where
  refl w := ⟨rfl, id, fun i k h => ⟨k, h, rfl⟩⟩
  trans h1 h2 := ⟨h2.caches.trans h1.caches, fun h => h2.faults (h1.faults h), fun i k h => by
    obtain ⟨k1, e1, r1⟩ := h1.rev i k h
    obtain ⟨k2, e2, r2⟩ := h2.rev i k1 e1
    exact ⟨k2, e2, r2.trans r1⟩⟩

theorem Q0.of_eq {w w' : World} (h1 : w'.caches = w.caches) (h2 : w'.faults = w.faults) (h3 : w'.keys = w.keys) : Q0 w w' :=
  ⟨h1, fun h => (h2 ▸ h), fun i k h => ⟨k, (h3 ▸ h), rfl⟩⟩

theorem takeFault_q0 : Resp Q0 takeFault := by
  intro w; unfold takeFault; split
  · exact RT.refl w
  · rename_i f rest hf
    exact ⟨rfl, fun h => (by rw [hf] at h; cases h), fun i k h => ⟨k, h, rfl⟩⟩

theorem logCall_q0 (c : Call) : Resp Q0 (logCall c) := fun w => Q0.of_eq rfl rfl rfl
theorem newBuf_q0 (m : Nat) : Resp Q0 (newBuf m) := fun w => Q0.of_eq rfl rfl rfl
theorem wipeBuf_q0 (b : Nat) : Resp Q0 (wipeBuf b) := fun w => Q0.of_eq rfl rfl rfl
theorem secretClose_q0 (s : Nat) : Resp Q0 (secretClose s) := fun w => Q0.of_eq rfl rfl rfl
theorem storeAppend_q0 (r : Row) : Resp Q0 (modify fun w => { w with store := w.store ++ [r] }) :=
  fun w => Q0.of_eq rfl rfl rfl
theorem secretsSet_q0 (s : Nat) (f : Secret → Secret) :
    Resp Q0 (modify fun w => { w with secrets := setAt w.secrets s f }) := fun w => Q0.of_eq rfl rfl rfl

theorem newKeyObj_q0 (c : Int) (r : Bool) (m s : Nat) : Resp Q0 (newKeyObj c r m s) := fun w =>
  ⟨rfl, id, fun i k h => ⟨k, append_getElem?_of_some _ h, rfl⟩⟩

theorem keysSet_q0 (o : Nat) (f : KeyObj → KeyObj) (hf : ∀ k, (f k).revoked = k.revoked) :
    Resp Q0 (modify fun w => { w with keys := setAt w.keys o f }) := by
  intro w
  refine ⟨rfl, id, ?_⟩
  intro i k h
  simp only [modify_run, setAt_getElem?]
  by_cases hio : i = o
  · subst hio; simp only [if_true, h, Option.map_some]; exact ⟨f k, rfl, hf k⟩
  · simp only [hio, if_false, h]; exact ⟨k, rfl, rfl⟩

theorem keyIncr_q0 (o : Nat) : Resp Q0 (keyIncr o) := keysSet_q0 o _ fun _ => rfl
theorem keyWrap_q0 (o : Nat) : Resp Q0 (keyWrap o) := keysSet_q0 o _ fun _ => rfl

theorem keyCloseRaw_q0 (o : Nat) : Resp Q0 (keyCloseRaw o) := by
  unfold keyCloseRaw
  resp_auto [secretClose_q0]
  exact keysSet_q0 o _ fun _ => rfl

theorem keyRelease_q0 (o : Nat) : Resp Q0 (keyRelease o) := by
  unfold keyRelease
  apply Resp.bind
  · exact keysSet_q0 o _ fun _ => rfl
  · resp_auto [keyCloseRaw_q0]

theorem releaseAll_q0 (l : List Nat) : Resp Q0 (releaseAll l) := by
  induction l with
  | nil => exact Resp.pure _
  | cons v rest ih => unfold releaseAll; resp_auto [keyRelease_q0]

theorem secretNew_q0 (b m : Nat) : Resp Q0 (secretNew b m) := by
  unfold secretNew
  resp_auto [takeFault_q0, wipeBuf_q0, logCall_q0]
  intro w; exact Q0.of_eq rfl rfl rfl

theorem secretRandom_q0 : Resp Q0 secretRandom := by
  unfold secretRandom
  resp_auto [takeFault_q0, logCall_q0]
  intro w; exact Q0.of_eq rfl rfl rfl

theorem withKey_q0 {α : Type} (o : Nat) (f : Nat → M α) (hf : ∀ m, Resp Q0 (f m)) : Resp Q0 (withKey o f) := by
  unfold withKey
  resp_auto
  · exact secretsSet_q0 _ _
  · exact hf _

theorem kmsEncrypt_q0 (m : Nat) : Resp Q0 (kmsEncrypt m) := by
  unfold kmsEncrypt; resp_auto [takeFault_q0, logCall_q0]
theorem kmsDecrypt_q0 (c : Ct) : Resp Q0 (kmsDecrypt c) := by
  unfold kmsDecrypt; resp_auto [takeFault_q0, logCall_q0, newBuf_q0]
theorem aeadEncrypt_q0 (pt : Pt) (k : Nat) : Resp Q0 (aeadEncrypt pt k) := by
  unfold aeadEncrypt
  resp_auto [takeFault_q0, logCall_q0]
  intro w; exact Q0.of_eq rfl rfl rfl
theorem aeadDecrypt_q0 (c : Ct) (k : Nat) : Resp Q0 (aeadDecrypt c k) := by
  unfold aeadDecrypt; resp_auto [takeFault_q0, logCall_q0]

theorem msLoad_q0 (m : KeyMeta) : Resp Q0 (msLoad m) := by
  unfold msLoad; resp_auto [takeFault_q0, logCall_q0]
theorem msLoadLatest_q0 (k : KeyId) : Resp Q0 (msLoadLatest k) := by
  unfold msLoadLatest; resp_auto [takeFault_q0, logCall_q0]
theorem msStore_q0 (r : Row) : Resp Q0 (msStore r) := by
  unfold msStore; resp_auto [takeFault_q0, logCall_q0, storeAppend_q0]
theorem mustLoadLatest_q0 (k : KeyId) : Resp Q0 (mustLoadLatest k) := by
  unfold mustLoadLatest; resp_auto [msLoadLatest_q0]

theorem generateKey_q0 (x : Ctx) : Resp Q0 (generateKey x) := by
  unfold generateKey; resp_auto [secretRandom_q0, newKeyObj_q0]
theorem systemKeyFromEKR_q0 (r : Row) : Resp Q0 (systemKeyFromEKR r) := by
  unfold systemKeyFromEKR; resp_auto [kmsDecrypt_q0, secretNew_q0, newKeyObj_q0]
theorem loadSystemKey_q0 (m : KeyMeta) : Resp Q0 (loadSystemKey m) := by
  unfold loadSystemKey; resp_auto [msLoad_q0, systemKeyFromEKR_q0]
theorem tryStoreSystemKey_q0 (sk : Nat) : Resp Q0 (tryStoreSystemKey sk) := by
  unfold tryStoreSystemKey
  resp_auto [msStore_q0]
  exact withKey_q0 _ _ fun m => kmsEncrypt_q0 m
theorem tryStoreIntermediateKey_q0 (x : Ctx) (ik sk : Nat) : Resp Q0 (tryStoreIntermediateKey x ik sk) := by
  unfold tryStoreIntermediateKey
  resp_auto [msStore_q0]
  exact withKey_q0 _ _ fun ikm => withKey_q0 _ _ fun skm => aeadEncrypt_q0 _ _
theorem decryptRow_q0 (ik : Nat) (dk : DrrKey) (data : Ct) : Resp Q0 (decryptRow ik dk data) := by
  unfold decryptRow
  apply withKey_q0
  intro im
  resp_auto [aeadDecrypt_q0, newBuf_q0, wipeBuf_q0]

/-! ### `IL`: only process-internal calls were logged -/

def IL (w w' : World) : Prop := ∃ l : List Call, w'.log = w.log ++ l ∧ ∀ c ∈ l, c.external = false

instance : RT IL where
  refl w := ⟨[], by simp, by simp⟩
  trans := by
    rintro a b c ⟨l1, e1, h1⟩ ⟨l2, e2, h2⟩
    refine ⟨l1 ++ l2, by rw [e2, e1, List.append_assoc], ?_⟩
    intro x hx
    rcases List.mem_append.mp hx with h | h
    · exact h1 x h
    · exact h2 x h

theorem IL.of_eq {w w' : World} (h : w'.log = w.log) : IL w w' := ⟨[], by simp [h], by simp⟩

theorem IL.silent {w w' : World} (h : IL w w') (hs : Silent w) : Silent w' := by
  obtain ⟨l, e, hl⟩ := h
  intro c hc
  rw [e] at hc
  rcases List.mem_append.mp hc with h | h
  · exact hs c h
  · exact hl c h

theorem takeFault_il : Resp IL takeFault := by
  intro w; unfold takeFault; split <;> exact IL.of_eq rfl
theorem logCall_il (c : Call) (hc : c.external = false) : Resp IL (logCall c) := fun w =>
  ⟨[c], rfl, by simp [hc]⟩
theorem newBuf_il (m : Nat) : Resp IL (newBuf m) := fun w => IL.of_eq rfl
theorem wipeBuf_il (b : Nat) : Resp IL (wipeBuf b) := fun w => IL.of_eq rfl
theorem secretClose_il (s : Nat) : Resp IL (secretClose s) := fun w => IL.of_eq rfl
theorem newKeyObj_il (c : Int) (r : Bool) (m s : Nat) : Resp IL (newKeyObj c r m s) := fun w => IL.of_eq rfl
theorem keysSet_il (o : Nat) (f : KeyObj → KeyObj) :
    Resp IL (modify fun w => { w with keys := setAt w.keys o f }) := fun w => IL.of_eq rfl
theorem secretsSet_il (s : Nat) (f : Secret → Secret) :
    Resp IL (modify fun w => { w with secrets := setAt w.secrets s f }) := fun w => IL.of_eq rfl
theorem setCache_il (c : Nat) (kc : KeyCache) : Resp IL (setCache c kc) := fun w => IL.of_eq rfl
theorem keyIncr_il (o : Nat) : Resp IL (keyIncr o) := keysSet_il o _
theorem keyWrap_il (o : Nat) : Resp IL (keyWrap o) := keysSet_il o _

theorem keyCloseRaw_il (o : Nat) : Resp IL (keyCloseRaw o) := by
  unfold keyCloseRaw
  resp_auto [secretClose_il]
  exact keysSet_il o _

theorem keyRelease_il (o : Nat) : Resp IL (keyRelease o) := by
  unfold keyRelease
  apply Resp.bind
  · exact keysSet_il o _
  · resp_auto [keyCloseRaw_il]

theorem releaseAll_il (l : List Nat) : Resp IL (releaseAll l) := by
  induction l with
  | nil => exact Resp.pure _
  | cons v rest ih => unfold releaseAll; resp_auto [keyRelease_il]

theorem secretNew_il (b m : Nat) : Resp IL (secretNew b m) := by
  unfold secretNew
  resp_auto [takeFault_il, wipeBuf_il]
  · exact logCall_il _ rfl
  · exact logCall_il _ rfl

theorem secretRandom_il : Resp IL secretRandom := by
  unfold secretRandom
  resp_auto [takeFault_il]
  · exact logCall_il _ rfl
  · exact logCall_il _ rfl

theorem withKey_il {α : Type} (o : Nat) (f : Nat → M α) (hf : ∀ m, Resp IL (f m)) : Resp IL (withKey o f) := by
  unfold withKey
  resp_auto
  · exact secretsSet_il _ _
  · exact hf _

theorem aeadEncrypt_il (pt : Pt) (k : Nat) : Resp IL (aeadEncrypt pt k) := by
  unfold aeadEncrypt
  resp_auto [takeFault_il]
  · exact logCall_il _ rfl
  · exact logCall_il _ rfl

theorem aeadDecrypt_il (c : Ct) (k : Nat) : Resp IL (aeadDecrypt c k) := by
  unfold aeadDecrypt
  resp_auto [takeFault_il]
  all_goals exact logCall_il _ rfl

theorem decryptRow_il (ik : Nat) (dk : DrrKey) (data : Ct) : Resp IL (decryptRow ik dk data) := by
  unfold decryptRow
  apply withKey_il
  intro im
  resp_auto [aeadDecrypt_il, newBuf_il, wipeBuf_il]

theorem cacheGet_il (c : Nat) (m : KeyMeta) : Resp IL (cacheGet c m) := by
  unfold cacheGet; resp_auto [setCache_il]
theorem cacheSet_il (c : Nat) (m : KeyMeta) (e : CEntry) : Resp IL (cacheSet c m e) := by
  unfold cacheSet; resp_auto [setCache_il, releaseAll_il]
theorem cacheRead_il (c : Nat) (m : KeyMeta) : Resp IL (cacheRead c m) := by
  unfold cacheRead; resp_auto [cacheGet_il]
theorem getFresh_il (c : Nat) (m : KeyMeta) (i : Int) : Resp IL (getFresh c m i) := by
  unfold getFresh; resp_auto [cacheRead_il]

end AsherahVerif.Env
