import AsherahVerif.Proofs.EnvTimeF4
/-
Timed calculus under faults, part 5: intermediate keys.  `createIntermediateKey` stores a row only under
a system key that `GetOrLoadLatest` handed out (hence not expired); the loader
`loadLatestOrCreateIntermediateKey` returns — whatever faults hit reads, the KMS, the AEAD or the
allocator — a key that is not expired, unless a `store` was hit.
-/
set_option linter.unusedVariables false
namespace AsherahVerif.Env.TimeF
open AsherahVerif.Env

variable {fl : List Fault} {D : List Row → Prop} {t : Int}

/-- `loadSystemKey` as a loader: it never writes the metastore. -/
theorem loadSystemKey_f (p : KeyMeta) : LoaderF fl D t (fun _ => True) loadSystemKey p := by
  intro w h
  unfold loadSystemKey
  have h1 : A fl D t (msLoad p w).2 := h.resp (msLoad_ext p) (GenF.msLoad p) (msLoad_q0 p) (msLoad_ss p)
  refine Wp.bind_world (fun e => Or.inr ⟨h1, fun k hk => by cases hk⟩) (fun o => ?_)
  cases o with
  | none => exact Or.inr ⟨h1, fun k hk => by cases hk⟩
  | some r =>
    simp only []
    apply Wp.mono (systemKeyFromEKR_f r _ h1)
    rintro r' w2 ⟨h2, -, hn⟩
    exact Or.inr ⟨h2, fun k hk => (hn k hk).mono (fun _ _ => trivial)⟩

theorem getOrLoadSystemKey_f (x : Ctx) (p : KeyMeta) (w : World) (h : A fl D t w) :
    Wp (getOrLoadSystemKey x p) w fun r w' => Bad fl w' ∨ A fl D t w' := by
  unfold getOrLoadSystemKey
  exact getOrLoad_f (fun m => gen_loadSystemKey m) x.skCache p (loadSystemKey_f p) x.pol.revokeInterval w h

/-- the decrypting part of `intermediateKeyFromEKR`. -/
theorem ikBody_f (sk' : Nat) (r0 : Row) (w : World) (h : A fl D t w) :
    Wp (do
        let pt ← withKey sk' fun skm => aeadDecrypt r0.enc skm
        match pt with
        | .key m =>
          let b ← newBuf m
          let s ← secretNew b m
          newKeyObj r0.created r0.revoked m s
        | .payload _ => throw .aead) w fun r w' =>
      A fl D t w' ∧ ∀ k, r = .ok k → KX (fun cr => cr = r0.created) w' k := by
  have h1 : A fl D t (withKey sk' (fun skm => aeadDecrypt r0.enc skm) w).2 :=
    h.resp (withKey_ext _ _ fun m => aeadDecrypt_ext _ _) (f_withKey _ _ fun m => GenF.aeadDecrypt _ _)
      (withKey_q0 _ _ fun m => aeadDecrypt_q0 _ _) (withKey_ss _ _ fun m => aeadDecrypt_ss _ _)
  refine Wp.bind_world (fun e => ⟨h1, fun k hk => by cases hk⟩) (fun pt => ?_)
  generalize (withKey sk' (fun skm => aeadDecrypt r0.enc skm) w).2 = w1 at h1 ⊢
  cases pt with
  | payload _ => exact ⟨h1, fun k hk => by cases hk⟩
  | key m =>
    simp only []
    have h2 : A fl D t (newBuf m w1).2 := h1.resp (newBuf_ext m) (f_newBuf m) (newBuf_q0 m) (newBuf_ss m)
    refine Wp.bind_world (fun e => ⟨h2, fun k hk => by cases hk⟩) (fun b => ?_)
    have h3 : A fl D t (secretNew b m (newBuf m w1).2).2 :=
      h2.resp (secretNew_ext _ _) (GenF.secretNew _ _) (secretNew_q0 _ _) (secretNew_ss _ _)
    refine Wp.bind_world (fun e => ⟨h3, fun k hk => by cases hk⟩) (fun s => ?_)
    refine ⟨h3.newKeyObj _ _ _ _, fun k hk => ?_⟩
    cases hk
    exact newKeyObj_kx _ _ _ _ _

/-- `intermediateKeyFromEKR`: on success a fresh key object carrying the row's stamp. -/
theorem intermediateKeyFromEKR_f (x : Ctx) (sk : Nat) (r0 : Row) (b : Bool) (w : World) (h : A fl D t w) :
    Wp (intermediateKeyFromEKR x sk r0 b) w fun r w' =>
      Bad fl w' ∨ (A fl D t w' ∧ ∀ k, r = .ok k → KX (fun cr => cr = r0.created) w' k) := by
  unfold intermediateKeyFromEKR
  apply Wp.bind; apply Wp.keyObj; simp only []
  have rest : ∀ (pr : Nat × Bool) (w1 : World), A fl D t w1 →
      Wp (if (pr.2 && b) = true then
            finallyDo
              (do
                let pt ← withKey pr.1 fun skm => aeadDecrypt r0.enc skm
                match pt with
                  | Pt.key m => do
                    let b ← newBuf m
                    let s ← secretNew b m
                    newKeyObj r0.created r0.revoked m s
                  | Pt.payload p => throw Err.aead)
              (keyRelease pr.1)
          else do
            let pt ← withKey pr.1 fun skm => aeadDecrypt r0.enc skm
            match pt with
              | Pt.key m => do
                let b ← newBuf m
                let s ← secretNew b m
                newKeyObj r0.created r0.revoked m s
              | Pt.payload p => throw Err.aead) w1 fun r w' =>
        Bad fl w' ∨ (A fl D t w' ∧ ∀ k, r = .ok k → KX (fun cr => cr = r0.created) w' k) := by
    intro pr w1 h1
    split
    · apply Wp.finallyDo
      apply Wp.mono (ikBody_f pr.1 r0 w1 h1)
      intro r w2 ⟨h2, hn⟩
      exact Or.inr ⟨h2.keyRelease pr.1, fun k hk => (hn k hk).ext (keyRelease_ext _ _)⟩
    · apply Wp.mono (ikBody_f pr.1 r0 w1 h1)
      intro r w2 ⟨h2, hn⟩
      exact Or.inr ⟨h2, hn⟩
  cases r0.parent with
  | none =>
    simp only []
    apply Wp.bind; apply Wp.pure; simp only []
    exact rest (sk, false) w h
  | some p =>
    simp only []
    split
    · refine Wp.bindB (getOrLoadSystemKey_f x p w h) (badQ_base _) (by lg_auto) ?_
      intro r w1 h1
      cases r with
      | error e => exact Or.inr ⟨h1, fun k hk => by cases hk⟩
      | ok l =>
        simp only []
        apply Wp.bind; apply Wp.pure; simp only []
        exact rest (l, true) w1 h1
    · apply Wp.bind; apply Wp.pure; simp only []
      exact rest (sk, false) w h

/-- `tryStoreIntermediateKey` for a key stamped with the truncated clock under a system key that is
not expired. -/
theorem tryStoreIntermediateKey_f {x : Ctx} {s0 : List Row} (ik sk : Nat) (w : World) (h : A fl (DeltaF x t s0) t w)
    (hc : (keyAt w ik).created = keyTimestamp t x.pol.precision)
    (hsk : NE x t (keyAt w sk).created) :
    Wp (tryStoreIntermediateKey x ik sk) w fun r w' => Bad fl w' ∨ (A fl (DeltaF x t s0) t w' ∧
      (r = .ok false → ∃ r1 ∈ w'.store, r1.kid = x.ikId ∧ r1.created = keyTimestamp t x.pol.precision)) := by
  unfold tryStoreIntermediateKey
  apply Wp.bind; apply Wp.keyObj; simp only []
  apply Wp.bind; apply Wp.keyObj; simp only []
  have h1 : A fl (DeltaF x t s0) t (withKey ik (fun ikm => withKey sk fun skm => aeadEncrypt (.key ikm) skm) w).2 :=
    h.resp (withKey_ext _ _ fun m => withKey_ext _ _ fun _ => aeadEncrypt_ext _ _)
      (f_withKey _ _ fun m => f_withKey _ _ fun _ => GenF.aeadEncrypt _ _)
      (withKey_q0 _ _ fun m => withKey_q0 _ _ fun _ => aeadEncrypt_q0 _ _)
      (withKey_ss _ _ fun m => withKey_ss _ _ fun _ => aeadEncrypt_ss _ _)
  refine Wp.bind_world (fun e => Or.inr ⟨h1, fun hh => by cases hh⟩) (fun enc => ?_)
  generalize (withKey ik (fun ikm => withKey sk fun skm => aeadEncrypt (.key ikm) skm) w).2 = w1 at h1 ⊢
  apply Wp.mono (msStore_f _ w1 h1 (h1.delta.add _ ⟨rfl, hc, Or.inr ⟨rfl, ⟨.sk, (keyAt w sk).created⟩, rfl, hsk⟩⟩))
  intro r w2 hcase
  rcases hcase with hb | ⟨h2, hcase⟩
  · exact Or.inl hb
  · refine Or.inr ⟨h2, fun hr => ?_⟩
    rcases hcase with ⟨hr', -⟩ | ⟨-, hst, hsome⟩
    · rw [hr] at hr'; cases hr'
    · cases hfr : findRow w1.store ⟨x.ikId, (keyAt w ik).created⟩ with
      | none => rw [hfr] at hsome; cases hsome
      | some r1 =>
        obtain ⟨hm, hk, hcr⟩ := findRow_some hfr
        exact ⟨r1, by rw [hst]; exact hm, hk, hcr.trans hc⟩

/-- `createIntermediateKey`: the new key if the metastore took it, else a key object for the latest
stored intermediate key of the partition (whose stamp is then at least the new key's); not expired. -/
theorem createIntermediateKey_f {x : Ctx} {s0 : List Row} (b : Bool) (w : World)
    (h : A fl (DeltaF x t s0) t w) :
    Wp (createIntermediateKey x b) w fun r w' => Bad fl w' ∨ (A fl (DeltaF x t s0) t w' ∧
      ∀ k, r = .ok k → KX (NE x t) w' k) := by
  unfold createIntermediateKey
  refine Wp.bindB (getOrLoadLatest_f (fun _ => gen_loadLatestOrCreateSystemKey x) x.skCache .sk x.pol.revokeInterval
    x.pol.expireAfter (fun _ h _ => h) loadLatestOrCreateSystemKey_f w h) (badQ_base _) (by lg_auto) ?_
  intro r w1 ⟨h1, hk1⟩
  cases r with
  | error e => exact Or.inr ⟨h1, fun k hk => by cases hk⟩
  | ok sk =>
    simp only []
    have hsk : KX (NE x t) w1 sk := hk1 sk rfl
    apply Wp.finallyDo
    -- the release of the system key at the end keeps everything
    have fin : ∀ (r : Except Err Nat) (w2 : World),
        (Bad fl w2 ∨ (A fl (DeltaF x t s0) t w2 ∧ ∀ k, r = .ok k → KX (NE x t) w2 k)) →
        Wp (keyRelease sk) w2 fun _ w' => Bad fl w' ∨ (A fl (DeltaF x t s0) t w' ∧
          ∀ k, r = .ok k → KX (NE x t) w' k) := by
      intro r w2 hc
      rcases hc with hbad | ⟨h2, hk2⟩
      · exact Or.inl (hbad.lg (gen_keyRelease sk w2))
      · exact Or.inr ⟨h2.keyRelease sk, fun k hk => (hk2 k hk).ext (keyRelease_ext sk w2)⟩
    refine Wp.mono ?_ fin
    apply Wp.bind
    apply Wp.mono (Wp.and_ext (generateKey_ext x) (generateKey_f x w1 h1))
    rintro r w2 ⟨⟨h2, -, hn2⟩, hext2⟩
    cases r with
    | error e => exact Or.inr ⟨h2, fun k hk => by cases hk⟩
    | ok ik =>
      simp only []
      have hn := hn2 ik rfl
      have hsk2 := hsk.ext hext2
      refine Wp.bindB (R := fun r w3 => ∃ r', r = .ok r' ∧ A fl (DeltaF x t s0) t w3 ∧ Ext w2 w3 ∧
          (r' = .ok false → ∃ r1 ∈ w3.store, r1.kid = x.ikId ∧ r1.created = keyTimestamp t x.pol.precision))
        ?_ (badQ_base _) (by lg_auto) ?_
      · apply Wp.tryM
        apply Wp.mono (Wp.and_ext (tryStoreIntermediateKey_ext x ik sk) (tryStoreIntermediateKey_f ik sk w2 h2 hn.stamp hsk2.stamp))
        intro r w3 ⟨hcase, hext⟩
        rcases hcase with hbad | ⟨h3, hf⟩
        · exact Or.inl hbad
        · exact Or.inr ⟨r, rfl, h3, hext, hf⟩
      · intro r w3 ⟨r', hr', h3, hext3, hfalse⟩
        subst hr'
        simp only []
        cases r' with
        | error e =>
          simp only []
          refine Wp.bind_unit (keyCloseRaw_ok ik w3) ?_
          exact Or.inr ⟨h3.keyCloseRaw ik, fun k hk => by cases hk⟩
        | ok bb =>
          cases bb with
          | true =>
            simp only []
            refine Or.inr ⟨h3, fun k hk => ?_⟩
            cases hk
            exact (hn.ext hext3).mono (fun c hc => by rw [hc]; exact fun hb => hb t)
          | false =>
            simp only []
            obtain ⟨r1, hr1, hk1', hc1⟩ := hfalse rfl
            refine Wp.bind_unit (keyCloseRaw_ok ik w3) ?_
            have h4 := h3.keyCloseRaw ik
            have hr1' : r1 ∈ (keyCloseRaw ik w3).2.store := by rw [keyCloseRaw_ss ik w3]; exact hr1
            generalize (keyCloseRaw ik w3).2 = w4 at h4 hr1' ⊢
            apply Wp.bind
            apply Wp.mono (mustLoadLatest_f x.ikId w4 h4)
            intro r w5 ⟨h5, hs5, hlat⟩
            cases r with
            | error e => exact Or.inr ⟨h5, fun k hk => by cases hk⟩
            | ok r0 =>
              simp only []
              obtain ⟨-, -, hmax⟩ := latestRow_some (hlat r0 rfl)
              apply Wp.mono (intermediateKeyFromEKR_f x sk r0 b w5 h5)
              intro r w6 hc6
              rcases hc6 with hbad | ⟨h6, hn6⟩
              · exact Or.inl hbad
              · refine Or.inr ⟨h6, fun k hk => (hn6 k hk).mono (fun c hc => ?_)⟩
                rw [hc]
                exact fun hb => isExpired_mono (by rw [← hc1]; exact hmax r1 hr1' hk1') (hb t)

/-- `getValidIntermediateKey`. -/
theorem getValidIntermediateKey_f (x : Ctx) (sk : Nat) (r0 : Row) (b : Bool) (w : World) (h : A fl D t w) :
    Wp (getValidIntermediateKey x sk r0 b) w fun r w' =>
      Bad fl w' ∨ (A fl D t w' ∧ ∀ k, r = .ok (some k) → KX (fun cr => cr = r0.created) w' k) := by
  unfold getValidIntermediateKey
  apply Wp.bind; apply Wp.keyObj; simp only []
  apply Wp.bind; apply Wp.get; simp only []
  split
  · exact Or.inr ⟨h, fun k hk => by cases hk⟩
  · refine Wp.bindB (R := fun r w1 => ∃ r', r = .ok r' ∧ A fl D t w1 ∧ ∀ k, r' = .ok k → KX (fun cr => cr = r0.created) w1 k)
      ?_ (badQ_base _) (by lg_auto) ?_
    · apply Wp.tryM
      apply Wp.mono (intermediateKeyFromEKR_f x sk r0 b w h)
      intro r w1 hc
      rcases hc with hbad | ⟨h1, hn⟩
      · exact Or.inl hbad
      · exact Or.inr ⟨r, rfl, h1, hn⟩
    · intro r w1 ⟨r', hr', h1, hn⟩
      subst hr'
      simp only []
      cases r' with
      | error e => exact Or.inr ⟨h1, fun k hk => by cases hk⟩
      | ok ik => exact Or.inr ⟨h1, fun k hk => by cases hk; exact hn ik rfl⟩

/-- the intermediate-key loader of `EncryptPayload` under faults. -/
theorem loadLatestOrCreateIntermediateKey_f {x : Ctx} {s0 : List Row} (b : Bool) :
    LoaderF fl (DeltaF x t s0) t (NE x t) (fun _ => loadLatestOrCreateIntermediateKey x b) ⟨x.ikId, 0⟩ := by
  intro w h
  show Wp (loadLatestOrCreateIntermediateKey x b) w _
  unfold loadLatestOrCreateIntermediateKey
  apply Wp.bind
  apply Wp.mono (msLoadLatest_f x.ikId w h)
  intro r w1 ⟨h1, hs1, hv⟩
  cases r with
  | error e => exact Or.inr ⟨h1, fun k hk => by cases hk⟩
  | ok o =>
    have := hv o rfl
    subst this
    simp only []
    apply Wp.bind; apply Wp.get; simp only []
    cases hlr : latestRow w.store x.ikId with
    | none => simp only []; exact createIntermediateKey_f b w1 h1
    | some r0 =>
      simp only []
      split
      · exact createIntermediateKey_f b w1 h1
      · rename_i hvalid
        have hne : isExpired t r0.created x.pol.expireAfter = false := by
          unfold isEnvelopeInvalid at hvalid
          rw [h1.now] at hvalid
          cases h1' : isExpired t r0.created x.pol.expireAfter
          · rfl
          · rw [h1'] at hvalid; simp at hvalid
        cases hpar : r0.parent with
        | none => exact Or.inr ⟨h1, fun k hk => by cases hk⟩
        | some p =>
          simp only []
          refine Wp.bindB (R := fun r w2 => ∃ r', r = .ok r' ∧ A fl (DeltaF x t s0) t w2)
            ?_ (badQ_base _) (by lg_auto) ?_
          · apply Wp.tryM
            apply Wp.mono (getOrLoadSystemKey_f x p w1 h1)
            intro r w2 hc
            rcases hc with hbad | h2
            · exact Or.inl hbad
            · exact Or.inr ⟨r, rfl, h2⟩
          · intro r w2 ⟨r', hr', h2⟩
            subst hr'
            simp only []
            cases r' with
            | error e => exact createIntermediateKey_f b w2 h2
            | ok sk =>
              simp only []
              apply Wp.finallyDo
              have fin : ∀ (r : Except Err Nat) (w3 : World),
                  (Bad fl w3 ∨ (A fl (DeltaF x t s0) t w3 ∧ ∀ k, r = .ok k → KX (NE x t) w3 k)) →
                  Wp (keyRelease sk) w3 fun _ w' => Bad fl w' ∨ (A fl (DeltaF x t s0) t w' ∧
                    ∀ k, r = .ok k → KX (NE x t) w' k) := by
                intro r w3 hc
                rcases hc with hbad | ⟨h3, hk3⟩
                · exact Or.inl (hbad.lg (gen_keyRelease sk w3))
                · exact Or.inr ⟨h3.keyRelease sk, fun k hk => (hk3 k hk).ext (keyRelease_ext sk w3)⟩
              refine Wp.mono ?_ fin
              refine Wp.bindB (getValidIntermediateKey_f x sk r0 b w2 h2) (badQ_base _) (by lg_auto) ?_
              intro r w3 ⟨h3, hn3⟩
              cases r with
              | error e => exact Or.inr ⟨h3, fun k hk => by cases hk⟩
              | ok o =>
                cases o with
                | none => exact createIntermediateKey_f b w3 h3
                | some ik =>
                  refine Or.inr ⟨h3, fun k hk => ?_⟩
                  cases hk
                  exact (hn3 ik rfl).mono (fun c hc => by rw [hc]; exact fun _ => hne)

/-- `loadIntermediateKey` as a loader (decrypt path): it never writes the metastore. -/
theorem loadIntermediateKey_f (x : Ctx) (p : KeyMeta) (b : Bool) :
    LoaderF fl D t (fun _ => True) (fun m => loadIntermediateKey x m b) p := by
  intro w h
  show Wp (loadIntermediateKey x p b) w _
  unfold loadIntermediateKey
  have h1 : A fl D t (msLoad p w).2 := h.resp (msLoad_ext p) (GenF.msLoad p) (msLoad_q0 p) (msLoad_ss p)
  refine Wp.bind_world (fun e => Or.inr ⟨h1, fun k hk => by cases hk⟩) (fun o => ?_)
  generalize (msLoad p w).2 = w1 at h1 ⊢
  cases o with
  | none => exact Or.inr ⟨h1, fun k hk => by cases hk⟩
  | some r =>
    simp only []
    cases r.parent with
    | none => exact Or.inr ⟨h1, fun k hk => by cases hk⟩
    | some pp =>
      simp only []
      refine Wp.bindB (getOrLoadSystemKey_f x pp w1 h1) (badQ_base _) (by lg_auto) ?_
      intro r' w2 h2
      cases r' with
      | error e => exact Or.inr ⟨h2, fun k hk => by cases hk⟩
      | ok sk =>
        simp only []
        apply Wp.finallyDo
        apply Wp.mono (intermediateKeyFromEKR_f x sk r b w2 h2)
        intro r'' w3 hc
        rcases hc with hbad | ⟨h3, hn⟩
        · exact Or.inl (hbad.lg (gen_keyRelease sk w3))
        · exact Or.inr ⟨h3.keyRelease sk, fun k hk => ((hn k hk).ext (keyRelease_ext sk w3)).mono (fun _ _ => trivial)⟩

end AsherahVerif.Env.TimeF
