import AsherahVerif.Model.Codec
/-
JSON string literals: reading back what `quote` (encoding/json's escaping rules) printed gives the
original characters — for every string (quotes, backslashes, controls, <>&, U+2028/9, astral
characters, …).
-/
namespace AsherahVerif.Codec

theorem hexVal_hexDigit_fin : ∀ d : Fin 16, hexVal (hexDigit d.val) = some d.val := by decide
theorem hexVal_hexDigit (d : Nat) (h : d < 16) : hexVal (hexDigit d) = some d := hexVal_hexDigit_fin ⟨d, h⟩

theorem hex4_digits (n : Nat) (h : n < 65536) :
    hex4 (hexDigit (n / 4096)) (hexDigit (n / 256 % 16)) (hexDigit (n / 16 % 16)) (hexDigit (n % 16)) = some n := by
  unfold hex4
  rw [hexVal_hexDigit _ (by omega), hexVal_hexDigit _ (by omega), hexVal_hexDigit _ (by omega),
    hexVal_hexDigit _ (by omega)]
  simp only [Option.bind_eq_bind, Option.bind_some, Option.pure_def, Option.some.injEq]
  omega

theorem parse_quote_char (t : Str) : parseStrBodyP none ('"' :: t) = some ([], t) := by
  rw [parseStrBodyP.eq_def]
  simp [flush]

/-- a two-character escape `\e`. -/
theorem parse_simple (e ch : Char) (t : Str) (he : e ≠ 'u') (hs : simpleEscape e = some ch) :
    parseStrBodyP none ('\\' :: e :: t) = consChar ch (parseStrBodyP none t) := by
  rw [parseStrBodyP.eq_def]
  have h1 : ¬ ('\\' = '"') := by decide
  simp only [h1, if_false, if_true, he, hs, flush]

/-- a `\uXXXX` escape of a code point below the surrogates. -/
theorem parse_u (n : Nat) (t : Str) (h : n < 0xD800) :
    parseStrBodyP none ('\\' :: 'u' :: hexDigit (n / 4096) :: hexDigit (n / 256 % 16) :: hexDigit (n / 16 % 16) ::
      hexDigit (n % 16) :: t) = consChar (Char.ofNat n) (parseStrBodyP none t) := by
  rw [parseStrBodyP.eq_def]
  have h1 : ¬ ('\\' = '"') := by decide
  simp only [h1, if_false, if_true, hex4_digits n (by omega)]
  have h2 : ¬ (0xD800 ≤ n ∧ n < 0xDC00) := by omega
  have h3 : ¬ (0xDC00 ≤ n ∧ n < 0xE000) := by omega
  simp only [h2, h3, if_false, flush]

theorem parse_plain (c : Char) (t : Str) (h1 : c ≠ '"') (h2 : c ≠ '\\') (h3 : ¬ c.toNat < 0x20) :
    parseStrBodyP none (c :: t) = consChar c (parseStrBodyP none t) := by
  rw [parseStrBodyP.eq_def]
  simp only [h1, h2, h3, if_false, flush]

theorem parse_escapeChar (c : Char) (t : Str) :
    parseStrBodyP none (escapeChar c ++ t) = consChar c (parseStrBodyP none t) := by
  unfold escapeChar
  split
  · rename_i h; subst h; exact parse_simple '"' '"' t (by decide) (by decide)
  split
  · rename_i h; subst h; exact parse_simple '\\' '\\' t (by decide) (by decide)
  split
  · rename_i h; subst h; exact parse_simple 'n' '\n' t (by decide) (by decide)
  split
  · rename_i h; subst h; exact parse_simple 'r' '\r' t (by decide) (by decide)
  split
  · rename_i h; subst h; exact parse_simple 't' '\t' t (by decide) (by decide)
  split
  · rename_i h; subst h; exact parse_simple 'b' '\x08' t (by decide) (by decide)
  split
  · rename_i h; subst h; exact parse_simple 'f' '\x0c' t (by decide) (by decide)
  split
  · rename_i h
    have hn : c.toNat < 0xD800 := by
      rcases h with h | h | h | h | h | h
      · omega
      · subst h; decide
      · subst h; decide
      · subst h; decide
      · omega
      · omega
    have := parse_u c.toNat t hn
    rw [Char.ofNat_toNat] at this
    simpa using this
  · rename_i h1 h2 _ _ _ _ _ h8
    have h3 : ¬ c.toNat < 0x20 := fun h => h8 (Or.inl h)
    simpa using parse_plain c t h1 h2 h3

theorem parse_escBody (s rest : Str) : parseStrBodyP none (escBody s ++ rest) = some (s, rest) := by
  induction s with
  | nil => simp [escBody, parse_quote_char]
  | cons c r ih =>
    simp only [escBody, List.append_assoc]
    rw [parse_escapeChar, ih]
    rfl

/-- **string literals round trip**: after the opening quote of `quote s`, the parser returns `s`
and exactly what followed the closing quote. -/
theorem parseStrBody_quote (s rest : Str) : parseStrBody (escBody s ++ rest) = some (s, rest) :=
  parse_escBody s rest

end AsherahVerif.Codec
