import AsherahVerif.Model.MetastoreInst
import AsherahVerif.Proofs.MetastoreProps
import AsherahVerif.Proofs.MetastoreQ
/-
The abstract side conditions of the refinement proofs, discharged for the literals the model is
instantiated with (`E.facts`): all finite facts about concrete strings (kernel `decide`).
-/
namespace AsherahVerif.Metastore
set_option linter.unusedSimpArgs false

theorem rowNames_ok : NamesOK E.facts.rowNames := by decide +kernel
theorem v1Enc_eq_rowNames : E.facts.v1Enc = E.facts.rowNames := by decide +kernel
theorem v2Names_ok : NamesOK E.facts.v2Names := by decide +kernel
theorem v2Item_ok : ItemNamesOK E.facts.v2Item := by decide +kernel

/-- all four ways of constructing the SQL metastore issue statements that mean insert / select by key /
select latest in the placeholder dialect of their database -/
theorem sqlSetup_ok (s : SqlSetup) : SqlOK (s.ms E.facts) s.dialect := by
  cases s <;> decide +kernel

theorem evalCond_not_exists (e p : String) (arg : List Char)
    (h1 : fnArg "attribute_not_exists" (trimWs e.toList) = some arg) (h2 : resolveName arg [] = some p)
    (ex : Option Item) :
    evalCond e [] ex = some (match ex with | some it => (itemGet it p).isNone | none => true) := by
  simp only [evalCond, h1, h2, Option.map_some]
  cases ex with
  | none => rfl
  | some it => cases h : itemGet it p <;> simp [h]

theorem v1_cond_arg : fnArg "attribute_not_exists" (trimWs E.facts.v1.conditionExpr.toList) = some E.facts.v1.partitionKey.toList := by
  decide +kernel
theorem v1_cond_name : resolveName E.facts.v1.partitionKey.toList [] = some E.facts.v1.partitionKey := by decide +kernel
theorem v2_cond_arg : fnArg "attribute_not_exists" (trimWs E.facts.v2.conditionExpr.toList) = some E.facts.v2.partitionKey.toList := by
  decide +kernel
theorem v2_cond_name : resolveName E.facts.v2.partitionKey.toList [] = some E.facts.v2.partitionKey := by decide +kernel

theorem ddb1_ok : DdbOK E.facts.v1 E.facts.codec1 where
  ne1 := by decide +kernel
  ne2 := by decide +kernel
  ne3 := by decide +kernel
  cond := evalCond_not_exists _ _ _ v1_cond_arg v1_cond_name
  getC := by decide +kernel
  queryC := by decide +kernel
  fwd := by decide +kernel
  lim := by decide +kernel
  codec := by
    intro r
    simp only [Facts.codec1, codecV1, itemGet, if_true, v1Enc_eq_rowNames]
    exact unmarshalEkrV1_marshal _ rowNames_ok r
  marshalErase := fun _ => rfl

theorem v2_keyRecord_eq : E.facts.v2.keyRecord = E.facts.v2Item.keyRecord := by decide +kernel

theorem ddb2_ok : DdbOK E.facts.v2 E.facts.codec2 where
  ne1 := by decide +kernel
  ne2 := by decide +kernel
  ne3 := by decide +kernel
  cond := evalCond_not_exists _ _ _ v2_cond_arg v2_cond_name
  getC := by decide +kernel
  queryC := by decide +kernel
  fwd := by decide +kernel
  lim := by decide +kernel
  codec := by
    intro r
    simp only [Facts.codec2, codecV2, v2_keyRecord_eq]
    exact decodeItemV2_marshal _ _ v2Item_ok v2Names_ok r
  marshalErase := fun _ => rfl

theorem v1_schema : (docTable "x").hashKey = E.facts.v1.partitionKey ∧ (docTable "x").rangeKey = E.facts.v1.sortKey := by
  decide +kernel
theorem v2_schema : (docTable "x").hashKey = E.facts.v2.partitionKey ∧ (docTable "x").rangeKey = E.facts.v2.sortKey := by
  decide +kernel

theorem ddb1_inv0 (name : String) : DdbInv E.facts.v1 E.facts.codec1 (docTable name) [] :=
  ⟨v1_schema.1, v1_schema.2, rfl, by simp [Table.Nodup], by simp, by simp⟩
theorem ddb2_inv0 (name : String) : DdbInv E.facts.v2 E.facts.codec2 (docTable name) [] :=
  ⟨v2_schema.1, v2_schema.2, rfl, by simp [Table.Nodup], by simp, by simp⟩

theorem sql_inv0 (N : Names) (d : Dialect) : SqlInv N (docSql d) [] := ⟨rfl, by simp [Table.Nodup], by simp⟩

end AsherahVerif.Metastore
