import AsherahVerif.Proofs.EnvCohPrim
/-
Specifications of key_cache.go's functions: every key a cache hands out, and every key it stores,
is the key wrapped by the store row it is filed under (`Coherent` is preserved), for every cache
mode (never / simple / bounded with any eviction policy).
-/
set_option linter.unusedVariables false
namespace AsherahVerif.Env

/-! ### association lists -/

theorem assocGet_mem_coh {κ α : Type} [DecidableEq κ] {l : List (κ × α)} {k : κ} {v : α}
    (h : assocGet l k = some v) : (k, v) ∈ l := by
  unfold assocGet at h
  cases hf : l.find? (·.1 = k) with
  | none => rw [hf] at h; cases h
  | some p =>
    rw [hf] at h; simp only [Option.map_some, Option.some.injEq] at h
    have h1 := List.mem_of_find?_eq_some hf
    have h2 := List.find?_some hf
    simp only [decide_eq_true_eq] at h2
    obtain ⟨a, b⟩ := p
    simp only at h h2; subst h; subst h2; exact h1

theorem mem_assocSet_coh {κ α : Type} [DecidableEq κ] {l : List (κ × α)} {k : κ} {v : α} {p : κ × α}
    (h : p ∈ assocSet l k v) : p ∈ l ∨ p = (k, v) := by
  unfold assocSet at h
  split at h
  · obtain ⟨q, hq, he⟩ := List.mem_map.mp h
    split at he
    · right; exact he.symm
    · left; rw [← he]; exact hq
  · rcases List.mem_append.mp h with h | h
    · left; exact h
    · right; simpa using h

theorem mem_assocDel_coh {κ α : Type} [DecidableEq κ] {l : List (κ × α)} {k : κ} {p : κ × α}
    (h : p ∈ assocDel l k) : p ∈ l := by
  unfold assocDel at h; exact (List.mem_filter.mp h).1

theorem mem_foldl_assocDel {κ α : Type} [DecidableEq κ] (ks : List κ) (l : List (κ × α)) {p : κ × α}
    (h : p ∈ ks.foldl (fun acc k => assocDel acc k) l) : p ∈ l := by
  induction ks generalizing l with
  | nil => exact h
  | cons k t ih => exact mem_assocDel_coh (ih _ h)

theorem cacheGet_spec {a : Nat} {F : Prop} {P : World → Prop} (c : Nat) (m : KeyMeta) :
    CSpec a F P (cacheGet c m) (fun eo w => ∀ e, eo = some e → GoodKeyAt w m e.obj) := by
  unfold cacheGet
  apply CSpec.bind (getCache_spec c)
  intro kc
  split
  · exact CSpec.pure _ fun w _ _ e he => by cases he
  · exact CSpec.pure _ fun w _ hg e he => hg.ents m e (assocGet_mem_coh he)
  · split
    · exact CSpec.pure _ fun w _ _ e he => by cases he
    · apply CSpec.bind_frame (setCache_spec c _) (fun w _ hg => ⟨hg.ents, hg.latest⟩) (by stable_auto)
      intro _
      split
      · exact CSpec.pure _ fun w _ hg e he => hg.1.ents m e (assocGet_mem_coh he)
      · exact CSpec.pure _ fun w _ _ e he => by cases he

theorem boundedSet_spec {a : Nat} {F : Prop} (c : Nat) (m : KeyMeta) (e : CEntry) (kc kc2 : KeyCache) (s : Nat)
    (hk : kc2.ents = kc.ents ∧ kc2.latest = kc.latest) :
    CSpec a F (fun w => GoodKeyAt w m e.obj ∧ CacheGood w kc)
      (let o := Cache.step kc2.pol (.set s 0) (fun _ => false)
       let evicted := o.cbs.filterMap fun (k, _) => kc2.slots[k]?
       let ents := evicted.foldl (fun acc em => assocDel acc em) kc2.ents
       let victims := evicted.filterMap fun em => (assocGet kc2.ents em).map (·.obj)
       do setCache c { kc2 with pol := o.cache, ents := assocSet ents m e }; releaseAll victims)
      (fun _ _ => True) := by
  dsimp only
  apply CSpec.bind_frame (setCache_spec c _) _ (by stable_auto)
  · intro _; exact (releaseAll_cspec _).weaken (fun _ _ _ => trivial) (fun _ _ _ _ => trivial)
  · intro w hi hg
    refine ⟨fun m' e' h => ?_, fun k m' h => hg.2.latest k m' (hk.2 ▸ h)⟩
    rcases mem_assocSet_coh h with h | h
    · have := mem_foldl_assocDel _ _ h
      rw [hk.1] at this
      exact hg.2.ents _ _ this
    · cases h; exact hg.1

theorem cacheSet_spec {a : Nat} {F : Prop} (c : Nat) (m : KeyMeta) (e : CEntry) :
    CSpec a F (fun w => GoodKeyAt w m e.obj) (cacheSet c m e) (fun _ _ => True) := by
  unfold cacheSet
  apply CSpec.bind_frame (getCache_spec c) (fun _ _ _ => trivial) (by stable_auto)
  intro kc
  split
  · exact CSpec.pure _ fun _ _ _ => trivial
  · refine (setCache_spec c _).pre fun w hi hg => ⟨fun m' e' h => ?_, hg.2.latest⟩
    rcases mem_assocSet_coh h with h | h
    · exact hg.2.ents _ _ h
    · cases h; exact hg.1
  · cases hs : slotOf kc m with
    | some s => exact boundedSet_spec c m e kc kc s ⟨rfl, rfl⟩
    | none => exact boundedSet_spec c m e kc { kc with slots := kc.slots ++ [m] } kc.slots.length ⟨rfl, rfl⟩

theorem cacheRead_spec {a : Nat} {F : Prop} {P : World → Prop} (c : Nat) (m : KeyMeta) :
    CSpec a F P (cacheRead c m) (fun eo w => ∀ e, eo = some e → GoodFor m e.obj w) := by
  unfold cacheRead
  apply CSpec.bind (getCache_spec c)
  intro kc
  apply CSpec.of_pre (C := ∀ kid m', (kid, m') ∈ kc.latest → m'.kid = kid) (cacheGet_ext _ _) (fun w _ hg => hg.latest)
  intro hl
  refine (cacheGet_spec c _).weaken (fun _ _ _ => trivial) (fun eo w hi hg e he => ?_)
  refine ⟨_, ?_, ?_, hg e he⟩
  · split
    · unfold getLatestMeta
      cases hgm : assocGet kc.latest m.kid with
      | none => rfl
      | some m' => exact hl _ _ (assocGet_mem_coh hgm)
    · rfl
  · intro hz; simp only [hz, if_false]

theorem getFresh_cspec {a : Nat} {F : Prop} {P : World → Prop} (c : Nat) (m : KeyMeta) (i : Int) :
    CSpec a F P (getFresh c m i) (fun r w => ∀ k, r.1 = some k → GoodFor m k w) := by
  unfold getFresh
  apply CSpec.bind (cacheRead_spec c m)
  intro eo
  split
  · exact CSpec.pure _ fun w _ _ k hk => by cases hk
  · rename_i e
    apply CSpec.pre (P := fun w => GoodFor m e.obj w) (fun w _ h => h e rfl)
    apply CSpec.bind_frame (keyObj_spec' _) (fun _ _ _ => trivial) (Stable.goodFor _ _)
    intro ko
    apply CSpec.bind_frame CSpec.get (fun _ _ _ => trivial) (by stable_auto)
    intro w0
    split
    · exact CSpec.pure _ fun w _ h k hk => by cases hk; exact h.1.1
    · exact CSpec.pure _ fun w _ h k hk => by cases hk; exact h.1.1

theorem keyObj_created_spec {a : Nat} {F : Prop} {P : World → Prop} (o : Nat) (c : Int)
    (h : ∀ w, Inv w → P w → ∃ m, KeyIs w o c m) :
    CSpec a F P (keyObj o) (fun ko _ => ko.created = c) :=
  CSpec.of_still (keyObj_ext o) (keyObj_still o) fun w _ hi _ hp =>
    Or.inr ⟨fun v hv => (by cases hv; obtain ⟨m, hm⟩ := h w hi hp; exact hm.getD.1), fun _ => ⟨_, rfl⟩⟩

theorem GoodKeyAt.keyIs' {w : World} {m : KeyMeta} {o : Nat} (h : GoodKeyAt w m o) : ∃ mat, KeyIs w o m.created mat := by
  obtain ⟨mat, h1, _⟩ := h.keyIs; exact ⟨mat, h1⟩

/-- `cacheWrite c m e` files `e` under the meta of its own key: fine when that key is the stored
key of `m`'s id (and of exactly `m` unless `m` is the "latest" meta). -/
theorem cacheWrite_cspec {a : Nat} {F : Prop} (c : Nat) (m : KeyMeta) (e : CEntry) :
    CSpec a F (fun w => GoodFor m e.obj w) (cacheWrite c m e) (fun _ _ => True) := by
  apply CSpec.exists_pre (cacheWrite_ext c m e)
  intro m0
  apply CSpec.of_pre (C := m0.kid = m.kid ∧ (m.created ≠ 0 → m0 = m)) (cacheWrite_ext c m e) (fun w _ h => ⟨h.1, h.2.1⟩)
  intro ⟨hkid, hm0⟩
  apply CSpec.pre (P := fun w => GoodKeyAt w m0 e.obj) (fun w _ h => h.2.2)
  unfold cacheWrite
  apply CSpec.bind_frame (keyObj_created_spec e.obj m0.created fun w _ h => h.keyIs') (fun _ _ h => h) (Stable.goodKeyAt _ _)
  intro k
  apply CSpec.of_pre (C := k.created = m0.created) (by ext_auto [getCache_ext, setCache_ext, cacheGet_ext, keyRelease_ext, cacheSet_ext]) (fun w _ h => h.2)
  intro hkc
  have hm' : (if m.created = 0 then (⟨m.kid, k.created⟩ : KeyMeta) else m) = m0 := by
    split
    · rw [hkc, ← hkid]
    · rename_i hz; exact (hm0 hz).symm
  apply CSpec.pre (P := fun w => GoodKeyAt w m0 e.obj) (fun w _ h => h.1)
  apply CSpec.bind_frame (getCache_spec c) (fun _ _ _ => trivial) (Stable.goodKeyAt _ _)
  intro kc
  dsimp only
  rw [hm']
  have tail : CSpec a F (fun w => GoodKeyAt w m0 e.obj) (do
      let kc ← getCache c
      let existing := match kc.mode with
        | .never => none
        | _ => assocGet kc.ents m0
      let _ ← cacheGet c m0
      match existing with
      | some old => if old.obj ≠ e.obj then keyRelease old.obj
      | none => pure ()
      cacheSet c m0 e) (fun _ _ => True) := by
    apply CSpec.bind_frame (getCache_spec c) (fun _ _ _ => trivial) (Stable.goodKeyAt _ _)
    intro kc2
    apply CSpec.pre (P := fun w => GoodKeyAt w m0 e.obj) (fun w _ h => h.1)
    apply CSpec.bind_frame (cacheGet_spec c m0) (fun _ _ _ => trivial) (Stable.goodKeyAt _ _)
    intro _
    apply CSpec.pre (P := fun w => GoodKeyAt w m0 e.obj) (fun w _ h => h.1)
    split
    · split
      · apply CSpec.bind_frame (keyRelease_cspec _) (fun _ _ _ => trivial) (Stable.goodKeyAt _ _)
        intro _
        exact (cacheSet_spec c m0 e).pre fun w _ h => h.1
      · exact cacheSet_spec c m0 e
    · exact cacheSet_spec c m0 e
  apply CSpec.ite <;> intro _
  · apply CSpec.bind_frame (setCache_spec c _) _ (by stable_auto)
    · intro _
      exact tail.pre fun w _ h => h.1.1
    · intro w _ hg
      refine ⟨hg.2.ents, fun kid m' h => ?_⟩
      rcases mem_assocSet_coh h with h | h
      · exact hg.2.latest _ _ h
      · cases h; exact hkid
  · exact tail.pre fun w _ h => h.1

theorem revokedSet_spec {a : Nat} {F : Prop} {P : World → Prop} (o : Nat) (r : Bool) :
    CSpec a F P (modify fun w => { w with keys := setAt w.keys o fun x => { x with revoked := r } }) (fun _ _ => True) :=
  CSpec.of_still_ok (revokedSet_ext o r) (keysSet_still _) (Total.modify _)

/-- the tail shared by the "new entry" branches of `cacheLoad`. -/
theorem cacheLoad_fresh {a : Nat} {F : Prop} (c : Nat) (m : KeyMeta) (k : Nat) :
    CSpec a F (fun w => GoodFor m k w) (do
      let w ← get
      keyWrap k
      cacheWrite c m { loadedAt := w.now, obj := k }
      pure k) (GoodFor m) := by
  apply CSpec.bind_frame CSpec.get (fun _ _ _ => trivial) (Stable.goodFor _ _)
  intro w0
  apply CSpec.pre (P := fun w => GoodFor m k w) (fun w _ h => h.1)
  apply CSpec.bind_frame (keyWrap_cspec k) (fun _ _ _ => trivial) (Stable.goodFor _ _)
  intro _
  apply CSpec.pre (P := fun w => GoodFor m k w) (fun w _ h => h.1)
  apply CSpec.bind_frame (cacheWrite_cspec c m { loadedAt := w0.now, obj := k }) (fun _ _ h => h) (Stable.goodFor _ _)
  intro _
  exact CSpec.pure _ fun w _ h => h.1

theorem cacheLoad_cspec {a : Nat} {F : Prop} {LP : World → Prop} (c : Nat) (m : KeyMeta) (loader : KeyMeta → M Nat)
    (hle : ∀ m, Extends (loader m))
    (hl : CSpec a F LP (loader m) (GoodFor m)) :
    CSpec a F LP (cacheLoad c m loader) (GoodFor m) := by
  unfold cacheLoad
  apply CSpec.bind hl
  intro k
  apply CSpec.bind_frame (keyObj_spec' k) (fun _ _ _ => trivial) (Stable.goodFor _ _)
  intro ko
  apply CSpec.pre (P := fun w => GoodFor m k w) (fun w _ h => h.1)
  apply CSpec.bind_frame (cacheRead_spec c m) (fun _ _ _ => trivial) (Stable.goodFor _ _)
  intro eo
  split
  · rename_i e
    apply CSpec.pre (P := fun w => GoodFor m k w ∧ GoodFor m e.obj w) (fun w _ h => ⟨h.1, h.2 e rfl⟩)
    apply CSpec.bind_frame (keyObj_spec' e.obj) (fun _ _ _ => trivial) (by stable_auto)
    intro eko
    apply CSpec.ite <;> intro _
    · apply CSpec.pre (P := fun w => GoodFor m e.obj w) (fun w _ h => h.1.2)
      apply CSpec.bind_frame (revokedSet_spec _ _) (fun _ _ _ => trivial) (Stable.goodFor _ _)
      intro _
      apply CSpec.pre (P := fun w => GoodFor m e.obj w) (fun w _ h => h.1)
      apply CSpec.bind_frame CSpec.get (fun _ _ _ => trivial) (Stable.goodFor _ _)
      intro w0
      apply CSpec.pre (P := fun w => GoodFor m e.obj w) (fun w _ h => h.1)
      apply CSpec.bind_frame (keyCloseRaw_cspec k) (fun _ _ _ => trivial) (Stable.goodFor _ _)
      intro _
      apply CSpec.pre (P := fun w => GoodFor m e.obj w) (fun w _ h => h.1)
      dsimp only
      apply CSpec.bind_frame (cacheWrite_cspec c m { loadedAt := w0.now, obj := e.obj }) (fun _ _ h => h) (Stable.goodFor _ _)
      intro _
      exact CSpec.pure _ fun w _ h => h.1
    · exact (cacheLoad_fresh c m k).pre fun w _ h => h.1.1
  · exact (cacheLoad_fresh c m k).pre fun w _ h => h.1

theorem getOrLoad_cspec {a : Nat} {F : Prop} {LP : World → Prop} (c : Nat) (m : KeyMeta) (i : Int)
    (loader : KeyMeta → M Nat) (hle : ∀ m, Extends (loader m)) (hS : Stable LP)
    (hl : CSpec a F LP (loader m) (GoodFor m)) :
    CSpec a F LP (getOrLoad c m i loader) (GoodFor m) := by
  have tail : CSpec a F LP (do
      let k ← cacheLoad c m loader
      keyIncr k
      pure k) (GoodFor m) := by
    apply CSpec.bind (cacheLoad_cspec c m loader hle hl)
    intro k
    apply CSpec.bind_frame (keyIncr_cspec k) (fun _ _ _ => trivial) (Stable.goodFor _ _)
    intro _
    exact CSpec.pure _ fun w _ h => h.1
  have hit : ∀ k, CSpec a F (fun w => GoodFor m k w) (do keyIncr k; pure k) (GoodFor m) := by
    intro k
    apply CSpec.bind_frame (keyIncr_cspec k) (fun _ _ _ => trivial) (Stable.goodFor _ _)
    intro _
    exact CSpec.pure _ fun w _ h => h.1
  unfold getOrLoad
  apply CSpec.bind_frame (getCache_spec c) (fun _ _ _ => trivial) hS
  intro kc
  apply CSpec.pre (P := LP) (fun w _ h => h.1)
  split
  · apply CSpec.bind hl
    intro k
    apply CSpec.bind_frame (keyWrap_cspec k) (fun _ _ _ => trivial) (Stable.goodFor _ _)
    intro _
    exact CSpec.pure _ fun w _ h => h.1
  · apply CSpec.bind_frame (getFresh_cspec c m i) (fun _ _ _ => trivial) hS
    intro r1
    split
    · rename_i k
      exact (hit k).pre fun w _ h => h.2 k rfl
    · apply CSpec.pre (P := LP) (fun w _ h => h.1)
      apply CSpec.bind_frame (getFresh_cspec c m i) (fun _ _ _ => trivial) hS
      intro r2
      split
      · rename_i k
        exact (hit k).pre fun w _ h => h.2 k rfl
      · exact tail.pre fun w _ h => h.1

theorem getOrLoadLatest_cspec {a : Nat} {F : Prop} {LP : World → Prop} (c : Nat) (kid : KeyId) (i e : Int)
    (loader : KeyMeta → M Nat) (hle : ∀ m, Extends (loader m)) (hS : Stable LP)
    (hl : CSpec a F LP (loader ⟨kid, 0⟩) (GoodFor ⟨kid, 0⟩)) :
    CSpec a F LP (getOrLoadLatest c kid i e loader) (GoodFor ⟨kid, 0⟩) := by
  unfold getOrLoadLatest
  apply CSpec.bind_frame (getCache_spec c) (fun _ _ _ => trivial) hS
  intro kc
  apply CSpec.pre (P := LP) (fun w _ h => h.1)
  split
  · apply CSpec.bind hl
    intro k
    apply CSpec.bind_frame (keyWrap_cspec k) (fun _ _ _ => trivial) (Stable.goodFor _ _)
    intro _
    exact CSpec.pure _ fun w _ h => h.1
  · have rest : ∀ key, CSpec a F (fun w => LP w ∧ GoodFor ⟨kid, 0⟩ key w) (do
        let ko ← keyObj key
        let w ← get
        if isKeyInvalid ko w.now e then
          let reloaded ← loader ⟨kid, 0⟩
          let ro ← keyObj reloaded
          let w ← get
          keyWrap reloaded
          cacheWrite c ⟨kid, ro.created⟩ { loadedAt := w.now, obj := reloaded }
          keyIncr reloaded
          pure reloaded
        else
          keyIncr key
          pure key) (GoodFor ⟨kid, 0⟩) := by
      intro key
      apply CSpec.bind_frame (keyObj_spec' key) (fun _ _ _ => trivial) (by stable_auto)
      intro ko
      apply CSpec.pre (P := fun w => LP w ∧ GoodFor ⟨kid, 0⟩ key w) (fun w _ h => h.1)
      apply CSpec.bind_frame CSpec.get (fun _ _ _ => trivial) (by stable_auto)
      intro w0
      apply CSpec.ite <;> intro _
      · apply CSpec.pre (P := LP) (fun w _ h => h.1.1)
        apply CSpec.bind hl
        intro rk
        apply CSpec.exists_pre (by ext_auto [keyObj_ext, keyWrap_ext, cacheWrite_ext, keyIncr_ext])
        intro m0
        apply CSpec.of_pre (C := m0.kid = kid) (by ext_auto [keyObj_ext, keyWrap_ext, cacheWrite_ext, keyIncr_ext]) (fun w _ h => h.1)
        intro hkid
        apply CSpec.pre (P := fun w => GoodKeyAt w m0 rk) (fun w _ h => h.2.2)
        apply CSpec.bind_frame (keyObj_created_spec rk m0.created fun w _ h => h.keyIs') (fun _ _ h => h) (Stable.goodKeyAt _ _)
        intro ro
        apply CSpec.of_pre (C := ro.created = m0.created) (by ext_auto [keyWrap_ext, cacheWrite_ext, keyIncr_ext]) (fun w _ h => h.2)
        intro hrc
        have hgf : ∀ w, GoodKeyAt w m0 rk → GoodFor ⟨kid, ro.created⟩ rk w := fun w h =>
          ⟨m0, hkid, fun _ => by cases m0; simp only at hkid hrc; rw [hkid, hrc], h⟩
        have hgf0 : ∀ w, GoodKeyAt w m0 rk → GoodFor ⟨kid, 0⟩ rk w := fun w h =>
          ⟨m0, hkid, fun hz => absurd rfl hz, h⟩
        apply CSpec.pre (P := fun w => GoodKeyAt w m0 rk) (fun w _ h => h.1)
        apply CSpec.bind_frame CSpec.get (fun _ _ _ => trivial) (Stable.goodKeyAt _ _)
        intro w1
        apply CSpec.pre (P := fun w => GoodKeyAt w m0 rk) (fun w _ h => h.1)
        apply CSpec.bind_frame (keyWrap_cspec rk) (fun _ _ _ => trivial) (Stable.goodKeyAt _ _)
        intro _
        apply CSpec.pre (P := fun w => GoodKeyAt w m0 rk) (fun w _ h => h.1)
        apply CSpec.bind_frame (cacheWrite_cspec c ⟨kid, ro.created⟩ { loadedAt := w1.now, obj := rk }) (fun w _ h => hgf w h) (Stable.goodKeyAt _ _)
        intro _
        apply CSpec.pre (P := fun w => GoodKeyAt w m0 rk) (fun w _ h => h.1)
        apply CSpec.bind_frame (keyIncr_cspec rk) (fun _ _ _ => trivial) (Stable.goodKeyAt _ _)
        intro _
        exact CSpec.pure _ fun w _ h => hgf0 w h.1
      · apply CSpec.pre (P := fun w => GoodFor ⟨kid, 0⟩ key w) (fun w _ h => h.1.2)
        apply CSpec.bind_frame (keyIncr_cspec key) (fun _ _ _ => trivial) (Stable.goodFor _ _)
        intro _
        exact CSpec.pure _ fun w _ h => h.1
    dsimp only
    apply CSpec.bind_frame (getFresh_cspec c ⟨kid, 0⟩ i) (fun _ _ _ => trivial) hS
    intro r1
    split
    · rename_i k
      apply CSpec.bind_frame (G1 := fun key w => GoodFor ⟨kid, 0⟩ key w) (P' := fun w => GoodFor ⟨kid, 0⟩ k w)
        (CSpec.pure k fun w _ h => h) (fun w _ h => h.2 k rfl) (by stable_auto)
      intro key
      exact (rest key).pre fun w _ h => ⟨h.1.1, h.2⟩
    · apply CSpec.pre (P := LP) (fun w _ h => h.1)
      apply CSpec.bind_frame (cacheLoad_cspec c ⟨kid, 0⟩ loader hle hl) (fun _ _ h => h) hS
      intro key
      exact rest key

theorem cacheClose_cspec {a : Nat} {F : Prop} {P : World → Prop} (c : Nat) :
    CSpec a F P (cacheClose c) (fun _ _ => True) := by
  unfold cacheClose
  apply CSpec.bind (getCache_spec c)
  intro kc
  split
  · exact CSpec.pure _ fun _ _ _ => trivial
  · exact (releaseAll_cspec _).pre fun _ _ _ => trivial
  · dsimp only
    apply CSpec.bind_frame (setCache_spec c _) _ (by stable_auto)
    · intro _; exact (releaseAll_cspec _).pre fun _ _ _ => trivial
    · intro w _ hg
      exact ⟨fun m e h => (by cases h), hg.latest⟩

end AsherahVerif.Env
