import AsherahVerif.Proofs.EnvTimeWF
import AsherahVerif.Proofs.EnvResWf
/-
C20 on bounded caches ("working set fits").

* E2 cache model: a `Set` of a key the cache already holds, or into a cache whose size is below its
  capacity, evicts nothing — every eviction policy, every oracle (`no_eviction_while_fits`).
* key_cache.go over that model: a bounded key cache whose slot table (= the distinct keys ever put
  into it) has room left keeps every entry across a `Set` (`cacheSet_keeps_while_fits`).
* the cache-hit path of `EncryptPayload` for every cache mode, from "the model's cache lookup of the
  partition's latest key succeeds" (`encrypt_hit_silent_of_lookup`); in a quiescent reachable world
  (`QInv`: the policy and the entry table of an open bounded cache agree) an entry that has not been
  evicted is found by that lookup (`lookup_of_bok`).
-/
set_option linter.unusedVariables false

namespace AsherahVerif.Cache

/-- **no eviction while the working set fits.** A `Set` of a key the cache already holds, or of a new
key into a cache whose size is below its capacity, fires no eviction callback, for every eviction
policy (LRU, LFU, SLRU, TinyLFU) and every oracle; it returns normally and every key stays. -/
theorem no_eviction_while_fits (c : Cache) (k v : Nat) (orc : Nat → Bool)
    (hfit : k ∈ keysOf c.items ∨ c.items.length < c.cap) :
    (step c (.set k v) orc).cbs = [] ∧ (step c (.set k v) orc).res = .unit ∧
    (∀ j, j ∈ keysOf c.items → j ∈ keysOf (step c (.set k v) orc).cache.items) ∧
    (c.closing = false → k ∈ keysOf (step c (.set k v) orc).cache.items) := by
  by_cases hc : c.closing = true
  · simp [step, hc]
  · have hc' : c.closing = false := by simpa using hc
    cases hl : lookup c.items k with
    | some it0 =>
      have hk : k ∈ keysOf c.items := by
        have := lookup_some hl
        rw [← this.2]; exact List.mem_map.2 ⟨it0, this.1, rfl⟩
      have ho : step c (.set k v) orc =
          { cache := { c with items := setVal c.items k v (expireAt c), pol := c.pol.access k }, res := .unit } := by
        simp [step, hc', hl]
      rw [ho]
      refine ⟨rfl, rfl, fun j hj => ?_, fun _ => ?_⟩
      · show j ∈ keysOf (setVal c.items k v (expireAt c)); rw [keysOf_setVal]; exact hj
      · show k ∈ keysOf (setVal c.items k v (expireAt c)); rw [keysOf_setVal]; exact hk
    | none =>
      have hk := lookup_none.mp hl
      have hlt : c.items.length < c.cap := by
        rcases hfit with h | h
        · exact absurd h hk
        · exact h
      have hfull : ¬ c.items.length = c.cap := by omega
      have ho : step c (.set k v) orc =
          { cache := { c with items := c.items ++ [⟨k, v, expireAt c⟩], pol := c.pol.admit k }, res := .unit } := by
        simp [step, hc', hl, hfull]
      rw [ho]
      refine ⟨rfl, rfl, fun j hj => ?_, fun _ => ?_⟩
      · show j ∈ keysOf (c.items ++ [⟨k, v, expireAt c⟩])
        simp only [keysOf, List.map_append, List.mem_append]; exact Or.inl hj
      · show k ∈ keysOf (c.items ++ [⟨k, v, expireAt c⟩])
        simp [keysOf]

/-- a duplicate-free list of numbers below `n` has at most `n` elements. -/
theorem nodup_lt_length (l : List Nat) (n : Nat) (hn : l.Nodup) (hlt : ∀ x ∈ l, x < n) : l.length ≤ n := by
  induction n generalizing l with
  | zero =>
    cases l with
    | nil => exact Nat.le_refl _
    | cons a t => exact absurd (hlt a List.mem_cons_self) (Nat.not_lt_zero _)
  | succ n ih =>
    have h1 : (l.erase n).Nodup := hn.erase n
    have h2 : ∀ x ∈ l.erase n, x < n := by
      intro x hx
      have hxl : x ∈ l := List.mem_of_mem_erase hx
      have hne : x ≠ n := by
        intro e; subst e
        exact (List.Nodup.not_mem_erase hn) hx
      have := hlt x hxl
      omega
    have h3 := ih (l.erase n) h1 h2
    have h4 : l.length ≤ (l.erase n).length + 1 := by
      by_cases hm : n ∈ l
      · rw [List.length_erase_of_mem hm]
        have : 0 < l.length := List.length_pos_of_mem hm
        omega
      · rw [List.erase_of_not_mem hm]; omega
    omega

end AsherahVerif.Cache

namespace AsherahVerif.Env.TimeF
open AsherahVerif.Env

/-! ### the model's cache lookup as a pure function -/

/-- what `c.keys.Get(id)` returns (for a bounded cache: the slot exists, the policy reports a hit). -/
def lookupOf (kc : KeyCache) (m : KeyMeta) : Option CEntry :=
  match kc.mode with
  | .never => none
  | .simple => assocGet kc.ents m
  | .bounded =>
    match slotOf kc m with
    | none => none
    | some s =>
      match (Cache.step kc.pol (.get s) (fun _ => false)).res with
      | .val _ => assocGet kc.ents m
      | _ => none

theorem cacheGet_res (c : Nat) (m : KeyMeta) (w : World) : (cacheGet c m w).1 = .ok (lookupOf (cacheAt w c) m) := by
  unfold cacheGet lookupOf
  simp only [bind_run, getCache_run]
  cases hmode : (cacheAt w c).mode with
  | never => rfl
  | simple => rfl
  | bounded =>
    simp only []
    cases hs : slotOf (cacheAt w c) m with
    | none => rfl
    | some s =>
      simp only [setCache_bind_run]
      cases (Cache.step (cacheAt w c).pol (Cache.Op.get s) fun x => false).res <;> rfl

theorem cacheRead_res (c : Nat) (m : KeyMeta) (w : World) :
    (cacheRead c m w).1 = .ok (lookupOf (cacheAt w c) (readMeta w c m)) := by
  unfold cacheRead
  simp only [bind_run, getCache_run]
  exact cacheGet_res c (readMeta w c m) w

/-- the model's cache lookup of `m` (through the "latest" alias when `m.created = 0`) succeeds with `e`. -/
def Looks (w : World) (c : Nat) (m : KeyMeta) (e : CEntry) : Prop :=
  lookupOf (cacheAt w c) (readMeta w c m) = some e

instance (w : World) (c : Nat) (m : KeyMeta) (e : CEntry) : Decidable (Looks w c m e) :=
  inferInstanceAs (Decidable (lookupOf (cacheAt w c) (readMeta w c m) = some e))

theorem looks_iff (w : World) (c : Nat) (m : KeyMeta) (e : CEntry) :
    Looks w c m e ↔ (cacheRead c m w).1 = .ok (some e) := by
  unfold Looks; rw [cacheRead_res]
  constructor
  · intro h; rw [h]
  · intro h; exact Except.ok.inj h

theorem Looks.entry {w : World} {c : Nat} {m : KeyMeta} {e : CEntry} (h : Looks w c m e) :
    Env.readEntry w c m = some e := by
  obtain ⟨-, o, ho, h1, -⟩ := cacheRead_spec c m w
  rw [(looks_iff w c m e).mp h] at ho
  cases ho
  exact h1 e rfl

theorem Looks.of_simple {w : World} {c : Nat} {m : KeyMeta} {e : CEntry} (hm : modeOf w c = .simple)
    (h : readEntry w c m = some e) : Looks w c m e := by
  unfold Looks lookupOf
  have : (cacheAt w c).mode = .simple := hm
  rw [this]
  exact h

/-- the lookup only reads the key caches. -/
theorem Looks.congr {w w' : World} {c : Nat} {m : KeyMeta} {e : CEntry} (h : Looks w c m e)
    (hc : w'.caches = w.caches) : Looks w' c m e := by
  unfold Looks readMeta latestOf cacheAt at *
  rw [hc]; exact h

/-! ### the cache-hit path for every cache mode -/

theorem getFresh_hit_of_lookup (c : Nat) (m : KeyMeta) (i : Int) (w : World) (e : CEntry)
    (hl : Looks w c m e) (hfr : isReloadRequired e (keyAt w e.obj) w.now i = false) :
    Wp (getFresh c m i) w fun r w' => r = .ok (some e.obj, true) ∧ SV w w' := by
  have hsv := (cacheRead_spec c m w).1
  have hres := (looks_iff w c m e).mp hl
  unfold Wp getFresh
  simp only [bind_run]
  cases hx : cacheRead c m w with
  | mk r1 w1 =>
    rw [hx] at hres hsv
    simp only at hres hsv
    subst hres
    simp only [keyObj_run, get_run, bind_run]
    rw [hsv.keyAt, hsv.now, hfr]
    exact ⟨rfl, hsv⟩

/-- `GetOrLoadLatest` with a fresh, valid latest entry that the cache's lookup finds: no loader call —
for a map-backed and for a bounded cache alike. -/
theorem getOrLoadLatest_hit_of_lookup (c : Nat) (kid : KeyId) (i ea : Int) (loader : KeyMeta → M Nat) (w : World) (e : CEntry)
    (hl : Looks w c ⟨kid, 0⟩ e) (hfr : isReloadRequired e (keyAt w e.obj) w.now i = false)
    (hv : isKeyInvalid (keyAt w e.obj) w.now ea = false) :
    Wp (getOrLoadLatest c kid i ea loader) w fun r w' => r = .ok e.obj ∧ HW w w' := by
  have hmode : (cacheAt w c).mode ≠ .never := by
    intro hn
    unfold Looks lookupOf at hl
    rw [hn] at hl; cases hl
  have cached : Wp (do
        let m : KeyMeta := ⟨kid, 0⟩
        let key ← match ← getFresh c m i with
          | (some k, true) => pure k
          | _ => cacheLoad c m loader
        let ko ← keyObj key
        let w ← get
        if isKeyInvalid ko w.now ea then
          let reloaded ← loader m
          let ro ← keyObj reloaded
          let w ← get
          keyWrap reloaded
          cacheWrite c ⟨kid, ro.created⟩ { loadedAt := w.now, obj := reloaded }
          keyIncr reloaded
          pure reloaded
        else
          keyIncr key
          pure key) w fun r w' => r = .ok e.obj ∧ HW w w' := by
    apply Wp.bind
    apply Wp.mono (getFresh_hit_of_lookup c ⟨kid, 0⟩ i w e hl hfr)
    intro r w1 ⟨hr, hsv⟩
    subst hr
    simp only []
    apply Wp.bind; apply Wp.pure; simp only []
    apply Wp.bind; apply Wp.keyObj; simp only []
    apply Wp.bind; apply Wp.get; simp only []
    rw [hsv.keyAt, hsv.now, hv]
    simp only [Bool.false_eq_true, if_false]
    refine Wp.bind_unit rfl ?_
    exact ⟨rfl, RT.trans (HW.of_sv hsv) (keyIncr_hw e.obj w1)⟩
  unfold getOrLoadLatest
  apply Wp.bind; apply Wp.getCache; simp only []
  cases hm : (cacheAt w c).mode with
  | never => exact absurd hm hmode
  | simple => exact cached
  | bounded => exact cached

/-- an encrypt served by a fresh, valid entry that the cache's lookup finds makes no metastore and no
KMS call, leaves the metastore alone and names that entry's key — every cache mode. -/
theorem encrypt_hit_silent_of_lookup {ρ : RevCtx} {w : World} (hi : Inv ρ w) (s pay : Nat) (b : Bool) (e : CEntry)
    (hl : Looks w (sessionCtx w s).ikCache ⟨(sessionCtx w s).ikId, 0⟩ e)
    (hfr : isReloadRequired e (keyAt w e.obj) w.now (sessionCtx w s).pol.revokeInterval = false)
    (hv : isKeyInvalid (keyAt w e.obj) w.now (sessionCtx w s).pol.expireAfter = false) :
    Wp (encrypt s pay [] b) w fun r w' => Silent w' ∧ w'.store = w.store ∧
      ∀ d : Drr, r = .ok d → drrIk d = some ⟨(sessionCtx w s).ikId, (keyAt w e.obj).created⟩ := by
  unfold encrypt
  refine Wp.bind_unit rfl ?_
  apply Wp.bind; apply Wp.get; simp only []
  have hx : sessionCtx (beginOp [] w).2 s = sessionCtx w s := rfl
  rw [hx]
  unfold encryptPayload
  apply Wp.bind
  have hl' : Looks (beginOp [] w).2 (sessionCtx w s).ikCache ⟨(sessionCtx w s).ikId, 0⟩ e := hl.congr rfl
  apply Wp.mono (getOrLoadLatest_hit_of_lookup (sessionCtx w s).ikCache (sessionCtx w s).ikId (sessionCtx w s).pol.revokeInterval
    (sessionCtx w s).pol.expireAfter _ (beginOp [] w).2 e hl' hfr hv)
  intro r w1 ⟨hr, hw⟩
  subst hr
  simp only []
  have hh : Hit (beginOp [] w).2 (sessionCtx w s).ikCache ⟨(sessionCtx w s).ikId, 0⟩ (sessionCtx w s).pol.revokeInterval e.obj :=
    ⟨e, hl'.entry, rfl, hfr⟩
  obtain ⟨-, -, ko, hko, hc, -⟩ := hit_out (St.beginOp hi) hh hw.cw
  apply Wp.mono (encTail_wp (sessionCtx w s) pay e.obj w1 ko hko)
  intro r w2 ⟨hq, hd⟩
  refine ⟨?_, ?_, fun d hr => ?_⟩
  · exact hq.il.silent (fun c hc => by rw [hw.log] at hc; cases hc)
  · rw [hq.qes.store, hw.cw.store]; rfl
  · rw [hd d hr]
    have : (keyAt (beginOp [] w).2 e.obj).created = (keyAt w e.obj).created := rfl
    rw [← this, hc]

/-! ### bounded caches: an entry that was not evicted is found -/

/-- when the policy and the entry table of a bounded cache agree (`BOK`, part of the quiescent
invariant of every open cache), the model's lookup finds every entry of the table: entries leave the
table only by eviction. -/
theorem lookup_of_bok {kc : KeyCache} (hb : Res.BOK kc) (hm : kc.mode = .bounded) {m : KeyMeta} {e : CEntry}
    (he : assocGet kc.ents m = some e) : lookupOf kc m = some e := by
  unfold lookupOf
  rw [hm]
  simp only []
  have hmem : m ∈ kc.ents.map (·.1) := List.mem_map.2 ⟨(m, e), assocGet_mem he, rfl⟩
  obtain ⟨s, hs, hsk⟩ := (hb.keys m).mp hmem
  rw [(Res.slotOf_some_iff hb.slots m s).mpr hs]
  simp only []
  obtain ⟨it, hit⟩ := Cache.lookup_isSome hsk
  have hne : ¬ (kc.pol.expiry > 0 ∧ it.exp < kc.pol.now) := by
    rw [hb.noexp]; intro h'; exact absurd h'.1 (by decide)
  have : (Cache.step kc.pol (.get s) fun _ => false).res = .val it.val := by
    simp [Cache.step, hb.live, hit, hne]
  rw [this]
  exact he

/-- in a quiescent world the cache of an open session finds every entry of its table. -/
theorem looks_of_qinv {w : World} (hq : Res.QInv w) {s : Nat} (ho : sessionOpen w s) {m : KeyMeta} {e : CEntry}
    (he : readEntry w (sessionCtx w s).ikCache m = some e) : Looks w (sessionCtx w s).ikCache m e := by
  have hlive := (hq.1.ctx_live ho).2
  generalize (sessionCtx w s).ikCache = c at he hlive ⊢
  have hlt : c < w.caches.length := by
    apply Classical.byContradiction
    intro hc
    have : cacheAt w c = default := by
      unfold cacheAt
      rw [List.getD_eq_getElem?_getD, List.getElem?_eq_none (by omega)]; rfl
    unfold readEntry entsOf at he
    rw [this] at he
    cases he
  have hkc : w.caches[c]? = some (cacheAt w c) := by
    unfold cacheAt
    rw [List.getD_eq_getElem?_getD, List.getElem?_eq_getElem hlt]; rfl
  have hok := hq.2.ents c _ hkc hlive
  unfold Looks
  have he' : assocGet (cacheAt w c).ents (readMeta w c m) = some e := he
  unfold lookupOf
  cases hmode : (cacheAt w c).mode with
  | never =>
    have := hok.nev hmode
    rw [this] at he'
    cases he'
  | simple => exact he'
  | bounded =>
    have := lookup_of_bok (hok.bnd hmode) hmode he'
    unfold lookupOf at this
    rw [hmode] at this
    exact this

/-! ### bounded caches: `Set` keeps every entry while the slot table has room -/

/-- the entry table after a `Set` that evicted nothing. -/
theorem ents_after_set (c : Nat) (kc' : KeyCache) (w : World) (hlt : c < w.caches.length) (m : KeyMeta) (e : CEntry)
    (hents : kc'.ents = assocSet (cacheAt w c).ents m e) :
    (∀ p ∈ entsOf w c, p.1 ≠ m → p ∈ entsOf (releaseAll [] (setCache c kc' w).2).2 c) ∧
    assocGet (entsOf (releaseAll [] (setCache c kc' w).2).2 c) m = some e := by
  have hv : entsOf (releaseAll [] (setCache c kc' w).2).2 c = assocSet (cacheAt w c).ents m e := by
    show entsOf (setCache c kc' w).2 c = _
    unfold entsOf; rw [cacheAt_setCache, if_pos ⟨rfl, hlt⟩]; exact hents
  rw [hv]
  refine ⟨fun p hp hne => ?_, assocGet_assocSet_same _ _ _⟩
  have hp' : p ∈ (cacheAt w c).ents := hp
  unfold assocSet
  split
  · refine List.mem_map.2 ⟨p, hp', ?_⟩
    rw [if_neg hne]
  · exact List.mem_append_left _ hp'

/-- **key_cache.go over the E2 model.** A `Set` on a bounded key cache whose policy and entry table
agree keeps every other entry — nothing is evicted — as long as the number of distinct keys ever put
into the cache (`slots`, counting the key being set) does not exceed the capacity. -/
theorem cacheSet_keeps_while_fits (c : Nat) (m : KeyMeta) (e : CEntry) (w : World)
    (hlt : c < w.caches.length) (hm : (cacheAt w c).mode = .bounded) (hb : Res.BOK (cacheAt w c))
    (hfit : (m ∈ (cacheAt w c).slots ∧ (cacheAt w c).slots.length ≤ (cacheAt w c).pol.cap) ∨
      (cacheAt w c).slots.length < (cacheAt w c).pol.cap) :
    (∀ p ∈ entsOf w c, p.1 ≠ m → p ∈ entsOf (cacheSet c m e w).2 c) ∧
    assocGet (entsOf (cacheSet c m e w).2 c) m = some e := by
  -- the policy's size is bounded by the slot table
  have hsize : (cacheAt w c).pol.items.length ≤ (cacheAt w c).slots.length := by
    have := Cache.nodup_lt_length (Cache.keysOf (cacheAt w c).pol.items) _ hb.inv.itemsNodup hb.valid
    simpa [Cache.keysOf] using this
  unfold cacheSet
  simp only [bind_run, getCache_run, hm]
  cases hs : slotOf (cacheAt w c) m with
  | some sl =>
    simp only []
    have hsl := (Res.slotOf_some_iff hb.slots m sl).mp hs
    have hfit1 : sl ∈ Cache.keysOf (cacheAt w c).pol.items ∨ (cacheAt w c).pol.items.length < (cacheAt w c).pol.cap := by
      by_cases hin : sl ∈ Cache.keysOf (cacheAt w c).pol.items
      · exact Or.inl hin
      · right
        -- the slot exists but is not in the policy: the policy holds fewer keys than there are slots
        have hlt' : sl < (cacheAt w c).slots.length := Res.getElem?_lt hsl
        have : (sl :: Cache.keysOf (cacheAt w c).pol.items).length ≤ (cacheAt w c).slots.length := by
          apply Cache.nodup_lt_length
          · exact List.nodup_cons.2 ⟨hin, hb.inv.itemsNodup⟩
          · intro x hx
            rcases List.mem_cons.1 hx with rfl | hx
            · exact hlt'
            · exact hb.valid x hx
        simp only [List.length_cons, Cache.keysOf, List.length_map] at this
        rcases hfit with ⟨-, hle⟩ | hroom <;> omega
    have hno := (Cache.no_eviction_while_fits (cacheAt w c).pol sl 0 (fun _ => false) hfit1).1
    simp only [hno, List.filterMap_nil, List.foldl_nil]
    exact ents_after_set c _ w hlt m e rfl
  | none =>
    simp only []
    have hnot := (Res.slotOf_none_iff m).mp hs
    have hfit1 : (cacheAt w c).slots.length ∈ Cache.keysOf (cacheAt w c).pol.items ∨
        (cacheAt w c).pol.items.length < (cacheAt w c).pol.cap := by
      right
      rcases hfit with ⟨hmem, -⟩ | hroom
      · exact absurd hmem hnot
      · omega
    have hno := (Cache.no_eviction_while_fits (cacheAt w c).pol (cacheAt w c).slots.length 0 (fun _ => false) hfit1).1
    simp only [hno, List.filterMap_nil, List.foldl_nil]
    exact ents_after_set c _ w hlt m e rfl

end AsherahVerif.Env.TimeF
