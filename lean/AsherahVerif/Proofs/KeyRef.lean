import AsherahVerif.Model.KeyRef
/-
C08 helper lemmas: the counting invariant of the key-cache reference protocol.
-/
namespace AsherahVerif.KeyRef

theorem updObj_length (objs : List Obj) (o : Nat) (f : Obj → Obj) : (updObj objs o f).length = objs.length := by
  simp [updObj]

/-- the object at an index (default for out-of-range indices); kept opaque to `simp`. -/
def objAt (objs : List Obj) (o : Nat) : Obj := objs.getD o default

theorem updObj_getD (objs : List Obj) (o i : Nat) (f : Obj → Obj) :
    objAt (updObj objs o f) i = if i = o ∧ i < objs.length then f (objAt objs i) else objAt objs i := by
  unfold updObj objAt
  simp only [List.getD_eq_getElem?_getD, List.getElem?_mapIdx]
  by_cases hi : i < objs.length
  · have : objs[i]? = some objs[i] := List.getElem?_eq_getElem hi
    by_cases hio : i = o
    · subst hio; simp [this, hi]
    · simp [this, hio]
  · have : objs[i]? = none := List.getElem?_eq_none (by omega)
    simp [this, hi]

theorem append_getD_lt (objs : List Obj) (x : Obj) (i : Nat) (h : i < objs.length) :
    objAt (objs ++ [x]) i = objAt objs i := by
  simp [objAt, List.getD_eq_getElem?_getD, List.getElem?_append_left h]

theorem append_getD_eq (objs : List Obj) (x : Obj) : objAt (objs ++ [x]) objs.length = x := by
  simp [objAt, List.getD_eq_getElem?_getD]

theorem objAt_ge (objs : List Obj) (i : Nat) (h : objs.length ≤ i) : objAt objs i = default := by
  simp [objAt, List.getD_eq_getElem?_getD, List.getElem?_eq_none h]

theorem default_obj : (default : Obj) = { refs := 0, destroyed := false } := rfl

/-- number of cache entries holding object `o`. -/
def inCache (c : List (Nat × Nat)) (o : Nat) : Nat := (c.map (·.2)).count o

theorem inCache_erase_le (c : List (Nat × Nat)) (k o : Nat) : inCache (erase c k) o ≤ inCache c o := by
  unfold inCache erase
  induction c with
  | nil => simp
  | cons a t ih =>
    simp only [List.filter_cons]
    split
    · simp only [List.map_cons, List.count_cons]; omega
    · simp only [List.map_cons, List.count_cons]; omega

theorem inCache_erase_found {c : List (Nat × Nat)} {k o : Nat} (h : lookup c k = some o) :
    inCache (erase c k) o + 1 ≤ inCache c o := by
  unfold inCache erase lookup at *
  induction c with
  | nil => simp at h
  | cons a t ih =>
    simp only [List.find?_cons] at h
    by_cases hak : a.1 = k
    · have hb : (a.1 == k) = true := by simpa using hak
      simp only [hb, Option.map_some] at h
      injection h with h
      have hne : (a.1 != k) = false := by simp [hak]
      simp only [List.filter_cons, hne, Bool.false_eq_true, if_false, List.map_cons, List.count_cons, h, beq_self_eq_true, if_true]
      have := inCache_erase_le t k o
      unfold inCache erase at this
      omega
    · have hb : (a.1 == k) = false := by simpa using hak
      simp only [hb] at h
      have hne : (a.1 != k) = true := by simp [hak]
      simp only [List.filter_cons, hne, if_true, List.map_cons, List.count_cons]
      have := ih h
      omega

theorem lookup_inCache_pos {c : List (Nat × Nat)} {k o : Nat} (h : lookup c k = some o) : 1 ≤ inCache c o := by
  have := inCache_erase_found h; omega

theorem inCache_append (c : List (Nat × Nat)) (k o x : Nat) :
    inCache (c ++ [(k, o)]) x = inCache c x + (if o = x then 1 else 0) := by
  unfold inCache
  simp only [List.map_append, List.map_cons, List.map_nil, List.count_append, List.count_cons, List.count_nil]
  by_cases h : o = x <;> simp [h]

/-- references accounted for: the cache's, the event goroutine's, the holders'. -/
def cnt (s : St) (o : Nat) : Nat := inCache s.cache o + s.pending.count o + s.holders.count o

structure Inv (s : St) : Prop where
  looked : s.looked = []
  count : ∀ o, (cnt s o : Int) ≤ (objAt s.objs o).refs
  range : ∀ o, 0 < cnt s o → o < s.objs.length
  dead : ∀ o, (objAt s.objs o).destroyed = true → (objAt s.objs o).refs ≤ 0
  ok : s.failed = false

theorem inv_init : Inv init := by
  refine ⟨rfl, ?_, ?_, ?_, rfl⟩
  · intro o; simp [cnt, inCache, init, objAt]; decide
  · intro o h; simp [cnt, inCache, init] at h
  · intro o h; simp [init, objAt] at h; exact absurd h (by decide)

end AsherahVerif.KeyRef

namespace AsherahVerif.KeyRef

theorem decr_getD (objs : List Obj) (o i : Nat) :
    objAt (decr objs o) i =
      if i = o ∧ i < objs.length then
        { refs := (objAt objs i).refs - 1,
          destroyed := (objAt objs i).destroyed || decide ((objAt objs i).refs - 1 ≤ 0) }
      else objAt objs i := by
  unfold decr; rw [updObj_getD]

theorem incrO_getD (objs : List Obj) (o i : Nat) :
    objAt (incrO objs o) i =
      if i = o ∧ i < objs.length then { (objAt objs i) with refs := (objAt objs i).refs + 1 }
      else objAt objs i := by
  unfold incrO; rw [updObj_getD]

theorem decr_length (objs : List Obj) (o : Nat) : (decr objs o).length = objs.length := by
  unfold decr; exact updObj_length _ _ _
theorem incrO_length (objs : List Obj) (o : Nat) : (incrO objs o).length = objs.length := by
  unfold incrO; exact updObj_length _ _ _

/-- facts about one object after `incrO objs o`. -/
theorem incrO_refs (objs : List Obj) (o x : Nat) (ho : o < objs.length) :
    (objAt (incrO objs o) x).refs = (objAt objs x).refs + (if x = o then 1 else 0) ∧
    (objAt (incrO objs o) x).destroyed = (objAt objs x).destroyed := by
  rw [incrO_getD]
  by_cases hx : x = o
  · subst hx; simp [ho]
  · simp [hx]

theorem decr_refs (objs : List Obj) (o x : Nat) (ho : o < objs.length) :
    (objAt (decr objs o) x).refs = (objAt objs x).refs - (if x = o then 1 else 0) ∧
    ((objAt (decr objs o) x).destroyed = true →
      (objAt objs x).destroyed = true ∨ (x = o ∧ (objAt objs x).refs - 1 ≤ 0)) := by
  rw [decr_getD]
  by_cases hx : x = o
  · subst hx
    have hc : (x = x ∧ x < objs.length) := ⟨rfl, ho⟩
    rw [if_pos hc]
    refine ⟨by simp, ?_⟩
    intro h
    simp only [Bool.or_eq_true, decide_eq_true_eq] at h
    exact h.elim Or.inl fun h => Or.inr ⟨rfl, h⟩
  · have hc : ¬ (x = o ∧ x < objs.length) := fun h => hx h.1
    rw [if_neg hc]
    exact ⟨by simp [hx], Or.inl⟩

/-- raising the count of one in-range object by one while crediting it one reference. -/
theorem inv_acquire (s : St) (o : Nat) (h : Inv s) (hpos : 0 < cnt s o) :
    Inv { s with objs := incrO s.objs o, holders := o :: s.holders } := by
  have hr := h.range o hpos
  refine ⟨h.looked, ?_, ?_, ?_, h.ok⟩
  · intro x
    have hc := h.count x
    have ⟨hrf, _⟩ := incrO_refs s.objs o x hr
    simp only [cnt, List.count_cons] at hc ⊢
    rw [hrf]
    by_cases hx : x = o
    · subst hx; simp; omega
    · have : ¬ (o = x) := fun e => hx e.symm
      simp [hx, this]; omega
  · intro x hx
    rw [incrO_length]
    by_cases hxo : x = o
    · subst hxo; exact hr
    · apply h.range
      simp only [cnt, List.count_cons] at hx ⊢
      have : ¬ (o = x) := fun e => hxo e.symm
      simp [this] at hx; exact hx
  · intro x hx
    have ⟨hrf, hds⟩ := incrO_refs s.objs o x hr
    rw [hds] at hx; rw [hrf]
    have hd := h.dead x hx
    by_cases hxo : x = o
    · have hc := h.count x
      rw [hxo] at hc hd
      rw [hxo]
      simp only [if_true]
      omega
    · simp [hxo]; exact hd

/-- dropping one accounted reference of `o` (from holders, pending or the cache) and decrementing. -/
theorem inv_drop (s : St) (o : Nat) (cache' : List (Nat × Nat)) (pending' holders' : List Nat) (h : Inv s)
    (hpos : 0 < cnt s o)
    (hle : ∀ x, inCache cache' x + pending'.count x + holders'.count x + (if x = o then 1 else 0) ≤ cnt s x) :
    Inv { s with objs := decr s.objs o, cache := cache', pending := pending', holders := holders' } := by
  have hr := h.range o hpos
  refine ⟨h.looked, ?_, ?_, ?_, h.ok⟩
  · intro x
    have hc := h.count x
    have ⟨hrf, _⟩ := decr_refs s.objs o x hr
    have hl := hle x
    simp only [cnt] at hc hl ⊢
    rw [hrf]
    by_cases hx : x = o
    · subst hx; simp only [if_true] at hl ⊢; omega
    · simp only [hx, if_false] at hl ⊢; omega
  · intro x hx
    rw [decr_length]
    apply h.range
    have hl := hle x
    simp only [cnt] at hx hl ⊢
    omega
  · intro x hx
    have ⟨hrf, hds⟩ := decr_refs s.objs o x hr
    rw [hrf]
    rcases hds hx with hd | ⟨e, hd⟩
    · have hdd := h.dead x hd
      by_cases hxo : x = o
      · rw [hxo] at hdd ⊢; simp only [if_true]; omega
      · simp only [hxo, if_false]; omega
    · rw [e] at hd ⊢; simp only [if_true]; omega

/-- re-arranging accounted references without creating any. -/
theorem inv_recount (s : St) (cache' : List (Nat × Nat)) (pending' holders' : List Nat) (h : Inv s)
    (hle : ∀ x, inCache cache' x + pending'.count x + holders'.count x ≤ cnt s x) :
    Inv { s with cache := cache', pending := pending', holders := holders' } := by
  refine ⟨h.looked, ?_, ?_, h.dead, h.ok⟩
  · intro x
    have hc := h.count x
    have hl := hle x
    simp only [cnt] at hc hl ⊢
    omega
  · intro x hx
    apply h.range
    have hl := hle x
    simp only [cnt] at hx hl ⊢
    omega

/-- a freshly loaded key: one reference for the cache entry, one for the caller. -/
theorem inv_new (s : St) (key : Nat) (h : Inv s) :
    Inv { s with cache := s.cache ++ [(key, s.objs.length)], objs := s.objs ++ [{ refs := 2, destroyed := false }],
                 holders := s.objs.length :: s.holders } := by
  have hzero : cnt s s.objs.length = 0 := by
    apply Classical.byContradiction; intro hne
    have := h.range s.objs.length (by omega)
    omega
  refine ⟨h.looked, ?_, ?_, ?_, h.ok⟩
  · intro x
    simp only [cnt, inCache_append, List.count_cons]
    by_cases hx : x = s.objs.length
    · rw [hx, append_getD_eq]
      simp only [cnt] at hzero
      simp; omega
    · have hne : ¬ (s.objs.length = x) := fun e => hx e.symm
      have hc := h.count x
      simp only [cnt] at hc
      by_cases hlt : x < s.objs.length
      · rw [append_getD_lt _ _ _ hlt]; simp [hne]; omega
      · have hr : ¬ (0 < cnt s x) := fun hp => hlt (h.range x hp)
        simp only [cnt] at hr
        have hne' : (s.objs.length == x) = false := by simpa using hne
        rw [objAt_ge _ _ (by simp; omega), default_obj]
        simp only [hne, hne', if_false, Bool.false_eq_true]
        simp; omega
  · intro x hx
    simp only [List.length_append, List.length_cons, List.length_nil]
    by_cases hxl : x = s.objs.length
    · omega
    · have hne : ¬ (s.objs.length = x) := fun e => hxl e.symm
      have : 0 < cnt s x := by
        simp only [cnt, inCache_append, List.count_cons, hne, if_false] at hx ⊢
        simp only [beq_iff_eq, hne, if_false] at hx
        omega
      have := h.range x this; omega
  · intro x hx
    by_cases hlt : x < s.objs.length
    · rw [append_getD_lt _ _ _ hlt] at hx ⊢; exact h.dead x hx
    · by_cases hx2 : x = s.objs.length
      · rw [hx2, append_getD_eq] at hx; simp at hx
      · rw [objAt_ge _ _ (by simp; omega), default_obj] at hx; simp at hx

theorem count_append_singleton (l : List Nat) (a x : Nat) :
    (l ++ [a]).count x = l.count x + (if a = x then 1 else 0) := by
  simp only [List.count_append, List.count_cons, List.count_nil]
  by_cases h : a = x <;> simp [h]

/-- the eviction that may precede an insert preserves the invariant. -/
theorem evict_inv (s : St) (key : Nat) (victim : Option Nat) (async : Bool)
    (c1 : List (Nat × Nat)) (o1 : List Obj) (p1 : List Nat) (h : Inv s)
    (he : evictVictim Facts.good s key victim async = some (c1, o1, p1)) :
    Inv { s with cache := c1, objs := o1, pending := p1 } := by
  unfold evictVictim at he
  cases victim with
  | none => simp at he; obtain ⟨rfl, rfl, rfl⟩ := he; exact h
  | some vk =>
    simp only at he
    cases hv : lookup s.cache vk with
    | none => simp [hv] at he
    | some vo =>
      simp only [hv] at he
      by_cases hvk : vk = key
      · simp [hvk] at he
      · simp only [hvk, if_false] at he
        have hf := inCache_erase_found hv
        by_cases ha : async = true
        · simp only [ha, if_true] at he
          injection he with he; injection he with e1 e2; injection e2 with e2 e3
          subst e1; subst e2; subst e3
          exact inv_recount s _ _ _ h (by
            intro x
            have hle := inCache_erase_le s.cache vk x
            simp only [cnt, count_append_singleton]
            by_cases hx : vo = x
            · subst hx; simp; omega
            · simp [hx]; omega)
        · simp only [ha, Facts.good, if_true] at he
          injection he with he; injection he with e1 e2; injection e2 with e2 e3
          subst e1; subst e2; subst e3
          exact inv_drop s vo _ _ _ h (by have := lookup_inCache_pos hv; unfold cnt; omega) (by
            intro x
            have hle := inCache_erase_le s.cache vk x
            simp only [cnt]
            by_cases hx : x = vo
            · subst hx; simp; omega
            · simp [hx]; omega)

/-- **every step of the protocol (with the facts of the current source) preserves the invariant.** -/
theorem step_inv (s : St) (st : Step) (s' : St) (h : Inv s) (hs : step Facts.good s st = some s') : Inv s' := by
  cases st with
  | hit key =>
    simp only [step, Facts.good] at hs
    cases hk : lookup s.cache key with
    | none => simp [hk] at hs
    | some o =>
      simp only [hk, if_true] at hs
      injection hs with hs; subst hs
      exact inv_acquire s o h (by have := lookup_inCache_pos hk; unfold cnt; omega)
  | incr o =>
    simp only [step] at hs
    rw [h.looked] at hs; simp at hs
  | merge key =>
    simp only [step] at hs
    cases hk : lookup s.cache key with
    | none => simp [hk] at hs
    | some o =>
      simp only [hk] at hs
      injection hs with hs; subst hs
      exact inv_acquire s o h (by have := lookup_inCache_pos hk; unfold cnt; omega)
  | use o =>
    simp only [step] at hs
    by_cases ho : o ∈ s.holders
    · simp only [ho, if_true] at hs
      have hpos : 0 < cnt s o := by
        have := List.count_pos_iff.mpr ho; unfold cnt; omega
      have hc := h.count o
      by_cases hd : (objAt s.objs o).destroyed = true
      · have := h.dead o hd; omega
      · have hd' : (s.objs.getD o default).destroyed = false := by
          simpa [objAt] using hd
        simp only [hd', Bool.false_eq_true, if_false] at hs
        injection hs with hs; subst hs; exact h
    · simp [ho] at hs
  | release o =>
    simp only [step] at hs
    by_cases ho : o ∈ s.holders
    · simp only [ho, if_true] at hs
      injection hs with hs; subst hs
      have hcp := List.count_pos_iff.mpr ho
      have := inv_drop s o s.cache s.pending (s.holders.erase o) h (by unfold cnt; omega) (by
        intro x
        by_cases hx : x = o
        · subst hx
          have := List.count_erase_self (a := x) (l := s.holders)
          simp only [cnt, if_true]; omega
        · have hne : List.count x (s.holders.erase o) = List.count x s.holders := List.count_erase_of_ne hx
          simp only [cnt, hx, if_false, hne]; omega)
      exact this
    · simp [ho] at hs
  | deliver =>
    simp only [step, Facts.good, if_true] at hs
    cases hp : s.pending with
    | nil => simp [hp] at hs
    | cons o rest =>
      simp only [hp] at hs
      injection hs with hs; subst hs
      have := inv_drop s o s.cache rest s.holders h (by unfold cnt; rw [hp]; simp; omega) (by
        intro x
        simp only [cnt, hp, List.count_cons]
        by_cases hx : x = o
        · subst hx; simp; omega
        · have : ¬ (o = x) := fun e => hx e.symm
          simp [hx, this])
      exact this
  | load key victim async =>
    simp only [step] at hs
    cases he : evictVictim Facts.good s key victim async with
    | none => simp [he] at hs
    | some r =>
      obtain ⟨c1, o1, p1⟩ := r
      have h1 := evict_inv s key victim async c1 o1 p1 h he
      rw [he] at hs
      have hg : Facts.good.replaceReleasesOld = true := rfl
      simp only [hg, if_true] at hs
      injection hs with hs; subst hs
      -- a replaced entry under the same key gives its reference back
      have h2 : Inv { s with cache := erase c1 key, pending := p1,
                             objs := (match lookup c1 key with | some old => decr o1 old | none => o1) } := by
        cases hl : lookup c1 key with
        | none =>
          simp only
          exact inv_recount { s with cache := c1, objs := o1, pending := p1 } _ _ _ h1 (by
            intro x; have := inCache_erase_le c1 key x; simp only [cnt]; omega)
        | some old =>
          simp only
          have hf := inCache_erase_found hl
          exact inv_drop { s with cache := c1, objs := o1, pending := p1 } old _ _ _ h1
            (by have := lookup_inCache_pos hl; simp only [cnt]; omega) (by
              intro x
              have hle := inCache_erase_le c1 key x
              simp only [cnt]
              by_cases hx : x = old
              · subst hx; simp; omega
              · simp [hx]; omega)
      exact inv_new _ key h2

/-- every state reachable by any schedule satisfies the invariant. -/
theorem run_inv (s : St) (h : Inv s) (sched : List Step) : Inv (run Facts.good s sched) := by
  induction sched generalizing s with
  | nil => exact h
  | cons st rest ih =>
    simp only [run]
    cases hs : step Facts.good s st with
    | none => exact ih s h
    | some s' => exact ih s' (step_inv s st s' h hs)

end AsherahVerif.KeyRef
