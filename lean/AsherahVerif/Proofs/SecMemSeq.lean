import AsherahVerif.Proofs.SecMem
/-
Sequential lemmas on top of the case tables of Proofs/SecMem.lean: a closed form of `WithBytes` with
nested readers (it consumes at most two oracle answers whatever the nesting depth), `Close`, and the
per-secret invariant that every operation sequence preserves under arbitrary faults.
-/
namespace AsherahVerif.SecMem

theorem access_spec' (pf : Proto) (s : Sec) (fl : List Bool) : AccessSpec pf s (access pf s fl) := by
  have := access_spec pf s fl
  simpa [AccessSpec] using this

theorem release_spec' (s : Sec) (fl : List Bool) : ReleaseSpec s (release s fl) := by
  have := release_spec s fl
  simpa [ReleaseSpec] using this

theorem pmClose_spec' (s : Sec) (hm : s.page.mapped = true) (fl : List Bool) :
    CloseSpec false .free .err s (pmClose s fl) := by
  have := pmClose_spec s hm fl
  simpa [CloseSpec] using this

theorem mgClose_spec' (s : Sec) (hm : s.page.mapped = true) (fl : List Bool) :
    CloseSpec true .freeG .panic s (mgClose s fl) := by
  have := mgClose_spec s hm fl
  simpa [CloseSpec] using this

/-! ### WithBytes -/

/-- closed form of `withBytes pf nest s fl` (any `nest`) for a secret that is mapped unless closed and
read-only while readers are inside. -/
def withClosed (s : Sec) (fl : List Bool) : WithOut :=
  let c := s.page.content
  let ro : Page := { s.page with prot := .ro }
  if s.closing || s.closed then
    { res := .closedErr, sec := s, evs := [], rest := fl, called := false, inside := none, seen := none }
  else if s.counter != 0 then
    { res := .ok, sec := s, evs := [], rest := fl, called := true, inside := some s.page, seen := some (.bytes c) }
  else if fl.headD false then
    { res := .err, sec := s, evs := [protCall .ro false c], rest := fl.tail, called := false, inside := none, seen := none }
  else if fl.tail.headD false then
    { res := .err, sec := { s with page := ro }, evs := [protCall .ro true c, protCall .none false c], rest := fl.tail.tail,
      called := true, inside := some ro, seen := some (.bytes c) }
  else
    { res := .ok, sec := { s with page := { s.page with prot := .none } }, evs := [protCall .ro true c, protCall .none true c],
      rest := fl.tail.tail, called := true, inside := some ro, seen := some (.bytes c) }

/-- readers that come while others are inside: pure counter arithmetic, no primitive, no oracle. -/
theorem withBytes_inner (pf : Proto) : ∀ (nest : Nat) (s : Sec) (fl : List Bool),
    s.closing = false → s.closed = false → s.counter ≠ 0 → s.page.mapped = true → s.page.prot = .ro →
    withBytes pf nest s fl =
      { res := .ok, sec := s, evs := [], rest := fl, called := true, inside := some s.page, seen := some (.bytes s.page.content) } := by
  intro nest
  induction nest with
  | zero =>
    intro s fl hcl hcd hc hm hp
    obtain ⟨impl, id, len, born, ⟨mapped, locked, dd, prot, content, guards⟩, closing, closed, counter⟩ := s
    simp only at hcl hcd hc hm hp
    subst hcl hcd hm hp
    unfold withBytes
    simp [access, release, touch, Page.readable, hc]
  | succ n ih =>
    intro s fl hcl hcd hc hm hp
    obtain ⟨impl, id, len, born, ⟨mapped, locked, dd, prot, content, guards⟩, closing, closed, counter⟩ := s
    simp only at hcl hcd hc hm hp
    subst hcl hcd hm hp
    unfold withBytes
    simp only [access, Bool.or_false, Bool.and_false, Bool.false_eq_true, if_false]
    have h0 : (counter == 0) = false := by simp [hc]
    simp only [h0, Bool.false_eq_true, if_false]
    rw [ih _ _ rfl rfl (by simp) rfl rfl]
    simp [release, hc]

theorem withBytes_closed (pf : Proto) (hpf : pf.accessChecksClosing = true) (nest : Nat) (s : Sec) (fl : List Bool)
    (hm : s.closed = false → s.page.mapped = true) (hro : s.counter ≠ 0 → s.page.prot = .ro) :
    withBytes pf nest s fl = withClosed s fl := by
  by_cases hcc : s.closing = true ∨ s.closed = true
  · -- refused
    have : (s.closing || s.closed) = true := by rcases hcc with h | h <;> simp [h]
    cases nest <;> (unfold withBytes; simp [access, withClosed, hpf, this])
  · have hcl : s.closing = false := by cases h : s.closing <;> simp_all
    have hcd : s.closed = false := by cases h : s.closed <;> simp_all
    have hmm := hm hcd
    by_cases hc : s.counter = 0
    · obtain ⟨impl, id, len, born, ⟨mapped, locked, dd, prot, content, guards⟩, closing, closed, counter⟩ := s
      simp only at hcl hcd hmm hc
      subst hcl hcd hmm hc
      rcases fl with _ | ⟨_ | _, _ | ⟨_ | _, fl⟩⟩ <;> cases nest <;>
        (unfold withBytes
         simp [access, release, touch, Page.readable, withClosed, hpf, Run.call, applyPrim, failPrim, Prim.alwaysFails, protCall,
               withBytes_inner])
    · have hp := hro hc
      rw [withBytes_inner pf nest s fl hcl hcd hc hmm hp]
      simp [withClosed, hcl, hcd, hc]

/-! ### Close -/

/-- the case table of `close()` / `Destroy()` for the secret's implementation. -/
def CloseSpecI (s : Sec) (o : StepOut) : Prop :=
  match s.impl with
  | .pm => CloseSpec false .free .err s o
  | .mg => CloseSpec true .freeG .panic s o

theorem closeInner_spec (s : Sec) (hm : s.page.mapped = true) (fl : List Bool) : CloseSpecI s (closeInner s fl) := by
  unfold CloseSpecI closeInner
  cases h : s.impl
  · exact pmClose_spec' s hm fl
  · exact mgClose_spec' s hm fl

/-- what `close()` can do to a mapped secret, whichever implementation: it either completes (page
zeroed, unlocked, unmapped, `closed`, exactly one InUseCounter.Dec) or fails and leaves the secret
not closed, still mapped, holding either its old content or zeros. In every case no Unlock/Free is
issued on secret bytes and the Wipe precedes them. -/
structure CloseFacts (s : Sec) (o : StepOut) : Prop where
  res : o.res = .ok ∨ o.res = .err ∨ o.res = .panic
  same : o.sec.impl = s.impl ∧ o.sec.id = s.id ∧ o.sec.born = s.born ∧ o.sec.len = s.len ∧
         o.sec.counter = s.counter ∧ o.sec.closing = s.closing
  okClosed : o.res = .ok → o.sec.closed = true ∧ o.sec.page.mapped = false ∧ o.sec.page.locked = false ∧
             o.sec.page.content = .zero ∧ inuseDelta o.evs = -1 ∧ anyFailed o.evs = false
  failOpen : o.res ≠ .ok → o.sec.closed = s.closed ∧ o.sec.page.mapped = true ∧ inuseDelta o.evs = 0 ∧
             anyFailed o.evs = true ∧ (o.sec.page = s.page ∨ o.sec.page.content = .zero)
  clean : releasesClean o.evs = true
  wiped : wipeBeforeRelease true o.evs = true
  panicMg : o.res = .panic → s.impl = .mg
  errPm : o.res = .err → s.impl = .pm

theorem closeInner_facts (s : Sec) (hm : s.page.mapped = true) (fl : List Bool) : CloseFacts s (closeInner s fl) := by
  have h := closeInner_spec s hm fl
  unfold CloseSpecI at h
  obtain ⟨impl, id, len, born, ⟨mapped, locked, dd, prot, content, guards⟩, closing, closed, counter⟩ := s
  simp only at hm; subst hm
  cases impl <;> simp only [CloseSpec] at h <;>
    rcases h with ⟨h1, h2, h3⟩ | ⟨h1, h2, h3⟩ | ⟨h1, h2, h3⟩ | ⟨h1, h2, h3⟩ <;>
    (constructor <;>
      simp [h1, h2, h3, primCall, applyPrim, inuseDelta, anyFailed, releasesClean, wipeBeforeRelease, Content.isSecret])

/-- sequential `Close()` with the protocol facts of the code. -/
theorem close_eq (pf : Proto) (hpf : pf.closeWaits = true) (s : Sec) (fl : List Bool) :
    close pf s fl =
      if s.closed then { res := .ok, sec := { s with closing := true }, evs := [], rest := fl }
      else if s.counter == 0 then closeInner { s with closing := true } fl
      else { res := .deadlock, sec := { s with closing := true }, evs := [], rest := fl } := by
  unfold close closeBody
  cases hc : s.closed <;> cases h0 : (s.counter == 0) <;> simp [hpf, hc, h0]

end AsherahVerif.SecMem
