import AsherahVerif.Proofs.EnvFootprint
/-
Authenticity of decrypt (C07), in ANY world: the only way `decryptDataRowRecord` returns a payload
`p` is that the record's data field is literally `enc drk n (payload p)` and its encrypted key is
`enc ik n' (key drk)`; the guards at the top reject structurally incomplete records and foreign
partitions.  No invariant is needed: this is the symbolic AEAD contract pushed through the code.
-/
set_option linter.unusedVariables false
namespace AsherahVerif.Env

theorem bind_ok {α β : Type} {x : M α} {f : α → M β} {w : World} {b : β}
    (h : ((x >>= f) w).1 = .ok b) : ∃ a w', x w = (.ok a, w') ∧ (f a w').1 = .ok b := by
  simp only [bind_run] at h
  cases hr : x w with
  | mk r w' =>
    rw [hr] at h
    cases r with
    | ok a => exact ⟨a, w', rfl, h⟩
    | error e => cases h

theorem bind_fst_of_ok {α β : Type} {x : M α} {f : α → M β} {w w' : World} {a : α}
    (h : x w = (.ok a, w')) : (x >>= f) w = f a w' := by
  simp only [bind_run, h]

theorem bind_fst_of_err {α β : Type} {x : M α} {f : α → M β} {w w' : World} {e : Err}
    (h : x w = (.error e, w')) : (x >>= f) w = (.error e, w') := by
  simp only [bind_run, h]

theorem aeadDecrypt_ok {c : Ct} {k : Nat} {w : World} {pt : Pt}
    (h : (aeadDecrypt c k w).1 = .ok pt) : ∃ n, c = .enc k n pt := by
  unfold aeadDecrypt at h
  obtain ⟨f, w1, _, h⟩ := bind_ok h
  split at h
  · obtain ⟨_, _, _, h⟩ := bind_ok h; cases h
  · split at h
    · split at h
      · rename_i k' n pt' _ hk
        obtain ⟨_, _, _, h⟩ := bind_ok h
        cases h; subst hk; exact ⟨n, rfl⟩
      · obtain ⟨_, _, _, h⟩ := bind_ok h; cases h
    · obtain ⟨_, _, _, h⟩ := bind_ok h; cases h

theorem withKey_ok {α : Type} {o : Nat} {f : Nat → M α} {w : World} {a : α}
    (h : (withKey o f w).1 = .ok a) : (f (w.keys.getD o default).mat w).1 = .ok a := by
  unfold withKey at h
  obtain ⟨k, w1, hk, h⟩ := bind_ok h
  cases hk
  obtain ⟨w2, w3, hw, h⟩ := bind_ok h
  cases hw
  dsimp only at h
  split at h
  · obtain ⟨_, _, _, h⟩ := bind_ok h; cases h
  · exact h

theorem decryptRow_ok {ik : Nat} {dk : DrrKey} {data : Ct} {w : World} {p : Nat}
    (h : (decryptRow ik dk data w).1 = .ok p) :
    ∃ im dm n n', dk.enc = .enc im n' (.key dm) ∧ data = .enc dm n (.payload p) := by
  unfold decryptRow at h
  have h := withKey_ok h
  obtain ⟨pt, w1, hpt, h⟩ := bind_ok h
  have hpt' : (aeadDecrypt dk.enc (w.keys.getD ik default).mat w).1 = .ok pt := by rw [hpt]
  obtain ⟨n', henc⟩ := aeadDecrypt_ok hpt'
  cases pt with
  | payload q => dsimp only at h; cases h
  | key dm =>
    dsimp only at h
    obtain ⟨b, w2, _, h⟩ := bind_ok h
    simp only [finallyDo_run] at h
    obtain ⟨pt2, w3, hpt2, h⟩ := bind_ok h
    have hpt2' : (aeadDecrypt data dm w2).1 = .ok pt2 := by rw [hpt2]
    obtain ⟨n, hdata⟩ := aeadDecrypt_ok hpt2'
    cases pt2 with
    | key _ => dsimp only at h; cases h
    | payload q =>
      dsimp only at h
      cases h
      exact ⟨_, dm, n, n', henc, hdata⟩

theorem decryptDataRowRecord_ok {x : Ctx} {d : Drr} {b : Bool} {w : World} {p : Nat}
    (h : (decryptDataRowRecord x d b w).1 = .ok p) :
    ∃ dk par, d.key = some dk ∧ dk.parent = some par ∧ par.kid = x.ikId ∧
      ∃ im dm n n', dk.enc = .enc im n' (.key dm) ∧ d.data = .enc dm n (.payload p) := by
  unfold decryptDataRowRecord at h
  cases hdk : d.key with
  | none => rw [hdk] at h; cases h
  | some dk =>
    rw [hdk] at h; dsimp only at h
    cases hpar : dk.parent with
    | none => rw [hpar] at h; cases h
    | some par =>
      rw [hpar] at h; dsimp only at h
      by_cases hkid : par.kid ≠ x.ikId
      · rw [if_pos hkid] at h; cases h
      · rw [if_neg hkid] at h
        obtain ⟨ik, w1, _, h⟩ := bind_ok h
        simp only [finallyDo_run] at h
        exact ⟨dk, par, rfl, hpar, Classical.not_not.mp hkid, decryptRow_ok h⟩

theorem decrypt_ok {s : Nat} {d : Drr} {fl : List Fault} {b : Bool} {w : World} {p : Nat}
    (h : (decrypt s d fl b w).1 = .ok p) :
    ∃ dk par, d.key = some dk ∧ dk.parent = some par ∧
      par.kid = (sessionCtx { w with log := [], faults := fl } s).ikId ∧
      ∃ im dm n n', dk.enc = .enc im n' (.key dm) ∧ d.data = .enc dm n (.payload p) := by
  unfold decrypt at h
  obtain ⟨_, w1, h1, h⟩ := bind_ok h
  cases h1
  obtain ⟨_, w2, h2, h⟩ := bind_ok h
  cases h2
  exact decryptDataRowRecord_ok h

/-- the outcome of the public decrypt operation in terms of the monadic `decrypt`. -/
theorem applyOp_decrypt (w : World) (s : Nat) (d : Drr) (fl : List Fault) :
    (applyOp w (.decrypt s d fl)).1 =
      (match (decrypt s d fl true w).1 with | .ok p => Out.payload p | .error e => Out.error e) ∧
    (applyOp w (.decrypt s d fl)).2 = (decrypt s d fl true w).2 := by
  simp only [applyOp]
  cases hr : decrypt s d fl true w with
  | mk r w' => cases r <;> exact ⟨rfl, rfl⟩

theorem applyOp_encrypt (w : World) (s pay : Nat) (fl : List Fault) :
    (applyOp w (.encrypt s pay fl)).1 =
      (match (encrypt s pay fl true w).1 with | .ok d => Out.record d | .error e => Out.error e) ∧
    (applyOp w (.encrypt s pay fl)).2 = (encrypt s pay fl true w).2 := by
  simp only [applyOp]
  cases hr : encrypt s pay fl true w with
  | mk r w' => cases r <;> exact ⟨rfl, rfl⟩

theorem applyOp_decrypt_payload {w : World} {s : Nat} {d : Drr} {fl : List Fault} {p : Nat}
    (h : (applyOp w (.decrypt s d fl)).1 = .payload p) : (decrypt s d fl true w).1 = .ok p := by
  rw [(applyOp_decrypt w s d fl).1] at h
  split at h
  · rename_i q hq; cases h; exact hq
  · cases h

/-- decrypt returns a payload or an error, nothing else. -/
theorem applyOp_decrypt_cases (w : World) (s : Nat) (d : Drr) (fl : List Fault) :
    (∃ p, (applyOp w (.decrypt s d fl)).1 = .payload p) ∨ (∃ e, (applyOp w (.decrypt s d fl)).1 = .error e) := by
  rw [(applyOp_decrypt w s d fl).1]
  split
  · exact Or.inl ⟨_, rfl⟩
  · exact Or.inr ⟨_, rfl⟩

theorem decrypt_run (s : Nat) (d : Drr) (fl : List Fault) (b : Bool) (w : World) :
    decrypt s d fl b w =
      decryptDataRowRecord (sessionCtx { w with log := [], faults := fl } s) d b { w with log := [], faults := fl } := rfl

theorem encrypt_run (s pay : Nat) (fl : List Fault) (b : Bool) (w : World) :
    encrypt s pay fl b w =
      encryptPayload (sessionCtx { w with log := [], faults := fl } s) pay b { w with log := [], faults := fl } := rfl

theorem decrypt_missing_key {s : Nat} {d : Drr} {fl : List Fault} {b : Bool} {w : World} (h : d.key = none) :
    (decrypt s d fl b w).1 = .error .badRecord := by
  rw [decrypt_run]; unfold decryptDataRowRecord; rw [h]; rfl

theorem decrypt_missing_parent {s : Nat} {d : Drr} {dk : DrrKey} {fl : List Fault} {b : Bool} {w : World}
    (h : d.key = some dk) (hp : dk.parent = none) : (decrypt s d fl b w).1 = .error .badRecord := by
  rw [decrypt_run]; unfold decryptDataRowRecord; rw [h]; dsimp only; rw [hp]; rfl

theorem decrypt_foreign {s : Nat} {d : Drr} {dk : DrrKey} {par : KeyMeta} {fl : List Fault} {b : Bool} {w : World}
    (h : d.key = some dk) (hp : dk.parent = some par) (hk : par.kid ≠ .ik (w.sessions.getD s default).part) :
    (decrypt s d fl b w).1 = .error .wrongPartition := by
  rw [decrypt_run]; unfold decryptDataRowRecord; rw [h]; dsimp only; rw [hp]; dsimp only
  rw [if_pos (by exact hk)]; rfl

end AsherahVerif.Env
