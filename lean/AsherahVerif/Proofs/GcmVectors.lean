import AsherahVerif.Model.Aes
/-
NIST GCM test vectors (gcm-spec "test cases" 13 and 14: AES-256, 96-bit IV, no AAD) evaluated IN THE
KERNEL on the model (`decide +kernel`: definitional unfolding by the kernel, no compiler, no axiom
beyond propext/Quot.sound).  They are concrete checks (tests), not general theorems: their role is
non-vacuity of the GCM theorems on the AES instance and a kernel-level sanity check of Model/Aes.lean.
Test case 15 (64-byte payload) and the FIPS-197 block vectors are checked by the compiled driver's
self test and by the correspondence against crypto/aes on every run.
-/
namespace AsherahVerif.GcmVectors
open AsherahVerif AsherahVerif.Gcm

def zkey : Bytes := List.replicate 32 0
def znonce : Bytes := List.replicate 12 0

/-- test case 13: empty plaintext → tag 530f8afb c74536b9 a963b4f1 c4cb738b. -/
def tc13 : Bytes := [0x53,0x0f,0x8a,0xfb,0xc7,0x45,0x36,0xb9,0xa9,0x63,0xb4,0xf1,0xc4,0xcb,0x73,0x8b] ++ znonce

/-- test case 14: one zero block → C = cea7403d…, T = d0d1c8a7…. -/
def tc14 : Bytes :=
  [0xce,0xa7,0x40,0x3d,0x4d,0x60,0x6b,0x6e,0x07,0x4e,0xc5,0xd3,0xba,0xf3,0x9d,0x18,
   0xd0,0xd1,0xc8,0xa7,0x99,0x99,0x6b,0xf0,0x26,0x5b,0x98,0xb5,0xd4,0x8a,0xb9,0x19] ++ znonce

theorem nist_tc13_seal : (goEncrypt Aes.cipher zkey znonce []).toOption = some tc13 := by decide +kernel
theorem nist_tc14_seal : (goEncrypt Aes.cipher zkey znonce (List.replicate 16 0)).toOption = some tc14 := by decide +kernel
theorem nist_tc14_open : (goDecrypt Aes.cipher zkey tc14).toOption = some (List.replicate 16 0) := by decide +kernel

end AsherahVerif.GcmVectors
