import AsherahVerif.Proofs.MetastoreSpec
/-
The in-memory metastore refines the specification table.
-/
namespace AsherahVerif.Metastore

section Assoc
variable {κ α : Type} [DecidableEq κ]

theorem aGet_aSet_same (l : List (κ × α)) (k : κ) (v : α) : aGet (aSet l k v) k = some v := by
  induction l with
  | nil => simp [aSet, aGet]
  | cons e t ih =>
    obtain ⟨k', w⟩ := e
    simp only [aSet]
    split
    · rename_i h; simp [aGet, h]
    · rename_i h; simp [aGet, h, ih]

theorem aGet_aSet_other (l : List (κ × α)) (k k' : κ) (v : α) (h : k' ≠ k) : aGet (aSet l k v) k' = aGet l k' := by
  induction l with
  | nil => simp [aSet, aGet, h.symm]
  | cons e t ih =>
    obtain ⟨k0, w⟩ := e
    simp only [aSet]
    split
    · rename_i h0
      subst h0
      simp [aGet, h.symm]
    · simp only [aGet, ih]

theorem mem_of_aGet {l : List (κ × α)} {k : κ} {v : α} (h : aGet l k = some v) : (k, v) ∈ l := by
  induction l with
  | nil => simp [aGet] at h
  | cons e t ih =>
    obtain ⟨k', w⟩ := e
    simp only [aGet] at h
    split at h
    · rename_i hk; subst hk; injection h with h; subst h; exact List.mem_cons_self
    · exact List.mem_cons_of_mem _ (ih h)

theorem aGet_eq_none_iff (l : List (κ × α)) (k : κ) : aGet l k = none ↔ k ∉ l.map (·.1) := by
  induction l with
  | nil => simp [aGet]
  | cons e t ih =>
    obtain ⟨k', w⟩ := e
    simp only [aGet, List.map_cons, List.mem_cons, not_or]
    by_cases hk : k' = k
    · simp [hk]
    · have : ¬ k = k' := fun h => hk h.symm
      simp [hk, this, ih]

theorem mem_aSet {l : List (κ × α)} {k : κ} {v : α} {e : κ × α} (h : e ∈ aSet l k v) : e = (k, v) ∨ e ∈ l := by
  induction l with
  | nil => simp [aSet] at h; exact Or.inl h
  | cons a t ih =>
    obtain ⟨k', w⟩ := a
    simp only [aSet] at h
    split at h
    · rename_i hk
      rcases List.mem_cons.mp h with h | h
      · left; rw [h, hk]
      · right; exact List.mem_cons_of_mem _ h
    · rcases List.mem_cons.mp h with h | h
      · right; rw [h]; exact List.mem_cons_self
      · rcases ih h with h | h
        · exact Or.inl h
        · exact Or.inr (List.mem_cons_of_mem _ h)

theorem keys_aSet (l : List (κ × α)) (k : κ) (v : α) :
    (aSet l k v).map (·.1) = if k ∈ l.map (·.1) then l.map (·.1) else l.map (·.1) ++ [k] := by
  induction l with
  | nil => simp [aSet]
  | cons e t ih =>
    obtain ⟨k', w⟩ := e
    simp only [aSet]
    split
    · rename_i hk; simp [hk]
    · rename_i hk
      have : ¬ k = k' := fun h => hk h.symm
      simp only [List.map_cons, ih, List.mem_cons, this, false_or]
      split <;> simp

theorem nodup_keys_aSet {l : List (κ × α)} (h : (l.map (·.1)).Nodup) (k : κ) (v : α) :
    ((aSet l k v).map (·.1)).Nodup := by
  rw [keys_aSet]
  split
  · exact h
  · rename_i hk
    rw [List.nodup_append]
    refine ⟨h, by simp, ?_⟩
    intro a ha b hb
    simp only [List.mem_cons, List.not_mem_nil, or_false] at hb
    subst hb; intro e; subst e; exact hk ha

theorem aSet_ne_nil (l : List (κ × α)) (k : κ) (v : α) : aSet l k v ≠ [] := by
  cases l with
  | nil => simp [aSet]
  | cons e t =>
    obtain ⟨k', w⟩ := e
    simp only [aSet]; split <;> simp

end Assoc

namespace Mem

/-- invariant of every state reachable through the API: distinct outer keys, no empty inner map -/
structure Inv (m : Mem) : Prop where
  nodup : (m.envs.map (·.1)).Nodup
  nonempty : ∀ e ∈ m.envs, e.2 ≠ []

theorem inv_empty : Inv {} := ⟨by simp, by simp⟩

def flat (envs : List (String × Inner)) : Table :=
  envs.flatMap fun (id, inner) => inner.map fun (c, r) => ((id, c), r)

theorem load_inner (i : String) (inner : Inner) (id : String) (c : Int) :
    Table.load (inner.map fun (c, r) => ((i, c), r)) id c = if i = id then aGet inner c else none := by
  induction inner with
  | nil => simp [Table.load_nil, aGet]
  | cons e t ih =>
    obtain ⟨c', r⟩ := e
    simp only [List.map_cons, Table.load_cons, Prod.mk.injEq, ih, aGet]
    by_cases hi : i = id
    · subst hi; simp
    · simp [hi]

theorem load_flat (envs : List (String × Inner)) (hn : (envs.map (·.1)).Nodup) (id : String) (c : Int) :
    Table.load (flat envs) id c = match aGet envs id with | none => none | some inner => aGet inner c := by
  induction envs with
  | nil => simp [flat, Table.load_nil, aGet]
  | cons e t ih =>
    obtain ⟨i, inner⟩ := e
    have hn' := (List.nodup_cons.mp hn)
    simp only [flat, List.flatMap_cons] at ih ⊢
    rw [Table.load_append, load_inner]
    simp only [aGet]
    by_cases hi : i = id
    · subst hi
      simp only [if_true]
      cases hg : aGet inner c with
      | some r => rfl
      | none =>
        simp only
        rw [ih hn'.2]
        have : aGet t i = none := (aGet_eq_none_iff t i).mpr hn'.1
        rw [this]
    · simp only [hi, if_false]
      exact ih hn'.2

theorem abs_load {m : Mem} (h : Inv m) (id : String) (c : Int) : m.abs.load id c = m.get2 id c := by
  have := load_flat m.envs h.nodup id c
  simp only [flat] at this
  simp only [abs, get2]
  exact this

theorem stamps_flat (envs : List (String × Inner)) (hn : (envs.map (·.1)).Nodup) (id : String) :
    Table.stamps (flat envs) id = match aGet envs id with | none => [] | some inner => inner.map (·.1) := by
  induction envs with
  | nil => simp [flat, Table.stamps, aGet]
  | cons e t ih =>
    obtain ⟨i, inner⟩ := e
    have hn' := (List.nodup_cons.mp hn)
    simp only [flat, List.flatMap_cons, Table.stamps, List.filter_append, List.map_append] at ih ⊢
    simp only [aGet]
    by_cases hi : i = id
    · subst hi
      simp only [if_true]
      rw [ih hn'.2]
      have : aGet t i = none := (aGet_eq_none_iff t i).mpr hn'.1
      rw [this]
      simp only [List.append_nil]
      have : (inner.map fun (x : Int × Rec) => ((i, x.1), x.2)).filter (fun e => decide (e.1.1 = i)) =
             inner.map fun (x : Int × Rec) => ((i, x.1), x.2) := by
        apply List.filter_eq_self.mpr
        intro a ha
        obtain ⟨x, _, hx⟩ := List.mem_map.mp ha
        subst hx; simp
      rw [this]
      simp [List.map_map, Function.comp_def]
    · simp only [hi, if_false]
      have : (inner.map fun (x : Int × Rec) => ((i, x.1), x.2)).filter (fun e => decide (e.1.1 = id)) = [] := by
        apply List.filter_eq_nil_iff.mpr
        intro a ha
        obtain ⟨x, _, hx⟩ := List.mem_map.mp ha
        subst hx; simp [hi]
      rw [this]
      simpa using ih hn'.2

theorem abs_loadLatest {m : Mem} (h : Inv m) (id : String) : m.loadLatest id = .loaded (m.abs.loadLatest id) := by
  have hs := stamps_flat m.envs h.nodup id
  simp only [flat] at hs
  unfold Table.loadLatest
  simp only [abs] at hs ⊢
  rw [hs]
  unfold loadLatest
  cases hg : aGet m.envs id with
  | none => simp [Table.maxOf]
  | some inner =>
    simp only
    rw [getLast_isort_eq_maxOf]
    have hne : inner ≠ [] := h.nonempty _ (mem_of_aGet hg)
    cases hm : Table.maxOf (inner.map (·.1)) with
    | none =>
      have := (Table.maxOf_eq_none _).mp hm
      simp at this; exact absurd this hne
    | some c =>
      simp only
      have hl := abs_load h id c
      simp only [abs, get2, hg] at hl
      rw [hl]
      cases aGet inner c <;> rfl

theorem get2_store_present {m : Mem} {id : String} {c : Int} (r : Rec) (h : (m.get2 id c).isSome = true) :
    m.store id c r = (m, .stored false none) := by
  simp [store, h]

theorem store_absent {m : Mem} {id : String} {c : Int} (r : Rec) (hinv : Inv m) (h : m.get2 id c = none) :
    ∃ m', m.store id c r = (m', .stored true none) ∧ Inv m' ∧
      ∀ i x, m'.get2 i x = if i = id ∧ x = c then some r else m.get2 i x := by
  unfold store
  simp only [h, Option.isSome_none, Bool.false_eq_true, if_false]
  -- `envs1` and the inner map found in it
  cases hg : aGet m.envs id with
  | some inner =>
    simp only [Option.isSome_some, if_true, hg]
    refine ⟨_, rfl, ⟨nodup_keys_aSet hinv.nodup _ _, ?_⟩, ?_⟩
    · intro e he
      rcases mem_aSet he with he | he
      · rw [he]; exact aSet_ne_nil _ _ _
      · exact hinv.nonempty e he
    · intro i x
      simp only [get2]
      by_cases hi : i = id
      · subst hi
        rw [aGet_aSet_same]
        simp only [true_and, hg]
        by_cases hx : x = c
        · subst hx; simp [aGet_aSet_same]
        · simp [hx, aGet_aSet_other _ _ _ _ hx]
      · simp [hi, aGet_aSet_other _ _ _ _ hi]
  | none =>
    simp only [Option.isSome_none, Bool.false_eq_true, if_false, aGet_aSet_same]
    refine ⟨_, rfl, ⟨nodup_keys_aSet (nodup_keys_aSet hinv.nodup _ _) _ _, ?_⟩, ?_⟩
    · intro e he
      rcases mem_aSet he with he | he
      · rw [he]; exact aSet_ne_nil _ _ _
      · rcases mem_aSet he with he | he
        · -- the freshly made empty inner map was replaced by the non-empty one
          exfalso
          have hk : aGet (aSet (aSet m.envs id []) id (aSet [] c r)) id = some (aSet [] c r) := aGet_aSet_same _ _ _
          have hn := nodup_keys_aSet (nodup_keys_aSet hinv.nodup id ([] : Inner)) id (aSet [] c r)
          -- two entries with key `id` would contradict distinct keys: use the lookup instead
          have : (id, ([] : Inner)) ∈ aSet (aSet m.envs id []) id (aSet [] c r) := by rw [← he]; assumption
          have hfirst := mem_of_aGet hk
          -- both (id, []) and (id, aSet [] c r) are members, keys are distinct ⇒ equal values
          have huniq : ∀ (l : List (String × Inner)), (l.map (·.1)).Nodup → ∀ a b, (id, a) ∈ l → (id, b) ∈ l → a = b := by
            intro l hl a b ha hb
            induction l with
            | nil => simp at ha
            | cons e t ih =>
              have hl' := List.nodup_cons.mp hl
              rcases List.mem_cons.mp ha with ha | ha <;> rcases List.mem_cons.mp hb with hb | hb
              · rw [← ha] at hb; injection hb with _ h2; exact h2.symm
              · exfalso; apply hl'.1; rw [← ha]; exact List.mem_map.mpr ⟨(id, b), hb, rfl⟩
              · exfalso; apply hl'.1; rw [← hb]; exact List.mem_map.mpr ⟨(id, a), ha, rfl⟩
              · exact ih hl'.2 ha hb
          have := huniq _ hn _ _ this hfirst
          exact absurd this.symm (aSet_ne_nil _ _ _)
        · exact hinv.nonempty e he
    · intro i x
      simp only [get2]
      by_cases hi : i = id
      · subst hi
        rw [aGet_aSet_same]
        simp only [true_and, hg]
        by_cases hx : x = c
        · subst hx; simp [aGet_aSet_same]
        · simp [hx, aGet_aSet_other _ _ _ _ hx, aGet]
      · simp [hi, aGet_aSet_other _ _ _ _ hi]

/-- one operation: same answer as the specification, invariant and abstraction preserved -/
theorem step_sim {m : Mem} {t : Table} (hinv : Inv m) (he : Table.Equiv m.abs t) (op : Op) :
    (m.step op).2 = (t.step op).2 ∧ Inv (m.step op).1 ∧ Table.Equiv (m.step op).1.abs (t.step op).1 := by
  cases op with
  | load id c =>
    simp only [step, Table.step, load]
    exact ⟨by rw [← he id c, abs_load hinv], hinv, he⟩
  | latest id =>
    simp only [step, Table.step]
    exact ⟨by rw [abs_loadLatest hinv, he.loadLatest], hinv, he⟩
  | store id c r =>
    simp only [step, Table.step]
    have hl : t.load id c = m.get2 id c := by rw [← he id c, abs_load hinv]
    cases hg : m.get2 id c with
    | some r0 =>
      rw [get2_store_present r (by simp [hg])]
      simp only [Table.store, hl, hg, Option.isSome_some, if_true]
      exact ⟨trivial, hinv, he⟩
    | none =>
      obtain ⟨m', hs, hinv', hget⟩ := store_absent r hinv hg
      rw [hs]
      simp only [Table.store, hl, hg, Option.isSome_none, Bool.false_eq_true, if_false]
      refine ⟨trivial, hinv', ?_⟩
      intro i x
      rw [abs_load hinv', hget, Table.load_append, ← he i x, abs_load hinv]
      by_cases hk : i = id ∧ x = c
      · obtain ⟨h1, h2⟩ := hk
        subst h1; subst h2
        simp [hg, Table.load_cons]
      · simp only [hk, if_false]
        cases m.get2 i x with
        | some _ => rfl
        | none =>
          simp only [Table.load_cons, Table.load_nil, Prod.mk.injEq]
          have : ¬ (id = i ∧ c = x) := fun h => hk ⟨h.1.symm, h.2.symm⟩
          simp [this]

theorem run_sim {m : Mem} {t : Table} (hinv : Inv m) (he : Table.Equiv m.abs t) (ops : List Op) :
    (m.run ops).2 = (t.run (ops.map (·, false))).2 ∧ Inv (m.run ops).1 ∧
      Table.Equiv (m.run ops).1.abs (t.run (ops.map (·, false))).1 := by
  induction ops generalizing m t with
  | nil => exact ⟨rfl, hinv, he⟩
  | cons op rest ih =>
    obtain ⟨h1, h2, h3⟩ := step_sim hinv he op
    obtain ⟨i1, i2, i3⟩ := ih h2 h3
    simp only [run, Table.run, List.map_cons, Table.stepF, Bool.false_eq_true, if_false]
    exact ⟨by rw [h1, i1], i2, i3⟩

end Mem
end AsherahVerif.Metastore
