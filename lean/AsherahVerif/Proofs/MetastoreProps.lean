import AsherahVerif.Proofs.MetastoreMem
import AsherahVerif.Proofs.MetastoreDdb
/-
Properties of the specification table, and their transfer to any backend that simulates it.
-/
namespace AsherahVerif.Metastore
set_option linter.unusedSimpArgs false

namespace Table

/-- insert-only: no operation, failed or not, changes or removes a stored record -/
theorem stepF_load_stable (t : Table) (op : Op) (f : Bool) {id : String} {c : Int} {r : Rec}
    (h : t.load id c = some r) : (t.stepF op f).1.load id c = some r := by
  unfold stepF
  split
  · exact h
  · cases op with
    | store i x r' =>
      simp only [step, store]
      split
      · exact h
      · simp only [load_append, h]
    | load i x => exact h
    | latest i => exact h

theorem run_load_stable (t : Table) (ops : List (Op × Bool)) {id : String} {c : Int} {r : Rec}
    (h : t.load id c = some r) : (t.run ops).1.load id c = some r := by
  induction ops generalizing t with
  | nil => exact h
  | cons o rest ih =>
    obtain ⟨op, f⟩ := o
    simp only [run]
    exact ih _ (stepF_load_stable t op f h)

/-- a Store reports `true` exactly when the key was absent; then the key holds exactly that record -/
theorem store_true_iff (t : Table) (id : String) (c : Int) (r : Rec) :
    (t.store id c r).2 = true ↔ t.load id c = none := by
  unfold store
  cases h : t.load id c <;> simp

theorem load_after_store (t : Table) (id : String) (c : Int) (r : Rec) (h : t.load id c = none) :
    (t.store id c r).1.load id c = some r := by
  simp [store, h, load_append, load_cons]

theorem store_dup (t : Table) (id : String) (c : Int) (r r0 : Rec) (h : t.load id c = some r0) :
    t.store id c r = (t, false) := by
  simp [store, h]

end Table

/-- a backend together with the relation that ties its states to specification tables -/
structure Refinement (σ : Type) where
  step : σ → Env → Op → Out σ
  /-- whether the environment makes the backend request of this operation fail -/
  faultOf : Env → Bool
  /-- what the backend persists of an operation's record -/
  norm : Op → Op
  normStore : ∀ id c r, ∃ r', norm (.store id c r) = .store id c r'
  normLoad : ∀ id c, norm (.load id c) = .load id c
  normLatest : ∀ id, norm (.latest id) = .latest id
  okOp : Op → Prop
  Inv : σ → Table → Prop
  abs : σ → Table
  abs_equiv : ∀ s t, Inv s t → Table.Equiv (abs s) t
  sim : ∀ s t env op, okOp op → Inv s t →
    (step s env op).res.proj = (t.stepF (norm op) (faultOf env)).2.proj ∧
    Inv (step s env op).st (t.stepF (norm op) (faultOf env)).1

namespace Refinement
variable {σ : Type} (R : Refinement σ)

def specOps (ops : List (Op × Env)) : List (Op × Bool) := ops.map fun oe => (R.norm oe.1, R.faultOf oe.2)

/-- **refinement**: over any operation sequence the results are the specification's and the final
state abstracts to the specification's final table -/
theorem run_sim (s : σ) (t : Table) (h : R.Inv s t) (ops : List (Op × Env)) (hok : ∀ oe ∈ ops, R.okOp oe.1) :
    (runOut R.step s ops).2.map Res.proj = (t.run (R.specOps ops)).2.map Res.proj ∧
    R.Inv (runOut R.step s ops).1 (t.run (R.specOps ops)).1 := by
  induction ops generalizing s t with
  | nil => exact ⟨rfl, h⟩
  | cons oe rest ih =>
    obtain ⟨op, env⟩ := oe
    obtain ⟨h1, h2⟩ := R.sim s t env op (hok (op, env) List.mem_cons_self) h
    obtain ⟨i1, i2⟩ := ih _ _ h2 (fun oe he => hok oe (List.mem_cons_of_mem _ he))
    simp only [runOut, specOps, Table.run, List.map_cons]
    exact ⟨by rw [h1]; exact congrArg _ i1, i2⟩

/-- **insert-only**: no operation changes or removes a record the (abstracted) state holds -/
theorem never_overwrites (s : σ) (t : Table) (h : R.Inv s t) (env : Env) (op : Op) (hok : R.okOp op)
    {id : String} {c : Int} {r : Rec} (hl : (R.abs s).load id c = some r) :
    (R.abs (R.step s env op).st).load id c = some r := by
  obtain ⟨_, h2⟩ := R.sim s t env op hok h
  rw [R.abs_equiv _ _ h2 id c]
  apply Table.stepF_load_stable
  rw [← R.abs_equiv _ _ h id c]; exact hl

/-- **a duplicate reports false** and changes nothing -/
theorem dup_false (s : σ) (t : Table) (h : R.Inv s t) (env : Env) (id : String) (c : Int) (r r0 : Rec)
    (hok : R.okOp (.store id c r)) (hl : (R.abs s).load id c = some r0) :
    (R.step s env (.store id c r)).res.proj = .stored false none ∧
    Table.Equiv (R.abs (R.step s env (.store id c r)).st) (R.abs s) := by
  obtain ⟨h1, h2⟩ := R.sim s t env _ hok h
  obtain ⟨r', hr'⟩ := R.normStore id c r
  have hl' : t.load id c = some r0 := by rw [← R.abs_equiv _ _ h id c]; exact hl
  rw [hr'] at h1 h2
  constructor
  · rw [h1]
    unfold Table.stepF
    split
    · rfl
    · simp [Table.step, Table.store_dup t id c r' r0 hl', Res.proj]
  · have hst : (t.stepF (.store id c r') (R.faultOf env)).1 = t := by
      unfold Table.stepF
      split
      · rfl
      · simp [Table.step, Table.store_dup t id c r' r0 hl']
    rw [hst] at h2
    exact (R.abs_equiv _ _ h2).trans (R.abs_equiv _ _ h).symm

/-- a Store that is not a duplicate and whose request does not fail reports true -/
theorem fresh_true (s : σ) (t : Table) (h : R.Inv s t) (env : Env) (id : String) (c : Int) (r : Rec)
    (hok : R.okOp (.store id c r)) (hf : R.faultOf env = false) (hl : (R.abs s).load id c = none) :
    (R.step s env (.store id c r)).res.proj = .stored true none := by
  obtain ⟨h1, _⟩ := R.sim s t env _ hok h
  obtain ⟨r', hr'⟩ := R.normStore id c r
  have hl' : t.load id c = none := by rw [← R.abs_equiv _ _ h id c]; exact hl
  rw [hr'] at h1
  rw [h1]
  simp [Table.stepF, hf, Table.step, Table.store, hl', Res.proj]

/-- **read your writes**: once a Store has reported `true`, every later Load of that key whose own
request does not fail returns exactly the stored record (as persisted), whatever happens in
between and whatever the environment (staleness oracle, failures of other requests) does. -/
theorem read_your_writes (s : σ) (t : Table) (h : R.Inv s t) (env : Env) (id : String) (c : Int) (r : Rec)
    (hok : R.okOp (.store id c r))
    (htrue : (R.step s env (.store id c r)).res.proj = .stored true none)
    (between : List (Op × Env)) (hbetween : ∀ oe ∈ between, R.okOp oe.1)
    (env' : Env) (hf : R.faultOf env' = false) (hokL : R.okOp (.load id c)) :
    ∃ r', R.norm (.store id c r) = .store id c r' ∧
      (R.step (runOut R.step (R.step s env (.store id c r)).st between).1 env' (.load id c)).res = .loaded (some r') := by
  obtain ⟨h1, h2⟩ := R.sim s t env _ hok h
  obtain ⟨r', hr'⟩ := R.normStore id c r
  refine ⟨r', hr', ?_⟩
  rw [hr'] at h1 h2
  rw [htrue] at h1
  -- the specification stored the record
  have hstored : (t.stepF (.store id c r') (R.faultOf env)).1.load id c = some r' := by
    unfold Table.stepF at h1 ⊢
    split at h1
    · simp [Res.proj] at h1
    · rename_i hfault
      simp only [hfault, if_false]
      simp only [Table.step, Res.proj, Res.stored.injEq, and_true] at h1
      have hnone := (Table.store_true_iff t id c r').mp h1.symm
      simp only [Table.step]
      exact Table.load_after_store t id c r' hnone
  obtain ⟨_, h3⟩ := R.run_sim _ _ h2 between hbetween
  have hstill := Table.run_load_stable _ (R.specOps between) hstored
  generalize ((t.stepF (.store id c r') (R.faultOf env)).1.run (R.specOps between)).1 = t3 at h3 hstill
  obtain ⟨h4, _⟩ := R.sim _ _ env' (.load id c) hokL h3
  rw [R.normLoad, hf] at h4
  simp only [Table.stepF, Bool.false_eq_true, if_false, Table.step, hstill] at h4
  -- a `loaded` result is its own projection
  cases hres : (R.step (runOut R.step (R.step s env (Op.store id c r)).st between).1 env' (Op.load id c)).res with
  | stored ok e => rw [hres] at h4; simp [Res.proj] at h4
  | loaded x => rw [hres] at h4; simpa [Res.proj] using h4
  | fail e => rw [hres] at h4; simp [Res.proj] at h4
  | panic => rw [hres] at h4; simp [Res.proj] at h4

end Refinement

/-! ### the four backends as refinements -/

def memStepOut (m : Mem) (_ : Env) (op : Op) : Out Mem := ⟨(m.step op).1, (m.step op).2, []⟩

def memRefinement : Refinement Mem where
  step := memStepOut
  faultOf := fun _ => false
  norm := id
  normStore := fun _ _ r => ⟨r, rfl⟩
  normLoad := fun _ _ => rfl
  normLatest := fun _ => rfl
  okOp := fun _ => True
  Inv := fun m t => Mem.Inv m ∧ Table.Equiv m.abs t
  abs := Mem.abs
  abs_equiv := fun _ _ h => h.2
  sim := by
    intro m t env op _ h
    obtain ⟨h1, h2, h3⟩ := Mem.step_sim h.1 h.2 op
    simp only [memStepOut, Table.stepF, Bool.false_eq_true, if_false, id]
    exact ⟨by rw [h1], h2, h3⟩

def sqlRefinement (N : Names) (okN : NamesOK N) (ms : SqlMs) (dialect : Dialect) (ok : SqlOK ms dialect) : Refinement Sql where
  step := sqlStep N ms
  faultOf := Env.fault
  norm := Op.eraseId
  normStore := fun _ _ r => ⟨r.eraseId, rfl⟩
  normLoad := fun _ _ => rfl
  normLatest := fun _ => rfl
  okOp := fun _ => True
  Inv := fun db t => db.dialect = dialect ∧ SqlInv N db t
  abs := Sql.abs N
  abs_equiv := fun _ _ h => by rw [abs_of_inv okN h.2]; exact Table.Equiv.refl _
  sim := by
    intro db t env op _ h
    obtain ⟨hd, hinv⟩ := h
    have ok' : SqlOK ms db.dialect := by rw [hd]; exact ok
    obtain ⟨h1, h2, h3⟩ := sql_step_sim okN ok' hinv env op
    exact ⟨h1, by rw [h2]; exact hd, h3⟩

def ddbRefinement (L : DdbLits) (C : DdbCodec) (ok : DdbOK L C) (table : String) : Refinement Ddb where
  step := ddbStep L C table
  faultOf := Env.fault
  norm := Op.eraseId
  normStore := fun _ _ r => ⟨r.eraseId, rfl⟩
  normLoad := fun _ _ => rfl
  normLatest := fun _ => rfl
  okOp := fun op => op.id ≠ ""
  Inv := fun d t => d.table = table ∧ DdbInv L C d t
  abs := fun d => d.abs C (projKeyRecord L)
  abs_equiv := fun _ _ h => by rw [abs_of_ddbInv ok h.2]; exact Table.Equiv.refl _
  sim := by
    intro d t env op hop h
    obtain ⟨ht, hinv⟩ := h
    subst ht
    obtain ⟨h1, h2, h3⟩ := ddb_step_sim ok hinv env op hop
    exact ⟨h1, h2, h3⟩

end AsherahVerif.Metastore
