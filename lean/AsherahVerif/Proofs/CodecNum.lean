import AsherahVerif.Model.Codec
/-
decimal integers: printing then parsing is the identity (JSON number literals, DynamoDB `N`
attributes), int64 range check included.
-/
namespace AsherahVerif.Codec

theorem digit_facts : ∀ d : Fin 10, digitVal (digitChar d.val) = d.val ∧ isDigit (digitChar d.val) = true ∧
    digitChar d.val ≠ '-' ∧ digitChar d.val ≠ '+' ∧ (digitChar d.val = '0' → d.val = 0) := by decide

theorem digitVal_digitChar (d : Nat) (h : d < 10) : digitVal (digitChar d) = d := (digit_facts ⟨d, h⟩).1
theorem isDigit_digitChar (d : Nat) (h : d < 10) : isDigit (digitChar d) = true := (digit_facts ⟨d, h⟩).2.1
theorem digitChar_ne_minus (d : Nat) (h : d < 10) : digitChar d ≠ '-' := (digit_facts ⟨d, h⟩).2.2.1
theorem digitChar_ne_plus (d : Nat) (h : d < 10) : digitChar d ≠ '+' := (digit_facts ⟨d, h⟩).2.2.2.1
theorem digitChar_zero (d : Nat) (h : d < 10) (hz : digitChar d = '0') : d = 0 := (digit_facts ⟨d, h⟩).2.2.2.2 hz

theorem digitsVal_append (xs : Str) (c : Char) : digitsVal (xs ++ [c]) = digitsVal xs * 10 + digitVal c := by
  simp [digitsVal, List.foldl_append]

/-- everything the parsers need to know about the printed digits. -/
theorem natDigitsF_spec : ∀ (f n : Nat), n < f →
    natDigitsF f n ≠ [] ∧ (∀ c ∈ natDigitsF f n, isDigit c = true) ∧ digitsVal (natDigitsF f n) = n ∧
    ((natDigitsF f n).head? = some '0' → n = 0) ∧ (n < 10 → (natDigitsF f n).length = 1) := by
  intro f
  induction f with
  | zero => intro n h; omega
  | succ f ih =>
    intro n h
    unfold natDigitsF
    by_cases h10 : n < 10
    · simp only [h10, if_true]
      refine ⟨by simp, ?_, ?_, ?_, by simp⟩
      · intro c hc; simp at hc; rw [hc]; exact isDigit_digitChar n h10
      · simp [digitsVal, digitVal_digitChar n h10]
      · intro hh; simp at hh; exact digitChar_zero n h10 hh
    · simp only [h10, if_false]
      obtain ⟨h1, h2, h3, h4, _⟩ := ih (n / 10) (by omega)
      refine ⟨by simp, ?_, ?_, ?_, by intro h; first | exact h.elim | exact absurd h h10⟩
      · intro c hc
        simp at hc
        rcases hc with hc | hc
        · exact h2 c hc
        · rw [hc]; exact isDigit_digitChar _ (by omega)
      · rw [digitsVal_append, h3, digitVal_digitChar _ (by omega)]; omega
      · intro hh
        have : (natDigitsF f (n / 10) ++ [digitChar (n % 10)]).head? = (natDigitsF f (n / 10)).head? := by
          cases hnd : natDigitsF f (n / 10) with
          | nil => exact absurd hnd h1
          | cons a t => simp
        rw [this] at hh
        have := h4 hh
        omega

theorem natDigits_spec (n : Nat) :
    natDigits n ≠ [] ∧ (∀ c ∈ natDigits n, isDigit c = true) ∧ digitsVal (natDigits n) = n ∧
    ((natDigits n).head? = some '0' → n = 0) ∧ (n < 10 → (natDigits n).length = 1) :=
  natDigitsF_spec (n + 1) n (by omega)

/-- `rest` cannot continue a number literal. -/
def numEnd (rest : Str) : Prop :=
  ∀ c r, rest = c :: r → isDigit c = false ∧ c ≠ '.' ∧ c ≠ 'e' ∧ c ≠ 'E'

theorem spanDigits_append (ds rest : Str) (hd : ∀ c ∈ ds, isDigit c = true)
    (hr : ∀ c r, rest = c :: r → isDigit c = false) : spanDigits (ds ++ rest) = (ds, rest) := by
  induction ds with
  | nil =>
    cases rest with
    | nil => rfl
    | cons c r => simp [spanDigits, hr c r rfl]
  | cons a t ih =>
    have ha := hd a (by simp)
    simp only [List.cons_append, spanDigits, ha, if_true]
    rw [ih (fun c hc => hd c (by simp [hc]))]

theorem natDigits_head_ne_minus (n : Nat) : ∀ r, natDigits n ≠ '-' :: r := by
  intro r h
  obtain ⟨_, h2, _⟩ := natDigits_spec n
  have := h2 '-' (by rw [h]; simp)
  exact absurd this (by decide)

theorem natDigits_head_ne_plus (n : Nat) : ∀ r, natDigits n ≠ '+' :: r := by
  intro r h
  obtain ⟨_, h2, _⟩ := natDigits_spec n
  have := h2 '+' (by rw [h]; simp)
  exact absurd this (by decide)

/-- no leading zero in printed numbers with more than one digit. -/
theorem natDigits_no_leading_zero (n : Nat) : ¬ ((natDigits n).length > 1 ∧ (natDigits n).head? = some '0') := by
  intro ⟨hl, hh⟩
  obtain ⟨_, _, _, h4, h5⟩ := natDigits_spec n
  have := h4 hh
  have := h5 (by omega)
  omega

theorem signOf_natDigits (n : Nat) (rest : Str) : signOf (natDigits n ++ rest) = (false, natDigits n ++ rest) := by
  obtain ⟨h1, _⟩ := natDigits_spec n
  cases hnd : natDigits n with
  | nil => exact absurd hnd h1
  | cons a t =>
    simp only [List.cons_append]
    unfold signOf
    split
    · rename_i r heq
      injection heq with ha _
      exact absurd (ha ▸ hnd) (natDigits_head_ne_minus n t)
    · rfl

theorem parseNumBody_natDigits (neg : Bool) (n : Nat) (rest : Str) (hr : numEnd rest) :
    parseNumBody neg (natDigits n ++ rest) = some (if neg then -(n : Int) else (n : Int), rest) := by
  obtain ⟨h1, h2, h3, _, _⟩ := natDigits_spec n
  unfold parseNumBody
  rw [spanDigits_append _ _ h2 (fun c r h => (hr c r h).1)]
  cases hnd : natDigits n with
  | nil => exact absurd hnd h1
  | cons a t =>
    simp only
    have hz := natDigits_no_leading_zero n
    rw [hnd] at hz h3
    simp only [hz, if_false, h3]
    cases rest with
    | nil => rfl
    | cons c r =>
      obtain ⟨_, hc1, hc2, hc3⟩ := hr c r rfl
      simp [hc1, hc2, hc3]

theorem parseNum_nat (n : Nat) (rest : Str) (hr : numEnd rest) :
    parseNum (natDigits n ++ rest) = some ((n : Int), rest) := by
  unfold parseNum
  rw [signOf_natDigits]
  simpa using parseNumBody_natDigits false n rest hr

theorem parseNum_negnat (n : Nat) (rest : Str) (hr : numEnd rest) :
    parseNum ('-' :: natDigits n ++ rest) = some (-(n : Int), rest) := by
  unfold parseNum
  simp only [List.cons_append, signOf]
  simpa using parseNumBody_natDigits true n rest hr

/-- **JSON integers round trip**. -/
theorem parseNum_intDigits (i : Int) (rest : Str) (hr : numEnd rest) :
    parseNum (intDigits i ++ rest) = some (i, rest) := by
  unfold intDigits
  by_cases h : i < 0
  · simp only [h, if_true]
    rw [parseNum_negnat _ _ hr]
    congr 2; omega
  · simp only [h, if_false]
    rw [parseNum_nat _ _ hr]
    congr 2; omega

theorem int64OfInt_toInt (x : Int64) : int64OfInt x.toInt = some x := by
  unfold int64OfInt
  have h1 := Int64.le_toInt x
  have h2 := Int64.toInt_lt x
  have : -9223372036854775808 ≤ x.toInt ∧ x.toInt ≤ 9223372036854775807 := by omega
  simp only [this, and_self, if_true, Int64.ofInt_toInt]

theorem signOf64_natDigits (n : Nat) : signOf64 (natDigits n) = (false, natDigits n) := by
  unfold signOf64
  split
  · rename_i r heq; exact absurd heq (natDigits_head_ne_minus _ r)
  · rename_i r heq; exact absurd heq (natDigits_head_ne_plus _ r)
  · rfl

theorem parseInt64Body_natDigits (neg : Bool) (n : Nat) :
    parseInt64Body neg (natDigits n) = int64OfInt (if neg then -(n : Int) else (n : Int)) := by
  obtain ⟨h1, h2, h3, _, _⟩ := natDigits_spec n
  unfold parseInt64Body
  have := spanDigits_append (natDigits n) [] h2 (by intro c r hh; cases hh)
  rw [List.append_nil] at this
  rw [this]
  cases hnd : natDigits n with
  | nil => exact absurd hnd h1
  | cons a t =>
    simp only
    rw [hnd] at h3
    rw [h3]

/-- **DynamoDB `N` attributes round trip** (and anything else printed by `intDigits` and read with
ParseInt semantics). -/
theorem parseInt64Str_intDigits (x : Int64) : parseInt64Str (intDigits x.toInt) = some x := by
  unfold parseInt64Str intDigits
  by_cases h : x.toInt < 0
  · simp only [h, if_true, signOf64]
    rw [parseInt64Body_natDigits]
    have : -((x.toInt.natAbs : Nat) : Int) = x.toInt := by omega
    simp only [if_true, this]; exact int64OfInt_toInt x
  · simp only [h, if_false]
    rw [signOf64_natDigits, parseInt64Body_natDigits]
    have : ((x.toInt.toNat : Nat) : Int) = x.toInt := by omega
    simp only [Bool.false_eq_true, if_false, this]; exact int64OfInt_toInt x

end AsherahVerif.Codec
