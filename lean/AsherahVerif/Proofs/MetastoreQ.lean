import AsherahVerif.Proofs.MetastoreCodec
/-
`SQLMetastoreDBType.q`: the i-th `?` of ANY string becomes `$i` / `:i`, nothing else changes.
-/
namespace AsherahVerif.Metastore

/-- the text split at every `?` (k question marks give k+1 pieces) -/
def pieces : List Char → List (List Char)
  | [] => [[]]
  | c :: cs =>
    match pieces cs with
    | [] => [[c]]                      -- (never: `pieces` is non-empty)
    | p :: ps => if c = '?' then [] :: p :: ps else (c :: p) :: ps

/-- pieces joined by the markers `pref(n+1)`, `pref(n+2)`, … -/
def joinMarkers (pref : Char) : Nat → List (List Char) → List Char
  | _, [] => []
  | _, [p] => p
  | n, p :: q :: rest => p ++ (pref :: natDigits (n + 1)) ++ joinMarkers pref (n + 1) (q :: rest)

/-- pieces joined by `?` again -/
def joinQ : List (List Char) → List Char
  | [] => []
  | [p] => p
  | p :: q :: rest => p ++ '?' :: joinQ (q :: rest)

theorem pieces_ne_nil (s : List Char) : pieces s ≠ [] := by
  induction s with
  | nil => simp [pieces]
  | cons c cs ih =>
    simp only [pieces]
    split
    · simp
    · split <;> simp

theorem pieces_length (s : List Char) : (pieces s).length = s.count '?' + 1 := by
  induction s with
  | nil => simp [pieces]
  | cons c cs ih =>
    simp only [pieces]
    cases hp : pieces cs with
    | nil => exact absurd hp (pieces_ne_nil cs)
    | cons p ps =>
      rw [hp] at ih
      simp only [List.length_cons] at ih
      by_cases hc : c = '?'
      · subst hc; simp [List.count_cons]; omega
      · have : ¬ ('?' = c) := fun h => hc h.symm
        simp [hc, List.count_cons, this]; omega

theorem joinQ_pieces (s : List Char) : joinQ (pieces s) = s := by
  induction s with
  | nil => simp [pieces, joinQ]
  | cons c cs ih =>
    simp only [pieces]
    cases hp : pieces cs with
    | nil => exact absurd hp (pieces_ne_nil cs)
    | cons p ps =>
      rw [hp] at ih
      by_cases hc : c = '?'
      · subst hc; simp [joinQ, ih]
      · simp only [hc, if_false]
        cases ps with
        | nil => simp only [joinQ] at ih ⊢; rw [ih]
        | cons q rest => simp only [joinQ, List.cons_append] at ih ⊢; rw [ih]

theorem pieces_no_qmark (s : List Char) : ∀ p ∈ pieces s, '?' ∉ p := by
  induction s with
  | nil => simp [pieces]
  | cons c cs ih =>
    simp only [pieces]
    cases hp : pieces cs with
    | nil => exact absurd hp (pieces_ne_nil cs)
    | cons p ps =>
      rw [hp] at ih
      by_cases hc : c = '?'
      · simp only [hc, if_true]
        intro x hx
        rcases List.mem_cons.mp hx with h | h
        · subst h; simp
        · exact ih x h
      · simp only [hc, if_false]
        intro x hx
        rcases List.mem_cons.mp hx with h | h
        · subst h
          intro hm
          rcases List.mem_cons.mp hm with h1 | h1
          · exact hc h1.symm
          · exact ih p List.mem_cons_self h1
        · exact ih x (List.mem_cons_of_mem _ h)

/-- **structure of the rewriting**, for every string: the pieces between the question marks are
untouched and the i-th question mark (counting from `n+1`) is replaced by `pref` and the decimal i. -/
theorem qRewrite_eq_joinMarkers (pref : Char) (n : Nat) (s : List Char) :
    qRewrite pref n s = joinMarkers pref n (pieces s) := by
  induction s generalizing n with
  | nil => simp [qRewrite, pieces, joinMarkers]
  | cons c cs ih =>
    simp only [qRewrite, pieces]
    cases hp : pieces cs with
    | nil => exact absurd hp (pieces_ne_nil cs)
    | cons p ps =>
      by_cases hc : c = '?'
      · simp only [hc, if_true]
        rw [ih (n + 1), hp]
        simp [joinMarkers]
      · simp only [hc, if_false]
        rw [ih n, hp]
        cases ps with
        | nil => simp [joinMarkers]
        | cons q rest => simp [joinMarkers]

/-- no question mark is left over (the markers are `pref` and digits) -/
theorem qRewrite_no_qmark (pref : Char) (hp : pref ≠ '?') (n : Nat) (s : List Char) : '?' ∉ qRewrite pref n s := by
  induction s generalizing n with
  | nil => simp [qRewrite]
  | cons c cs ih =>
    simp only [qRewrite]
    split
    · intro hm
      simp only [List.cons_append, List.mem_cons, List.mem_append] at hm
      rcases hm with h | h | h
      · exact hp h.symm
      · obtain ⟨d, hd, hc⟩ := natDigits_digits (n + 1) '?' h
        exact digitChar_ne_qmark hd hc.symm
      · exact ih (n + 1) h
    · rename_i hc
      intro hm
      rcases List.mem_cons.mp hm with h | h
      · exact hc h.symm
      · exact ih n h

end AsherahVerif.Metastore
