import AsherahVerif.Proofs.EnvFootprint
/-
`NoPanic x`: the computation `x` never ends in the explicit `panic` outcome, from any world.
Compositional, in the style of `Extends`; proved for every function of the envelope model.
-/
set_option linter.unusedVariables false
namespace AsherahVerif.Env

structure NoPanic {α : Type} (x : M α) : Prop where
  np : ∀ w, (x w).1 ≠ .error .panic

theorem NoPanic.pure {α : Type} (a : α) : NoPanic (pure a : M α) := ⟨fun w h => by cases h⟩
theorem NoPanic.throw {α : Type} (e : Err) (he : e ≠ .panic) : NoPanic (throw e : M α) := ⟨fun w h => by
  simp only [throw_run] at h; cases h; exact he rfl⟩
theorem NoPanic.get : NoPanic get := ⟨fun w h => by cases h⟩
theorem NoPanic.modify (f : World → World) : NoPanic (modify f) := ⟨fun w h => by cases h⟩

theorem NoPanic.bind {α β : Type} {x : M α} {f : α → M β} (hx : NoPanic x) (hf : ∀ a, NoPanic (f a)) :
    NoPanic (x >>= f) := by
  constructor
  intro w
  have h1 := hx.np w
  simp only [bind_run]
  cases hr : x w with
  | mk r w' =>
    rw [hr] at h1
    cases r with
    | ok a => exact (hf a).np w'
    | error e => simpa using h1

theorem NoPanic.finallyDo {α : Type} {x : M α} {fin : M Unit} (hx : NoPanic x) : NoPanic (finallyDo x fin) := by
  constructor; intro w; simp only [finallyDo_run]; exact hx.np w

theorem NoPanic.tryM {α : Type} {x : M α} : NoPanic (tryM x) := by
  constructor; intro w h; simp only [tryM_run] at h; cases h

/-- `tryM x` hands on an outcome of `x`, which is not a panic when `x` never panics. -/
theorem NoPanic.tryM_bind {α β : Type} {x : M α} {f : Except Err α → M β} (hx : NoPanic x)
    (hf : ∀ r, r ≠ .error .panic → NoPanic (f r)) : NoPanic (Env.tryM x >>= f) := by
  constructor
  intro w
  simp only [bind_run, tryM_run]
  exact (hf _ (hx.np w)).np _

/-- a computation that always succeeds. -/
theorem NoPanic.of_ok {α : Type} {x : M α} (h : ∀ w, ∃ a, (x w).1 = .ok a) : NoPanic x := by
  constructor; intro w hp; obtain ⟨a, ha⟩ := h w; rw [ha] at hp; cases hp

theorem takeFault_np : NoPanic takeFault := NoPanic.of_ok takeFault_ok
theorem logCall_np (c : Call) : NoPanic (logCall c) := NoPanic.modify _
theorem setCache_np (c : Nat) (kc : KeyCache) : NoPanic (setCache c kc) := NoPanic.modify _
theorem getCache_np (c : Nat) : NoPanic (getCache c) := ⟨fun w h => by cases h⟩
theorem keyObj_np (o : Nat) : NoPanic (keyObj o) := ⟨fun w h => by cases h⟩
theorem addCache_np (kc : KeyCache) : NoPanic (addCache kc) := ⟨fun w h => by cases h⟩
theorem newBuf_np (m : Nat) : NoPanic (newBuf m) := ⟨fun w h => by cases h⟩
theorem wipeBuf_np (b : Nat) : NoPanic (wipeBuf b) := NoPanic.modify _
theorem newKeyObj_np (c : Int) (r : Bool) (m s : Nat) : NoPanic (newKeyObj c r m s) := ⟨fun w h => by cases h⟩
theorem secretClose_np (s : Nat) : NoPanic (secretClose s) := NoPanic.modify _
theorem keyIncr_np (o : Nat) : NoPanic (keyIncr o) := NoPanic.modify _
theorem keyWrap_np (o : Nat) : NoPanic (keyWrap o) := NoPanic.modify _
theorem beginOp_np (fl : List Fault) : NoPanic (beginOp fl) := NoPanic.modify _
theorem lam_ok_np {α : Type} (f : World → α) (g : World → World) :
    NoPanic (fun w => ((.ok (f w), g w) : Except Err α × World)) := ⟨fun w h => by cases h⟩

macro "np_step" : tactic => `(tactic| first
  | with_reducible exact NoPanic.pure _
  | ((with_reducible apply NoPanic.throw); first | (intro h; cases h; done) | (intro h; subst h; contradiction))
  | with_reducible exact NoPanic.get | with_reducible exact NoPanic.modify _
  | with_reducible exact takeFault_np | with_reducible exact logCall_np _
  | with_reducible exact setCache_np _ _ | with_reducible exact getCache_np _
  | with_reducible exact keyObj_np _ | with_reducible exact addCache_np _
  | with_reducible exact newBuf_np _ | with_reducible exact wipeBuf_np _
  | with_reducible exact newKeyObj_np _ _ _ _ | with_reducible exact secretClose_np _
  | with_reducible exact keyIncr_np _ | with_reducible exact keyWrap_np _ | with_reducible exact beginOp_np _
  | with_reducible exact NoPanic.tryM
  | with_reducible assumption
  | with_reducible apply NoPanic.finallyDo | with_reducible apply NoPanic.tryM_bind | with_reducible apply NoPanic.bind
  | (with_reducible intro _) | split | dsimp only)

syntax "np_auto" ("[" Lean.Parser.Tactic.SolveByElim.arg,* "]")? : tactic
macro_rules
  | `(tactic| np_auto) => `(tactic| repeat (any_goals np_step))
  | `(tactic| np_auto [$ls,*]) => `(tactic| repeat (any_goals (first | np_step | with_reducible apply_rules [$ls,*])))

theorem msLoad_np (m : KeyMeta) : NoPanic (msLoad m) := by unfold msLoad; np_auto
theorem msLoadLatest_np (k : KeyId) : NoPanic (msLoadLatest k) := by unfold msLoadLatest; np_auto
theorem msStore_np (r : Row) : NoPanic (msStore r) := by unfold msStore; np_auto
theorem secretNew_np (b m : Nat) : NoPanic (secretNew b m) := by
  unfold secretNew; np_auto
  exact NoPanic.bind (logCall_np _) fun _ => lam_ok_np _ _
theorem secretRandom_np : NoPanic secretRandom := by
  unfold secretRandom; np_auto
  exact NoPanic.bind (logCall_np _) fun _ => lam_ok_np _ _
theorem keyCloseRaw_np (o : Nat) : NoPanic (keyCloseRaw o) := by unfold keyCloseRaw; np_auto
theorem keyRelease_np (o : Nat) : NoPanic (keyRelease o) := by unfold keyRelease; np_auto [keyCloseRaw_np]
theorem withKey_np {α : Type} (o : Nat) (f : Nat → M α) (hf : ∀ m, NoPanic (f m)) : NoPanic (withKey o f) := by
  unfold withKey; np_auto [hf]
theorem kmsEncrypt_np (m : Nat) : NoPanic (kmsEncrypt m) := by unfold kmsEncrypt; np_auto
theorem kmsDecrypt_np (c : Ct) : NoPanic (kmsDecrypt c) := by unfold kmsDecrypt; np_auto
theorem aeadEncrypt_np (pt : Pt) (k : Nat) : NoPanic (aeadEncrypt pt k) := by
  unfold aeadEncrypt; np_auto
  exact NoPanic.bind (logCall_np _) fun _ => lam_ok_np _ _
theorem aeadDecrypt_np (c : Ct) (k : Nat) : NoPanic (aeadDecrypt c k) := by unfold aeadDecrypt; np_auto
theorem releaseAll_np (l : List Nat) : NoPanic (releaseAll l) := by
  induction l with
  | nil => exact NoPanic.pure _
  | cons v rest ih => unfold releaseAll; np_auto [keyRelease_np]
theorem cacheGet_np (c : Nat) (m : KeyMeta) : NoPanic (cacheGet c m) := by unfold cacheGet; np_auto
theorem cacheSet_np (c : Nat) (m : KeyMeta) (e : CEntry) : NoPanic (cacheSet c m e) := by
  unfold cacheSet; np_auto [releaseAll_np]
theorem cacheRead_np (c : Nat) (m : KeyMeta) : NoPanic (cacheRead c m) := by
  unfold cacheRead; np_auto [cacheGet_np]
theorem getFresh_np (c : Nat) (m : KeyMeta) (i : Int) : NoPanic (getFresh c m i) := by
  unfold getFresh; np_auto [cacheRead_np]
theorem cacheWrite_np (c : Nat) (m : KeyMeta) (e : CEntry) : NoPanic (cacheWrite c m e) := by
  unfold cacheWrite; np_auto [cacheGet_np, cacheSet_np, keyRelease_np]
theorem cacheLoad_np (c : Nat) (m : KeyMeta) (loader : KeyMeta → M Nat) (hl : ∀ m, NoPanic (loader m)) :
    NoPanic (cacheLoad c m loader) := by
  unfold cacheLoad; np_auto [cacheRead_np, cacheWrite_np, keyCloseRaw_np, hl]
theorem getOrLoad_np (c : Nat) (m : KeyMeta) (i : Int) (loader : KeyMeta → M Nat) (hl : ∀ m, NoPanic (loader m)) :
    NoPanic (getOrLoad c m i loader) := by
  unfold getOrLoad; np_auto [getFresh_np, cacheLoad_np, hl]
theorem getOrLoadLatest_np (c : Nat) (k : KeyId) (i e : Int) (loader : KeyMeta → M Nat)
    (hl : ∀ m, NoPanic (loader m)) : NoPanic (getOrLoadLatest c k i e loader) := by
  unfold getOrLoadLatest; np_auto [getFresh_np, cacheLoad_np, cacheWrite_np, hl]
theorem cacheClose_np (c : Nat) : NoPanic (cacheClose c) := by unfold cacheClose; np_auto [releaseAll_np]
theorem generateKey_np (x : Ctx) : NoPanic (generateKey x) := by unfold generateKey; np_auto [secretRandom_np]
theorem systemKeyFromEKR_np (r : Row) : NoPanic (systemKeyFromEKR r) := by
  unfold systemKeyFromEKR; np_auto [kmsDecrypt_np, secretNew_np]
theorem loadSystemKey_np (m : KeyMeta) : NoPanic (loadSystemKey m) := by
  unfold loadSystemKey; np_auto [msLoad_np, systemKeyFromEKR_np]
theorem getOrLoadSystemKey_np (x : Ctx) (m : KeyMeta) : NoPanic (getOrLoadSystemKey x m) := by
  unfold getOrLoadSystemKey; exact getOrLoad_np _ _ _ _ loadSystemKey_np
theorem tryStoreSystemKey_np (sk : Nat) : NoPanic (tryStoreSystemKey sk) := by
  unfold tryStoreSystemKey
  np_auto [msStore_np]
  exact withKey_np _ _ fun m => kmsEncrypt_np m
theorem mustLoadLatest_np (k : KeyId) : NoPanic (mustLoadLatest k) := by
  unfold mustLoadLatest; np_auto [msLoadLatest_np]
theorem createSK_np (x : Ctx) : NoPanic (loadLatestOrCreateSystemKey.createSK x) := by
  unfold loadLatestOrCreateSystemKey.createSK
  np_auto [generateKey_np, keyCloseRaw_np, mustLoadLatest_np, systemKeyFromEKR_np, tryStoreSystemKey_np]
theorem loadLatestOrCreateSystemKey_np (x : Ctx) : NoPanic (loadLatestOrCreateSystemKey x) := by
  unfold loadLatestOrCreateSystemKey
  np_auto [msLoadLatest_np, systemKeyFromEKR_np, createSK_np]
theorem withKey_aeadDecrypt_np (o : Nat) (c : Ct) : NoPanic (withKey o fun skm => aeadDecrypt c skm) :=
  withKey_np _ _ fun m => aeadDecrypt_np _ _
theorem intermediateKeyFromEKR_np (x : Ctx) (sk : Nat) (r : Row) (b : Bool) :
    NoPanic (intermediateKeyFromEKR x sk r b) := by
  unfold intermediateKeyFromEKR
  np_auto [getOrLoadSystemKey_np, withKey_aeadDecrypt_np, secretNew_np]
theorem tryStoreIntermediateKey_np (x : Ctx) (ik sk : Nat) : NoPanic (tryStoreIntermediateKey x ik sk) := by
  unfold tryStoreIntermediateKey
  np_auto [msStore_np]
  exact withKey_np _ _ fun ikm => withKey_np _ _ fun skm => aeadEncrypt_np _ _
theorem createIntermediateKey_np (x : Ctx) (b : Bool) : NoPanic (createIntermediateKey x b) := by
  unfold createIntermediateKey
  np_auto [generateKey_np, keyCloseRaw_np, mustLoadLatest_np, intermediateKeyFromEKR_np, tryStoreIntermediateKey_np]
  exact getOrLoadLatest_np _ _ _ _ _ fun _ => loadLatestOrCreateSystemKey_np x
theorem getValidIntermediateKey_np (x : Ctx) (sk : Nat) (r : Row) (b : Bool) :
    NoPanic (getValidIntermediateKey x sk r b) := by
  unfold getValidIntermediateKey; np_auto [intermediateKeyFromEKR_np]
theorem loadLatestOrCreateIntermediateKey_np (x : Ctx) (b : Bool) :
    NoPanic (loadLatestOrCreateIntermediateKey x b) := by
  unfold loadLatestOrCreateIntermediateKey
  np_auto [msLoadLatest_np, createIntermediateKey_np, getValidIntermediateKey_np, getOrLoadSystemKey_np]
theorem loadIntermediateKey_np (x : Ctx) (m : KeyMeta) (b : Bool) : NoPanic (loadIntermediateKey x m b) := by
  unfold loadIntermediateKey
  np_auto [msLoad_np, getOrLoadSystemKey_np, intermediateKeyFromEKR_np]
theorem encryptPayload_np (x : Ctx) (p : Nat) (b : Bool) : NoPanic (encryptPayload x p b) := by
  unfold encryptPayload
  apply NoPanic.bind
  · exact getOrLoadLatest_np _ _ _ _ _ fun _ => loadLatestOrCreateIntermediateKey_np x b
  · intro ik
    apply NoPanic.finallyDo
    np_auto [secretRandom_np]
    · exact withKey_np _ _ fun dm => aeadEncrypt_np _ _
    · exact withKey_np _ _ fun im => withKey_np _ _ fun dm => aeadEncrypt_np _ _
theorem decryptRow_np (ik : Nat) (dk : DrrKey) (data : Ct) : NoPanic (decryptRow ik dk data) := by
  unfold decryptRow
  apply withKey_np
  intro im
  np_auto [aeadDecrypt_np]
theorem getOrLoadIK_np (x : Ctx) (p : KeyMeta) (b : Bool) :
    NoPanic (getOrLoad x.ikCache p x.pol.revokeInterval (fun m => loadIntermediateKey x m b)) :=
  getOrLoad_np _ _ _ _ fun m => loadIntermediateKey_np x m b
theorem decryptDataRowRecord_np (x : Ctx) (d : Drr) (b : Bool) : NoPanic (decryptDataRowRecord x d b) := by
  unfold decryptDataRowRecord
  np_auto [decryptRow_np, getOrLoadIK_np]
theorem encrypt_np (s p : Nat) (fl : List Fault) (b : Bool) : NoPanic (encrypt s p fl b) := by
  unfold encrypt; np_auto [encryptPayload_np]
theorem decrypt_np (s : Nat) (d : Drr) (fl : List Fault) (b : Bool) : NoPanic (decrypt s d fl b) := by
  unfold decrypt; np_auto [decryptDataRowRecord_np]
theorem newFactory_np (p : Policy) (a b c d : Nat) : NoPanic (newFactory p a b c d) := by
  unfold newFactory; np_auto
  all_goals exact NoPanic.bind (NoPanic.pure _) fun _ => lam_ok_np _ _
theorem getSession_np (f part c d : Nat) : NoPanic (getSession f part c d) := by
  unfold getSession; np_auto
  · exact NoPanic.bind (NoPanic.pure _) fun _ => lam_ok_np _ _
  · exact NoPanic.bind (addCache_np _) fun _ => lam_ok_np _ _
theorem closeSession_np (s : Nat) : NoPanic (closeSession s) := by
  unfold closeSession; np_auto [cacheClose_np]
theorem closeFactory_np (f : Nat) : NoPanic (closeFactory f) := by
  unfold closeFactory; np_auto [cacheClose_np]

theorem advance_np (d : Nat) : NoPanic (advance d) := NoPanic.modify _
theorem revoke_np (m : KeyMeta) : NoPanic (revoke m) := NoPanic.modify _
theorem corruptRow_np (m : KeyMeta) (dp : Bool) : NoPanic (corruptRow m dp) := NoPanic.modify _

/-- the `wrap` of `applyOp` never manufactures a panic. -/
theorem applyOp_np (w : World) (op : Op) : (applyOp w op).1 ≠ .error .panic := by
  have key : ∀ {α : Type} (f : α → Out) (hf : ∀ a, f a ≠ .error .panic) (x : M α), NoPanic x →
      (match x w with
        | (.ok a, w') => (f a, w')
        | (.error e, w') => ((Out.error e : Out), w')).1 ≠ .error .panic := by
    intro α f hf x hx
    have := hx.np w
    cases hr : x w with
    | mk r w' =>
      rw [hr] at this
      cases r with
      | ok a => exact hf a
      | error e => intro h; apply this; simp only at h; cases h; rfl
  cases op with
  | newFactory p a b c d => exact key Out.id (fun _ h => by cases h) _ (newFactory_np p a b c d)
  | getSession f part c d => exact key Out.id (fun _ h => by cases h) _ (getSession_np f part c d)
  | encrypt s pay fl => exact key Out.record (fun _ h => by cases h) _ (encrypt_np s pay fl true)
  | decrypt s d fl => exact key Out.payload (fun _ h => by cases h) _ (decrypt_np s d fl true)
  | closeSession s =>
    exact key (fun _ => Out.unit) (fun _ h => by cases h) _ (NoPanic.bind (beginOp_np []) fun _ => closeSession_np s)
  | closeFactory f =>
    exact key (fun _ => Out.unit) (fun _ h => by cases h) _ (NoPanic.bind (beginOp_np []) fun _ => closeFactory_np f)
  | advance d => exact key (fun _ => Out.unit) (fun _ h => by cases h) _ (advance_np d)
  | revoke m => exact key (fun _ => Out.unit) (fun _ h => by cases h) _ (revoke_np m)
  | corruptRow m dp => exact key (fun _ => Out.unit) (fun _ h => by cases h) _ (corruptRow_np m dp)

end AsherahVerif.Env
