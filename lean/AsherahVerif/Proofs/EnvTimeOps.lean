import AsherahVerif.Proofs.EnvTimeIK
/-
`EncryptPayload` and `DecryptDataRowRecord` against the invariant `St`, and the invariant over
whole histories.
-/
set_option linter.unusedVariables false
namespace AsherahVerif.Env

/-- a step below the cache layer that neither writes the metastore nor calls it or the KMS. -/
structure QI (w w' : World) : Prop where
  qes : QES w w'
  il : IL w w'

instance : RT QI where
  refl w := ⟨RT.refl w, RT.refl w⟩
  trans h1 h2 := ⟨RT.trans h1.qes h2.qes, RT.trans h1.il h2.il⟩

theorem secretRandom_qi (w : World) : QI w (secretRandom w).2 :=
  ⟨⟨secretRandom_ext w, secretRandom_q0 w, secretRandom_ss w⟩, secretRandom_il w⟩
theorem newKeyObj_qi (c : Int) (r : Bool) (m s : Nat) (w : World) : QI w (newKeyObj c r m s w).2 :=
  ⟨⟨newKeyObj_ext c r m s w, newKeyObj_q0 c r m s w, rfl⟩, newKeyObj_il c r m s w⟩
theorem keyCloseRaw_qi (o : Nat) (w : World) : QI w (keyCloseRaw o w).2 :=
  ⟨⟨keyCloseRaw_ext o w, keyCloseRaw_q0 o w, keyCloseRaw_ss o w⟩, keyCloseRaw_il o w⟩
theorem keyRelease_qi (o : Nat) (w : World) : QI w (keyRelease o w).2 :=
  ⟨⟨keyRelease_ext o w, keyRelease_q0 o w, keyRelease_ss o w⟩, keyRelease_il o w⟩
theorem withKey_qi {α : Type} (o : Nat) (f : Nat → M α) (h1 : ∀ m, Extends (f m)) (h2 : ∀ m, Resp Q0 (f m))
    (h3 : ∀ m, Resp SS (f m)) (h4 : ∀ m, Resp IL (f m)) (w : World) : QI w (withKey o f w).2 :=
  ⟨withKey_qes o f h1 h2 h3 w, withKey_il o f h4 w⟩

theorem QI.keyAt_created {w w' : World} (h : QI w w') {k : Nat} {ko : KeyObj} (hk : w.keys[k]? = some ko) :
    (keyAt w' k).created = ko.created := by
  obtain ⟨k1, e1, c1, -⟩ := h.qes.ext.keys _ _ hk
  rw [keyAt_of_get e1, c1]

/-- the part of `EncryptPayload` after the intermediate key has been obtained: only AEAD and secret
allocation; the record names the intermediate key's stamp. -/
theorem encTail_wp (x : Ctx) (payload : Nat) (ik : Nat) (w : World) (ko : KeyObj) (hk : w.keys[ik]? = some ko) :
    Wp (finallyDo (do
        let w ← get
        let (s, m) ← secretRandom
        let drk ← newKeyObj (w.now / nsPerSec) false m s
        finallyDo (do
          let encData ← withKey drk fun dm => aeadEncrypt (.payload payload) dm
          let encKey ← withKey ik fun im => withKey drk fun dm => aeadEncrypt (.key dm) im
          let io ← keyObj ik
          let dko ← keyObj drk
          pure { key := some { created := dko.created, enc := encKey, parent := some ⟨x.ikId, io.created⟩ },
                 data := encData }) (keyCloseRaw drk)) (keyRelease ik)) w fun r w' =>
      QI w w' ∧ ∀ d : Drr, r = .ok d → drrIk d = some ⟨x.ikId, ko.created⟩ := by
  apply Wp.finallyDo
  have fin : ∀ (r : Except Err Drr) (w1 : World),
      (QI w w1 ∧ ∀ d : Drr, r = .ok d → drrIk d = some ⟨x.ikId, ko.created⟩) →
      Wp (keyRelease ik) w1 fun _ w' => QI w w' ∧ ∀ d : Drr, r = .ok d → drrIk d = some ⟨x.ikId, ko.created⟩ :=
    fun r w1 ⟨h1, h2⟩ => ⟨RT.trans h1 (keyRelease_qi ik w1), h2⟩
  refine Wp.mono ?_ fin
  apply Wp.bind; apply Wp.get; simp only []
  have q1 := secretRandom_qi w
  refine Wp.bind_world (fun e => ⟨q1, fun d hd => by cases hd⟩) (fun a => ?_)
  obtain ⟨s, m⟩ := a
  simp only []
  have q2 := RT.trans q1 (newKeyObj_qi (w.now / nsPerSec) false m s (secretRandom w).2)
  refine Wp.bind_world (fun e => ⟨q2, fun d hd => by cases hd⟩) (fun drk => ?_)
  generalize (newKeyObj (w.now / nsPerSec) false m s (secretRandom w).2).2 = w2 at q2 ⊢
  apply Wp.finallyDo
  have fin2 : ∀ (r : Except Err Drr) (w3 : World),
      (QI w w3 ∧ ∀ d : Drr, r = .ok d → drrIk d = some ⟨x.ikId, ko.created⟩) →
      Wp (keyCloseRaw drk) w3 fun _ w' => QI w w' ∧ ∀ d : Drr, r = .ok d → drrIk d = some ⟨x.ikId, ko.created⟩ :=
    fun r w3 ⟨h1, h2⟩ => ⟨RT.trans h1 (keyCloseRaw_qi drk w3), h2⟩
  refine Wp.mono ?_ fin2
  have q3 := RT.trans q2 (withKey_qi drk (fun dm => aeadEncrypt (.payload payload) dm) (fun _ => aeadEncrypt_ext _ _)
    (fun _ => aeadEncrypt_q0 _ _) (fun _ => aeadEncrypt_ss _ _) (fun _ => aeadEncrypt_il _ _) w2)
  refine Wp.bind_world (fun e => ⟨q3, fun d hd => by cases hd⟩) (fun encData => ?_)
  generalize (withKey drk (fun dm => aeadEncrypt (.payload payload) dm) w2).2 = w3 at q3 ⊢
  have q4 := RT.trans q3 (withKey_qi ik (fun im => withKey drk fun dm => aeadEncrypt (.key dm) im)
    (fun _ => withKey_ext _ _ fun _ => aeadEncrypt_ext _ _) (fun _ => withKey_q0 _ _ fun _ => aeadEncrypt_q0 _ _)
    (fun _ => withKey_ss _ _ fun _ => aeadEncrypt_ss _ _) (fun _ => withKey_il _ _ fun _ => aeadEncrypt_il _ _) w3)
  refine Wp.bind_world (fun e => ⟨q4, fun d hd => by cases hd⟩) (fun encKey => ?_)
  generalize (withKey ik (fun im => withKey drk fun dm => aeadEncrypt (.key dm) im) w3).2 = w4 at q4 ⊢
  apply Wp.bind; apply Wp.keyObj; simp only []
  apply Wp.bind; apply Wp.keyObj; simp only []
  refine ⟨q4, fun d hd => ?_⟩
  cases hd
  show some (⟨x.ikId, (keyAt w4 ik).created⟩ : KeyMeta) = _
  rw [q4.keyAt_created hk]

/-- how the intermediate key named by a record came about: a valid, fresh hit on the session's
cache (then the operation made no metastore or KMS call and left the store alone), or the loader. -/
def EncOut (ρ : RevCtx) (x : Ctx) (t : Int) (s0 : List Row) (w w' : World) (c : Int) : Prop :=
  (∃ k, Hit w x.ikCache ⟨x.ikId, 0⟩ x.pol.revokeInterval k ∧ (keyAt w k).created = c ∧
      isKeyInvalid (keyAt w k) t x.pol.expireAfter = false ∧ IL w w' ∧ w'.store = w.store) ∨
    LPik ρ x t s0 c false w'

/-- `EncryptPayload`. -/
theorem encryptPayload_wp {ρ : RevCtx} {x : Ctx} {t : Int} {s0 : List Row} (payload : Nat) (b : Bool)
    (hpos : 0 < keyTimestamp t x.pol.precision) (w : World) (h : St ρ (Delta ρ x t s0) t w) :
    Wp (encryptPayload x payload b) w fun r w' => St ρ (Delta ρ x t s0) t w' ∧ MSame w w' ∧
      ∀ d : Drr, r = .ok d → ∃ c, drrIk d = some ⟨x.ikId, c⟩ ∧ EncOut ρ x t s0 w w' c ∧
        ∃ k, (keyAt w' k).created = c ∧ ReadsBack w w' x.ikCache x.ikId k := by
  unfold encryptPayload
  apply Wp.bind
  apply Wp.mono (getOrLoadLatest_wp (LPik_mono ρ x t s0) x.ikCache x.ikId
    (loadLatestOrCreateIntermediateKey_ok b hpos) x.pol.revokeInterval x.pol.expireAfter w h)
  intro r w1 ⟨h1, hms1, hk1⟩
  cases r with
  | error e => exact ⟨h1, hms1, fun d hd => by cases hd⟩
  | ok ik =>
    simp only []
    have hcase := hk1.1 ik rfl
    have hrb := hk1.2 ik rfl
    have hex : ∃ ko : KeyObj, w1.keys[ik]? = some ko := by
      rcases hcase with ⟨hh, hw, -⟩ | ⟨ko, hko, -⟩
      · obtain ⟨-, -, ko, hko, -⟩ := hit_out h hh hw.cw
        exact ⟨ko, hko⟩
      · exact ⟨ko, hko⟩
    obtain ⟨ko, hko⟩ := hex
    apply Wp.mono (encTail_wp x payload ik w1 ko hko)
    intro r w2 ⟨hq, hd⟩
    refine ⟨h1.qes hq.qes, RT.trans hms1 hq.qes.q.msame, fun d hr => ⟨ko.created, hd d hr, ?_, ik, hq.keyAt_created hko, ?_⟩⟩
    rotate_left
    · intro hm hlen
      rcases hrb hm hlen with ⟨e, he, ho⟩ | ⟨l, hl, hlt⟩
      · left
        refine ⟨e, ?_, ho⟩
        unfold readEntry readMeta
        rw [(hq.qes.views _).1, (hq.qes.views _).2]
        exact he
      · right
        refine ⟨l, by rw [(hq.qes.views _).2]; exact hl, ?_⟩
        rw [hq.keyAt_created hko, ← keyAt_of_get hko]; exact hlt
    rcases hcase with ⟨hh, hw, hvalid⟩ | hres
    · left
      obtain ⟨-, -, ko', hko', hc, -⟩ := hit_out h hh hw.cw
      rw [hko] at hko'; cases hko'
      exact ⟨ik, hh, hc, hvalid, RT.trans (IL.of_eq hw.log) hq.il, hq.qes.store.trans hw.cw.store⟩
    · right
      obtain ⟨ko', hko', hlp, -⟩ := hres
      rw [hko] at hko'; cases hko'
      exact LPik_mono ρ x t s0 _ _ _ _ hlp hq.qes.ext

/-- `DecryptDataRowRecord` keeps the invariant. -/
theorem decryptDataRowRecord_wp {ρ : RevCtx} {D : List Row → Prop} {t : Int} (x : Ctx) (d : Drr) (b : Bool)
    (w : World) (h : St ρ D t w) :
    Wp (decryptDataRowRecord x d b) w fun r w' => St ρ D t w' ∧ MSame w w' := by
  unfold decryptDataRowRecord
  cases d.key with
  | none => exact ⟨h, RT.refl w⟩
  | some dk =>
    simp only []
    cases dk.parent with
    | none => exact ⟨h, RT.refl w⟩
    | some p =>
      simp only []
      split
      · exact ⟨h, RT.refl w⟩
      · apply Wp.bind
        apply Wp.mono (getOrLoad_wp (LP := fun _ _ _ => True) (fun _ _ _ _ h _ => h) x.ikCache p
          (loadIntermediateKey_ok x p b) x.pol.revokeInterval w h)
        intro r w1 ⟨h1, hms1, _⟩
        cases r with
        | error e => exact ⟨h1, hms1⟩
        | ok ik =>
          simp only []
          apply Wp.finallyDo
          have hq1 : QES w1 (decryptRow ik dk d.data w1).2 :=
            ⟨decryptRow_ext ik dk d.data w1, decryptRow_q0 ik dk d.data w1, decryptRow_ss ik dk d.data w1⟩
          have hq2 : QES (decryptRow ik dk d.data w1).2 (keyRelease ik (decryptRow ik dk d.data w1).2).2 :=
            ⟨keyRelease_ext _ _, keyRelease_q0 _ _, keyRelease_ss _ _⟩
          exact ⟨h1.qes (RT.trans hq1 hq2), RT.trans hms1 (RT.trans hq1 hq2).q.msame⟩

/-! ### the invariant over whole histories -/

/-- the invariant of reachable worlds (`ρ`: which row was revoked when, if any). -/
def Inv (ρ : RevCtx) (w : World) : Prop := St ρ (fun _ => True) w.now w

theorem St.weakenD {ρ : RevCtx} {D D' : List Row → Prop} {t : Int} {w : World} (h : St ρ D t w) (hd : D' w.store) :
    St ρ D' t w :=
  ⟨h.now, h.faults, h.good, h.objMeta, h.aliasKid, h.tau, ⟨h.sto.uniq, h.sto.rev, h.sto.nz, hd⟩⟩

/-- worlds that agree on everything the invariant reads, with possibly fewer cache entries. -/
theorem St.shrink {ρ : RevCtx} {D : List Row → Prop} {t : Int} {w w' : World} (h : St ρ D t w)
    (hnow : w'.now = w.now) (hf : w'.faults = []) (hext : Ext w w')
    (hrev : ∀ (i : Nat) (k : KeyObj), w.keys[i]? = some k → ∃ k' : KeyObj, w'.keys[i]? = some k' ∧ k'.revoked = k.revoked)
    (hstore : w'.store = w.store)
    (hents : ∀ c p, p ∈ entsOf w' c → p ∈ entsOf w c) (hlat : ∀ c, latestOf w' c = latestOf w c) : St ρ D t w' := by
  refine ⟨hnow.trans h.now, hf, ?_, ?_, ?_, ?_, hstore ▸ h.sto⟩
  · intro c m e hm; exact (h.good c m e (hents c _ hm)).mono hext hrev
  · intro c1 c2 m1 m2 e1 e2 h1 h2; exact h.objMeta c1 c2 m1 m2 e1 e2 (hents _ _ h1) (hents _ _ h2)
  · intro c kid m hm; rw [hlat] at hm; exact h.aliasKid c kid m hm
  · intro τ m0 hρ; rw [hnow]; exact h.tau τ m0 hρ

theorem cacheAt_addCache (kc : KeyCache) (w : World) (c : Nat) :
    cacheAt (addCache kc w).2 c = if c = w.caches.length then kc else cacheAt w c := by
  unfold cacheAt
  show (w.caches ++ [kc]).getD c default = _
  rw [List.getD_eq_getElem?_getD, List.getD_eq_getElem?_getD]
  by_cases hlt : c < w.caches.length
  · rw [List.getElem?_append_left hlt, if_neg (by omega)]
  · by_cases heq : c = w.caches.length
    · subst heq; simp
    · rw [if_neg heq, List.getElem?_eq_none (by simp; omega), List.getElem?_eq_none (by omega)]

/-- adding an empty cache changes no view. -/
theorem addCache_views (kc : KeyCache) (w : World) (h1 : kc.ents = []) (h2 : kc.latest = []) (c : Nat) :
    entsOf (addCache kc w).2 c = entsOf w c ∧ latestOf (addCache kc w).2 c = latestOf w c := by
  unfold entsOf latestOf
  rw [cacheAt_addCache]
  split
  · rename_i h
    have : cacheAt w c = default := by
      unfold cacheAt
      rw [List.getD_eq_getElem?_getD, List.getElem?_eq_none (by omega)]; rfl
    rw [this, h1, h2]; exact ⟨rfl, rfl⟩
  · exact ⟨rfl, rfl⟩

theorem St.addCache {ρ : RevCtx} {D : List Row → Prop} {t : Int} {w : World} (h : St ρ D t w) (kc : KeyCache)
    (h1 : kc.ents = []) (h2 : kc.latest = []) : St ρ D t (addCache kc w).2 :=
  h.shrink rfl h.faults (addCache_ext kc w) (fun i k hk => ⟨k, hk, rfl⟩) rfl
    (fun c p hp => by rw [(addCache_views kc w h1 h2 c).1] at hp; exact hp)
    (fun c => (addCache_views kc w h1 h2 c).2)

/-- replacing a cache by one with the same mode and aliases and no entries. -/
theorem St.clearCache {ρ : RevCtx} {D : List Row → Prop} {t : Int} {w : World} (h : St ρ D t w) (c : Nat) (kc : KeyCache)
    (hm : kc.mode = (cacheAt w c).mode) (hl : kc.latest = (cacheAt w c).latest) (he : kc.ents = []) :
    St ρ D t (setCache c kc w).2 ∧ CW w (setCache c kc w).2 := by
  obtain ⟨hcw, hl', he'⟩ := setCache_cw c kc w hm
  refine ⟨h.shrink hcw.ext.now (hcw.faults h.faults) hcw.ext hcw.rev hcw.store ?_ ?_, hcw⟩
  · intro c' p hp
    rw [he'] at hp
    split at hp
    · rw [he] at hp; cases hp
    · exact hp
  · intro c'; rw [hl']; split
    · rename_i hh; rw [hh.1]; exact hl
    · rfl

/-- `keyCache.Close` keeps the invariant. -/
theorem cacheClose_st {ρ : RevCtx} {D : List Row → Prop} {t : Int} (c : Nat) (w : World) (h : St ρ D t w) :
    St ρ D t (cacheClose c w).2 ∧ MSame w (cacheClose c w).2 := by
  unfold cacheClose
  simp only [bind_run, getCache_run]
  cases hmode : (cacheAt w c).mode with
  | never => exact ⟨h, RT.refl w⟩
  | simple =>
    simp only []
    have hq : QES w (releaseAll (List.map (fun x => x.2.obj) (cacheAt w c).ents) w).2 :=
      ⟨releaseAll_ext _ w, releaseAll_q0 _ w, releaseAll_ss _ w⟩
    exact ⟨h.qes hq, hq.q.msame⟩
  | bounded =>
    simp only []
    rw [setCache_bind_run]
    generalize hkc : ({ mode := CacheMode.bounded, latest := (cacheAt w c).latest, slots := (cacheAt w c).slots, pol := (Cache.step (cacheAt w c).pol Cache.Op.close fun x => false).cache } : KeyCache) = kc
    have hm' : kc.mode = (cacheAt w c).mode := by rw [← hkc]; exact hmode.symm
    have hl' : kc.latest = (cacheAt w c).latest := by rw [← hkc]
    have he' : kc.ents = [] := by rw [← hkc]
    obtain ⟨h1, hcw⟩ := h.clearCache c kc hm' hl' he'
    generalize (List.filterMap (fun em => Option.map (fun x => x.obj) (assocGet (cacheAt w c).ents em))
            (List.filterMap (fun x => (cacheAt w c).slots[x.fst]?)
              (Cache.step (cacheAt w c).pol Cache.Op.close fun x => false).cbs)) = vs
    have hq : QES (setCache c kc w).2 (releaseAll vs (setCache c kc w).2).2 :=
      ⟨releaseAll_ext _ _, releaseAll_q0 _ _, releaseAll_ss _ _⟩
    exact ⟨h1.qes hq, RT.trans hcw.msame hq.q.msame⟩

/-- worlds that agree on everything the invariant reads. -/
theorem St.congr {ρ : RevCtx} {D : List Row → Prop} {t : Int} {w w' : World} (h : St ρ D t w)
    (hnow : w'.now = w.now) (hf : w'.faults = w.faults) (hkeys : w'.keys = w.keys) (hstore : w'.store = w.store)
    (hv : ∀ c, entsOf w' c = entsOf w c ∧ latestOf w' c = latestOf w c) : St ρ D t w' := by
  refine ⟨hnow.trans h.now, hf.trans h.faults, ?_, ?_, ?_, ?_, hstore ▸ h.sto⟩
  · intro c m e hm
    rw [(hv c).1] at hm
    have g := h.good c m e hm
    exact ⟨by rw [hkeys]; exact g.coh, by rw [hnow]; exact g.past, by rw [hstore]; exact g.stored⟩
  · intro c1 c2 m1 m2 e1 e2 h1 h2
    rw [(hv _).1] at h1 h2
    exact h.objMeta c1 c2 m1 m2 e1 e2 h1 h2
  · intro c kid m hm; rw [(hv c).2] at hm; exact h.aliasKid c kid m hm
  · intro τ m0 hρ; rw [hnow]; exact h.tau τ m0 hρ

theorem addCache_wp {ρ : RevCtx} {D : List Row → Prop} {t : Int} (kc : KeyCache) (w : World) (h : St ρ D t w)
    (h1 : kc.ents = []) (h2 : kc.latest = []) :
    Wp (addCache kc) w fun r w' => St ρ D t w' ∧ ∃ n, r = .ok n := ⟨h.addCache kc h1 h2, _, rfl⟩

theorem newFactory_st {ρ : RevCtx} {D : List Row → Prop} {t : Int} (p : Policy) (a b c d : Nat) (w : World)
    (h : St ρ D t w) : Wp (newFactory p a b c d) w fun _ w' => St ρ D t w' := by
  unfold newFactory
  apply Wp.bind
  apply Wp.mono (addCache_wp _ w h (cacheOf_ents _ _ _ _).1 (cacheOf_ents _ _ _ _).2)
  intro r w1 ⟨h1, n, hr⟩
  subst hr
  simp only []
  split
  · apply Wp.bind
    apply Wp.mono (addCache_wp _ w1 h1 (cacheOf_ents _ _ _ _).1 (cacheOf_ents _ _ _ _).2)
    intro r w2 ⟨h2, n2, hr⟩
    subst hr
    exact h2.congr rfl rfl rfl rfl (fun _ => ⟨rfl, rfl⟩)
  · exact h1.congr rfl rfl rfl rfl (fun _ => ⟨rfl, rfl⟩)

theorem getSession_st {ρ : RevCtx} {D : List Row → Prop} {t : Int} (f part c d : Nat) (w : World)
    (h : St ρ D t w) : Wp (getSession f part c d) w fun _ w' => St ρ D t w' := by
  unfold getSession
  apply Wp.bind; apply Wp.get; simp only []
  cases (w.facs.getD f default).sharedIk with
  | some c' => exact h.congr rfl rfl rfl rfl (fun _ => ⟨rfl, rfl⟩)
  | none =>
    simp only []
    apply Wp.bind
    apply Wp.mono (addCache_wp _ w h (cacheOf_ents _ _ _ _).1 (cacheOf_ents _ _ _ _).2)
    intro r w1 ⟨h1, n, hr⟩
    subst hr
    exact h1.congr rfl rfl rfl rfl (fun _ => ⟨rfl, rfl⟩)

theorem St.beginOp {ρ : RevCtx} {D : List Row → Prop} {t : Int} {w : World} (h : St ρ D t w) :
    St ρ D t (beginOp [] w).2 :=
  h.congr rfl h.faults.symm rfl rfl (fun _ => ⟨rfl, rfl⟩)

theorem closeSession_st {ρ : RevCtx} {D : List Row → Prop} {t : Int} (s : Nat) (w : World) (h : St ρ D t w) :
    Wp (closeSession s) w fun _ w' => St ρ D t w' := by
  unfold closeSession
  apply Wp.bind; apply Wp.get; simp only []
  apply Wp.bind; apply Wp.modify; simp only []
  have h1 : St ρ D t { w with sessions := setAt w.sessions s fun x => { x with closed := true } } :=
    h.congr rfl rfl rfl rfl (fun _ => ⟨rfl, rfl⟩)
  split
  · exact h1
  · exact (cacheClose_st _ _ h1).1

theorem closeFactory_st {ρ : RevCtx} {D : List Row → Prop} {t : Int} (f : Nat) (w : World) (h : St ρ D t w) :
    Wp (closeFactory f) w fun _ w' => St ρ D t w' := by
  unfold closeFactory
  apply Wp.bind; apply Wp.get; simp only []
  apply Wp.bind; apply Wp.modify; simp only []
  have h1 : St ρ D t { w with facs := setAt w.facs f fun x => { x with closed := true } } :=
    h.congr rfl rfl rfl rfl (fun _ => ⟨rfl, rfl⟩)
  cases (w.facs.getD f default).sharedIk with
  | none =>
    simp only []
    first
      | exact (cacheClose_st _ _ h1).1
      | (apply Wp.bind; apply Wp.pure; simp only []; exact (cacheClose_st _ _ h1).1)
  | some c =>
    simp only []
    refine Wp.bind_world (fun e => (cacheClose_st _ _ h1).1) (fun _ => ?_)
    exact (cacheClose_st _ _ (cacheClose_st _ _ h1).1).1

theorem inv_advance {ρ : RevCtx} {w : World} (h : Inv ρ w) (d : Nat) : Inv ρ (advance d w).2 := by
  unfold Inv at *
  have hd : w.now ≤ w.now + (d : Int) := by omega
  refine ⟨rfl, h.faults, ?_, h.objMeta, h.aliasKid, ?_, h.sto⟩
  · intro c m e hm
    have g := h.good c m e hm
    exact ⟨g.coh, Int.le_trans g.past hd, g.stored⟩
  · intro τ m0 hρ; exact Int.le_trans (h.tau τ m0 hρ) hd

/-- the row update of `revoke`. -/
def revokeRow (m : KeyMeta) (r : Row) : Row :=
  if r.kid = m.kid ∧ r.created = m.created then { r with revoked := true } else r

theorem revokeRow_kid (m : KeyMeta) (r : Row) : (revokeRow m r).kid = r.kid ∧ (revokeRow m r).created = r.created ∧
    (revokeRow m r).parent = r.parent ∧ (r.revoked = true → (revokeRow m r).revoked = true) := by
  unfold revokeRow; split <;> simp

theorem revoke_store (m : KeyMeta) (w : World) : (revoke m w).2.store = w.store.map (revokeRow m) := rfl

theorem revoke_storeOK {ρ : RevCtx} {w : World} (m : KeyMeta) (h : StoreOK ρ (fun _ => True) w.store) :
    StoreOK ρ (fun _ => True) (w.store.map (revokeRow m)) := by
  refine ⟨?_, ?_, ?_, trivial⟩
  · intro r1 r2 h1 h2 hk hc
    obtain ⟨a, ha, rfl⟩ := List.mem_map.mp h1
    obtain ⟨b, hb, rfl⟩ := List.mem_map.mp h2
    have ka := revokeRow_kid m a
    have kb := revokeRow_kid m b
    rw [ka.1, kb.1] at hk; rw [ka.2.1, kb.2.1] at hc
    rw [h.uniq a b ha hb hk hc]
  · intro τ m0 hρ
    obtain ⟨⟨r, hr, hk, hc⟩, hall⟩ := h.rev τ m0 hρ
    refine ⟨⟨revokeRow m r, List.mem_map_of_mem hr, by rw [(revokeRow_kid m r).1]; exact hk,
      by rw [(revokeRow_kid m r).2.1]; exact hc⟩, ?_⟩
    intro r' hr' hk' hc'
    obtain ⟨a, ha, rfl⟩ := List.mem_map.mp hr'
    have ka := revokeRow_kid m a
    rw [ka.1] at hk'; rw [ka.2.1] at hc'
    exact ka.2.2.2 (hall a ha hk' hc')
  · intro r hr
    obtain ⟨a, ha, rfl⟩ := List.mem_map.mp hr
    have ka := revokeRow_kid m a
    rw [ka.2.1, ka.2.2.1]; exact h.nz a ha

theorem inv_revoke {ρ : RevCtx} {w : World} (h : Inv ρ w) (m : KeyMeta) : Inv ρ (revoke m w).2 := by
  unfold Inv at *
  refine ⟨rfl, h.faults, ?_, h.objMeta, h.aliasKid, h.tau, revoke_storeOK m h.sto⟩
  intro c m1 e hm
  have g := h.good c m1 e hm
  refine ⟨g.coh, g.past, ?_⟩
  obtain ⟨r, hr, hk, hc⟩ := g.stored
  exact ⟨revokeRow m r, List.mem_map_of_mem hr, by rw [(revokeRow_kid m r).1]; exact hk,
    by rw [(revokeRow_kid m r).2.1]; exact hc⟩

/-- the revocation of an existing row starts the `RevSeen` bookkeeping: every entry was loaded no
later than now. -/
theorem inv_revoke_new {w : World} (h : Inv none w) (m : KeyMeta) (hex : (findRow w.store m).isSome = true) :
    Inv (some (w.now, m)) (revoke m w).2 := by
  unfold Inv at *
  have hs := revoke_storeOK (ρ := none) m h.sto
  refine ⟨rfl, h.faults, ?_, h.objMeta, h.aliasKid, ?_, ⟨hs.uniq, ?_, hs.nz, trivial⟩⟩
  · intro c m1 e hm
    have g := h.good c m1 e hm
    obtain ⟨ko, hk, hc, -⟩ := g.coh
    refine ⟨⟨ko, hk, hc, ?_⟩, g.past, ?_⟩
    · intro τ m0 hρ _
      cases hρ
      right; exact g.past
    · obtain ⟨r, hr, hk, hc⟩ := g.stored
      exact ⟨revokeRow m r, List.mem_map_of_mem hr, by rw [(revokeRow_kid m r).1]; exact hk,
        by rw [(revokeRow_kid m r).2.1]; exact hc⟩
  · intro τ m0 hρ; cases hρ; exact Int.le_refl _
  · intro τ m0 hρ
    cases hρ
    cases hf : findRow w.store m with
    | none => rw [hf] at hex; cases hex
    | some r =>
      obtain ⟨hr, hk, hc⟩ := findRow_some hf
      refine ⟨⟨revokeRow m r, List.mem_map_of_mem hr, by rw [(revokeRow_kid m r).1]; exact hk,
        by rw [(revokeRow_kid m r).2.1]; exact hc⟩, ?_⟩
      intro r' hr' hk' hc'
      have hr'' : r' ∈ w.store.map (revokeRow m) := hr'
      obtain ⟨a, ha, rfl⟩ := List.mem_map.mp hr''
      have ka := revokeRow_kid m a
      rw [ka.1] at hk'; rw [ka.2.1] at hc'
      unfold revokeRow
      rw [if_pos ⟨hk', hc'⟩]

/-- the public `encrypt` without faults. -/
theorem encrypt_wp {ρ : RevCtx} {w : World} (h : Inv ρ w) (s pay : Nat) (b : Bool)
    (hpos : 0 < keyTimestamp w.now (sessionCtx w s).pol.precision) :
    Wp (encrypt s pay [] b) w fun r w' =>
      Inv ρ w' ∧ w'.now = w.now ∧ MSame w w' ∧ Delta ρ (sessionCtx w s) w.now w.store w'.store ∧
      ∀ d : Drr, r = .ok d → ∃ c, drrIk d = some ⟨(sessionCtx w s).ikId, c⟩ ∧
        EncOut ρ (sessionCtx w s) w.now w.store (beginOp [] w).2 w' c ∧
        ∃ k, (keyAt w' k).created = c ∧ ReadsBack w w' (sessionCtx w s).ikCache (sessionCtx w s).ikId k := by
  unfold encrypt
  refine Wp.bind_unit rfl ?_
  apply Wp.bind; apply Wp.get; simp only []
  have h0 : St ρ (Delta ρ (sessionCtx w s) w.now w.store) w.now (beginOp [] w).2 :=
    (St.beginOp h).weakenD (fun r hr => Or.inl hr)
  have hx : sessionCtx (beginOp [] w).2 s = sessionCtx w s := rfl
  rw [hx]
  apply Wp.mono (encryptPayload_wp pay b hpos (beginOp [] w).2 h0)
  intro r w' ⟨h1, hms, hd⟩
  have hn : w'.now = w.now := h1.now
  refine ⟨?_, hn, hms, h1.sto.delta, hd⟩
  unfold Inv; rw [hn]; exact h1.weakenD trivial

/-- the public `decrypt` without faults keeps the invariant. -/
theorem decrypt_wp {ρ : RevCtx} {w : World} (h : Inv ρ w) (s : Nat) (d : Drr) (b : Bool) :
    Wp (decrypt s d [] b) w fun r w' => Inv ρ w' ∧ w'.now = w.now ∧ MSame w w' := by
  unfold decrypt
  refine Wp.bind_unit rfl ?_
  apply Wp.bind; apply Wp.get; simp only []
  apply Wp.mono (decryptDataRowRecord_wp (sessionCtx (beginOp [] w).2 s) d b (beginOp [] w).2 (St.beginOp h))
  intro r w' ⟨h1, hms⟩
  have hn : w'.now = w.now := h1.now
  refine ⟨?_, hn, hms⟩
  unfold Inv; rw [hn]; exact h1

theorem wrap_snd {α : Type} (f : α → Out) (r : Except Err α × World) :
    (match r with
      | (.ok a, w') => (f a, w')
      | (.error e, w') => (Out.error e, w')).2 = r.2 := by
  obtain ⟨r, w'⟩ := r
  cases r <;> rfl

theorem Inv.of_st {ρ : RevCtx} {t : Int} {w : World} (h : St ρ (fun _ => True) t w) : Inv ρ w := by
  unfold Inv; rw [h.now]; exact h

/-- the world after a public operation is the world after the underlying call. -/
theorem applyOp_world (w : World) (op : Op) : (applyOp w op).2 = match op with
    | .newFactory p a b c d => (newFactory p a b c d w).2
    | .getSession f part c d => (getSession f part c d w).2
    | .encrypt s pay fl => (encrypt s pay fl true w).2
    | .decrypt s d fl => (decrypt s d fl true w).2
    | .closeSession s => ((do beginOp []; closeSession s) w).2
    | .closeFactory f => ((do beginOp []; closeFactory f) w).2
    | .advance d => (advance d w).2
    | .revoke m => (revoke m w).2
    | .corruptRow m dp => (corruptRow m dp w).2 := by
  cases op <;> simp only [applyOp] <;> split <;> rename_i heq <;> rw [heq]

/-- a public `encrypt` that returned a record. -/
theorem applyOp_encrypt_record {w w' : World} {s pay : Nat} {fl : List Fault} {d : Drr}
    (h : applyOp w (.encrypt s pay fl) = (.record d, w')) : encrypt s pay fl true w = (.ok d, w') := by
  simp only [applyOp] at h
  split at h
  · rename_i a w1 heq
    cases h; exact heq
  · cases h

theorem applyOp_decrypt_payload {w w' : World} {s : Nat} {d : Drr} {fl : List Fault} {p : Nat}
    (h : applyOp w (.decrypt s d fl) = (.payload p, w')) : decrypt s d fl true w = (.ok p, w') := by
  simp only [applyOp] at h
  split at h
  · rename_i a w1 heq
    cases h; exact heq
  · cases h

/-- every allowed operation keeps the invariant (for `revoke` of a further row: the bookkeeping of
the row `ρ` speaks about is kept). -/
theorem Inv.step {ρ : RevCtx} {w : World} (h : Inv ρ w) (op : Op) (ha : allowed w op = true) :
    Inv ρ (applyOp w op).2 := by
  rw [applyOp_world]
  cases op with
  | newFactory p a b c d => exact Inv.of_st (newFactory_st p a b c d w h)
  | getSession f part c d => exact Inv.of_st (getSession_st f part c d w h)
  | encrypt s pay fl =>
    simp only [allowed, Bool.and_eq_true, List.isEmpty_iff, decide_eq_true_eq] at ha
    obtain ⟨rfl, hpos⟩ := ha
    exact (encrypt_wp h s pay true hpos).1
  | decrypt s d fl =>
    simp only [allowed, Bool.and_eq_true, List.isEmpty_iff, decide_eq_true_eq] at ha
    obtain ⟨rfl, hpos⟩ := ha
    exact (decrypt_wp h s d true).1
  | closeSession s =>
    simp only []
    exact Inv.of_st (closeSession_st s _ (St.beginOp h))
  | closeFactory f =>
    simp only []
    exact Inv.of_st (closeFactory_st f _ (St.beginOp h))
  | advance d => exact inv_advance h d
  | revoke m => exact inv_revoke h m
  | corruptRow m dp => simp [allowed] at ha

/-- reachable worlds satisfy the invariant (no revocation tracked). -/
theorem Reach.inv {w : World} (h : Reach w) : Inv none w := by
  refine Reach.induction ?_ (fun w op _ hi ha => hi.step op ha) h
  intro t
  refine ⟨rfl, rfl, ?_, ?_, ?_, ?_, ⟨?_, ?_, ?_, trivial⟩⟩
  · intro c m e hm; simp [entsOf, cacheAt, World.init] at hm
    rw [show (default : KeyCache).ents = [] from rfl] at hm; cases hm
  · intro c1 c2 m1 m2 e1 e2 h1; simp [entsOf, cacheAt, World.init] at h1
    rw [show (default : KeyCache).ents = [] from rfl] at h1; cases h1
  · intro c kid m hm; simp [latestOf, cacheAt, World.init] at hm
    rw [show (default : KeyCache).latest = [] from rfl] at hm; simp [assocGet] at hm
  · intro τ m0 hρ; cases hρ
  · intro r1 r2 h1; cases h1
  · intro τ m0 hρ; cases hρ
  · intro r hr; cases hr

end AsherahVerif.Env
