import AsherahVerif.Model.Envelope
/-
Shared proof infrastructure for the envelope engine: Hoare-style triples over the state+error
monad `M`, structural rules for every combinator the model uses, and the effect of each primitive
on the components of `World`.
-/
namespace AsherahVerif.Env

/-- `Triple P x Q`: from any world satisfying `P`, running `x` ends (it always terminates) in an
outcome and world satisfying `Q`. Errors are ordinary outcomes: the state survives them. -/
def Triple {α : Type} (P : World → Prop) (x : M α) (Q : Except Err α → World → Prop) : Prop :=
  ∀ w, P w → Q (x w).1 (x w).2

/-- `x` preserves `I` whatever it returns. -/
def Preserves {α : Type} (I : World → Prop) (x : M α) : Prop := ∀ w, I w → I (x w).2

theorem Preserves.toTriple {α : Type} {I : World → Prop} {x : M α} (h : Preserves I x) :
    Triple I x (fun _ w => I w) := fun w hw => h w hw

@[simp] theorem pure_run {α : Type} (a : α) (w : World) : (pure a : M α) w = (.ok a, w) := rfl
@[simp] theorem bind_run {α β : Type} (x : M α) (f : α → M β) (w : World) :
    (x >>= f) w = match x w with
      | (.ok a, w') => f a w'
      | (.error e, w') => (.error e, w') := rfl
@[simp] theorem throw_run {α : Type} (e : Err) (w : World) : (throw e : M α) w = (.error e, w) := rfl
@[simp] theorem get_run (w : World) : get w = (.ok w, w) := rfl
@[simp] theorem modify_run (f : World → World) (w : World) : modify f w = (.ok (), f w) := rfl
@[simp] theorem finallyDo_run {α : Type} (x : M α) (fin : M Unit) (w : World) :
    finallyDo x fin w = ((x w).1, (fin (x w).2).2) := rfl
@[simp] theorem tryM_run {α : Type} (x : M α) (w : World) : tryM x w = (.ok (x w).1, (x w).2) := rfl
@[simp] theorem map_run {α β : Type} (f : α → β) (x : M α) (w : World) :
    (f <$> x) w = match x w with
      | (.ok a, w') => (.ok (f a), w')
      | (.error e, w') => (.error e, w') := rfl

theorem Triple.pure {α : Type} {P : World → Prop} {Q : Except Err α → World → Prop} (a : α)
    (h : ∀ w, P w → Q (.ok a) w) : Triple P (pure a : M α) Q := fun w hw => h w hw

theorem Triple.throw {α : Type} {P : World → Prop} {Q : Except Err α → World → Prop} (e : Err)
    (h : ∀ w, P w → Q (.error e) w) : Triple P (throw e : M α) Q := fun w hw => h w hw

/-- sequencing: `R` describes the intermediate state when `x` succeeded; when `x` fails the whole
bind fails with the same error in the same state. -/
theorem Triple.bind {α β : Type} {P : World → Prop} {x : M α} {f : α → M β}
    {R : α → World → Prop} {Q : Except Err β → World → Prop}
    (hx : Triple P x (fun r w => match r with | .ok a => R a w | .error e => Q (.error e) w))
    (hf : ∀ a, Triple (R a) (f a) Q) : Triple P (x >>= f) Q := by
  intro w hw
  have h := hx w hw
  simp only [bind_run]
  cases hr : x w with
  | mk r w' =>
    rw [hr] at h
    cases r with
    | ok a => exact hf a w' h
    | error e => exact h

theorem Triple.weaken {α : Type} {P P' : World → Prop} {x : M α} {Q Q' : Except Err α → World → Prop}
    (h : Triple P x Q) (hp : ∀ w, P' w → P w) (hq : ∀ r w, Q r w → Q' r w) : Triple P' x Q' :=
  fun w hw => hq _ _ (h w (hp w hw))

theorem Triple.finallyDo {α : Type} {P : World → Prop} {x : M α} {fin : M Unit}
    {R : Except Err α → World → Prop} {Q : Except Err α → World → Prop}
    (hx : Triple P x R) (hfin : ∀ r, Triple (R r) fin (fun _ w => Q r w)) :
    Triple P (finallyDo x fin) Q := by
  intro w hw
  simp only [finallyDo_run]
  exact hfin _ _ (hx w hw)

theorem Triple.tryM {α : Type} {P : World → Prop} {x : M α} {Q : Except Err (Except Err α) → World → Prop}
    (hx : Triple P x (fun r w => Q (.ok r) w)) : Triple P (tryM x) Q := by
  intro w hw; simp only [tryM_run]; exact hx w hw

theorem Preserves.bind {α β : Type} {I : World → Prop} {x : M α} {f : α → M β}
    (hx : Preserves I x) (hf : ∀ a, Preserves I (f a)) : Preserves I (x >>= f) := by
  intro w hw
  have := hx w hw
  simp only [bind_run]
  cases hr : x w with
  | mk r w' =>
    rw [hr] at this
    cases r with
    | ok a => exact hf a w' this
    | error e => exact this

theorem Preserves.pure {α : Type} {I : World → Prop} (a : α) : Preserves I (pure a : M α) := fun _ h => h
theorem Preserves.throw {α : Type} {I : World → Prop} (e : Err) : Preserves I (throw e : M α) := fun _ h => h
theorem Preserves.get {I : World → Prop} : Preserves I get := fun _ h => h
theorem Preserves.finallyDo {α : Type} {I : World → Prop} {x : M α} {fin : M Unit}
    (hx : Preserves I x) (hf : Preserves I fin) : Preserves I (finallyDo x fin) := by
  intro w hw; simp only [finallyDo_run]; exact hf _ (hx w hw)
theorem Preserves.tryM {α : Type} {I : World → Prop} {x : M α} (hx : Preserves I x) :
    Preserves I (tryM x) := by
  intro w hw; simp only [tryM_run]; exact hx w hw
theorem Preserves.modify {I : World → Prop} {f : World → World} (h : ∀ w, I w → I (f w)) :
    Preserves I (modify f) := fun w hw => h w hw

/-! ### which component each primitive touches (frame facts) -/

/-- the "logic" components a property may talk about. -/
structure Frame (w w' : World) : Prop where
  now : w'.now = w.now
  facs : w'.facs = w.facs
  sessions : w'.sessions = w.sessions

theorem takeFault_store (w : World) : (takeFault w).2.store = w.store := by
  unfold takeFault; split <;> rfl
theorem takeFault_now (w : World) : (takeFault w).2.now = w.now := by
  unfold takeFault; split <;> rfl
theorem takeFault_ok (w : World) : ∃ f, (takeFault w).1 = .ok f := by
  unfold takeFault; split <;> exact ⟨_, rfl⟩
theorem takeFault_nofault {w : World} (h : w.faults = []) : takeFault w = (.ok .ok, w) := by
  unfold takeFault; rw [h]

theorem logCall_run (c : Call) (w : World) : logCall c w = (.ok (), { w with log := w.log ++ [c] }) := rfl

/-- the metastore only grows: every row present before is present, unchanged, afterwards. -/
def StoreGrows (w w' : World) : Prop := ∀ r, r ∈ w.store → r ∈ w'.store

theorem StoreGrows.refl (w : World) : StoreGrows w w := fun _ h => h
theorem StoreGrows.trans {a b c : World} (h1 : StoreGrows a b) (h2 : StoreGrows b c) : StoreGrows a c :=
  fun r h => h2 r (h1 r h)

end AsherahVerif.Env
