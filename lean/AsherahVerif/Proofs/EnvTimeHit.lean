import AsherahVerif.Proofs.EnvTimeProps
/-
C20: the cache-hit paths. On a map-backed (`simple`) cache an entry that is not due for a reload is
returned without calling the loader; the world changes by reference counting only.
-/
set_option linter.unusedVariables false
namespace AsherahVerif.Env

theorem getFresh_hit_wp (c : Nat) (m : KeyMeta) (i : Int) (w : World) (k : Nat)
    (hmode : modeOf w c = .simple) (hh : Hit w c m i k) :
    Wp (getFresh c m i) w fun r w' => r = .ok (some k, true) ∧ SV w w' := by
  apply Wp.mono (getFresh_wp c m i w)
  intro r w' ⟨hsv, ko, fr, hr, hcase⟩
  obtain ⟨e, he, ho, hfr⟩ := hh
  rcases hcase with ⟨-, -, hnone⟩ | ⟨e', he', hko, hf⟩
  · rw [hnone hmode] at he; cases he
  · rw [he] at he'; cases he'
    subst ho
    rw [hfr] at hf
    subst hr; subst hko; subst hf
    exact ⟨rfl, hsv⟩

/-- `GetOrLoad` on a map-backed cache with a fresh entry: no loader call. -/
theorem getOrLoad_hit_wp (c : Nat) (m : KeyMeta) (i : Int) (loader : KeyMeta → M Nat) (w : World) (k : Nat)
    (hmode : modeOf w c = .simple) (hh : Hit w c m i k) :
    Wp (getOrLoad c m i loader) w fun r w' => r = .ok k ∧ HW w w' := by
  unfold getOrLoad
  apply Wp.bind; apply Wp.getCache; simp only []
  have hm : (cacheAt w c).mode = .simple := hmode
  rw [hm]
  simp only []
  apply Wp.bind
  apply Wp.mono (getFresh_hit_wp c m i w k hmode hh)
  intro r w1 ⟨hr, hsv⟩
  subst hr
  simp only []
  refine Wp.bind_unit rfl ?_
  exact ⟨rfl, RT.trans (HW.of_sv hsv) (keyIncr_hw k w1)⟩

/-- `GetOrLoadLatest` on a map-backed cache with a fresh, valid latest entry: no loader call. -/
theorem getOrLoadLatest_hit_wp (c : Nat) (kid : KeyId) (i ea : Int) (loader : KeyMeta → M Nat) (w : World) (k : Nat)
    (hmode : modeOf w c = .simple) (hh : Hit w c ⟨kid, 0⟩ i k)
    (hv : isKeyInvalid (keyAt w k) w.now ea = false) :
    Wp (getOrLoadLatest c kid i ea loader) w fun r w' => r = .ok k ∧ HW w w' := by
  unfold getOrLoadLatest
  apply Wp.bind; apply Wp.getCache; simp only []
  have hm : (cacheAt w c).mode = .simple := hmode
  rw [hm]
  simp only []
  apply Wp.bind
  apply Wp.mono (getFresh_hit_wp c ⟨kid, 0⟩ i w k hmode hh)
  intro r w1 ⟨hr, hsv⟩
  subst hr
  simp only []
  apply Wp.bind; apply Wp.pure; simp only []
  apply Wp.bind; apply Wp.keyObj; simp only []
  apply Wp.bind; apply Wp.get; simp only []
  rw [hsv.keyAt, hsv.now, hv]
  simp only [Bool.false_eq_true, if_false]
  refine Wp.bind_unit rfl ?_
  exact ⟨rfl, RT.trans (HW.of_sv hsv) (keyIncr_hw k w1)⟩

theorem silent_beginOp (w : World) : Silent (beginOp [] w).2 := fun c hc => by cases hc

/-- an encrypt served by a fresh, valid entry of a map-backed cache makes no metastore and no KMS
call and names that entry's key. -/
theorem encrypt_hit_silent {ρ : RevCtx} {w : World} (hi : Inv ρ w) (s pay : Nat) (b : Bool) (k : Nat)
    (hmode : modeOf w (sessionCtx w s).ikCache = .simple)
    (hh : Hit w (sessionCtx w s).ikCache ⟨(sessionCtx w s).ikId, 0⟩ (sessionCtx w s).pol.revokeInterval k)
    (hv : isKeyInvalid (keyAt w k) w.now (sessionCtx w s).pol.expireAfter = false) :
    Wp (encrypt s pay [] b) w fun r w' => Silent w' ∧ w'.store = w.store ∧
      ∀ d : Drr, r = .ok d → drrIk d = some ⟨(sessionCtx w s).ikId, (keyAt w k).created⟩ := by
  unfold encrypt
  refine Wp.bind_unit rfl ?_
  apply Wp.bind; apply Wp.get; simp only []
  have hx : sessionCtx (beginOp [] w).2 s = sessionCtx w s := rfl
  rw [hx]
  unfold encryptPayload
  apply Wp.bind
  apply Wp.mono (getOrLoadLatest_hit_wp (sessionCtx w s).ikCache (sessionCtx w s).ikId (sessionCtx w s).pol.revokeInterval
    (sessionCtx w s).pol.expireAfter _ (beginOp [] w).2 k hmode hh hv)
  intro r w1 ⟨hr, hw⟩
  subst hr
  simp only []
  obtain ⟨-, -, ko, hko, hc, -⟩ := hit_out (St.beginOp hi) hh hw.cw
  apply Wp.mono (encTail_wp (sessionCtx w s) pay k w1 ko hko)
  intro r w2 ⟨hq, hd⟩
  refine ⟨?_, ?_, fun d hr => ?_⟩
  · exact hq.il.silent (fun c hc => by rw [hw.log] at hc; cases hc)
  · rw [hq.qes.store, hw.cw.store]; rfl
  · rw [hd d hr]
    have : (keyAt (beginOp [] w).2 k).created = (keyAt w k).created := rfl
    rw [← this, hc]

/-- a decrypt whose intermediate key is a fresh entry of a map-backed cache makes no metastore and no
KMS call. -/
theorem decrypt_hit_silent (w : World) (s : Nat) (d : Drr) (b : Bool) (dk : DrrKey) (p : KeyMeta) (k : Nat)
    (hkey : d.key = some dk) (hpar : dk.parent = some p)
    (hmode : modeOf w (sessionCtx w s).ikCache = .simple)
    (hh : Hit w (sessionCtx w s).ikCache p (sessionCtx w s).pol.revokeInterval k) :
    Wp (decrypt s d [] b) w fun _ w' => Silent w' ∧ w'.store = w.store := by
  unfold decrypt
  refine Wp.bind_unit rfl ?_
  apply Wp.bind; apply Wp.get; simp only []
  have hx : sessionCtx (beginOp [] w).2 s = sessionCtx w s := rfl
  rw [hx]
  unfold decryptDataRowRecord
  rw [hkey]; simp only []
  rw [hpar]; simp only []
  split
  · exact ⟨silent_beginOp w, rfl⟩
  · apply Wp.bind
    apply Wp.mono (getOrLoad_hit_wp (sessionCtx w s).ikCache p (sessionCtx w s).pol.revokeInterval _ (beginOp [] w).2 k hmode hh)
    intro r w1 ⟨hr, hw⟩
    subst hr
    simp only []
    apply Wp.finallyDo
    have h1 := decryptRow_il k dk d.data w1
    have h2 := keyRelease_il k (decryptRow k dk d.data w1).2
    have s1 := decryptRow_ss k dk d.data w1
    have s2 := keyRelease_ss k (decryptRow k dk d.data w1).2
    refine ⟨(RT.trans h1 h2).silent (fun c hc => by rw [hw.log] at hc; cases hc), ?_⟩
    show (keyRelease k (decryptRow k dk d.data w1).2).2.store = _
    rw [s2, s1, hw.cw.store]; rfl

end AsherahVerif.Env
