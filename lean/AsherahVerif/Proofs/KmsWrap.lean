import AsherahVerif.Proofs.KmsLoop
/-
Helper lemmas for C17: entry lookup (v1 first / v2 last), client ordering at construction,
`EncryptKey` case analysis.
-/
namespace AsherahVerif.Kms
open AsherahVerif.KmsSpec

/-! ### lookups -/

theorem getV1_some {keks : List Kek} {r : String} {k : Kek} (h : getV1 keks r = some k) :
    k ∈ keks ∧ k.region = r := by
  unfold getV1 at h
  exact ⟨List.mem_of_find?_eq_some h, by simpa using List.find?_some h⟩

theorem mapV2_fold (keks : List Kek) (m : String → Option Kek) (r : String) :
    keks.foldl (fun m k => fun r => if r = k.region then some k else m r) m r =
      match getV1 keks.reverse r with
      | some k => some k
      | none => m r := by
  induction keks generalizing m with
  | nil => simp [getV1]
  | cons k ks ih =>
    simp only [List.foldl_cons, List.reverse_cons]
    rw [ih]
    unfold getV1
    rw [List.find?_append]
    cases h : List.find? (fun x => x.region == r) ks.reverse with
    | some k' => simp
    | none =>
      by_cases hr : r = k.region
      · simp [hr]
      · have : (k.region == r) = false := by simp; exact fun e => hr e.symm
        simp [hr, this]

/-- v2's map lookup is "the last entry of the region". -/
theorem mapV2_eq (keks : List Kek) (r : String) : mapV2 keks r = getV1 keks.reverse r := by
  unfold mapV2
  rw [mapV2_fold]
  cases getV1 keks.reverse r <;> rfl

theorem lookup_some {p : Plugin} {keks : List Kek} {r : String} {k : Kek} (h : lookup p keks r = some k) :
    k ∈ keks ∧ k.region = r := by
  cases p with
  | v1 => exact getV1_some h
  | v2 =>
    simp only [lookup, mapV2_eq] at h
    have := getV1_some h
    exact ⟨by simpa using this.1, this.2⟩

theorem lookup_none {p : Plugin} {keks : List Kek} {r : String} (h : lookup p keks r = none) :
    ∀ k ∈ keks, k.region ≠ r := by
  intro k hk
  cases p with
  | v1 =>
    simp only [lookup, getV1] at h
    have := List.find?_eq_none.mp h k hk
    simpa using this
  | v2 =>
    simp only [lookup, mapV2_eq, getV1] at h
    have := List.find?_eq_none.mp h k (by simpa using hk)
    simpa using this

theorem inj_of_nodup_map {α β : Type} (f : α → β) {l : List α} (h : (l.map f).Nodup) {a b : α}
    (ha : a ∈ l) (hb : b ∈ l) (hab : f a = f b) : a = b := by
  induction l with
  | nil => cases ha
  | cons x xs ih =>
    simp only [List.map_cons, List.nodup_cons, List.mem_map, not_exists, not_and] at h
    cases ha with
    | head =>
      cases hb with
      | head => rfl
      | tail _ hb => exact absurd hab.symm (h.1 b hb)
    | tail _ ha =>
      cases hb with
      | head => exact absurd hab (h.1 a ha)
      | tail _ hb => exact ih h.2 ha hb

/-- without duplicate regions both plugins find exactly the entry of the region. -/
theorem lookup_of_mem {p : Plugin} {keks : List Kek} (hnd : (keks.map (·.region)).Nodup) {k : Kek} (hk : k ∈ keks) :
    lookup p keks k.region = some k := by
  cases h : lookup p keks k.region with
  | none => exact absurd rfl (lookup_none h k hk)
  | some k' =>
    have := lookup_some h
    rw [inj_of_nodup_map (·.region) hnd this.1 hk this.2]

theorem lookup_v1_eq_v2 {keks : List Kek} (hnd : (keks.map (·.region)).Nodup) (r : String) :
    lookup .v1 keks r = lookup .v2 keks r := by
  cases h : lookup .v1 keks r with
  | some k =>
    have := lookup_some h
    rw [← this.2, lookup_of_mem hnd this.1]
  | none =>
    cases h2 : lookup .v2 keks r with
    | none => rfl
    | some k =>
      have := lookup_some h2
      exact absurd this.2 (lookup_none h k this.1)

/-! ### construction -/

theorem filter_pref_eq_singleton {cs : List Client} (hnd : (cs.map (·.region)).Nodup) {c : Client} (hc : c ∈ cs) :
    cs.filter (·.region == c.region) = [c] := by
  induction cs with
  | nil => cases hc
  | cons d ds ih =>
    simp only [List.map_cons, List.nodup_cons, List.mem_map, not_exists, not_and] at hnd
    cases hc with
    | head =>
      have : ds.filter (·.region == c.region) = [] := by
        rw [List.filter_eq_nil_iff]
        intro x hx
        simpa using hnd.1 x hx
      simp [this]
    | tail _ hc =>
      have hne : (d.region == c.region) = false := by
        simp only [beq_eq_false_iff_ne, ne_eq]
        exact fun e => hnd.1 c hc e.symm
      simp [hne, ih hnd.2 hc]

theorem filter_pref_eq_nil {cs : List Client} {pref : String} (h : ∀ c ∈ cs, c.region ≠ pref) :
    cs.filter (·.region == pref) = [] ∧ cs.filter (·.region != pref) = cs := by
  constructor
  · rw [List.filter_eq_nil_iff]; intro x hx; simpa using h x hx
  · rw [List.filter_eq_self]; intro x hx; simpa using h x hx

theorem buildFold (pref : String) (cs acc : List Client) :
    cs.foldl (fun acc c => if c.region = pref then c :: acc else acc ++ [c]) acc =
      (cs.filter (·.region == pref)).reverse ++ acc ++ cs.filter (·.region != pref) := by
  induction cs generalizing acc with
  | nil => simp
  | cons c cs ih =>
    simp only [List.foldl_cons]
    rw [ih]
    by_cases h : c.region = pref
    · simp [h]
    · simp [h]

/-! ### EncryptKey -/

theorem encryptAllRegions_some {cloud : Cloud} {o : GenOut} {kid : String} (cs : List Client) (h : o.keyId = some kid) :
    encryptAllRegions cloud o cs =
      (some (cs.filterMap (regionalKek cloud kid o)), (cs.filter (·.arn ≠ kid)).map Call.enc) := by
  unfold encryptAllRegions
  cases cs with
  | nil => simp
  | cons c cs => simp [h]

theorem encryptAllRegions_nil_keyid {cloud : Cloud} {o : GenOut} {c : Client} (cs : List Client) (h : o.keyId = none) :
    encryptAllRegions cloud o (c :: cs) = (none, []) := by
  simp [encryptAllRegions, h]

/-- every way `EncryptKey`'s body can end, in terms of the first client that generates a data key. -/
theorem encryptKeyBody_cases (p : Plugin) (cloud : Cloud) (sched : List Kek → List Kek) (clients : List Client) (pt : Nat) :
    let o := encryptKeyBody p cloud sched clients pt
    ((∀ c ∈ clients, cloud.gen c = none) ∧ o.res = .err .allRegionsFailed ∧ o.bufs = []) ∨
    (∃ g, (generateDataKey cloud clients).1 = some g ∧ o.bufs = [⟨g.key, false⟩] ∧
      ((g.key.valid = false ∧ o.res = .err .aead) ∨
       (g.key.valid = true ∧ g.keyId = none ∧ o.res = (if p = .v1 then .panic else .fatal)) ∨
       (g.key.valid = true ∧ ∃ kid, g.keyId = some kid ∧
          o.res = .ok ⟨.sealed g.key.id pt, sched (clients.filterMap (regionalKek cloud kid g))⟩ ∧
          o.calls = (generateDataKey cloud clients).2 ++ (clients.filter (·.arn ≠ kid)).map Call.enc))) := by
  intro o
  cases hg : generateDataKey cloud clients with
  | mk r calls =>
    cases r with
    | none =>
      left
      have h1 : (generateDataKey cloud clients).1 = none := by rw [hg]
      refine ⟨(generateDataKey_none cloud clients).mp h1, ?_, ?_⟩ <;> simp [o, encryptKeyBody, hg]
    | some g =>
      right
      refine ⟨g, rfl, ?_⟩
      have hne : clients ≠ [] := by
        intro e; subst e; simp [generateDataKey] at hg
      obtain ⟨c0, cs0, hcs⟩ := List.exists_cons_of_ne_nil hne
      by_cases hv : g.key.valid = true
      · cases hk : g.keyId with
        | none =>
          have : encryptAllRegions cloud g clients = (none, []) := by
            rw [hcs]; exact encryptAllRegions_nil_keyid cs0 hk
          simp [o, encryptKeyBody, hg, aeadSeal, hv, this]
        | some kid =>
          simp [o, encryptKeyBody, hg, aeadSeal, hv, encryptAllRegions_some clients hk]
      · have hv' : g.key.valid = false := by simpa using hv
        simp [o, encryptKeyBody, hg, aeadSeal, hv']

end AsherahVerif.Kms
