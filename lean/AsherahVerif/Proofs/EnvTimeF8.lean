import AsherahVerif.Proofs.EnvTimeF7
/-
C20 on bounded caches, history level: a bounded key cache into which at most `cap` distinct keys
were ever put has never evicted anything.

`kc.slots` is the table of the distinct keys ever `Set` into a bounded key cache (it only grows).
`FI kc`: the eviction policy is well-formed, expiry-free, its keys are slots, and — as long as
`slots.length ≤ cap` — every slot is still in the policy and every key ever put still has its entry.
`FIw w`: `FI` of every bounded key cache of `w` that has not been closed.  It is kept by every function
of the model (`Gen FR`) and every public operation, for every fault list, hence holds after every
history that only builds caches of capacity ≥ 1 (`CapsPos`).
-/
set_option linter.unusedVariables false
namespace AsherahVerif.Env.TimeF
open AsherahVerif.Env

structure FI (kc : KeyCache) : Prop where
  inv : Cache.Inv kc.pol
  noexp : kc.pol.expiry = 0
  slots : kc.slots.Nodup
  valid : ∀ s, s ∈ Cache.keysOf kc.pol.items → s < kc.slots.length
  full : kc.slots.length ≤ kc.pol.cap →
    (∀ s, s < kc.slots.length → s ∈ Cache.keysOf kc.pol.items) ∧ (∀ m, m ∈ kc.slots → m ∈ kc.ents.map (·.1))

/-- `FI` of every open bounded key cache. -/
def FIw (w : World) : Prop :=
  ∀ c, c < w.caches.length → (cacheAt w c).mode = .bounded → (cacheAt w c).pol.closing = false → FI (cacheAt w c)

theorem FIw.same {w w' : World} (h : FIw w) (hc : w'.caches = w.caches) : FIw w' := by
  intro c hlt hm hcl
  unfold cacheAt at *
  rw [hc] at hlt hm hcl ⊢
  exact h c hlt hm hcl

/-- replacing one cache. -/
theorem FIw.replace {w : World} (h : FIw w) (c : Nat) (kc : KeyCache)
    (hk : c < w.caches.length → kc.mode = .bounded → kc.pol.closing = false → FI kc) : FIw (Env.setCache c kc w).2 := by
  intro c' hlt hm hcl
  have hlen : (Env.setCache c kc w).2.caches.length = w.caches.length := by
    show (setAt w.caches c fun _ => kc).length = _; rw [setAt_length]
  rw [hlen] at hlt
  rw [cacheAt_setCache] at hm hcl ⊢
  split
  · rename_i hh
    rw [if_pos hh] at hm hcl
    exact hk hh.2 hm hcl
  · rename_i hh
    rw [if_neg hh] at hm hcl
    exact h c' hlt hm hcl

/-- a `Get` keeps `FI`. -/
theorem FI.get {kc kc' : KeyCache} (h : kc.pol.closing = false → FI kc) (s : Nat)
    (hpol : kc'.pol = (Cache.step kc.pol (.get s) fun _ => false).cache) (hslots : kc'.slots = kc.slots)
    (hents : kc'.ents = kc.ents) (hcl : kc'.pol.closing = false) : FI kc' := by
  rw [hpol] at hcl
  have hc : kc.pol.closing = false := by
    cases hx : kc.pol.closing with
    | false => rfl
    | true =>
      have : (Cache.step kc.pol (.get s) fun _ => false).cache = kc.pol := by simp [Cache.step, hx]
      rw [this, hx] at hcl; cases hcl
  have hf := h hc
  have heff := Cache.Res.step_get_eff hf.inv hc hf.noexp s (fun _ => false)
  have hinv := (Cache.step_inv hf.inv (.get s) (fun _ => false)).1
  have hcap : (Cache.step kc.pol (.get s) fun _ => false).cache.cap = kc.pol.cap := by
    cases hl : Cache.lookup kc.pol.items s with
    | none => simp [Cache.step, hc, hl]
    | some it =>
      have : ¬ (kc.pol.expiry > 0 ∧ it.exp < kc.pol.now) := by rw [hf.noexp]; intro h'; exact absurd h'.1 (by decide)
      simp [Cache.step, hc, hl, this]
  refine ⟨by rw [hpol]; exact hinv, by rw [hpol]; exact heff.2.2.2, by rw [hslots]; exact hf.slots, ?_, ?_⟩
  · rw [hpol, hslots, heff.2.1]; exact hf.valid
  · rw [hpol, hslots, hents, heff.2.1, hcap]; exact hf.full

theorem step_set_cap (c : Cache.Cache) (h : Cache.Inv c) (k v : Nat) (orc : Nat → Bool) :
    (Cache.step c (.set k v) orc).cache.cap = c.cap := by
  by_cases hc : c.closing = true
  · simp [Cache.step, hc]
  · have hc' : c.closing = false := by simpa using hc
    cases hl : Cache.lookup c.items k with
    | some it => simp [Cache.step, hc', hl]
    | none =>
      by_cases hfull : c.items.length = c.cap
      · have hne : c.items ≠ [] := by
          intro e; rw [e] at hfull; simp at hfull; have := h.capPos; omega
        obtain ⟨it, hit, _, hev⟩ := Cache.evict_spec h.toBij hne (orc 0)
        simp [Cache.step, hc', hl, hfull, hev]
      · simp [Cache.step, hc', hl, hfull]

/-- a `Set` keeps `FI`: `slots1` is the slot table with the slot `sl` of `m` allocated. -/
theorem FI.set {kc kc' : KeyCache} (hf : FI kc) (hc : kc.pol.closing = false) (m : KeyMeta) (e : CEntry) (sl : Nat)
    (slots1 : List KeyMeta)
    (hcase : (slots1 = kc.slots ∧ kc.slots[sl]? = some m) ∨
      (slots1 = kc.slots ++ [m] ∧ sl = kc.slots.length ∧ m ∉ kc.slots))
    (ents' : List (KeyMeta × CEntry))
    (he' : (Cache.step kc.pol (.set sl 0) fun _ => false).cbs = [] → ents' = kc.ents)
    (hpol : kc'.pol = (Cache.step kc.pol (.set sl 0) fun _ => false).cache) (hslots : kc'.slots = slots1)
    (hents : kc'.ents = assocSet ents' m e) : FI kc' := by
  have heff := Cache.Res.step_set_eff hf.inv hc hf.noexp sl 0 (fun _ => false)
  have hinv := (Cache.step_inv hf.inv (.set sl 0) (fun _ => false)).1
  have hcap := step_set_cap kc.pol hf.inv sl 0 (fun _ => false)
  obtain ⟨hcl', hexp', hkeys⟩ := heff
  have hsub : ∀ j, j ∈ Cache.keysOf (Cache.step kc.pol (.set sl 0) fun _ => false).cache.items →
      j = sl ∨ j ∈ Cache.keysOf kc.pol.items := by
    intro j hj
    rcases hkeys with ⟨-, hk⟩ | ⟨it, -, -, -, -, hk⟩
    · exact (hk j).mp hj
    · rcases (hk j).mp hj with h1 | ⟨h1, -⟩
      · exact Or.inl h1
      · exact Or.inr h1
  have hsize : kc.pol.items.length ≤ kc.slots.length := by
    have := Cache.nodup_lt_length (Cache.keysOf kc.pol.items) _ hf.inv.itemsNodup hf.valid
    simpa [Cache.keysOf] using this
  rcases hcase with ⟨hs1, hsl⟩ | ⟨hs1, hsl, hnot⟩
  · -- the key was put before
    have hlt : sl < kc.slots.length := Res.getElem?_lt hsl
    refine ⟨by rw [hpol]; exact hinv, by rw [hpol]; exact hexp', by rw [hslots, hs1]; exact hf.slots, ?_, ?_⟩
    · intro j hj
      rw [hpol] at hj
      rw [hslots, hs1]
      rcases hsub j hj with rfl | h1
      · exact hlt
      · exact hf.valid j h1
    · intro hle
      rw [hpol, hslots, hs1, hcap] at hle
      obtain ⟨hall, hmem⟩ := hf.full hle
      have hin : sl ∈ Cache.keysOf kc.pol.items := hall sl hlt
      have hno := (Cache.no_eviction_while_fits kc.pol sl 0 (fun _ => false) (Or.inl hin))
      refine ⟨fun j hj => ?_, fun m' hm' => ?_⟩
      · rw [hpol]
        exact hno.2.2.1 j (hall j (by rw [hslots, hs1] at hj; exact hj))
      · rw [hents, he' hno.1, Res.mem_keys_assocSet]
        exact Or.inr (hmem m' (by rw [hslots, hs1] at hm'; exact hm'))
  · -- a new key: a new slot
    refine ⟨by rw [hpol]; exact hinv, by rw [hpol]; exact hexp', ?_, ?_, ?_⟩
    · rw [hslots, hs1]
      exact List.nodup_append.2 ⟨hf.slots, by simp, by
        intro a ha b hb; simp at hb; subst hb; intro e'; subst e'; exact hnot ha⟩
    · intro j hj
      rw [hpol] at hj
      rw [hslots, hs1, List.length_append]
      rcases hsub j hj with rfl | h1
      · rw [hsl]; simp
      · have := hf.valid j h1; simp; omega
    · intro hle
      rw [hpol, hslots, hs1, hcap, List.length_append] at hle
      have hle1 : kc.slots.length + 1 ≤ kc.pol.cap := by simpa using hle
      obtain ⟨hall, hmem⟩ := hf.full (by omega)
      have hno := (Cache.no_eviction_while_fits kc.pol sl 0 (fun _ => false) (Or.inr (by omega)))
      refine ⟨fun j hj => ?_, fun m' hm' => ?_⟩
      · rw [hpol]
        have hj' : j < kc.slots.length + 1 := by
          rw [hslots, hs1, List.length_append] at hj; simpa using hj
        by_cases hjs : j = sl
        · subst hjs; exact hno.2.2.2 hc
        · exact hno.2.2.1 j (hall j (by omega))
      · rw [hents, he' hno.1, Res.mem_keys_assocSet]
        have hm'' : m' ∈ kc.slots ++ [m] := by rw [← hs1, ← hslots]; exact hm'
        rcases List.mem_append.1 hm'' with h1 | h1
        · exact Or.inr (hmem m' h1)
        · exact Or.inl (by simpa using h1)

/-! ### the step relation -/

def FR (w w' : World) : Prop := FIw w → FIw w'

instance : RT FR where
  refl w := id
  trans h1 h2 := fun h => h2 (h1 h)

theorem fr_same {w w' : World} (hc : w'.caches = w.caches) : FR w w' := fun h => h.same hc

theorem cacheGet_fr (c : Nat) (m : KeyMeta) : Resp FR (cacheGet c m) := by
  intro w h
  unfold cacheGet
  simp only [bind_run, getCache_run]
  cases hmode : (cacheAt w c).mode with
  | never => exact h
  | simple => exact h
  | bounded =>
    simp only []
    cases hs : slotOf (cacheAt w c) m with
    | none => exact h
    | some s =>
      simp only [setCache_bind_run]
      cases (Cache.step (cacheAt w c).pol (Cache.Op.get s) fun x => false).res <;>
        exact h.replace c _ (fun hlt _ hcl => FI.get (fun hc => h c hlt hmode hc) s rfl rfl rfl hcl)

theorem releaseAll_caches (l : List Nat) (w : World) : (releaseAll l w).2.caches = w.caches :=
  (releaseAll_q0 l w).caches

theorem cacheSet_fr (c : Nat) (m : KeyMeta) (e : CEntry) : Resp FR (cacheSet c m e) := by
  intro w h
  unfold cacheSet
  simp only [bind_run, getCache_run]
  cases hmode : (cacheAt w c).mode with
  | never => exact h
  | simple =>
    simp only []
    exact h.replace c _ (fun _ hm _ => by cases hm)
  | bounded =>
    simp only []
    -- the closed cache: `Set` is a no-op on the policy, the cache stays closed
    by_cases hcl : (cacheAt w c).pol.closing = true
    · have hstep : ∀ sl, (Cache.step (cacheAt w c).pol (.set sl 0) fun _ => false).cache = (cacheAt w c).pol := by
        intro sl; simp [Cache.step, hcl]
      cases hs : slotOf (cacheAt w c) m with
      | some sl =>
        simp only [setCache_bind_run]
        refine FIw.same (FIw.replace h c _ (fun _ _ hc' => ?_)) (releaseAll_caches _ _)
        have : (Cache.step (cacheAt w c).pol (.set sl 0) fun _ => false).cache.closing = false := hc'
        rw [hstep, hcl] at this; cases this
      | none =>
        simp only [setCache_bind_run]
        refine FIw.same (FIw.replace h c _ (fun _ _ hc' => ?_)) (releaseAll_caches _ _)
        have : (Cache.step (cacheAt w c).pol (.set (cacheAt w c).slots.length 0) fun _ => false).cache.closing = false := hc'
        rw [hstep, hcl] at this; cases this
    · have hcl' : (cacheAt w c).pol.closing = false := by simpa using hcl
      cases hs : slotOf (cacheAt w c) m with
      | some sl =>
        simp only [setCache_bind_run]
        refine FIw.same (FIw.replace h c _ (fun hlt _ _ => ?_)) (releaseAll_caches _ _)
        have hf := h c hlt hmode hcl'
        have hsl := (Res.slotOf_some_iff hf.slots m sl).mp hs
        exact FI.set hf hcl' m e sl (cacheAt w c).slots (Or.inl ⟨rfl, hsl⟩) _
          (fun hno => by simp only [hno, List.filterMap_nil, List.foldl_nil]) rfl rfl rfl
      | none =>
        simp only [setCache_bind_run]
        refine FIw.same (FIw.replace h c _ (fun hlt _ _ => ?_)) (releaseAll_caches _ _)
        have hf := h c hlt hmode hcl'
        have hnot := (Res.slotOf_none_iff m).mp hs
        exact FI.set hf hcl' m e (cacheAt w c).slots.length ((cacheAt w c).slots ++ [m])
          (Or.inr ⟨rfl, rfl, hnot⟩) _ (fun hno => by simp only [hno, List.filterMap_nil, List.foldl_nil]) rfl rfl rfl

theorem logCall_fr (c : Call) : Resp FR (logCall c) := fun w => fr_same rfl

theorem keyRelease_fr (o : Nat) : Resp FR (keyRelease o) := fun w => fr_same (keyRelease_q0 o w).caches

/-- moving the "latest" alias does not concern the eviction policy. -/
theorem setLatest_fr (c : Nat) (w : World) (l : List (KeyId × KeyMeta)) :
    FR w (setCache c { cacheAt w c with latest := l } w).2 := by
  intro h
  refine h.replace c _ (fun hlt hm hcl => ?_)
  have hf := h c hlt hm hcl
  exact ⟨hf.inv, hf.noexp, hf.slots, hf.valid, hf.full⟩

theorem cacheWrite_fr (c : Nat) (m : KeyMeta) (e : CEntry) : Resp FR (cacheWrite c m e) := by
  intro w
  rw [Env.cacheWrite_eq]
  have tail : ∀ w1 m', FR w1 (writeTail c m' e w1).2 := by
    intro w1 m'
    have : Resp FR (writeTail c m' e) := by
      unfold writeTail
      resp_auto [cacheGet_fr, cacheSet_fr, keyRelease_fr]
    exact this w1
  split
  · exact RT.trans (setLatest_fr c w _) (tail _ _)
  · exact tail _ _

instance : Gen FR where
  same w w' _ hc := fr_same hc
  logCall := logCall_fr
  cacheGet := cacheGet_fr
  cacheSet := cacheSet_fr
  cacheWrite := cacheWrite_fr

/-! ### public operations -/

theorem encrypt_fr (s p : Nat) (fl : List Fault) (b : Bool) : Resp FR (encrypt s p fl b) := by
  unfold encrypt
  resp_auto [gen_encryptPayload]
  exact fun w => fr_same rfl

theorem decrypt_fr (s : Nat) (d : Drr) (fl : List Fault) (b : Bool) : Resp FR (decrypt s d fl b) := by
  unfold decrypt
  resp_auto [gen_decryptDataRowRecord]
  exact fun w => fr_same rfl

theorem step_close_closing (c : Cache.Cache) (h : c.closing = false → Cache.Inv c) (orc : Nat → Bool) :
    (Cache.step c .close orc).cache.closing = true := by
  by_cases hc : c.closing = true
  · simp [Cache.step, hc]
  · have hc' : c.closing = false := by simpa using hc
    have hi := h hc'
    have hb : Cache.Bij { c with closing := true } := ⟨hi.itemsNodup, hi.polNodup, hi.same⟩
    obtain ⟨c', cbs, h1, -, -, -, h5, -⟩ :=
      Cache.evictAll_spec orc c.items.length { c with closing := true } [] hb (Nat.le_refl _)
    simp only [List.nil_append] at h1
    simp only [Cache.step, hc', Bool.false_eq_true, if_false, h1]
    exact h5

theorem cacheClose_fr (c : Nat) : Resp FR (cacheClose c) := by
  intro w h
  unfold cacheClose
  simp only [bind_run, getCache_run]
  cases hmode : (cacheAt w c).mode with
  | never => exact h
  | simple => simp only []; exact h.same (releaseAll_caches _ _)
  | bounded =>
    simp only [setCache_bind_run]
    refine FIw.same (FIw.replace h c _ (fun hlt _ hcl => ?_)) (releaseAll_caches _ _)
    have := step_close_closing (cacheAt w c).pol (fun hc => (h c hlt hmode hc).inv) (fun _ => false)
    have hcl' : (Cache.step (cacheAt w c).pol .close fun _ => false).cache.closing = false := hcl
    rw [this] at hcl'; cases hcl'

theorem FI.mk_new (k : Cache.Kind) (cap pc wc : Nat) (hcap : 1 ≤ cap) :
    FI { mode := .bounded, pol := Cache.mk k cap 0 pc wc } :=
  ⟨Cache.inv_mk k cap 0 pc wc hcap, rfl, List.nodup_nil, fun s hs => by simp [Cache.mk, Cache.keysOf] at hs,
   fun _ => ⟨fun s hs => absurd hs (Nat.not_lt_zero _), fun m hm => by cases hm⟩⟩

theorem addCache_fi (w : World) (h : FIw w) (on : Bool) (kind : Option (Cache.Kind × Nat)) (pc wc : Nat)
    (hk : kindOk kind) : FIw (addCache (cacheOf on kind pc wc) w).2 := by
  intro c hlt hm hcl
  rw [cacheAt_addCache] at hm hcl ⊢
  split
  · rename_i heq
    rw [if_pos heq] at hm
    unfold cacheOf newCache at hm ⊢
    cases on with
    | false => simp at hm
    | true =>
      cases kind with
      | none => simp at hm
      | some kc =>
        obtain ⟨k, cap⟩ := kc
        exact FI.mk_new k cap pc wc (hk k cap rfl)
  · rename_i hne
    rw [if_neg hne] at hm hcl
    have hlen : (addCache (cacheOf on kind pc wc) w).2.caches.length = w.caches.length + 1 := addCache_len _ _
    exact h c (by omega) hm hcl

theorem kindOk_none : kindOk none := fun k cap h => by cases h

theorem newFactory_fi (p : Policy) (a b c d : Nat) (w : World) (h : FIw w) (hk : kindOk p.skKind ∧ kindOk p.ikKind) :
    FIw (newFactory p a b c d w).2 := by
  have key : Wp (newFactory p a b c d) w fun _ w' => FIw w' := by
    unfold newFactory
    apply Wp.addCache_bind
    have h1 := addCache_fi w h p.cacheSK p.skKind a b hk.1
    split
    · apply Wp.addCache_bind
      have h2 := addCache_fi _ h1 true p.ikKind c d hk.2
      apply Wp.bind; apply Wp.pure; simp only []
      exact h2.same rfl
    · apply Wp.bind; apply Wp.pure; simp only []
      exact h1.same rfl
  exact key

/-- every policy a factory was built from has usable cache kinds. -/
def FacsOk (w : World) : Prop := ∀ fac ∈ w.facs, kindOk fac.pol.ikKind

theorem getSession_fi (f part c d : Nat) (w : World) (h : FIw w) (hf : FacsOk w) :
    FIw (getSession f part c d w).2 := by
  have key : Wp (getSession f part c d) w fun _ w' => FIw w' := by
    unfold getSession
    apply Wp.bind; apply Wp.get; simp only []
    have hko : kindOk (w.facs.getD f default).pol.ikKind := by
      by_cases hlt : f < w.facs.length
      · have hmem : w.facs.getD f default ∈ w.facs := by
          rw [List.getD_eq_getElem?_getD, List.getElem?_eq_getElem hlt]; exact List.getElem_mem hlt
        exact hf _ hmem
      · rw [List.getD_eq_getElem?_getD, List.getElem?_eq_none (by omega)]
        exact kindOk_none
    cases (w.facs.getD f default).sharedIk with
    | some c' =>
      simp only []
      apply Wp.bind; apply Wp.pure; simp only []
      exact h.same rfl
    | none =>
      simp only []
      apply Wp.addCache_bind
      have h1 := addCache_fi w h (w.facs.getD f default).pol.cacheIK (w.facs.getD f default).pol.ikKind c d hko
      exact h1.same rfl
  exact key

/-! ### histories -/

/-- the invariant over histories: open bounded caches satisfy `FI`, factories have usable cache kinds. -/
def HInv (w : World) : Prop := FIw w ∧ FacsOk w

theorem FacsOk.same {w w' : World} (h : FacsOk w) (hf : w'.facs = w.facs) : FacsOk w' := by
  intro fac hm; rw [hf] at hm; exact h fac hm

theorem closeSession_fr (s : Nat) : Resp FR (closeSession s) := by
  unfold closeSession
  resp_auto [cacheClose_fr]
  exact fun w => fr_same rfl

theorem closeFactory_fr (f : Nat) : Resp FR (closeFactory f) := by
  unfold closeFactory
  resp_auto [cacheClose_fr]
  exact fun w => fr_same rfl

theorem closeFactory_facsOk (f : Nat) (w : World) (h : FacsOk w) : FacsOk (closeFactory f w).2 := by
  have h1 : FacsOk { w with facs := setAt w.facs f fun x => { x with closed := true } } := by
    intro fac hm
    obtain ⟨i, hi, rfl⟩ := List.getElem_of_mem hm
    have hi' : i < w.facs.length := by simpa [setAt_length] using hi
    have hget : (setAt w.facs f fun x => { x with closed := true })[i]? = some ((setAt w.facs f fun x => { x with closed := true })[i]) :=
      List.getElem?_eq_getElem hi
    obtain ⟨a, ha, hb⟩ := setAt_some hget
    have ham : a ∈ w.facs := List.mem_of_getElem? ha
    rcases hb with hb | hb <;> rw [hb] <;> exact h a ham
  have hfacs : (closeFactory f w).2.facs = (setAt w.facs f fun x => { x with closed := true }) := by
    have key : Wp (closeFactory f) w fun _ w' => w'.facs = (setAt w.facs f fun x => { x with closed := true }) := by
      unfold closeFactory
      apply Wp.bind; apply Wp.get; simp only []
      apply Wp.bind; apply Wp.modify; simp only []
      cases (w.facs.getD f default).sharedIk with
      | none =>
        simp only []
        first
          | exact (cacheClose_ext _ _).facs
          | (apply Wp.bind; apply Wp.pure; simp only []; exact (cacheClose_ext _ _).facs)
      | some c =>
        simp only []
        refine Wp.bind_world (fun e => (cacheClose_ext _ _).facs) (fun _ => ?_)
        exact ((cacheClose_ext _ _).facs).trans (cacheClose_ext _ _).facs
    exact key
  exact h1.same hfacs

theorem newFactory_facs (p : Policy) (a b c d : Nat) (w : World) :
    ∃ fac : Factory, fac.pol = p ∧ (newFactory p a b c d w).2.facs = w.facs ++ [fac] := by
  unfold newFactory
  simp only [bind_run]
  cases p.sharedIK <;> exact ⟨_, rfl, rfl⟩

/-- every operation keeps `HInv` (new factories must have cache capacities ≥ 1), for every fault list. -/
theorem HInv.step {w : World} (h : HInv w) (op : Op) (hcap : CapsPosOp op) : HInv (applyOp w op).2 := by
  rw [applyOp_world]
  cases op with
  | newFactory p a b c d =>
    refine ⟨newFactory_fi p a b c d w h.1 hcap, ?_⟩
    obtain ⟨fac, hp, hf⟩ := newFactory_facs p a b c d w
    intro fac' hm
    simp only [] at hm
    rw [hf] at hm
    rcases List.mem_append.1 hm with h1 | h1
    · exact h.2 fac' h1
    · have : fac' = fac := by simpa using h1
      rw [this, hp]; exact hcap.2
  | getSession f part c d =>
    refine ⟨getSession_fi f part c d w h.1 h.2, h.2.same ?_⟩
    unfold getSession
    simp only [bind_run, get_run]
    cases (w.facs.getD f default).sharedIk <;> rfl
  | encrypt s pay fl => exact ⟨encrypt_fr s pay fl true w h.1, h.2.same (encrypt_ext s pay fl true w).facs⟩
  | decrypt s d fl => exact ⟨decrypt_fr s d fl true w h.1, h.2.same (decrypt_ext s d fl true w).facs⟩
  | closeSession s =>
    refine ⟨closeSession_fr s _ (h.1.same (w' := (beginOp [] w).2) rfl), h.2.same ?_⟩
    show (closeSession s (beginOp [] w).2).2.facs = w.facs
    have key : Wp (closeSession s) (beginOp [] w).2 fun _ w' => w'.facs = w.facs := by
      unfold closeSession
      apply Wp.bind; apply Wp.get; simp only []
      apply Wp.bind; apply Wp.modify; simp only []
      split
      · rfl
      · exact (cacheClose_ext _ _).facs
    exact key
  | closeFactory f =>
    exact ⟨closeFactory_fr f _ (h.1.same (w' := (beginOp [] w).2) rfl),
      closeFactory_facsOk f _ (h.2.same (w' := (beginOp [] w).2) rfl)⟩
  | advance d => exact ⟨h.1.same rfl, h.2.same rfl⟩
  | revoke m => exact ⟨h.1.same rfl, h.2.same rfl⟩
  | corruptRow m dp => exact ⟨h.1.same rfl, h.2.same rfl⟩

theorem HInv.init (t : Int) : HInv (World.init t) :=
  ⟨fun c hlt => by simp [World.init] at hlt, fun fac hm => by simp [World.init] at hm⟩

theorem HInv.run {w : World} (h : HInv w) (ops : List Op) (hcap : CapsPos ops) : HInv (runOps w ops).2 := by
  induction ops generalizing w with
  | nil => exact h
  | cons op rest ih =>
    simp only [runOps]
    exact ih (h.step op (hcap op List.mem_cons_self)) (fun o ho => hcap o (List.mem_cons_of_mem _ ho))

theorem assocGet_of_mem_keys {κ α : Type} [DecidableEq κ] {l : List (κ × α)} {k : κ} (h : k ∈ l.map (·.1)) :
    ∃ v, assocGet l k = some v := by
  unfold assocGet
  cases hf : l.find? (·.1 = k) with
  | some p => exact ⟨p.2, rfl⟩
  | none =>
    obtain ⟨p, hp, rfl⟩ := List.mem_map.1 h
    have := List.find?_eq_none.1 hf p hp
    simp at this

/-- **a bounded key cache into which at most `cap` distinct keys were ever put has never evicted
anything**: after any history (any operations, any fault lists; caches of capacity ≥ 1), every key
ever `Set` into an open bounded key cache whose slot table fits its capacity still has its entry. -/
theorem fits_never_evicted {t : Int} {ops : List Op} (hcap : CapsPos ops) {c : Nat}
    (hlt : c < (runOps (World.init t) ops).2.caches.length)
    (hm : (cacheAt (runOps (World.init t) ops).2 c).mode = .bounded)
    (hopen : (cacheAt (runOps (World.init t) ops).2 c).pol.closing = false)
    (hfits : (cacheAt (runOps (World.init t) ops).2 c).slots.length ≤ (cacheAt (runOps (World.init t) ops).2 c).pol.cap)
    {m : KeyMeta} (hput : m ∈ (cacheAt (runOps (World.init t) ops).2 c).slots) :
    ∃ e, assocGet (entsOf (runOps (World.init t) ops).2 c) m = some e := by
  have hf := ((HInv.init t).run ops hcap).1 c hlt hm hopen
  exact assocGet_of_mem_keys ((hf.full hfits).2 m hput)

end AsherahVerif.Env.TimeF
