import AsherahVerif.Proofs.MetastoreCodec
/-
The SQL row: `decodeRowText (encodeRowText r) = r` (without the transient ID), i.e. what
`json.Marshal` wrote into `key_record` is read back by `json.Unmarshal` field by field.
-/
namespace AsherahVerif.Metastore

def memText (k : List Char) (v : List Char) : List Char := jsonString k ++ ':' :: v

/-- a value text that the parser reads back as `j`, when followed by `,` or `}` -/
def GoodVal (text : List Char) (j : Json) : Prop :=
  ∀ f c rest, (c = ',' ∨ c = '}') → text.length < f → parseValue f (text ++ c :: rest) = some (j, c :: rest)

theorem skipWs_cons_of_not_ws {c : Char} (h : isWs c = false) (r : List Char) : skipWs (c :: r) = c :: r := by
  simp [skipWs, h]

theorem good_null : GoodVal ['n', 'u', 'l', 'l'] .null := by
  intro f c rest _ hf
  cases f with
  | zero => simp at hf
  | succ f =>
    simp only [List.cons_append, List.nil_append, parseValue]
    rw [skipWs_cons_of_not_ws (by decide)]
    simp only [show ¬ ('n' = '{') by decide, show ¬ ('n' = '[') by decide, show ¬ ('n' = '"') by decide,
      show ¬ ('n' = 't') by decide, show ¬ ('n' = 'f') by decide, if_false, if_true, dropPrefix?, Option.map_some]

theorem good_bool (b : Bool) : GoodVal (boolText b) (.bool b) := by
  intro f c rest _ hf
  cases f with
  | zero => simp at hf
  | succ f =>
    cases b
    · simp only [boolText, Bool.false_eq_true, if_false, List.cons_append, List.nil_append, parseValue]
      rw [skipWs_cons_of_not_ws (by decide)]
      simp only [show ¬ ('f' = '{') by decide, show ¬ ('f' = '[') by decide, show ¬ ('f' = '"') by decide,
        show ¬ ('f' = 't') by decide, if_false, if_true, dropPrefix?, Option.map_some]
    · simp only [boolText, if_true, List.cons_append, List.nil_append, parseValue]
      rw [skipWs_cons_of_not_ws (by decide)]
      simp only [show ¬ ('t' = '{') by decide, show ¬ ('t' = '[') by decide, show ¬ ('t' = '"') by decide,
        if_false, if_true, dropPrefix?, Option.map_some]

theorem numChar_facts (d : Char) (h : isNumChar d = true) :
    isWs d = false ∧ d ≠ '{' ∧ d ≠ '[' ∧ d ≠ '"' ∧ d ≠ 't' ∧ d ≠ 'f' ∧ d ≠ 'n' := by
  refine ⟨?_, ?_, ?_, ?_, ?_, ?_, ?_⟩
  · cases hw : isWs d with
    | false => rfl
    | true =>
      simp only [isWs, Bool.decide_or, Bool.or_eq_true, decide_eq_true_eq] at hw
      rcases hw with hw | hw | hw | hw <;> (subst hw; revert h; decide)
  all_goals (intro e; subst e; revert h; decide)

theorem good_int (i : Int) : GoodVal (fmtInt i) (.num (fmtInt i)) := by
  intro f c rest hc hf
  cases f with
  | zero => simp at hf
  | succ f =>
    have hne := fmtInt_ne_nil i
    have hnum := fmtInt_numChars i
    have hcn : isNumChar c = false := by rcases hc with h | h <;> (subst h; decide)
    have hscan := scanNum_append (fmtInt i) hnum c rest hcn
    cases hd : fmtInt i with
    | nil => exact absurd hd hne
    | cons d ds =>
      have hdn : isNumChar d = true := hnum d (by rw [hd]; exact List.mem_cons_self)
      obtain ⟨h0, h1, h2, h3, h4, h5, h6⟩ := numChar_facts d hdn
      rw [hd] at hscan
      simp only [List.cons_append, parseValue]
      rw [skipWs_cons_of_not_ws h0]
      simp only [h1, h2, h3, h4, h5, h6, if_false, hdn, if_true]
      simp only [List.cons_append] at hscan
      rw [hscan]

theorem good_str (s : List Char) : GoodVal (jsonString s) (.str s) := by
  intro f c rest _ hf
  cases f with
  | zero => simp at hf
  | succ f =>
    simp only [jsonString, List.cons_append, List.append_assoc, List.nil_append, parseValue]
    rw [skipWs_cons_of_not_ws (by decide)]
    simp only [show ¬ ('"' = '{') by decide, show ¬ ('"' = '[') by decide, if_false, if_true]
    rw [parseStrBody_escape]

theorem length_joinComma_cons2 (x y : List Char) (t : List (List Char)) :
    (joinComma (x :: y :: t)).length = x.length + 1 + (joinComma (y :: t)).length := by
  simp [joinComma]; omega

/-- members whose values are good are read back in order -/
theorem parseMembers_good (ms : List (List Char × List Char × Json)) (hne : ms ≠ [])
    (hg : ∀ m ∈ ms, GoodVal m.2.1 m.2.2) (f : Nat) (rest : List Char)
    (hf : (joinComma (ms.map fun m => memText m.1 m.2.1)).length < f) :
    parseMembers f (joinComma (ms.map fun m => memText m.1 m.2.1) ++ '}' :: rest) =
      some (ms.map fun m => (m.1, m.2.2), rest) := by
  induction ms generalizing f with
  | nil => exact absurd rfl hne
  | cons m t ih =>
    obtain ⟨k, vt, j⟩ := m
    have hgm : GoodVal vt j := hg (k, vt, j) List.mem_cons_self
    cases f with
    | zero => simp at hf
    | succ f =>
      cases t with
      | nil =>
        simp only [List.map_cons, List.map_nil, joinComma, memText, jsonString, List.cons_append, List.append_assoc,
          List.nil_append] at hf ⊢
        simp only [parseMembers, if_true]
        rw [parseStrBody_escape]
        simp only
        rw [skipWs_cons_of_not_ws (by decide)]
        simp only [if_true]
        have hlen : vt.length < f := by
          simp only [List.length_cons, List.length_append] at hf; omega
        rw [hgm f '}' rest (Or.inr rfl) hlen]
        simp only
        rw [skipWs_cons_of_not_ws (by decide)]
        simp only [show ¬ ('}' = ',') by decide, if_false, if_true]
      | cons m2 t2 =>
        have hlen0 := length_joinComma_cons2 (memText k vt) (memText m2.1 m2.2.1) (t2.map fun m => memText m.1 m.2.1)
        simp only [List.map_cons] at hf ⊢
        rw [hlen0] at hf
        have ih' := ih (by simp) (fun m hm => hg m (List.mem_cons_of_mem _ hm)) f
          (by simp only [List.map_cons]; omega)
        simp only [List.map_cons] at ih'
        -- the text: member, comma, the remaining members
        have htext : joinComma (memText k vt :: memText m2.1 m2.2.1 :: t2.map fun m => memText m.1 m.2.1) ++ '}' :: rest =
            '"' :: (jsonEscape k ++ '"' :: ':' :: (vt ++ ',' ::
              (joinComma (memText m2.1 m2.2.1 :: t2.map fun m => memText m.1 m.2.1) ++ '}' :: rest))) := by
          simp [joinComma, memText, jsonString, List.append_assoc]
        rw [htext]
        simp only [parseMembers, if_true]
        rw [parseStrBody_escape]
        simp only
        rw [skipWs_cons_of_not_ws (by decide)]
        simp only [if_true]
        have hlen : vt.length < f := by
          simp only [memText, jsonString, List.length_cons, List.length_append] at hf; omega
        rw [hgm f ',' _ (Or.inl rfl) hlen]
        simp only
        rw [skipWs_cons_of_not_ws (by decide)]
        simp only [if_true]
        -- the next member starts with a quote: no whitespace to skip
        have hq : ∃ tl, joinComma (memText m2.1 m2.2.1 :: t2.map fun m => memText m.1 m.2.1) ++ '}' :: rest = '"' :: tl := by
          cases t2 <;> exact ⟨_, by simp [joinComma, memText, jsonString]; rfl⟩
        obtain ⟨tl, htl⟩ := hq
        rw [htl, skipWs_cons_of_not_ws (by decide), ← htl, ih']

/-- an object of good members is read back, whatever follows -/
theorem parseValue_obj (ms : List (List Char × List Char × Json)) (hne : ms ≠ [])
    (hg : ∀ m ∈ ms, GoodVal m.2.1 m.2.2) (f : Nat) (rest : List Char)
    (hf : (joinComma (ms.map fun m => memText m.1 m.2.1)).length + 1 < f) :
    parseValue f ('{' :: (joinComma (ms.map fun m => memText m.1 m.2.1) ++ '}' :: rest)) =
      some (.obj (ms.map fun m => (m.1, m.2.2)), rest) := by
  cases f with
  | zero => simp at hf
  | succ f =>
    simp only [parseValue]
    rw [skipWs_cons_of_not_ws (by decide)]
    simp only [if_true]
    have hq : ∃ tl, joinComma (ms.map fun m => memText m.1 m.2.1) ++ '}' :: rest = '"' :: tl := by
      cases ms with
      | nil => exact absurd rfl hne
      | cons m t => cases t <;> exact ⟨_, by simp [joinComma, memText, jsonString]; rfl⟩
    obtain ⟨tl, htl⟩ := hq
    rw [htl, skipWs_cons_of_not_ws (by decide)]
    simp only [show ¬ ('"' = '}') by decide, if_false]
    rw [← htl, parseMembers_good ms hne hg f rest (by omega)]

theorem good_obj (ms : List (List Char × List Char × Json)) (hne : ms ≠ []) (hg : ∀ m ∈ ms, GoodVal m.2.1 m.2.2) :
    GoodVal ('{' :: (joinComma (ms.map fun m => memText m.1 m.2.1) ++ ['}'])) (.obj (ms.map fun m => (m.1, m.2.2))) := by
  intro f c rest _ hf
  simp only [List.cons_append, List.append_assoc, List.nil_append]
  apply parseValue_obj ms hne hg
  simp only [List.length_cons, List.length_append, List.length_nil] at hf
  omega

/-! ### the record -/

/-- what the names must satisfy for the decoder to find each member: exact matches at the right index -/
structure NamesOK (N : Names) : Prop where
  i0 : fieldIndex [N.revoked.toList, N.created.toList, N.key.toList, N.parent.toList] N.revoked.toList = some 0
  i1 : fieldIndex [N.revoked.toList, N.created.toList, N.key.toList, N.parent.toList] N.created.toList = some 1
  i2 : fieldIndex [N.revoked.toList, N.created.toList, N.key.toList, N.parent.toList] N.key.toList = some 2
  i3 : fieldIndex [N.revoked.toList, N.created.toList, N.key.toList, N.parent.toList] N.parent.toList = some 3
  k0 : fieldIndex [N.keyId.toList, N.pCreated.toList] N.keyId.toList = some 0
  k1 : fieldIndex [N.keyId.toList, N.pCreated.toList] N.pCreated.toList = some 1

instance (N : Names) : Decidable (NamesOK N) :=
  if h : fieldIndex [N.revoked.toList, N.created.toList, N.key.toList, N.parent.toList] N.revoked.toList = some 0 ∧
      fieldIndex [N.revoked.toList, N.created.toList, N.key.toList, N.parent.toList] N.created.toList = some 1 ∧
      fieldIndex [N.revoked.toList, N.created.toList, N.key.toList, N.parent.toList] N.key.toList = some 2 ∧
      fieldIndex [N.revoked.toList, N.created.toList, N.key.toList, N.parent.toList] N.parent.toList = some 3 ∧
      fieldIndex [N.keyId.toList, N.pCreated.toList] N.keyId.toList = some 0 ∧
      fieldIndex [N.keyId.toList, N.pCreated.toList] N.pCreated.toList = some 1
  then isTrue ⟨h.1, h.2.1, h.2.2.1, h.2.2.2.1, h.2.2.2.2.1, h.2.2.2.2.2⟩
  else isFalse fun ok => h ⟨ok.i0, ok.i1, ok.i2, ok.i3, ok.k0, ok.k1⟩

/-- members of the parent key meta object -/
def keyMetaMembers (N : Names) (k : KeyMeta) : List (List Char × List Char × Json) :=
  [(N.keyId.toList, jsonString k.id.toList, .str k.id.toList), (N.pCreated.toList, fmtInt k.created, .num (fmtInt k.created))]

/-- members of the record object, in the order `json.Marshal` writes them -/
def rowMembers (N : Names) (r : Rec) : List (List Char × List Char × Json) :=
  (if r.revoked || !N.revokedOmit then [(N.revoked.toList, boolText r.revoked, Json.bool r.revoked)] else []) ++
  [(N.created.toList, fmtInt r.created, Json.num (fmtInt r.created)),
   (N.key.toList, jsonString (b64Encode r.key), Json.str (b64Encode r.key))] ++
  (match r.parent with
   | some k => [(N.parent.toList, keyMetaText N k, Json.obj ((keyMetaMembers N k).map fun m => (m.1, m.2.2)))]
   | none => if N.parentOmit then [] else [(N.parent.toList, ['n', 'u', 'l', 'l'], Json.null)])

theorem keyMetaText_eq (N : Names) (k : KeyMeta) :
    keyMetaText N k = '{' :: (joinComma ((keyMetaMembers N k).map fun m => memText m.1 m.2.1) ++ ['}']) := by
  simp [keyMetaText, keyMetaMembers, memberText, memText]

theorem encodeRowText_eq (N : Names) (r : Rec) :
    encodeRowText N r = '{' :: (joinComma ((rowMembers N r).map fun m => memText m.1 m.2.1) ++ ['}']) := by
  obtain ⟨id, revoked, created, key, parent⟩ := r
  obtain ⟨nrev, nrevOmit, ncreated, nkey, nparent, nparentOmit, nkeyId, npCreated⟩ := N
  cases parent with
  | some k =>
    cases revoked <;> cases nrevOmit <;> simp [encodeRowText, rowMembers, memberText, memText]
  | none =>
    cases revoked <;> cases nrevOmit <;> cases nparentOmit <;>
      simp [encodeRowText, rowMembers, memberText, memText]

theorem keyMetaMembers_good (N : Names) (k : KeyMeta) : ∀ m ∈ keyMetaMembers N k, GoodVal m.2.1 m.2.2 := by
  intro m hm
  simp only [keyMetaMembers, List.mem_cons, List.not_mem_nil, or_false] at hm
  rcases hm with h | h <;> subst h
  · exact good_str _
  · exact good_int _

theorem rowMembers_good (N : Names) (r : Rec) : ∀ m ∈ rowMembers N r, GoodVal m.2.1 m.2.2 := by
  obtain ⟨id, revoked, created, key, parent⟩ := r
  intro m hm
  simp only [rowMembers, List.mem_append, List.mem_cons, List.not_mem_nil, or_false] at hm
  rcases hm with (hm | hm | hm) | hm
  · split at hm
    · simp only [List.mem_cons, List.not_mem_nil, or_false] at hm; subst hm; exact good_bool _
    · simp at hm
  · subst hm; exact good_int _
  · subst hm; exact good_str _
  · cases parent with
    | some k =>
      simp only [List.mem_cons, List.not_mem_nil, or_false] at hm
      subst hm
      simp only [keyMetaText_eq]
      exact good_obj _ (by simp [keyMetaMembers]) (keyMetaMembers_good N k)
    | none =>
      simp only at hm
      split at hm
      · simp at hm
      · simp only [List.mem_cons, List.not_mem_nil, or_false] at hm; subst hm; exact good_null

theorem rowMembers_ne_nil (N : Names) (r : Rec) : rowMembers N r ≠ [] := by
  simp [rowMembers]

/-- the text written by Store parses to the object with exactly the written members -/
theorem parseJson_encodeRowText (N : Names) (r : Rec) :
    parseJson (encodeRowText N r) = some (.obj ((rowMembers N r).map fun m => (m.1, m.2.2))) := by
  unfold parseJson
  rw [encodeRowText_eq]
  have := parseValue_obj (rowMembers N r) (rowMembers_ne_nil N r) (rowMembers_good N r)
    (('{' :: (joinComma ((rowMembers N r).map fun m => memText m.1 m.2.1) ++ ['}'])).length + 1) []
    (by simp only [List.length_cons, List.length_append, List.length_nil]; omega)
  rw [this]
  simp [skipWs]

theorem decodeKeyMetaJ_members (N : Names) (ok : NamesOK N) (k : KeyMeta) (km0 : KeyMeta) :
    decodeKeyMetaJ N km0 ((keyMetaMembers N k).map fun m => (m.1, m.2.2)) = some k := by
  simp [keyMetaMembers, decodeKeyMetaJ, foldOpt, stepKeyMetaJ, ok.k0, ok.k1, parseInt_fmtInt,
    String.ofList_toList]

/-- the decoder run over the written members rebuilds the record (the transient ID stays empty) -/
theorem decodeEkrJ_members (N : Names) (ok : NamesOK N) (r : Rec) :
    decodeEkrJ N Rec.zero ((rowMembers N r).map fun m => (m.1, m.2.2)) = some r.eraseId := by
  obtain ⟨id, revoked, created, key, parent⟩ := r
  have hk := b64Decode_encode key
  have i0 := ok.i0
  have i1 := ok.i1
  have i2 := ok.i2
  have i3 := ok.i3
  cases parent with
  | some k =>
    have hkm := decodeKeyMetaJ_members N ok k ⟨"", 0⟩
    obtain ⟨nrev, nrevOmit, ncreated, nkey, nparent, nparentOmit, nkeyId, npCreated⟩ := N
    simp only at i0 i1 i2 i3 hkm
    cases revoked <;> cases nrevOmit <;>
      simp [rowMembers, Rec.eraseId, Rec.zero, decodeEkrJ, foldOpt, stepEkrJ, i0, i1, i2, i3, parseInt_fmtInt, hk, hkm]
  | none =>
    obtain ⟨nrev, nrevOmit, ncreated, nkey, nparent, nparentOmit, nkeyId, npCreated⟩ := N
    simp only at i0 i1 i2 i3
    cases revoked <;> cases nrevOmit <;> cases nparentOmit <;>
      simp [rowMembers, Rec.eraseId, Rec.zero, decodeEkrJ, foldOpt, stepEkrJ, i0, i1, i2, i3, parseInt_fmtInt, hk]

/-- **SQL row round trip**: every record (binary key of any length, revoked or not, with or without
parent meta whose id is any string) written by `json.Marshal` is read back by `json.Unmarshal` with
every persisted field intact. -/
theorem decodeRowText_encodeRowText (N : Names) (ok : NamesOK N) (r : Rec) :
    decodeRowText N (String.ofList (encodeRowText N r)) = .ok (some r.eraseId) := by
  unfold decodeRowText
  rw [String.toList_ofList, parseJson_encodeRowText]
  simp only [decodeEkrJ_members N ok r]

end AsherahVerif.Metastore
