import AsherahVerif.Proofs.EnvResRoleCache
/-
C03 — the role discipline through `envelope.go`: every key loader returns a key of the role it is
asked for, and `EncryptPayload` / `DecryptDataRowRecord` keep the typing invariant; the call log of
an encrypt then satisfies `okEnc`.
-/
set_option linter.unusedVariables false
namespace AsherahVerif.Env.Res

section
variable (ρ0 : RoleMap) (part : Nat) (Γ : List Fact)

/-- keep the head fact, forget the ones between it and `Γ`. -/
theorem TIx.keep_head {w : World} {f : Fact} {Δ : List Fact} (h : TIx ρ0 part (f :: (Δ ++ Γ)) w) : TIx ρ0 part (f :: Γ) w :=
  h.weaken fun g hg => by
    rcases List.mem_cons.1 hg with rfl | hg
    · exact List.mem_cons_self
    · exact List.mem_cons_of_mem _ (List.mem_append_right _ hg)

theorem generateKey_ti (x : Ctx) (role : Role) :
    Spec (TIx ρ0 part Γ) (generateKey x) (fun o => TIx ρ0 part (Fact.obj o role :: Γ)) (TIx ρ0 part Γ) := by
  unfold generateKey
  refine Spec.bind get_any (fun _ h => h) fun w0 => ?_
  refine Spec.bind (secretRandom_ti ρ0 part Γ role) (fun _ h => h) ?_
  rintro ⟨s, m⟩
  exact newKeyObj_ti ρ0 part Γ role _ _ _ _

theorem systemKeyFromEKR_ti (r : Row) (hr : Fact.row r .sk ∈ Γ) :
    Spec (TIx ρ0 part Γ) (systemKeyFromEKR r) (fun o => TIx ρ0 part (Fact.obj o .system :: Γ)) (TIx ρ0 part Γ) := by
  unfold systemKeyFromEKR
  refine Spec.bind (kmsDecrypt_ti_row ρ0 part Γ r hr) (fun _ h => h) ?_
  rintro ⟨b, m⟩
  refine Spec.bind (secretNew_ti ρ0 part _ b m).toSpec (fun _ h => h.drop) fun s => ?_
  exact newKeyObj_ti ρ0 part Γ .system _ _ _ _

theorem loadSystemKey_ti (m : KeyMeta) (hk : m.kid = .sk) :
    Spec (TIx ρ0 part Γ) (loadSystemKey m) (fun o => TIx ρ0 part (Fact.obj o .system :: Γ)) (TIx ρ0 part Γ) := by
  unfold loadSystemKey
  refine Spec.bind (msLoad_ti ρ0 part Γ m) (fun _ h => h) fun r => ?_
  cases r with
  | none => exact Spec.throw _ fun _ h => by simpa using h
  | some row =>
    simp only [List.singleton_append]
    exact (systemKeyFromEKR_ti ρ0 part _ row (hk ▸ List.mem_cons_self)).weaken (fun _ h => h)
      (fun o w h => TIx.keep_head ρ0 part Γ (Δ := [_]) h) (fun _ h => h.drop)

theorem loadSystemKey_typed (m : KeyMeta) (hk : m.kid = .sk) : LoaderTyped ρ0 part loadSystemKey m := by
  intro Γ
  have := loadSystemKey_ti ρ0 part Γ m hk
  simpa [roleOfKid, hk] using this

theorem getOrLoadSystemKey_ti (x : Ctx) (m : KeyMeta) (hk : m.kid = .sk) :
    Spec (TIx ρ0 part Γ) (getOrLoadSystemKey x m) (fun o => TIx ρ0 part (Fact.obj o .system :: Γ)) (TIx ρ0 part Γ) := by
  unfold getOrLoadSystemKey
  have := getOrLoad_ti ρ0 part Γ x.skCache m x.pol.revokeInterval loadSystemKey (loadSystemKey_typed ρ0 part m hk)
  simpa [roleOfKid, hk] using this

theorem tryStoreSystemKey_ti (sk : Nat) (hsk : Fact.obj sk .system ∈ Γ) : Preserves (TIx ρ0 part Γ) (tryStoreSystemKey sk) := by
  unfold tryStoreSystemKey
  apply Spec.toPreserves
  refine Spec.bind (keyObj_any _) (fun _ h => h) fun ko => ?_
  refine Spec.bind (R := fun c => TIx ρ0 part (Fact.ct .sk c :: Γ)) (E₁ := TIx ρ0 part Γ) ?_ (fun _ h => h) fun enc => ?_
  · refine withKey_ti ρ0 part Γ sk .system _ hsk (fun _ _ _ h => TIx.aac ρ0 part Γ _ _ h) fun m => ?_
    exact (kmsEncrypt_ti ρ0 part _ m List.mem_cons_self).weaken (fun _ h => h)
      (fun c w h => TIx.keep_head ρ0 part Γ (Δ := [_]) h) (fun _ h => h.drop)
  · exact ((msStore_ti ρ0 part _ { kid := .sk, created := ko.created, revoked := false, enc := enc, parent := none }
      List.mem_cons_self (fun p pm h => by cases h)).toSpec).weaken (fun _ h => h) (fun _ _ h => h.drop) (fun _ h => h.drop)

theorem createSK_ti (x : Ctx) :
    Spec (TIx ρ0 part Γ) (loadLatestOrCreateSystemKey.createSK x) (fun o => TIx ρ0 part (Fact.obj o .system :: Γ)) (TIx ρ0 part Γ) := by
  unfold loadLatestOrCreateSystemKey.createSK
  refine Spec.bind (generateKey_ti ρ0 part Γ x .system) (fun _ h => h) fun sk => ?_
  have d1 : ∀ w, TIx ρ0 part (Fact.obj sk .system :: Γ) w → TIx ρ0 part Γ w := fun _ h => h.drop
  refine Spec.bind (Spec.tryM (tryStoreSystemKey_ti ρ0 part _ sk List.mem_cons_self).toSpec) (fun _ h => h.elim) fun res => ?_
  cases res with
  | ok b =>
    cases b with
    | true => exact Spec.pure _ fun _ h => h
    | false =>
      dsimp only
      refine Spec.bind (keyCloseRaw_ti ρ0 part _ sk).toSpec d1 fun _ => ?_
      refine Spec.bind (mustLoadLatest_ti ρ0 part _ .sk) d1 fun r => ?_
      exact (systemKeyFromEKR_ti ρ0 part _ r List.mem_cons_self).weaken (fun _ h => h)
        (fun o w h => TIx.keep_head ρ0 part Γ (Δ := [_, _]) h) (fun _ h => h.drop.drop)
  | error e =>
    dsimp only
    refine Spec.bind (keyCloseRaw_ti ρ0 part _ sk).toSpec d1 fun _ => ?_
    exact Spec.throw _ fun _ h => h.drop

theorem loadLatestOrCreateSystemKey_ti (x : Ctx) :
    Spec (TIx ρ0 part Γ) (loadLatestOrCreateSystemKey x) (fun o => TIx ρ0 part (Fact.obj o .system :: Γ)) (TIx ρ0 part Γ) := by
  unfold loadLatestOrCreateSystemKey
  refine Spec.bind (msLoadLatest_ti ρ0 part Γ .sk) (fun _ h => h) fun r => ?_
  cases r with
  | none =>
    simp only [List.nil_append]
    exact Spec.bind get_any (fun _ h => h) fun _ => createSK_ti ρ0 part Γ x
  | some row =>
    simp only [List.singleton_append]
    refine Spec.bind (E₁ := TIx ρ0 part (Fact.row row .sk :: Γ)) get_any (fun _ h => h.drop) fun w0 => ?_
    split
    · exact (systemKeyFromEKR_ti ρ0 part _ row List.mem_cons_self).weaken (fun _ h => h)
        (fun o w h => TIx.keep_head ρ0 part Γ (Δ := [_]) h) (fun _ h => h.drop)
    · exact (createSK_ti ρ0 part _ x).weaken (fun _ h => h)
        (fun o w h => TIx.keep_head ρ0 part Γ (Δ := [_]) h) (fun _ h => h.drop)

theorem loadLatestOrCreateSystemKey_typed (x : Ctx) : LoaderTyped ρ0 part (fun _ => loadLatestOrCreateSystemKey x) ⟨.sk, 0⟩ := by
  intro Γ
  exact loadLatestOrCreateSystemKey_ti ρ0 part Γ x


def ptFact (p : Nat) (pt : Pt) : List Fact :=
  match pt with
  | .key m => [Fact.mat m (.intermediate p)]
  | .payload _ => []

theorem ikBody_ti (r : Row) (sk' : Nat) (hsk : Fact.obj sk' .system ∈ Γ) (hr : Fact.row r (.ik part) ∈ Γ) :
    Spec (TIx ρ0 part Γ) (do
      let pt ← withKey sk' fun skm => aeadDecrypt r.enc skm
      match pt with
      | .key m =>
        let b ← newBuf m
        let s ← secretNew b m
        newKeyObj r.created r.revoked m s
      | .payload _ => throw .aead : M Nat)
      (fun o => TIx ρ0 part (Fact.obj o (.intermediate part) :: Γ)) (TIx ρ0 part Γ) := by
  refine Spec.bind (R := fun pt => TIx ρ0 part (ptFact part pt ++ Γ)) (E₁ := TIx ρ0 part Γ) ?_ (fun _ h => h) fun pt => ?_
  · refine withKey_ti ρ0 part Γ sk' .system _ hsk (fun _ _ _ h => TIx.aac ρ0 part Γ _ _ h) fun skm => ?_
    refine (aeadDecrypt_ti_row ρ0 part _ r part skm (List.mem_cons_of_mem _ hr)).weaken (fun _ h => h) ?_ (fun _ h => h.drop)
    intro pt w h
    refine h.weaken fun f hf => ?_
    rcases List.mem_append.1 hf with hf | hf
    · exact List.mem_append_left _ (by cases pt <;> exact hf)
    · exact List.mem_append_right _ (List.mem_cons_of_mem _ hf)
  · cases pt with
    | payload q => exact Spec.throw _ fun _ h => by simpa [ptFact] using h
    | key m =>
      simp only [ptFact, List.singleton_append]
      refine Spec.bind (newBuf_ti ρ0 part _ m).toSpec (fun _ h => h.drop) fun b => ?_
      refine Spec.bind (secretNew_ti ρ0 part _ b m).toSpec (fun _ h => h.drop) fun s => ?_
      exact newKeyObj_ti ρ0 part Γ (.intermediate part) _ _ _ _

theorem ikTail_ti (r : Row) (sk' : Nat) (flag : Bool) (hsk : Fact.obj sk' .system ∈ Γ) (hr : Fact.row r (.ik part) ∈ Γ) :
    Spec (TIx ρ0 part Γ)
      (if flag = true then finallyDo (do
          let pt ← withKey sk' fun skm => aeadDecrypt r.enc skm
          match pt with
          | .key m =>
            let b ← newBuf m
            let s ← secretNew b m
            newKeyObj r.created r.revoked m s
          | .payload _ => throw .aead : M Nat) (keyRelease sk')
        else (do
          let pt ← withKey sk' fun skm => aeadDecrypt r.enc skm
          match pt with
          | .key m =>
            let b ← newBuf m
            let s ← secretNew b m
            newKeyObj r.created r.revoked m s
          | .payload _ => throw .aead : M Nat))
      (fun o => TIx ρ0 part (Fact.obj o (.intermediate part) :: Γ)) (TIx ρ0 part Γ) := by
  split
  · exact Spec.finallyDo (ikBody_ti ρ0 part Γ r sk' hsk hr) (fun a => (keyRelease_ti ρ0 part _ sk').toSpec) (keyRelease_ti ρ0 part _ sk').toSpec
  · exact ikBody_ti ρ0 part Γ r sk' hsk hr

/-- `intermediateKeyFromEKR`: a well-typed intermediate-key row of the partition, unwrapped under a
system key, gives an intermediate key of the partition. -/
theorem intermediateKeyFromEKR_ti (x : Ctx) (sk : Nat) (r : Row) (b : Bool)
    (hsk : Fact.obj sk .system ∈ Γ) (hr : Fact.row r (.ik part) ∈ Γ) :
    Spec (TIx ρ0 part Γ) (intermediateKeyFromEKR x sk r b)
      (fun o => TIx ρ0 part (Fact.obj o (.intermediate part) :: Γ)) (TIx ρ0 part Γ) := by
  refine Spec.with_pre fun ⟨w0, hw0⟩ => ?_
  have hpure := hw0.row_pure ρ0 part Γ hr
  unfold intermediateKeyFromEKR
  refine Spec.bind (keyObj_any _) (fun _ h => h) fun so => ?_
  dsimp only
  have tailOld : ∀ (q : Nat × Bool), q = (sk, false) → Spec (TIx ρ0 part Γ)
      (match q with
        | (sk', loaded) =>
          if (loaded && b) = true then finallyDo (do
              let pt ← withKey sk' fun skm => aeadDecrypt r.enc skm
              match pt with
              | .key m =>
                let b ← newBuf m
                let s ← secretNew b m
                newKeyObj r.created r.revoked m s
              | .payload _ => throw .aead : M Nat) (keyRelease sk')
            else (do
              let pt ← withKey sk' fun skm => aeadDecrypt r.enc skm
              match pt with
              | .key m =>
                let b ← newBuf m
                let s ← secretNew b m
                newKeyObj r.created r.revoked m s
              | .payload _ => throw .aead : M Nat))
      (fun o => TIx ρ0 part (Fact.obj o (.intermediate part) :: Γ)) (TIx ρ0 part Γ) := by
    rintro q rfl
    exact ikTail_ti ρ0 part Γ r sk (false && b) hsk hr
  split
  · rename_i p hp
    split
    · refine Spec.bind (getOrLoadSystemKey_ti ρ0 part Γ x p (hpure.2 part p (hpure.1) hp)) (fun _ h => h) fun l => ?_
      refine Spec.bind (R := fun q w => TIx ρ0 part (Fact.obj l .system :: Γ) w ∧ q = (l, true)) (E₁ := fun _ => False)
        (Spec.pure _ fun _ h => ⟨h, rfl⟩) (fun _ h => h.elim) fun q => Spec.pure_pre ?_
      rintro rfl
      exact (ikTail_ti ρ0 part _ r l (true && b) List.mem_cons_self (List.mem_cons_of_mem _ hr)).weaken (fun _ h => h)
        (fun o w h => TIx.keep_head ρ0 part Γ (Δ := [_]) h) (fun _ h => h.drop)
    · exact Spec.bind (R := fun q w => TIx ρ0 part Γ w ∧ q = (sk, false)) (E₁ := fun _ => False)
        (Spec.pure _ fun _ h => ⟨h, rfl⟩) (fun _ h => h.elim) fun q => Spec.pure_pre (tailOld q)
  · exact Spec.bind (R := fun q w => TIx ρ0 part Γ w ∧ q = (sk, false)) (E₁ := fun _ => False)
      (Spec.pure _ fun _ h => ⟨h, rfl⟩) (fun _ h => h.elim) fun q => Spec.pure_pre (tailOld q)


theorem tryStoreIntermediateKey_ti (x : Ctx) (hx : x.part = part) (ik sk : Nat)
    (hik : Fact.obj ik (.intermediate part) ∈ Γ) (hsk : Fact.obj sk .system ∈ Γ) :
    Preserves (TIx ρ0 part Γ) (tryStoreIntermediateKey x ik sk) := by
  unfold tryStoreIntermediateKey
  apply Spec.toPreserves
  refine Spec.bind (keyObj_any _) (fun _ h => h) fun io => ?_
  refine Spec.bind (keyObj_any _) (fun _ h => h) fun so => ?_
  refine Spec.bind (R := fun c => TIx ρ0 part (Fact.ct (.ik part) c :: Γ)) (E₁ := TIx ρ0 part Γ) ?_ (fun _ h => h) fun enc => ?_
  · refine withKey_ti ρ0 part Γ ik (.intermediate part) _ hik (fun _ _ _ h => TIx.aac ρ0 part Γ _ _ h) fun ikm => ?_
    refine withKey_ti ρ0 part _ sk .system _ (List.mem_cons_of_mem _ hsk)
      (fun _ _ _ h => (TIx.aac ρ0 part _ _ _ h).drop) fun skm => ?_
    exact (aeadEncrypt_ti_ik ρ0 part _ ikm skm (List.mem_cons_of_mem _ List.mem_cons_self) List.mem_cons_self).weaken
      (fun _ h => h) (fun c w h => TIx.keep_head ρ0 part Γ (Δ := [_, _]) h) (fun _ h => h.drop.drop)
  · have hkid : x.ikId = .ik part := by unfold Ctx.ikId; rw [hx]
    let row : Row := { kid := x.ikId, created := io.created, revoked := false, enc := enc, parent := some ⟨.sk, so.created⟩ }
    have hct : Fact.ct row.kid row.enc ∈ Fact.ct (.ik part) enc :: Γ := by
      show Fact.ct x.ikId enc ∈ _; rw [hkid]; exact List.mem_cons_self
    exact ((msStore_ti ρ0 part _ row hct (fun p pm _ hp => by cases hp; rfl)).toSpec).weaken
      (fun _ h => h) (fun _ _ h => h.drop) (fun _ h => h.drop)

theorem createIntermediateKey_ti (x : Ctx) (hx : x.part = part) (b : Bool) :
    Spec (TIx ρ0 part Γ) (createIntermediateKey x b)
      (fun o => TIx ρ0 part (Fact.obj o (.intermediate part) :: Γ)) (TIx ρ0 part Γ) := by
  have hkid : x.ikId = .ik part := by unfold Ctx.ikId; rw [hx]
  unfold createIntermediateKey
  refine Spec.bind (getOrLoadLatest_ti ρ0 part Γ x.skCache .sk _ _ _ (loadLatestOrCreateSystemKey_typed ρ0 part x)) (fun _ h => h) fun sk => ?_
  simp only [roleOfKid]
  refine Spec.finallyDo (R := fun o => TIx ρ0 part (Fact.obj o (.intermediate part) :: Fact.obj sk .system :: Γ))
    (E₁ := TIx ρ0 part (Fact.obj sk .system :: Γ)) ?_
    (fun a => ((keyRelease_ti ρ0 part _ sk).toSpec).weaken (fun _ h => h) (fun _ _ h => TIx.keep_head ρ0 part Γ (Δ := [_]) h)
      (fun _ h => TIx.keep_head ρ0 part Γ (Δ := [_]) h))
    (((keyRelease_ti ρ0 part _ sk).toSpec).weaken (fun _ h => h) (fun _ _ h => h.drop) (fun _ h => h.drop))
  refine Spec.bind (generateKey_ti ρ0 part _ x (.intermediate part)) (fun _ h => h) fun ik => ?_
  have d1 : ∀ w, TIx ρ0 part (Fact.obj ik (.intermediate part) :: Fact.obj sk .system :: Γ) w → TIx ρ0 part (Fact.obj sk .system :: Γ) w :=
    fun _ h => h.drop
  refine Spec.bind (Spec.tryM (tryStoreIntermediateKey_ti ρ0 part _ x hx ik sk List.mem_cons_self
    (List.mem_cons_of_mem _ List.mem_cons_self)).toSpec) (fun _ h => h.elim) fun res => ?_
  cases res with
  | ok bb =>
    cases bb with
    | true => exact Spec.pure _ fun _ h => h
    | false =>
      dsimp only
      refine Spec.bind (keyCloseRaw_ti ρ0 part _ ik).toSpec d1 fun _ => ?_
      refine Spec.bind (mustLoadLatest_ti ρ0 part _ x.ikId) d1 fun r => ?_
      rw [hkid]
      exact (intermediateKeyFromEKR_ti ρ0 part _ x sk r b (List.mem_cons_of_mem _ (List.mem_cons_of_mem _ List.mem_cons_self))
        List.mem_cons_self).weaken (fun _ h => h)
        (fun o w h => TIx.keep_head ρ0 part _ (Δ := [_, _]) h) (fun _ h => h.drop.drop)
  | error e =>
    dsimp only
    refine Spec.bind (keyCloseRaw_ti ρ0 part _ ik).toSpec d1 fun _ => ?_
    exact Spec.throw _ fun _ h => h.drop

def optObjFact (part : Nat) (o : Option Nat) : List Fact :=
  match o with
  | some ik => [Fact.obj ik (.intermediate part)]
  | none => []

theorem getValidIntermediateKey_ti (x : Ctx) (sk : Nat) (r : Row) (b : Bool)
    (hsk : Fact.obj sk .system ∈ Γ) (hr : Fact.row r (.ik part) ∈ Γ) :
    Spec (TIx ρ0 part Γ) (getValidIntermediateKey x sk r b) (fun o => TIx ρ0 part (optObjFact part o ++ Γ)) (TIx ρ0 part Γ) := by
  unfold getValidIntermediateKey
  refine Spec.bind (keyObj_any _) (fun _ h => h) fun so => ?_
  refine Spec.bind get_any (fun _ h => h) fun w0 => ?_
  split
  · exact Spec.pure _ fun _ h => by simpa [optObjFact] using h
  · refine Spec.bind (Spec.tryM (intermediateKeyFromEKR_ti ρ0 part Γ x sk r b hsk hr)) (fun _ h => h.elim) fun res => ?_
    cases res with
    | ok ik => exact Spec.pure _ fun _ h => by simpa [optObjFact] using h
    | error e => exact Spec.pure _ fun _ h => by simpa [optObjFact] using h

theorem loadLatestOrCreateIntermediateKey_ti (x : Ctx) (hx : x.part = part) (b : Bool) :
    Spec (TIx ρ0 part Γ) (loadLatestOrCreateIntermediateKey x b)
      (fun o => TIx ρ0 part (Fact.obj o (.intermediate part) :: Γ)) (TIx ρ0 part Γ) := by
  have hkid : x.ikId = .ik part := by unfold Ctx.ikId; rw [hx]
  unfold loadLatestOrCreateIntermediateKey
  refine Spec.bind (msLoadLatest_ti ρ0 part Γ x.ikId) (fun _ h => h) fun r => ?_
  cases r with
  | none =>
    simp only [List.nil_append]
    exact Spec.bind get_any (fun _ h => h) fun _ => createIntermediateKey_ti ρ0 part Γ x hx b
  | some row =>
    simp only [List.singleton_append]
    rw [hkid]
    refine Spec.with_pre fun ⟨w0, hw0⟩ => ?_
    have hpure := hw0.row_pure ρ0 part _ List.mem_cons_self
    have d1 : ∀ w, TIx ρ0 part (Fact.row row (.ik part) :: Γ) w → TIx ρ0 part Γ w := fun _ h => h.drop
    have viaCreate : Spec (TIx ρ0 part (Fact.row row (.ik part) :: Γ)) (createIntermediateKey x b)
        (fun o => TIx ρ0 part (Fact.obj o (.intermediate part) :: Γ)) (TIx ρ0 part Γ) :=
      (createIntermediateKey_ti ρ0 part _ x hx b).weaken (fun _ h => h)
        (fun o w h => TIx.keep_head ρ0 part Γ (Δ := [_]) h) d1
    refine Spec.bind (E₁ := TIx ρ0 part (Fact.row row (.ik part) :: Γ)) get_any d1 fun w1 => ?_
    split
    · exact viaCreate
    · split
      · exact Spec.throw _ d1
      · rename_i p hp
        have hpk : p.kid = .sk := hpure.2 part p hpure.1 hp
        refine Spec.bind (Spec.tryM (getOrLoadSystemKey_ti ρ0 part _ x p hpk)) (fun _ h => h.elim) fun res => ?_
        cases res with
        | error e => exact viaCreate
        | ok sk =>
          dsimp only
          refine Spec.finallyDo (R := fun o => TIx ρ0 part (Fact.obj o (.intermediate part) :: Γ)) (E₁ := TIx ρ0 part Γ) ?_
            (fun a => (keyRelease_ti ρ0 part _ sk).toSpec) (keyRelease_ti ρ0 part _ sk).toSpec
          refine Spec.bind (getValidIntermediateKey_ti ρ0 part _ x sk row b List.mem_cons_self
            (List.mem_cons_of_mem _ List.mem_cons_self)) (fun _ h => h.drop.drop) fun o => ?_
          cases o with
          | some ik => exact Spec.pure _ fun _ h => TIx.keep_head ρ0 part Γ (Δ := [_, _]) (by simpa [optObjFact] using h)
          | none =>
            exact (createIntermediateKey_ti ρ0 part _ x hx b).weaken (fun _ h => by simpa [optObjFact] using h)
              (fun o w h => TIx.keep_head ρ0 part Γ (Δ := [_, _]) h) (fun _ h => h.drop.drop)

theorem loadIntermediateKey_ti (x : Ctx) (m : KeyMeta) (hm : m.kid = .ik part) (b : Bool) :
    Spec (TIx ρ0 part Γ) (loadIntermediateKey x m b)
      (fun o => TIx ρ0 part (Fact.obj o (.intermediate part) :: Γ)) (TIx ρ0 part Γ) := by
  unfold loadIntermediateKey
  refine Spec.bind (msLoad_ti ρ0 part Γ m) (fun _ h => h) fun r => ?_
  cases r with
  | none => exact Spec.throw _ fun _ h => by simpa using h
  | some row =>
    simp only [List.singleton_append]
    rw [hm]
    refine Spec.with_pre fun ⟨w0, hw0⟩ => ?_
    have hpure := hw0.row_pure ρ0 part _ List.mem_cons_self
    have d1 : ∀ w, TIx ρ0 part (Fact.row row (.ik part) :: Γ) w → TIx ρ0 part Γ w := fun _ h => h.drop
    split
    · exact Spec.throw _ d1
    · rename_i p hp
      have hpk : p.kid = .sk := hpure.2 part p hpure.1 hp
      refine Spec.bind (getOrLoadSystemKey_ti ρ0 part _ x p hpk) d1 fun sk => ?_
      refine Spec.finallyDo (R := fun o => TIx ρ0 part (Fact.obj o (.intermediate part) :: Γ)) (E₁ := TIx ρ0 part Γ) ?_
        (fun a => (keyRelease_ti ρ0 part _ sk).toSpec) (keyRelease_ti ρ0 part _ sk).toSpec
      exact (intermediateKeyFromEKR_ti ρ0 part _ x sk row b List.mem_cons_self (List.mem_cons_of_mem _ List.mem_cons_self)).weaken
        (fun _ h => h) (fun o w h => TIx.keep_head ρ0 part Γ (Δ := [_, _]) h) (fun _ h => h.drop.drop)


theorem loadLatestOrCreateIntermediateKey_typed (x : Ctx) (hx : x.part = part) (b : Bool) :
    LoaderTyped ρ0 part (fun _ => loadLatestOrCreateIntermediateKey x b) ⟨x.ikId, 0⟩ := by
  intro Γ
  have := loadLatestOrCreateIntermediateKey_ti ρ0 part Γ x hx b
  simpa [roleOfKid, Ctx.ikId, hx] using this

theorem loadIntermediateKey_typed (x : Ctx) (m : KeyMeta) (hm : m.kid = .ik part) (b : Bool) :
    LoaderTyped ρ0 part (fun m => loadIntermediateKey x m b) m := by
  intro Γ
  have := loadIntermediateKey_ti ρ0 part Γ x m hm b
  simpa [roleOfKid, hm] using this

/-- `EncryptPayload` keeps the typing; in particular every call it logs is allowed. -/
theorem encryptPayload_ti (x : Ctx) (hx : x.part = part) (p : Nat) (b : Bool) :
    Preserves (TIx ρ0 part Γ) (encryptPayload x p b) := by
  have hkid : roleOfKid x.ikId = .intermediate part := by simp [roleOfKid, Ctx.ikId, hx]
  unfold encryptPayload
  apply Spec.toPreserves
  refine Spec.bind (getOrLoadLatest_ti ρ0 part Γ x.ikCache x.ikId _ _ _ (loadLatestOrCreateIntermediateKey_typed ρ0 part x hx b))
    (fun _ h => h) fun ik => ?_
  rw [hkid]
  have d1 : ∀ w, TIx ρ0 part (Fact.obj ik (.intermediate part) :: Γ) w → TIx ρ0 part Γ w := fun _ h => h.drop
  refine Spec.finallyDo (R := fun _ => TIx ρ0 part (Fact.obj ik (.intermediate part) :: Γ))
    (E₁ := TIx ρ0 part (Fact.obj ik (.intermediate part) :: Γ)) ?_
    (fun _ => ((keyRelease_ti ρ0 part _ ik).toSpec).weaken (fun _ h => h) (fun _ _ h => h.drop) (fun _ h => h.drop))
    (((keyRelease_ti ρ0 part _ ik).toSpec).weaken (fun _ h => h) (fun _ _ h => h.drop) (fun _ h => h.drop))
  refine Spec.bind get_any (fun _ h => h) fun w0 => ?_
  refine Spec.bind (secretRandom_ti ρ0 part _ .data) (fun _ h => h) ?_
  rintro ⟨s, m⟩
  refine Spec.bind (newKeyObj_ti ρ0 part _ .data _ _ _ _) (fun _ h => h) fun drk => ?_
  -- context: drk (data), ik (intermediate part)
  have d2 : ∀ w, TIx ρ0 part (Fact.obj drk .data :: Fact.obj ik (.intermediate part) :: Γ) w →
      TIx ρ0 part (Fact.obj ik (.intermediate part) :: Γ) w := fun _ h => h.drop
  refine Spec.finallyDo (R := fun _ => TIx ρ0 part (Fact.obj drk .data :: Fact.obj ik (.intermediate part) :: Γ))
    (E₁ := TIx ρ0 part (Fact.obj drk .data :: Fact.obj ik (.intermediate part) :: Γ)) ?_
    (fun _ => ((keyCloseRaw_ti ρ0 part _ drk).toSpec).weaken (fun _ h => h) (fun _ _ h => h.drop) (fun _ h => h.drop))
    (((keyCloseRaw_ti ρ0 part _ drk).toSpec).weaken (fun _ h => h) (fun _ _ h => h.drop) (fun _ h => h.drop))
  have h1 : Preserves (TIx ρ0 part (Fact.obj drk .data :: Fact.obj ik (.intermediate part) :: Γ))
      (withKey drk fun dm => aeadEncrypt (.payload p) dm) := by
    apply Spec.toPreserves
    refine withKey_ti ρ0 part _ drk .data _ List.mem_cons_self (fun _ _ _ h => TIx.aac ρ0 part _ _ _ h) fun dm => ?_
    exact ((aeadEncrypt_ti_payload ρ0 part _ p dm List.mem_cons_self).toSpec).weaken (fun _ h => h) (fun _ _ h => h.drop) (fun _ h => h.drop)
  have h2 : Preserves (TIx ρ0 part (Fact.obj drk .data :: Fact.obj ik (.intermediate part) :: Γ))
      (withKey ik fun im => withKey drk fun dm => aeadEncrypt (.key dm) im) := by
    apply Spec.toPreserves
    refine withKey_ti ρ0 part _ ik (.intermediate part) _ (List.mem_cons_of_mem _ List.mem_cons_self)
      (fun _ _ _ h => TIx.aac ρ0 part _ _ _ h) fun im => ?_
    refine withKey_ti ρ0 part _ drk .data _ (List.mem_cons_of_mem _ List.mem_cons_self)
      (fun _ _ _ h => (TIx.aac ρ0 part _ _ _ h).drop) fun dm => ?_
    exact ((aeadEncrypt_ti_drk ρ0 part _ dm im List.mem_cons_self (List.mem_cons_of_mem _ List.mem_cons_self)).toSpec).weaken
      (fun _ h => h) (fun _ _ h => h.drop.drop) (fun _ h => h.drop.drop)
  apply Preserves.toSpec
  pres_auto [h1, h2]

theorem decryptRow_ti (ik : Nat) (dk : DrrKey) (data : Ct) : Preserves (TIx ρ0 part Γ) (decryptRow ik dk data) := by
  unfold decryptRow
  apply Spec.toPreserves
  refine withKey_ti_any ρ0 part Γ ik _ (fun _ _ _ h => TIx.aac ρ0 part Γ _ _ h) fun im => ?_
  apply Preserves.toSpec
  pres_auto [aeadDecrypt_ti, newBuf_ti, wipeBuf_ti]

theorem decryptDataRowRecord_ti (x : Ctx) (hx : x.part = part) (d : Drr) (b : Bool) :
    Preserves (TIx ρ0 part Γ) (decryptDataRowRecord x d b) := by
  unfold decryptDataRowRecord
  split
  · exact Preserves.throw _
  · split
    · exact Preserves.throw _
    · rename_i p _
      split
      · exact Preserves.throw _
      · rename_i hne
        have hpk : p.kid = .ik part := by
          have : p.kid = x.ikId := by
            apply Classical.byContradiction; intro h; exact hne h
          rw [this]; unfold Ctx.ikId; rw [hx]
        apply Spec.toPreserves
        refine Spec.bind (getOrLoad_ti ρ0 part Γ x.ikCache p _ _ (loadIntermediateKey_typed ρ0 part x p hpk b)) (fun _ h => h) fun ik => ?_
        exact Spec.finallyDo ((decryptRow_ti ρ0 part _ ik _ _).toSpec)
          (fun _ => ((keyRelease_ti ρ0 part _ ik).toSpec).weaken (fun _ h => h) (fun _ _ h => h.drop) (fun _ h => h.drop))
          (((keyRelease_ti ρ0 part _ ik).toSpec).weaken (fun _ h => h) (fun _ _ h => h.drop) (fun _ h => h.drop))

end
end AsherahVerif.Env.Res
