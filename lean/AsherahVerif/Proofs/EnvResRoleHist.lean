import AsherahVerif.Proofs.EnvResRoleEnv
import AsherahVerif.Proofs.EnvResHist
import AsherahVerif.Proofs.EnvResWf
import AsherahVerif.Proofs.EnvResObs
/-
C03 — the role discipline over whole histories: one role assignment `ρ` for the whole history
under which the call log of every encrypt is well-typed.
-/
set_option linter.unusedVariables false
namespace AsherahVerif.Env.Res

/-- quiescent typing invariant: the call log of the last operation is not part of it. -/
def TQ (ρ : RoleMap) (w : World) : Prop := TI ρ 0 { w with log := [] }

theorem TQ.toTI {ρ : RoleMap} {w : World} (h : TQ ρ w) (part : Nat) (fl : List Fault) :
    TI ρ part { w with log := [], faults := fl } :=
  ⟨h.dom, h.store, h.caches, fun c hc => by cases hc⟩

theorem TI.toTQ {ρ : RoleMap} {part : Nat} {w : World} (h : TI ρ part w) : TQ ρ w :=
  ⟨h.dom, h.store, h.caches, fun c hc => by cases hc⟩

theorem TQ.ofTIx {ρ0 : RoleMap} {part : Nat} {w : World} (h : TIx ρ0 part [] w) :
    ∃ ρ, ρ0.le ρ ∧ TQ ρ w ∧ ∀ c, c ∈ w.log → okEnc ρ part c := by
  obtain ⟨ρ, h1, h2, _⟩ := h
  exact ⟨ρ, h1, h2.toTQ, h2.log⟩

theorem TQ.toTIx {ρ : RoleMap} {w : World} (h : TQ ρ w) (part : Nat) (fl : List Fault) :
    TIx ρ part [] { w with log := [], faults := fl } :=
  ⟨ρ, RoleMap.le_refl ρ, h.toTI part fl, fun f hf => by cases hf⟩

section
variable (ρ0 : RoleMap) (part : Nat) (Γ : List Fact)

theorem addCache_ti (kc : KeyCache) (he : kc.ents = []) (hl : kc.latest = []) : Preserves (TIx ρ0 part Γ) (addCache kc) := by
  rintro w ⟨ρ, h1, h2, h3⟩
  refine ⟨ρ, h1, ⟨h2.dom, h2.store, ?_, h2.log⟩, fun f hf => (h3 f hf).mono (RoleMap.le_refl ρ) (KeysKeep.refl _)⟩
  intro c kc' hc
  have hc' : (w.caches ++ [kc])[c]? = some kc' := hc
  rw [getElem?_append_single] at hc'
  split at hc'
  · exact h2.caches c kc' hc'
  · split at hc'
    · cases hc'
      exact ⟨fun m e hme => (by rw [he] at hme; cases hme), fun kid l hl' => (by rw [hl] at hl'; cases hl')⟩
    · cases hc'

theorem cacheOf_empty (on : Bool) (kind : Option (Cache.Kind × Nat)) (a b : Nat) :
    (cacheOf on kind a b).ents = [] ∧ (cacheOf on kind a b).latest = [] := by
  unfold cacheOf newCache
  cases on <;> cases kind <;> simp

theorem newFactory_ti (p : Policy) (a b c d : Nat) : Preserves (TIx ρ0 part Γ) (newFactory p a b c d) := by
  unfold newFactory
  pres_auto_deep [addCache_ti ρ0 part Γ _ (cacheOf_empty _ _ _ _).1 (cacheOf_empty _ _ _ _).2]

theorem getSession_ti (f pt c d : Nat) : Preserves (TIx ρ0 part Γ) (getSession f pt c d) := by
  unfold getSession
  pres_auto_deep [addCache_ti ρ0 part Γ _ (cacheOf_empty _ _ _ _).1 (cacheOf_empty _ _ _ _).2]

theorem closeSession_ti (s : Nat) : Preserves (TIx ρ0 part Γ) (closeSession s) := by
  unfold closeSession; pres_auto [cacheClose_ti]

theorem closeFactory_ti (f : Nat) : Preserves (TIx ρ0 part Γ) (closeFactory f) := by
  unfold closeFactory; pres_auto [cacheClose_ti]

theorem beginOp_ti (fl : List Fault) : Preserves (TIx ρ0 part Γ) (beginOp fl) := by
  rintro w ⟨ρ, h1, h2, h3⟩
  exact ⟨ρ, h1, ⟨h2.dom, h2.store, h2.caches, fun c hc => by cases hc⟩,
    fun f hf => (h3 f hf).mono (RoleMap.le_refl ρ) (KeysKeep.refl _)⟩
end


theorem RowOK.revoke {ρ : RoleMap} {r : Row} (h : RowOK ρ r) : RowOK ρ { r with revoked := true } := h
theorem RowOK.dropParent {ρ : RoleMap} {r : Row} (h : RowOK ρ r) : RowOK ρ { r with parent := none } :=
  ⟨h.1, fun p pm _ hp => by cases hp⟩
theorem RowOK.junk {ρ : RoleMap} {r : Row} (h : RowOK ρ r) (j : Nat) : RowOK ρ { r with enc := .junk j } :=
  ⟨by show CtOK ρ r.kid (.junk j); cases r.kid <;> trivial, h.2⟩

theorem TQ.mapStore {ρ : RoleMap} {w : World} (h : TQ ρ w) (g : Row → Row) (hg : ∀ r, RowOK ρ r → RowOK ρ (g r)) :
    TQ ρ { w with store := w.store.map g } := by
  refine ⟨h.dom, ?_, h.caches, h.log⟩
  intro r hr
  obtain ⟨r0, h0, rfl⟩ := List.mem_map.1 hr
  exact hg r0 (h.store r0 h0)

theorem TQ.frame {ρ : RoleMap} {w w' : World} (h : TQ ρ w) (hm : w.mats ≤ w'.mats) (hs : w'.store = w.store)
    (hc : w'.caches = w.caches) (hk : w'.keys = w.keys) : TQ ρ w' :=
  TI.frame h hm hs hc rfl (KeysKeep.of_eq hk)

theorem TQ.appendCache {ρ : RoleMap} {w : World} (h : TQ ρ w) (kc : KeyCache) (he : kc.ents = []) (hl : kc.latest = []) :
    TQ ρ { w with caches := w.caches ++ [kc] } := by
  refine ⟨h.dom, h.store, ?_, h.log⟩
  intro c kc' hc
  have hc' : (w.caches ++ [kc])[c]? = some kc' := hc
  rw [getElem?_append_single] at hc'
  split at hc'
  · exact h.caches c kc' hc'
  · split at hc'
    · cases hc'
      exact ⟨fun m e hme => (by rw [he] at hme; cases hme), fun kid l hl' => (by rw [hl] at hl'; cases hl')⟩
    · cases hc'

/-- one public operation: the role assignment grows, the quiescent typing is kept, and if the
operation was an encrypt on session `s`, its call log is well-typed for that session's partition. -/
theorem TQ.applyOp {ρ : RoleMap} {w : World} (h : TQ ρ w) (op : Op) :
    ∃ ρ', ρ.le ρ' ∧ TQ ρ' (Env.applyOp w op).2 ∧
      ∀ s p fl, op = .encrypt s p fl → ∀ c, c ∈ (Env.applyOp w op).2.log → okEnc ρ' (sessionCtx w s).part c := by
  have viaPres : ∀ {α : Type} (pt : Nat) (f : α → Out) (x : M α) (w1 : World), TIx ρ pt [] w1 → Preserves (TIx ρ pt []) x →
      ∃ ρ', ρ.le ρ' ∧ TQ ρ' (wrapOut f (x w1)).2 := by
    intro α pt f x w1 hw1 hx
    have := hx w1 hw1
    have e : (wrapOut f (x w1)).2 = (x w1).2 := by unfold wrapOut; split <;> simp_all
    rw [e]
    obtain ⟨ρ', h1, h2, _⟩ := TQ.ofTIx this
    exact ⟨ρ', h1, h2⟩
  have noenc : ∀ {s p fl} {o : Op}, o = Op.encrypt s p fl → (∀ s p fl, o ≠ Op.encrypt s p fl) → False :=
    fun he hn => hn _ _ _ he
  cases op with
  | encrypt s pay fl =>
    rw [applyOp_eq]
    have he : encrypt s pay fl true w = encryptPayload (sessionCtx w s) pay true { w with log := [], faults := fl } := rfl
    simp only [he]
    have hti := encryptPayload_ti ρ (sessionCtx w s).part [] (sessionCtx w s) rfl pay true _ (h.toTIx (sessionCtx w s).part fl)
    have e : (wrapOut Out.record (encryptPayload (sessionCtx w s) pay true { w with log := [], faults := fl })).2 =
        (encryptPayload (sessionCtx w s) pay true { w with log := [], faults := fl }).2 := by unfold wrapOut; split <;> simp_all
    rw [e]
    obtain ⟨ρ', h1, h2, h3⟩ := TQ.ofTIx hti
    refine ⟨ρ', h1, h2, ?_⟩
    intro s' p' fl' heq c hc
    cases heq
    exact h3 c hc
  | decrypt s d fl =>
    rw [applyOp_eq]
    have he : decrypt s d fl true w = decryptDataRowRecord (sessionCtx w s) d true { w with log := [], faults := fl } := rfl
    simp only [he]
    obtain ⟨ρ', h1, h2⟩ := viaPres (sessionCtx w s).part Out.payload (decryptDataRowRecord (sessionCtx w s) d true) _
      (h.toTIx (sessionCtx w s).part fl) (decryptDataRowRecord_ti ρ (sessionCtx w s).part [] (sessionCtx w s) rfl d true) |> fun t => t
    · exact ⟨ρ', h1, h2, fun _ _ _ heq => by cases heq⟩
  | closeSession s =>
    rw [applyOp_eq]
    have e : (do beginOp []; closeSession s : M Unit) w = closeSession s { w with log := [], faults := [] } := rfl
    simp only [e]
    obtain ⟨ρ', h1, h2⟩ := viaPres 0 (fun _ => Out.unit) (closeSession s) _ (h.toTIx 0 []) (closeSession_ti ρ 0 [] s)
    exact ⟨ρ', h1, h2, fun _ _ _ heq => by cases heq⟩
  | closeFactory f =>
    rw [applyOp_eq]
    have e : (do beginOp []; closeFactory f : M Unit) w = closeFactory f { w with log := [], faults := [] } := rfl
    simp only [e]
    obtain ⟨ρ', h1, h2⟩ := viaPres 0 (fun _ => Out.unit) (closeFactory f) _ (h.toTIx 0 []) (closeFactory_ti ρ 0 [] f)
    exact ⟨ρ', h1, h2, fun _ _ _ heq => by cases heq⟩
  | newFactory p a b c d =>
    refine ⟨ρ, RoleMap.le_refl ρ, ?_, fun _ _ _ heq => by cases heq⟩
    rw [applyOp_snd_eq]
    simp only [Env.newFactory, bind_run, addCache]
    cases p.sharedIK with
    | false =>
      simp only [Bool.false_eq_true, if_false, pure_run]
      exact (h.appendCache _ (cacheOf_empty _ _ _ _).1 (cacheOf_empty _ _ _ _).2).frame (Nat.le_refl _) rfl rfl rfl
    | true =>
      simp only [if_true, pure_run, bind_run, addCache]
      exact ((h.appendCache _ (cacheOf_empty _ _ _ _).1 (cacheOf_empty _ _ _ _).2).appendCache _
        (cacheOf_empty _ _ _ _).1 (cacheOf_empty _ _ _ _).2).frame (Nat.le_refl _) rfl rfl rfl
  | getSession f pt c d =>
    refine ⟨ρ, RoleMap.le_refl ρ, ?_, fun _ _ _ heq => by cases heq⟩
    rw [applyOp_snd_eq]
    simp only [Env.getSession, bind_run, get_run]
    cases (w.facs.getD f default).sharedIk with
    | some c0 => simp only [pure_run]; exact h.frame (Nat.le_refl _) rfl rfl rfl
    | none =>
      simp only [addCache]
      exact (h.appendCache _ (cacheOf_empty _ _ _ _).1 (cacheOf_empty _ _ _ _).2).frame (Nat.le_refl _) rfl rfl rfl
  | advance d => exact ⟨ρ, RoleMap.le_refl ρ, h.frame (Nat.le_refl _) rfl rfl rfl, fun _ _ _ heq => by cases heq⟩
  | revoke m =>
    refine ⟨ρ, RoleMap.le_refl ρ, ?_, fun _ _ _ heq => by cases heq⟩
    exact h.mapStore _ fun r hr => by split <;> first | exact hr.revoke | exact hr
  | corruptRow m dp =>
    refine ⟨ρ, RoleMap.le_refl ρ, ?_, fun _ _ _ heq => by cases heq⟩
    exact h.mapStore _ fun r hr => by
      split
      · split
        · exact hr.dropParent
        · exact hr.junk 2
      · exact hr


/-- the whole history: one final role assignment types every encrypt's call log. -/
theorem TQ.runOps (ops : List Op) : ∀ {ρ : RoleMap} {w : World}, TQ ρ w →
    ∃ ρ', ρ.le ρ' ∧ TQ ρ' (Env.runOps w ops).2 ∧
      ∀ pre s p fl post, ops = pre ++ Op.encrypt s p fl :: post →
        ∀ c, c ∈ (Env.applyOp (Env.runOps w pre).2 (.encrypt s p fl)).2.log →
          okEnc ρ' (sessionCtx (Env.runOps w pre).2 s).part c := by
  induction ops with
  | nil =>
    intro ρ w h
    refine ⟨ρ, RoleMap.le_refl ρ, h, ?_⟩
    intro pre s p fl post heq
    cases pre <;> cases heq
  | cons op rest ih =>
    intro ρ w h
    obtain ⟨ρ1, l1, h1, g1⟩ := h.applyOp op
    obtain ⟨ρ2, l2, h2, g2⟩ := ih h1
    refine ⟨ρ2, RoleMap.le_trans l1 l2, by rw [runOps_snd_cons]; exact h2, ?_⟩
    intro pre s p fl post heq c hc
    cases pre with
    | nil =>
      simp only [List.nil_append, List.cons.injEq] at heq
      obtain ⟨rfl, rfl⟩ := heq
      exact (g1 s p fl rfl c hc).mono l2
    | cons a pre' =>
      simp only [List.cons_append, List.cons.injEq] at heq
      obtain ⟨rfl, hrest⟩ := heq
      rw [runOps_snd_cons] at hc ⊢
      exact g2 pre' s p fl post hrest c hc

theorem TQ.init (t : Int) : TQ (fun _ => none) (World.init t) := by
  refine ⟨fun m r h => (by cases h), fun r h => (by simp [World.init] at h), fun c kc h => (by simp [World.init] at h),
    fun c h => (by cases h)⟩


/-- in a quiescent world that satisfies both the resource invariant and the typing invariant, every
secret that holds a data-key material has been closed (exactly once, and not touched since): a live
secret is the key of an open cache entry, and those are system or intermediate keys. -/
theorem data_secrets_closed {ρ : RoleMap} {w : World} (hq : QInv w) (ht : TQ ρ w) (i : Nat) (sx : Secret)
    (hs : w.secrets[i]? = some sx) (hd : ρ sx.mat = some .data) : sx.closes = 1 ∧ sx.aac = 0 := by
  have hi := hq.2
  have hlt : i < w.keys.length := by have := getElem?_lt hs; have := hi.len; simp [Raw.extra] at this; omega
  have hk : w.keys[i]? = some w.keys[i] := List.getElem?_eq_getElem hlt
  have hmat := hi.mat i _ sx hk hs
  have hl := hi.led i sx hs
  rw [hk] at hl
  refine ⟨?_, hl.1⟩
  cases hcl : (w.keys[i]).closed with
  | true => simp only [hcl, if_true] at hl; exact hl.2
  | false =>
    exfalso
    simp only [hcl] at hl
    have hlive : i ∈ liveIdx w := mem_liveIdx.2 ⟨sx, hs, by simpa using hl.2⟩
    have hin := hi.live_in_cache hlive
    obtain ⟨c, kc, hc, _, hobj⟩ := mem_liveObjs.1 hin
    unfold objsOf at hobj
    obtain ⟨⟨m, e⟩, hme, heq⟩ := List.mem_map.1 hobj
    obtain ⟨ko, hko, hrole⟩ := (ht.caches c kc hc).1 m e hme
    simp only at heq
    rw [heq, hk] at hko
    cases hko
    rw [← hmat, hd] at hrole
    cases hm : m.kid <;> simp [roleOfKid, hm] at hrole

end AsherahVerif.Env.Res
