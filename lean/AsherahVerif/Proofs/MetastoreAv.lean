import AsherahVerif.Proofs.MetastoreRow
/-
DynamoDB item codecs: what Store marshals into the `KeyRecord` attribute is what Load/LoadLatest
unmarshal — aws-v1 (`DynamoDBEnvelope` written, `EnvelopeKeyRecord` read, empty strings as NULL) and
aws-v2 (`envelope` inside `metastoreItem`).
-/
namespace AsherahVerif.Metastore

theorem parseInt_intAV (i : Int) : parseInt (String.ofList (fmtInt i)).toList = some i := by
  rw [String.toList_ofList, parseInt_fmtInt]

theorem toList_eq_nil_iff (s : String) : s.toList = [] ↔ s = "" := by
  constructor
  · intro h
    have := String.ofList_toList (s := s)
    rw [h] at this
    exact this.symm
  · intro h; subst h; rfl

theorem b64_string_roundtrip (key : List UInt8) :
    b64Decode (String.ofList (b64Encode key)).toList = some key := by
  rw [String.toList_ofList, b64Decode_encode]

theorem decodeKeyMetaAV_v1 (N : Names) (ok : NamesOK N) (k : KeyMeta) :
    decodeKeyMetaAV N ⟨"", 0⟩ [(N.keyId, strAV1 k.id), (N.pCreated, intAV k.created)] = some k := by
  have k0 := ok.k0
  have k1 := ok.k1
  obtain ⟨kid, kc⟩ := k
  by_cases h : kid = ""
  · subst h
    simp [strAV1, decodeKeyMetaAV, foldOpt, stepKeyMetaAV, k0, k1, intAV, parseInt_fmtInt]
  · simp [strAV1, h, decodeKeyMetaAV, foldOpt, stepKeyMetaAV, k0, k1, intAV, parseInt_fmtInt]

theorem decodeKeyMetaAV_v2 (N : Names) (ok : NamesOK N) (k : KeyMeta) :
    decodeKeyMetaAV N ⟨"", 0⟩ [(N.keyId, AV.s k.id), (N.pCreated, intAV k.created)] = some k := by
  have k0 := ok.k0
  have k1 := ok.k1
  obtain ⟨kid, kc⟩ := k
  simp [decodeKeyMetaAV, foldOpt, stepKeyMetaAV, k0, k1, intAV, parseInt_fmtInt]

/-- the envelope attributes decode to the record's persisted fields, the key still base64 text
(NULL for the empty text in v1) -/
theorem decodeEnvAV_v1 (N : Names) (ok : NamesOK N) (r : Rec) :
    ∃ e, decodeEnvAV N {} (marshalEnvelopeV1 N r) = some e ∧ e.toRec "" = some r.eraseId := by
  obtain ⟨id, revoked, created, key, parent⟩ := r
  have i0 := ok.i0
  have i1 := ok.i1
  have i2 := ok.i2
  have i3 := ok.i3
  have hb := b64_string_roundtrip key
  -- the key attribute: S(text), or NULL when the text is empty; either way the text is read back
  have hkey : ∃ t : String, (strAV1 (String.ofList (b64Encode key)) = AV.s t ∨
      (strAV1 (String.ofList (b64Encode key)) = AV.null ∧ t = "")) ∧ b64Decode t.toList = some key := by
    by_cases h : String.ofList (b64Encode key) = ""
    · exact ⟨"", Or.inr ⟨by simp [strAV1, h], rfl⟩, by rw [← h]; exact hb⟩
    · exact ⟨_, Or.inl (by simp [strAV1, h]), hb⟩
  obtain ⟨t, ht, hbt⟩ := hkey
  cases parent with
  | some k =>
    have hkm := decodeKeyMetaAV_v1 N ok k
    obtain ⟨nrev, nrevOmit, ncreated, nkey, nparent, nparentOmit, nkeyId, npCreated⟩ := N
    simp only [intAV] at i0 i1 i2 i3 hkm
    rcases ht with ht | ⟨ht, ht2⟩
    · cases revoked <;> cases nrevOmit <;>
        simp [marshalEnvelopeV1, decodeEnvAV, foldOpt, stepEnvAV, i0, i1, i2, i3, intAV, parseInt_fmtInt, ht, hkm,
          EnvS.toRec, hbt, Rec.eraseId]
    · subst ht2
      have hbt : b64Decode [] = some key := by simpa using hbt
      cases revoked <;> cases nrevOmit <;>
        simp [marshalEnvelopeV1, decodeEnvAV, foldOpt, stepEnvAV, i0, i1, i2, i3, intAV, parseInt_fmtInt, ht, hkm,
          EnvS.toRec, hbt, Rec.eraseId]
  | none =>
    obtain ⟨nrev, nrevOmit, ncreated, nkey, nparent, nparentOmit, nkeyId, npCreated⟩ := N
    simp only at i0 i1 i2 i3
    rcases ht with ht | ⟨ht, ht2⟩
    · cases revoked <;> cases nrevOmit <;> cases nparentOmit <;>
        simp [marshalEnvelopeV1, decodeEnvAV, foldOpt, stepEnvAV, i0, i1, i2, i3, intAV, parseInt_fmtInt, ht,
          EnvS.toRec, hbt, Rec.eraseId]
    · subst ht2
      have hbt : b64Decode [] = some key := by simpa using hbt
      cases revoked <;> cases nrevOmit <;> cases nparentOmit <;>
        simp [marshalEnvelopeV1, decodeEnvAV, foldOpt, stepEnvAV, i0, i1, i2, i3, intAV, parseInt_fmtInt, ht,
          EnvS.toRec, hbt, Rec.eraseId]

theorem decodeEnvAV_v2 (N : Names) (ok : NamesOK N) (r : Rec) :
    ∃ e, decodeEnvAV N {} (marshalEnvelopeV2 N r) = some e ∧ ∀ id, e.toRec id = some { r with id := id } := by
  obtain ⟨id, revoked, created, key, parent⟩ := r
  have i0 := ok.i0
  have i1 := ok.i1
  have i2 := ok.i2
  have i3 := ok.i3
  have hb := b64_string_roundtrip key
  cases parent with
  | some k =>
    have hkm := decodeKeyMetaAV_v2 N ok k
    obtain ⟨nrev, nrevOmit, ncreated, nkey, nparent, nparentOmit, nkeyId, npCreated⟩ := N
    simp only [intAV] at i0 i1 i2 i3 hkm
    cases revoked <;> cases nrevOmit <;>
      simp [marshalEnvelopeV2, decodeEnvAV, foldOpt, stepEnvAV, i0, i1, i2, i3, intAV, parseInt_intAV, parseInt_fmtInt, hkm,
        EnvS.toRec, hb, b64Decode_encode]
  | none =>
    obtain ⟨nrev, nrevOmit, ncreated, nkey, nparent, nparentOmit, nkeyId, npCreated⟩ := N
    simp only at i0 i1 i2 i3
    cases revoked <;> cases nrevOmit <;> cases nparentOmit <;>
      simp [marshalEnvelopeV2, decodeEnvAV, foldOpt, stepEnvAV, i0, i1, i2, i3, intAV, parseInt_intAV, parseInt_fmtInt,
        EnvS.toRec, hb, b64Decode_encode]

/-- **aws-v1 item round trip**: `dynamodbattribute.Unmarshal(MarshalMap(DynamoDBEnvelope(r)))` gives
back every persisted field of `r`, for every record. -/
theorem unmarshalEkrV1_marshal (N : Names) (ok : NamesOK N) (r : Rec) :
    unmarshalEkrV1 N (some (.m (marshalEnvelopeV1 N r))) = some r.eraseId := by
  obtain ⟨e, h1, h2⟩ := decodeEnvAV_v1 N ok r
  simp only [unmarshalEkrV1, h1, h2]

/-- what the item decoder must find: the `KeyRecord` attribute at index 2 -/
structure ItemNamesOK (IN : ItemNames) : Prop where
  j2 : fieldIndex [IN.id.toList, IN.created.toList, IN.keyRecord.toList] IN.keyRecord.toList = some 2

instance (IN : ItemNames) : Decidable (ItemNamesOK IN) :=
  if h : fieldIndex [IN.id.toList, IN.created.toList, IN.keyRecord.toList] IN.keyRecord.toList = some 2
  then isTrue ⟨h⟩ else isFalse fun ok => h ok.j2

/-- **aws-v2 item round trip** on the projected item (`KeyRecord` only), for every record. -/
theorem decodeItemV2_marshal (IN : ItemNames) (N : Names) (okI : ItemNamesOK IN) (ok : NamesOK N) (r : Rec) :
    decodeItemV2 IN N [(IN.keyRecord, .m (marshalEnvelopeV2 N r))] = some r.eraseId := by
  obtain ⟨e, h1, h2⟩ := decodeEnvAV_v2 N ok r
  have j2 := okI.j2
  simp [decodeItemV2, foldOpt, stepItemV2, j2, h1, h2, Rec.eraseId]

end AsherahVerif.Metastore
