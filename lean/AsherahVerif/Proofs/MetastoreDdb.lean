import AsherahVerif.Proofs.MetastoreAv
import AsherahVerif.Proofs.MetastoreSpec
import AsherahVerif.Proofs.MetastoreSql
/-
Both DynamoDB metastores (conditional PutItem, strongly consistent GetItem / Query with
ScanIndexForward=false, Limit=1) refine the specification table — whatever the staleness oracle does.
-/
namespace AsherahVerif.Metastore
set_option linter.unusedSimpArgs false

/-! ### the expressions the SDK builder produces -/

theorem keycond_split : splitEq exprQueryKeyCond.toList = some (['#', '0'], [':', '0']) := by decide +kernel
theorem keycond_rhs : splitEq [':', '0'] = none := by decide +kernel
theorem keycond_val : String.ofList (trimWs [':', '0']) = ":0" := by decide +kernel
theorem trim_h0 : trimWs ['#', '0'] = ['#', '0'] := by decide +kernel
theorem trim_h1 : trimWs ['#', '1'] = ['#', '1'] := by decide +kernel
theorem get_proj_split : splitComma exprGetProj.toList = [['#', '0']] := by decide +kernel
theorem query_proj_split : splitComma exprQueryProj.toList = [['#', '1']] := by decide +kernel
theorem s_h0 : String.ofList ['#', '0'] = "#0" := by decide +kernel
theorem s_h1 : String.ofList ['#', '1'] = "#1" := by decide +kernel

theorem resolve_h0 (names : List (String × String)) : resolveName ['#', '0'] names = aGet names "#0" := by
  simp [resolveName, trim_h0, s_h0]
theorem resolve_h1 (names : List (String × String)) : resolveName ['#', '1'] names = aGet names "#1" := by
  simp [resolveName, trim_h1, s_h1]

theorem project_get (L : DdbLits) (it : Item) :
    projectItem it exprGetProj (exprGetNames L) = some (projKeyRecord L it) := by
  simp only [projectItem, get_proj_split, projectItem.go, resolve_h0, exprGetNames, aGet, projKeyRecord]
  cases h : itemGet it L.keyRecord <;> simp [h]

theorem project_query (L : DdbLits) (it : Item) :
    projectItem it exprQueryProj (exprQueryNames L) = some (projKeyRecord L it) := by
  simp only [projectItem, query_proj_split, projectItem.go, resolve_h1, exprQueryNames, aGet, projKeyRecord]
  simp
  cases h : itemGet it L.keyRecord <;> simp [h]

/-! ### what the literals and the codec must satisfy -/

structure DdbOK (L : DdbLits) (C : DdbCodec) : Prop where
  ne1 : L.partitionKey ≠ L.sortKey
  ne2 : L.keyRecord ≠ L.partitionKey
  ne3 : L.keyRecord ≠ L.sortKey
  /-- the condition is `attribute_not_exists(<partition key>)` -/
  cond : ∀ ex : Option Item, evalCond L.conditionExpr [] ex =
    some (match ex with | some it => (itemGet it L.partitionKey).isNone | none => true)
  getC : L.getConsistent = some true
  queryC : L.queryConsistent = some true
  fwd : L.scanForward = some false
  lim : L.limit = some 1
  codec : ∀ r, C.decodeGet [(L.keyRecord, .m (C.marshal r))] = some r.eraseId
  marshalErase : ∀ r, C.marshal r.eraseId = C.marshal r

def itemOf (L : DdbLits) (C : DdbCodec) (e : Key × Rec) : Item :=
  ddbKeyItem L e.1.1 e.1.2 ++ [(L.keyRecord, .m (C.marshal e.2))]

structure DdbInv (L : DdbLits) (C : DdbCodec) (d : Ddb) (t : Table) : Prop where
  hk : d.hashKey = L.partitionKey
  rk : d.rangeKey = L.sortKey
  hist : d.history = t.map (itemOf L C)
  nodup : t.Nodup
  erased : ∀ e ∈ t, e.2.id = ""
  nonempty : ∀ e ∈ t, e.1.1 ≠ ""

section
variable {L : DdbLits} {C : DdbCodec} (ok : DdbOK L C)
include ok

theorem keyOf_key {d : Ddb} (hk : d.hashKey = L.partitionKey) (rk : d.rangeKey = L.sortKey) (id : String) (c : Int)
    (rest : Item) (hid : id ≠ "") : d.keyOf (ddbKeyItem L id c ++ rest) = some (id, c) := by
  have h1 := ok.ne1
  simp [Ddb.keyOf, hk, rk, ddbKeyItem, itemGet, h1, intAV, parseInt_fmtInt, hid]

theorem keyOf_itemOf {d : Ddb} (hk : d.hashKey = L.partitionKey) (rk : d.rangeKey = L.sortKey) (e : Key × Rec)
    (hid : e.1.1 ≠ "") : d.keyOf (itemOf L C e) = some e.1 := by
  unfold itemOf
  rw [keyOf_key ok hk rk _ _ _ hid]

theorem proj_itemOf (e : Key × Rec) : projKeyRecord L (itemOf L C e) = [(L.keyRecord, .m (C.marshal e.2))] := by
  have h2 := ok.ne2
  have h3 := ok.ne3
  have h2' : ¬ L.partitionKey = L.keyRecord := fun h => h2 h.symm
  have h3' : ¬ L.sortKey = L.keyRecord := fun h => h3 h.symm
  simp [projKeyRecord, itemOf, ddbKeyItem, itemGet, h2', h3']

omit ok in
theorem has_pk_itemOf (e : Key × Rec) : (itemGet (itemOf L C e) L.partitionKey).isNone = false := by
  simp [itemOf, ddbKeyItem, itemGet]

theorem replay_map {d : Ddb} (hk : d.hashKey = L.partitionKey) (rk : d.rangeKey = L.sortKey)
    (a l : Table) (hn : Table.Nodup (a ++ l)) (hne : ∀ e ∈ a ++ l, e.1.1 ≠ "") :
    (l.map (itemOf L C)).foldl (replayPut d) (a.map (itemOf L C)) = (a ++ l).map (itemOf L C) := by
  induction l generalizing a with
  | nil => simp
  | cons e l ih =>
    simp only [List.map_cons, List.foldl_cons]
    have hek : d.keyOf (itemOf L C e) = some e.1 := keyOf_itemOf ok hk rk e (hne e (by simp))
    have hfresh : (a.map (itemOf L C)).any (fun x => d.keyOf x == d.keyOf (itemOf L C e)) = false := by
      rw [hek]
      apply Bool.eq_false_iff.mpr
      intro h
      rw [List.any_eq_true] at h
      obtain ⟨x, hx, hxk⟩ := h
      obtain ⟨e', he', rfl⟩ := List.mem_map.mp hx
      rw [keyOf_itemOf ok hk rk e' (hne e' (by simp [he']))] at hxk
      have hkeq : e'.1 = e.1 := by simpa using hxk
      -- two entries with the same key contradict distinct keys
      unfold Table.Nodup at hn
      simp only [List.map_append, List.map_cons] at hn
      have := (List.nodup_append.mp hn).2.2 e'.1 (List.mem_map.mpr ⟨e', he', rfl⟩) e.1 (by simp)
      exact this hkeq
    have : replayPut d (a.map (itemOf L C)) (itemOf L C e) = (a ++ [e]).map (itemOf L C) := by
      simp [replayPut, hfresh]
    rw [this]
    have := ih (a ++ [e]) (by simpa using hn) (by simpa using hne)
    simpa using this

theorem current_of_inv {d : Ddb} {t : Table} (h : DdbInv L C d t) : d.current = t.map (itemOf L C) := by
  unfold Ddb.current Ddb.replay
  rw [h.hist]
  have := replay_map ok h.hk h.rk [] t (by simpa using h.nodup) (by simpa using h.nonempty)
  simpa using this

theorem view_of_inv {d : Ddb} {t : Table} (h : DdbInv L C d t) (lag : Nat) :
    d.view (some true) lag = t.map (itemOf L C) := by
  simp [Ddb.view, current_of_inv ok h]

theorem find_item {d : Ddb} (hk : d.hashKey = L.partitionKey) (rk : d.rangeKey = L.sortKey)
    (t : Table) (hne : ∀ e ∈ t, e.1.1 ≠ "") (k : Key) :
    (t.map (itemOf L C)).find? (fun it => d.keyOf it == some k) = (t.find? fun e => decide (e.1 = k)).map (itemOf L C) := by
  induction t with
  | nil => rfl
  | cons e t ih =>
    have hek := keyOf_itemOf ok hk rk e (hne e List.mem_cons_self)
    simp only [List.map_cons, List.find?_cons, hek]
    by_cases h : e.1 = k
    · simp [h]
    · have : (some e.1 == some k) = false := by simpa using h
      simp only [this, h, decide_false]
      exact ih (fun e he => hne e (List.mem_cons_of_mem _ he))

end

theorem load_eq_find (t : Table) (id : String) (c : Int) :
    t.load id c = (t.find? fun e => decide (e.1 = (id, c))).map (·.2) := by
  induction t with
  | nil => rfl
  | cons e t ih =>
    obtain ⟨k, r⟩ := e
    rw [Table.load_cons, List.find?_cons]
    by_cases h : k = (id, c)
    · simp [h]
    · simp [h, ih]

theorem abs_of_ddbInv {L : DdbLits} {C : DdbCodec} (ok : DdbOK L C) {d : Ddb} {t : Table} (h : DdbInv L C d t) :
    d.abs C (projKeyRecord L) = t := by
  unfold Ddb.abs
  rw [current_of_inv ok h]
  have : ∀ l : Table, (∀ e ∈ l, e.2.id = "") → (∀ e ∈ l, e.1.1 ≠ "") →
      (l.map (itemOf L C)).filterMap (fun it =>
        match d.keyOf it, C.decodeGet (projKeyRecord L it) with
        | some k, some r => some (k, r)
        | _, _ => none) = l := by
    intro l hl hne
    induction l with
    | nil => rfl
    | cons e l ih =>
      have he : e.2.id = "" := hl _ List.mem_cons_self
      simp only [List.map_cons, List.filterMap_cons, keyOf_itemOf ok h.hk h.rk e (hne e List.mem_cons_self),
        proj_itemOf ok, ok.codec, eraseId_of_erased he]
      rw [ih (fun e he => hl e (List.mem_cons_of_mem _ he)) (fun e he => hne e (List.mem_cons_of_mem _ he))]
  exact this t h.erased h.nonempty

/-! ### the three requests -/

section
variable {L : DdbLits} {C : DdbCodec} (ok : DdbOK L C)
include ok

theorem ddbPut_sim {d : Ddb} {t : Table} (h : DdbInv L C d t) (id : String) (c : Int) (r : Rec) (hid : id ≠ "") :
    ddbPut d false d.table (itemOf L C ((id, c), r)) (some L.conditionExpr) =
      if (t.load id c).isSome then .error .cond
      else .ok { d with history := d.history ++ [itemOf L C ((id, c), r)] } := by
  have hkey := keyOf_itemOf ok h.hk h.rk ((id, c), r) hid
  simp only [ddbPut, ddbCheck, Bool.false_eq_true, if_false, ne_eq, not_true_eq_false, hkey]
  rw [current_of_inv ok h, find_item ok h.hk h.rk t h.nonempty, ok.cond, load_eq_find]
  cases hf : t.find? (fun e => decide (e.1 = (id, c))) with
  | none => simp
  | some e => simp [has_pk_itemOf]

theorem ddbGet_sim {d : Ddb} {t : Table} (h : DdbInv L C d t) (id : String) (c : Int) (lag : Nat) (hid : id ≠ "") :
    ddbGet d { fault := false, lag := lag } d.table (ddbKeyItem L id c) L.getConsistent exprGetProj (exprGetNames L) =
      .ok ((t.load id c).map fun r => [(L.keyRecord, .m (C.marshal r))]) := by
  have hkey := keyOf_key ok h.hk h.rk id c [] hid
  simp only [List.append_nil] at hkey
  simp only [ddbGet, ddbCheck, Bool.false_eq_true, if_false, ne_eq, not_true_eq_false, hkey, ok.getC]
  rw [view_of_inv ok h, find_item ok h.hk h.rk t h.nonempty, load_eq_find]
  have hlen : (ddbKeyItem L id c).length = 2 := rfl
  simp only [hlen, not_true_eq_false, if_false]
  cases hf : t.find? (fun e => decide (e.1 = (id, c))) with
  | none => simp
  | some e => simp [project_get, proj_itemOf ok]

theorem rows_of_view {d : Ddb} (hk : d.hashKey = L.partitionKey) (rk : d.rangeKey = L.sortKey)
    (t : Table) (hne : ∀ e ∈ t, e.1.1 ≠ "") (id : String) :
    d.rowsFor id (t.map (itemOf L C)) =
    (t.filter fun e => decide (e.1.1 = id)).map fun e => (e.1.2, itemOf L C e) := by
  unfold Ddb.rowsFor
  induction t with
  | nil => rfl
  | cons e t ih =>
    have hek := keyOf_itemOf ok hk rk e (hne e List.mem_cons_self)
    simp only [List.map_cons, List.filterMap_cons, hek, List.filter_cons]
    have ih' := ih (fun e he => hne e (List.mem_cons_of_mem _ he))
    by_cases h : e.1.1 = id
    · simp [h, ih']
    · simp [h, ih']

end

def pairDesc (a b : Int × Item) : Bool := decide (b.1 < a.1)

theorem pairLt_false : pairLt false = pairDesc := by
  funext a b; simp [pairLt, pairDesc]

theorem pairDescOrder : SortOrder pairDesc (fun a b => b.1 ≤ a.1) :=
  ⟨fun a b => by omega, fun a b c h1 h2 => by omega, fun a b => by simp [pairDesc]⟩

/-- `ScanIndexForward=false, Limit=1` over the id's items is the specification's `loadLatest` -/
theorem head_sorted_items (L : DdbLits) (C : DdbCodec) (h2 : L.keyRecord ≠ L.partitionKey) (h3 : L.keyRecord ≠ L.sortKey)
    (t : Table) (hn : t.Nodup) (id : String) :
    ((isort pairDesc ((t.filter fun e => decide (e.1.1 = id)).map fun e => (e.1.2, itemOf L C e))).head?).map
        (fun p => projKeyRecord L p.2) =
      (t.loadLatest id).bind fun r => ((t.find? fun e => decide (e.1.1 = id ∧ e.2 = r)).map fun e => projKeyRecord L (itemOf L C e)) := by
  have hsorted := isort_sorted pairDescOrder ((t.filter fun e => decide (e.1.1 = id)).map fun e => (e.1.2, itemOf L C e))
  cases hs : isort pairDesc ((t.filter fun e => decide (e.1.1 = id)).map fun e => (e.1.2, itemOf L C e)) with
  | nil =>
    have hnil : (t.filter (fun e => decide (e.1.1 = id))) = [] := by
      cases hf : t.filter (fun e => decide (e.1.1 = id)) with
      | nil => rfl
      | cons a l =>
        have : (a.1.2, itemOf L C a) ∈ isort pairDesc ((t.filter fun e => decide (e.1.1 = id)).map fun e => (e.1.2, itemOf L C e)) := by
          rw [mem_isort, hf]; simp
        rw [hs] at this; exact absurd this (by simp)
    have : t.stamps id = [] := by simp [Table.stamps, hnil]
    simp [Table.loadLatest, this, Table.maxOf]
  | cons h tl =>
    rw [hs] at hsorted
    have hmem : h ∈ (t.filter fun e => decide (e.1.1 = id)).map fun e => (e.1.2, itemOf L C e) := by
      rw [← mem_isort pairDesc, hs]; exact List.mem_cons_self
    obtain ⟨e, heF, heq⟩ := List.mem_map.mp hmem
    have heT : e ∈ t := (List.mem_filter.mp heF).1
    have heid : e.1.1 = id := by simpa using (List.mem_filter.mp heF).2
    have hmax : ∀ x ∈ t.stamps id, x ≤ e.1.2 := by
      intro x hx
      simp only [Table.stamps, List.mem_map] at hx
      obtain ⟨e', he'F, hx⟩ := hx
      have : (e'.1.2, itemOf L C e') ∈ h :: tl := by
        rw [← hs, mem_isort]; exact List.mem_map.mpr ⟨e', he'F, rfl⟩
      rcases List.mem_cons.mp this with h1 | h1
      · rw [← hx]
        have : e'.1.2 = e.1.2 := by
          have := congrArg Prod.fst (h1.trans heq.symm)
          exact this
        omega
      · have := (List.pairwise_cons.mp hsorted).1 _ h1
        rw [← heq] at this
        simp only at this
        omega
    have hin : e.1.2 ∈ t.stamps id := by
      simp only [Table.stamps, List.mem_map]
      exact ⟨e, heF, rfl⟩
    have hmaxOf : Table.maxOf (t.stamps id) = some e.1.2 := (Table.maxOf_eq_some _ _).mpr ⟨hin, hmax⟩
    have hload : t.load id e.1.2 = some e.2 := by
      have := Table.load_of_mem hn (k := e.1) (r := e.2) heT
      rw [heid] at this; exact this
    simp only [Table.loadLatest, hmaxOf, hload, List.head?_cons, Option.map_some, ← heq, Option.bind_some]
    -- the first entry of the id carrying that record projects to the same `KeyRecord`
    have : ∃ e2, t.find? (fun e' => decide (e'.1.1 = id ∧ e'.2 = e.2)) = some e2 ∧ e2.2 = e.2 := by
      cases hf : t.find? (fun e' => decide (e'.1.1 = id ∧ e'.2 = e.2)) with
      | none =>
        have := List.find?_eq_none.mp hf e heT
        simp [heid] at this
      | some e2 =>
        have := List.find?_some hf
        simp only [decide_eq_true_eq] at this
        exact ⟨e2, rfl, this.2⟩
    obtain ⟨e2, hf2, he2⟩ := this
    rw [hf2]
    simp only [Option.map_some, Option.some.injEq, projKeyRecord, itemOf]
    rw [he2]
    -- both items carry the key attributes followed by the same KeyRecord
    have hg : ∀ (e1 : Key × Rec), itemGet (ddbKeyItem L e1.1.1 e1.1.2 ++ [(L.keyRecord, AV.m (C.marshal e.2))]) L.keyRecord =
        itemGet (ddbKeyItem L e.1.1 e.1.2 ++ [(L.keyRecord, AV.m (C.marshal e.2))]) L.keyRecord := by
      intro e1
      have h2' : ¬ L.partitionKey = L.keyRecord := fun h => h2 h.symm
      have h3' : ¬ L.sortKey = L.keyRecord := fun h => h3 h.symm
      simp only [ddbKeyItem, List.cons_append, List.nil_append, itemGet, h2', h3', if_false]
    rw [hg e2]

section
variable {L : DdbLits} {C : DdbCodec} (ok : DdbOK L C)
include ok

theorem ddbQuery_sim {d : Ddb} {t : Table} (h : DdbInv L C d t) (id : String) (lag : Nat) :
    ddbQuery d { fault := false, lag := lag } d.table exprQueryKeyCond (exprQueryNames L) [(":0", .s id)]
        L.queryConsistent L.scanForward L.limit exprQueryProj =
      .ok (match t.loadLatest id with
        | some r => [[(L.keyRecord, .m (C.marshal r))]]
        | none => []) := by
  simp only [ddbQuery, ddbCheck, Bool.false_eq_true, if_false, ne_eq, not_true_eq_false, ok.lim, ok.queryC, ok.fwd,
    keycond_split, keycond_rhs, Option.isSome_none, resolve_h0, exprQueryNames, aGet, keycond_val, itemGet, if_true, h.hk,
    Option.getD_some, pairLt_false]
  simp only [show ¬ ((1 : Int) < 1) by omega, decide_false, Bool.false_eq_true, if_false]
  rw [view_of_inv ok h, rows_of_view ok h.hk h.rk t h.nonempty]
  have hhead := head_sorted_items L C ok.ne2 ok.ne3 t h.nodup id
  cases hs : isort pairDesc ((t.filter fun e => decide (e.1.1 = id)).map fun e => (e.1.2, itemOf L C e)) with
  | nil =>
    rw [hs] at hhead
    simp only [List.head?_nil, Option.map_none] at hhead
    cases hl : t.loadLatest id with
    | none => simp [mapProject]
    | some r =>
      rw [hl] at hhead
      simp only [Option.bind_some] at hhead
      -- a latest record exists, so some entry of the id carries it: contradiction with "no row"
      obtain ⟨c, hc, -⟩ := (Table.loadLatest_eq_some t id r).mp hl
      rw [load_eq_find] at hc
      cases hf : t.find? (fun e => decide (e.1 = (id, c))) with
      | none => rw [hf] at hc; simp at hc
      | some e =>
        rw [hf] at hc
        have hprop := List.find?_some hf
        have hmem := List.mem_of_find?_eq_some hf
        simp only [decide_eq_true_eq] at hprop
        simp only [Option.map_some, Option.some.injEq] at hc
        have : ¬ (t.find? fun e' => decide (e'.1.1 = id ∧ e'.2 = r)) = none := by
          intro hn
          have := List.find?_eq_none.mp hn e hmem
          simp [hprop, hc] at this
        cases hf2 : t.find? (fun e' => decide (e'.1.1 = id ∧ e'.2 = r)) with
        | none => exact absurd hf2 this
        | some e2 => rw [hf2] at hhead; simp at hhead
  | cons p tl =>
    rw [hs] at hhead
    simp only [List.head?_cons, Option.map_some] at hhead
    cases hl : t.loadLatest id with
    | none => rw [hl] at hhead; simp at hhead
    | some r =>
      rw [hl] at hhead
      simp only [Option.bind_some] at hhead
      cases hf2 : t.find? (fun e' => decide (e'.1.1 = id ∧ e'.2 = r)) with
      | none => rw [hf2] at hhead; simp at hhead
      | some e2 =>
        rw [hf2] at hhead
        simp only [Option.map_some, Option.some.injEq] at hhead
        have he2 : e2.2 = r := by
          have := List.find?_some hf2
          simp only [decide_eq_true_eq] at this
          exact this.2
        have hp : projKeyRecord L p.2 = [(L.keyRecord, .m (C.marshal r))] := by
          rw [hhead, proj_itemOf ok, he2]
        have hq := project_query L p.2
        simp only [exprQueryNames] at hq
        simp [mapProject, hq, hp]

theorem ddb_step_sim {d : Ddb} {t : Table} (hinv : DdbInv L C d t) (env : Env) (op : Op) (hid : op.id ≠ "") :
    (ddbStep L C d.table d env op).res.proj = (t.stepF op.eraseId env.fault).2.proj ∧
    (ddbStep L C d.table d env op).st.table = d.table ∧
    DdbInv L C (ddbStep L C d.table d env op).st (t.stepF op.eraseId env.fault).1 := by
  obtain ⟨fault, lag⟩ := env
  cases op with
  | store id c r =>
    simp only [Op.id] at hid
    cases fault with
    | true =>
      simp only [ddbStep, ddbPut, ddbCheck, if_true, Table.stepF, Op.eraseId, Res.proj]
      exact ⟨trivial, trivial, hinv⟩
    | false =>
      have hput := ddbPut_sim ok hinv id c r hid
      simp only [itemOf] at hput
      simp only [ddbStep, hput, Table.stepF, Op.eraseId, Bool.false_eq_true, if_false, Table.step, Table.store]
      cases hl : (t.load id c).isSome with
      | true =>
        simp only [if_true, Res.proj]
        exact ⟨trivial, trivial, hinv⟩
      | false =>
        simp only [Bool.false_eq_true, if_false, Res.proj]
        refine ⟨trivial, trivial, hinv.hk, hinv.rk, ?_, ?_, ?_, ?_⟩
        · simp [hinv.hist, itemOf, ok.marshalErase]
        · have := Table.store_nodup hinv.nodup id c r.eraseId
          simp only [Table.store, hl, Bool.false_eq_true, if_false] at this
          exact this
        · intro e he
          rcases List.mem_append.mp he with h | h
          · exact hinv.erased e h
          · simp only [List.mem_singleton] at h; subst h; rfl
        · intro e he
          rcases List.mem_append.mp he with h | h
          · exact hinv.nonempty e h
          · simp only [List.mem_singleton] at h; subst h; exact hid
  | load id c =>
    simp only [Op.id] at hid
    cases fault with
    | true =>
      simp only [ddbStep, ddbGet, ddbCheck, if_true, Table.stepF, Op.eraseId, Res.proj]
      exact ⟨trivial, trivial, hinv⟩
    | false =>
      simp only [ddbStep, ddbGet_sim ok hinv id c lag hid, Table.stepF, Op.eraseId, Bool.false_eq_true, if_false,
        Table.step]
      refine ⟨?_, ?_, ?_⟩
      · cases hl : t.load id c with
        | none => simp [Res.proj]
        | some r =>
          obtain ⟨k, hk⟩ := mem_of_load hl
          have her : r.id = "" := hinv.erased _ hk
          simp [ok.codec, eraseId_of_erased her, Res.proj]
      · cases hl : t.load id c with
        | none => simp
        | some r => simp only [Option.map_some]; split <;> rfl
      · cases hl : t.load id c with
        | none => simpa using hinv
        | some r => simp only [Option.map_some]; split <;> exact hinv
  | latest id =>
    simp only [Op.id] at hid
    cases fault with
    | true =>
      simp only [ddbStep, ddbQuery, ddbCheck, if_true, Table.stepF, Op.eraseId, Res.proj]
      exact ⟨trivial, trivial, hinv⟩
    | false =>
      simp only [ddbStep, ddbQuery_sim ok hinv id lag, Table.stepF, Op.eraseId, Bool.false_eq_true, if_false,
        Table.step]
      cases hl : t.loadLatest id with
      | none => exact ⟨by simp [Res.proj], by simp, by simpa using hinv⟩
      | some r =>
        obtain ⟨c, hc, -⟩ := (Table.loadLatest_eq_some t id r).mp hl
        obtain ⟨k, hk⟩ := mem_of_load hc
        have her : r.id = "" := hinv.erased _ hk
        simp only [ok.codec, eraseId_of_erased her]
        exact ⟨by simp [Res.proj], by simp, by simpa using hinv⟩

/-- runs of a DynamoDB metastore against runs of the specification: for every staleness oracle
(`Env.lag`), faults injected at the same operations -/
theorem ddb_run_sim {d : Ddb} {t : Table} (hinv : DdbInv L C d t) (ops : List (Op × Env))
    (hids : ∀ oe ∈ ops, oe.1.id ≠ "") :
    (runOut (ddbStep L C d.table) d ops).2.map Res.proj =
      (t.run (ops.map fun oe => (oe.1.eraseId, oe.2.fault))).2.map Res.proj ∧
    DdbInv L C (runOut (ddbStep L C d.table) d ops).1 (t.run (ops.map fun oe => (oe.1.eraseId, oe.2.fault))).1 := by
  induction ops generalizing d t with
  | nil => exact ⟨rfl, hinv⟩
  | cons oe rest ih =>
    obtain ⟨op, env⟩ := oe
    obtain ⟨h1, h2, h3⟩ := ddb_step_sim ok hinv env op (hids (op, env) List.mem_cons_self)
    have ih' := ih h3 (fun oe he => hids oe (List.mem_cons_of_mem _ he))
    rw [h2] at ih'
    obtain ⟨i1, i2⟩ := ih'
    simp only [runOut, Table.run, List.map_cons]
    exact ⟨by rw [h1, i1], i2⟩

end

end AsherahVerif.Metastore
