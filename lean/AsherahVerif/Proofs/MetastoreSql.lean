import AsherahVerif.Proofs.MetastoreRow
import AsherahVerif.Proofs.MetastoreSpec
/-
The SQL metastore (sql.go on a table with PRIMARY KEY (id, created)) refines the specification table.
-/
namespace AsherahVerif.Metastore
set_option linter.unusedSimpArgs false

def insertStmt : Stmt := .insert "encryption_key" ["id", "created", "key_record"] [0, 1, 2]
def loadStmt : Stmt := .select "key_record" "encryption_key" [⟨"id", 0⟩, ⟨"created", 1⟩] none none
def latestStmt : Stmt := .select "key_record" "encryption_key" [⟨"id", 0⟩] (some ("created", true)) (some 1)

/-- the metastore's three statements mean, in the database's dialect: insert the row; select the
record of one key; select the record with the greatest `created` of one id -/
structure SqlOK (ms : SqlMs) (d : Dialect) : Prop where
  store : parseSql d ms.storeKeyQuery = some insertStmt
  load : parseSql d ms.loadKeyQuery = some loadStmt
  latest : parseSql d ms.loadLatestQuery = some latestStmt

instance (ms : SqlMs) (d : Dialect) : Decidable (SqlOK ms d) :=
  if h : parseSql d ms.storeKeyQuery = some insertStmt ∧ parseSql d ms.loadKeyQuery = some loadStmt ∧
      parseSql d ms.loadLatestQuery = some latestStmt
  then isTrue ⟨h.1, h.2.1, h.2.2⟩ else isFalse fun ok => h ⟨ok.store, ok.load, ok.latest⟩

theorem match_head {α β : Type} (l : List α) (f : α → β) :
    (match l with | [] => (Except.ok none : Except Err (Option β)) | r :: _ => .ok (some (f r))) = .ok (l.head?.map f) := by
  cases l <;> rfl

theorem match_filter_find {α β : Type} (p : α → Bool) (f : α → β) (l : List α) :
    (match l.filter p with | [] => (Except.ok none : Except Err (Option β)) | r :: _ => .ok (some (f r))) =
      .ok ((l.find? p).map f) := by
  induction l with
  | nil => rfl
  | cons a t ih =>
    simp only [List.filter_cons, List.find?_cons]
    cases p a <;> simp [ih]

theorem sqlVal_beq (a b : SqlVal) : (a == b) = decide (a = b) := rfl

theorem mem_of_load {t : Table} {id : String} {c : Int} {r : Rec} (hl : t.load id c = some r) : ∃ k, (k, r) ∈ t := by
  induction t with
  | nil => simp [Table.load_nil] at hl
  | cons e t ih =>
    obtain ⟨k, r'⟩ := e
    rw [Table.load_cons] at hl
    split at hl
    · injection hl with hl; subst hl; exact ⟨k, List.mem_cons_self⟩
    · obtain ⟨k', hk'⟩ := ih hl
      exact ⟨k', List.mem_cons_of_mem _ hk'⟩

theorem sqlExec_insert (db : Sql) (q : String) (id : String) (c : Int) (text : String)
    (h : parseSql db.dialect q = some insertStmt) :
    sqlExec db false q [.str id, .time c, .str text] =
      if db.rows.any (fun r => r.id = id ∧ r.created = c) then .error .dup
      else .ok { db with rows := db.rows ++ [⟨id, c, text⟩] } := by
  simp [sqlExec, sqlPrepare, h, insertStmt, Stmt.nparams, Stmt.table, sqlTable, bindCols, typed, aGet]

theorem sqlExec_fault (db : Sql) (q : String) (id : String) (c : Int) (text : String)
    (h : parseSql db.dialect q = some insertStmt) :
    sqlExec db true q [.str id, .time c, .str text] = .error .injected := by
  simp [sqlExec, sqlPrepare, h, insertStmt, Stmt.nparams]

theorem sqlQueryRow_load (db : Sql) (q : String) (id : String) (c : Int)
    (h : parseSql db.dialect q = some loadStmt) :
    sqlQueryRow db false q [.str id, .time c] =
      .ok ((db.rows.find? fun r => decide (r.id = id) && decide (r.created = c)).map (·.keyRecord)) := by
  have hc : ∀ r : SqlRow, condsHold r [("id", SqlVal.str id), ("created", SqlVal.time c)] = decide (r.id = id ∧ r.created = c) := by
    intro r
    simp [condsHold, SqlRow.get, sqlVal_beq]
  simp only [sqlQueryRow, sqlPrepare, h, loadStmt, Stmt.nparams, Stmt.table, sqlTable]
  simp [bindConds, typed, SqlRow.get, hc]
  rw [← List.head?_filter]
  cases List.filter (fun x => decide (x.id = id) && decide (x.created = c)) db.rows <;> rfl

theorem sqlQueryRow_load_fault (db : Sql) (q : String) (id : String) (c : Int)
    (h : parseSql db.dialect q = some loadStmt) :
    sqlQueryRow db true q [.str id, .time c] = .error .injected := by
  simp [sqlQueryRow, sqlPrepare, h, loadStmt, Stmt.nparams]

def rowDesc (a b : SqlRow) : Bool := decide (b.created < a.created)

theorem sqlQueryRow_latest (db : Sql) (q : String) (id : String)
    (h : parseSql db.dialect q = some latestStmt) :
    sqlQueryRow db false q [.str id] =
      .ok (((isort rowDesc (db.rows.filter fun r => decide (r.id = id))).head?).map (·.keyRecord)) := by
  have hc : ∀ r : SqlRow, condsHold r [("id", SqlVal.str id)] = decide (r.id = id) := by
    intro r
    simp [condsHold, SqlRow.get, sqlVal_beq]
  have hlt : (fun (a b : SqlRow) => sqlValLt (SqlVal.time b.created) (SqlVal.time a.created)) = rowDesc := by
    funext a b
    simp [sqlValLt, rowDesc]
  simp only [sqlQueryRow, sqlPrepare, h, latestStmt, Stmt.nparams, Stmt.table, sqlTable]
  simp [bindConds, typed, SqlRow.get, hc]
  rw [hlt]
  cases isort rowDesc (List.filter (fun x => decide (x.id = id)) db.rows) <;> simp

theorem sqlQueryRow_latest_fault (db : Sql) (q : String) (id : String)
    (h : parseSql db.dialect q = some latestStmt) :
    sqlQueryRow db true q [.str id] = .error .injected := by
  simp [sqlQueryRow, sqlPrepare, h, latestStmt, Stmt.nparams]

/-! ### the table as rows -/

def rowOf (N : Names) (e : Key × Rec) : SqlRow := ⟨e.1.1, e.1.2, String.ofList (encodeRowText N e.2)⟩

theorem encodeRowText_eraseId (N : Names) (r : Rec) : encodeRowText N r.eraseId = encodeRowText N r := rfl

/-- invariant: the rows are exactly the specification table's entries, JSON-encoded -/
structure SqlInv (N : Names) (db : Sql) (t : Table) : Prop where
  rows : db.rows = t.map (rowOf N)
  nodup : t.Nodup
  erased : ∀ e ∈ t, e.2.id = ""

theorem eraseId_of_erased {r : Rec} (h : r.id = "") : r.eraseId = r := by
  cases r; simp only [Rec.eraseId] at *; subst h; rfl

theorem abs_of_inv {N : Names} (ok : NamesOK N) {db : Sql} {t : Table} (h : SqlInv N db t) : db.abs N = t := by
  unfold Sql.abs
  rw [h.rows]
  have : ∀ l : Table, (∀ e ∈ l, e.2.id = "") → (l.map (rowOf N)).filterMap (fun r =>
      match decodeRowText N r.keyRecord with
      | .ok (some rec) => some ((r.id, r.created), rec)
      | _ => none) = l := by
    intro l hl
    induction l with
    | nil => rfl
    | cons e l ih =>
      obtain ⟨⟨i, c⟩, r⟩ := e
      have he : r.id = "" := hl _ List.mem_cons_self
      simp only [List.map_cons, List.filterMap_cons, rowOf, decodeRowText_encodeRowText N ok r, eraseId_of_erased he]
      rw [ih (fun e he => hl e (List.mem_cons_of_mem _ he))]
  exact this t h.erased

theorem any_rows_iff (N : Names) (t : Table) (id : String) (c : Int) :
    (t.map (rowOf N)).any (fun r => decide (r.id = id ∧ r.created = c)) = (t.load id c).isSome := by
  induction t with
  | nil => rfl
  | cons e t ih =>
    obtain ⟨⟨i, c'⟩, r⟩ := e
    simp only [List.map_cons, List.any_cons, ih, Table.load_cons, rowOf, Prod.mk.injEq]
    by_cases hk : i = id ∧ c' = c
    · simp [hk]
    · simp [hk]

theorem head_filter_rows (N : Names) (t : Table) (id : String) (c : Int) :
    ((t.map (rowOf N)).find? fun r => decide (r.id = id) && decide (r.created = c)).map (·.keyRecord) =
      (t.load id c).map fun r => String.ofList (encodeRowText N r) := by
  induction t with
  | nil => rfl
  | cons e t ih =>
    obtain ⟨⟨i, c'⟩, r⟩ := e
    simp only [List.map_cons, List.find?_cons, Table.load_cons, rowOf, Prod.mk.injEq]
    by_cases hk : i = id ∧ c' = c
    · simp [hk]
    · have : (decide (i = id) && decide (c' = c)) = false := by
        simpa using hk
      simp only [hk, this, if_false]
      exact ih

theorem rowDescOrder : SortOrder rowDesc (fun a b => b.created ≤ a.created) :=
  ⟨fun a b => by omega, fun a b c h1 h2 => by omega, fun a b => by simp [rowDesc]⟩

theorem filter_rows (N : Names) (t : Table) (id : String) :
    (t.map (rowOf N)).filter (fun r => decide (r.id = id)) = (t.filter (fun e => decide (e.1.1 = id))).map (rowOf N) := by
  induction t with
  | nil => rfl
  | cons e t ih =>
    simp only [List.map_cons, List.filter_cons, rowOf]
    split <;> simp [ih, rowOf]

/-- `ORDER BY created DESC LIMIT 1` over the id's rows is the specification's `loadLatest` -/
theorem head_sorted_rows (N : Names) (t : Table) (hn : t.Nodup) (id : String) :
    ((isort rowDesc ((t.map (rowOf N)).filter fun r => decide (r.id = id))).head?).map (·.keyRecord) =
      (t.loadLatest id).map fun r => String.ofList (encodeRowText N r) := by
  rw [filter_rows]
  have hsorted := isort_sorted rowDescOrder ((t.filter (fun e => decide (e.1.1 = id))).map (rowOf N))
  cases hs : isort rowDesc ((t.filter (fun e => decide (e.1.1 = id))).map (rowOf N)) with
  | nil =>
    -- no row for the id: no stamp for the id
    have hnil : (t.filter (fun e => decide (e.1.1 = id))) = [] := by
      cases hf : t.filter (fun e => decide (e.1.1 = id)) with
      | nil => rfl
      | cons a l =>
        have : rowOf N a ∈ isort rowDesc ((t.filter (fun e => decide (e.1.1 = id))).map (rowOf N)) := by
          rw [mem_isort, hf]; simp
        rw [hs] at this; exact absurd this (by simp)
    have : t.stamps id = [] := by simp [Table.stamps, hnil]
    simp [Table.loadLatest, this, Table.maxOf]
  | cons h tl =>
    rw [hs] at hsorted
    have hmem : h ∈ (t.filter (fun e => decide (e.1.1 = id))).map (rowOf N) := by
      rw [← mem_isort rowDesc, hs]; exact List.mem_cons_self
    obtain ⟨e, heF, heq⟩ := List.mem_map.mp hmem
    have heT : e ∈ t := (List.mem_filter.mp heF).1
    have heid : e.1.1 = id := by simpa using (List.mem_filter.mp heF).2
    have hmax : ∀ x ∈ t.stamps id, x ≤ e.1.2 := by
      intro x hx
      simp only [Table.stamps, List.mem_map] at hx
      obtain ⟨e', he'F, hx⟩ := hx
      have : rowOf N e' ∈ h :: tl := by
        rw [← hs, mem_isort]; exact List.mem_map.mpr ⟨e', he'F, rfl⟩
      rcases List.mem_cons.mp this with h1 | h1
      · rw [← hx]
        have : (rowOf N e').created = (rowOf N e).created := by rw [h1, heq]
        simp only [rowOf] at this; omega
      · have := (List.pairwise_cons.mp hsorted).1 _ h1
        rw [← heq] at this
        simp only [rowOf] at this
        omega
    have hin : e.1.2 ∈ t.stamps id := by
      simp only [Table.stamps, List.mem_map]
      exact ⟨e, heF, rfl⟩
    have hmaxOf : Table.maxOf (t.stamps id) = some e.1.2 := (Table.maxOf_eq_some _ _).mpr ⟨hin, hmax⟩
    have hload : t.load id e.1.2 = some e.2 := by
      have := Table.load_of_mem hn (k := e.1) (r := e.2) heT
      rw [heid] at this; exact this
    simp only [Table.loadLatest, hmaxOf, hload, List.head?_cons, Option.map_some, ← heq, rowOf]

/-! ### one operation -/

theorem sql_step_sim {N : Names} (okN : NamesOK N) {ms : SqlMs} {db : Sql} {t : Table} (ok : SqlOK ms db.dialect)
    (hinv : SqlInv N db t) (env : Env) (op : Op) :
    (sqlStep N ms db env op).res.proj = (t.stepF op.eraseId env.fault).2.proj ∧
    (sqlStep N ms db env op).st.dialect = db.dialect ∧
    SqlInv N (sqlStep N ms db env op).st (t.stepF op.eraseId env.fault).1 := by
  obtain ⟨fault, lag⟩ := env
  cases op with
  | store id c r =>
    cases fault with
    | true =>
      simp only [sqlStep, sqlExec_fault db _ id c _ ok.store, Table.stepF, Op.eraseId, if_true, Res.proj]
      exact ⟨trivial, trivial, hinv⟩
    | false =>
      simp only [sqlStep, sqlExec_insert db _ id c _ ok.store, Table.stepF, Op.eraseId, Bool.false_eq_true, if_false,
        Table.step, Table.store]
      rw [hinv.rows, any_rows_iff]
      cases hl : (t.load id c).isSome with
      | true =>
        simp only [if_true, Res.proj]
        exact ⟨trivial, trivial, hinv⟩
      | false =>
        simp only [Bool.false_eq_true, if_false, Res.proj]
        refine ⟨trivial, trivial, ?_, ?_, ?_⟩
        · simp [rowOf, encodeRowText_eraseId]
        · have := Table.store_nodup hinv.nodup id c r.eraseId
          simp only [Table.store, hl, Bool.false_eq_true, if_false] at this
          exact this
        · intro e he
          rcases List.mem_append.mp he with h | h
          · exact hinv.erased e h
          · simp only [List.mem_singleton] at h; subst h; rfl
  | load id c =>
    cases fault with
    | true =>
      simp only [sqlStep, sqlQueryRow_load_fault db _ id c ok.load, parseEnvelope, Table.stepF, Op.eraseId, if_true,
        Res.proj]
      exact ⟨trivial, trivial, hinv⟩
    | false =>
      simp only [sqlStep, sqlQueryRow_load db _ id c ok.load, Table.stepF, Op.eraseId, Bool.false_eq_true, if_false,
        Table.step]
      rw [hinv.rows, head_filter_rows]
      refine ⟨?_, trivial, hinv⟩
      cases hl : t.load id c with
      | none => simp [parseEnvelope, Res.proj]
      | some r =>
        have hmem : ∃ k, (k, r) ∈ t := mem_of_load hl
        obtain ⟨k, hk⟩ := hmem
        have her : r.id = "" := hinv.erased _ hk
        simp [parseEnvelope, decodeRowText_encodeRowText N okN r, eraseId_of_erased her, Res.proj]
  | latest id =>
    cases fault with
    | true =>
      simp only [sqlStep, sqlQueryRow_latest_fault db _ id ok.latest, parseEnvelope, Table.stepF, Op.eraseId, if_true,
        Res.proj]
      exact ⟨trivial, trivial, hinv⟩
    | false =>
      simp only [sqlStep, sqlQueryRow_latest db _ id ok.latest, Table.stepF, Op.eraseId, Bool.false_eq_true, if_false,
        Table.step]
      rw [hinv.rows, head_sorted_rows N t hinv.nodup]
      refine ⟨?_, trivial, hinv⟩
      cases hl : t.loadLatest id with
      | none => simp [parseEnvelope, Res.proj]
      | some r =>
        obtain ⟨c, hc, -⟩ := (Table.loadLatest_eq_some t id r).mp hl
        have hmem : ∃ k, (k, r) ∈ t := mem_of_load hc
        obtain ⟨k, hk⟩ := hmem
        have her : r.id = "" := hinv.erased _ hk
        simp [parseEnvelope, decodeRowText_encodeRowText N okN r, eraseId_of_erased her, Res.proj]

/-- runs of the SQL metastore against runs of the specification (faults injected at the same operations) -/
theorem sql_run_sim {N : Names} (okN : NamesOK N) {ms : SqlMs} {db : Sql} {t : Table} (ok : SqlOK ms db.dialect)
    (hinv : SqlInv N db t) (ops : List (Op × Env)) :
    (runOut (sqlStep N ms) db ops).2.map Res.proj =
      (t.run (ops.map fun oe => (oe.1.eraseId, oe.2.fault))).2.map Res.proj ∧
    SqlInv N (runOut (sqlStep N ms) db ops).1 (t.run (ops.map fun oe => (oe.1.eraseId, oe.2.fault))).1 := by
  induction ops generalizing db t with
  | nil => exact ⟨rfl, hinv⟩
  | cons oe rest ih =>
    obtain ⟨op, env⟩ := oe
    obtain ⟨h1, h2, h3⟩ := sql_step_sim okN ok hinv env op
    have ok' : SqlOK ms (sqlStep N ms db env op).st.dialect := by rw [h2]; exact ok
    obtain ⟨i1, i2⟩ := ih ok' h3
    simp only [runOut, Table.run, List.map_cons]
    exact ⟨by rw [h1, i1], i2⟩

end AsherahVerif.Metastore
