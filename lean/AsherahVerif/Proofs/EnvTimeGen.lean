import AsherahVerif.Proofs.EnvTimeRel
/-
Footprints, generically: for any reflexive-transitive step relation `R` that holds of every world
update leaving the call log and the key caches alone, of `logCall`, and of the four cache
primitives, `R` relates the world before and after every function of the envelope model
(`Resp R`).  Instances: `LG` (the call log only grows) and `NR` (caches that retain nothing stay
empty), in EnvTimeC20.
-/
set_option linter.unusedVariables false
namespace AsherahVerif.Env

class Gen (R : World → World → Prop) : Prop extends RT R where
  same : ∀ w w' : World, w'.log = w.log → w'.caches = w.caches → R w w'
  logCall : ∀ c, Resp R (Env.logCall c)
  cacheGet : ∀ c m, Resp R (Env.cacheGet c m)
  cacheSet : ∀ c m e, Resp R (Env.cacheSet c m e)
  cacheWrite : ∀ c m e, Resp R (Env.cacheWrite c m e)

section
variable {R : World → World → Prop} [Gen R]

theorem gen_modify (f : World → World) (h1 : ∀ w, (f w).log = w.log) (h2 : ∀ w, (f w).caches = w.caches) :
    Resp R (modify f) := fun w => Gen.same _ _ (h1 w) (h2 w)

theorem gen_lam {α : Type} (a : World → α) (f : World → World) (h1 : ∀ w, (f w).log = w.log) (h2 : ∀ w, (f w).caches = w.caches) :
    Resp R (fun w => ((.ok (a w), f w) : Except Err α × World)) := fun w => Gen.same _ _ (h1 w) (h2 w)

theorem gen_takeFault : Resp R takeFault := by
  intro w; unfold takeFault; split
  · exact RT.refl w
  · exact Gen.same _ _ rfl rfl

theorem gen_newBuf (m : Nat) : Resp R (newBuf m) := fun w => Gen.same _ _ rfl rfl
theorem gen_wipeBuf (b : Nat) : Resp R (wipeBuf b) := fun w => Gen.same _ _ rfl rfl
theorem gen_secretClose (s : Nat) : Resp R (secretClose s) := fun w => Gen.same _ _ rfl rfl
theorem gen_newKeyObj (c : Int) (r : Bool) (m s : Nat) : Resp R (newKeyObj c r m s) := fun w => Gen.same _ _ rfl rfl
theorem gen_keyIncr (o : Nat) : Resp R (keyIncr o) := fun w => Gen.same _ _ rfl rfl
theorem gen_keyWrap (o : Nat) : Resp R (keyWrap o) := fun w => Gen.same _ _ rfl rfl

theorem gen_secretNew (b m : Nat) : Resp R (secretNew b m) := by
  unfold secretNew
  resp_auto [gen_takeFault, gen_wipeBuf, Gen.logCall]
  intro w
  exact RT.trans (Gen.logCall _ w) (Gen.same _ _ rfl rfl)

theorem gen_secretRandom : Resp R secretRandom := by
  unfold secretRandom
  resp_auto [gen_takeFault, Gen.logCall]
  intro w
  exact RT.trans (Gen.logCall _ w) (Gen.same _ _ rfl rfl)

theorem gen_keyCloseRaw (o : Nat) : Resp R (keyCloseRaw o) := by
  unfold keyCloseRaw
  resp_auto [gen_secretClose]
  exact gen_modify _ (fun _ => rfl) (fun _ => rfl)

theorem gen_keyRelease (o : Nat) : Resp R (keyRelease o) := by
  unfold keyRelease
  apply Resp.bind
  · exact gen_modify _ (fun _ => rfl) (fun _ => rfl)
  · resp_auto [gen_keyCloseRaw]

theorem gen_releaseAll (l : List Nat) : Resp R (releaseAll l) := by
  induction l with
  | nil => exact Resp.pure _
  | cons v rest ih => unfold releaseAll; resp_auto [gen_keyRelease]

theorem gen_withKey {α : Type} (o : Nat) (f : Nat → M α) (hf : ∀ m, Resp R (f m)) : Resp R (withKey o f) := by
  unfold withKey
  resp_auto
  · exact gen_modify _ (fun _ => rfl) (fun _ => rfl)
  · exact hf _

theorem gen_kmsEncrypt (m : Nat) : Resp R (kmsEncrypt m) := by
  unfold kmsEncrypt; resp_auto [gen_takeFault, Gen.logCall]
theorem gen_kmsDecrypt (c : Ct) : Resp R (kmsDecrypt c) := by
  unfold kmsDecrypt; resp_auto [gen_takeFault, Gen.logCall, gen_newBuf]
theorem gen_aeadEncrypt (pt : Pt) (k : Nat) : Resp R (aeadEncrypt pt k) := by
  unfold aeadEncrypt
  resp_auto [gen_takeFault, Gen.logCall]
  intro w
  exact RT.trans (Gen.logCall _ w) (Gen.same _ _ rfl rfl)
theorem gen_aeadDecrypt (c : Ct) (k : Nat) : Resp R (aeadDecrypt c k) := by
  unfold aeadDecrypt; resp_auto [gen_takeFault, Gen.logCall]

theorem gen_msLoad (m : KeyMeta) : Resp R (msLoad m) := by
  unfold msLoad; resp_auto [gen_takeFault, Gen.logCall]
theorem gen_msLoadLatest (k : KeyId) : Resp R (msLoadLatest k) := by
  unfold msLoadLatest; resp_auto [gen_takeFault, Gen.logCall]
theorem gen_msStore (r : Row) : Resp R (msStore r) := by
  unfold msStore
  resp_auto [gen_takeFault, Gen.logCall]
  all_goals exact gen_modify _ (fun _ => rfl) (fun _ => rfl)
theorem gen_mustLoadLatest (k : KeyId) : Resp R (mustLoadLatest k) := by
  unfold mustLoadLatest; resp_auto [gen_msLoadLatest]

theorem gen_cacheRead (c : Nat) (m : KeyMeta) : Resp R (cacheRead c m) := by
  unfold cacheRead; resp_auto [Gen.cacheGet]
theorem gen_getFresh (c : Nat) (m : KeyMeta) (i : Int) : Resp R (getFresh c m i) := by
  unfold getFresh; resp_auto [gen_cacheRead]

theorem gen_cacheLoad (c : Nat) (m : KeyMeta) (loader : KeyMeta → M Nat) (hl : ∀ m, Resp R (loader m)) :
    Resp R (cacheLoad c m loader) := by
  unfold cacheLoad
  resp_auto [gen_cacheRead, Gen.cacheWrite, gen_keyCloseRaw, gen_keyWrap, hl]
  exact gen_modify _ (fun _ => rfl) (fun _ => rfl)

theorem gen_getOrLoad (c : Nat) (m : KeyMeta) (i : Int) (loader : KeyMeta → M Nat) (hl : ∀ m, Resp R (loader m)) :
    Resp R (getOrLoad c m i loader) := by
  unfold getOrLoad
  resp_auto [gen_getFresh, gen_cacheLoad, gen_keyIncr, gen_keyWrap, hl]

theorem gen_getOrLoadLatest (c : Nat) (k : KeyId) (i e : Int) (loader : KeyMeta → M Nat)
    (hl : ∀ m, Resp R (loader m)) : Resp R (getOrLoadLatest c k i e loader) := by
  unfold getOrLoadLatest
  resp_auto [gen_getFresh, gen_cacheLoad, Gen.cacheWrite, gen_keyIncr, gen_keyWrap, hl]

theorem gen_generateKey (x : Ctx) : Resp R (generateKey x) := by
  unfold generateKey; resp_auto [gen_secretRandom, gen_newKeyObj]
theorem gen_systemKeyFromEKR (r : Row) : Resp R (systemKeyFromEKR r) := by
  unfold systemKeyFromEKR; resp_auto [gen_kmsDecrypt, gen_secretNew, gen_newKeyObj]
theorem gen_loadSystemKey (m : KeyMeta) : Resp R (loadSystemKey m) := by
  unfold loadSystemKey; resp_auto [gen_msLoad, gen_systemKeyFromEKR]
theorem gen_getOrLoadSystemKey (x : Ctx) (m : KeyMeta) : Resp R (getOrLoadSystemKey x m) := by
  unfold getOrLoadSystemKey; exact gen_getOrLoad _ _ _ _ gen_loadSystemKey
theorem gen_tryStoreSystemKey (sk : Nat) : Resp R (tryStoreSystemKey sk) := by
  unfold tryStoreSystemKey
  resp_auto [gen_msStore]
  exact gen_withKey _ _ fun m => gen_kmsEncrypt m
theorem gen_createSK (x : Ctx) : Resp R (loadLatestOrCreateSystemKey.createSK x) := by
  unfold loadLatestOrCreateSystemKey.createSK
  resp_auto [gen_generateKey, gen_tryStoreSystemKey, gen_keyCloseRaw, gen_mustLoadLatest, gen_systemKeyFromEKR]
theorem gen_loadLatestOrCreateSystemKey (x : Ctx) : Resp R (loadLatestOrCreateSystemKey x) := by
  unfold loadLatestOrCreateSystemKey
  resp_auto [gen_msLoadLatest, gen_systemKeyFromEKR, gen_createSK]

theorem gen_withKey_aeadDecrypt (o : Nat) (c : Ct) : Resp R (withKey o fun skm => aeadDecrypt c skm) :=
  gen_withKey _ _ fun m => gen_aeadDecrypt _ _

theorem gen_intermediateKeyFromEKR (x : Ctx) (sk : Nat) (r : Row) (b : Bool) :
    Resp R (intermediateKeyFromEKR x sk r b) := by
  unfold intermediateKeyFromEKR
  resp_auto [gen_getOrLoadSystemKey, gen_keyRelease, gen_withKey_aeadDecrypt, gen_secretNew, gen_newBuf, gen_newKeyObj]

theorem gen_tryStoreIntermediateKey (x : Ctx) (ik sk : Nat) : Resp R (tryStoreIntermediateKey x ik sk) := by
  unfold tryStoreIntermediateKey
  resp_auto [gen_msStore]
  exact gen_withKey _ _ fun ikm => gen_withKey _ _ fun skm => gen_aeadEncrypt _ _

theorem gen_createIntermediateKey (x : Ctx) (b : Bool) : Resp R (createIntermediateKey x b) := by
  unfold createIntermediateKey
  resp_auto [gen_generateKey, gen_tryStoreIntermediateKey, gen_keyCloseRaw, gen_mustLoadLatest,
    gen_intermediateKeyFromEKR, gen_keyRelease]
  exact gen_getOrLoadLatest _ _ _ _ _ fun _ => gen_loadLatestOrCreateSystemKey x

theorem gen_getValidIntermediateKey (x : Ctx) (sk : Nat) (r : Row) (b : Bool) :
    Resp R (getValidIntermediateKey x sk r b) := by
  unfold getValidIntermediateKey; resp_auto [gen_intermediateKeyFromEKR]

theorem gen_loadLatestOrCreateIntermediateKey (x : Ctx) (b : Bool) :
    Resp R (loadLatestOrCreateIntermediateKey x b) := by
  unfold loadLatestOrCreateIntermediateKey
  resp_auto [gen_msLoadLatest, gen_createIntermediateKey, gen_getOrLoadSystemKey, gen_getValidIntermediateKey, gen_keyRelease]

theorem gen_loadIntermediateKey (x : Ctx) (m : KeyMeta) (b : Bool) : Resp R (loadIntermediateKey x m b) := by
  unfold loadIntermediateKey
  resp_auto [gen_msLoad, gen_getOrLoadSystemKey, gen_intermediateKeyFromEKR, gen_keyRelease]

theorem gen_encryptPayload (x : Ctx) (p : Nat) (b : Bool) : Resp R (encryptPayload x p b) := by
  unfold encryptPayload
  apply Resp.bind
  · exact gen_getOrLoadLatest _ _ _ _ _ fun _ => gen_loadLatestOrCreateIntermediateKey x b
  · intro ik
    refine Resp.finallyDo (R := R) ?_ (gen_keyRelease ik)
    resp_auto [gen_secretRandom, gen_keyCloseRaw, gen_newKeyObj]
    · exact gen_withKey _ _ fun dm => gen_aeadEncrypt _ _
    · exact gen_withKey _ _ fun im => gen_withKey _ _ fun dm => gen_aeadEncrypt _ _

theorem gen_decryptRow (ik : Nat) (dk : DrrKey) (data : Ct) : Resp R (decryptRow ik dk data) := by
  unfold decryptRow
  apply gen_withKey
  intro im
  resp_auto [gen_aeadDecrypt, gen_newBuf, gen_wipeBuf]

theorem gen_getOrLoadIK (x : Ctx) (p : KeyMeta) (b : Bool) :
    Resp R (getOrLoad x.ikCache p x.pol.revokeInterval (fun m => loadIntermediateKey x m b)) :=
  gen_getOrLoad _ _ _ _ fun m => gen_loadIntermediateKey x m b

theorem gen_decryptDataRowRecord (x : Ctx) (d : Drr) (b : Bool) : Resp R (decryptDataRowRecord x d b) := by
  unfold decryptDataRowRecord
  resp_auto [gen_decryptRow, gen_keyRelease, gen_getOrLoadIK]

end

end AsherahVerif.Env
