import AsherahVerif.Proofs.EnvTimeLoad
/-
Intermediate keys: `intermediateKeyFromEKR`, `tryStoreIntermediateKey`, `createIntermediateKey`,
`getValidIntermediateKey`, `loadLatestOrCreateIntermediateKey`, `loadIntermediateKey` against `St`.
-/
set_option linter.unusedVariables false
namespace AsherahVerif.Env

/-- the system key an intermediate key is created under, validated at time `t`. -/
def SKOk (ρ : RevCtx) (x : Ctx) (t : Int) (c : Int) : Prop :=
  c ≠ 0 ∧ (BornValid x.pol → isExpired t c x.pol.expireAfter = false) ∧
    ∀ τ m0, ρ = some (τ, m0) → m0 = ⟨.sk, c⟩ →
      t ≤ τ + x.pol.revokeInterval ∨ keyTimestamp t x.pol.precision ≤ c

/-- `GetOrLoadLatest` on the system-key cache (the call in `createIntermediateKey`). -/
theorem getOrLoadLatestSK_wp {ρ : RevCtx} {x : Ctx} {t : Int} {s0 : List Row}
    (hpos : 0 < keyTimestamp t x.pol.precision) (w : World) (h : St ρ (Delta ρ x t s0) t w) :
    Wp (getOrLoadLatest x.skCache .sk x.pol.revokeInterval x.pol.expireAfter (fun _ => loadLatestOrCreateSystemKey x)) w
      fun r w' => St ρ (Delta ρ x t s0) t w' ∧ MSame w w' ∧
        ∀ k, r = .ok k → ∃ so : KeyObj, w'.keys[k]? = some so ∧ SKOk ρ x t so.created := by
  apply Wp.mono (getOrLoadLatest_wp (LPsk_mono ρ x t) x.skCache .sk (loadLatestOrCreateSystemKey_ok hpos)
    x.pol.revokeInterval x.pol.expireAfter w h)
  intro r w' ⟨h1, hms, hk⟩
  refine ⟨h1, hms, fun k hr => ?_⟩
  rcases hk.1 k hr with ⟨hh, hw, hvalid⟩ | hres
  · obtain ⟨hkid, -, ko, hko, hc, hrv, ko', hko', hcm, ⟨r0, hr0, hrk, hrc⟩, hout⟩ := hit_out h hh hw.cw
    rw [hko] at hko'; cases hko'
    unfold isKeyInvalid at hvalid
    rw [hc, hrv] at hvalid
    have hv : ko.revoked = false ∧ isExpired t ko.created x.pol.expireAfter = false := by
      cases h1' : ko.revoked <;> cases h2' : isExpired t ko.created x.pol.expireAfter <;> simp [h1', h2'] at hvalid
      exact ⟨rfl, rfl⟩
    refine ⟨ko, hko, ?_, fun _ => hv.2, ?_⟩
    · rw [hcm, ← hrc]; exact (h1.sto.nz r0 hr0).1
    · intro τ m0 hρ hm
      have hm' : m0 = readMeta w x.skCache ⟨.sk, 0⟩ := by
        rw [hm]
        show (⟨.sk, ko.created⟩ : KeyMeta) = ⟨(readMeta w x.skCache ⟨.sk, 0⟩).kid, (readMeta w x.skCache ⟨.sk, 0⟩).created⟩
        rw [hkid, hcm]
      rcases hout τ m0 hρ hm' with h' | h'
      · rw [hv.1] at h'; cases h'
      · left; exact h'
  · obtain ⟨ko, hko, ⟨hlp1, hlp2⟩, ⟨r0, hr0, hrk, hrc⟩, hrev⟩ := hres
    refine ⟨ko, hko, ?_, hlp1, fun τ m0 hρ hm => Or.inr (hlp2 τ m0 hρ hm)⟩
    rw [← hrc]; exact (h1.sto.nz r0 hr0).1

/-- add the footprint of `x` to what is known about a run of it. -/
theorem Wp.and_ext {α : Type} {x : M α} {w : World} {Q : Except Err α → World → Prop} (hx : Extends x) (h : Wp x w Q) :
    Wp x w fun r w' => Q r w' ∧ Ext w w' := ⟨h, hx w⟩

theorem withKey_qes {α : Type} (o : Nat) (f : Nat → M α) (h1 : ∀ m, Extends (f m)) (h2 : ∀ m, Resp Q0 (f m))
    (h3 : ∀ m, Resp SS (f m)) (w : World) : QES w (withKey o f w).2 :=
  ⟨withKey_ext o f h1 w, withKey_q0 o f h2 w, withKey_ss o f h3 w⟩

/-- `getOrLoadSystemKey` for an arbitrary meta: the invariant only. -/
theorem getOrLoadSystemKey_st {ρ : RevCtx} {D : List Row → Prop} {t : Int} (x : Ctx) (p : KeyMeta)
    (w : World) (h : St ρ D t w) :
    Wp (getOrLoadSystemKey x p) w fun r w' => St ρ D t w' ∧ MSame w w' := by
  unfold getOrLoadSystemKey
  apply Wp.mono (getOrLoad_wp (LP := fun c _ _ => c = p.created) (fun _ _ _ _ h _ => h) x.skCache p
    (loadSystemKey_ok p) x.pol.revokeInterval w h)
  intro r w' ⟨h1, hms, _⟩
  exact ⟨h1, hms⟩

/-- the decrypting part of `intermediateKeyFromEKR`. -/
theorem ikBody_wp {ρ : RevCtx} {D : List Row → Prop} {t : Int} (sk' : Nat) (r0 : Row) (w : World) (h : St ρ D t w) :
    Wp (do
        let pt ← withKey sk' fun skm => aeadDecrypt r0.enc skm
        match pt with
        | .key m =>
          let b ← newBuf m
          let s ← secretNew b m
          newKeyObj r0.created r0.revoked m s
        | .payload _ => throw .aead) w fun r w' =>
      St ρ D t w' ∧ QES w w' ∧ ∀ k, r = .ok k → NewKey w' k r0.created r0.revoked := by
  have hq1 : QES w (withKey sk' (fun skm => aeadDecrypt r0.enc skm) w).2 :=
    withKey_qes _ _ (fun m => aeadDecrypt_ext _ _) (fun m => aeadDecrypt_q0 _ _) (fun m => aeadDecrypt_ss _ _) w
  refine Wp.bind_world (fun e => ⟨h.qes hq1, hq1, fun k hk => by cases hk⟩) (fun pt => ?_)
  have h1 := h.qes hq1
  generalize (withKey sk' (fun skm => aeadDecrypt r0.enc skm) w).2 = w1 at hq1 h1 ⊢
  cases pt with
  | payload _ => exact ⟨h1, hq1, fun k hk => by cases hk⟩
  | key m =>
    simp only []
    have hq2 : QES w1 (newBuf m w1).2 := ⟨newBuf_ext m w1, newBuf_q0 m w1, newBuf_ss m w1⟩
    refine Wp.bind_world (fun e => ⟨h1.qes hq2, RT.trans hq1 hq2, fun k hk => by cases hk⟩) (fun b => ?_)
    have hq3 : QES (newBuf m w1).2 (secretNew b m (newBuf m w1).2).2 :=
      ⟨secretNew_ext _ _ _, secretNew_q0 _ _ _, secretNew_ss _ _ _⟩
    have hq13 := RT.trans hq1 (RT.trans hq2 hq3)
    refine Wp.bind_world (fun e => ⟨h.qes hq13, hq13, fun k hk => by cases hk⟩) (fun s => ?_)
    apply Wp.mono (newKeyObj_wp _ _ _ _ _ (h.qes hq13))
    intro r w' ⟨h2, hq4, k, hr, hn⟩
    subst hr
    refine ⟨h2, RT.trans hq13 hq4, fun k' hk' => ?_⟩
    cases hk'; exact hn

/-- `intermediateKeyFromEKR`: a fresh key object carrying the row's stamp and flag. -/
theorem intermediateKeyFromEKR_wp {ρ : RevCtx} {D : List Row → Prop} {t : Int} (x : Ctx) (sk : Nat) (r0 : Row) (b : Bool)
    (w : World) (h : St ρ D t w) :
    Wp (intermediateKeyFromEKR x sk r0 b) w fun r w' =>
      St ρ D t w' ∧ MSame w w' ∧ ∀ k, r = .ok k → NewKey w' k r0.created r0.revoked := by
  unfold intermediateKeyFromEKR
  apply Wp.bind; apply Wp.keyObj; simp only []
  have rest : ∀ (pr : Nat × Bool) (w1 : World), St ρ D t w1 → MSame w w1 →
      Wp (if (pr.2 && b) = true then
            finallyDo
              (do
                let pt ← withKey pr.1 fun skm => aeadDecrypt r0.enc skm
                match pt with
                  | Pt.key m => do
                    let b ← newBuf m
                    let s ← secretNew b m
                    newKeyObj r0.created r0.revoked m s
                  | Pt.payload p => throw Err.aead)
              (keyRelease pr.1)
          else do
            let pt ← withKey pr.1 fun skm => aeadDecrypt r0.enc skm
            match pt with
              | Pt.key m => do
                let b ← newBuf m
                let s ← secretNew b m
                newKeyObj r0.created r0.revoked m s
              | Pt.payload p => throw Err.aead) w1 fun r w' =>
        St ρ D t w' ∧ MSame w w' ∧ ∀ k, r = .ok k → NewKey w' k r0.created r0.revoked := by
    intro pr w1 h1 hms1
    split
    · apply Wp.finallyDo
      apply Wp.mono (ikBody_wp pr.1 r0 w1 h1)
      intro r w2 ⟨h2, hq2, hn⟩
      have hq3 : QES w2 (keyRelease pr.1 w2).2 := ⟨keyRelease_ext _ _, keyRelease_q0 _ _, keyRelease_ss _ _⟩
      exact ⟨h2.qes hq3, RT.trans hms1 (RT.trans hq2.q.msame hq3.q.msame), fun k hk => (hn k hk).qe hq3.qe⟩
    · apply Wp.mono (ikBody_wp pr.1 r0 w1 h1)
      intro r w2 ⟨h2, hq2, hn⟩
      exact ⟨h2, RT.trans hms1 hq2.q.msame, hn⟩
  cases r0.parent with
  | none =>
    simp only []
    apply Wp.bind; apply Wp.pure; simp only []
    exact rest (sk, false) w h (RT.refl w)
  | some p =>
    simp only []
    split
    · apply Wp.bind
      apply Wp.mono (getOrLoadSystemKey_st x p w h)
      intro r w1 ⟨h1, hms⟩
      cases r with
      | error e => exact ⟨h1, hms, fun k hk => by cases hk⟩
      | ok l =>
        simp only []
        apply Wp.bind; apply Wp.pure; simp only []
        exact rest (l, true) w1 h1 hms
    · apply Wp.bind; apply Wp.pure; simp only []
      exact rest (sk, false) w h (RT.refl w)

/-- `tryStoreIntermediateKey` for a key stamped with the truncated clock under a validated system key. -/
theorem tryStoreIntermediateKey_wp {ρ : RevCtx} {x : Ctx} {t : Int} {s0 : List Row} (ik sk : Nat) (w : World)
    (h : St ρ (Delta ρ x t s0) t w) (hc : (keyAt w ik).created = keyTimestamp t x.pol.precision)
    (hpos : 0 < keyTimestamp t x.pol.precision) (hsk : SKOk ρ x t (keyAt w sk).created) :
    Wp (tryStoreIntermediateKey x ik sk) w fun r w' => St ρ (Delta ρ x t s0) t w' ∧ QE w w' ∧
      (r = .ok true → ∃ r0 ∈ w'.store, r0.kid = x.ikId ∧ r0.created = keyTimestamp t x.pol.precision ∧ r0.revoked = false) ∧
      (r = .ok false → ∃ r1 ∈ w'.store, r1.kid = x.ikId ∧ r1.created = keyTimestamp t x.pol.precision) := by
  unfold tryStoreIntermediateKey
  apply Wp.bind; apply Wp.keyObj; simp only []
  apply Wp.bind; apply Wp.keyObj; simp only []
  have hq1 : QES w (withKey ik (fun ikm => withKey sk fun skm => aeadEncrypt (.key ikm) skm) w).2 :=
    withKey_qes _ _
      (fun m => withKey_ext _ _ fun _ => aeadEncrypt_ext _ _)
      (fun m => withKey_q0 _ _ fun _ => aeadEncrypt_q0 _ _)
      (fun m => withKey_ss _ _ fun _ => aeadEncrypt_ss _ _) w
  refine Wp.bind_world (fun e => ⟨h.qes hq1, hq1.qe, fun hh => (by cases hh), fun hh => (by cases hh)⟩) (fun enc => ?_)
  have h1 := h.qes hq1
  generalize (withKey ik (fun ikm => withKey sk fun skm => aeadEncrypt (.key ikm) skm) w).2 = w1 at hq1 h1 ⊢
  apply Wp.mono (msStore_wp _ w1 h1.faults)
  intro r w2 hcase
  simp only at hcase
  rcases hcase with ⟨hr, hnone, l, rfl⟩ | ⟨hr, hsome, hl⟩
  · subst hr
    have h2 : St ρ (Delta ρ x t s0) t { w1 with store := w1.store ++
        [{ kid := x.ikId, created := (keyAt w ik).created, revoked := false, enc := enc,
           parent := some ⟨.sk, (keyAt w sk).created⟩ }], log := l } := by
      refine h1.addRow _ l hnone (by show (keyAt w ik).created ≠ 0; rw [hc]; omega)
        (fun p hp => by cases hp; exact hsk.1) rfl ?_
      intro r hr
      simp only [List.mem_append, List.mem_singleton] at hr
      rcases hr with hr | hr
      · exact h1.sto.delta r hr
      · subst hr
        exact Or.inr ⟨rfl, hc, Or.inr ⟨rfl, ⟨.sk, (keyAt w sk).created⟩, rfl, hsk.2.1,
          fun τ m0 hρ hm => hsk.2.2 τ m0 hρ hm⟩⟩
    refine ⟨h2, RT.trans hq1.qe ⟨?_, Q0.of_eq rfl rfl rfl⟩, fun _ => ?_, fun hh => (by cases hh)⟩
    · exact ⟨rfl, rfl, rfl, fun r h => List.mem_append_left _ h, fun _ s h => ⟨s, h, rfl, Nat.le_refl _, Nat.le_refl _⟩,
        fun _ k h => ⟨k, h, rfl, rfl, rfl, id⟩, fun _ b h => ⟨b, h, rfl, id⟩, Nat.le_refl _, Nat.le_refl _, Nat.le_refl _⟩
    · exact ⟨_, List.mem_append_right _ (List.mem_singleton.mpr rfl), rfl, hc, rfl⟩
  · subst hr
    refine ⟨h1.logOnly hl, RT.trans hq1.qe hl.qes.qe, fun hh => (by cases hh), fun _ => ?_⟩
    cases hfr : findRow w1.store ⟨x.ikId, (keyAt w ik).created⟩ with
    | none => rw [hfr] at hsome; cases hsome
    | some r1 =>
      obtain ⟨hm, hk, hcr⟩ := findRow_some hfr
      exact ⟨r1, hl.qes.ext.store r1 hm, hk, hcr.trans hc⟩

/-- `createIntermediateKey`: the new key if the metastore took it, else a key object for the latest
stored intermediate key of the partition (whose stamp is then at least the new key's stamp). -/
theorem createIntermediateKey_wp {ρ : RevCtx} {x : Ctx} {t : Int} {s0 : List Row} (b : Bool) (w : World)
    (h : St ρ (Delta ρ x t s0) t w) (hpos : 0 < keyTimestamp t x.pol.precision) :
    Wp (createIntermediateKey x b) w fun r w' => St ρ (Delta ρ x t s0) t w' ∧ MSame w w' ∧
      ∀ k, r = .ok k → ∃ r0 ∈ w'.store, r0.kid = x.ikId ∧ NewKey w' k r0.created r0.revoked ∧
        keyTimestamp t x.pol.precision ≤ r0.created := by
  unfold createIntermediateKey
  apply Wp.bind
  apply Wp.mono (getOrLoadLatestSK_wp hpos w h)
  intro r w1 ⟨h1, hms1, hk1⟩
  cases r with
  | error e => exact ⟨h1, hms1, fun k hk => by cases hk⟩
  | ok sk =>
    simp only []
    obtain ⟨so, hso, hskok⟩ := hk1 sk rfl
    apply Wp.finallyDo
    -- the release of the system key at the end keeps everything
    have fin : ∀ (r : Except Err Nat) (w2 : World), (St ρ (Delta ρ x t s0) t w2 ∧ MSame w w2 ∧
        ∀ k, r = .ok k → ∃ r0 ∈ w2.store, r0.kid = x.ikId ∧ NewKey w2 k r0.created r0.revoked ∧
          keyTimestamp t x.pol.precision ≤ r0.created) →
        Wp (keyRelease sk) w2 fun _ w' => St ρ (Delta ρ x t s0) t w' ∧ MSame w w' ∧
          ∀ k, r = .ok k → ∃ r0 ∈ w'.store, r0.kid = x.ikId ∧ NewKey w' k r0.created r0.revoked ∧
            keyTimestamp t x.pol.precision ≤ r0.created := by
      intro r w2 ⟨h2, hms2, hk2⟩
      have hq : QES w2 (keyRelease sk w2).2 := ⟨keyRelease_ext _ _, keyRelease_q0 _ _, keyRelease_ss _ _⟩
      refine ⟨h2.qes hq, RT.trans hms2 hq.q.msame, fun k hk => ?_⟩
      obtain ⟨r0, hr0, hk0, hn, hle⟩ := hk2 k hk
      exact ⟨r0, by rw [hq.store]; exact hr0, hk0, hn.qe hq.qe, hle⟩
    refine Wp.mono ?_ fin
    apply Wp.bind
    apply Wp.mono (generateKey_wp x w1 h1)
    intro r w2 ⟨h2, hq2, hn2⟩
    have hms2 : MSame w w2 := RT.trans hms1 hq2.q.msame
    cases r with
    | error e => exact ⟨h2, hms2, fun k hk => by cases hk⟩
    | ok ik =>
      simp only []
      have hn := hn2 ik rfl
      have hc : (keyAt w2 ik).created = keyTimestamp t x.pol.precision := by
        obtain ⟨⟨ko, hk, hc, -⟩, -⟩ := hn
        rw [keyAt_of_get hk]; exact hc
      have hsk2 : SKOk ρ x t (keyAt w2 sk).created := by
        obtain ⟨k1, e1, c1, -⟩ := hq2.ext.keys _ _ hso
        rw [keyAt_of_get e1, c1]; exact hskok
      apply Wp.bind; apply Wp.tryM
      apply Wp.mono (tryStoreIntermediateKey_wp ik sk w2 h2 hc hpos hsk2)
      intro r w3 ⟨h3, hq3, htrue, hfalse⟩
      simp only []
      have hms3 : MSame w w3 := RT.trans hms2 hq3.q.msame
      cases r with
      | error e =>
        simp only []
        have hq4 : QES w3 (keyCloseRaw ik w3).2 := ⟨keyCloseRaw_ext _ _, keyCloseRaw_q0 _ _, keyCloseRaw_ss _ _⟩
        refine Wp.bind_unit (keyCloseRaw_ok ik w3) ?_
        exact ⟨h3.qes hq4, RT.trans hms3 hq4.q.msame, fun k hk => by cases hk⟩
      | ok bb =>
        cases bb with
        | true =>
          simp only []
          obtain ⟨r0, hr0, hk0, hc0, hv0⟩ := htrue rfl
          refine ⟨h3, hms3, fun k hk => ?_⟩
          cases hk
          refine ⟨r0, hr0, hk0, ?_, by rw [hc0]; exact Int.le_refl _⟩
          rw [hc0, hv0]; exact hn.qe hq3
        | false =>
          simp only []
          obtain ⟨r1, hr1, hk1', hc1⟩ := hfalse rfl
          have hq4 : QES w3 (keyCloseRaw ik w3).2 := ⟨keyCloseRaw_ext _ _, keyCloseRaw_q0 _ _, keyCloseRaw_ss _ _⟩
          refine Wp.bind_unit (keyCloseRaw_ok ik w3) ?_
          have h4 := h3.qes hq4
          have hms4 : MSame w (keyCloseRaw ik w3).2 := RT.trans hms3 hq4.q.msame
          have hr1' : r1 ∈ (keyCloseRaw ik w3).2.store := by rw [hq4.store]; exact hr1
          generalize (keyCloseRaw ik w3).2 = w4 at h4 hms4 hr1'
          apply Wp.bind
          apply Wp.mono (mustLoadLatest_wp x.ikId w4 h4.faults)
          intro r w5 ⟨hl, hlat⟩
          have h5 := h4.logOnly hl
          have hms5 : MSame w w5 := RT.trans hms4 hl.msame
          cases r with
          | error e => exact ⟨h5, hms5, fun k hk => by cases hk⟩
          | ok r0 =>
            simp only []
            obtain ⟨hm0, hk0, hmax⟩ := latestRow_some (hlat r0 rfl)
            apply Wp.mono (Wp.and_ext (intermediateKeyFromEKR_ext x sk r0 b) (intermediateKeyFromEKR_wp x sk r0 b w5 h5))
            intro r w6 ⟨⟨h6, hms6, hn6⟩, hext6⟩
            refine ⟨h6, RT.trans hms5 hms6, fun k hk => ?_⟩
            refine ⟨r0, ?_, hk0, hn6 k hk, ?_⟩
            · exact hext6.store r0 (hl.qes.ext.store r0 hm0)
            · rw [← hc1]; exact hmax r1 hr1' hk1'

/-- what the intermediate-key loader of `EncryptPayload` guarantees about the stamp `c` of the key
it returns: its row `r` is stored; it is not expired; its parent system key was validated
(`ParentOK`) unless the row was *adopted* after a refused insert (`r` is a row of the world the
operation started from and no later stamp could be created); and if it is the revoked row then no
later stamp could be created. -/
def LPik (ρ : RevCtx) (x : Ctx) (t : Int) (s0 : List Row) : Int → Bool → World → Prop := fun c _ w =>
  ∃ r ∈ w.store, r.kid = x.ikId ∧ r.created = c ∧
    (BornValid x.pol → isExpired t c x.pol.expireAfter = false) ∧
    ((r ∈ s0 ∧ keyTimestamp t x.pol.precision ≤ c) ∨ ParentOK ρ x t r) ∧
    (∀ τ m0, ρ = some (τ, m0) → m0 = ⟨x.ikId, c⟩ → keyTimestamp t x.pol.precision ≤ c)

theorem LPik_mono (ρ : RevCtx) (x : Ctx) (t : Int) (s0 : List Row) : LPMono (LPik ρ x t s0) := by
  intro c b w w' ⟨r, hr, h⟩ hext
  exact ⟨r, hext.store r hr, h⟩

theorem Loaded.qes {ρ : RevCtx} {LP : Int → Bool → World → Prop} (hLP : LPMono LP) {m : KeyMeta} {w w' : World} {k : Nat}
    (h : Loaded ρ LP m w k) (hq : QES w w') : Loaded ρ LP m w' k := by
  obtain ⟨a, b, c⟩ := h
  refine ⟨a.mono hLP hq.cw, ?_, ?_⟩
  · obtain ⟨ko, hk, -⟩ := a
    obtain ⟨k1, e1, c1, -⟩ := hq.ext.keys _ _ hk
    rw [keyAt_of_get e1, c1, ← keyAt_of_get hk]; exact b
  · intro c2 m2 e2 hm; rw [(hq.views c2).1] at hm; exact c c2 m2 e2 hm

/-- `getValidIntermediateKey`. -/
theorem getValidIntermediateKey_wp {ρ : RevCtx} {D : List Row → Prop} {t : Int} (x : Ctx) (sk : Nat) (r0 : Row) (b : Bool)
    (w : World) (h : St ρ D t w) :
    Wp (getValidIntermediateKey x sk r0 b) w fun r w' =>
      St ρ D t w' ∧ MSame w w' ∧ Ext w w' ∧ ∀ o, r = .ok o → ∀ ik, o = some ik →
        NewKey w' ik r0.created r0.revoked ∧ isKeyInvalid (keyAt w sk) t x.pol.expireAfter = false := by
  unfold getValidIntermediateKey
  apply Wp.bind; apply Wp.keyObj; simp only []
  apply Wp.bind; apply Wp.get; simp only []
  rw [h.now]
  split
  · exact ⟨h, RT.refl w, Ext.refl w, fun o ho ik hik => by cases ho; cases hik⟩
  · rename_i hv
    apply Wp.bind; apply Wp.tryM
    apply Wp.mono (Wp.and_ext (intermediateKeyFromEKR_ext x sk r0 b) (intermediateKeyFromEKR_wp x sk r0 b w h))
    intro r w1 ⟨⟨h1, hms, hn⟩, hext⟩
    simp only []
    cases r with
    | error e => exact ⟨h1, hms, hext, fun o ho ik hik => by cases ho; cases hik⟩
    | ok ik =>
      refine ⟨h1, hms, hext, fun o ho ik' hik => ?_⟩
      cases ho; cases hik
      refine ⟨hn ik rfl, ?_⟩
      cases hx : isKeyInvalid (keyAt w sk) t x.pol.expireAfter
      · rfl
      · exact absurd hx hv

/-- the loader of `EncryptPayload`. -/
theorem loadLatestOrCreateIntermediateKey_ok {ρ : RevCtx} {x : Ctx} {t : Int} {s0 : List Row} (b : Bool)
    (hpos : 0 < keyTimestamp t x.pol.precision) :
    LoaderOK ρ (Delta ρ x t s0) t (LPik ρ x t s0) (fun _ => loadLatestOrCreateIntermediateKey x b) ⟨x.ikId, 0⟩ := by
  intro w h
  show Wp (loadLatestOrCreateIntermediateKey x b) w _
  -- creation, from any later world
  have create : ∀ w1, St ρ (Delta ρ x t s0) t w1 → MSame w w1 →
      Wp (createIntermediateKey x b) w1 fun r w' =>
        St ρ (Delta ρ x t s0) t w' ∧ MSame w w' ∧ ∀ k, r = .ok k → Loaded ρ (LPik ρ x t s0) ⟨x.ikId, 0⟩ w' k := by
    intro w1 h1 hms1
    apply Wp.mono (createIntermediateKey_wp b w1 h1 hpos)
    intro r w2 ⟨h2, hms, hk⟩
    refine ⟨h2, RT.trans hms1 hms, fun k hr => ?_⟩
    obtain ⟨r0, hr0, hk0, hn, hle⟩ := hk k hr
    refine loaded_of_newKey h2 hn hr0 hk0 ⟨r0, hr0, hk0, rfl, fun hb => isExpired_mono hle (hb t), ?_, fun _ _ _ _ => hle⟩
      (fun h0 => absurd rfl h0)
    rcases h2.sto.delta r0 hr0 with hin | ⟨-, -, hsk | ⟨-, hpar⟩⟩
    · exact Or.inl ⟨hin, hle⟩
    · rw [hk0] at hsk; cases hsk
    · exact Or.inr hpar
  unfold loadLatestOrCreateIntermediateKey
  apply Wp.bind
  apply Wp.mono (msLoadLatest_wp x.ikId w h.faults)
  intro r w1 ⟨hr, hl⟩
  subst hr
  simp only []
  have h1 := h.logOnly hl
  have hst : w1.store = w.store := by obtain ⟨l, rfl⟩ := hl; rfl
  apply Wp.bind; apply Wp.get; simp only []
  cases hlr : latestRow w.store x.ikId with
  | none => simp only []; exact create w1 h1 hl.msame
  | some r0 =>
    simp only []
    obtain ⟨hm0, hk0, -⟩ := latestRow_some hlr
    split
    · exact create w1 h1 hl.msame
    · rename_i hvalid
      have hv : isExpired t r0.created x.pol.expireAfter = false ∧ r0.revoked = false := by
        unfold isEnvelopeInvalid at hvalid
        rw [h1.now] at hvalid
        cases h1' : isExpired t r0.created x.pol.expireAfter <;> cases h2' : r0.revoked <;> simp [h1', h2'] at hvalid
        exact ⟨rfl, rfl⟩
      cases hpar : r0.parent with
      | none => exact ⟨h1, hl.msame, fun k hk => by cases hk⟩
      | some p =>
        simp only []
        have hpz : p.created ≠ 0 := (h.sto.nz r0 hm0).2 p hpar
        apply Wp.bind; apply Wp.tryM
        apply Wp.mono (Wp.and_ext (getOrLoadSystemKey_ext x p) (getOrLoadSystemKey_wp x p hpz w1 h1))
        intro r w2 ⟨⟨h2, hms2, hk2⟩, hext2⟩
        simp only []
        have hms02 : MSame w w2 := RT.trans hl.msame hms2
        cases r with
        | error e => simp only []; exact create w2 h2 hms02
        | ok sk =>
          simp only []
          obtain ⟨so, hso, hsoc, -, hsorev⟩ := hk2 sk rfl
          apply Wp.finallyDo
          have fin : ∀ (r : Except Err Nat) (w3 : World), (St ρ (Delta ρ x t s0) t w3 ∧ MSame w w3 ∧
              ∀ k, r = .ok k → Loaded ρ (LPik ρ x t s0) ⟨x.ikId, 0⟩ w3 k) →
              Wp (keyRelease sk) w3 fun _ w' => St ρ (Delta ρ x t s0) t w' ∧ MSame w w' ∧
                ∀ k, r = .ok k → Loaded ρ (LPik ρ x t s0) ⟨x.ikId, 0⟩ w' k := by
            intro r w3 ⟨h3, hms3, hk3⟩
            have hq : QES w3 (keyRelease sk w3).2 := ⟨keyRelease_ext _ _, keyRelease_q0 _ _, keyRelease_ss _ _⟩
            exact ⟨h3.qes hq, RT.trans hms3 hq.q.msame, fun k hk => (hk3 k hk).qes (LPik_mono ρ x t s0) hq⟩
          refine Wp.mono ?_ fin
          apply Wp.bind
          apply Wp.mono (getValidIntermediateKey_wp x sk r0 b w2 h2)
          intro r w3 ⟨h3, hms3, hext3, hk3⟩
          have hms03 : MSame w w3 := RT.trans hms02 hms3
          cases r with
          | error e => exact ⟨h3, hms03, fun k hk => by cases hk⟩
          | ok o =>
            cases o with
            | none => simp only []; exact create w3 h3 hms03
            | some ik =>
              simp only []
              obtain ⟨hn, hvalid2⟩ := hk3 _ rfl ik rfl
              refine ⟨h3, hms03, fun k hk => ?_⟩
              cases hk
              have hmem3 : r0 ∈ w3.store := by
                apply hext3.store
                apply hext2.store
                rw [hst]; exact hm0
              rw [keyAt_of_get hso] at hvalid2
              unfold isKeyInvalid at hvalid2
              have hv2 : so.revoked = false ∧ isExpired t so.created x.pol.expireAfter = false := by
                cases h1' : so.revoked <;> cases h2' : isExpired t so.created x.pol.expireAfter <;> simp [h1', h2'] at hvalid2
                exact ⟨rfl, rfl⟩
              refine loaded_of_newKey h3 hn hmem3 hk0 ⟨r0, hmem3, hk0, rfl, fun _ => hv.1, Or.inr ⟨p, hpar, ?_, ?_⟩, ?_⟩
                (fun h0 => absurd rfl h0)
              · intro _; rw [← hsoc]; exact hv2.2
              · intro τ m0 hρ hm
                rcases hsorev τ m0 hρ hm with h' | h'
                · rw [hv2.1] at h'; cases h'
                · left; exact h'
              · intro τ m0 hρ hm
                have := (h3.sto.rev τ m0 hρ).2 r0 hmem3 (by rw [hm]; exact hk0) (by rw [hm])
                rw [hv.2] at this; cases this

/-- the loader of `DecryptDataRowRecord`. -/
theorem loadIntermediateKey_ok {ρ : RevCtx} {D : List Row → Prop} {t : Int} (x : Ctx) (p : KeyMeta) (b : Bool) :
    LoaderOK ρ D t (fun _ _ _ => True) (fun m => loadIntermediateKey x m b) p := by
  intro w h
  show Wp (loadIntermediateKey x p b) w _
  unfold loadIntermediateKey
  apply Wp.bind
  apply Wp.mono (msLoad_wp p w h.faults)
  intro r w1 ⟨hr, hl⟩
  subst hr
  simp only []
  have h1 := h.logOnly hl
  have hst : w1.store = w.store := by obtain ⟨l, rfl⟩ := hl; rfl
  cases hf : findRow w.store p with
  | none => exact ⟨h1, hl.msame, fun k hk => by cases hk⟩
  | some r0 =>
    simp only []
    obtain ⟨hmem, hk, hc⟩ := findRow_some hf
    cases hpar : r0.parent with
    | none => exact ⟨h1, hl.msame, fun k hk => by cases hk⟩
    | some sp =>
      simp only []
      apply Wp.bind
      apply Wp.mono (Wp.and_ext (getOrLoadSystemKey_ext x sp) (getOrLoadSystemKey_st x sp w1 h1))
      intro r w2 ⟨⟨h2, hms2⟩, hext2⟩
      have hms02 : MSame w w2 := RT.trans hl.msame hms2
      cases r with
      | error e => exact ⟨h2, hms02, fun k hk => by cases hk⟩
      | ok sk =>
        simp only []
        apply Wp.finallyDo
        apply Wp.mono (Wp.and_ext (intermediateKeyFromEKR_ext x sk r0 b) (intermediateKeyFromEKR_wp x sk r0 b w2 h2))
        intro r w3 ⟨⟨h3, hms3, hn⟩, hext3⟩
        have hq : QES w3 (keyRelease sk w3).2 := ⟨keyRelease_ext _ _, keyRelease_q0 _ _, keyRelease_ss _ _⟩
        refine ⟨h3.qes hq, RT.trans hms02 (RT.trans hms3 hq.q.msame), fun k hk' => ?_⟩
        have hmem3 : r0 ∈ w3.store := hext3.store r0 (hext2.store r0 (by rw [hst]; exact hmem))
        exact (loaded_of_newKey h3 (hn k hk') hmem3 hk trivial (fun _ => hc)).qes (fun _ _ _ _ h _ => h) hq

end AsherahVerif.Env
