import AsherahVerif.Proofs.CacheStep
/-
C15 helper lemmas: how each primitive changes what `lookup` (Go: `byKey[key]`) returns.
-/
namespace AsherahVerif.Cache

theorem lookup_eraseKey (items : List Item) (k j : Nat) :
    lookup (eraseKey items k) j = if j = k then none else lookup items j := by
  induction items with
  | nil => simp [lookup, eraseKey]
  | cons a t ih =>
    unfold lookup eraseKey at *
    simp only [List.filter_cons, List.find?_cons]
    by_cases hak : a.key = k
    · simp only [hak, bne_self_eq_false, Bool.false_eq_true, if_false]
      rw [ih]
      by_cases hjk : j = k
      · simp [hjk]
      · have : (k == j) = false := by simpa using fun e => hjk e.symm
        simp [hjk, this]
    · have hb : (a.key != k) = true := by simpa using hak
      simp only [hb, if_true, List.find?_cons]
      by_cases haj : a.key = j
      · have : j ≠ k := fun e => hak (haj.trans e)
        simp [haj, this]
      · have hb2 : (a.key == j) = false := by simpa using haj
        simp only [hb2]
        exact ih

theorem lookup_setVal (items : List Item) (k v e j : Nat) :
    lookup (setVal items k v e) j =
      if j = k then (lookup items k).map (fun it => { it with val := v, exp := e }) else lookup items j := by
  induction items with
  | nil => simp [lookup, setVal]
  | cons a t ih =>
    unfold lookup setVal at *
    simp only [List.map_cons, List.find?_cons]
    by_cases hak : a.key = k
    · have hb : (a.key == k) = true := by simpa using hak
      simp only [hb, if_true]
      by_cases hjk : j = k
      · subst hjk; simp [hak]
      · have : (a.key == j) = false := by simpa [hak] using fun e => hjk e.symm
        simp only [hak] at this
        simp only [hjk, if_false, this, hak]
        have := ih; simp only [hjk, if_false] at this; exact this
    · have hb : (a.key == k) = false := by simpa using hak
      simp only [hb, Bool.false_eq_true, if_false]
      by_cases haj : a.key = j
      · have hjk : j ≠ k := fun e => hak (haj.trans e)
        simp [haj, hjk]
      · have hb2 : (a.key == j) = false := by simpa using haj
        simp only [hb2]
        exact ih

theorem lookup_append_new {items : List Item} {k v e : Nat} (hk : k ∉ keysOf items) (j : Nat) :
    lookup (items ++ [⟨k, v, e⟩]) j = if j = k then some ⟨k, v, e⟩ else lookup items j := by
  unfold lookup
  rw [List.find?_append]
  by_cases hjk : j = k
  · subst hjk
    have : lookup items j = none := lookup_none.mpr hk
    unfold lookup at this
    simp [this]
  · have : (k == j) = false := by simpa using fun e => hjk e.symm
    simp [hjk, this]

end AsherahVerif.Cache
