import AsherahVerif.Proofs.CacheStep
import AsherahVerif.Proofs.CacheLookup
/-
C09 — what the key caches need from the E2 cache model (`AsherahVerif.Cache`, the subject of
C15): for a well-formed (`Inv`), open, expiry-free cache, the exact effect of `get`, `set`, `close`
on the set of keys, and the callbacks they fire.
-/
set_option linter.unusedVariables false
namespace AsherahVerif.Cache.Res

theorem step_get_eff {c : Cache} (h : Inv c) (hc : c.closing = false) (he : c.expiry = 0) (k : Nat) (orc : Nat → Bool) :
    (step c (.get k) orc).cbs = [] ∧ (step c (.get k) orc).cache.items = c.items ∧
    (step c (.get k) orc).cache.closing = false ∧ (step c (.get k) orc).cache.expiry = 0 := by
  cases hl : lookup c.items k with
  | none => simp [step, hc, hl, he]
  | some it =>
    have : ¬ (c.expiry > 0 ∧ it.exp < c.now) := by rw [he]; intro h'; exact absurd h'.1 (by decide)
    simp [step, hc, hl, this, he]

/-- the effect of `Set` on the key set: the new key is in; nothing else changes except for at most
one evicted key, which is reported. -/
theorem step_set_eff {c : Cache} (h : Inv c) (hc : c.closing = false) (he : c.expiry = 0) (k v : Nat) (orc : Nat → Bool) :
    (step c (.set k v) orc).cache.closing = false ∧ (step c (.set k v) orc).cache.expiry = 0 ∧
    (((step c (.set k v) orc).cbs = [] ∧
        ∀ j, j ∈ keysOf (step c (.set k v) orc).cache.items ↔ (j = k ∨ j ∈ keysOf c.items)) ∨
     (∃ it : Item, it.key ∈ keysOf c.items ∧ it.key ≠ k ∧ k ∉ keysOf c.items ∧
        (step c (.set k v) orc).cbs = [(it.key, it.val)] ∧
        ∀ j, j ∈ keysOf (step c (.set k v) orc).cache.items ↔ (j = k ∨ (j ∈ keysOf c.items ∧ j ≠ it.key)))) := by
  cases hl : lookup c.items k with
  | some it0 =>
    have ho : step c (.set k v) orc =
        { cache := { c with items := setVal c.items k v (expireAt c), pol := c.pol.access k }, res := .unit } := by
      simp [step, hc, hl]
    rw [ho]
    refine ⟨hc, he, Or.inl ⟨rfl, ?_⟩⟩
    intro j
    show j ∈ keysOf (setVal c.items k v (expireAt c)) ↔ _
    rw [keysOf_setVal]
    have hk : k ∈ keysOf c.items := by
      have := lookup_some hl
      rw [← this.2]; exact List.mem_map.2 ⟨it0, this.1, rfl⟩
    constructor
    · intro hj; exact Or.inr hj
    · rintro (rfl | hj)
      · exact hk
      · exact hj
  | none =>
    have hk := lookup_none.mp hl
    by_cases hfull : c.items.length = c.cap
    · have hne : c.items ≠ [] := by
        intro e; rw [e] at hfull; simp at hfull; have := h.capPos; omega
      obtain ⟨it, hit, _, hev⟩ := evict_spec h.toBij hne (orc 0)
      have ho : step c (.set k v) orc =
          { cache := { c with pol := ((c.pol.victim (orc 0)).2.remove it.key).admit k,
                              items := eraseKey c.items it.key ++ [⟨k, v, expireAt c⟩] },
            res := .unit, cbs := [(it.key, it.val)] } := by
        simp [step, hc, hl, hfull, hev]
      rw [ho]
      have hitk : it.key ∈ keysOf c.items := by
        have := lookup_some hit
        exact List.mem_map.2 ⟨it, this.1, rfl⟩
      have hne' : it.key ≠ k := fun e => hk (e ▸ hitk)
      refine ⟨hc, he, Or.inr ⟨it, hitk, hne', hk, rfl, ?_⟩⟩
      intro j
      show j ∈ keysOf (eraseKey c.items it.key ++ [⟨k, v, expireAt c⟩]) ↔ _
      simp only [keysOf, List.map_append, List.map_cons, List.map_nil, List.mem_append, List.mem_singleton]
      have := @mem_keysOf_eraseKey c.items it.key j
      simp only [keysOf] at this
      rw [this]
      constructor
      · rintro (⟨h1, h2⟩ | rfl)
        · exact Or.inr ⟨h2, h1⟩
        · exact Or.inl rfl
      · rintro (rfl | ⟨h1, h2⟩)
        · exact Or.inr rfl
        · exact Or.inl ⟨h2, h1⟩
    · have ho : step c (.set k v) orc =
          { cache := { c with items := c.items ++ [⟨k, v, expireAt c⟩], pol := c.pol.admit k }, res := .unit } := by
        simp [step, hc, hl, hfull]
      rw [ho]
      refine ⟨hc, he, Or.inl ⟨rfl, ?_⟩⟩
      intro j
      show j ∈ keysOf (c.items ++ [⟨k, v, expireAt c⟩]) ↔ _
      simp only [keysOf, List.map_append, List.map_cons, List.map_nil, List.mem_append, List.mem_singleton]
      exact Or.comm

/-- `Close` reports every key exactly once. -/
theorem step_close_eff {c : Cache} (h : Inv c) (hc : c.closing = false) (orc : Nat → Bool) :
    ((step c .close orc).cbs.map (·.1)).Perm (keysOf c.items) := by
  simp only [step, hc, Bool.false_eq_true, if_false]
  have hb : Bij { c with closing := true } := ⟨h.itemsNodup, h.polNodup, h.same⟩
  obtain ⟨c', cbs, h1, h2, _, _, h5, h6⟩ :=
    evictAll_spec orc c.items.length { c with closing := true } [] hb (Nat.le_refl _)
  simp only [List.nil_append] at h1
  rw [h1]
  have := h6.map (·.1)
  rw [List.map_map] at this
  exact this

end AsherahVerif.Cache.Res
