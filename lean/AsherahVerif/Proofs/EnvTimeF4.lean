import AsherahVerif.Proofs.EnvTimeF3
/-
Timed calculus under faults, part 4: the metastore primitives and the system-key loader.

`msStore` under `J`: either the token it consumed was `.ok` — then `true` means the row was appended
and `false` means a row with that id and stamp exists — or the operation is `Bad`.
The system-key loader `loadLatestOrCreateSystemKey` returns, whatever faults hit reads, the KMS, the
AEAD or the allocator, a key that is not expired (or fails), unless a `store` was hit.
-/
set_option linter.unusedVariables false
namespace AsherahVerif.Env.TimeF
open AsherahVerif.Env

variable {fl : List Fault} {D : List Row → Prop} {t : Int}

/-- "not expired at `t` under the policy of `x`" (for policies under which a key is not born expired). -/
def NE (x : Ctx) (t : Int) : Int → Prop := fun cr => BornValid x.pol → isExpired t cr x.pol.expireAfter = false

/-- what an encrypt may have added to the store so far (policies under which a key is not born
expired): unrevoked rows stamped with the truncated clock — system keys, or intermediate keys of the
session's partition whose parent system key is not expired at `t`. -/
def DeltaF (x : Ctx) (t : Int) (s0 : List Row) (store : List Row) : Prop :=
  ∀ r ∈ store, r ∈ s0 ∨ (r.revoked = false ∧ r.created = keyTimestamp t x.pol.precision ∧
    (r.kid = .sk ∨ (r.kid = x.ikId ∧ ∃ p, r.parent = some p ∧ NE x t p.created)))

theorem DeltaF.add {x : Ctx} {t : Int} {s0 store : List Row} (h : DeltaF x t s0 store) (r0 : Row)
    (h0 : r0.revoked = false ∧ r0.created = keyTimestamp t x.pol.precision ∧
      (r0.kid = .sk ∨ (r0.kid = x.ikId ∧ ∃ p, r0.parent = some p ∧ NE x t p.created))) :
    DeltaF x t s0 (store ++ [r0]) := by
  intro r hr
  simp only [List.mem_append, List.mem_singleton] at hr
  rcases hr with hr | hr
  · exact h r hr
  · subst hr; exact Or.inr h0

/-- a whole function below the cache layer that does not write the metastore. -/
theorem A.resp {α : Type} {x : M α} {w : World} (h : A fl D t w) (h1 : Extends x) (h2 : Resp (TK fl) x)
    (h3 : Resp Q0 x) (h4 : Resp SS x) : A fl D t (x w).2 :=
  h.below (h1 w) (h2 w) (h3 w).caches (h4 w)

theorem A.of_fields {w w' : World} (h : A fl D t w) (hn : w'.now = w.now) (hk : w'.keys = w.keys)
    (hc : w'.caches = w.caches) (hj : J fl w') (hd : D w'.store) : A fl D t w' := by
  refine ⟨hn.trans h.now, hj, ?_, hd⟩
  intro c m e hm
  unfold entsOf cacheAt at hm
  rw [hc] at hm
  rw [hk]
  exact h.ents c m e hm

/-! ### metastore reads -/

theorem msLoadLatest_val (k : KeyId) (w : World) (o : Option Row) (h : (msLoadLatest k w).1 = .ok o) :
    o = latestRow w.store k := by
  unfold msLoadLatest at h
  simp only [bind_run] at h
  obtain ⟨f, hf⟩ := takeFault_ok w
  have hs := takeFault_store w
  cases hx : takeFault w with
  | mk r1 w1 =>
    rw [hx] at h hf hs
    simp only at hf hs
    subst hf
    simp only [get_run] at h
    by_cases hfo : f = .ok
    · subst hfo
      simp only [ne_eq, not_true_eq_false, if_false, logCall] at h
      cases h
      rw [hs]
    · simp only [ne_eq, hfo, not_false_eq_true, if_true, logCall] at h
      cases h

theorem msLoadLatest_f (k : KeyId) (w : World) (h : A fl D t w) :
    Wp (msLoadLatest k) w fun r w' => A fl D t w' ∧ w'.store = w.store ∧ ∀ o, r = .ok o → o = latestRow w.store k :=
  ⟨h.resp (msLoadLatest_ext k) (GenF.msLoadLatest k) (msLoadLatest_q0 k) (msLoadLatest_ss k), msLoadLatest_ss k w,
   fun o ho => msLoadLatest_val k w o ho⟩

theorem mustLoadLatest_f (k : KeyId) (w : World) (h : A fl D t w) :
    Wp (mustLoadLatest k) w fun r w' => A fl D t w' ∧ w'.store = w.store ∧
      ∀ r0, r = .ok r0 → latestRow w.store k = some r0 := by
  unfold mustLoadLatest
  apply Wp.bind
  apply Wp.mono (msLoadLatest_f k w h)
  intro r w1 ⟨h1, hs, hv⟩
  cases r with
  | error e => exact ⟨h1, hs, fun r0 h0 => by cases h0⟩
  | ok o =>
    have := hv o rfl
    subst this
    simp only []
    cases hlr : latestRow w.store k with
    | none => exact ⟨h1, hs, fun r0 h0 => by cases h0⟩
    | some r1 => exact ⟨h1, hs, fun r0 h0 => by cases h0; rfl⟩

/-! ### the metastore write -/

theorem bad_of_store {w w' : World} {c : Call} (hl : w'.log = w.log ++ [c]) (hc : isStore c = true)
    (ht : tok fl w.log.length ≠ .ok) : Bad fl w' :=
  ⟨w.log.length, c, by rw [hl]; simp, hc, ht⟩

/-- `tryStore` under faults. -/
theorem msStore_f (r0 : Row) (w : World) (h : A fl D t w) (hD : D (w.store ++ [r0])) :
    Wp (msStore r0) w fun r w' => Bad fl w' ∨ (A fl D t w' ∧
      ((r = .ok true ∧ w'.store = w.store ++ [r0]) ∨
       (r = .ok false ∧ w'.store = w.store ∧ (findRow w.store ⟨r0.kid, r0.created⟩).isSome = true))) := by
  unfold Wp msStore
  simp only [bind_run, takeFault_run h.tk, get_run]
  cases hf : tok fl w.log.length with
  | ok =>
    simp only []
    cases hex : (findRow w.store ⟨r0.kid, r0.created⟩).isSome with
    | true =>
      simp only [if_true, logCall]
      exact Or.inr ⟨h.of_fields rfl rfl rfl (J.logged rfl rfl) h.delta, Or.inr ⟨rfl, rfl, by first | rfl | trivial⟩⟩
    | false =>
      simp only [Bool.false_eq_true, if_false, logCall]
      exact Or.inr ⟨h.of_fields rfl rfl rfl (J.logged rfl rfl) hD, Or.inl ⟨rfl, rfl⟩⟩
  | err =>
    simp only [logCall]
    exact Or.inl (bad_of_store (w := w) rfl rfl (by rw [hf]; decide))
  | dup =>
    simp only [logCall]
    exact Or.inl (bad_of_store (w := w) rfl rfl (by rw [hf]; decide))
  | errw =>
    simp only []
    cases hex : (findRow w.store ⟨r0.kid, r0.created⟩).isSome <;>
      simp only [Bool.not_true, Bool.not_false, Bool.false_eq_true, if_true, if_false, logCall, modify_run, pure_run, bind_run] <;>
      exact Or.inl (bad_of_store (w := w) rfl rfl (by rw [hf]; decide))

/-! ### key constructors -/

theorem newKeyObj_kx (c : Int) (b : Bool) (m s : Nat) (w : World) :
    KX (fun cr => cr = c) (newKeyObj c b m s w).2 w.keys.length := by
  refine ⟨{ created := c, revoked := b, mat := m, sec := s }, ?_, rfl⟩
  show (w.keys ++ [_])[w.keys.length]? = _
  simp

theorem A.newKeyObj {w : World} (h : A fl D t w) (c : Int) (b : Bool) (m s : Nat) : A fl D t (newKeyObj c b m s w).2 :=
  h.below (newKeyObj_ext c b m s w) (f_newKeyObj (R := TK fl) c b m s w) rfl rfl

/-- `generateKey`: on success a fresh key stamped with the truncated clock. -/
theorem generateKey_f (x : Ctx) (w : World) (h : A fl D t w) :
    Wp (generateKey x) w fun r w' => A fl D t w' ∧ w'.store = w.store ∧
      ∀ k, r = .ok k → KX (fun cr => cr = keyTimestamp t x.pol.precision) w' k := by
  unfold generateKey
  apply Wp.bind; apply Wp.get; simp only []
  have h1 : A fl D t (secretRandom w).2 := h.resp secretRandom_ext GenF.secretRandom secretRandom_q0 secretRandom_ss
  have hs1 := secretRandom_ss w
  refine Wp.bind_world (fun e => ⟨h1, hs1, fun k hk => by cases hk⟩) (fun a => ?_)
  obtain ⟨s, m⟩ := a
  simp only []
  refine ⟨h1.newKeyObj _ _ _ _, hs1, fun k hk => ?_⟩
  cases hk
  rw [← h.now]
  exact newKeyObj_kx _ _ _ _ _

/-- `systemKeyFromEKR`: on success a fresh key carrying the row's stamp. -/
theorem systemKeyFromEKR_f (r0 : Row) (w : World) (h : A fl D t w) :
    Wp (systemKeyFromEKR r0) w fun r w' => A fl D t w' ∧ w'.store = w.store ∧
      ∀ k, r = .ok k → KX (fun cr => cr = r0.created) w' k := by
  unfold systemKeyFromEKR
  have h1 : A fl D t (kmsDecrypt r0.enc w).2 :=
    h.resp (kmsDecrypt_ext _) (GenF.kmsDecrypt _) (kmsDecrypt_q0 _) (kmsDecrypt_ss _)
  have hs1 := kmsDecrypt_ss r0.enc w
  refine Wp.bind_world (fun e => ⟨h1, hs1, fun k hk => by cases hk⟩) (fun a => ?_)
  obtain ⟨b, m⟩ := a
  simp only []
  have h2 : A fl D t (secretNew b m (kmsDecrypt r0.enc w).2).2 :=
    h1.resp (secretNew_ext _ _) (GenF.secretNew _ _) (secretNew_q0 _ _) (secretNew_ss _ _)
  have hs2 : (secretNew b m (kmsDecrypt r0.enc w).2).2.store = w.store := (secretNew_ss b m _).trans hs1
  refine Wp.bind_world (fun e => ⟨h2, hs2, fun k hk => by cases hk⟩) (fun s => ?_)
  refine ⟨h2.newKeyObj _ _ _ _, hs2, fun k hk => ?_⟩
  cases hk
  exact newKeyObj_kx _ _ _ _ _

/-! ### system keys -/

/-- `tryStoreSystemKey` for a key stamped with the truncated clock. -/
theorem tryStoreSystemKey_f {x : Ctx} {s0 : List Row} (sk : Nat) (w : World) (h : A fl (DeltaF x t s0) t w)
    (hc : (keyAt w sk).created = keyTimestamp t x.pol.precision) :
    Wp (tryStoreSystemKey sk) w fun r w' => Bad fl w' ∨ (A fl (DeltaF x t s0) t w' ∧
      (r = .ok false → ∃ r1 ∈ w'.store, r1.kid = .sk ∧ r1.created = keyTimestamp t x.pol.precision)) := by
  unfold tryStoreSystemKey
  apply Wp.bind; apply Wp.keyObj; simp only []
  have h1 : A fl (DeltaF x t s0) t (withKey sk (fun m => kmsEncrypt m) w).2 :=
    h.resp (withKey_ext _ _ fun m => kmsEncrypt_ext m) (f_withKey _ _ fun m => GenF.kmsEncrypt m)
      (withKey_q0 _ _ fun m => kmsEncrypt_q0 m) (withKey_ss _ _ fun m => kmsEncrypt_ss m)
  refine Wp.bind_world (fun e => Or.inr ⟨h1, fun hh => by cases hh⟩) (fun enc => ?_)
  generalize (withKey sk (fun m => kmsEncrypt m) w).2 = w1 at h1 ⊢
  apply Wp.mono (msStore_f _ w1 h1 (h1.delta.add _ ⟨rfl, hc, Or.inl rfl⟩))
  intro r w2 hcase
  rcases hcase with hb | ⟨h2, hcase⟩
  · exact Or.inl hb
  · refine Or.inr ⟨h2, fun hr => ?_⟩
    rcases hcase with ⟨hr', -⟩ | ⟨-, hst, hsome⟩
    · rw [hr] at hr'; cases hr'
    · cases hfr : findRow w1.store ⟨.sk, (keyAt w sk).created⟩ with
      | none => rw [hfr] at hsome; cases hsome
      | some r1 =>
        obtain ⟨hm, hk, hcr⟩ := findRow_some hfr
        exact ⟨r1, by rw [hst]; exact hm, hk, hcr.trans hc⟩

/-- `createSK`: the new key if the metastore took it, else the latest stored system key — whose stamp is
then at least the stamp the new key would have had; either way not expired. -/
theorem createSK_f {x : Ctx} {s0 : List Row} (w : World) (h : A fl (DeltaF x t s0) t w) :
    Wp (loadLatestOrCreateSystemKey.createSK x) w fun r w' => Bad fl w' ∨ (A fl (DeltaF x t s0) t w' ∧
      ∀ k, r = .ok k → KX (NE x t) w' k) := by
  unfold loadLatestOrCreateSystemKey.createSK
  apply Wp.bind
  apply Wp.mono (generateKey_f x w h)
  rintro r w1 ⟨h1, -, hn1⟩
  cases r with
  | error e => exact Or.inr ⟨h1, fun k hk => by cases hk⟩
  | ok sk =>
    simp only []
    have hn := hn1 sk rfl
    refine Wp.bindB (R := fun r w2 => ∃ r', r = .ok r' ∧ A fl (DeltaF x t s0) t w2 ∧ Ext w1 w2 ∧
        (r' = .ok false → ∃ r1 ∈ w2.store, r1.kid = .sk ∧ r1.created = keyTimestamp t x.pol.precision))
      ?_ (badQ_base _) (by lg_auto) ?_
    · apply Wp.tryM
      apply Wp.mono (Wp.and_ext (tryStoreSystemKey_ext sk) (tryStoreSystemKey_f sk w1 h1 hn.stamp))
      intro r w2 ⟨hcase, hext⟩
      rcases hcase with hbad | ⟨h2, hf⟩
      · exact Or.inl hbad
      · exact Or.inr ⟨r, rfl, h2, hext, hf⟩
    · intro r w2 ⟨r', hr', h2, hext2, hfalse⟩
      subst hr'
      simp only []
      cases r' with
        | error e =>
          simp only []
          refine Wp.bind_unit (keyCloseRaw_ok sk w2) ?_
          exact Or.inr ⟨h2.keyCloseRaw sk, fun k hk => by cases hk⟩
        | ok b =>
          cases b with
          | true =>
            simp only []
            refine Or.inr ⟨h2, fun k hk => ?_⟩
            cases hk
            exact (hn.ext hext2).mono (fun c hc => by rw [hc]; exact fun hb => hb t)
          | false =>
            simp only []
            obtain ⟨r1, hr1, hk1, hc1⟩ := hfalse rfl
            refine Wp.bind_unit (keyCloseRaw_ok sk w2) ?_
            have h3 := h2.keyCloseRaw sk
            have hr1' : r1 ∈ (keyCloseRaw sk w2).2.store := by rw [keyCloseRaw_ss sk w2]; exact hr1
            generalize (keyCloseRaw sk w2).2 = w3 at h3 hr1' ⊢
            apply Wp.bind
            apply Wp.mono (mustLoadLatest_f .sk w3 h3)
            intro r w4 ⟨h4, hs4, hlat⟩
            cases r with
            | error e => exact Or.inr ⟨h4, fun k hk => by cases hk⟩
            | ok r0 =>
              simp only []
              obtain ⟨-, -, hmax⟩ := latestRow_some (hlat r0 rfl)
              apply Wp.mono (systemKeyFromEKR_f r0 w4 h4)
              rintro r w5 ⟨h5, -, hn5⟩
              refine Or.inr ⟨h5, fun k hk => (hn5 k hk).mono (fun c hc => ?_)⟩
              rw [hc]
              exact fun hb => isExpired_mono (by rw [← hc1]; exact hmax r1 hr1' hk1) (hb t)

/-- the system-key loader under faults. -/
theorem loadLatestOrCreateSystemKey_f {x : Ctx} {s0 : List Row} :
    LoaderF fl (DeltaF x t s0) t (NE x t) (fun _ => loadLatestOrCreateSystemKey x) ⟨.sk, 0⟩ := by
  intro w h
  show Wp (loadLatestOrCreateSystemKey x) w _
  unfold loadLatestOrCreateSystemKey
  apply Wp.bind
  apply Wp.mono (msLoadLatest_f .sk w h)
  intro r w1 ⟨h1, hs1, hv⟩
  cases r with
  | error e => exact Or.inr ⟨h1, fun k hk => by cases hk⟩
  | ok o =>
    have := hv o rfl
    subst this
    simp only []
    apply Wp.bind; apply Wp.get; simp only []
    cases hlr : latestRow w.store .sk with
    | none => simp only []; exact createSK_f w1 h1
    | some r0 =>
      simp only []
      split
      · rename_i hvalid
        apply Wp.mono (systemKeyFromEKR_f r0 w1 h1)
        rintro r w2 ⟨h2, -, hn⟩
        refine Or.inr ⟨h2, fun k hk => (hn k hk).mono (fun c hc => ?_)⟩
        rw [hc]
        unfold isEnvelopeInvalid at hvalid
        rw [h1.now] at hvalid
        intro _
        cases h1' : isExpired t r0.created x.pol.expireAfter
        · rfl
        · rw [h1'] at hvalid; simp at hvalid
      · exact createSK_f w1 h1

end AsherahVerif.Env.TimeF
