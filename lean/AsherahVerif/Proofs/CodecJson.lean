import AsherahVerif.Proofs.CodecNum
import AsherahVerif.Proofs.CodecStr
/-
JSON: `parseJson (print v) = some v` for EVERY value of the JSON type (any nesting, any strings,
any integers) — the string-level round trip behind `decodeDRR (encodeDRR r) = some r`.
-/
namespace AsherahVerif.Codec

/-! fuel the parser needs for a printed value (sum-shaped, so that `omega` can handle it). -/
mutual
def need : JV → Nat
  | .arr (v :: t) => 1 + need v + needTail t
  | .obj ((_, v) :: t) => 2 + need v + needTailM t
  | _ => 1
def needTail : List JV → Nat
  | [] => 1
  | v :: t => 1 + need v + needTail t
def needTailM : List (Str × JV) → Nat
  | [] => 1
  | (_, v) :: t => 2 + need v + needTailM t
end

/-! ### first characters -/

/-- a character that can start a printed value: not white space, not a closing bracket / comma. -/
abbrev startOk (c : Char) : Prop := isWs c = false ∧ c ≠ ']' ∧ c ≠ '}' ∧ c ≠ ',' ∧ c ≠ ':'

theorem digit_start (c : Char) (h : isDigit c = true ∨ c = '-') :
    startOk c ∧ c ≠ '"' ∧ c ≠ '[' ∧ c ≠ '{' ∧ c ≠ 'n' ∧ c ≠ 't' ∧ c ≠ 'f' := by
  rcases h with h | h
  · have hr : 48 ≤ c.toNat ∧ c.toNat ≤ 57 := by
      simp [isDigit] at h; exact h
    have ne : ∀ d : Char, (d.toNat < 48 ∨ 57 < d.toNat) → c ≠ d := by
      intro d hd hcd; subst hcd; omega
    refine ⟨⟨?_, ne _ (by decide), ne _ (by decide), ne _ (by decide), ne _ (by decide)⟩, ne _ (by decide), ne _ (by decide),
      ne _ (by decide), ne _ (by decide), ne _ (by decide), ne _ (by decide)⟩
    simp only [isWs, Bool.or_eq_false_iff, decide_eq_false_iff_not]
    exact ⟨⟨⟨ne _ (by decide), ne _ (by decide)⟩, ne _ (by decide)⟩, ne _ (by decide)⟩
  · subst h; decide

theorem intDigits_head (i : Int) : ∃ c r, intDigits i = c :: r ∧ (isDigit c = true ∨ c = '-') := by
  unfold intDigits
  split
  · exact ⟨'-', _, rfl, Or.inr rfl⟩
  · obtain ⟨h1, h2, _⟩ := natDigits_spec i.toNat
    cases hnd : natDigits i.toNat with
    | nil => exact absurd hnd h1
    | cons a t => exact ⟨a, t, rfl, Or.inl (h2 a (by rw [hnd]; simp))⟩

theorem print_head (v : JV) : ∃ c r, v.print = c :: r ∧ startOk c := by
  cases v with
  | null => exact ⟨'n', _, rfl, by decide⟩
  | bool b =>
    cases b with
    | false => exact ⟨'f', _, rfl, by decide⟩
    | true => exact ⟨'t', _, rfl, by decide⟩
  | num i =>
    obtain ⟨c, r, h, hc⟩ := intDigits_head i
    exact ⟨c, r, by simp [JV.print, h], (digit_start c hc).1⟩
  | str s => exact ⟨'"', _, rfl, by decide⟩
  | arr xs =>
    cases xs with
    | nil => exact ⟨'[', _, rfl, by decide⟩
    | cons v t => exact ⟨'[', _, rfl, by decide⟩
  | obj kvs =>
    cases kvs with
    | nil => exact ⟨'{', _, rfl, by decide⟩
    | cons kv t => obtain ⟨k, v⟩ := kv; exact ⟨'{', _, rfl, by decide⟩

theorem skipWs_cons (c : Char) (r : Str) (h : isWs c = false) : skipWs (c :: r) = c :: r := by
  simp [skipWs, h]

theorem numEnd_of_head (c : Char) (r : Str) (h : isDigit c = false ∧ c ≠ '.' ∧ c ≠ 'e' ∧ c ≠ 'E') : numEnd (c :: r) := by
  intro c' r' heq
  injection heq with h1 _
  subst h1; exact h

theorem numEnd_tailElems (t : List JV) (rest : Str) : numEnd (printTailElems t ++ rest) := by
  cases t with
  | nil => exact numEnd_of_head ']' _ (by decide)
  | cons v t => exact numEnd_of_head ',' _ (by decide)

theorem numEnd_tailMembers (t : List (Str × JV)) (rest : Str) : numEnd (printTailMembers t ++ rest) := by
  cases t with
  | nil => exact numEnd_of_head '}' _ (by decide)
  | cons kv t => obtain ⟨k, v⟩ := kv; exact numEnd_of_head ',' _ (by decide)

theorem numEnd_nil : numEnd [] := by intro c r h; cases h

/-! ### one lemma per production -/

theorem pv_null (f : Nat) (rest : Str) : parseValue (f + 1) ('n' :: 'u' :: 'l' :: 'l' :: rest) = some (.null, rest) := by
  rw [parseValue.eq_def]; simp [skipWs, isWs]

theorem pv_true (f : Nat) (rest : Str) : parseValue (f + 1) ('t' :: 'r' :: 'u' :: 'e' :: rest) = some (.bool true, rest) := by
  rw [parseValue.eq_def]; simp [skipWs, isWs]

theorem pv_false (f : Nat) (rest : Str) :
    parseValue (f + 1) ('f' :: 'a' :: 'l' :: 's' :: 'e' :: rest) = some (.bool false, rest) := by
  rw [parseValue.eq_def]; simp [skipWs, isWs]

theorem pv_str (f : Nat) (s rest : Str) : parseValue (f + 1) (quote s ++ rest) = some (.str s, rest) := by
  rw [parseValue.eq_def]
  simp only [quote, List.cons_append]
  rw [skipWs_cons _ _ (by decide)]
  simp only [if_true, parseStrBody_quote]

theorem pv_num (f : Nat) (i : Int) (rest : Str) (hr : numEnd rest) :
    parseValue (f + 1) (intDigits i ++ rest) = some (.num i, rest) := by
  obtain ⟨c, r, h, hc⟩ := intDigits_head i
  obtain ⟨⟨hws, _⟩, h1, h2, h3, h4, h5, h6⟩ := digit_start c hc
  have hp := parseNum_intDigits i rest hr
  rw [h] at hp ⊢
  rw [parseValue.eq_def]
  simp only [List.cons_append] at hp ⊢
  rw [skipWs_cons _ _ hws]
  simp only [h1, h2, h3, h4, h5, h6, if_false, hp]

theorem pv_arr_nil (f : Nat) (rest : Str) : parseValue (f + 1) ('[' :: ']' :: rest) = some (.arr [], rest) := by
  rw [parseValue.eq_def]; simp [skipWs, isWs]

theorem pv_obj_nil (f : Nat) (rest : Str) : parseValue (f + 1) ('{' :: '}' :: rest) = some (.obj [], rest) := by
  rw [parseValue.eq_def]; simp [skipWs, isWs]

/-- array with a first element: reduce to the element and the tail. -/
theorem pv_arr_cons (f : Nat) (c : Char) (r : Str) (hc : startOk c) (v : JV) (r3 : Str) (vs : List JV) (r4 : Str)
    (hv : parseValue f (c :: r) = some (v, r3)) (ht : parseTailElems f r3 = some (vs, r4)) :
    parseValue (f + 1) ('[' :: c :: r) = some (.arr (v :: vs), r4) := by
  rw [parseValue.eq_def]
  simp only
  rw [skipWs_cons _ _ (by decide)]
  have h1 : ¬ ('[' = '"') := by decide
  simp only [h1, if_false, if_true]
  rw [skipWs_cons _ _ hc.1]
  simp only [hc.2.1, if_false, hv, ht]

theorem pte_end (f : Nat) (rest : Str) : parseTailElems (f + 1) (']' :: rest) = some ([], rest) := by
  rw [parseTailElems.eq_def]; simp [skipWs, isWs]

theorem pte_cons (f : Nat) (r : Str) (v : JV) (r2 : Str) (vs : List JV) (r3 : Str)
    (hv : parseValue f r = some (v, r2)) (ht : parseTailElems f r2 = some (vs, r3)) :
    parseTailElems (f + 1) (',' :: r) = some (v :: vs, r3) := by
  rw [parseTailElems.eq_def]
  simp only
  rw [skipWs_cons _ _ (by decide)]
  have h1 : ¬ (',' = ']') := by decide
  simp only [h1, if_false, if_true, hv, ht]

theorem ptm_end (f : Nat) (rest : Str) : parseTailMembers (f + 1) ('}' :: rest) = some ([], rest) := by
  rw [parseTailMembers.eq_def]; simp [skipWs, isWs]

theorem ptm_cons (f : Nat) (r : Str) (kv : Str × JV) (r2 : Str) (kvs : List (Str × JV)) (r3 : Str)
    (hm : parseMember f r = some (kv, r2)) (ht : parseTailMembers f r2 = some (kvs, r3)) :
    parseTailMembers (f + 1) (',' :: r) = some (kv :: kvs, r3) := by
  rw [parseTailMembers.eq_def]
  simp only
  rw [skipWs_cons _ _ (by decide)]
  have h1 : ¬ (',' = '}') := by decide
  simp only [h1, if_false, if_true, hm, ht]

/-- `"k":` then a value. -/
theorem pm_quote (f : Nat) (k r : Str) (v : JV) (r3 : Str) (hv : parseValue f r = some (v, r3)) :
    parseMember (f + 1) (quote k ++ ':' :: r) = some ((k, v), r3) := by
  rw [parseMember.eq_def]
  simp only [quote, List.cons_append]
  rw [skipWs_cons _ _ (by decide)]
  simp only [if_true, parseStrBody_quote]
  rw [skipWs_cons _ _ (by decide)]
  simp only [if_true, hv]

theorem pv_obj_cons (f : Nat) (k r : Str) (kv : Str × JV) (r3 : Str) (kvs : List (Str × JV)) (r4 : Str)
    (hm : parseMember f (quote k ++ r) = some (kv, r3)) (ht : parseTailMembers f r3 = some (kvs, r4)) :
    parseValue (f + 1) ('{' :: (quote k ++ r)) = some (.obj (kv :: kvs), r4) := by
  rw [parseValue.eq_def]
  simp only [quote, List.cons_append] at hm ⊢
  rw [skipWs_cons _ _ (by decide)]
  have h1 : ¬ ('{' = '"') := by decide
  have h2 : ¬ ('{' = '[') := by decide
  simp only [h1, h2, if_false, if_true]
  rw [skipWs_cons _ _ (by decide)]
  have h3 : ¬ ('"' = '}') := by decide
  simp only [h3, if_false, hm, ht]

/-! ### the round trip -/

mutual
theorem parseValue_print : ∀ (v : JV) (f : Nat) (rest : Str), need v ≤ f → numEnd rest →
    parseValue f (v.print ++ rest) = some (v, rest)
  | .null, f, rest, hf, _ => by
    cases f with
    | zero => simp [need] at hf
    | succ f => simpa [JV.print] using pv_null f rest
  | .bool true, f, rest, hf, _ => by
    cases f with
    | zero => simp [need] at hf
    | succ f => simpa [JV.print] using pv_true f rest
  | .bool false, f, rest, hf, _ => by
    cases f with
    | zero => simp [need] at hf
    | succ f => simpa [JV.print] using pv_false f rest
  | .num i, f, rest, hf, hr => by
    cases f with
    | zero => simp [need] at hf
    | succ f => simpa [JV.print] using pv_num f i rest hr
  | .str s, f, rest, hf, _ => by
    cases f with
    | zero => simp [need] at hf
    | succ f => simpa [JV.print] using pv_str f s rest
  | .arr [], f, rest, hf, _ => by
    cases f with
    | zero => simp [need] at hf
    | succ f => simpa [JV.print] using pv_arr_nil f rest
  | .arr (v :: t), f, rest, hf, _ => by
    cases f with
    | zero => simp [need] at hf
    | succ f =>
      simp only [need] at hf
      obtain ⟨c, r, hp, hc⟩ := print_head v
      have hv := parseValue_print v f (printTailElems t ++ rest) (by omega) (numEnd_tailElems t rest)
      have ht := parseTailElems_print t f rest (by omega)
      simp only [JV.print, List.cons_append, List.append_assoc]
      rw [hp] at hv ⊢
      simp only [List.cons_append] at hv ⊢
      exact pv_arr_cons f c _ hc _ _ _ _ hv ht
  | .obj [], f, rest, hf, _ => by
    cases f with
    | zero => simp [need] at hf
    | succ f => simpa [JV.print] using pv_obj_nil f rest
  | .obj ((k, v) :: t), f, rest, hf, _ => by
    cases f with
    | zero => simp [need] at hf
    | succ f =>
      simp only [need] at hf
      cases f with
      | zero => omega
      | succ f =>
        have hv := parseValue_print v f (printTailMembers t ++ rest) (by omega) (numEnd_tailMembers t rest)
        have ht := parseTailMembers_print t (f + 1) rest (by omega)
        simp only [JV.print, List.cons_append, List.append_assoc]
        exact pv_obj_cons (f + 1) k _ _ _ _ _ (pm_quote f k _ _ _ hv) ht
theorem parseTailElems_print : ∀ (t : List JV) (f : Nat) (rest : Str), needTail t ≤ f →
    parseTailElems f (printTailElems t ++ rest) = some (t, rest)
  | [], f, rest, hf => by
    cases f with
    | zero => simp [needTail] at hf
    | succ f => simpa [printTailElems] using pte_end f rest
  | v :: t, f, rest, hf => by
    cases f with
    | zero => simp [needTail] at hf
    | succ f =>
      simp only [needTail] at hf
      have hv := parseValue_print v f (printTailElems t ++ rest) (by omega) (numEnd_tailElems t rest)
      have ht := parseTailElems_print t f rest (by omega)
      simp only [printTailElems, List.cons_append, List.append_assoc]
      exact pte_cons f _ _ _ _ _ hv ht
theorem parseTailMembers_print : ∀ (t : List (Str × JV)) (f : Nat) (rest : Str), needTailM t ≤ f →
    parseTailMembers f (printTailMembers t ++ rest) = some (t, rest)
  | [], f, rest, hf => by
    cases f with
    | zero => simp [needTailM] at hf
    | succ f => simpa [printTailMembers] using ptm_end f rest
  | (k, v) :: t, f, rest, hf => by
    cases f with
    | zero => simp [needTailM] at hf
    | succ f =>
      simp only [needTailM] at hf
      cases f with
      | zero => omega
      | succ f =>
        have hv := parseValue_print v f (printTailMembers t ++ rest) (by omega) (numEnd_tailMembers t rest)
        have ht := parseTailMembers_print t (f + 1) rest (by omega)
        simp only [printTailMembers, List.cons_append, List.append_assoc]
        exact ptm_cons (f + 1) _ _ _ _ _ (pm_quote f k _ _ _ hv) ht
end

/-! ### enough fuel -/

theorem escBody_length_pos (s : Str) : 1 ≤ (escBody s).length := by
  induction s with
  | nil => simp [escBody]
  | cons c r ih => simp [escBody]; omega

mutual
theorem need_le_print : ∀ v : JV, need v ≤ v.print.length
  | .null => by simp [need, JV.print]
  | .bool true => by simp [need, JV.print]
  | .bool false => by simp [need, JV.print]
  | .num i => by
    obtain ⟨c, r, h, _⟩ := intDigits_head i
    simp [need, JV.print, h]
  | .str s => by simp [need, JV.print, quote]
  | .arr [] => by simp [need, JV.print]
  | .arr (v :: t) => by
    have := need_le_print v; have := needTail_le_print t
    simp [need, JV.print]; omega
  | .obj [] => by simp [need, JV.print]
  | .obj ((k, v) :: t) => by
    have := need_le_print v; have := needTailM_le_print t
    have := escBody_length_pos k
    simp [need, JV.print, quote]; omega
theorem needTail_le_print : ∀ t : List JV, needTail t ≤ (printTailElems t).length
  | [] => by simp [needTail, printTailElems]
  | v :: t => by
    have := need_le_print v; have := needTail_le_print t
    simp [needTail, printTailElems]; omega
theorem needTailM_le_print : ∀ t : List (Str × JV), needTailM t ≤ (printTailMembers t).length
  | [] => by simp [needTailM, printTailMembers]
  | (k, v) :: t => by
    have := need_le_print v; have := needTailM_le_print t
    have := escBody_length_pos k
    simp [needTailM, printTailMembers, quote]; omega
end

/-- **JSON round trip**, for every value. -/
theorem parseJson_print (v : JV) : parseJson v.print = some v := by
  unfold parseJson
  have h := parseValue_print v (v.print.length + 1) [] (by have := need_le_print v; omega) numEnd_nil
  rw [List.append_nil] at h
  rw [h]
  simp [skipWs]

end AsherahVerif.Codec
