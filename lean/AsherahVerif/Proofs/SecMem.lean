import AsherahVerif.Proofs.SecMemSimp
/-
Helper lemmas about the sequential model of Model/SecMem.lean, for ALL fault lists.

Technique: every operation issues a bounded number of primitive calls, each of which looks at the
head of the fault oracle.  `oracle_step` consumes one answer: it splits the oracle into `[]`
(every remaining call succeeds), `false :: fl` and `true :: fl`, simplifies with the `secmem` simp set
(one call of `Run.call` evaluates) and generalises over the rest of the oracle again.  Iterating it
walks every path of the operation — linearly many goals, since a failure path ends quickly.  The
properties are Bool-valued checkers over the operation's output (one copy of the term to evaluate);
their meaning is unfolded once, independently of the paths.
-/
namespace AsherahVerif.SecMem

attribute [secmem] Run.call Run.copyIn Run.clean Run.wipeIf Run.wipe failOut okOut Page.writable Page.readable
  applyPrim failPrim Prim.alwaysFails Page.absent mkSec

attribute [secmemchk] anyFailed cleanupFailed releasesClean wipeBeforeRelease Content.isSecret inuseDelta allocDelta
  Page.writable Page.readable

macro "oracle_step" : tactic => `(tactic|
  (intro fl; rcases fl with _ | ⟨_ | _, fl⟩ <;> (try simp only [secmem, List.headD_cons, List.headD_nil, List.tail_cons,
      List.tail_nil, Bool.not_true, Bool.not_false, Bool.and_true, Bool.true_and, Bool.and_false, Bool.false_and,
      if_true, if_false, Bool.false_eq_true, List.nil_append, List.cons_append, List.append_assoc, Prod.fst, Prod.snd]) <;>
    (try revert fl)))

/-- walk all paths of an operation with at most 14 primitive calls, then evaluate the checkers. -/
macro "oracle_walk" : tactic => `(tactic| (iterate 14 (all_goals (try oracle_step))) <;> (try simp [secmemchk]))

/-! ### the resting state of a live secret -/

/-- mapped, locked, excluded from dumps, PROT_NONE, holding the bytes it was created with, no
readers, not closing. -/
def Sec.idle (s : Sec) : Bool :=
  !s.closing && !s.closed && s.counter == 0 && s.page.mapped && s.page.locked && s.page.dontdump &&
  s.page.prot == .none && s.page.content == s.born && s.born.isSecret

/-! ### creation: Bool checkers evaluated on every path -/

/-- what every creation guarantees, whatever the code-shape flags and the faults:
a failed primitive ⇒ not ok; never a crash / deadlock; ok ⇒ an idle secret on exactly that page and
no primitive failed; not ok ⇒ no secret; the counters move iff ok. -/
def createSoundB (o : CreateOut) : Bool :=
  (!anyFailed o.evs || o.res != .ok) &&
  (o.res != .crash && !o.crashed && o.res != .deadlock && o.res != .closedErr) &&
  (o.res != .ok || (match o.sec with
                    | some s => s.idle && o.page == s.page && !anyFailed o.evs
                    | none => false)) &&
  (o.res == .ok || o.sec.isNone) &&
  (inuseDelta o.evs == if o.res == .ok then 1 else 0) &&
  (allocDelta o.evs == if o.res == .ok then 1 else 0)

/-- an ERROR return (not a library panic) leaves the page it touched unmapped or without secret
bytes, and unmapped + unlocked whenever no cleanup primitive (Unlock / Free) itself failed. -/
def leavesNoSecretB (o : CreateOut) : Bool :=
  o.res != .err ||
  ((!o.page.mapped || !o.page.content.isSecret) &&
   (cleanupFailed o.evs || (!o.page.mapped && !o.page.locked)))

/-- the part of it that holds without the repair: nothing stays mapped or locked when the cleanup
primitives did not fail. -/
def leavesNothingMappedB (o : CreateOut) : Bool :=
  o.res != .err || cleanupFailed o.evs || (!o.page.mapped && !o.page.locked)

/-- in the trace, the Wipe of the page precedes its Unlock / Free; and no Unlock / Free is issued
on a page holding secret bytes. -/
def wipeOkB (evs : List Ev) : Bool := wipeBeforeRelease false evs && releasesClean evs

/-- a creation error always reports an error (never a panic): protectedmemory only. -/
def errorNotPanicB (o : CreateOut) : Bool := !anyFailed o.evs || o.res == .err

attribute [secmemchk] createSoundB leavesNoSecretB leavesNothingMappedB wipeOkB errorNotPanicB Sec.idle

/-- everything checked of a protectedmemory creation; `wiped` = the failure paths wipe first. -/
def pmChk (wiped : Bool) (o : CreateOut) : Bool :=
  createSoundB o && leavesNothingMappedB o && errorNotPanicB o && (!wiped || (leavesNoSecretB o && wipeOkB o.evs))

attribute [secmemchk] pmChk

theorem pmNew_checks (cfg : Cfg) (id len : Nat) : ∀ fl,
    pmChk cfg.wipeOnNewProtectFail (pmNew cfg id len fl) = true := by
  obtain ⟨c1, c2, c3, c4, c5⟩ := cfg
  unfold pmNew pmNewSecret
  by_cases hl : len < 1 <;> cases c1 <;> cases c2 <;> simp only [hl, if_false, if_true] <;>
  oracle_walk

end AsherahVerif.SecMem
