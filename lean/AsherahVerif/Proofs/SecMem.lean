import AsherahVerif.Proofs.SecMemSimp
/-
Helper lemmas about the sequential model of Model/SecMem.lean, for ALL fault lists.

Technique: every operation issues a bounded number of primitive calls, each of which looks at the
head of the fault oracle.  `oracle_step` consumes one answer: it splits the oracle into `[]`
(every remaining call succeeds), `false :: fl` and `true :: fl`, simplifies with the `secmem` simp set
(one call of `Run.call` evaluates) and generalises over the rest of the oracle again.  Iterating it
walks every path of the operation — linearly many goals, since a failure path ends quickly.  The
properties are Bool-valued checkers over the operation's output (one copy of the term to evaluate);
their meaning is unfolded once, independently of the paths.
-/
namespace AsherahVerif.SecMem

attribute [secmem] Run.call Run.copyIn Run.clean Run.wipeIf Run.wipe failOut okOut Page.writable Page.readable
  applyPrim failPrim Prim.alwaysFails Page.absent mkSec

attribute [secmemchk] anyFailed cleanupFailed releasesClean wipeBeforeRelease Content.isSecret inuseDelta allocDelta
  Page.writable Page.readable

/-- the outputs without the unconsumed rest of the oracle (the checkers never look at it; dropping it
makes a fully evaluated path independent of the oracle, which is how `oracle_step` knows it is done). -/
def CreateOut.norest (o : CreateOut) : CreateOut := { o with rest := [] }
def StepOut.norest (o : StepOut) : StepOut := { o with rest := [] }
def WithOut.norest (o : WithOut) : WithOut := { o with rest := [] }

attribute [secmem] CreateOut.norest StepOut.norest WithOut.norest

macro "oracle_eval" : tactic => `(tactic| simp [secmem])

/-- consume one oracle answer; a path that no longer depends on the oracle is finished: evaluate the
checkers on it and stop. -/
macro "oracle_step" : tactic => `(tactic|
  first
  | (intro fl; clear fl; (try simp [secmem, secmemchk]))
  | (intro fl; rcases fl with _ | ⟨_ | _, fl⟩ <;> (try oracle_eval) <;> (try revert fl)))

/-- walk all paths of an operation with at most 14 primitive calls. -/
macro "oracle_walk" : tactic => `(tactic| (iterate 14 (all_goals (try oracle_step))) <;> (try simp [secmem, secmemchk]))

/-! ### the resting state of a live secret -/

/-- mapped, locked, excluded from dumps, PROT_NONE, holding the bytes it was created with, no
readers, not closing. -/
def Sec.idle (s : Sec) : Bool :=
  !s.closing && !s.closed && s.counter == 0 && s.page.mapped && s.page.locked && s.page.dontdump &&
  s.page.prot == .none && s.page.content == s.born && s.born.isSecret

/-! ### creation: Bool checkers evaluated on every path -/

/-- what every creation guarantees, whatever the code-shape flags and the faults:
a failed primitive ⇒ not ok; never a crash / deadlock; ok ⇒ an idle secret on exactly that page and
no primitive failed; not ok ⇒ no secret; the counters move iff ok. -/
def createSoundB (o : CreateOut) : Bool :=
  (!anyFailed o.evs || o.res != .ok) &&
  (o.res != .crash && !o.crashed && o.res != .deadlock && o.res != .closedErr) &&
  (o.res != .ok || (match o.sec with
                    | some s => s.idle && o.page == s.page && !anyFailed o.evs
                    | none => false)) &&
  (o.res == .ok || o.sec.isNone) &&
  (inuseDelta o.evs == if o.res == .ok then 1 else 0) &&
  (allocDelta o.evs == if o.res == .ok then 1 else 0)

/-- an ERROR return (not a library panic) leaves the page it touched unmapped or without secret
bytes, and unmapped + unlocked whenever no cleanup primitive (Unlock / Free) itself failed. -/
def leavesNoSecretB (o : CreateOut) : Bool :=
  o.res != .err ||
  ((!o.page.mapped || !o.page.content.isSecret) &&
   (cleanupFailed o.evs || (!o.page.mapped && !o.page.locked)))

/-- the part of it that holds without the repair: nothing stays mapped or locked when the cleanup
primitives did not fail. -/
def leavesNothingMappedB (o : CreateOut) : Bool :=
  o.res != .err || cleanupFailed o.evs || (!o.page.mapped && !o.page.locked)

/-- in the trace, the Wipe of the page precedes its Unlock / Free; and no Unlock / Free is issued
on a page holding secret bytes. -/
def wipeOkB (evs : List Ev) : Bool := wipeBeforeRelease false evs && releasesClean evs

/-- a creation error always reports an error (never a panic): protectedmemory only. -/
def errorNotPanicB (o : CreateOut) : Bool := !anyFailed o.evs || o.res == .err

attribute [secmemchk] createSoundB leavesNoSecretB leavesNothingMappedB wipeOkB errorNotPanicB Sec.idle

/-- everything checked of a protectedmemory creation; `wiped` = the failure paths wipe first. -/
def pmChk (wiped : Bool) (o : CreateOut) : Bool :=
  createSoundB o && leavesNothingMappedB o && errorNotPanicB o && (!wiped || (leavesNoSecretB o && wipeOkB o.evs))

attribute [secmemchk] pmChk

theorem pmNew_checks (cfg : Cfg) (id len : Nat) : ∀ fl,
    pmChk cfg.wipeOnNewProtectFail (pmNew cfg id len fl).norest = true := by
  obtain ⟨c1, c2, c3, c4, c5⟩ := cfg
  unfold pmNew pmNewSecret
  by_cases hl : len < 1 <;> cases c1 <;> cases c2 <;> simp only [hl, if_false, if_true] <;>
  oracle_walk

/-- C10's share: `New` wipes its argument on every path iff the early-failure wipe is there. -/
theorem pmNew_srcWiped (cfg : Cfg) (id len : Nat) (h : cfg.wipeArgOnNewFail = true) : ∀ fl,
    (pmNew cfg id len fl).norest.srcWiped = true := by
  obtain ⟨c1, c2, c3, c4, c5⟩ := cfg
  simp only at h; subst h
  unfold pmNew pmNewSecret
  by_cases hl : len < 1 <;> cases c2 <;> simp only [hl, if_false, if_true] <;>
  oracle_walk

theorem pmRand_checks (cfg : Cfg) (id len : Nat) : ∀ fl,
    pmChk (cfg.wipeOnRandFail && cfg.wipeOnRandProtectFail) (pmRand cfg id len fl).norest = true := by
  obtain ⟨c1, c2, c3, c4, c5⟩ := cfg
  unfold pmRand pmNewSecret
  by_cases hl : len < 1 <;> cases c3 <;> cases c4 <;> simp only [hl, if_false, if_true] <;>
  oracle_walk

/-- everything checked of a memguard creation (a library failure is a panic, so no `errorNotPanicB`). -/
def mgChk (wiped : Bool) (o : CreateOut) : Bool :=
  createSoundB o && (!wiped || (leavesNoSecretB o && wipeOkB o.evs))

attribute [secmemchk] mgChk

theorem mgNew_checks (cfg : Cfg) (id len : Nat) : ∀ fl,
    mgChk cfg.mgWipeOnProtectFail (mgNew cfg id len fl).norest = true := by
  obtain ⟨c1, c2, c3, c4, c5⟩ := cfg
  unfold mgNew mgNewBuffer mgFromBuffer
  by_cases hl : len < 1 <;> cases c5 <;> simp only [hl, if_false, if_true] <;>
  oracle_walk

theorem mgRand_checks (cfg : Cfg) (id len : Nat) : ∀ fl,
    mgChk cfg.mgWipeOnProtectFail (mgRand cfg id len fl).norest = true := by
  obtain ⟨c1, c2, c3, c4, c5⟩ := cfg
  unfold mgRand mgNewBuffer mgFromBuffer
  by_cases hl : len < 1 <;> cases c5 <;> simp only [hl, if_false, if_true] <;>
  oracle_walk

/-! ### access / release / close: exact case tables (for every fault list) -/

def protCall (p : Prot) (ok : Bool) (before : Content) : Ev :=
  .call { prim := .protect p, ok := ok, lib := false, before := before }

/-- `access()`: refused (closing/closed) | Protect(RO) failed: nothing changed | first reader:
page read-only, counter 1 | further reader: counter + 1, no primitive. -/
def AccessSpec (pf : Proto) (s : Sec) (o : StepOut) : Prop :=
  (o.res = .closedErr ∧ o.sec = s ∧ o.evs = [] ∧ pf.accessChecksClosing = true ∧ (s.closing = true ∨ s.closed = true)) ∨
  ((pf.accessChecksClosing = true → s.closing = false ∧ s.closed = false) ∧
   ((o.res = .err ∧ o.sec = s ∧ s.counter = 0 ∧ o.evs = [protCall .ro false s.page.content]) ∨
    (o.res = .ok ∧ s.counter = 0 ∧ o.sec = { s with counter := 1, page := { s.page with prot := .ro } } ∧
      o.evs = [protCall .ro true s.page.content]) ∨
    (o.res = .ok ∧ s.counter ≠ 0 ∧ o.sec = { s with counter := s.counter + 1 } ∧ o.evs = [])))

attribute [secmemchk] AccessSpec protCall

theorem access_spec (pf : Proto) (s : Sec) : ∀ fl, AccessSpec pf s (access pf s fl).norest := by
  obtain ⟨impl, id, len, born, pg, closing, closed, counter⟩ := s
  obtain ⟨a, b, c⟩ := pf
  unfold access
  cases a <;> cases closing <;> cases closed <;> rcases counter with _ | n <;> simp <;> oracle_walk

/-- `release()`: the counter is decremented; the last reader drops the protection (a failure leaves
the page as it was, the decrement stays). -/
def ReleaseSpec (s : Sec) (o : StepOut) : Prop :=
  (s.counter ≤ 1 ∧ o.res = .ok ∧ o.sec = { s with counter := 0, page := { s.page with prot := .none } } ∧
     o.evs = [protCall .none true s.page.content]) ∨
  (s.counter ≤ 1 ∧ o.res = .err ∧ o.sec = { s with counter := 0 } ∧ o.evs = [protCall .none false s.page.content]) ∨
  (s.counter ≥ 2 ∧ o.res = .ok ∧ o.sec = { s with counter := s.counter - 1 } ∧ o.evs = [])

attribute [secmemchk] ReleaseSpec

theorem release_spec (s : Sec) : ∀ fl, ReleaseSpec s (release s fl).norest := by
  obtain ⟨impl, id, len, born, pg, closing, closed, counter⟩ := s
  unfold release
  rcases counter with _ | _ | n <;> simp <;> oracle_walk

def primCall (prim : Prim) (ok lib : Bool) (before : Content) : Ev :=
  .call { prim := prim, ok := ok, lib := lib, before := before }

attribute [secmemchk] primCall

/-- `close()` of protectedmemory / `Destroy()` of memguard on a MAPPED page (`lib` tells which):
Protect(RW) failed: nothing changed | Unlock failed: page read-write and ZEROED, still locked |
Free failed: zeroed, unlocked, still mapped | done: zeroed before it was unlocked and unmapped,
closed, InUseCounter.Dec.  The failure result is `bad` (`err` for protectedmemory, `panic` for memguard). -/
def CloseSpec (lib : Bool) (fr : Prim) (bad : Res) (s : Sec) (o : StepOut) : Prop :=
  let c := s.page.content
  (o.res = bad ∧ o.sec = s ∧ o.evs = [primCall (.protect .rw) false lib c]) ∨
  (o.res = bad ∧ o.sec = { s with page := { s.page with prot := .rw, content := .zero } } ∧
     o.evs = [primCall (.protect .rw) true lib c, .wipe, primCall .unlock false lib .zero]) ∨
  (o.res = bad ∧ o.sec = { s with page := { s.page with prot := .rw, content := .zero, locked := false } } ∧
     o.evs = [primCall (.protect .rw) true lib c, .wipe, primCall .unlock true lib .zero, primCall fr false lib .zero]) ∨
  (o.res = .ok ∧ o.sec = { s with closed := true,
                                  page := applyPrim s.id { s.page with prot := .rw, content := .zero, locked := false } fr } ∧
     o.evs = [primCall (.protect .rw) true lib c, .wipe, primCall .unlock true lib .zero, primCall fr true lib .zero, .inuseDec])

attribute [secmemchk] CloseSpec

theorem pmClose_spec (s : Sec) (hm : s.page.mapped = true) : ∀ fl, CloseSpec false .free .err s (pmClose s fl).norest := by
  obtain ⟨impl, id, len, born, ⟨mapped, locked, dd, prot, content, guards⟩, closing, closed, counter⟩ := s
  simp only at hm; subst hm
  unfold pmClose
  oracle_walk

theorem mgClose_spec (s : Sec) (hm : s.page.mapped = true) : ∀ fl, CloseSpec true .freeG .panic s (mgClose s fl).norest := by
  obtain ⟨impl, id, len, born, ⟨mapped, locked, dd, prot, content, guards⟩, closing, closed, counter⟩ := s
  simp only at hm; subst hm
  unfold mgClose mgDestroy
  oracle_walk

@[simp] theorem StepOut.norest_res (o : StepOut) : o.norest.res = o.res := rfl
@[simp] theorem StepOut.norest_sec (o : StepOut) : o.norest.sec = o.sec := rfl
@[simp] theorem StepOut.norest_evs (o : StepOut) : o.norest.evs = o.evs := rfl
@[simp] theorem CreateOut.norest_res (o : CreateOut) : o.norest.res = o.res := rfl
@[simp] theorem CreateOut.norest_sec (o : CreateOut) : o.norest.sec = o.sec := rfl
@[simp] theorem CreateOut.norest_evs (o : CreateOut) : o.norest.evs = o.evs := rfl
@[simp] theorem CreateOut.norest_page (o : CreateOut) : o.norest.page = o.page := rfl
@[simp] theorem CreateOut.norest_srcWiped (o : CreateOut) : o.norest.srcWiped = o.srcWiped := rfl
@[simp] theorem CreateOut.norest_crashed (o : CreateOut) : o.norest.crashed = o.crashed := rfl

/-- the checkers do not look at the unconsumed oracle. -/
theorem pmChk_norest (w : Bool) (o : CreateOut) : pmChk w o.norest = pmChk w o := rfl
theorem mgChk_norest (w : Bool) (o : CreateOut) : mgChk w o.norest = mgChk w o := rfl

end AsherahVerif.SecMem
