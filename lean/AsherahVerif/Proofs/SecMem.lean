import AsherahVerif.Proofs.SecMemSimp
/-
Helper lemmas about the sequential model of Model/SecMem.lean, for ALL fault lists.

Technique: every operation issues a bounded number of primitive calls, each of which looks at the
head of the fault oracle.  `oracle_step` consumes one answer: it splits the oracle into `[]`
(every remaining call succeeds), `false :: fl` and `true :: fl`, simplifies with the `secmem` simp set
(one call of `Run.call` evaluates) and generalises over the rest of the oracle again.  Iterating it
walks every path of the operation — linearly many goals, since a failure path ends quickly.
-/
namespace AsherahVerif.SecMem

attribute [secmem] Run.call Run.copyIn Run.clean Run.wipeIf Run.wipe failOut okOut Page.writable Page.readable
  applyPrim failPrim Prim.alwaysFails Page.absent mkSec anyFailed cleanupFailed releasesClean wipeBeforeRelease
  Content.isSecret inuseDelta allocDelta

macro "oracle_step" : tactic => `(tactic|
  (intro fl; rcases fl with _ | ⟨_ | _, fl⟩ <;> (try simp [secmem]) <;> (try revert fl)))

/-- walk all paths of an operation with at most `n` primitive calls. -/
macro "oracle_walk" : tactic => `(tactic| iterate 14 (all_goals (try oracle_step)))

/-! ### a freshly created secret: idle -/

/-- the resting state of a live secret: mapped, locked, excluded from dumps, PROT_NONE, holding the
bytes it was created with, no readers, not closing. -/
structure Idle (s : Sec) : Prop where
  closing : s.closing = false
  closed : s.closed = false
  counter : s.counter = 0
  mapped : s.page.mapped = true
  locked : s.page.locked = true
  dontdump : s.page.dontdump = true
  prot : s.page.prot = .none
  content : s.page.content = s.born
  secret : s.born.isSecret = true

/-! ### creation -/

/-- what every creation guarantees, whatever the code shape flags and the faults. -/
structure CreateSound (o : CreateOut) : Prop where
  fail_is_error : anyFailed o.evs = true → o.res ≠ .ok
  no_crash : o.res ≠ .crash ∧ o.crashed = false
  no_deadlock : o.res ≠ .deadlock ∧ o.res ≠ .closedErr
  ok_sec : o.res = .ok → ∃ s, o.sec = some s ∧ Idle s ∧ o.page = s.page ∧ anyFailed o.evs = false
  fail_sec : o.res ≠ .ok → o.sec = none
  inuse : inuseDelta o.evs = if o.res = .ok then 1 else 0
  alloc : allocDelta o.evs = if o.res = .ok then 1 else 0

theorem pmNew_sound (cfg : Cfg) (id len : Nat) : ∀ fl, CreateSound (pmNew cfg id len fl) := by
  obtain ⟨c1, c2, c3, c4, c5⟩ := cfg
  unfold pmNew pmNewSecret
  by_cases hl : len < 1 <;> cases c1 <;> cases c2 <;> simp only [hl, if_false, if_true] <;>
  oracle_walk
  all_goals sorry

end AsherahVerif.SecMem
