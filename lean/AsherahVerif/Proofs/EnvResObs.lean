import AsherahVerif.Proofs.EnvResWf
/-
C09 — from the invariant to the observables of the ledger (`liveSecrets`, `multiClosed`,
`accessesAfterClose`).
-/
set_option linter.unusedVariables false
namespace AsherahVerif.Env.Res

theorem foldl_add_eq_zero {α : Type} (l : List α) (f : α → Nat) (a : Nat) :
    l.foldl (fun acc x => acc + f x) a = 0 ↔ a = 0 ∧ ∀ x ∈ l, f x = 0 := by
  induction l generalizing a with
  | nil => simp
  | cons y t ih =>
    simp only [List.foldl_cons, ih, List.mem_cons, forall_eq_or_imp]
    constructor
    · rintro ⟨h1, h2⟩; exact ⟨by omega, by omega, h2⟩
    · rintro ⟨h1, h2, h3⟩; exact ⟨by omega, h3⟩

theorem accessesAfterClose_eq_zero_iff (w : World) : accessesAfterClose w = 0 ↔ ∀ s ∈ w.secrets, s.aac = 0 := by
  unfold accessesAfterClose
  rw [foldl_add_eq_zero]; simp

theorem multiClosed_eq_zero_iff (w : World) : multiClosed w = 0 ↔ ∀ s ∈ w.secrets, s.closes ≤ 1 := by
  unfold multiClosed
  rw [List.length_eq_zero_iff, List.filter_eq_nil_iff]
  constructor
  · intro h s hs; have := h s hs; simp at this; exact this
  · intro h s hs; have := h s hs; simp; exact this

theorem filter_length_eq_range' {α : Type} (p : α → Bool) :
    ∀ (l : List α) (s : Nat), (l.filter p).length =
      ((List.range' s l.length).filter (fun i => (l[i - s]?.map p).getD false)).length := by
  intro l
  induction l with
  | nil => intro s; simp
  | cons a t ih =>
    intro s
    simp only [List.length_cons, List.range'_succ, List.filter_cons]
    have htail : (List.range' (s+1) t.length).filter (fun i => ((a :: t)[i - s]?.map p).getD false) =
        (List.range' (s+1) t.length).filter (fun i => (t[i - (s+1)]?.map p).getD false) := by
      apply List.filter_congr
      intro i hi
      have : s + 1 ≤ i := (List.mem_range'_1.1 hi).1
      have e : i - s = (i - (s+1)) + 1 := by omega
      rw [e, List.getElem?_cons_succ]
    simp only [Nat.sub_self, List.getElem?_cons_zero, Option.map_some, Option.getD_some, htail]
    cases hp : p a
    · simp only [Bool.false_eq_true, if_false]; exact ih (s+1)
    · simp only [if_true, List.length_cons]; rw [ih (s+1)]

/-- indices of the ledger secrets that are still live. -/
def liveIdx (w : World) : List Nat :=
  (List.range w.secrets.length).filter fun i => (w.secrets[i]?.map fun s => decide (s.closes = 0)).getD false

theorem liveSecrets_eq (w : World) : liveSecrets w = (liveIdx w).length := by
  unfold liveSecrets liveIdx
  have := filter_length_eq_range' (fun s : Secret => decide (s.closes = 0)) w.secrets 0
  simp only [Nat.sub_zero] at this
  rw [List.range_eq_range']
  exact this

theorem mem_liveIdx {w : World} {i : Nat} : i ∈ liveIdx w ↔ ∃ s, w.secrets[i]? = some s ∧ s.closes = 0 := by
  unfold liveIdx
  simp only [List.mem_filter, List.mem_range]
  constructor
  · rintro ⟨hlt, h⟩
    rw [List.getElem?_eq_getElem hlt] at h
    simp at h
    exact ⟨_, List.getElem?_eq_getElem hlt, h⟩
  · rintro ⟨s, hs, hc⟩
    exact ⟨getElem?_lt hs, by simp [hs, hc]⟩

/-- in a quiescent world, a live secret belongs to a key object that an open cache references. -/
theorem RI.live_in_cache {T : CTab} {w : World} (hi : RI T .none [] w) {i : Nat} (h : i ∈ liveIdx w) :
    i ∈ liveObjs T.dead w.caches := by
  obtain ⟨s, hs, hc⟩ := mem_liveIdx.1 h
  have hl := hi.led i s hs
  have hlt : i < w.keys.length := by have := getElem?_lt hs; have := hi.len; simp [Raw.extra] at this; omega
  have hk : w.keys[i]? = some w.keys[i] := List.getElem?_eq_getElem hlt
  rw [hk] at hl
  have hcl : (w.keys[i]).closed = false := by
    cases hkc : (w.keys[i]).closed with
    | false => rfl
    | true => simp only [hkc, if_true] at hl; omega
  have hacc := (hi.acc i _ hk).2 (by intro e; cases e)
  have hne : cntOf T (hcount []) w i ≠ 0 := by
    intro e; have := hacc.2.2 e; rw [hcl] at this; cases this
  unfold cntOf hcount at hne
  simp only [List.count_nil, Int.natCast_zero, Int.add_zero] at hne
  have : 0 < entCount T.dead w.caches i := by omega
  unfold entCount at this
  exact List.count_pos_iff.1 this

theorem RI.live_le {T : CTab} {w : World} (hi : RI T .none [] w) : liveSecrets w ≤ (liveObjs T.dead w.caches).length := by
  rw [liveSecrets_eq]
  apply List.Nodup.length_le_of_subset
  · unfold liveIdx; exact List.Nodup.sublist List.filter_sublist List.nodup_range
  · intro i hi'; exact hi.live_in_cache hi'

theorem RI.aac_zero {T : CTab} {raw : Raw} {H : List Nat} {w : World} (hi : RI T raw H w) : accessesAfterClose w = 0 := by
  rw [accessesAfterClose_eq_zero_iff]
  intro s hs
  obtain ⟨i, hlt, rfl⟩ := List.getElem_of_mem hs
  exact (hi.led i _ (List.getElem?_eq_getElem hlt)).1

theorem RI.multi_zero {T : CTab} {raw : Raw} {H : List Nat} {w : World} (hi : RI T raw H w) : multiClosed w = 0 := by
  rw [multiClosed_eq_zero_iff]
  intro s hs
  obtain ⟨i, hlt, rfl⟩ := List.getElem_of_mem hs
  have := (hi.led i _ (List.getElem?_eq_getElem hlt)).2
  rw [this]
  split
  · split <;> omega
  · omega


/-- every session and every factory has been closed. -/
def allClosed (w : World) : Prop :=
  (∀ ss, ss ∈ w.sessions → ss.closed = true) ∧ (∀ fac, fac ∈ w.facs → fac.closed = true)

theorem Wired.all_dead {w : World} (hw : Wired w) (hc : allClosed w) {c : Nat} (hlt : c < w.caches.length) :
    cacheDead w c = true := by
  rw [cacheDead_iff]
  rcases hw.owned c hlt with ⟨f, fac, h1, h2⟩ | ⟨s, ss, h1, h2, h3⟩
  · exact Or.inl ⟨f, fac, h1, hc.2 fac (List.mem_of_getElem? h1), h2⟩
  · exact Or.inr ⟨s, ss, h1, hc.1 ss (List.mem_of_getElem? h1), h2, h3⟩

theorem QInv.live_zero_of_allClosed {w : World} (h : QInv w) (hc : allClosed w) : liveSecrets w = 0 := by
  have hle := h.2.live_le
  have : liveObjs (tabOf w).dead w.caches = [] := by
    apply List.eq_nil_iff_forall_not_mem.2
    intro x hx
    obtain ⟨c, kc, h1, h2, _⟩ := mem_liveObjs.1 hx
    have := h.1.all_dead hc (getElem?_lt h1)
    simp only [tabOf] at h2
    rw [this] at h2; cases h2
  rw [this] at hle
  simpa using hle


/-- `sessionOpen` as a computation (for concrete witnesses). -/
def sessionOpenB (w : World) (s : Nat) : Bool :=
  match w.sessions[s]? with
  | some ss => !ss.closed && (match w.facs[ss.fac]? with | some fac => !fac.closed | none => false)
  | none => false

theorem sessionOpen_iff (w : World) (s : Nat) : sessionOpen w s ↔ sessionOpenB w s = true := by
  unfold sessionOpen sessionOpenB
  constructor
  · rintro ⟨ss, h1, h2, fac, h3, h4⟩
    simp [h1, h2, h3, h4]
  · intro h
    cases h1 : w.sessions[s]? with
    | none => simp [h1] at h
    | some ss =>
      simp only [h1, Bool.and_eq_true, Bool.not_eq_true'] at h
      cases h3 : w.facs[ss.fac]? with
      | none => simp [h3] at h
      | some fac =>
        simp only [h3, Bool.not_eq_true'] at h
        exact ⟨ss, rfl, h.1, fac, h3, h.2⟩


/-- `opOk` / `validFrom` as computations (for concrete witnesses). -/
def opOkB (w : World) : Op → Bool
  | .getSession f _ _ _ => (w.facs[f]?).isSome
  | .encrypt s _ _ => sessionOpenB w s
  | .decrypt s _ _ => sessionOpenB w s
  | .closeSession s => match w.sessions[s]? with | some ss => !ss.closed | none => false
  | .closeFactory f => match w.facs[f]? with | some fac => !fac.closed | none => false
  | _ => true

theorem opOk_iff (w : World) (op : Op) : opOk w op ↔ opOkB w op = true := by
  cases op with
  | newFactory p a b c d => simp [opOk, opOkB]
  | getSession f part c d =>
    simp only [opOk, opOkB]
    cases hf : w.facs[f]? with
    | none => simp
    | some fac => simp
  | encrypt s p fl => simp only [opOk, opOkB, sessionOpen_iff]
  | decrypt s d fl => simp only [opOk, opOkB, sessionOpen_iff]
  | closeSession s =>
    simp only [opOk, opOkB]
    cases hs : w.sessions[s]? with
    | none => simp
    | some ss => simp
  | closeFactory f =>
    simp only [opOk, opOkB]
    cases hs : w.facs[f]? with
    | none => simp
    | some fac => simp
  | advance d => simp [opOk, opOkB]
  | revoke m => simp [opOk, opOkB]
  | corruptRow m dp => simp [opOk, opOkB]

def validB (w : World) : List Op → Bool
  | [] => true
  | op :: rest => opOkB w op && validB (applyOp w op).2 rest

theorem validFrom_iff (w : World) (ops : List Op) : validFrom w ops ↔ validB w ops = true := by
  induction ops generalizing w with
  | nil => simp [validFrom, validB]
  | cons op rest ih => simp [validFrom, validB, opOk_iff, ih]

end AsherahVerif.Env.Res
