import AsherahVerif.Proofs.EnvResCache
/-
C09 — the envelope layer (`envelope.go`): every key loader returns a fresh raw key or leaves
nothing behind; `EncryptPayload` / `DecryptDataRowRecord` keep the resource invariant whatever the
faults, for the `never` and `simple` key caches.
-/
set_option linter.unusedVariables false
namespace AsherahVerif.Env.Res

theorem Spec.anyErr {α : Type} {P : World → Prop} {x : M α} {Q : α → World → Prop} {E : World → Prop}
    (h : Spec P x Q (fun _ => False)) : Spec P x Q E := h.weaken (fun _ h => h) (fun _ _ h => h) (fun _ h => h.elim)

section
variable (T : CTab) (H : List Nat)

theorem secretRandom_ri : Spec (RI T .none H) secretRandom (fun p => RI T (.sec p.1 p.2) H) (RI T .none H) :=
  secretRandom_spec T (hcount H)
theorem secretNew_ri (b m : Nat) : Spec (RI T .none H) (secretNew b m) (fun s => RI T (.sec s m) H) (RI T .none H) :=
  secretNew_spec T (hcount H) b m
theorem newKeyObj_ri {E : World → Prop} (c : Int) (r : Bool) (m s : Nat) :
    Spec (RI T (.sec s m) H) (newKeyObj c r m s) (fun o => RI T (.obj o) H) E :=
  (newKeyObj_spec T (hcount H) c r m s).anyErr
theorem keyCloseRaw_ri {E : World → Prop} (o : Nat) : Spec (RI T (.obj o) H) (keyCloseRaw o) (fun _ => RI T .none H) E :=
  (keyCloseRaw_spec T (hcount H) o).anyErr
theorem keyRelease_ri {E : World → Prop} (raw : Raw) (o : Nat) : Spec (RI T raw (o :: H)) (keyRelease o) (fun _ => RI T raw H) E :=
  (keyRelease_spec T raw H o).anyErr

theorem generateKey_spec (x : Ctx) :
    Spec (RI T .none H) (generateKey x) (fun o => RI T (.obj o) H) (RI T .none H) := by
  unfold generateKey
  spec_auto [secretRandom_ri, newKeyObj_ri]

theorem kmsDecrypt_ril (raw : Raw) (c : Ct) : Preserves (RI T raw H) (kmsDecrypt c) := kmsDecrypt_ri T raw _ c
theorem msLoad_ril (raw : Raw) (m : KeyMeta) : Preserves (RI T raw H) (msLoad m) := msLoad_ri T raw _ m
theorem msLoadLatest_ril (raw : Raw) (k : KeyId) : Preserves (RI T raw H) (msLoadLatest k) := msLoadLatest_ri T raw _ k
theorem mustLoadLatest_ril (raw : Raw) (k : KeyId) : Preserves (RI T raw H) (mustLoadLatest k) := mustLoadLatest_ri T raw _ k
theorem msStore_ril (raw : Raw) (r : Row) : Preserves (RI T raw H) (msStore r) := msStore_ri T raw _ r
theorem kmsEncrypt_ril (raw : Raw) (m : Nat) : Preserves (RI T raw H) (kmsEncrypt m) := kmsEncrypt_ri T raw _ m
theorem aeadEncrypt_ril (raw : Raw) (pt : Pt) (k : Nat) : Preserves (RI T raw H) (aeadEncrypt pt k) := aeadEncrypt_ri T raw _ pt k
theorem aeadDecrypt_ril (raw : Raw) (c : Ct) (k : Nat) : Preserves (RI T raw H) (aeadDecrypt c k) := aeadDecrypt_ri T raw _ c k
theorem newBuf_ril (raw : Raw) (m : Nat) : Preserves (RI T raw H) (newBuf m) := newBuf_ri T raw _ m
theorem wipeBuf_ril (raw : Raw) (b : Nat) : Preserves (RI T raw H) (wipeBuf b) := wipeBuf_ri T raw _ b

theorem systemKeyFromEKR_spec (r : Row) :
    Spec (RI T .none H) (systemKeyFromEKR r) (fun o => RI T (.obj o) H) (RI T .none H) := by
  unfold systemKeyFromEKR
  spec_auto [secretNew_ri, newKeyObj_ri, kmsDecrypt_ril]

theorem loadSystemKey_spec (m : KeyMeta) :
    Spec (RI T .none H) (loadSystemKey m) (fun o => RI T (.obj o) H) (RI T .none H) := by
  unfold loadSystemKey
  spec_auto [systemKeyFromEKR_spec, msLoad_ril]

/-- a key the running code owns raw can be used (its secret is open). -/
theorem withKey_raw {α : Type} {Q : α → World → Prop} {E : World → Prop} (o : Nat) (f : Nat → M α)
    (hf : ∀ m, Spec (RI T (.obj o) H) (f m) Q E) : Spec (RI T (.obj o) H) (withKey o f) Q E :=
  withKey_ri o f (Or.inr rfl) hf

theorem tryStoreSystemKey_spec (sk : Nat) :
    Spec (RI T (.obj sk) H) (tryStoreSystemKey sk) (fun _ => RI T (.obj sk) H) (RI T (.obj sk) H) := by
  unfold tryStoreSystemKey
  spec_auto [withKey_raw, kmsEncrypt_ril, msStore_ril]

theorem createSK_spec (x : Ctx) :
    Spec (RI T .none H) (loadLatestOrCreateSystemKey.createSK x) (fun o => RI T (.obj o) H) (RI T .none H) := by
  unfold loadLatestOrCreateSystemKey.createSK
  spec_auto [generateKey_spec, tryStoreSystemKey_spec, keyCloseRaw_ri, mustLoadLatest_ril, systemKeyFromEKR_spec]

theorem loadLatestOrCreateSystemKey_spec (x : Ctx) :
    Spec (RI T .none H) (loadLatestOrCreateSystemKey x) (fun o => RI T (.obj o) H) (RI T .none H) := by
  unfold loadLatestOrCreateSystemKey
  spec_auto [msLoadLatest_ril, systemKeyFromEKR_spec, createSK_spec]

/-! created-stamp of a freshly loaded key -/
def CreatedIs (c : Int) (o : Nat) (w : World) : Prop := ∃ k, w.keys[o]? = some k ∧ k.created = c

theorem Spec.trivial {α : Type} {P : World → Prop} (x : M α) : Spec P x (fun _ _ => True) (fun _ => True) := by
  intro w _; cases x w with | mk r w' => cases r <;> exact True.intro

theorem newKeyObj_created {P E : World → Prop} (c : Int) (r : Bool) (m s : Nat) :
    Spec P (newKeyObj c r m s) (fun o w => CreatedIs c o w) E := by
  intro w _
  exact ⟨{ created := c, revoked := r, mat := m, sec := s }, by show (w.keys ++ [_])[w.keys.length]? = _; simp, rfl⟩

theorem CreatedIs.ext {c : Int} {o : Nat} {w w' : World} (h : CreatedIs c o w) (he : Ext w w') : CreatedIs c o w' := by
  obtain ⟨k, hk, hc⟩ := h
  obtain ⟨k', hk', hc', _⟩ := he.keys o k hk
  exact ⟨k', hk', hc'.trans hc⟩

theorem created_of_ext {α : Type} {x : M α} (hx : Extends x) (c : Int) (o : Nat) :
    Spec (CreatedIs c o) x (fun _ => CreatedIs c o) (CreatedIs c o) := by
  intro w hw
  have := hw.ext (hx w)
  cases hr : x w with
  | mk r w' => rw [hr] at this; cases r <;> exact this

theorem systemKeyFromEKR_created (r : Row) :
    Spec (fun _ => True) (systemKeyFromEKR r) (fun o w => CreatedIs r.created o w) (fun _ => True) := by
  unfold systemKeyFromEKR
  spec_auto [newKeyObj_created, Spec.trivial]

theorem msLoad_found (m : KeyMeta) :
    Spec (fun _ => True) (msLoad m) (fun r _ => ∀ row, r = some row → row.created = m.created) (fun _ => True) := by
  intro w _
  simp only [msLoad, bind_run]
  obtain ⟨f, hf⟩ := takeFault_ok w
  cases htf : takeFault w with
  | mk r1 w1 =>
    rw [htf] at hf; simp only at hf; subst hf
    simp only [get_run]
    split
    · rename_i heq
      split at heq
      · simp [logCall_run, bind_run, throw_run] at heq
      · simp only [logCall_run, bind_run, pure_run] at heq
        cases heq
        intro row hrow
        have := List.find?_some hrow
        simp at this
        exact this.2
    · trivial

theorem loadSystemKey_created (m : KeyMeta) :
    Spec (fun _ => True) (loadSystemKey m) (fun o w => CreatedIs m.created o w) (fun _ => True) := by
  unfold loadSystemKey
  refine Spec.bind (msLoad_found m) (fun _ h => h) fun r => ?_
  split
  · exact Spec.throw _ fun _ _ => True.intro
  · rename_i row
    intro w hw
    have := systemKeyFromEKR_created row w True.intro
    rw [hw row rfl] at this
    exact this

theorem loadSystemKey_ok (m : KeyMeta) : LoaderOK T loadSystemKey m := by
  intro H
  refine ((loadSystemKey_spec T H m).and (loadSystemKey_created m)).weaken (fun _ h => ⟨h, True.intro⟩)
    (fun o w h => ⟨h.1, fun _ => h.2⟩) (fun _ h => h.1)

theorem loadLatestOrCreateSystemKey_ok (x : Ctx) (kid : KeyId) : LoaderOK T (fun _ => loadLatestOrCreateSystemKey x) ⟨kid, 0⟩ := by
  intro H
  exact (loadLatestOrCreateSystemKey_spec T H x).weaken (fun _ h => h) (fun o w h => ⟨h, fun h0 => absurd rfl h0⟩) (fun _ h => h)

theorem getOrLoadSystemKey_spec (x : Ctx) (m : KeyMeta) (hd : T.dead x.skCache = false) :
    Spec (RI T .none H) (getOrLoadSystemKey x m) (fun o => RI T .none (o :: H)) (RI T .none H) := by
  unfold getOrLoadSystemKey
  exact getOrLoad_spec T H _ m _ _ hd (loadSystemKey_ok T m)


/-- the unwrap-and-protect part of `intermediateKeyFromEKR`, under any held system key. -/
theorem ikBody_spec (r : Row) (sk' : Nat) (hsk : sk' ∈ H) :
    Spec (RI T .none H) (do
      let pt ← withKey sk' fun skm => aeadDecrypt r.enc skm
      match pt with
      | .key m =>
        let b ← newBuf m
        let s ← secretNew b m
        newKeyObj r.created r.revoked m s
      | .payload _ => throw .aead : M Nat) (fun o => RI T (.obj o) H) (RI T .none H) := by
  spec_auto [withKey_ri _ _ (Or.inl hsk), aeadDecrypt_ril, newBuf_ril, secretNew_ri, newKeyObj_ri]

theorem ikTail_spec (r : Row) (sk sk' : Nat) (loaded : Bool) (hsk : sk ∈ H) :
    Spec (fun w => (loaded = true ∧ RI T .none (sk' :: H) w) ∨ (loaded = false ∧ sk' = sk ∧ RI T .none H w))
      (if (loaded && true) = true then finallyDo (do
          let pt ← withKey sk' fun skm => aeadDecrypt r.enc skm
          match pt with
          | .key m =>
            let b ← newBuf m
            let s ← secretNew b m
            newKeyObj r.created r.revoked m s
          | .payload _ => throw .aead : M Nat) (keyRelease sk')
        else (do
          let pt ← withKey sk' fun skm => aeadDecrypt r.enc skm
          match pt with
          | .key m =>
            let b ← newBuf m
            let s ← secretNew b m
            newKeyObj r.created r.revoked m s
          | .payload _ => throw .aead : M Nat))
      (fun o => RI T (.obj o) H) (RI T .none H) := by
  cases loaded
  · -- the system key at hand
    intro w hw
    simp only [Bool.false_and, Bool.false_eq_true, ↓reduceIte, false_and, false_or, true_and] at hw ⊢
    obtain ⟨rfl, hri⟩ := hw
    exact ikBody_spec T H r sk' hsk w hri
  · -- the parent system key was fetched: one more reference, released afterwards
    intro w hw
    simp only [Bool.true_and, ↓reduceIte, true_and, Bool.true_eq_false, false_and, or_false] at hw ⊢
    exact Spec.finallyDo (ikBody_spec T (sk' :: H) r sk' List.mem_cons_self)
      (fun a => keyRelease_ri T H (.obj a) sk') (keyRelease_ri T H .none sk') w hw

/-- `intermediateKeyFromEKR` (with the F-3 release of the fetched parent key): a fresh raw
intermediate key, or nothing. The caller holds `sk`. -/
theorem intermediateKeyFromEKR_spec (x : Ctx) (sk : Nat) (r : Row) (hsk : sk ∈ H) (hd : T.dead x.skCache = false) :
    Spec (RI T .none H) (intermediateKeyFromEKR x sk r true) (fun o => RI T (.obj o) H) (RI T .none H) := by
  unfold intermediateKeyFromEKR
  refine Spec.bind (keyObj_preserves _).toSpec (fun _ h => h) fun so => ?_
  dsimp only
  split
  · split
    · refine Spec.bind (getOrLoadSystemKey_spec T H x _ hd) (fun _ h => h) fun l => ?_
      refine Spec.bind (R := fun (p : Nat × Bool) w => (p.2 = true ∧ RI T .none (p.1 :: H) w) ∨ (p.2 = false ∧ p.1 = sk ∧ RI T .none H w))
        (E₁ := fun _ => False) (Spec.pure _ fun w hw => Or.inl ⟨rfl, hw⟩) (fun _ h => h.elim) ?_
      rintro ⟨sk', loaded⟩
      exact ikTail_spec T H r sk sk' loaded hsk
    · refine Spec.bind (R := fun (p : Nat × Bool) w => (p.2 = true ∧ RI T .none (p.1 :: H) w) ∨ (p.2 = false ∧ p.1 = sk ∧ RI T .none H w))
        (E₁ := fun _ => False) (Spec.pure _ fun w hw => Or.inr ⟨rfl, rfl, hw⟩) (fun _ h => h.elim) ?_
      rintro ⟨sk', loaded⟩
      exact ikTail_spec T H r sk sk' loaded hsk
  · refine Spec.bind (R := fun (p : Nat × Bool) w => (p.2 = true ∧ RI T .none (p.1 :: H) w) ∨ (p.2 = false ∧ p.1 = sk ∧ RI T .none H w))
      (E₁ := fun _ => False) (Spec.pure _ fun w hw => Or.inr ⟨rfl, rfl, hw⟩) (fun _ h => h.elim) ?_
    rintro ⟨sk', loaded⟩
    exact ikTail_spec T H r sk sk' loaded hsk

theorem tryStoreIntermediateKey_spec (x : Ctx) (ik sk : Nat) (hsk : sk ∈ H) :
    Spec (RI T (.obj ik) H) (tryStoreIntermediateKey x ik sk) (fun _ => RI T (.obj ik) H) (RI T (.obj ik) H) := by
  unfold tryStoreIntermediateKey
  spec_auto [withKey_raw, withKey_ri _ _ (Or.inl hsk), aeadEncrypt_ril, msStore_ril]

theorem createIntermediateKey_spec (x : Ctx) (hd : T.dead x.skCache = false) :
    Spec (RI T .none H) (createIntermediateKey x true) (fun o => RI T (.obj o) H) (RI T .none H) := by
  unfold createIntermediateKey
  refine Spec.bind (getOrLoadLatest_spec T H _ .sk _ _ _ hd (loadLatestOrCreateSystemKey_ok T x .sk)) (fun _ h => h) fun sk => ?_
  refine Spec.finallyDo (R := fun o => RI T (.obj o) (sk :: H)) (E₁ := RI T .none (sk :: H)) ?_
    (fun a => keyRelease_ri T H (.obj a) sk) (keyRelease_ri T H .none sk)
  spec_auto [generateKey_spec, tryStoreIntermediateKey_spec _ _ _ _ _ List.mem_cons_self, keyCloseRaw_ri, mustLoadLatest_ril,
    intermediateKeyFromEKR_spec _ _ _ _ _ List.mem_cons_self hd]

theorem getValidIntermediateKey_spec (x : Ctx) (sk : Nat) (r : Row) (hsk : sk ∈ H) (hd : T.dead x.skCache = false) :
    Spec (RI T .none H) (getValidIntermediateKey x sk r true)
      (fun o w => match o with | some ik => RI T (.obj ik) H w | none => RI T .none H w) (RI T .none H) := by
  unfold getValidIntermediateKey
  spec_auto [intermediateKeyFromEKR_spec _ _ _ _ _ hsk hd]

theorem loadLatestOrCreateIntermediateKey_spec (x : Ctx) (hd : T.dead x.skCache = false) :
    Spec (RI T .none H) (loadLatestOrCreateIntermediateKey x true) (fun o => RI T (.obj o) H) (RI T .none H) := by
  unfold loadLatestOrCreateIntermediateKey
  spec_auto [msLoadLatest_ril, createIntermediateKey_spec _ _ _ hd, getOrLoadSystemKey_spec _ _ _ _ hd,
    getValidIntermediateKey_spec _ _ _ _ _ List.mem_cons_self hd, keyRelease_ri]

theorem loadIntermediateKey_spec (x : Ctx) (m : KeyMeta) (hd : T.dead x.skCache = false) :
    Spec (RI T .none H) (loadIntermediateKey x m true) (fun o => RI T (.obj o) H) (RI T .none H) := by
  unfold loadIntermediateKey
  spec_auto [msLoad_ril, getOrLoadSystemKey_spec _ _ _ _ hd, intermediateKeyFromEKR_spec _ _ _ _ _ List.mem_cons_self hd, keyRelease_ri]

theorem keyRelease_created (c : Int) (o o' : Nat) :
    Spec (CreatedIs c o) (keyRelease o') (fun _ => CreatedIs c o) (CreatedIs c o) :=
  created_of_ext (keyRelease_ext o') c o

theorem Spec.of_pure {α : Type} {φ : Prop} {x : M α} {Q : α → World → Prop} {E : World → Prop}
    (h : φ → Spec (fun _ => True) x Q E) : Spec (fun _ => φ) x Q E := fun w hw => h hw w True.intro

theorem ikBody_created (r : Row) (sk' : Nat) :
    Spec (fun _ => True) (do
      let pt ← withKey sk' fun skm => aeadDecrypt r.enc skm
      match pt with
      | .key m =>
        let b ← newBuf m
        let s ← secretNew b m
        newKeyObj r.created r.revoked m s
      | .payload _ => throw .aead : M Nat) (fun o w => CreatedIs r.created o w) (fun _ => True) := by
  spec_auto [newKeyObj_created, Spec.trivial]

theorem intermediateKeyFromEKR_created (x : Ctx) (sk : Nat) (r : Row) (b : Bool) :
    Spec (fun _ => True) (intermediateKeyFromEKR x sk r b) (fun o w => CreatedIs r.created o w) (fun _ => True) := by
  unfold intermediateKeyFromEKR
  refine Spec.bind (Spec.trivial _) (fun _ h => h) fun so => ?_
  have tail : ∀ (sk' : Nat) (loaded : Bool), Spec (fun _ => True)
      (if (loaded && b) = true then finallyDo (do
          let pt ← withKey sk' fun skm => aeadDecrypt r.enc skm
          match pt with
          | .key m =>
            let b ← newBuf m
            let s ← secretNew b m
            newKeyObj r.created r.revoked m s
          | .payload _ => throw .aead : M Nat) (keyRelease sk')
        else (do
          let pt ← withKey sk' fun skm => aeadDecrypt r.enc skm
          match pt with
          | .key m =>
            let b ← newBuf m
            let s ← secretNew b m
            newKeyObj r.created r.revoked m s
          | .payload _ => throw .aead : M Nat)) (fun o w => CreatedIs r.created o w) (fun _ => True) := by
    intro sk' loaded
    split
    · exact Spec.finallyDo (ikBody_created r _) (fun a => keyRelease_created r.created a _) (Spec.trivial _)
    · exact ikBody_created r _
  dsimp only
  split
  · split
    · refine Spec.bind (Spec.trivial _) (fun _ h => h) fun l => ?_
      refine Spec.bind (Spec.trivial _) (fun _ h => h) ?_
      rintro ⟨sk', loaded⟩
      exact tail sk' loaded
    · refine Spec.bind (Spec.trivial _) (fun _ h => h) ?_
      rintro ⟨sk', loaded⟩
      exact tail sk' loaded
  · refine Spec.bind (Spec.trivial _) (fun _ h => h) ?_
    rintro ⟨sk', loaded⟩
    exact tail sk' loaded

theorem loadIntermediateKey_created (x : Ctx) (m : KeyMeta) (b : Bool) :
    Spec (fun _ => True) (loadIntermediateKey x m b) (fun o w => CreatedIs m.created o w) (fun _ => True) := by
  unfold loadIntermediateKey
  refine Spec.bind (msLoad_found m) (fun _ h => h) fun r => ?_
  refine Spec.of_pure fun hrow => ?_
  split
  · exact Spec.throw _ fun _ _ => True.intro
  · rename_i row
    split
    · exact Spec.throw _ fun _ _ => True.intro
    · refine Spec.bind (Spec.trivial _) (fun _ h => h) fun sk => ?_
      have := Spec.finallyDo (P := fun _ => True) (intermediateKeyFromEKR_created x sk row b)
        (fun a => keyRelease_created row.created a sk) (Spec.trivial _)
      rw [hrow row rfl] at this
      exact this

theorem loadIntermediateKey_ok (x : Ctx) (m : KeyMeta) (hd : T.dead x.skCache = false) :
    LoaderOK T (fun m => loadIntermediateKey x m true) m := by
  intro H
  exact ((loadIntermediateKey_spec T H x m hd).and (loadIntermediateKey_created x m true)).weaken (fun _ h => ⟨h, True.intro⟩)
    (fun o w h => ⟨h.1, fun _ => h.2⟩) (fun _ h => h.1)

theorem loadLatestOrCreateIntermediateKey_ok (x : Ctx) (kid : KeyId) (hd : T.dead x.skCache = false) :
    LoaderOK T (fun _ => loadLatestOrCreateIntermediateKey x true) ⟨kid, 0⟩ := by
  intro H
  exact (loadLatestOrCreateIntermediateKey_spec T H x hd).weaken (fun _ h => h) (fun o w h => ⟨h, fun h0 => absurd rfl h0⟩) (fun _ h => h)

/-- `EncryptPayload`: the intermediate key reference and the data row key are released on every path. -/
theorem encryptPayload_spec (x : Ctx) (p : Nat) (hds : T.dead x.skCache = false) (hdi : T.dead x.ikCache = false) :
    Spec (RI T .none H) (encryptPayload x p true) (fun _ => RI T .none H) (RI T .none H) := by
  unfold encryptPayload
  refine Spec.bind (getOrLoadLatest_spec T H _ _ _ _ _ hdi (loadLatestOrCreateIntermediateKey_ok T x _ hds)) (fun _ h => h) fun ik => ?_
  refine Spec.finallyDo (R := fun _ => RI T .none (ik :: H)) (E₁ := RI T .none (ik :: H)) ?_
    (fun a => keyRelease_ri T H .none ik) (keyRelease_ri T H .none ik)
  refine Spec.bind (Preserves.get).toSpec (fun _ h => h) fun w0 => ?_
  refine Spec.bind (secretRandom_ri T (ik :: H)) (fun _ h => h) ?_
  rintro ⟨s, m⟩
  refine Spec.bind (newKeyObj_ri T (ik :: H) _ _ _ _) (fun _ h => h) fun drk => ?_
  refine Spec.finallyDo (R := fun _ => RI T (.obj drk) (ik :: H)) (E₁ := RI T (.obj drk) (ik :: H)) ?_
    (fun a => keyCloseRaw_ri T (ik :: H) drk) (keyCloseRaw_ri T (ik :: H) drk)
  spec_auto [withKey_raw, withKey_ri _ _ (Or.inl List.mem_cons_self), aeadEncrypt_ril]

theorem decryptRow_spec (ik : Nat) (dk : DrrKey) (data : Ct) (hik : ik ∈ H) :
    Spec (RI T .none H) (decryptRow ik dk data) (fun _ => RI T .none H) (RI T .none H) := by
  unfold decryptRow
  spec_auto [withKey_ri _ _ (Or.inl hik), aeadDecrypt_ril, newBuf_ril, wipeBuf_ril]

/-- `DecryptDataRowRecord`: the intermediate key reference is released on every path. -/
theorem decryptDataRowRecord_spec (x : Ctx) (d : Drr) (hds : T.dead x.skCache = false) (hdi : T.dead x.ikCache = false) :
    Spec (RI T .none H) (decryptDataRowRecord x d true) (fun _ => RI T .none H) (RI T .none H) := by
  unfold decryptDataRowRecord
  split
  · exact Spec.throw _ fun _ h => h
  · split
    · exact Spec.throw _ fun _ h => h
    · split
      · exact Spec.throw _ fun _ h => h
      · refine Spec.bind (getOrLoad_spec T H _ _ _ _ hdi (loadIntermediateKey_ok T x _ hds)) (fun _ h => h) fun ik => ?_
        exact Spec.finallyDo (decryptRow_spec T (ik :: H) ik _ _ List.mem_cons_self)
          (fun a => keyRelease_ri T H .none ik) (keyRelease_ri T H .none ik)
end
end AsherahVerif.Env.Res
