import AsherahVerif.Proofs.EnvFootprint
/-
Resource proofs (C09 / C10 / C03), shared base: an invariant-preservation tactic in the style of
`ext_auto`, "steps" along a reflexive-transitive relation on worlds, and list facts about
`setAt` / `assocGet` / `assocSet`.
-/
set_option linter.unusedVariables false
namespace AsherahVerif.Env

/-! ### `Preserves` for the raw state functions of the model -/

/-- a function that always succeeds, written as a raw lambda in the model. -/
theorem Preserves.lam {α : Type} {I : World → Prop} (f : World → α) (g : World → World)
    (h : ∀ w, I w → I (g w)) : Preserves I (fun w => ((.ok (f w), g w) : Except Err α × World)) :=
  fun w hw => h w hw

theorem Preserves.ite {α : Type} {I : World → Prop} {c : Prop} [Decidable c] {x y : M α}
    (hx : Preserves I x) (hy : Preserves I y) : Preserves I (if c then x else y) := by
  split <;> assumption

/-- `takeFault` only touches `faults`. -/
theorem takeFault_preserves {I : World → Prop} (h : ∀ w fl, I w → I { w with faults := fl }) :
    Preserves I takeFault := by
  intro w hw
  unfold takeFault
  split
  · exact hw
  · exact h _ _ hw

theorem keyObj_preserves {I : World → Prop} (o : Nat) : Preserves I (keyObj o) := fun _ h => h
theorem getCache_preserves {I : World → Prop} (c : Nat) : Preserves I (getCache c) := fun _ h => h

/-- one structural step of an invariant-preservation proof (syntactic rule applications only). -/
macro "pres_step" : tactic => `(tactic| first
  | with_reducible exact Preserves.pure _ | with_reducible exact Preserves.throw _ | with_reducible exact Preserves.get
  | with_reducible exact keyObj_preserves _ | with_reducible exact getCache_preserves _
  | with_reducible assumption
  | with_reducible apply Preserves.finallyDo | with_reducible apply Preserves.tryM | with_reducible apply Preserves.bind
  | (with_reducible intro _) | split | dsimp only)

/-- leaves whose state change does not concern the invariant (closed by definitional unfolding). -/
macro "pres_leaf" : tactic => `(tactic| first
  | exact Preserves.modify (fun _ h => h)
  | exact takeFault_preserves (fun _ _ h => h)
  | exact Preserves.lam _ _ (fun _ h => h))

/-- preservation proofs: unfold the function, then `pres_auto [lemmas about the functions it calls]`. -/
syntax "pres_auto" ("[" term,* "]")? : tactic
macro_rules
  | `(tactic| pres_auto) => `(tactic| repeat (any_goals (first | pres_step | pres_leaf)))
  | `(tactic| pres_auto [$ls,*]) => do
    let ls := ls.getElems
    `(tactic| repeat (any_goals (first | (first $[| with_reducible apply $ls]*) | pres_step | pres_leaf)))

/-! ### list helpers -/

theorem getElem?_append_single {α : Type} (l : List α) (x : α) (i : Nat) :
    (l ++ [x])[i]? = if i < l.length then l[i]? else if i = l.length then some x else none := by
  by_cases h : i < l.length
  · simp [h, List.getElem?_append_left h]
  · by_cases h2 : i = l.length
    · subst h2; simp
    · have : l.length + 1 ≤ i := by omega
      simp [h, h2, List.getElem?_eq_none, this]

theorem getD_eq_of_getElem? {α : Type} {l : List α} {i : Nat} {a d : α} (h : l[i]? = some a) : l.getD i d = a := by
  simp [List.getD_eq_getElem?_getD, h]

theorem getElem?_lt {α : Type} {l : List α} {i : Nat} {a : α} (h : l[i]? = some a) : i < l.length := by
  apply Classical.byContradiction; intro hc
  rw [List.getElem?_eq_none (by omega)] at h; cases h

end AsherahVerif.Env
