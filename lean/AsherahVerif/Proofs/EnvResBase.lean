import Lean.Elab.Tactic
import AsherahVerif.Proofs.EnvFootprint
/-
Resource proofs (C09 / C10 / C03), shared base: an invariant-preservation tactic in the style of
`ext_auto`, "steps" along a reflexive-transitive relation on worlds, and list facts about
`setAt` / `assocGet` / `assocSet`.
-/
set_option linter.unusedVariables false
namespace AsherahVerif.Env.Res

/-! ### `Preserves` for the raw state functions of the model -/

/-- a function that always succeeds, written as a raw lambda in the model. -/
theorem _root_.AsherahVerif.Env.Preserves.lam {α : Type} {I : World → Prop} (f : World → α) (g : World → World)
    (h : ∀ w, I w → I (g w)) : Preserves I (fun w => ((.ok (f w), g w) : Except Err α × World)) :=
  fun w hw => h w hw

theorem _root_.AsherahVerif.Env.Preserves.ite {α : Type} {I : World → Prop} {c : Prop} [Decidable c] {x y : M α}
    (hx : Preserves I x) (hy : Preserves I y) : Preserves I (if c then x else y) := by
  split <;> assumption

/-- `takeFault` only touches `faults`. -/
theorem takeFault_preserves {I : World → Prop} (h : ∀ w fl, I w → I { w with faults := fl }) :
    Preserves I takeFault := by
  intro w hw
  unfold takeFault
  split
  · exact hw
  · exact h _ _ hw

theorem keyObj_preserves {I : World → Prop} (o : Nat) : Preserves I (keyObj o) := fun _ h => h
theorem getCache_preserves {I : World → Prop} (c : Nat) : Preserves I (getCache c) := fun _ h => h

open Lean Elab Tactic Meta in
/-- `intro` one binder, but only when the goal is a proposition (never on a goal that stands for
a still-unknown intermediate assertion `?R : α → World → Prop`). -/
elab "intro_prop" : tactic => do
  let g ← getMainGoal
  let t ← instantiateMVars (← g.getType)
  unless t.isForall do throwError "intro_prop: the goal is not syntactically a ∀"
  unless (← isProp t) do throwError "intro_prop: the goal is not a proposition"
  let (_, g') ← g.intro1
  replaceMainGoal [g']

/-- one structural step of an invariant-preservation proof (syntactic rule applications only). -/
macro "pres_step" : tactic => `(tactic| first
  | with_reducible exact Preserves.pure _ | with_reducible exact Preserves.throw _ | with_reducible exact Preserves.get
  | with_reducible exact keyObj_preserves _ | with_reducible exact getCache_preserves _
  | with_reducible assumption
  | with_reducible apply Preserves.finallyDo | with_reducible apply Preserves.tryM | with_reducible apply Preserves.bind
  | (with_reducible intro _) | split | dsimp only)

/-- leaves whose state change does not concern the invariant (closed by definitional unfolding). -/
macro "pres_leaf" : tactic => `(tactic| first
  | exact Preserves.modify (fun _ h => h)
  | exact takeFault_preserves (fun _ _ h => h)
  | exact Preserves.lam _ _ (fun _ h => h))

/-- preservation proofs: unfold the function, then `pres_auto [lemmas about the functions it calls]`. -/
syntax "pres_auto" ("[" term,* "]")? : tactic
macro_rules
  | `(tactic| pres_auto) => `(tactic| repeat (any_goals (first | pres_step | pres_leaf)))
  | `(tactic| pres_auto [$ls,*]) => do
    let ls := ls.getElems
    `(tactic| repeat (any_goals (first | (first $[| with_reducible apply $ls]*) | pres_step | pres_leaf)))

/-- as `pres_auto`, but also decomposes a `>>=` that is only visible after unfolding `M`
(a raw `fun w => …` continuation); for the primitives only — on composite functions it would
unfold their callees. -/
syntax "pres_auto_deep" ("[" term,* "]")? : tactic
macro_rules
  | `(tactic| pres_auto_deep) => `(tactic| repeat (any_goals (first | pres_step | pres_leaf | apply Preserves.bind)))
  | `(tactic| pres_auto_deep [$ls,*]) => do
    let ls := ls.getElems
    `(tactic| repeat (any_goals (first | (first $[| with_reducible apply $ls]*) | pres_step | pres_leaf | apply Preserves.bind)))

/-! ### specifications with separate success / failure postconditions -/

/-- `Spec P x Q E`: from a world satisfying `P`, `x` either succeeds with `a` in a world satisfying
`Q a`, or fails (with any error) in a world satisfying `E`. -/
def Spec {α : Type} (P : World → Prop) (x : M α) (Q : α → World → Prop) (E : World → Prop) : Prop :=
  ∀ w, P w → match x w with
    | (.ok a, w') => Q a w'
    | (.error _, w') => E w'

theorem Spec.pure {α : Type} {P : World → Prop} {Q : α → World → Prop} {E : World → Prop} (a : α)
    (h : ∀ w, P w → Q a w) : Spec P (pure a : M α) Q E := fun w hw => h w hw

theorem Spec.throw {α : Type} {P : World → Prop} {Q : α → World → Prop} {E : World → Prop} (e : Err)
    (h : ∀ w, P w → E w) : Spec P (throw e : M α) Q E := fun w hw => h w hw

theorem Spec.bind {α β : Type} {P : World → Prop} {x : M α} {f : α → M β} {R : α → World → Prop}
    {E₁ E : World → Prop} {Q : β → World → Prop}
    (hx : Spec P x R E₁) (he : ∀ w, E₁ w → E w) (hf : ∀ a, Spec (R a) (f a) Q E) : Spec P (x >>= f) Q E := by
  intro w hw
  have h := hx w hw
  simp only [bind_run]
  cases hr : x w with
  | mk r w' =>
    rw [hr] at h
    cases r with
    | ok a => exact hf a w' h
    | error e => exact he _ h

theorem Spec.weaken {α : Type} {P P' : World → Prop} {x : M α} {Q Q' : α → World → Prop} {E E' : World → Prop}
    (h : Spec P x Q E) (hp : ∀ w, P' w → P w) (hq : ∀ a w, Q a w → Q' a w) (he : ∀ w, E w → E' w) :
    Spec P' x Q' E' := by
  intro w hw
  have := h w (hp w hw)
  cases hr : x w with
  | mk r w' =>
    rw [hr] at this
    cases r with
    | ok a => exact hq _ _ this
    | error e => exact he _ this

theorem Spec.finallyDo {α : Type} {P : World → Prop} {x : M α} {fin : M Unit} {R Q : α → World → Prop}
    {E₁ E : World → Prop}
    (hx : Spec P x R E₁) (hq : ∀ a, Spec (R a) fin (fun _ => Q a) (Q a)) (he : Spec E₁ fin (fun _ => E) E) :
    Spec P (finallyDo x fin) Q E := by
  intro w hw
  have h := hx w hw
  simp only [finallyDo_run]
  cases hr : x w with
  | mk r w' =>
    rw [hr] at h
    cases r with
    | ok a =>
      have := hq a w' h
      cases hf : fin w' with
      | mk r2 w2 => rw [hf] at this; cases r2 <;> exact this
    | error e =>
      have := he w' h
      cases hf : fin w' with
      | mk r2 w2 => rw [hf] at this; cases r2 <;> exact this

theorem Spec.tryM {α : Type} {P : World → Prop} {x : M α} {R : α → World → Prop} {E₁ : World → Prop}
    (hx : Spec P x R E₁) :
    Spec P (tryM x) (fun r w => match r with | .ok a => R a w | .error _ => E₁ w) (fun _ => False) := by
  intro w hw
  have h := hx w hw
  simp only [tryM_run]
  cases hr : x w with
  | mk r w' =>
    rw [hr] at h
    cases r <;> exact h

theorem _root_.AsherahVerif.Env.Preserves.toSpec {α : Type} {I : World → Prop} {x : M α} (h : Preserves I x) :
    Spec I x (fun _ => I) I := by
  intro w hw
  have := h w hw
  cases hr : x w with
  | mk r w' => rw [hr] at this; cases r <;> exact this

theorem Spec.toPreserves {α : Type} {I : World → Prop} {x : M α} (h : Spec I x (fun _ => I) I) : Preserves I x := by
  intro w hw
  have := h w hw
  cases hr : x w with
  | mk r w' => rw [hr] at this; cases r <;> exact this

theorem Spec.and {α : Type} {P P' : World → Prop} {x : M α} {Q Q' : α → World → Prop} {E E' : World → Prop}
    (h : Spec P x Q E) (h' : Spec P' x Q' E') :
    Spec (fun w => P w ∧ P' w) x (fun a w => Q a w ∧ Q' a w) (fun w => E w ∧ E' w) := by
  intro w hw
  have h1 := h w hw.1
  have h2 := h' w hw.2
  cases hr : x w with
  | mk r w' => rw [hr] at h1 h2; cases r <;> exact ⟨h1, h2⟩

/-- a computation that always succeeds. -/
theorem Spec.intro_ok {α : Type} {P : World → Prop} {x : M α} {Q : α → World → Prop} {E : World → Prop}
    (h : ∀ w, P w → ∃ a w', x w = (.ok a, w') ∧ Q a w') : Spec P x Q E := by
  intro w hw
  obtain ⟨a, w', hr, hq⟩ := h w hw
  rw [hr]; exact hq

/-- reading the outcome of a `Spec` at a concrete run. -/
theorem Spec.run_ok {α : Type} {P : World → Prop} {x : M α} {Q : α → World → Prop} {E : World → Prop}
    (h : Spec P x Q E) {w w' : World} {a : α} (hw : P w) (hr : x w = (.ok a, w')) : Q a w' := by
  have := h w hw; rw [hr] at this; exact this
theorem Spec.run_err {α : Type} {P : World → Prop} {x : M α} {Q : α → World → Prop} {E : World → Prop}
    (h : Spec P x Q E) {w w' : World} {e : Err} (hw : P w) (hr : x w = (.error e, w')) : E w' := by
  have := h w hw; rw [hr] at this; exact this

/-- one structural step of a `Spec` proof. -/
macro "spec_step" : tactic => `(tactic| first
  | with_reducible exact Spec.pure _ (fun _ h => h)
  | with_reducible exact Spec.throw _ (fun _ h => h)
  | with_reducible exact Preserves.pure _ | with_reducible exact Preserves.throw _ | with_reducible exact Preserves.get
  | with_reducible exact keyObj_preserves _ | with_reducible exact getCache_preserves _
  | with_reducible assumption
  | with_reducible apply Spec.finallyDo | with_reducible apply Spec.tryM | with_reducible apply Spec.bind
  | with_reducible apply Preserves.finallyDo | with_reducible apply Preserves.tryM | with_reducible apply Preserves.bind
  | with_reducible apply Preserves.toSpec
  | contradiction
  | intro_prop | split | dsimp only)

/-- `Spec` proofs: unfold the function, then `spec_auto [lemmas about the functions it calls]`
(both `Spec` and `Preserves` lemmas). -/
syntax "spec_auto" ("[" term,* "]")? : tactic
macro_rules
  | `(tactic| spec_auto) => `(tactic| repeat (any_goals (first | spec_step | pres_leaf)))
  | `(tactic| spec_auto [$ls,*]) => do
    let ls := ls.getElems
    `(tactic| repeat (any_goals (first | (first $[| with_reducible apply $ls]*) | spec_step | pres_leaf)))

/-! ### list helpers -/

theorem getElem?_append_single {α : Type} (l : List α) (x : α) (i : Nat) :
    (l ++ [x])[i]? = if i < l.length then l[i]? else if i = l.length then some x else none := by
  by_cases h : i < l.length
  · simp [h, List.getElem?_append_left h]
  · by_cases h2 : i = l.length
    · subst h2; simp
    · have : l.length + 1 ≤ i := by omega
      simp [h, h2, List.getElem?_eq_none, this]

theorem getD_eq_of_getElem? {α : Type} {l : List α} {i : Nat} {a d : α} (h : l[i]? = some a) : l.getD i d = a := by
  simp [List.getD_eq_getElem?_getD, h]

theorem getElem?_lt {α : Type} {l : List α} {i : Nat} {a : α} (h : l[i]? = some a) : i < l.length := by
  apply Classical.byContradiction; intro hc
  rw [List.getElem?_eq_none (by omega)] at h; cases h

end AsherahVerif.Env.Res
