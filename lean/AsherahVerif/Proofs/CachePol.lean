import AsherahVerif.Proofs.CachePolicy
/-
C15 helper lemmas, policy level: for all four policies, `access/admit/remove/victim` act on the set
of keys the policy tracks as the set operations they are meant to be.
-/
namespace AsherahVerif.Cache.Pol

theorem mem_access {p : Pol} {k x : Nat} (hk : k ∈ p.keys) (hn : p.keys.Nodup) :
    x ∈ (p.access k).keys ↔ x ∈ p.keys := by
  cases p with
  | lru o => exact mem_moveFront hk
  | lfu e =>
    simp only [access, keys] at *
    rw [lfu_mem_incr]; constructor
    · rintro (h | h); subst h; exact hk; exact h
    · exact Or.inr
  | slru s => exact Slru.mem_access hk hn
  | tiny c w s =>
    simp only [keys] at hk hn
    rw [List.nodup_append] at hn
    simp only [access]
    split
    · next hw => simp only [keys, List.mem_append, mem_moveFront hw]
    · next hw =>
      have hs : k ∈ s.keys := by cases List.mem_append.mp hk with | inl h => exact absurd h hw | inr h => exact h
      simp only [keys, List.mem_append, Slru.mem_access hs hn.2.1]

theorem nodup_access {p : Pol} {k : Nat} (hk : k ∈ p.keys) (hn : p.keys.Nodup) :
    (p.access k).keys.Nodup := by
  cases p with
  | lru o => exact nodup_moveFront hn
  | lfu e => exact lfu_nodup_incr hn
  | slru s => exact Slru.nodup_access hk hn
  | tiny c w s =>
    simp only [keys] at hk hn
    rw [List.nodup_append] at hn
    obtain ⟨h1, h2, h3⟩ := hn
    simp only [access]
    split
    · next hw =>
      simp only [keys]; rw [List.nodup_append]
      exact ⟨nodup_moveFront h1, h2, fun a ha b hb => h3 a ((mem_moveFront hw).mp ha) b hb⟩
    · next hw =>
      have hs : k ∈ s.keys := by cases List.mem_append.mp hk with | inl h => exact absurd h hw | inr h => exact h
      simp only [keys]; rw [List.nodup_append]
      exact ⟨h1, Slru.nodup_access hs h2, fun a ha b hb => h3 a ha b ((Slru.mem_access hs h2).mp hb)⟩

theorem mem_admit {p : Pol} {k x : Nat} (hn : p.keys.Nodup) :
    x ∈ (p.admit k).keys ↔ x = k ∨ x ∈ p.keys := by
  cases p with
  | lru o => simp [admit, keys]
  | lfu e => exact lfu_mem_incr
  | slru s => exact Slru.mem_admit
  | tiny c w s =>
    simp only [keys] at hn
    simp only [admit]
    split
    · simp only [keys, List.mem_append, Slru.mem_admit]; grind
    · split
      · simp only [keys, List.mem_append, List.mem_cons]; grind
      · split
        · next v hv =>
          have hm := @mem_dropLast_or_last w v x hv
          simp only [keys, List.mem_append, List.mem_cons, Slru.mem_admit]; grind
        · simp only [keys, List.mem_append, List.mem_cons]; grind

theorem nodup_admit {p : Pol} {k : Nat} (hk : k ∉ p.keys) (hn : p.keys.Nodup) :
    (p.admit k).keys.Nodup := by
  cases p with
  | lru o => exact List.nodup_cons.mpr ⟨hk, hn⟩
  | lfu e => exact lfu_nodup_incr hn
  | slru s => exact Slru.nodup_admit hk hn
  | tiny c w s =>
    simp only [keys] at hk hn
    rw [List.nodup_append] at hn
    obtain ⟨h1, h2, h3⟩ := hn
    simp only [admit]
    have hkw : k ∉ w := fun h => hk (List.mem_append.mpr (Or.inl h))
    have hks : k ∉ s.keys := fun h => hk (List.mem_append.mpr (Or.inr h))
    split
    · simp only [keys]; rw [List.nodup_append]
      refine ⟨h1, Slru.nodup_admit hks h2, ?_⟩
      intro a ha b hb
      rcases Slru.mem_admit.mp hb with h | h
      · subst h; intro e; subst e; exact hkw ha
      · exact h3 a ha b h
    · split
      · simp only [keys]; rw [List.nodup_append]
        refine ⟨List.nodup_cons.mpr ⟨hkw, h1⟩, h2, ?_⟩
        intro a ha b hb
        rcases List.mem_cons.mp ha with h | h
        · subst h; intro e; subst e; exact hks hb
        · exact h3 a h b hb
      · split
        · next v hv =>
          have hvm := getLast?_mem hv
          have ⟨hdn, hvn⟩ := nodup_dropLast_last hv h1
          have hm := fun x => @mem_dropLast_or_last w v x hv
          have hvs : v ∉ s.keys := fun h => h3 v hvm v h rfl
          have hvk : v ≠ k := fun e => hkw (e ▸ hvm)
          simp only [keys]; rw [List.nodup_append]
          refine ⟨List.nodup_cons.mpr ⟨fun h => hkw ((hm k).mpr (Or.inl h)), hdn⟩, Slru.nodup_admit hvs h2, ?_⟩
          intro a ha b hb
          rcases Slru.mem_admit.mp hb with h | h
          · subst h
            rcases List.mem_cons.mp ha with h | h
            · subst h; exact fun e => hvk e.symm
            · intro e; subst e; exact hvn h
          · rcases List.mem_cons.mp ha with h' | h'
            · subst h'; intro e; subst e; exact hks h
            · exact h3 a ((hm a).mpr (Or.inl h')) b h
        · simp only [keys]; rw [List.nodup_append]
          refine ⟨List.nodup_cons.mpr ⟨hkw, h1⟩, h2, ?_⟩
          intro a ha b hb
          rcases List.mem_cons.mp ha with h | h
          · subst h; intro e; subst e; exact hks hb
          · exact h3 a h b hb

theorem mem_remove {p : Pol} {k x : Nat} (hn : p.keys.Nodup) :
    x ∈ (p.remove k).keys ↔ x ≠ k ∧ x ∈ p.keys := by
  cases p with
  | lru o => exact List.Nodup.mem_erase_iff hn
  | lfu e => exact lfu_mem_erase
  | slru s => exact Slru.mem_remove hn
  | tiny c w s =>
    simp only [keys] at hn
    rw [List.nodup_append] at hn
    obtain ⟨h1, h2, h3⟩ := hn
    simp only [remove]
    have e1 := @List.Nodup.mem_erase_iff _ _ w k _ x h1
    have e2 := @Slru.mem_remove s k x h2
    split <;> simp only [keys, List.mem_append] <;> grind

theorem nodup_remove {p : Pol} {k : Nat} (hn : p.keys.Nodup) : (p.remove k).keys.Nodup := by
  cases p with
  | lru o => exact hn.erase k
  | lfu e => exact lfu_nodup_erase hn
  | slru s => exact Slru.nodup_remove hn
  | tiny c w s =>
    simp only [keys] at hn
    rw [List.nodup_append] at hn
    obtain ⟨h1, h2, h3⟩ := hn
    simp only [remove]
    split
    · simp only [keys]; rw [List.nodup_append]
      exact ⟨h1.erase k, h2, fun a ha b hb => h3 a (List.mem_of_mem_erase ha) b hb⟩
    · simp only [keys]; rw [List.nodup_append]
      exact ⟨h1, Slru.nodup_remove h2, fun a ha b hb => h3 a ha b ((Slru.mem_remove h2).mp hb).2⟩

theorem victim_none {p : Pol} {o : Bool} : (p.victim o).1 = none ↔ p.keys = [] := by
  cases p with
  | lru l => simp [victim, keys]
  | lfu e => simp [victim, keys, lfuVictim_none]
  | slru s => simp [victim, keys, Slru.victim_none]
  | tiny c w s =>
    simp only [victim, keys]
    cases hw : w.getLast? with
    | none => simp [getLast?_none_iff.mp hw, Slru.victim_none]
    | some cand =>
      have := getLast?_mem hw
      cases hs : s.victim with
      | none => simp; intro h; rw [h] at this; simp at this
      | some v => cases o <;> simp <;> (intro h; rw [h] at this; simp at this)

theorem victim_mem {p : Pol} {o : Bool} {v : Nat} (h : (p.victim o).1 = some v) : v ∈ p.keys := by
  cases p with
  | lru l => exact getLast?_mem h
  | lfu e => exact lfuVictim_mem h
  | slru s => exact Slru.victim_mem h
  | tiny c w s =>
    simp only [victim, keys] at *
    cases hw : w.getLast? with
    | none => rw [hw] at h; exact List.mem_append.mpr (Or.inr (Slru.victim_mem h))
    | some cand =>
      rw [hw] at h
      have hc := getLast?_mem hw
      cases hs : s.victim with
      | none => rw [hs] at h; simp at h; subst h; exact List.mem_append.mpr (Or.inl hc)
      | some v' =>
        rw [hs] at h
        cases o
        · simp at h; subst h; exact List.mem_append.mpr (Or.inl hc)
        · simp at h; subst h; exact List.mem_append.mpr (Or.inr (Slru.victim_mem hs))

theorem victim_keys_mem {p : Pol} {o : Bool} {x : Nat} :
    x ∈ (p.victim o).2.keys ↔ x ∈ p.keys := by
  cases p with
  | lru l => simp [victim]
  | lfu e => simp [victim]
  | slru s => simp [victim]
  | tiny c w s =>
    simp only [victim]
    cases hw : w.getLast? with
    | none => simp
    | some cand =>
      cases hs : s.victim with
      | none => simp
      | some v' =>
        cases o
        · simp
        · have hm := @mem_dropLast_or_last w cand x hw
          simp only [if_true, keys, List.mem_append, Slru.mem_admit]; grind

theorem victim_nodup {p : Pol} {o : Bool} (hn : p.keys.Nodup) : (p.victim o).2.keys.Nodup := by
  cases p with
  | lru l => exact hn
  | lfu e => exact hn
  | slru s => exact hn
  | tiny c w s =>
    simp only [victim]
    cases hw : w.getLast? with
    | none => exact hn
    | some cand =>
      cases hs : s.victim with
      | none => exact hn
      | some v' =>
        cases o
        · exact hn
        · simp only [if_true, keys] at *
          rw [List.nodup_append] at hn ⊢
          obtain ⟨h1, h2, h3⟩ := hn
          have hc := getLast?_mem hw
          have ⟨hdn, hcn⟩ := nodup_dropLast_last hw h1
          have hm := fun x => @mem_dropLast_or_last w cand x hw
          have hcs : cand ∉ s.keys := fun h => h3 cand hc cand h rfl
          refine ⟨hdn, Slru.nodup_admit hcs h2, ?_⟩
          intro a ha b hb
          rcases Slru.mem_admit.mp hb with h | h
          · subst h; intro e; subst e; exact hcn ha
          · exact h3 a ((hm a).mpr (Or.inl ha)) b h

end AsherahVerif.Cache.Pol
