import AsherahVerif.Model.Cache
/-
Helper lemmas for C15: every policy operation acts on the policy's key set exactly like the
corresponding set operation and preserves duplicate-freeness.
-/
namespace AsherahVerif.Cache

theorem mem_moveFront {k x : Nat} {l : List Nat} (hk : k ∈ l) : x ∈ moveFront k l ↔ x ∈ l := by
  unfold moveFront
  by_cases hx : x = k
  · subst hx; simp [hk]
  · simp [hx, List.mem_erase_of_ne hx]

theorem nodup_moveFront {k : Nat} {l : List Nat} (hn : l.Nodup) : (moveFront k l).Nodup := by
  unfold moveFront
  refine List.nodup_cons.mpr ⟨?_, hn.erase k⟩
  intro h
  exact (List.Nodup.mem_erase_iff hn).mp h |>.1 rfl

theorem dropLast_append_of_getLast? {l : List Nat} {b : Nat} (h : l.getLast? = some b) :
    l.dropLast ++ [b] = l := by
  cases l with
  | nil => simp at h
  | cons a t =>
    have hne : a :: t ≠ [] := by simp
    have e := List.dropLast_concat_getLast hne
    rw [List.getLast?_eq_some_getLast hne] at h
    injection h with h
    rw [← h]; exact e

theorem mem_dropLast_or_last {l : List Nat} {b x : Nat} (h : l.getLast? = some b) :
    x ∈ l ↔ (x ∈ l.dropLast ∨ x = b) := by
  have := dropLast_append_of_getLast? h
  constructor
  · intro hx; rw [← this] at hx; simpa using hx
  · intro hx; rw [← this]; simpa using hx

theorem nodup_dropLast_last {l : List Nat} {b : Nat} (h : l.getLast? = some b) (hn : l.Nodup) :
    l.dropLast.Nodup ∧ b ∉ l.dropLast := by
  have e := dropLast_append_of_getLast? h
  rw [← e] at hn
  have := List.nodup_append.mp hn
  refine ⟨this.1, ?_⟩
  intro hb
  exact this.2.2 b hb b (by simp) rfl

theorem getLast?_mem {l : List Nat} {b : Nat} (h : l.getLast? = some b) : b ∈ l :=
  List.mem_of_getLast? h

theorem getLast?_none_iff {l : List Nat} : l.getLast? = none ↔ l = [] := List.getLast?_eq_none_iff

end AsherahVerif.Cache

namespace AsherahVerif.Cache

/-! ### SLRU -/
namespace Slru

theorem nodup_keys_iff (s : Slru) :
    s.keys.Nodup ↔ s.prob.Nodup ∧ s.prot.Nodup ∧ ∀ a ∈ s.prob, ∀ b ∈ s.prot, a ≠ b := by
  unfold keys; exact List.nodup_append

theorem mem_keys (s : Slru) (x : Nat) : x ∈ s.keys ↔ x ∈ s.prob ∨ x ∈ s.prot := by
  unfold keys; simp

theorem mem_access {s : Slru} {k x : Nat} (hk : k ∈ s.keys) (hn : s.keys.Nodup) :
    x ∈ (s.access k).keys ↔ x ∈ s.keys := by
  rw [nodup_keys_iff] at hn
  obtain ⟨hn1, hn2, hd⟩ := hn
  rw [mem_keys] at hk
  unfold access
  split
  · next hp => simp [mem_keys, mem_moveFront hp]
  · next hp =>
    have hkb : k ∈ s.prob := by cases hk with | inl h => exact h | inr h => exact absurd h hp
    simp only []
    split
    · split
      · next b hb =>
        have hm := @mem_dropLast_or_last (k :: s.prot) b x hb
        simp only [mem_keys, List.mem_cons]
        by_cases hxk : x = k
        · subst hxk
          constructor
          · intro _; exact Or.inl hkb
          · intro _
            have := hm.mp (by simp)
            cases this with
            | inl h => exact Or.inr h
            | inr h => exact Or.inl (Or.inl h)
        · rw [List.mem_erase_of_ne hxk]
          constructor
          · rintro ((h | h) | h)
            · have : b ∈ k :: s.prot := getLast?_mem hb
              subst h
              cases List.mem_cons.mp this with
              | inl h => exact absurd h hxk
              | inr h => exact Or.inr h
            · exact Or.inl h
            · have := hm.mpr (Or.inl h)
              cases List.mem_cons.mp this with
              | inl h => exact absurd h hxk
              | inr h => exact Or.inr h
          · rintro (h | h)
            · exact Or.inl (Or.inr h)
            · have := hm.mp (List.mem_cons_of_mem _ h)
              cases this with
              | inl h => exact Or.inr h
              | inr h => exact Or.inl (Or.inl h)
      · next hb => simp at hb
    · simp only [mem_keys, List.mem_cons]
      by_cases hxk : x = k
      · subst hxk; simp [hkb]
      · rw [List.mem_erase_of_ne hxk]; simp [hxk]

theorem nodup_access {s : Slru} {k : Nat} (hk : k ∈ s.keys) (hn : s.keys.Nodup) :
    (s.access k).keys.Nodup := by
  rw [nodup_keys_iff] at hn ⊢
  obtain ⟨hn1, hn2, hd⟩ := hn
  rw [mem_keys] at hk
  unfold access
  split
  · next hp =>
    refine ⟨hn1, nodup_moveFront hn2, ?_⟩
    intro a ha b hb
    exact hd a ha b ((mem_moveFront hp).mp hb)
  · next hp =>
    have hkb : k ∈ s.prob := by cases hk with | inl h => exact h | inr h => exact absurd h hp
    have hne : (s.prob.erase k).Nodup := hn1.erase k
    have hkn : k ∉ s.prob.erase k := fun h => ((List.Nodup.mem_erase_iff hn1).mp h).1 rfl
    have hsub : ∀ a, a ∈ s.prob.erase k → a ∈ s.prob := fun a h => List.mem_of_mem_erase h
    have hkp : (k :: s.prot).Nodup := List.nodup_cons.mpr ⟨hp, hn2⟩
    simp only []
    split
    · split
      · next b hb =>
        have hbm := getLast?_mem hb
        have ⟨hdn, hbn⟩ := nodup_dropLast_last hb hkp
        have hm := fun x => @mem_dropLast_or_last (k :: s.prot) b x hb
        grind
      · next hb => simp at hb
    · grind

theorem mem_admit {s : Slru} {k x : Nat} : x ∈ (s.admit k).keys ↔ x = k ∨ x ∈ s.keys := by
  simp [admit, mem_keys, or_assoc]

theorem nodup_admit {s : Slru} {k : Nat} (hk : k ∉ s.keys) (hn : s.keys.Nodup) :
    (s.admit k).keys.Nodup := by
  rw [nodup_keys_iff] at hn ⊢
  rw [mem_keys] at hk
  simp only [admit]
  grind

theorem mem_remove {s : Slru} {k x : Nat} (hn : s.keys.Nodup) :
    x ∈ (s.remove k).keys ↔ x ≠ k ∧ x ∈ s.keys := by
  rw [nodup_keys_iff] at hn
  obtain ⟨hn1, hn2, hd⟩ := hn
  have h1 := @List.Nodup.mem_erase_iff _ _ s.prob k _ x hn1
  have h2 := @List.Nodup.mem_erase_iff _ _ s.prot k _ x hn2
  unfold remove
  split <;> simp only [mem_keys] <;> grind

theorem nodup_remove {s : Slru} {k : Nat} (hn : s.keys.Nodup) : (s.remove k).keys.Nodup := by
  rw [nodup_keys_iff] at hn ⊢
  obtain ⟨hn1, hn2, hd⟩ := hn
  have e1 := hn1.erase k
  have e2 := hn2.erase k
  have s1 : ∀ a, a ∈ s.prob.erase k → a ∈ s.prob := fun a h => List.mem_of_mem_erase h
  have s2 : ∀ a, a ∈ s.prot.erase k → a ∈ s.prot := fun a h => List.mem_of_mem_erase h
  unfold remove
  split <;> simp only [] <;> grind

theorem victim_none {s : Slru} : s.victim = none ↔ s.keys = [] := by
  unfold victim keys
  cases h1 : s.prob.getLast? with
  | some b => have := getLast?_mem h1; simp; intro h; rw [h] at this; simp at this
  | none => simp [getLast?_none_iff.mp h1]

theorem victim_mem {s : Slru} {v : Nat} (h : s.victim = some v) : v ∈ s.keys := by
  unfold victim at h
  rw [mem_keys]
  cases h1 : s.prob.getLast? with
  | some b => rw [h1] at h; injection h with h; subst h; exact Or.inl (getLast?_mem h1)
  | none => rw [h1] at h; exact Or.inr (getLast?_mem h)

end Slru

/-! ### LFU -/

theorem lfu_mem_erase {e : List (Nat × Nat)} {k x : Nat} :
    x ∈ (lfuErase e k).map (·.1) ↔ x ≠ k ∧ x ∈ e.map (·.1) := by
  unfold lfuErase
  simp only [List.mem_map, List.mem_filter]
  constructor
  · rintro ⟨a, ⟨ha, hk⟩, rfl⟩; exact ⟨by simpa using hk, a, ha, rfl⟩
  · rintro ⟨hk, a, ha, rfl⟩; exact ⟨a, ⟨ha, by simpa using hk⟩, rfl⟩

theorem lfu_nodup_erase {e : List (Nat × Nat)} {k : Nat} (hn : (e.map (·.1)).Nodup) :
    ((lfuErase e k).map (·.1)).Nodup := by
  unfold lfuErase
  exact (List.filter_sublist.map _).nodup hn

theorem lfuFreq_none {e : List (Nat × Nat)} {k : Nat} : lfuFreq e k = none ↔ k ∉ e.map (·.1) := by
  unfold lfuFreq
  simp only [Option.map_eq_none_iff, List.find?_eq_none, List.mem_map]
  constructor
  · rintro h ⟨a, ha, rfl⟩; exact (h a ha) (by simp)
  · intro h a ha hk; exact h ⟨a, ha, by simpa using hk⟩

theorem lfu_mem_incr {e : List (Nat × Nat)} {k x : Nat} :
    x ∈ (lfuIncr e k).map (·.1) ↔ x = k ∨ x ∈ e.map (·.1) := by
  unfold lfuIncr
  cases h : lfuFreq e k with
  | none => simp only [List.map_append, List.mem_append, List.map_cons, List.map_nil, List.mem_singleton]; grind
  | some f =>
    have hk : k ∈ e.map (·.1) := by
      apply Classical.byContradiction; intro hc; rw [lfuFreq_none.mpr hc] at h; cases h
    have := @lfu_mem_erase e k x
    simp only [List.map_append, List.mem_append, List.map_cons, List.map_nil, List.mem_singleton]
    grind

theorem lfu_nodup_incr {e : List (Nat × Nat)} {k : Nat} (hn : (e.map (·.1)).Nodup) :
    ((lfuIncr e k).map (·.1)).Nodup := by
  unfold lfuIncr
  cases h : lfuFreq e k with
  | none =>
    have hk := lfuFreq_none.mp h
    simp only [List.map_append, List.map_cons, List.map_nil]
    rw [List.nodup_append]
    refine ⟨hn, by simp, ?_⟩
    intro a ha b hb; simp at hb; subst hb; intro e'; subst e'; exact hk ha
  | some f =>
    simp only [List.map_append, List.map_cons, List.map_nil]
    rw [List.nodup_append]
    refine ⟨lfu_nodup_erase hn, by simp, ?_⟩
    intro a ha b hb; simp at hb; subst hb
    exact (lfu_mem_erase.mp ha).1

theorem lfuMin_none {e : List (Nat × Nat)} : lfuMin e = none ↔ e = [] := by
  cases e with
  | nil => simp [lfuMin]
  | cons a t => obtain ⟨k, f⟩ := a; simp only [lfuMin]; split <;> simp

theorem lfuMin_mem {e : List (Nat × Nat)} {m : Nat} (h : lfuMin e = some m) : ∃ k, (k, m) ∈ e := by
  induction e generalizing m with
  | nil => simp [lfuMin] at h
  | cons a t ih =>
    obtain ⟨k, f⟩ := a
    simp only [lfuMin] at h
    split at h
    · injection h with h; subst h; exact ⟨k, by simp⟩
    · next m' hm =>
      injection h with h
      obtain ⟨k', hk'⟩ := ih hm
      by_cases hle : f ≤ m'
      · rw [Nat.min_eq_left hle] at h; subst h; exact ⟨k, by simp⟩
      · rw [Nat.min_eq_right (by omega)] at h; subst h; exact ⟨k', by simp [hk']⟩

theorem lfuMin_le {e : List (Nat × Nat)} {m : Nat} (h : lfuMin e = some m) :
    ∀ p ∈ e, m ≤ p.2 := by
  induction e generalizing m with
  | nil => simp
  | cons a t ih =>
    obtain ⟨k, f⟩ := a
    simp only [lfuMin] at h
    split at h
    · next hm =>
      injection h with h; subst h
      intro p hp
      rw [lfuMin_none.mp hm] at hp
      simp at hp; subst hp; exact Nat.le_refl _
    · next m' hm =>
      injection h with h
      intro p hp
      cases List.mem_cons.mp hp with
      | inl hp => subst hp; subst h; exact Nat.min_le_left _ _
      | inr hp => have := ih hm p hp; subst h; exact Nat.le_trans (Nat.min_le_right _ _) this

theorem lfuVictim_none {e : List (Nat × Nat)} : lfuVictim e = none ↔ e = [] := by
  unfold lfuVictim
  cases h : lfuMin e with
  | none => simp [lfuMin_none.mp h]
  | some m =>
    obtain ⟨k, hk⟩ := lfuMin_mem h
    simp only [Option.map_eq_none_iff, List.find?_eq_none]
    constructor
    · intro hc; exact absurd (hc _ hk) (by simp)
    · intro he; rw [he] at hk; simp at hk

theorem lfuVictim_mem {e : List (Nat × Nat)} {v : Nat} (h : lfuVictim e = some v) :
    v ∈ e.map (·.1) := by
  unfold lfuVictim at h
  cases hm : lfuMin e with
  | none => rw [hm] at h; cases h
  | some m =>
    rw [hm] at h
    simp only [Option.map_eq_some_iff] at h
    obtain ⟨a, ha, rfl⟩ := h
    exact List.mem_map.mpr ⟨a, List.mem_of_find?_eq_some ha, rfl⟩

end AsherahVerif.Cache
