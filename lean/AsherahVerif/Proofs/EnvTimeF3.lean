import AsherahVerif.Proofs.EnvTimeF2
/-
Timed calculus under faults, part 3: the key-cache load paths (`load`, `GetOrLoad`,
`GetOrLoadLatest`) against the invariant `A`, generic in the loader and for every cache mode.
A loader that keeps `A` and returns an existing key whose stamp satisfies `P` — unless a `store`
was hit by a fault — yields the same through the cache; `GetOrLoadLatest` moreover only hands out a
cached key after checking it against the clock.
-/
set_option linter.unusedVariables false
namespace AsherahVerif.Env.TimeF
open AsherahVerif.Env

variable {fl : List Fault} {D : List Row → Prop} {t : Int}

/-- the loader contract under faults. -/
def LoaderF (fl : List Fault) (D : List Row → Prop) (t : Int) (P : Int → Prop) (loader : KeyMeta → M Nat)
    (m : KeyMeta) : Prop :=
  ∀ w, A fl D t w → Wp (loader m) w fun r w' => Bad fl w' ∨ (A fl D t w' ∧ ∀ k, r = .ok k → KX P w' k)

/-- caching a freshly loaded key. -/
theorem freshWrite_f {P : Int → Prop} (c : Nat) (m : KeyMeta) (k : Nat) (w : World) (h : A fl D t w) (hk : KX P w k) :
    Wp (do let w ← get; keyWrap k; cacheWrite c m { loadedAt := w.now, obj := k }; pure k) w fun r w' =>
      Bad fl w' ∨ (A fl D t w' ∧ ∀ k', r = .ok k' → KX P w' k') := by
  apply Wp.bind; apply Wp.get; simp only []
  refine Wp.bind_unit rfl ?_
  have h1 := h.keyWrap k
  have hk1 := hk.ext (keyWrap_ext k w)
  generalize (keyWrap k w).2 = w1 at h1 hk1 ⊢
  have h2 := h1.cacheWrite c m { loadedAt := w.now, obj := k } hk1.lt
  have hk2 := hk1.ext (cacheWrite_ext c m { loadedAt := w.now, obj := k } w1)
  refine Wp.bind_world (fun e => Or.inr ⟨h2, fun k' hk' => by cases hk'⟩) (fun _ => ?_)
  exact Or.inr ⟨h2, fun k' hk' => by cases hk'; exact hk2⟩

/-- `keyCache.load`. -/
theorem cacheLoad_f {P : Int → Prop} {loader : KeyMeta → M Nat} (hlg : ∀ m, Resp LG (loader m)) (c : Nat) (m : KeyMeta)
    (hl : LoaderF fl D t P loader m) (w : World) (h : A fl D t w) :
    Wp (cacheLoad c m loader) w fun r w' => Bad fl w' ∨ (A fl D t w' ∧ ∀ k, r = .ok k → KX P w' k) := by
  unfold cacheLoad
  refine Wp.bindB (hl w h) (badQ_base _) (by lg_auto [hlg]) ?_
  intro r w1 ⟨h1, hk1⟩
  cases r with
  | error e => exact Or.inr ⟨h1, fun k hk => by cases hk⟩
  | ok k =>
    simp only []
    have hkx := hk1 k rfl
    apply Wp.bind; apply Wp.keyObj; simp only []
    apply Wp.bind
    apply Wp.mono (cacheRead_wp c m w1)
    intro r2 w2 ⟨hsv, o, ho, ho1, _, _⟩
    subst ho
    simp only []
    have h2 : A fl D t w2 := h1.sv hsv
    have hkx2 : KX P w2 k := hkx.ext (CW.of_sv hsv).ext
    cases o with
    | none => exact freshWrite_f c m k w2 h2 hkx2
    | some e =>
      simp only []
      apply Wp.bind; apply Wp.keyObj; simp only []
      split
      · rename_i hceq
        -- merge into the existing entry of the same key
        have helt : e.obj < w2.keys.length := by
          rw [hsv.keys]; exact h1.read_lt (ho1 e rfl)
        have hpe : P (keyAt w2 e.obj).created := by rw [hceq]; exact hkx.stamp
        have hke : KX P w2 e.obj := KX.of_lt helt hpe
        refine Wp.bind_unit rfl ?_
        have hext3 := revokedSet_ext e.obj (keyAt w1 k).revoked w2
        have h3 : A fl D t (modify (fun w => { w with keys := setAt w.keys e.obj fun x => { x with revoked := (keyAt w1 k).revoked } }) w2).2 :=
          h2.below hext3 (TK.of_same rfl rfl) rfl rfl
        have hke3 := hke.ext hext3
        generalize (modify (fun w => { w with keys := setAt w.keys e.obj fun x => { x with revoked := (keyAt w1 k).revoked } }) w2).2 = w3
          at h3 hke3 ⊢
        apply Wp.bind; apply Wp.get; simp only []
        refine Wp.bind_unit (keyCloseRaw_ok k w3) ?_
        have h4 := h3.keyCloseRaw k
        have hke4 := hke3.ext (keyCloseRaw_ext k w3)
        generalize (keyCloseRaw k w3).2 = w4 at h4 hke4 ⊢
        have h5 := h4.cacheWrite c m { e with loadedAt := w3.now } hke4.lt
        have hke5 := hke4.ext (cacheWrite_ext c m { e with loadedAt := w3.now } w4)
        refine Wp.bind_world (fun e' => Or.inr ⟨h5, fun k' hk' => by cases hk'⟩) (fun _ => ?_)
        exact Or.inr ⟨h5, fun k' hk' => by cases hk'; exact hke5⟩
      · exact freshWrite_f c m k w2 h2 hkx2

/-- the key a `getFresh` hit returns exists. -/
theorem getFresh_f (c : Nat) (m : KeyMeta) (i : Int) (w : World) (h : A fl D t w) :
    Wp (getFresh c m i) w fun r w' => A fl D t w' ∧ SV w w' ∧ ∃ ko fr, r = .ok (ko, fr) ∧
      ∀ k, ko = some k → k < w'.keys.length := by
  apply Wp.mono (getFresh_wp c m i w)
  intro r w' ⟨hsv, ko, fr, hr, hcase⟩
  refine ⟨h.sv hsv, hsv, ko, fr, hr, fun k hk => ?_⟩
  rcases hcase with ⟨h1, -, -⟩ | ⟨e, he, h1, -⟩
  · rw [h1] at hk; cases hk
  · rw [h1] at hk; cases hk
    rw [hsv.keys]; exact h.read_lt he

/-- `keyCacher.GetOrLoad`, every mode: the invariant is kept. -/
theorem getOrLoad_f {P : Int → Prop} {loader : KeyMeta → M Nat} (hlg : ∀ m, Resp LG (loader m)) (c : Nat) (m : KeyMeta)
    (hl : LoaderF fl D t P loader m) (i : Int) (w : World) (h : A fl D t w) :
    Wp (getOrLoad c m i loader) w fun r w' => Bad fl w' ∨ A fl D t w' := by
  have hit : ∀ (w1 : World) (k : Nat), A fl D t w1 →
      Wp (do keyIncr k; pure k) w1 fun r w' => Bad fl w' ∨ A fl D t w' :=
    fun w1 k h1 => Wp.bind_unit rfl (Or.inr (h1.keyIncr k))
  have load : ∀ (w1 : World), A fl D t w1 →
      Wp (do let k ← cacheLoad c m loader; keyIncr k; pure k) w1 fun r w' => Bad fl w' ∨ A fl D t w' := by
    intro w1 h1
    refine Wp.bindB (cacheLoad_f hlg c m hl w1 h1) (badQ_base _) (by lg_auto) ?_
    intro r w2 ⟨h2, _⟩
    cases r with
    | error e => exact Or.inr h2
    | ok k => exact hit w2 k h2
  have cached : Wp (do
        match ← getFresh c m i with
        | (some k, true) => keyIncr k; pure k
        | _ =>
          match ← getFresh c m i with
          | (some k, true) => keyIncr k; pure k
          | _ =>
            let k ← cacheLoad c m loader
            keyIncr k
            pure k) w fun r w' => Bad fl w' ∨ A fl D t w' := by
    have second : ∀ w1, A fl D t w1 → Wp (do
          match ← getFresh c m i with
          | (some k, true) => keyIncr k; pure k
          | _ =>
            let k ← cacheLoad c m loader
            keyIncr k
            pure k) w1 fun r w' => Bad fl w' ∨ A fl D t w' := by
      intro w1 h1
      apply Wp.bind
      apply Wp.mono (getFresh_f c m i w1 h1)
      rintro r w2 ⟨h2, -, ko, fr, hr, -⟩
      subst hr
      simp only []
      cases ko with
      | none => exact load w2 h2
      | some k =>
        cases fr with
        | false => exact load w2 h2
        | true => exact hit w2 k h2
    apply Wp.bind
    apply Wp.mono (getFresh_f c m i w h)
    rintro r w1 ⟨h1, -, ko, fr, hr, -⟩
    subst hr
    simp only []
    cases ko with
    | none => exact second w1 h1
    | some k =>
      cases fr with
      | false => exact second w1 h1
      | true => exact hit w1 k h1
  unfold getOrLoad
  apply Wp.bind; apply Wp.getCache; simp only []
  cases hmode : (cacheAt w c).mode with
  | never =>
    simp only []
    refine Wp.bindB (hl w h) (badQ_base _) (by lg_auto) ?_
    intro r w1 ⟨h1, _⟩
    cases r with
    | error e => exact Or.inr h1
    | ok k => exact Wp.bind_unit rfl (Or.inr (h1.keyWrap k))
  | simple => simp only []; exact cached
  | bounded => simp only []; exact cached

/-- `keyCacher.GetOrLoadLatest`, every mode: the key handed out exists and is not expired — a cached key
is checked against the clock before it is returned, a loaded one comes with the loader's guarantee `P`
(any consequence of "not expired at `t`"). -/
theorem getOrLoadLatest_f {P : Int → Prop} {loader : KeyMeta → M Nat} (hlg : ∀ m, Resp LG (loader m)) (c : Nat) (kid : KeyId)
    (i ea : Int) (hP : ∀ cr, isExpired t cr ea = false → P cr)
    (hl : LoaderF fl D t P loader ⟨kid, 0⟩) (w : World) (h : A fl D t w) :
    Wp (getOrLoadLatest c kid i ea loader) w fun r w' =>
      Bad fl w' ∨ (A fl D t w' ∧ ∀ k, r = .ok k → KX P w' k) := by
  have stage2 : ∀ (w2 : World) (key : Nat), A fl D t w2 → key < w2.keys.length →
      Wp (do
        let ko ← keyObj key
        let w ← get
        if isKeyInvalid ko w.now ea then
          let reloaded ← loader ⟨kid, 0⟩
          let ro ← keyObj reloaded
          let w ← get
          keyWrap reloaded
          cacheWrite c ⟨kid, ro.created⟩ { loadedAt := w.now, obj := reloaded }
          keyIncr reloaded
          pure reloaded
        else
          keyIncr key
          pure key) w2 fun r w' =>
      Bad fl w' ∨ (A fl D t w' ∧ ∀ k, r = .ok k → KX P w' k) := by
    intro w2 key h2 hlt
    apply Wp.bind; apply Wp.keyObj; simp only []
    apply Wp.bind; apply Wp.get; simp only []
    split
    · refine Wp.bindB (hl w2 h2) (badQ_base _) (by lg_auto) ?_
      intro r w3 ⟨h3, hk3⟩
      cases r with
      | error e => exact Or.inr ⟨h3, fun k hk => by cases hk⟩
      | ok rk =>
        simp only []
        have hkx := hk3 rk rfl
        apply Wp.bind; apply Wp.keyObj; simp only []
        apply Wp.bind; apply Wp.get; simp only []
        refine Wp.bind_unit rfl ?_
        have h4 := h3.keyWrap rk
        have hkx4 := hkx.ext (keyWrap_ext rk w3)
        generalize (keyWrap rk w3).2 = w4 at h4 hkx4 ⊢
        have h5 := h4.cacheWrite c ⟨kid, (keyAt w3 rk).created⟩ { loadedAt := w3.now, obj := rk } hkx4.lt
        have hkx5 := hkx4.ext (cacheWrite_ext c ⟨kid, (keyAt w3 rk).created⟩ { loadedAt := w3.now, obj := rk } w4)
        refine Wp.bind_world (fun e => Or.inr ⟨h5, fun k' hk' => by cases hk'⟩) (fun _ => ?_)
        refine Wp.bind_unit rfl ?_
        exact Or.inr ⟨h5.keyIncr rk, fun k' hk' => by cases hk'; exact hkx5.ext (keyIncr_ext rk _)⟩
    · rename_i hvalid
      refine Wp.bind_unit rfl ?_
      refine Or.inr ⟨h2.keyIncr key, fun k' hk' => ?_⟩
      cases hk'
      have hv : isExpired t (keyAt w2 key).created ea = false := by
        unfold isKeyInvalid at hvalid
        rw [h2.now] at hvalid
        cases hx : isExpired t (keyAt w2 key).created ea
        · rfl
        · rw [hx] at hvalid; simp at hvalid
      exact (KX.of_lt (P := P) hlt (hP _ hv)).ext (keyIncr_ext key w2)
  have load : ∀ w1, A fl D t w1 → Wp (do
        let key ← cacheLoad c ⟨kid, 0⟩ loader
        let ko ← keyObj key
        let w ← get
        if isKeyInvalid ko w.now ea then
          let reloaded ← loader ⟨kid, 0⟩
          let ro ← keyObj reloaded
          let w ← get
          keyWrap reloaded
          cacheWrite c ⟨kid, ro.created⟩ { loadedAt := w.now, obj := reloaded }
          keyIncr reloaded
          pure reloaded
        else
          keyIncr key
          pure key) w1 fun r w' =>
      Bad fl w' ∨ (A fl D t w' ∧ ∀ k, r = .ok k → KX P w' k) := by
    intro w1 h1
    refine Wp.bindB (cacheLoad_f hlg c ⟨kid, 0⟩ hl w1 h1) (badQ_base _) (by lg_auto [hlg]) ?_
    intro r w2 ⟨h2, hk2⟩
    cases r with
    | error e => exact Or.inr ⟨h2, fun k hk => by cases hk⟩
    | ok k => exact stage2 w2 k h2 (hk2 k rfl).lt
  unfold getOrLoadLatest
  apply Wp.bind; apply Wp.getCache; simp only []
  cases hmode : (cacheAt w c).mode with
  | never =>
    simp only []
    refine Wp.bindB (hl w h) (badQ_base _) (by lg_auto) ?_
    intro r w1 ⟨h1, hk1⟩
    cases r with
    | error e => exact Or.inr ⟨h1, fun k hk => by cases hk⟩
    | ok k =>
      refine Wp.bind_unit rfl (Or.inr ⟨h1.keyWrap k, fun k' hk' => ?_⟩)
      cases hk'; exact (hk1 k rfl).ext (keyWrap_ext k w1)
  | simple =>
    simp only []
    apply Wp.bind
    apply Wp.mono (getFresh_f c ⟨kid, 0⟩ i w h)
    rintro r w1 ⟨h1, -, ko, fr, hr, hlt⟩
    subst hr
    simp only []
    cases ko with
    | none => exact load w1 h1
    | some k =>
      cases fr with
      | false => exact load w1 h1
      | true =>
        simp only []
        apply Wp.bind; apply Wp.pure; simp only []
        exact stage2 w1 k h1 (hlt k rfl)
  | bounded =>
    simp only []
    apply Wp.bind
    apply Wp.mono (getFresh_f c ⟨kid, 0⟩ i w h)
    rintro r w1 ⟨h1, -, ko, fr, hr, hlt⟩
    subst hr
    simp only []
    cases ko with
    | none => exact load w1 h1
    | some k =>
      cases fr with
      | false => exact load w1 h1
      | true =>
        simp only []
        apply Wp.bind; apply Wp.pure; simp only []
        exact stage2 w1 k h1 (hlt k rfl)

end AsherahVerif.Env.TimeF
