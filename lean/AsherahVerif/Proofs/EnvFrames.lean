import AsherahVerif.Proofs.EnvM
/-
Footprints: what every function of the envelope model may change.  `Ext w w'` ("w' extends w")
collects the monotone facts that hold across every SDK-internal computation:
the clock, factories and sessions are untouched, the metastore only grows, heaps only grow and the
identity of heap objects (material, creation stamp, owning secret) never changes, closed stays
closed, wiped stays wiped.  It is reflexive and transitive, so it composes through `bind`.
-/
set_option linter.unusedVariables false
namespace AsherahVerif.Env

theorem setAt_length {α : Type} (l : List α) (i : Nat) (f : α → α) : (setAt l i f).length = l.length := by
  simp [setAt]

theorem setAt_getElem? {α : Type} (l : List α) (i j : Nat) (f : α → α) :
    (setAt l i f)[j]? = if j = i then (l[j]?).map f else l[j]? := by
  unfold setAt
  rw [List.getElem?_mapIdx]
  cases h : l[j]? with
  | none => simp
  | some a => by_cases hji : j = i <;> simp [hji]

theorem setAt_getD {α : Type} (l : List α) (i j : Nat) (f : α → α) (d : α) (hj : j < l.length) :
    (setAt l i f).getD j d = if j = i then f (l.getD j d) else l.getD j d := by
  simp only [List.getD_eq_getElem?_getD, setAt_getElem?]
  have : l[j]? = some l[j] := List.getElem?_eq_getElem hj
  by_cases hji : j = i
  · subst hji; simp [this]
  · simp [hji, this]

structure Ext (w w' : World) : Prop where
  now : w'.now = w.now
  facs : w'.facs = w.facs
  sessions : w'.sessions = w.sessions
  store : ∀ r, r ∈ w.store → r ∈ w'.store
  secrets : ∀ (i : Nat) (s : Secret), w.secrets[i]? = some s →
    ∃ s' : Secret, w'.secrets[i]? = some s' ∧ s'.mat = s.mat ∧ s.closes ≤ s'.closes ∧ s.aac ≤ s'.aac
  keys : ∀ (i : Nat) (k : KeyObj), w.keys[i]? = some k →
    ∃ k' : KeyObj, w'.keys[i]? = some k' ∧ k'.created = k.created ∧ k'.mat = k.mat ∧ k'.sec = k.sec ∧
      (k.closed = true → k'.closed = true)
  bufs : ∀ (i : Nat) (b : Buf), w.bufs[i]? = some b → ∃ b' : Buf, w'.bufs[i]? = some b' ∧ b'.mat = b.mat ∧ (b.wiped = true → b'.wiped = true)
  caches : w.caches.length ≤ w'.caches.length
  mats : w.mats ≤ w'.mats
  nonces : w.nonces ≤ w'.nonces

theorem Ext.refl (w : World) : Ext w w :=
  ⟨rfl, rfl, rfl, fun _ h => h, fun _ s h => ⟨s, h, rfl, Nat.le_refl _, Nat.le_refl _⟩,
   fun _ k h => ⟨k, h, rfl, rfl, rfl, id⟩, fun _ b h => ⟨b, h, rfl, id⟩, Nat.le_refl _, Nat.le_refl _, Nat.le_refl _⟩

theorem Ext.trans {a b c : World} (h1 : Ext a b) (h2 : Ext b c) : Ext a c := by
  refine ⟨h2.now.trans h1.now, h2.facs.trans h1.facs, h2.sessions.trans h1.sessions,
    fun r h => h2.store r (h1.store r h), ?_, ?_, ?_, Nat.le_trans h1.caches h2.caches,
    Nat.le_trans h1.mats h2.mats, Nat.le_trans h1.nonces h2.nonces⟩
  · intro i s h
    obtain ⟨s1, e1, m1, c1, a1⟩ := h1.secrets i s h
    obtain ⟨s2, e2, m2, c2, a2⟩ := h2.secrets i s1 e1
    exact ⟨s2, e2, m2.trans m1, Nat.le_trans c1 c2, Nat.le_trans a1 a2⟩
  · intro i k h
    obtain ⟨k1, e1, a1, b1, c1, d1⟩ := h1.keys i k h
    obtain ⟨k2, e2, a2, b2, c2, d2⟩ := h2.keys i k1 e1
    exact ⟨k2, e2, a2.trans a1, b2.trans b1, c2.trans c1, fun hc => d2 (d1 hc)⟩
  · intro i b h
    obtain ⟨b1, e1, m1, w1⟩ := h1.bufs i b h
    obtain ⟨b2, e2, m2, w2⟩ := h2.bufs i b1 e1
    exact ⟨b2, e2, m2.trans m1, fun hw => w2 (w1 hw)⟩

/-- `x` only extends the world. -/
def Extends {α : Type} (x : M α) : Prop := ∀ w, Ext w (x w).2

theorem Extends.pure {α : Type} (a : α) : Extends (pure a : M α) := fun w => Ext.refl w
theorem Extends.throw {α : Type} (e : Err) : Extends (throw e : M α) := fun w => Ext.refl w
theorem Extends.get : Extends get := fun w => Ext.refl w

theorem Extends.bind {α β : Type} {x : M α} {f : α → M β} (hx : Extends x) (hf : ∀ a, Extends (f a)) :
    Extends (x >>= f) := by
  intro w
  have h1 := hx w
  simp only [bind_run]
  cases hr : x w with
  | mk r w' =>
    rw [hr] at h1
    cases r with
    | ok a => exact h1.trans (hf a w')
    | error e => exact h1

theorem Extends.finallyDo {α : Type} {x : M α} {fin : M Unit} (hx : Extends x) (hf : Extends fin) :
    Extends (finallyDo x fin) := by
  intro w; simp only [finallyDo_run]; exact (hx w).trans (hf _)

theorem Extends.tryM {α : Type} {x : M α} (hx : Extends x) : Extends (tryM x) := by
  intro w; simp only [tryM_run]; exact hx w

theorem Extends.modify {f : World → World} (h : ∀ w, Ext w (f w)) : Extends (modify f) := fun w => h w

theorem Extends.ite {α : Type} {c : Prop} [Decidable c] {x y : M α} (hx : Extends x) (hy : Extends y) :
    Extends (if c then x else y) := by split <;> assumption

/-- a world update that touches neither clock, factories, sessions, store nor any heap. -/
theorem Ext.of_eq {w w' : World} (h1 : w'.now = w.now) (h2 : w'.facs = w.facs) (h3 : w'.sessions = w.sessions)
    (h4 : w'.store = w.store) (h5 : w'.secrets = w.secrets) (h6 : w'.keys = w.keys) (h7 : w'.bufs = w.bufs)
    (h8 : w.caches.length ≤ w'.caches.length) (h9 : w.mats ≤ w'.mats) (h10 : w.nonces ≤ w'.nonces) : Ext w w' :=
  ⟨h1, h2, h3, fun r h => h4 ▸ h, fun i s h => ⟨s, h5 ▸ h, rfl, Nat.le_refl _, Nat.le_refl _⟩,
   fun i k h => ⟨k, h6 ▸ h, rfl, rfl, rfl, id⟩, fun i b h => ⟨b, h7 ▸ h, rfl, id⟩, h8, h9, h10⟩

/-! ### primitives -/

theorem takeFault_ext : Extends takeFault := by
  intro w; unfold takeFault; split
  · exact Ext.refl w
  · exact Ext.of_eq rfl rfl rfl rfl rfl rfl rfl (Nat.le_refl _) (Nat.le_refl _) (Nat.le_refl _)

theorem logCall_ext (c : Call) : Extends (logCall c) := fun w =>
  Ext.of_eq rfl rfl rfl rfl rfl rfl rfl (Nat.le_refl _) (Nat.le_refl _) (Nat.le_refl _)

theorem setCache_ext (c : Nat) (kc : KeyCache) : Extends (setCache c kc) := fun w =>
  Ext.of_eq rfl rfl rfl rfl rfl rfl rfl (by show w.caches.length ≤ (setAt w.caches c fun _ => kc).length; rw [setAt_length]; exact Nat.le_refl _) (Nat.le_refl _) (Nat.le_refl _)

theorem getCache_ext (c : Nat) : Extends (getCache c) := fun w => Ext.refl w
theorem keyObj_ext (o : Nat) : Extends (keyObj o) := fun w => Ext.refl w

theorem addCache_ext (kc : KeyCache) : Extends (addCache kc) := fun w =>
  Ext.of_eq rfl rfl rfl rfl rfl rfl rfl (by show w.caches.length ≤ (w.caches ++ [kc]).length; simp) (Nat.le_refl _) (Nat.le_refl _)

theorem append_getElem?_of_some {α : Type} {l : List α} {i : Nat} {a : α} (x : α) (h : l[i]? = some a) :
    (l ++ [x])[i]? = some a := by
  have hi : i < l.length := by
    apply Classical.byContradiction; intro hc
    rw [List.getElem?_eq_none (by omega)] at h; cases h
  rw [List.getElem?_append_left hi]; exact h

theorem newBuf_ext (m : Nat) : Extends (newBuf m) := fun w =>
  ⟨rfl, rfl, rfl, fun _ h => h, fun _ s h => ⟨s, h, rfl, Nat.le_refl _, Nat.le_refl _⟩,
   fun _ k h => ⟨k, h, rfl, rfl, rfl, id⟩,
   fun _ b h => ⟨b, append_getElem?_of_some _ h, rfl, id⟩, Nat.le_refl _, Nat.le_refl _, Nat.le_refl _⟩

theorem wipeBuf_ext (b : Nat) : Extends (wipeBuf b) := by
  intro w
  refine ⟨rfl, rfl, rfl, fun _ h => h, fun _ s h => ⟨s, h, rfl, Nat.le_refl _, Nat.le_refl _⟩,
   fun _ k h => ⟨k, h, rfl, rfl, rfl, id⟩, ?_, Nat.le_refl _, Nat.le_refl _, Nat.le_refl _⟩
  intro i x h
  simp only [wipeBuf, modify_run, setAt_getElem?]
  by_cases hib : i = b
  · subst hib; simp [h]
  · simp [hib, h]

theorem newKeyObj_ext (c : Int) (r : Bool) (m s : Nat) : Extends (newKeyObj c r m s) := fun w =>
  ⟨rfl, rfl, rfl, fun _ h => h, fun _ s h => ⟨s, h, rfl, Nat.le_refl _, Nat.le_refl _⟩,
   fun _ k h => ⟨k, append_getElem?_of_some _ h, rfl, rfl, rfl, id⟩,
   fun _ b h => ⟨b, h, rfl, id⟩, Nat.le_refl _, Nat.le_refl _, Nat.le_refl _⟩

/-- any in-place update of a key object that keeps its identity fields and never re-opens it. -/
theorem keys_setAt_ext (o : Nat) (f : KeyObj → KeyObj)
    (hf : ∀ k, (f k).created = k.created ∧ (f k).mat = k.mat ∧ (f k).sec = k.sec ∧ (k.closed = true → (f k).closed = true)) :
    Extends (modify fun w => { w with keys := setAt w.keys o f }) := by
  intro w
  refine ⟨rfl, rfl, rfl, fun _ h => h, fun _ s h => ⟨s, h, rfl, Nat.le_refl _, Nat.le_refl _⟩, ?_,
    fun _ b h => ⟨b, h, rfl, id⟩, Nat.le_refl _, Nat.le_refl _, Nat.le_refl _⟩
  intro i k h
  simp only [modify_run, setAt_getElem?]
  by_cases hio : i = o
  · subst hio
    simp only [if_true, h, Option.map_some]
    exact ⟨f k, rfl, (hf k).1, (hf k).2.1, (hf k).2.2.1, (hf k).2.2.2⟩
  · simp only [hio, if_false, h]
    exact ⟨k, rfl, rfl, rfl, rfl, id⟩

theorem secrets_setAt_ext (s : Nat) (f : Secret → Secret)
    (hf : ∀ x, (f x).mat = x.mat ∧ x.closes ≤ (f x).closes ∧ x.aac ≤ (f x).aac) :
    Extends (modify fun w => { w with secrets := setAt w.secrets s f }) := by
  intro w
  refine ⟨rfl, rfl, rfl, fun _ h => h, ?_, fun _ k h => ⟨k, h, rfl, rfl, rfl, id⟩,
    fun _ b h => ⟨b, h, rfl, id⟩, Nat.le_refl _, Nat.le_refl _, Nat.le_refl _⟩
  intro i x h
  simp only [modify_run, setAt_getElem?]
  by_cases his : i = s
  · subst his
    simp only [if_true, h, Option.map_some]
    exact ⟨f x, rfl, (hf x).1, (hf x).2.1, (hf x).2.2⟩
  · simp only [his, if_false, h]
    exact ⟨x, rfl, rfl, Nat.le_refl _, Nat.le_refl _⟩

theorem secretClose_ext (s : Nat) : Extends (secretClose s) :=
  secrets_setAt_ext s _ fun x => ⟨rfl, Nat.le_succ _, Nat.le_refl _⟩


/-- one structural step of a footprint proof. All rule applications are syntactic
(`with_reducible`): unifying up to definitional unfolding would unfold whole function bodies. -/
macro "ext_step" : tactic => `(tactic| first
  | with_reducible exact Extends.pure _ | with_reducible exact Extends.throw _ | with_reducible exact Extends.get
  | with_reducible exact takeFault_ext | with_reducible exact logCall_ext _
  | with_reducible exact setCache_ext _ _ | with_reducible exact getCache_ext _
  | with_reducible exact keyObj_ext _ | with_reducible exact addCache_ext _
  | with_reducible exact newBuf_ext _ | with_reducible exact wipeBuf_ext _
  | with_reducible exact newKeyObj_ext _ _ _ _ | with_reducible exact secretClose_ext _
  | with_reducible assumption
  | with_reducible apply Extends.finallyDo | with_reducible apply Extends.tryM | with_reducible apply Extends.bind
  | (with_reducible intro _) | split | dsimp only)

/-- footprint proofs: unfold the function, then `ext_auto [lemmas about the functions it calls]`. -/
syntax "ext_auto" ("[" Lean.Parser.Tactic.SolveByElim.arg,* "]")? : tactic
macro_rules
  | `(tactic| ext_auto) => `(tactic| repeat (any_goals ext_step))
  | `(tactic| ext_auto [$ls,*]) => `(tactic| repeat (any_goals (first | ext_step | with_reducible apply_rules [$ls,*])))

end AsherahVerif.Env
