import AsherahVerif.Model.KeyRace
/-
C14 helper lemmas: invariant of the racing key-creation protocol.
-/
namespace AsherahVerif.KeyRace

theorem findRow_mem {s : List Row} {k : Kid} {c : Int} {r : Row} (h : findRow s k c = some r) :
    r ∈ s ∧ r.kid = k ∧ r.created = c := by
  unfold findRow at h
  have hm := List.mem_of_find?_eq_some h
  have hp := List.find?_some h
  simp only [decide_eq_true_eq] at hp
  exact ⟨hm, hp.1, hp.2⟩

theorem findRow_isSome_of_mem {s : List Row} {r : Row} (h : r ∈ s) : (findRow s r.kid r.created).isSome = true := by
  unfold findRow
  rw [List.find?_isSome]
  exact ⟨r, h, by simp⟩

/-- the fold that `latest` performs keeps an element of the list (or the accumulator). -/
theorem latestFold_mem (l : List Row) (acc : Option Row) (r : Row)
    (h : l.foldl (fun acc r => match acc with
      | none => some r
      | some a => if a.created < r.created then some r else some a) acc = some r) :
    r ∈ l ∨ acc = some r := by
  induction l generalizing acc with
  | nil => right; simpa using h
  | cons a t ih =>
    simp only [List.foldl_cons] at h
    rcases ih _ h with h1 | h1
    · left; exact List.mem_cons_of_mem _ h1
    · cases acc with
      | none => simp at h1; left; rw [← h1]; simp
      | some b =>
        simp only at h1
        split at h1
        · injection h1 with h1; left; rw [← h1]; simp
        · right; exact h1

theorem latest_mem {s : List Row} {k : Kid} {r : Row} (h : latest s k = some r) : r ∈ s ∧ r.kid = k := by
  unfold latest at h
  rcases latestFold_mem _ none r h with h1 | h1
  · have := List.mem_filter.mp h1
    exact ⟨this.1, by simpa using this.2⟩
  · cases h1

theorem latestFold_isSome (l : List Row) (acc : Option Row) (h : acc.isSome ∨ l ≠ []) :
    (l.foldl (fun acc r => match acc with
      | none => some r
      | some a => if a.created < r.created then some r else some a) acc).isSome = true := by
  induction l generalizing acc with
  | nil => rcases h with h | h; simpa using h; exact absurd rfl h
  | cons a t ih =>
    simp only [List.foldl_cons]
    apply ih
    left
    cases acc with
    | none => rfl
    | some b => simp only; split <;> rfl

theorem latest_isSome_of_mem {s : List Row} {r : Row} (h : r ∈ s) : (latest s r.kid).isSome = true := by
  unfold latest
  apply latestFold_isSome
  right
  intro e
  have : r ∈ s.filter (·.kid = r.kid) := List.mem_filter.mpr ⟨h, by simp⟩
  rw [e] at this; simp at this

theorem getElem?_setPc (l : List Pc) (i j : Nat) (q : Pc) :
    (setPc l i q)[j]? = if j = i then (l[j]?).map (fun _ => q) else l[j]? := by
  unfold setPc
  rw [List.getElem?_mapIdx]
  cases h : l[j]? with
  | none => simp
  | some a => by_cases hji : j = i <;> simp [hji]

/-- what a program counter may refer to: only rows that are in the store. -/
def Good (store : List Row) : Pc → Prop
  | .start => True
  | .loadParent r => r ∈ store ∧ r.kid = .ik
  | .llSK => True
  | .storeSK => True
  | .llSKretry => ∃ s ∈ store, s.kid = .sk
  | .storeIK sk => sk ∈ store ∧ sk.kid = .sk
  | .llIKretry sk => sk ∈ store ∧ sk.kid = .sk ∧ ∃ r ∈ store, r.kid = .ik
  | .loadParent2 r => r ∈ store ∧ r.kid = .ik
  | .done u => ∃ r ∈ store, r.kid = .ik ∧ r.created = u.ikCreated ∧ r.mat = u.ikMat ∧ r.parent = u.skCreated ∧
      ∃ s ∈ store, s.kid = .sk ∧ s.created = u.skCreated
  | .failed => False

theorem Good.mono {s s' : List Row} (h : ∀ r, r ∈ s → r ∈ s') {pc : Pc} (g : Good s pc) : Good s' pc := by
  cases pc with
  | start => trivial
  | loadParent r => exact ⟨h _ g.1, g.2⟩
  | llSK => trivial
  | storeSK => trivial
  | llSKretry => obtain ⟨x, hx, hk⟩ := g; exact ⟨x, h _ hx, hk⟩
  | storeIK sk => exact ⟨h _ g.1, g.2⟩
  | llIKretry sk => obtain ⟨a, b, x, hx, hk⟩ := g; exact ⟨h _ a, b, x, h _ hx, hk⟩
  | loadParent2 r => exact ⟨h _ g.1, g.2⟩
  | done u =>
    obtain ⟨r, hr, a, b, c, d, s0, hs, e, f⟩ := g
    exact ⟨r, h _ hr, a, b, c, d, s0, h _ hs, e, f⟩
  | failed => exact g

structure Inv (st : St) : Prop where
  /-- every intermediate key row's system key row is stored -/
  chain : ∀ r, r ∈ st.store → r.kid = .ik → ∃ s, s ∈ st.store ∧ s.kid = .sk ∧ s.created = r.parent
  procs : ∀ (i : Nat) (pc : Pc), st.procs[i]? = some pc → Good st.store pc

/-- updating one process's pc (store unchanged or extended) keeps the per-process part. -/
theorem procs_update {st : St} {store' : List Row} {i : Nat} {q : Pc} (h : Inv st)
    (hmono : ∀ r, r ∈ st.store → r ∈ store') (hq : Good store' q) :
    ∀ (j : Nat) (pc : Pc), (setPc st.procs i q)[j]? = some pc → Good store' pc := by
  intro j pc hj
  rw [getElem?_setPc] at hj
  by_cases hji : j = i
  · simp only [hji, if_true] at hj
    cases hl : st.procs[i]? with
    | none => rw [hl] at hj; simp at hj
    | some a => rw [hl] at hj; simp at hj; rw [← hj]; exact hq
  · simp only [hji, if_false] at hj
    exact (h.procs j pc hj).mono hmono

/-- every step only adds rows. -/
theorem step_store_grows (p : Policy) (st st' : St) (i : Nat) (hs : step p st i = some st') :
    ∀ r, r ∈ st.store → r ∈ st'.store := by
  unfold step at hs
  cases hpc : st.procs[i]? with
  | none => simp [hpc] at hs
  | some pc =>
    simp only [hpc] at hs
    intro r hr
    cases pc <;> simp only at hs
    all_goals (try (repeat' split at hs) <;> (try (injection hs with hs; subst hs)) <;> first | exact hr | exact List.mem_append_left _ hr | (simp at hs))

theorem step_inv (p : Policy) (st st' : St) (i : Nat) (h : Inv st) (hs : step p st i = some st') : Inv st' := by
  have hgrow := step_store_grows p st st' i hs
  unfold step at hs
  cases hpc : st.procs[i]? with
  | none => simp [hpc] at hs
  | some pc =>
    simp only [hpc] at hs
    have hg := h.procs i pc hpc
    -- a step that keeps the store and moves process i to `q`
    have goto : ∀ q, Good st.store q → Inv { st with procs := setPc st.procs i q } := fun q hq =>
      ⟨h.chain, procs_update h (fun _ hr => hr) hq⟩
    cases pc with
    | start =>
      simp only at hs
      cases hl : latest st.store .ik with
      | none => simp only [hl] at hs; injection hs with hs; subst hs; exact goto _ trivial
      | some r =>
        simp only [hl] at hs
        have hm := latest_mem hl
        split at hs <;> (injection hs with hs; subst hs)
        · exact goto _ trivial
        · exact goto _ hm
    | loadParent r =>
      simp only at hs
      cases hf : findRow st.store .sk r.parent with
      | none => simp only [hf] at hs; injection hs with hs; subst hs; exact goto _ trivial
      | some s =>
        simp only [hf] at hs
        have hm := findRow_mem hf
        split at hs <;> (injection hs with hs; subst hs)
        · exact goto _ trivial
        · exact goto _ ⟨r, hg.1, hg.2, rfl, rfl, hm.2.2.symm, s, hm.1, hm.2.1, rfl⟩
    | llSK =>
      simp only at hs
      cases hl : latest st.store .sk with
      | none => simp only [hl] at hs; injection hs with hs; subst hs; exact goto _ trivial
      | some s =>
        simp only [hl] at hs
        have hm := latest_mem hl
        split at hs <;> (injection hs with hs; subst hs)
        · exact goto _ trivial
        · exact goto _ hm
    | storeSK =>
      simp only at hs
      split at hs
      · next hex =>
        injection hs with hs; subst hs
        cases hf : findRow st.store .sk (stamp p) with
        | none => rw [hf] at hex; simp at hex
        | some s =>
          have hm := findRow_mem hf
          exact ⟨h.chain, procs_update h (fun _ hr => hr) ⟨s, hm.1, hm.2.1⟩⟩
      · injection hs with hs; subst hs
        refine ⟨?_, procs_update h (fun _ hr => List.mem_append_left _ hr) ⟨by simp, rfl⟩⟩
        intro r hr hk
        simp only [List.mem_append, List.mem_singleton] at hr
        rcases hr with hr | hr
        · obtain ⟨s, hs1, hs2, hs3⟩ := h.chain r hr hk
          exact ⟨s, List.mem_append_left _ hs1, hs2, hs3⟩
        · rw [hr] at hk; cases hk
    | llSKretry =>
      simp only at hs
      cases hl : latest st.store .sk with
      | none =>
        obtain ⟨s, hs1, hs2⟩ := hg
        have := latest_isSome_of_mem hs1
        rw [hs2, hl] at this; simp at this
      | some s =>
        simp only [hl] at hs
        injection hs with hs; subst hs
        exact goto _ (latest_mem hl)
    | storeIK sk =>
      simp only at hs
      split at hs
      · next hex =>
        injection hs with hs; subst hs
        cases hf : findRow st.store .ik (stamp p) with
        | none => rw [hf] at hex; simp at hex
        | some r =>
          have hm := findRow_mem hf
          exact ⟨h.chain, procs_update h (fun _ hr => hr) ⟨hg.1, hg.2, r, hm.1, hm.2.1⟩⟩
      · injection hs with hs; subst hs
        refine ⟨?_, procs_update h (fun _ hr => List.mem_append_left _ hr) ?_⟩
        · intro r hr hk
          simp only [List.mem_append, List.mem_singleton] at hr
          rcases hr with hr | hr
          · obtain ⟨s, hs1, hs2, hs3⟩ := h.chain r hr hk
            exact ⟨s, List.mem_append_left _ hs1, hs2, hs3⟩
          · rw [hr]
            exact ⟨sk, List.mem_append_left _ hg.1, hg.2, rfl⟩
        · exact ⟨{ kid := .ik, created := stamp p, revoked := false, mat := (i, st.serial.getD i 0), parent := sk.created },
            List.mem_append_right _ (List.mem_singleton.mpr rfl), rfl, rfl, rfl, rfl,
            sk, List.mem_append_left _ hg.1, hg.2, rfl⟩
    | llIKretry sk =>
      simp only at hs
      cases hl : latest st.store .ik with
      | none =>
        obtain ⟨_, _, r, hr1, hr2⟩ := hg
        have := latest_isSome_of_mem hr1
        rw [hr2, hl] at this; simp at this
      | some r =>
        simp only [hl] at hs
        have hm := latest_mem hl
        split at hs <;> (injection hs with hs; subst hs)
        · next hpar => exact goto _ ⟨r, hm.1, hm.2, rfl, rfl, hpar, sk, hg.1, hg.2.1, rfl⟩
        · exact goto _ hm
    | loadParent2 r =>
      simp only at hs
      cases hf : findRow st.store .sk r.parent with
      | none =>
        obtain ⟨s, hs1, hs2, hs3⟩ := h.chain r hg.1 hg.2
        have := findRow_isSome_of_mem hs1
        rw [hs2, hs3, hf] at this; simp at this
      | some s =>
        simp only [hf] at hs
        injection hs with hs; subst hs
        have hm := findRow_mem hf
        exact goto _ ⟨r, hg.1, hg.2, rfl, rfl, hm.2.2.symm, s, hm.1, hm.2.1, rfl⟩
    | done u => simp at hs
    | failed => simp at hs

theorem run_inv (p : Policy) (st : St) (h : Inv st) (sched : List Nat) : Inv (run p st sched) := by
  induction sched generalizing st with
  | nil => exact h
  | cons i rest ih =>
    simp only [run]
    cases hs : step p st i with
    | none => exact ih st h
    | some st' => exact ih st' (step_inv p st st' i h hs)

theorem run_store_grows (p : Policy) (st : St) (sched : List Nat) : ∀ r, r ∈ st.store → r ∈ (run p st sched).store := by
  induction sched generalizing st with
  | nil => intro r h; exact h
  | cons i rest ih =>
    intro r hr
    simp only [run]
    cases hs : step p st i with
    | none => exact ih st r hr
    | some st' => exact ih st' r (step_store_grows p st st' i hs r hr)

theorem inv_init (store : List Row) (n : Nat)
    (hw : ∀ r, r ∈ store → r.kid = .ik → ∃ s, s ∈ store ∧ s.kid = .sk ∧ s.created = r.parent) : Inv (init store n) := by
  refine ⟨hw, ?_⟩
  intro i pc hi
  simp only [init] at hi
  have : pc = .start := by
    have hm := List.mem_of_getElem? hi
    exact List.eq_of_mem_replicate hm
  rw [this]; trivial

end AsherahVerif.KeyRace
