import AsherahVerif.Model.Kms
import AsherahVerif.Spec.KmsSpec
/-
Helper lemmas for C17: the client loop of `DecryptKey` (`decryptLoop`) computes the specification
(`KmsSpec.unwrapResult`, `KmsSpec.tried`), `generateDataKey` is "first success", lookups.
-/
namespace AsherahVerif.Kms
open AsherahVerif.KmsSpec

/-- what the KMS of client `c` returns for the entry of its region, if there is one and it opens. -/
def kmsOpened (look : String → Option Kek) (cloud : Cloud) (c : Client) : Option DataKey :=
  (look c.region).bind fun k => cloud.dec c k.blob

theorem opens_eq (look : String → Option Kek) (cloud : Cloud) (ek : Ct) (c : Client) :
    opens look cloud ek c = (kmsOpened look cloud c).bind (aeadOpen ek) := by
  unfold opens kmsOpened
  cases look c.region <;> simp

theorem decryptLoop_cons_noEntry {wipe : Bool} {cloud : Cloud} {look : String → Option Kek} {ek : Ct} {c : Client}
    (cs : List Client) (h : look c.region = none) :
    decryptLoop wipe cloud look ek (c :: cs) = decryptLoop wipe cloud look ek cs := by
  simp only [decryptLoop, h]

theorem decryptLoop_cons_kmsFail {wipe : Bool} {cloud : Cloud} {look : String → Option Kek} {ek : Ct} {c : Client}
    {kek : Kek} (cs : List Client) (h : look c.region = some kek) (h2 : cloud.dec c kek.blob = none) :
    decryptLoop wipe cloud look ek (c :: cs) =
      ((decryptLoop wipe cloud look ek cs).1, .dec c :: (decryptLoop wipe cloud look ek cs).2.1,
        (decryptLoop wipe cloud look ek cs).2.2) := by
  simp only [decryptLoop, h, h2]

theorem decryptLoop_cons_aeadFail {wipe : Bool} {cloud : Cloud} {look : String → Option Kek} {ek : Ct} {c : Client}
    {kek : Kek} {dk : DataKey} (cs : List Client) (h : look c.region = some kek) (h2 : cloud.dec c kek.blob = some dk)
    (h3 : aeadOpen ek dk = none) :
    decryptLoop wipe cloud look ek (c :: cs) =
      ((decryptLoop wipe cloud look ek cs).1, .dec c :: (decryptLoop wipe cloud look ek cs).2.1,
        ⟨dk, wipe⟩ :: (decryptLoop wipe cloud look ek cs).2.2) := by
  simp only [decryptLoop, h, h2, h3]

theorem decryptLoop_cons_ok {wipe : Bool} {cloud : Cloud} {look : String → Option Kek} {ek : Ct} {c : Client}
    {kek : Kek} {dk : DataKey} {pt : Nat} (cs : List Client) (h : look c.region = some kek)
    (h2 : cloud.dec c kek.blob = some dk) (h3 : aeadOpen ek dk = some pt) :
    decryptLoop wipe cloud look ek (c :: cs) = (some pt, [.dec c], [⟨dk, wipe⟩]) := by
  simp only [decryptLoop, h, h2, h3]

/-- the three components of the loop's result at once. -/
theorem decryptLoop_spec (wipe : Bool) (cloud : Cloud) (look : String → Option Kek) (ek : Ct) (cs : List Client) :
    decryptLoop wipe cloud look ek cs =
      (unwrapResult look cloud ek cs, (tried look cloud ek cs).map Call.dec,
       (tried look cloud ek cs).filterMap fun c => (kmsOpened look cloud c).map fun dk => ⟨dk, wipe⟩) := by
  induction cs with
  | nil => rfl
  | cons c cs ih =>
    cases h1 : look c.region with
    | none =>
      rw [decryptLoop_cons_noEntry cs h1, ih]
      simp [unwrapResult, tried, opens, hasEntry, h1]
    | some kek =>
      cases h2 : cloud.dec c kek.blob with
      | none =>
        rw [decryptLoop_cons_kmsFail cs h1 h2, ih]
        simp [unwrapResult, tried, opens, hasEntry, kmsOpened, takeThrough, h1, h2]
      | some dk =>
        cases h3 : aeadOpen ek dk with
        | none =>
          rw [decryptLoop_cons_aeadFail cs h1 h2 h3, ih]
          simp [unwrapResult, tried, opens, hasEntry, kmsOpened, takeThrough, h1, h2, h3]
        | some pt =>
          rw [decryptLoop_cons_ok cs h1 h2 h3]
          simp [unwrapResult, tried, opens, hasEntry, kmsOpened, takeThrough, h1, h2, h3]

theorem decryptLoop_res (wipe : Bool) (cloud : Cloud) (look : String → Option Kek) (ek : Ct) (cs : List Client) :
    (decryptLoop wipe cloud look ek cs).1 = unwrapResult look cloud ek cs := by
  rw [decryptLoop_spec]

theorem decryptLoop_calls (wipe : Bool) (cloud : Cloud) (look : String → Option Kek) (ek : Ct) (cs : List Client) :
    (decryptLoop wipe cloud look ek cs).2.1 = (tried look cloud ek cs).map Call.dec := by
  rw [decryptLoop_spec]

theorem decryptLoop_bufs (wipe : Bool) (cloud : Cloud) (look : String → Option Kek) (ek : Ct) (cs : List Client) :
    (decryptLoop wipe cloud look ek cs).2.2 =
      (tried look cloud ek cs).filterMap fun c => (kmsOpened look cloud c).map fun dk => ⟨dk, wipe⟩ := by
  rw [decryptLoop_spec]

/-- shape of `tried`: everything with an entry before the first client that opens, then that client. -/
theorem tried_decomp (look : String → Option Kek) (cloud : Cloud) (ek : Ct) (cs : List Client) :
    match unwrapResult look cloud ek cs with
    | some k => ∃ pre c post, cs = pre ++ c :: post ∧ opens look cloud ek c = some k ∧
        (∀ x ∈ pre, opens look cloud ek x = none) ∧ tried look cloud ek cs = pre.filter (hasEntry look) ++ [c]
    | none => (∀ x ∈ cs, opens look cloud ek x = none) ∧ tried look cloud ek cs = cs.filter (hasEntry look) := by
  induction cs with
  | nil => simp [unwrapResult, tried, takeThrough]
  | cons c cs ih =>
    unfold unwrapResult tried at ih ⊢
    simp only [List.findSome?_cons]
    cases ho : opens look cloud ek c with
    | some k =>
      refine ⟨[], c, cs, rfl, ho, by simp, ?_⟩
      have he : hasEntry look c = true := by
        unfold hasEntry; unfold opens at ho
        cases h : look c.region <;> simp_all
      simp [he, takeThrough, ho]
    | none =>
      simp only
      cases hr : List.findSome? (opens look cloud ek) cs with
      | some k =>
        rw [hr] at ih
        obtain ⟨pre, d, post, h1, h2, h3, h4⟩ := ih
        refine ⟨c :: pre, d, post, by simp [h1], h2, ?_, ?_⟩
        · intro x hx
          cases hx with
          | head => exact ho
          | tail _ hx => exact h3 x hx
        · by_cases he : hasEntry look c = true
          · simp [he, takeThrough, ho, h4]
          · simp [he, h4]
      | none =>
        rw [hr] at ih
        obtain ⟨h1, h2⟩ := ih
        refine ⟨?_, ?_⟩
        · intro x hx
          cases hx with
          | head => exact ho
          | tail _ hx => exact h1 x hx
        · by_cases he : hasEntry look c = true
          · simp [he, takeThrough, ho, h2]
          · simp [he, h2]

/-! ### generateDataKey -/

theorem generateDataKey_res (cloud : Cloud) (cs : List Client) :
    (generateDataKey cloud cs).1 = cs.findSome? cloud.gen := by
  induction cs with
  | nil => rfl
  | cons c cs ih =>
    simp only [generateDataKey, List.findSome?_cons]
    cases h : cloud.gen c <;> simp [ih]

/-- the GenerateDataKey calls: every client before the first that succeeds, and that one. -/
theorem generateDataKey_calls (cloud : Cloud) (cs : List Client) :
    (generateDataKey cloud cs).2 = (takeThrough (fun c => (cloud.gen c).isSome) cs).map Call.gen := by
  induction cs with
  | nil => rfl
  | cons c cs ih =>
    cases h : cloud.gen c <;> simp [generateDataKey, takeThrough, h, ih]

theorem generateDataKey_none (cloud : Cloud) (cs : List Client) :
    (generateDataKey cloud cs).1 = none ↔ ∀ c ∈ cs, cloud.gen c = none := by
  rw [generateDataKey_res]; simp

theorem generateDataKey_some {cloud : Cloud} {cs : List Client} {o : GenOut}
    (h : (generateDataKey cloud cs).1 = some o) :
    ∃ pre c post, cs = pre ++ c :: post ∧ cloud.gen c = some o ∧ ∀ x ∈ pre, cloud.gen x = none := by
  rw [generateDataKey_res] at h
  induction cs with
  | nil => simp at h
  | cons c cs ih =>
    simp only [List.findSome?_cons] at h
    cases hg : cloud.gen c with
    | some o' =>
      rw [hg] at h; simp at h; subst h
      exact ⟨[], c, cs, rfl, hg, by simp⟩
    | none =>
      rw [hg] at h
      obtain ⟨pre, d, post, h1, h2, h3⟩ := ih h
      refine ⟨c :: pre, d, post, by simp [h1], h2, ?_⟩
      intro x hx
      cases hx with
      | head => exact hg
      | tail _ hx => exact h3 x hx

end AsherahVerif.Kms
