import AsherahVerif.Proofs.EnvTimeRel
/-
The state invariant of the time-related proofs (`St`) and what the cache primitives do to it.

`St ρ D t w`: the clock shows `t`, the fault schedule is empty, and
* every cache entry is `Good`: it points to an existing key object with the creation stamp of its
  cache key (coherence), was loaded in the past, its row is stored, and — `ρ = some (τ, m0)`, the
  row `m0` was revoked when the clock showed `τ` — an entry for `m0` either carries the revoked flag
  or was loaded no later than `τ` (`RevSeen`);
* a key object is cached under one cache key only; latest-aliases point to keys of their own id;
* stored rows are unique per (id, created); the revoked row exists and is flagged;
* `D` holds of the store (a parameter: what the current operation has added so far).
-/
set_option linter.unusedVariables false
namespace AsherahVerif.Env

@[simp] theorem keyObj_run (o : Nat) (w : World) : keyObj o w = (.ok (keyAt w o), w) := rfl
@[simp] theorem getCache_run (c : Nat) (w : World) : getCache c w = (.ok (cacheAt w c), w) := rfl
theorem setCache_run (c : Nat) (kc : KeyCache) (w : World) : setCache c kc w = (.ok (), (setCache c kc w).2) := rfl
theorem setCache_bind_run {β : Type} (c : Nat) (kc : KeyCache) (f : Unit → M β) (w : World) :
    (setCache c kc >>= f) w = f () (setCache c kc w).2 := rfl
theorem newKeyObj_run (c : Int) (r : Bool) (m s : Nat) (w : World) :
    newKeyObj c r m s w = (.ok w.keys.length, { w with keys := w.keys ++ [{ created := c, revoked := r, mat := m, sec := s }] }) := rfl

/-! ### association lists -/

theorem assocGet_mem {κ α : Type} [DecidableEq κ] {l : List (κ × α)} {k : κ} {v : α}
    (h : assocGet l k = some v) : (k, v) ∈ l := by
  unfold assocGet at h
  cases hf : l.find? (·.1 = k) with
  | none => rw [hf] at h; cases h
  | some p =>
    rw [hf] at h
    simp only [Option.map_some, Option.some.injEq] at h
    have h1 := List.find?_some hf
    have h2 := List.mem_of_find?_eq_some hf
    simp only [decide_eq_true_eq] at h1
    obtain ⟨a, b⟩ := p
    simp only at h1 h
    subst h1; subst h; exact h2

theorem assocSet_mem {κ α : Type} [DecidableEq κ] {l : List (κ × α)} {k : κ} {v : α} {p : κ × α}
    (h : p ∈ assocSet l k v) : p ∈ l ∨ p = (k, v) := by
  unfold assocSet at h
  split at h
  · rcases List.mem_map.mp h with ⟨q, hq, e⟩
    split at e
    · right; exact e.symm
    · left; rw [← e]; exact hq
  · rcases List.mem_append.mp h with h | h
    · left; exact h
    · right; simpa using h

theorem assocGet_assocSet_same {κ α : Type} [DecidableEq κ] (l : List (κ × α)) (k : κ) (v : α) :
    assocGet (assocSet l k v) k = some v := by
  unfold assocGet assocSet
  split
  · rename_i hs
    induction l with
    | nil => simp at hs
    | cons a rest ih =>
      simp only [List.map_cons, List.find?_cons]
      by_cases ha : a.1 = k
      · simp [ha]
      · simp only [ha, if_false, decide_false]
        simp only [List.find?_cons, ha, decide_false] at hs
        exact ih hs
  · rename_i hs
    rw [List.find?_append]
    have : List.find? (fun x => decide (x.1 = k)) l = none := by
      cases h : List.find? (fun x => decide (x.1 = k)) l with
      | none => rfl
      | some x => rw [h] at hs; simp at hs
    simp [this]

theorem assocGet_assocSet_other {κ α : Type} [DecidableEq κ] (l : List (κ × α)) (k k' : κ) (v : α)
    (h : k' ≠ k) : assocGet (assocSet l k v) k' = assocGet l k' := by
  unfold assocGet assocSet
  split
  · rename_i hs; clear hs
    congr 1
    induction l with
    | nil => rfl
    | cons a rest ih =>
      rw [List.map_cons, List.find?_cons, List.find?_cons]
      by_cases ha : a.1 = k
      · have h1 : decide ((if a.1 = k then (k, v) else a).1 = k') = false := by simp [ha, Ne.symm h]
        have h2 : decide (a.1 = k') = false := by simp [ha, Ne.symm h]
        rw [h1, h2]; exact ih
      · have h1 : (if a.1 = k then (k, v) else a) = a := by simp [ha]
        rw [h1]; cases decide (a.1 = k') <;> simp only [ih]
  · rw [List.find?_append]
    simp [Ne.symm h]

theorem assocDel_mem {κ α : Type} [DecidableEq κ] {l : List (κ × α)} {k : κ} {p : κ × α}
    (h : p ∈ assocDel l k) : p ∈ l := (List.mem_filter.mp h).1

theorem foldl_assocDel_mem {κ α : Type} [DecidableEq κ] (ks : List κ) (l : List (κ × α)) {p : κ × α}
    (h : p ∈ ks.foldl (fun acc k => assocDel acc k) l) : p ∈ l := by
  induction ks generalizing l with
  | nil => exact h
  | cons k rest ih => exact assocDel_mem (ih _ h)

/-! ### `setCache` through the views -/

theorem cacheAt_setCache (c : Nat) (kc : KeyCache) (w : World) (c' : Nat) :
    cacheAt (setCache c kc w).2 c' = if c' = c ∧ c < w.caches.length then kc else cacheAt w c' := by
  unfold cacheAt
  show (setAt w.caches c fun _ => kc).getD c' default = _
  by_cases hlt : c' < w.caches.length
  · rw [setAt_getD _ _ _ _ _ hlt]
    by_cases hcc : c' = c
    · subst hcc; simp [hlt]
    · simp [hcc]
  · have h1 : (setAt w.caches c fun _ => kc).getD c' default = default := by
      rw [List.getD_eq_getElem?_getD, List.getElem?_eq_none (by rw [setAt_length]; omega)]; rfl
    have h2 : w.caches.getD c' default = default := by
      rw [List.getD_eq_getElem?_getD, List.getElem?_eq_none (by omega)]; rfl
    rw [h1, h2]
    split
    · rename_i h; omega
    · rfl

/-- the cache at `c` is replaced by one with the same mode, entries and aliases. -/
theorem setCache_same_view (c : Nat) (kc : KeyCache) (w : World) (h1 : kc.mode = (cacheAt w c).mode)
    (h2 : kc.ents = (cacheAt w c).ents) (h3 : kc.latest = (cacheAt w c).latest) (c' : Nat) :
    entsOf (setCache c kc w).2 c' = entsOf w c' ∧ latestOf (setCache c kc w).2 c' = latestOf w c' ∧
      modeOf (setCache c kc w).2 c' = modeOf w c' := by
  unfold entsOf latestOf modeOf
  rw [cacheAt_setCache]
  split
  · rename_i h; rw [h.1]; exact ⟨h2, h3, h1⟩
  · exact ⟨rfl, rfl, rfl⟩

/-! ### `SV`: only cache-internal bookkeeping changed -/

structure SV (w w' : World) : Prop where
  now : w'.now = w.now
  store : w'.store = w.store
  keys : w'.keys = w.keys
  faults : w'.faults = w.faults
  log : w'.log = w.log
  facs : w'.facs = w.facs
  sessions : w'.sessions = w.sessions
  secrets : w'.secrets = w.secrets
  bufs : w'.bufs = w.bufs
  mats : w'.mats = w.mats
  nonces : w'.nonces = w.nonces
  len : w'.caches.length = w.caches.length
  view : ∀ c, entsOf w' c = entsOf w c ∧ latestOf w' c = latestOf w c ∧ modeOf w' c = modeOf w c

instance : RT SV where
  refl w := ⟨rfl, rfl, rfl, rfl, rfl, rfl, rfl, rfl, rfl, rfl, rfl, rfl, fun _ => ⟨rfl, rfl, rfl⟩⟩
  trans h1 h2 := ⟨h2.now.trans h1.now, h2.store.trans h1.store, h2.keys.trans h1.keys, h2.faults.trans h1.faults,
    h2.log.trans h1.log, h2.facs.trans h1.facs, h2.sessions.trans h1.sessions, h2.secrets.trans h1.secrets,
    h2.bufs.trans h1.bufs, h2.mats.trans h1.mats, h2.nonces.trans h1.nonces, h2.len.trans h1.len,
    fun c => ⟨(h2.view c).1.trans (h1.view c).1, (h2.view c).2.1.trans (h1.view c).2.1,
      (h2.view c).2.2.trans (h1.view c).2.2⟩⟩

theorem SV.readEntry {w w' : World} (h : SV w w') (c : Nat) (m : KeyMeta) : readEntry w' c m = readEntry w c m := by
  unfold Env.readEntry readMeta; rw [(h.view c).1, (h.view c).2.1]

theorem SV.keyAt {w w' : World} (h : SV w w') (o : Nat) : keyAt w' o = keyAt w o := by
  unfold Env.keyAt; rw [h.keys]

theorem setCache_sv (c : Nat) (kc : KeyCache) (w : World) (h1 : kc.mode = (cacheAt w c).mode)
    (h2 : kc.ents = (cacheAt w c).ents) (h3 : kc.latest = (cacheAt w c).latest) : SV w (setCache c kc w).2 :=
  ⟨rfl, rfl, rfl, rfl, rfl, rfl, rfl, rfl, rfl, rfl, rfl, by show (setAt w.caches c fun _ => kc).length = _; rw [setAt_length],
   setCache_same_view c kc w h1 h2 h3⟩

/-! ### the invariant -/

abbrev RevCtx := Option (Int × KeyMeta)

structure Good (ρ : RevCtx) (w : World) (m : KeyMeta) (e : CEntry) : Prop where
  coh : ∃ ko : KeyObj, w.keys[e.obj]? = some ko ∧ ko.created = m.created ∧
    ∀ τ m0, ρ = some (τ, m0) → m = m0 → ko.revoked = true ∨ e.loadedAt ≤ τ
  past : e.loadedAt ≤ w.now
  stored : ∃ r ∈ w.store, r.kid = m.kid ∧ r.created = m.created

/-- the part of the invariant that speaks about the metastore only. -/
structure StoreOK (ρ : RevCtx) (D : List Row → Prop) (store : List Row) : Prop where
  uniq : ∀ r1 r2, r1 ∈ store → r2 ∈ store → r1.kid = r2.kid → r1.created = r2.created → r1 = r2
  rev : ∀ τ m0, ρ = some (τ, m0) → (∃ r ∈ store, r.kid = m0.kid ∧ r.created = m0.created) ∧
    ∀ r ∈ store, r.kid = m0.kid → r.created = m0.created → r.revoked = true
  nz : ∀ r ∈ store, r.created ≠ 0 ∧ ∀ p, r.parent = some p → p.created ≠ 0
  delta : D store

structure St (ρ : RevCtx) (D : List Row → Prop) (t : Int) (w : World) : Prop where
  now : w.now = t
  faults : w.faults = []
  good : ∀ c m e, (m, e) ∈ entsOf w c → Good ρ w m e
  objMeta : ∀ c1 c2 m1 m2 e1 e2, (m1, e1) ∈ entsOf w c1 → (m2, e2) ∈ entsOf w c2 → e1.obj = e2.obj → m1 = m2
  aliasKid : ∀ c kid m, assocGet (latestOf w c) kid = some m → m.kid = kid
  tau : ∀ τ m0, ρ = some (τ, m0) → τ ≤ w.now
  sto : StoreOK ρ D w.store

/-- `Good` survives every step that keeps the clock, the rows, and the identity and flags of key objects. -/
theorem Good.mono {ρ : RevCtx} {w w' : World} {m : KeyMeta} {e : CEntry} (h : Good ρ w m e)
    (hext : Ext w w') (hrev : ∀ (i : Nat) (k : KeyObj), w.keys[i]? = some k → ∃ k' : KeyObj, w'.keys[i]? = some k' ∧ k'.revoked = k.revoked) :
    Good ρ w' m e := by
  obtain ⟨ko, hk, hc, hs⟩ := h.coh
  obtain ⟨k1, e1, c1, _⟩ := hext.keys _ _ hk
  obtain ⟨k2, e2, r2⟩ := hrev _ _ hk
  rw [e1] at e2; cases e2
  refine ⟨⟨k1, e1, c1.trans hc, ?_⟩, by rw [hext.now]; exact h.past, ?_⟩
  · intro τ m0 h1 h2; rw [r2]; exact hs τ m0 h1 h2
  · obtain ⟨r, hr, hh⟩ := h.stored
    exact ⟨r, hext.store r hr, hh⟩

/-- steps below the cache layer keep the invariant (given the store part). -/
theorem St.step {ρ : RevCtx} {D : List Row → Prop} {t : Int} {w w' : World} (h : St ρ D t w)
    (hext : Ext w w') (hq : Q0 w w') (hs : StoreOK ρ D w'.store) : St ρ D t w' := by
  have hents : ∀ c, entsOf w' c = entsOf w c := fun c => by unfold entsOf cacheAt; rw [hq.caches]
  have hlat : ∀ c, latestOf w' c = latestOf w c := fun c => by unfold latestOf cacheAt; rw [hq.caches]
  refine ⟨hext.now.trans h.now, hq.faults h.faults, ?_, ?_, ?_, ?_, hs⟩
  · intro c m e hm; rw [hents] at hm; exact (h.good c m e hm).mono hext hq.rev
  · intro c1 c2 m1 m2 e1 e2 h1 h2; rw [hents] at h1 h2; exact h.objMeta c1 c2 m1 m2 e1 e2 h1 h2
  · intro c kid m hm; rw [hlat] at hm; exact h.aliasKid c kid m hm
  · intro τ m0 hρ; rw [hext.now]; exact h.tau τ m0 hρ

/-- steps that leave the store alone. -/
theorem St.step' {ρ : RevCtx} {D : List Row → Prop} {t : Int} {w w' : World} (h : St ρ D t w)
    (hext : Ext w w') (hq : Q0 w w') (hs : w'.store = w.store) : St ρ D t w' :=
  h.step hext hq (hs ▸ h.sto)

theorem St.sv {ρ : RevCtx} {D : List Row → Prop} {t : Int} {w w' : World} (h : St ρ D t w) (hv : SV w w') :
    St ρ D t w' := by
  refine ⟨hv.now.trans h.now, hv.faults.trans h.faults, ?_, ?_, ?_, ?_, hv.store ▸ h.sto⟩
  · intro c m e hm
    rw [(hv.view c).1] at hm
    have g := h.good c m e hm
    exact ⟨by rw [hv.keys]; exact g.coh, by rw [hv.now]; exact g.past, by rw [hv.store]; exact g.stored⟩
  · intro c1 c2 m1 m2 e1 e2 h1 h2
    rw [(hv.view _).1] at h1 h2
    exact h.objMeta c1 c2 m1 m2 e1 e2 h1 h2
  · intro c kid m hm; rw [(hv.view c).2.1] at hm; exact h.aliasKid c kid m hm
  · intro τ m0 hρ; rw [hv.now]; exact h.tau τ m0 hρ

/-! ### reading -/

theorem sv_setAt (c : Nat) (w : World) (kc : KeyCache) (h1 : kc.mode = (cacheAt w c).mode)
    (h2 : kc.ents = (cacheAt w c).ents) (h3 : kc.latest = (cacheAt w c).latest) :
    SV w { w with caches := setAt w.caches c fun _ => kc } := setCache_sv c kc w h1 h2 h3

theorem cacheGet_spec (c : Nat) (m : KeyMeta) (w : World) :
    SV w (cacheGet c m w).2 ∧ ∃ o, (cacheGet c m w).1 = .ok o ∧
      (∀ e, o = some e → assocGet (entsOf w c) m = some e) ∧
      (modeOf w c = .simple → o = assocGet (entsOf w c) m) ∧ (modeOf w c = .never → o = none) := by
  unfold cacheGet
  simp only [bind_run, getCache]
  have hkc : w.caches.getD c default = cacheAt w c := rfl
  rw [hkc]
  cases hmode : (cacheAt w c).mode with
  | never =>
    simp only []
    exact ⟨RT.refl w, none, rfl, (by intro e h; cases h), (by intro h; unfold modeOf at h; rw [hmode] at h; cases h), fun _ => rfl⟩
  | simple =>
    simp only []
    exact ⟨RT.refl w, _, rfl, (by intro e h; exact h), fun _ => rfl, (by intro h; unfold modeOf at h; rw [hmode] at h; cases h)⟩
  | bounded =>
    simp only []
    have hm1 : modeOf w c ≠ .simple := by unfold modeOf; rw [hmode]; intro h; cases h
    have hm2 : modeOf w c ≠ .never := by unfold modeOf; rw [hmode]; intro h; cases h
    cases hs : slotOf (cacheAt w c) m with
    | none => exact ⟨RT.refl w, none, rfl, (by intro e h; cases h), fun h => absurd h hm1, fun h => absurd h hm2⟩
    | some s =>
      simp only [bind_run, setCache, modify_run]
      cases (Cache.step (cacheAt w c).pol (Cache.Op.get s) fun x => false).res <;>
        simp only [pure_run] <;>
        first
          | exact ⟨sv_setAt c w _ hmode.symm rfl rfl, none, rfl, (by intro e h; cases h), fun h => absurd h hm1, fun h => absurd h hm2⟩
          | exact ⟨sv_setAt c w _ hmode.symm rfl rfl, _, rfl, (by intro e h; exact h), fun h => absurd h hm1, fun h => absurd h hm2⟩

theorem cacheRead_spec (c : Nat) (m : KeyMeta) (w : World) :
    SV w (cacheRead c m w).2 ∧ ∃ o, (cacheRead c m w).1 = .ok o ∧
      (∀ e, o = some e → readEntry w c m = some e) ∧
      (modeOf w c = .simple → o = readEntry w c m) ∧ (modeOf w c = .never → o = none) := by
  unfold cacheRead
  simp only [bind_run, getCache]
  exact cacheGet_spec c (readMeta w c m) w

theorem getFresh_spec (c : Nat) (m : KeyMeta) (i : Int) (w : World) :
    SV w (getFresh c m i w).2 ∧ ∃ ko fr, (getFresh c m i w).1 = .ok (ko, fr) ∧
      ((ko = none ∧ fr = false ∧ (modeOf w c = .simple → readEntry w c m = none)) ∨
       ∃ e, readEntry w c m = some e ∧ ko = some e.obj ∧ fr = !isReloadRequired e (keyAt w e.obj) w.now i) := by
  unfold getFresh
  simp only [bind_run]
  have sp := cacheRead_spec c m w
  generalize cacheRead c m w = x at sp ⊢
  obtain ⟨r, w1⟩ := x
  obtain ⟨hsv, o, ho, h1, h2, h3⟩ := sp
  simp only at ho hsv; subst ho
  cases o with
  | none =>
    simp only [pure_run]
    exact ⟨hsv, none, false, rfl, Or.inl ⟨rfl, rfl, fun h => (h2 h).symm⟩⟩
  | some e =>
    simp only [bind_run, keyObj_run, get_run]
    rw [hsv.keyAt, hsv.now]
    cases hr : isReloadRequired e (keyAt w e.obj) w.now i <;> simp only [if_true, if_false, pure_run, Bool.false_eq_true]
    · exact ⟨hsv, some e.obj, true, rfl, Or.inr ⟨e, h1 e rfl, rfl, by rw [hr]; rfl⟩⟩
    · exact ⟨hsv, some e.obj, false, rfl, Or.inr ⟨e, h1 e rfl, rfl, by rw [hr]; rfl⟩⟩

/-! ### writing -/

/-- what a cache write may do to the rest of the world. -/
structure CW (w w' : World) : Prop where
  ext : Ext w w'
  faults : w.faults = [] → w'.faults = []
  rev : ∀ (i : Nat) (k : KeyObj), w.keys[i]? = some k → ∃ k' : KeyObj, w'.keys[i]? = some k' ∧ k'.revoked = k.revoked
  store : w'.store = w.store
  mode : ∀ c, modeOf w' c = modeOf w c
  len : w'.caches.length = w.caches.length

instance : RT CW where
  refl w := ⟨Ext.refl w, id, fun i k h => ⟨k, h, rfl⟩, rfl, fun _ => rfl, rfl⟩
  trans h1 h2 := ⟨h1.ext.trans h2.ext, fun h => h2.faults (h1.faults h), fun i k h => by
    obtain ⟨k1, e1, r1⟩ := h1.rev i k h
    obtain ⟨k2, e2, r2⟩ := h2.rev i k1 e1
    exact ⟨k2, e2, r2.trans r1⟩, h2.store.trans h1.store, fun c => (h2.mode c).trans (h1.mode c), h2.len.trans h1.len⟩

theorem CW.of_sv {w w' : World} (h : SV w w') : CW w w' :=
  ⟨Ext.of_eq h.now h.facs h.sessions h.store h.secrets h.keys h.bufs (by rw [h.len]; exact Nat.le_refl _)
     (by rw [h.mats]; exact Nat.le_refl _) (by rw [h.nonces]; exact Nat.le_refl _),
   fun hf => h.faults ▸ hf, fun i k hk => ⟨k, h.keys ▸ hk, rfl⟩, h.store, fun c => (h.view c).2.2, h.len⟩

/-- `SS`: the metastore is untouched. -/
def SS (w w' : World) : Prop := w'.store = w.store
instance : RT SS := ⟨fun _ => rfl, fun h1 h2 => Eq.trans h2 h1⟩

theorem keysSet_ss (o : Nat) (f : KeyObj → KeyObj) :
    Resp SS (modify fun w => { w with keys := setAt w.keys o f }) := fun w => rfl
theorem secretClose_ss (s : Nat) : Resp SS (secretClose s) := fun w => rfl
theorem keyIncr_ss (o : Nat) : Resp SS (keyIncr o) := fun w => rfl
theorem keyWrap_ss (o : Nat) : Resp SS (keyWrap o) := fun w => rfl
theorem keyCloseRaw_ss (o : Nat) : Resp SS (keyCloseRaw o) := by
  unfold keyCloseRaw
  resp_auto [secretClose_ss]
  exact keysSet_ss o _
theorem keyRelease_ss (o : Nat) : Resp SS (keyRelease o) := by
  unfold keyRelease
  apply Resp.bind
  · exact keysSet_ss o _
  · resp_auto [keyCloseRaw_ss]
theorem releaseAll_ss (l : List Nat) : Resp SS (releaseAll l) := by
  induction l with
  | nil => exact Resp.pure _
  | cons v rest ih => unfold releaseAll; resp_auto [keyRelease_ss]

/-- a step below the cache layer that leaves the store alone. -/
theorem CW.of_q0 {w w' : World} (hext : Ext w w') (hq : Q0 w w') (hs : w'.store = w.store) : CW w w' :=
  ⟨hext, hq.faults, hq.rev, hs, fun c => by unfold modeOf cacheAt; rw [hq.caches], by rw [hq.caches]⟩

theorem keyRelease_cw (o : Nat) (w : World) : CW w (keyRelease o w).2 :=
  CW.of_q0 (keyRelease_ext o w) (keyRelease_q0 o w) (keyRelease_ss o w)
theorem releaseAll_cw (l : List Nat) (w : World) : CW w (releaseAll l w).2 :=
  CW.of_q0 (releaseAll_ext l w) (releaseAll_q0 l w) (releaseAll_ss l w)
theorem keyWrap_cw (o : Nat) (w : World) : CW w (keyWrap o w).2 :=
  CW.of_q0 (keyWrap_ext o w) (keyWrap_q0 o w) (keyWrap_ss o w)
theorem keyIncr_cw (o : Nat) (w : World) : CW w (keyIncr o w).2 :=
  CW.of_q0 (keyIncr_ext o w) (keyIncr_q0 o w) (keyIncr_ss o w)
theorem keyCloseRaw_cw (o : Nat) (w : World) : CW w (keyCloseRaw o w).2 :=
  CW.of_q0 (keyCloseRaw_ext o w) (keyCloseRaw_q0 o w) (keyCloseRaw_ss o w)

theorem CW.views {w w' : World} (hq : Q0 w w') (c : Nat) :
    entsOf w' c = entsOf w c ∧ latestOf w' c = latestOf w c := by
  unfold entsOf latestOf cacheAt; rw [hq.caches]; exact ⟨rfl, rfl⟩

/-- replacing the cache at `c` by one with the same mode and aliases. -/
theorem setCache_cw (c : Nat) (kc : KeyCache) (w : World) (h1 : kc.mode = (cacheAt w c).mode) :
    CW w (setCache c kc w).2 ∧
      (∀ c', latestOf (setCache c kc w).2 c' = if c' = c ∧ c < w.caches.length then kc.latest else latestOf w c') ∧
      (∀ c', entsOf (setCache c kc w).2 c' = if c' = c ∧ c < w.caches.length then kc.ents else entsOf w c') := by
  refine ⟨⟨setCache_ext c kc w, id, fun i k h => ⟨k, h, rfl⟩, rfl, ?_, ?_⟩, ?_, ?_⟩
  · intro c'
    unfold modeOf; rw [cacheAt_setCache]
    split
    · rename_i h; rw [h.1]; exact h1
    · rfl
  · show (setAt w.caches c fun _ => kc).length = _; rw [setAt_length]
  · intro c'; unfold latestOf; rw [cacheAt_setCache]; split <;> rfl
  · intro c'; unfold entsOf; rw [cacheAt_setCache]; split <;> rfl

theorem setCache_release_spec (c : Nat) (kc : KeyCache) (vs : List Nat) (w : World) (m : KeyMeta) (e : CEntry)
    (h1 : kc.mode = (cacheAt w c).mode) (h3 : kc.latest = (cacheAt w c).latest)
    (h2 : ∀ p ∈ kc.ents, p ∈ entsOf w c ∨ p = (m, e)) (hns : modeOf w c ≠ .simple) :
    CW w ((setCache c kc >>= fun _ => releaseAll vs) w).2 ∧
      (∀ c', latestOf ((setCache c kc >>= fun _ => releaseAll vs) w).2 c' = latestOf w c') ∧
      (∀ c' p, p ∈ entsOf ((setCache c kc >>= fun _ => releaseAll vs) w).2 c' → p ∈ entsOf w c' ∨ (c' = c ∧ p = (m, e))) ∧
      (modeOf w c = .simple → c < w.caches.length →
        entsOf ((setCache c kc >>= fun _ => releaseAll vs) w).2 c = assocSet (entsOf w c) m e) ∧
      (∀ c', c' ≠ c → entsOf ((setCache c kc >>= fun _ => releaseAll vs) w).2 c' = entsOf w c') := by
  rw [setCache_bind_run]
  obtain ⟨hcw, hl, he⟩ := setCache_cw c kc w h1
  generalize (setCache c kc w).2 = w1 at hcw hl he ⊢
  have hr := releaseAll_cw vs w1
  have hv := fun c => CW.views (releaseAll_q0 vs w1) c
  refine ⟨RT.trans hcw hr, ?_, ?_, fun h => absurd h hns, ?_⟩
  · intro c'; rw [(hv c').2, hl]; split
    · rename_i h; rw [h.1]; exact h3
    · rfl
  · intro c' p hp
    rw [(hv c').1, he] at hp
    split at hp
    · rename_i h
      rcases h2 p hp with h' | h'
      · left; rw [h.1]; exact h'
      · right; exact ⟨h.1, h'⟩
    · left; exact hp
  · intro c' hne; rw [(hv c').1, he]; simp [hne]

theorem cacheSet_spec (c : Nat) (m : KeyMeta) (e : CEntry) (w : World) :
    CW w (cacheSet c m e w).2 ∧ (∀ c', latestOf (cacheSet c m e w).2 c' = latestOf w c') ∧
      (∀ c' p, p ∈ entsOf (cacheSet c m e w).2 c' → p ∈ entsOf w c' ∨ (c' = c ∧ p = (m, e))) ∧
      (modeOf w c = .simple → c < w.caches.length → entsOf (cacheSet c m e w).2 c = assocSet (entsOf w c) m e) ∧
      (∀ c', c' ≠ c → entsOf (cacheSet c m e w).2 c' = entsOf w c') := by
  unfold cacheSet
  simp only [bind_run, getCache_run]
  have key := setCache_cw c { cacheAt w c with ents := assocSet (cacheAt w c).ents m e } w rfl
  simp only [] at key
  revert key
  cases hmode : (cacheAt w c).mode with
  | never =>
    intro _
    simp only [pure_run]
    exact ⟨RT.refl w, fun _ => trivial, fun c' p h => Or.inl h, (by intro h; unfold modeOf at h; rw [hmode] at h; cases h), fun _ _ => trivial⟩
  | simple =>
    intro key
    simp only []
    obtain ⟨hcw, hl, he⟩ := key
    refine ⟨hcw, ?_, ?_, ?_, ?_⟩
    · intro c'; rw [hl]; split
      · rename_i h; rw [h.1]; rfl
      · rfl
    · intro c' p hp
      rw [he] at hp
      split at hp
      · rename_i h
        rcases assocSet_mem hp with h' | h'
        · left; rw [h.1]; exact h'
        · right; exact ⟨h.1, h'⟩
      · left; exact hp
    · intro _ hlt; rw [he]; simp [hlt]; rfl
    · intro c' hne; rw [he]; simp [hne]
  | bounded =>
    intro _
    simp only []
    refine setCache_release_spec c _ _ w m e ?_ ?_ ?_ (by unfold modeOf; rw [hmode]; intro h; cases h)
    · cases slotOf (cacheAt w c) m <;> first | rfl | exact hmode.symm
    · cases slotOf (cacheAt w c) m <;> rfl
    · intro p hp
      rcases assocSet_mem hp with h | h
      · left
        have := foldl_assocDel_mem _ _ h
        revert this
        cases slotOf (cacheAt w c) m <;> exact id
      · right; exact h

/-- a world in which one entry was (over)written and nothing else was added to the caches. -/
theorem St.write {ρ : RevCtx} {D : List Row → Prop} {t : Int} {w w' : World} (h : St ρ D t w) (hcw : CW w w')
    (m : KeyMeta) (e : CEntry)
    (hlat : ∀ c' kid l, assocGet (latestOf w' c') kid = some l → l.kid = kid)
    (hents : ∀ c' p, p ∈ entsOf w' c' → p ∈ entsOf w c' ∨ p = (m, e))
    (hg : Good ρ w m e) (hobj : ∀ c2 m2 e2, (m2, e2) ∈ entsOf w c2 → e2.obj = e.obj → m2 = m) : St ρ D t w' := by
  refine ⟨hcw.ext.now.trans h.now, hcw.faults h.faults, ?_, ?_, hlat, ?_, hcw.store ▸ h.sto⟩
  · intro c m1 e1 hm
    rcases hents c _ hm with h1 | h1
    · exact (h.good c m1 e1 h1).mono hcw.ext hcw.rev
    · cases h1; exact hg.mono hcw.ext hcw.rev
  · intro c1 c2 m1 m2 e1 e2 h1 h2 ho
    rcases hents c1 _ h1 with a | a <;> rcases hents c2 _ h2 with b | b
    · exact h.objMeta c1 c2 m1 m2 e1 e2 a b ho
    · cases b; exact hobj c1 m1 e1 a ho
    · cases a; exact (hobj c2 m2 e2 b ho.symm).symm
    · cases a; cases b; rfl
  · intro τ m0 hρ; rw [hcw.ext.now]; exact h.tau τ m0 hρ

/-- the cache key `write` files an entry under. -/
def writeMeta (w : World) (m : KeyMeta) (e : CEntry) : KeyMeta :=
  if m.created = 0 then ⟨m.kid, (keyAt w e.obj).created⟩ else m

/-- whether `write` moves the latest alias. -/
def setsLatest (w : World) (c : Nat) (m : KeyMeta) (e : CEntry) : Bool :=
  if m.created = 0 then true
  else match assocGet (latestOf w c) m.kid with
    | none => true
    | some l => l.created < (keyAt w e.obj).created

theorem writeMeta_kid (w : World) (m : KeyMeta) (e : CEntry) : (writeMeta w m e).kid = m.kid := by
  unfold writeMeta; split <;> rfl

/-- the part of `write` after the alias update. -/
def writeTail (c : Nat) (m' : KeyMeta) (e : CEntry) : M Unit := do
  let kc ← getCache c
  let existing := match kc.mode with
    | .never => none
    | _ => assocGet kc.ents m'
  let _ ← cacheGet c m'
  match existing with
  | some old => if old.obj ≠ e.obj then keyRelease old.obj
  | none => pure ()
  cacheSet c m' e

theorem cacheWrite_eq (c : Nat) (m : KeyMeta) (e : CEntry) (w : World) :
    cacheWrite c m e w = writeTail c (writeMeta w m e) e
      (if setsLatest w c m e = true
       then (setCache c { cacheAt w c with latest := assocSet (latestOf w c) m.kid (writeMeta w m e) } w).2 else w) := by
  unfold cacheWrite writeTail writeMeta setsLatest
  simp only [bind_run, keyObj_run, getCache_run, getLatestMeta, latestOf]
  split
  · rfl
  · cases assocGet (cacheAt w c).latest m.kid with
    | none => rfl
    | some l =>
      simp only []
      by_cases hlt : l.created < (keyAt w e.obj).created
      · simp only [hlt, decide_true, ↓reduceIte]; rfl
      · simp only [hlt, decide_false, Bool.false_eq_true, ↓reduceIte]; rfl

theorem keyCloseRaw_ok (o : Nat) (w : World) : (keyCloseRaw o w).1 = .ok () := by
  unfold keyCloseRaw
  simp only [bind_run, keyObj_run]
  split
  · rfl
  · rfl

theorem keyRelease_ok (o : Nat) (w : World) : (keyRelease o w).1 = .ok () := by
  unfold keyRelease
  simp only [bind_run, modify_run, keyObj_run]
  split
  · rfl
  · exact keyCloseRaw_ok o _

theorem cacheSet_after {w w1 : World} (hcw : CW w w1)
    (hv : ∀ c, entsOf w1 c = entsOf w c ∧ latestOf w1 c = latestOf w c) (c : Nat) (m : KeyMeta) (e : CEntry) :
    CW w (cacheSet c m e w1).2 ∧ (∀ c', latestOf (cacheSet c m e w1).2 c' = latestOf w c') ∧
      (∀ c' p, p ∈ entsOf (cacheSet c m e w1).2 c' → p ∈ entsOf w c' ∨ (c' = c ∧ p = (m, e))) ∧
      (modeOf w c = .simple → c < w.caches.length → entsOf (cacheSet c m e w1).2 c = assocSet (entsOf w c) m e) ∧
      (∀ c', c' ≠ c → entsOf (cacheSet c m e w1).2 c' = entsOf w c') := by
  obtain ⟨a, b, c1, d, f⟩ := cacheSet_spec c m e w1
  refine ⟨RT.trans hcw a, fun c' => (b c').trans (hv c').2, ?_, ?_, fun c' hne => (f c' hne).trans (hv c').1⟩
  · intro c' p hp; have := c1 c' p hp; rw [(hv c').1] at this; exact this
  · intro hm hl
    rw [← hcw.mode] at hm; rw [← hcw.len] at hl
    rw [d hm hl, (hv c).1]

theorem writeTail_spec (c : Nat) (m : KeyMeta) (e : CEntry) (w : World) :
    CW w (writeTail c m e w).2 ∧ (∀ c', latestOf (writeTail c m e w).2 c' = latestOf w c') ∧
      (∀ c' p, p ∈ entsOf (writeTail c m e w).2 c' → p ∈ entsOf w c' ∨ (c' = c ∧ p = (m, e))) ∧
      (modeOf w c = .simple → c < w.caches.length → entsOf (writeTail c m e w).2 c = assocSet (entsOf w c) m e) ∧
      (∀ c', c' ≠ c → entsOf (writeTail c m e w).2 c' = entsOf w c') := by
  unfold writeTail
  simp only [bind_run, getCache_run]
  have sp := cacheGet_spec c m w
  generalize cacheGet c m w = x at sp ⊢
  obtain ⟨r, w1⟩ := x
  obtain ⟨hsv, o, ho, -⟩ := sp
  simp only at ho hsv; subst ho
  simp only []
  have hv1 : ∀ c, entsOf w1 c = entsOf w c ∧ latestOf w1 c = latestOf w c := fun c => ⟨(hsv.view c).1, (hsv.view c).2.1⟩
  generalize (match (cacheAt w c).mode with | CacheMode.never => none | x => assocGet (cacheAt w c).ents m) = ex
  cases ex with
  | none => exact cacheSet_after (CW.of_sv hsv) hv1 c m e
  | some old =>
    simp only []
    split
    · have hk : keyRelease old.obj w1 = (.ok (), (keyRelease old.obj w1).2) := Prod.ext (keyRelease_ok _ _) rfl
      simp only [bind_run]
      rw [hk]
      simp only []
      have hcw := keyRelease_cw old.obj w1
      have hv2 := fun c => CW.views (keyRelease_q0 old.obj w1) c
      generalize (keyRelease old.obj w1).2 = w2 at hcw hv2 ⊢
      exact cacheSet_after (RT.trans (CW.of_sv hsv) hcw)
        (fun c => ⟨(hv2 c).1.trans (hv1 c).1, (hv2 c).2.trans (hv1 c).2⟩) c m e
    · exact cacheSet_after (CW.of_sv hsv) hv1 c m e

theorem cacheWrite_spec (c : Nat) (m : KeyMeta) (e : CEntry) (w : World) :
    CW w (cacheWrite c m e w).2 ∧
      (∀ c', latestOf (cacheWrite c m e w).2 c' =
        if c' = c ∧ c < w.caches.length ∧ setsLatest w c m e = true
        then assocSet (latestOf w c) m.kid (writeMeta w m e) else latestOf w c') ∧
      (∀ c' p, p ∈ entsOf (cacheWrite c m e w).2 c' → p ∈ entsOf w c' ∨ (c' = c ∧ p = (writeMeta w m e, e))) ∧
      (modeOf w c = .simple → c < w.caches.length →
        entsOf (cacheWrite c m e w).2 c = assocSet (entsOf w c) (writeMeta w m e) e) ∧
      (∀ c', c' ≠ c → entsOf (cacheWrite c m e w).2 c' = entsOf w c') := by
  rw [cacheWrite_eq]
  by_cases hs : setsLatest w c m e = true
  · simp only [hs, if_true, and_true]
    obtain ⟨hcw, hl, he⟩ := setCache_cw c { cacheAt w c with latest := assocSet (latestOf w c) m.kid (writeMeta w m e) } w rfl
    generalize (setCache c { cacheAt w c with latest := assocSet (latestOf w c) m.kid (writeMeta w m e) } w).2 = w1 at hcw hl he ⊢
    have he' : ∀ c', entsOf w1 c' = entsOf w c' := by
      intro c'; rw [he]; split
      · rename_i h; rw [h.1]; rfl
      · rfl
    obtain ⟨a, b, c1, d, f⟩ := writeTail_spec c (writeMeta w m e) e w1
    refine ⟨RT.trans hcw a, fun c' => (b c').trans (hl c'), ?_, ?_, fun c' hne => (f c' hne).trans (he' c')⟩
    · intro c' p hp; have := c1 c' p hp; rw [he'] at this; exact this
    · intro hm hlen
      rw [← hcw.mode] at hm; rw [← hcw.len] at hlen
      rw [d hm hlen, he']
  · simp only [hs, if_false, and_false, Bool.false_eq_true]
    exact writeTail_spec c (writeMeta w m e) e w

theorem St.cacheWrite {ρ : RevCtx} {D : List Row → Prop} {t : Int} {w : World} (h : St ρ D t w)
    (c : Nat) (m : KeyMeta) (e : CEntry) (hg : Good ρ w (writeMeta w m e) e)
    (hobj : ∀ c2 m2 e2, (m2, e2) ∈ entsOf w c2 → e2.obj = e.obj → m2 = writeMeta w m e) :
    St ρ D t (cacheWrite c m e w).2 := by
  obtain ⟨hcw, hl, he, -, -⟩ := cacheWrite_spec c m e w
  refine h.write hcw (writeMeta w m e) e ?_ (fun c' p hp => (he c' p hp).imp id (·.2)) hg hobj
  intro c' kid l hget
  rw [hl] at hget
  split at hget
  · by_cases hk : kid = m.kid
    · subst hk
      rw [assocGet_assocSet_same] at hget
      cases hget; exact writeMeta_kid w m e
    · rw [assocGet_assocSet_other _ _ _ _ hk] at hget
      exact h.aliasKid c kid l hget
  · exact h.aliasKid c' kid l hget

end AsherahVerif.Env
