import AsherahVerif.Proofs.EnvTimeRel
/-
The state invariant of the time-related proofs (`St`) and what the cache primitives do to it.

`St ρ D t w`: the clock shows `t`, the fault schedule is empty, and
* every cache entry is `Good`: it points to an existing key object with the creation stamp of its
  cache key (coherence), was loaded in the past, its row is stored, and — `ρ = some (τ, m0)`, the
  row `m0` was revoked when the clock showed `τ` — an entry for `m0` either carries the revoked flag
  or was loaded no later than `τ` (`RevSeen`);
* a key object is cached under one cache key only; latest-aliases point to keys of their own id;
* stored rows are unique per (id, created); the revoked row exists and is flagged;
* `D` holds of the store (a parameter: what the current operation has added so far).
-/
set_option linter.unusedVariables false
namespace AsherahVerif.Env

@[simp] theorem keyObj_run (o : Nat) (w : World) : keyObj o w = (.ok (keyAt w o), w) := rfl
@[simp] theorem getCache_run (c : Nat) (w : World) : getCache c w = (.ok (cacheAt w c), w) := rfl
theorem setCache_run (c : Nat) (kc : KeyCache) (w : World) : setCache c kc w = (.ok (), (setCache c kc w).2) := rfl
theorem newKeyObj_run (c : Int) (r : Bool) (m s : Nat) (w : World) :
    newKeyObj c r m s w = (.ok w.keys.length, { w with keys := w.keys ++ [{ created := c, revoked := r, mat := m, sec := s }] }) := rfl

/-! ### association lists -/

theorem assocGet_mem {κ α : Type} [DecidableEq κ] {l : List (κ × α)} {k : κ} {v : α}
    (h : assocGet l k = some v) : (k, v) ∈ l := by
  unfold assocGet at h
  cases hf : l.find? (·.1 = k) with
  | none => rw [hf] at h; cases h
  | some p =>
    rw [hf] at h
    simp only [Option.map_some, Option.some.injEq] at h
    have h1 := List.find?_some hf
    have h2 := List.mem_of_find?_eq_some hf
    simp only [decide_eq_true_eq] at h1
    obtain ⟨a, b⟩ := p
    simp only at h1 h
    subst h1; subst h; exact h2

theorem assocSet_mem {κ α : Type} [DecidableEq κ] {l : List (κ × α)} {k : κ} {v : α} {p : κ × α}
    (h : p ∈ assocSet l k v) : p ∈ l ∨ p = (k, v) := by
  unfold assocSet at h
  split at h
  · rcases List.mem_map.mp h with ⟨q, hq, e⟩
    split at e
    · right; exact e.symm
    · left; rw [← e]; exact hq
  · rcases List.mem_append.mp h with h | h
    · left; exact h
    · right; simpa using h

theorem assocGet_assocSet_same {κ α : Type} [DecidableEq κ] (l : List (κ × α)) (k : κ) (v : α) :
    assocGet (assocSet l k v) k = some v := by
  unfold assocGet assocSet
  split
  · rename_i hs
    induction l with
    | nil => simp at hs
    | cons a rest ih =>
      simp only [List.map_cons, List.find?_cons]
      by_cases ha : a.1 = k
      · simp [ha]
      · simp only [ha, if_false, decide_false]
        simp only [List.find?_cons, ha, decide_false] at hs
        exact ih hs
  · rename_i hs
    rw [List.find?_append]
    have : List.find? (fun x => decide (x.1 = k)) l = none := by
      cases h : List.find? (fun x => decide (x.1 = k)) l with
      | none => rfl
      | some x => rw [h] at hs; simp at hs
    simp [this]

theorem assocGet_assocSet_other {κ α : Type} [DecidableEq κ] (l : List (κ × α)) (k k' : κ) (v : α)
    (h : k' ≠ k) : assocGet (assocSet l k v) k' = assocGet l k' := by
  unfold assocGet assocSet
  split
  · rename_i hs; clear hs
    congr 1
    induction l with
    | nil => rfl
    | cons a rest ih =>
      rw [List.map_cons, List.find?_cons, List.find?_cons]
      by_cases ha : a.1 = k
      · have h1 : decide ((if a.1 = k then (k, v) else a).1 = k') = false := by simp [ha, Ne.symm h]
        have h2 : decide (a.1 = k') = false := by simp [ha, Ne.symm h]
        rw [h1, h2]; exact ih
      · have h1 : (if a.1 = k then (k, v) else a) = a := by simp [ha]
        rw [h1]; cases decide (a.1 = k') <;> simp only [ih]
  · rw [List.find?_append]
    simp [Ne.symm h]

theorem assocDel_mem {κ α : Type} [DecidableEq κ] {l : List (κ × α)} {k : κ} {p : κ × α}
    (h : p ∈ assocDel l k) : p ∈ l := (List.mem_filter.mp h).1

theorem foldl_assocDel_mem {κ α : Type} [DecidableEq κ] (ks : List κ) (l : List (κ × α)) {p : κ × α}
    (h : p ∈ ks.foldl (fun acc k => assocDel acc k) l) : p ∈ l := by
  induction ks generalizing l with
  | nil => exact h
  | cons k rest ih => exact assocDel_mem (ih _ h)

/-! ### `setCache` through the views -/

theorem cacheAt_setCache (c : Nat) (kc : KeyCache) (w : World) (c' : Nat) :
    cacheAt (setCache c kc w).2 c' = if c' = c ∧ c < w.caches.length then kc else cacheAt w c' := by
  unfold cacheAt
  show (setAt w.caches c fun _ => kc).getD c' default = _
  by_cases hlt : c' < w.caches.length
  · rw [setAt_getD _ _ _ _ _ hlt]
    by_cases hcc : c' = c
    · subst hcc; simp [hlt]
    · simp [hcc]
  · have h1 : (setAt w.caches c fun _ => kc).getD c' default = default := by
      rw [List.getD_eq_getElem?_getD, List.getElem?_eq_none (by rw [setAt_length]; omega)]; rfl
    have h2 : w.caches.getD c' default = default := by
      rw [List.getD_eq_getElem?_getD, List.getElem?_eq_none (by omega)]; rfl
    rw [h1, h2]
    split
    · rename_i h; omega
    · rfl

/-- the cache at `c` is replaced by one with the same mode, entries and aliases. -/
theorem setCache_same_view (c : Nat) (kc : KeyCache) (w : World) (h1 : kc.mode = (cacheAt w c).mode)
    (h2 : kc.ents = (cacheAt w c).ents) (h3 : kc.latest = (cacheAt w c).latest) (c' : Nat) :
    entsOf (setCache c kc w).2 c' = entsOf w c' ∧ latestOf (setCache c kc w).2 c' = latestOf w c' ∧
      modeOf (setCache c kc w).2 c' = modeOf w c' := by
  unfold entsOf latestOf modeOf
  rw [cacheAt_setCache]
  split
  · rename_i h; rw [h.1]; exact ⟨h2, h3, h1⟩
  · exact ⟨rfl, rfl, rfl⟩

/-! ### `SV`: only cache-internal bookkeeping changed -/

structure SV (w w' : World) : Prop where
  now : w'.now = w.now
  store : w'.store = w.store
  keys : w'.keys = w.keys
  faults : w'.faults = w.faults
  log : w'.log = w.log
  len : w'.caches.length = w.caches.length
  view : ∀ c, entsOf w' c = entsOf w c ∧ latestOf w' c = latestOf w c ∧ modeOf w' c = modeOf w c

instance : RT SV where
  refl w := ⟨rfl, rfl, rfl, rfl, rfl, rfl, fun _ => ⟨rfl, rfl, rfl⟩⟩
  trans h1 h2 := ⟨h2.now.trans h1.now, h2.store.trans h1.store, h2.keys.trans h1.keys, h2.faults.trans h1.faults,
    h2.log.trans h1.log, h2.len.trans h1.len,
    fun c => ⟨(h2.view c).1.trans (h1.view c).1, (h2.view c).2.1.trans (h1.view c).2.1,
      (h2.view c).2.2.trans (h1.view c).2.2⟩⟩

theorem SV.readEntry {w w' : World} (h : SV w w') (c : Nat) (m : KeyMeta) : readEntry w' c m = readEntry w c m := by
  unfold Env.readEntry readMeta; rw [(h.view c).1, (h.view c).2.1]

theorem SV.keyAt {w w' : World} (h : SV w w') (o : Nat) : keyAt w' o = keyAt w o := by
  unfold Env.keyAt; rw [h.keys]

theorem setCache_sv (c : Nat) (kc : KeyCache) (w : World) (h1 : kc.mode = (cacheAt w c).mode)
    (h2 : kc.ents = (cacheAt w c).ents) (h3 : kc.latest = (cacheAt w c).latest) : SV w (setCache c kc w).2 :=
  ⟨rfl, rfl, rfl, rfl, rfl, by show (setAt w.caches c fun _ => kc).length = _; rw [setAt_length],
   setCache_same_view c kc w h1 h2 h3⟩

/-! ### the invariant -/

abbrev RevCtx := Option (Int × KeyMeta)

structure Good (ρ : RevCtx) (w : World) (m : KeyMeta) (e : CEntry) : Prop where
  coh : ∃ ko : KeyObj, w.keys[e.obj]? = some ko ∧ ko.created = m.created ∧
    ∀ τ m0, ρ = some (τ, m0) → m = m0 → ko.revoked = true ∨ e.loadedAt ≤ τ
  past : e.loadedAt ≤ w.now
  stored : ∃ r ∈ w.store, r.kid = m.kid ∧ r.created = m.created

/-- the part of the invariant that speaks about the metastore only. -/
structure StoreOK (ρ : RevCtx) (D : List Row → Prop) (store : List Row) : Prop where
  uniq : ∀ r1 r2, r1 ∈ store → r2 ∈ store → r1.kid = r2.kid → r1.created = r2.created → r1 = r2
  rev : ∀ τ m0, ρ = some (τ, m0) → (∃ r ∈ store, r.kid = m0.kid ∧ r.created = m0.created) ∧
    ∀ r ∈ store, r.kid = m0.kid → r.created = m0.created → r.revoked = true
  delta : D store

structure St (ρ : RevCtx) (D : List Row → Prop) (t : Int) (w : World) : Prop where
  now : w.now = t
  faults : w.faults = []
  good : ∀ c m e, (m, e) ∈ entsOf w c → Good ρ w m e
  objMeta : ∀ c1 c2 m1 m2 e1 e2, (m1, e1) ∈ entsOf w c1 → (m2, e2) ∈ entsOf w c2 → e1.obj = e2.obj → m1 = m2
  aliasKid : ∀ c kid m, assocGet (latestOf w c) kid = some m → m.kid = kid
  tau : ∀ τ m0, ρ = some (τ, m0) → τ ≤ w.now
  sto : StoreOK ρ D w.store

/-- `Good` survives every step that keeps the clock, the rows, and the identity and flags of key objects. -/
theorem Good.mono {ρ : RevCtx} {w w' : World} {m : KeyMeta} {e : CEntry} (h : Good ρ w m e)
    (hext : Ext w w') (hrev : ∀ (i : Nat) (k : KeyObj), w.keys[i]? = some k → ∃ k' : KeyObj, w'.keys[i]? = some k' ∧ k'.revoked = k.revoked) :
    Good ρ w' m e := by
  obtain ⟨ko, hk, hc, hs⟩ := h.coh
  obtain ⟨k1, e1, c1, _⟩ := hext.keys _ _ hk
  obtain ⟨k2, e2, r2⟩ := hrev _ _ hk
  rw [e1] at e2; cases e2
  refine ⟨⟨k1, e1, c1.trans hc, ?_⟩, by rw [hext.now]; exact h.past, ?_⟩
  · intro τ m0 h1 h2; rw [r2]; exact hs τ m0 h1 h2
  · obtain ⟨r, hr, hh⟩ := h.stored
    exact ⟨r, hext.store r hr, hh⟩

/-- steps below the cache layer keep the invariant (given the store part). -/
theorem St.step {ρ : RevCtx} {D : List Row → Prop} {t : Int} {w w' : World} (h : St ρ D t w)
    (hext : Ext w w') (hq : Q0 w w') (hs : StoreOK ρ D w'.store) : St ρ D t w' := by
  have hents : ∀ c, entsOf w' c = entsOf w c := fun c => by unfold entsOf cacheAt; rw [hq.caches]
  have hlat : ∀ c, latestOf w' c = latestOf w c := fun c => by unfold latestOf cacheAt; rw [hq.caches]
  refine ⟨hext.now.trans h.now, hq.faults h.faults, ?_, ?_, ?_, ?_, hs⟩
  · intro c m e hm; rw [hents] at hm; exact (h.good c m e hm).mono hext hq.rev
  · intro c1 c2 m1 m2 e1 e2 h1 h2; rw [hents] at h1 h2; exact h.objMeta c1 c2 m1 m2 e1 e2 h1 h2
  · intro c kid m hm; rw [hlat] at hm; exact h.aliasKid c kid m hm
  · intro τ m0 hρ; rw [hext.now]; exact h.tau τ m0 hρ

/-- steps that leave the store alone. -/
theorem St.step' {ρ : RevCtx} {D : List Row → Prop} {t : Int} {w w' : World} (h : St ρ D t w)
    (hext : Ext w w') (hq : Q0 w w') (hs : w'.store = w.store) : St ρ D t w' :=
  h.step hext hq (hs ▸ h.sto)

theorem St.sv {ρ : RevCtx} {D : List Row → Prop} {t : Int} {w w' : World} (h : St ρ D t w) (hv : SV w w') :
    St ρ D t w' := by
  refine ⟨hv.now.trans h.now, hv.faults.trans h.faults, ?_, ?_, ?_, ?_, hv.store ▸ h.sto⟩
  · intro c m e hm
    rw [(hv.view c).1] at hm
    have g := h.good c m e hm
    exact ⟨by rw [hv.keys]; exact g.coh, by rw [hv.now]; exact g.past, by rw [hv.store]; exact g.stored⟩
  · intro c1 c2 m1 m2 e1 e2 h1 h2
    rw [(hv.view _).1] at h1 h2
    exact h.objMeta c1 c2 m1 m2 e1 e2 h1 h2
  · intro c kid m hm; rw [(hv.view c).2.1] at hm; exact h.aliasKid c kid m hm
  · intro τ m0 hρ; rw [hv.now]; exact h.tau τ m0 hρ

/-! ### reading -/

theorem sv_setAt (c : Nat) (w : World) (kc : KeyCache) (h1 : kc.mode = (cacheAt w c).mode)
    (h2 : kc.ents = (cacheAt w c).ents) (h3 : kc.latest = (cacheAt w c).latest) :
    SV w { w with caches := setAt w.caches c fun _ => kc } := setCache_sv c kc w h1 h2 h3

theorem cacheGet_spec (c : Nat) (m : KeyMeta) (w : World) :
    SV w (cacheGet c m w).2 ∧ ∃ o, (cacheGet c m w).1 = .ok o ∧
      (∀ e, o = some e → assocGet (entsOf w c) m = some e) ∧
      (modeOf w c = .simple → o = assocGet (entsOf w c) m) ∧ (modeOf w c = .never → o = none) := by
  unfold cacheGet
  simp only [bind_run, getCache]
  have hkc : w.caches.getD c default = cacheAt w c := rfl
  rw [hkc]
  cases hmode : (cacheAt w c).mode with
  | never =>
    simp only []
    exact ⟨RT.refl w, none, rfl, (by intro e h; cases h), (by intro h; unfold modeOf at h; rw [hmode] at h; cases h), fun _ => rfl⟩
  | simple =>
    simp only []
    exact ⟨RT.refl w, _, rfl, (by intro e h; exact h), fun _ => rfl, (by intro h; unfold modeOf at h; rw [hmode] at h; cases h)⟩
  | bounded =>
    simp only []
    have hm1 : modeOf w c ≠ .simple := by unfold modeOf; rw [hmode]; intro h; cases h
    have hm2 : modeOf w c ≠ .never := by unfold modeOf; rw [hmode]; intro h; cases h
    cases hs : slotOf (cacheAt w c) m with
    | none => exact ⟨RT.refl w, none, rfl, (by intro e h; cases h), fun h => absurd h hm1, fun h => absurd h hm2⟩
    | some s =>
      simp only [bind_run, setCache, modify_run]
      cases (Cache.step (cacheAt w c).pol (Cache.Op.get s) fun x => false).res <;>
        simp only [pure_run] <;>
        first
          | exact ⟨sv_setAt c w _ hmode.symm rfl rfl, none, rfl, (by intro e h; cases h), fun h => absurd h hm1, fun h => absurd h hm2⟩
          | exact ⟨sv_setAt c w _ hmode.symm rfl rfl, _, rfl, (by intro e h; exact h), fun h => absurd h hm1, fun h => absurd h hm2⟩

theorem cacheRead_spec (c : Nat) (m : KeyMeta) (w : World) :
    SV w (cacheRead c m w).2 ∧ ∃ o, (cacheRead c m w).1 = .ok o ∧
      (∀ e, o = some e → readEntry w c m = some e) ∧
      (modeOf w c = .simple → o = readEntry w c m) ∧ (modeOf w c = .never → o = none) := by
  unfold cacheRead
  simp only [bind_run, getCache]
  exact cacheGet_spec c (readMeta w c m) w

theorem getFresh_spec (c : Nat) (m : KeyMeta) (i : Int) (w : World) :
    SV w (getFresh c m i w).2 ∧ ∃ ko fr, (getFresh c m i w).1 = .ok (ko, fr) ∧
      ((ko = none ∧ fr = false ∧ (modeOf w c = .simple → readEntry w c m = none)) ∨
       ∃ e, readEntry w c m = some e ∧ ko = some e.obj ∧ fr = !isReloadRequired e (keyAt w e.obj) w.now i) := by
  unfold getFresh
  simp only [bind_run]
  have sp := cacheRead_spec c m w
  generalize cacheRead c m w = x at sp ⊢
  obtain ⟨r, w1⟩ := x
  obtain ⟨hsv, o, ho, h1, h2, h3⟩ := sp
  simp only at ho hsv; subst ho
  cases o with
  | none =>
    simp only [pure_run]
    exact ⟨hsv, none, false, rfl, Or.inl ⟨rfl, rfl, fun h => (h2 h).symm⟩⟩
  | some e =>
    simp only [bind_run, keyObj_run, get_run]
    rw [hsv.keyAt, hsv.now]
    cases hr : isReloadRequired e (keyAt w e.obj) w.now i <;> simp only [if_true, if_false, pure_run, Bool.false_eq_true]
    · exact ⟨hsv, some e.obj, true, rfl, Or.inr ⟨e, h1 e rfl, rfl, by rw [hr]; rfl⟩⟩
    · exact ⟨hsv, some e.obj, false, rfl, Or.inr ⟨e, h1 e rfl, rfl, by rw [hr]; rfl⟩⟩

/-! ### writing -/

/-- what a cache write may do to the rest of the world. -/
structure CW (w w' : World) : Prop where
  ext : Ext w w'
  faults : w.faults = [] → w'.faults = []
  rev : ∀ (i : Nat) (k : KeyObj), w.keys[i]? = some k → ∃ k' : KeyObj, w'.keys[i]? = some k' ∧ k'.revoked = k.revoked
  store : w'.store = w.store
  mode : ∀ c, modeOf w' c = modeOf w c
  len : w'.caches.length = w.caches.length

instance : RT CW where
  refl w := ⟨Ext.refl w, id, fun i k h => ⟨k, h, rfl⟩, rfl, fun _ => rfl, rfl⟩
  trans h1 h2 := ⟨h1.ext.trans h2.ext, fun h => h2.faults (h1.faults h), fun i k h => by
    obtain ⟨k1, e1, r1⟩ := h1.rev i k h
    obtain ⟨k2, e2, r2⟩ := h2.rev i k1 e1
    exact ⟨k2, e2, r2.trans r1⟩, h2.store.trans h1.store, fun c => (h2.mode c).trans (h1.mode c), h2.len.trans h1.len⟩

theorem CW.of_sv {w w' : World} (h : SV w w') : CW w w' :=
  ⟨Ext.of_eq h.now (by sorry) (by sorry) h.store (by sorry) h.keys (by sorry) (by rw [h.len]; exact Nat.le_refl _) (by sorry) (by sorry),
   fun hf => h.faults ▸ hf, fun i k hk => ⟨k, h.keys ▸ hk, rfl⟩, h.store, fun c => (h.view c).2.2, h.len⟩

theorem cacheSet_spec (c : Nat) (m : KeyMeta) (e : CEntry) (w : World) :
    CW w (cacheSet c m e w).2 ∧ (∀ c', latestOf (cacheSet c m e w).2 c' = latestOf w c') ∧
      (∀ c' p, p ∈ entsOf (cacheSet c m e w).2 c' → p ∈ entsOf w c' ∨ (c' = c ∧ p = (m, e))) ∧
      (modeOf w c = .simple → c < w.caches.length → entsOf (cacheSet c m e w).2 c = assocSet (entsOf w c) m e) ∧
      (∀ c', c' ≠ c → entsOf (cacheSet c m e w).2 c' = entsOf w c') := by
  unfold cacheSet
  simp only [bind_run, getCache_run]
  cases hmode : (cacheAt w c).mode with
  | never => sorry
  | simple => sorry
  | bounded =>
    simp only []
    trace_state
    sorry

end AsherahVerif.Env
