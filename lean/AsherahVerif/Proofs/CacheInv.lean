import AsherahVerif.Proofs.CachePol
/-
C15 helper lemmas, cache level: the bijection between `byKey` and the policy's bookkeeping, the
size bound, and what `evict` / `Close` do; all preserved by every operation for every oracle.
-/
namespace AsherahVerif.Cache

def keysOf (items : List Item) : List Nat := items.map (·.key)

theorem lookup_some {items : List Item} {k : Nat} {it : Item} (h : lookup items k = some it) :
    it ∈ items ∧ it.key = k := by
  unfold lookup at h
  exact ⟨List.mem_of_find?_eq_some h, by simpa using List.find?_some h⟩

theorem lookup_none {items : List Item} {k : Nat} : lookup items k = none ↔ k ∉ keysOf items := by
  unfold lookup keysOf
  simp only [List.find?_eq_none, List.mem_map]
  constructor
  · rintro h ⟨a, ha, rfl⟩; exact h a ha (by simp)
  · intro h a ha hk; exact h ⟨a, ha, by simpa using hk⟩

theorem lookup_isSome {items : List Item} {k : Nat} (h : k ∈ keysOf items) :
    ∃ it, lookup items k = some it := by
  cases hl : lookup items k with
  | none => exact absurd h (lookup_none.mp hl)
  | some it => exact ⟨it, rfl⟩

theorem mem_keysOf_eraseKey {items : List Item} {k x : Nat} :
    x ∈ keysOf (eraseKey items k) ↔ x ≠ k ∧ x ∈ keysOf items := by
  unfold keysOf eraseKey
  simp only [List.mem_map, List.mem_filter]
  constructor
  · rintro ⟨a, ⟨ha, hk⟩, rfl⟩; exact ⟨by simpa using hk, a, ha, rfl⟩
  · rintro ⟨hk, a, ha, rfl⟩; exact ⟨a, ⟨ha, by simpa using hk⟩, rfl⟩

theorem nodup_keysOf_eraseKey {items : List Item} {k : Nat} (hn : (keysOf items).Nodup) :
    (keysOf (eraseKey items k)).Nodup := by
  unfold keysOf eraseKey
  exact (List.filter_sublist.map _).nodup hn

theorem keysOf_setVal {items : List Item} {k v e : Nat} : keysOf (setVal items k v e) = keysOf items := by
  unfold keysOf setVal
  rw [List.map_map]
  apply List.map_congr_left
  intro a _
  simp only [Function.comp]
  split <;> rfl

theorem length_setVal {items : List Item} {k v e : Nat} : (setVal items k v e).length = items.length := by
  simp [setVal]

/-- with distinct keys, erasing a present key removes exactly one entry, and the list is that
entry plus the rest (as a multiset). -/
theorem perm_eraseKey {items : List Item} {it : Item} (hn : (keysOf items).Nodup)
    (h : lookup items it.key = some it) : items.Perm (it :: eraseKey items it.key) := by
  induction items with
  | nil => simp [lookup] at h
  | cons a t ih =>
    simp only [keysOf, List.map_cons, List.nodup_cons] at hn
    unfold lookup at h
    simp only [List.find?_cons] at h
    by_cases ha : a.key = it.key
    · simp only [ha, beq_self_eq_true] at h
      injection h with h; subst h
      have : eraseKey (a :: t) a.key = t := by
        unfold eraseKey
        simp only [List.filter_cons, bne_self_eq_false, Bool.false_eq_true, if_false]
        apply List.filter_eq_self.mpr
        intro b hb
        have : b.key ≠ a.key := fun e => hn.1 (e ▸ List.mem_map.mpr ⟨b, hb, rfl⟩)
        simpa using this
      rw [this]
    · have hb : (a.key == it.key) = false := by simpa using ha
      simp only [hb] at h
      have ih' := ih hn.2 h
      have : eraseKey (a :: t) it.key = a :: eraseKey t it.key := by
        unfold eraseKey
        simp [List.filter_cons, ha]
      rw [this]
      exact (List.Perm.cons a ih').trans (List.Perm.swap it a _)

theorem length_eraseKey {items : List Item} {it : Item} (hn : (keysOf items).Nodup)
    (h : lookup items it.key = some it) : (eraseKey items it.key).length + 1 = items.length := by
  have := (perm_eraseKey hn h).length_eq
  simp at this; omega

/-- `byKey` and the policy agree and neither has duplicates. -/
structure Bij (c : Cache) : Prop where
  itemsNodup : (keysOf c.items).Nodup
  polNodup : c.pol.keys.Nodup
  same : ∀ k, k ∈ c.pol.keys ↔ k ∈ keysOf c.items

structure Inv (c : Cache) : Prop extends Bij c where
  size : c.items.length ≤ c.cap
  capPos : 1 ≤ c.cap
  closed : c.closing = true → c.items = []

theorem evict_spec {c : Cache} (h : Bij c) (hne : c.items ≠ []) (orc : Bool) :
    ∃ it, lookup c.items it.key = some it ∧ (c.pol.victim orc).1 = some it.key ∧
      evict c orc = some ({ c with pol := (c.pol.victim orc).2.remove it.key,
                                   items := eraseKey c.items it.key }, [(it.key, it.val)]) := by
  have hk : c.pol.keys ≠ [] := by
    intro e
    cases hi : c.items with
    | nil => exact hne hi
    | cons a t =>
      have : a.key ∈ c.pol.keys := (h.same a.key).mpr (by simp [keysOf, hi])
      rw [e] at this; simp at this
  cases hv : (c.pol.victim orc).1 with
  | none => exact absurd (Pol.victim_none.mp hv) hk
  | some k =>
    have hm : k ∈ keysOf c.items := (h.same k).mp (Pol.victim_mem hv)
    obtain ⟨it, hit⟩ := lookup_isSome hm
    have hkey := (lookup_some hit).2
    refine ⟨it, by rw [hkey]; exact hit, by rw [hkey], ?_⟩
    unfold evict
    have : c.pol.victim orc = (some k, (c.pol.victim orc).2) := by rw [← hv]
    rw [this]
    simp only [hit, evictItem, hkey]

theorem evict_bij {c c' : Cache} {cbs : List (Nat × Nat)} {orc : Bool} (h : Bij c)
    (he : evict c orc = some (c', cbs)) (hne : c.items ≠ []) :
    Bij c' ∧ c'.items.length + 1 = c.items.length ∧ c'.cap = c.cap ∧ c'.closing = c.closing ∧
    c'.expiry = c.expiry ∧ c'.now = c.now ∧
    ∃ it, lookup c.items it.key = some it ∧ cbs = [(it.key, it.val)] ∧
          c'.items = eraseKey c.items it.key ∧ (c.pol.victim orc).1 = some it.key := by
  obtain ⟨it, hit, hv, hev⟩ := evict_spec h hne orc
  rw [hev] at he
  injection he with he
  injection he with h1 h2
  subst h1; subst h2
  refine ⟨⟨nodup_keysOf_eraseKey h.itemsNodup, Pol.nodup_remove (Pol.victim_nodup h.polNodup), ?_⟩,
    length_eraseKey h.itemsNodup hit, rfl, rfl, rfl, rfl, it, hit, rfl, rfl, hv⟩
  intro k
  simp only
  rw [Pol.mem_remove (Pol.victim_nodup h.polNodup), Pol.victim_keys_mem, mem_keysOf_eraseKey, h.same]

/-- `Close`'s eviction loop empties the cache and reports every entry exactly once. -/
theorem evictAll_spec (orc : Nat → Bool) :
    ∀ (n : Nat) (c : Cache) (acc : List (Nat × Nat)), Bij c → c.items.length ≤ n →
    ∃ c' cbs, evictAll orc n c acc = some (c', acc ++ cbs) ∧ c'.items = [] ∧ Bij c' ∧
      c'.cap = c.cap ∧ c'.closing = c.closing ∧
      cbs.Perm (c.items.map fun it => (it.key, it.val)) := by
  intro n
  induction n with
  | zero =>
    intro c acc hb hl
    have : c.items = [] := List.eq_nil_of_length_eq_zero (by omega)
    exact ⟨c, [], by simp [evictAll], this, hb, rfl, rfl, by simp [this]⟩
  | succ n ih =>
    intro c acc hb hl
    unfold evictAll
    by_cases hemp : c.items.isEmpty = true
    · have : c.items = [] := List.isEmpty_iff.mp hemp
      exact ⟨c, [], by simp [this], this, hb, rfl, rfl, by simp [this]⟩
    · have hne : c.items ≠ [] := fun e => hemp (by simp [e])
      obtain ⟨it, hit, hv, hev⟩ := evict_spec hb hne (orc n)
      have hb' := evict_bij hb hev hne
      obtain ⟨hb1, hlen, hcap, hcl, _, _, _⟩ := hb'
      simp only [hemp, hev]
      obtain ⟨c', cbs, h1, h2, h3, h4, h5, h6⟩ := ih _ (acc ++ [(it.key, it.val)]) hb1 (by simp at hlen ⊢; omega)
      refine ⟨c', (it.key, it.val) :: cbs, ?_, h2, h3, by rw [h4], by rw [h5], ?_⟩
      · simp only [Bool.false_eq_true, if_false]; rw [h1]; simp
      · have hp := perm_eraseKey hb.itemsNodup hit
        have := (hp.map fun it => (it.key, it.val))
        simp only [List.map_cons] at this
        exact (List.Perm.cons _ h6).trans this.symm

end AsherahVerif.Cache
