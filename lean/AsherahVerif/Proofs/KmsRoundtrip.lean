import AsherahVerif.Proofs.KmsWrap
/-
Helper lemmas for C17: what the envelope of a successful `EncryptKey` contains, in general and for
regional KMS services that follow the contract (`Faults.cloud`).
-/
namespace AsherahVerif.Kms
open AsherahVerif.KmsSpec

/-- see `Props.C17.wrap_has_entry_for_each_success`. -/
theorem encryptKey_ok_spec (p : Plugin) (cloud : Cloud) (sched : List Kek → List Kek)
    (hperm : ∀ l, (sched l).Perm l) (clients : List Client) (pt : Nat) (env : Envelope)
    (h : (encryptKey p cloud sched clients pt).res = .ok env) :
    ∃ pre g post o kid, clients = pre ++ g :: post ∧ (∀ x ∈ pre, cloud.gen x = none) ∧ cloud.gen g = some o ∧
      o.keyId = some kid ∧ o.key.valid = true ∧ env.encKey = .sealed o.key.id pt ∧
      env.keks.Perm (clients.filterMap (regionalKek cloud kid o)) ∧
      (∀ c ∈ clients, c.arn = kid → ⟨c.region, c.arn, o.blob⟩ ∈ env.keks) ∧
      (∀ c ∈ clients, c.arn ≠ kid → ∀ b, cloud.enc c o.key = some b → ⟨c.region, c.arn, b⟩ ∈ env.keks) ∧
      (∀ k ∈ env.keks, ∃ c ∈ clients, k.region = c.region ∧ k.arn = c.arn ∧
        ((c.arn = kid ∧ k.blob = o.blob) ∨ (c.arn ≠ kid ∧ cloud.enc c o.key = some k.blob))) := by
  have hb := encryptKeyBody_cases p cloud sched clients pt
  have hr : (encryptKey p cloud sched clients pt).res = (encryptKeyBody p cloud sched clients pt).res := by
    unfold encryptKey; simp only; split <;> rfl
  rw [hr] at h
  rcases hb with ⟨_, h2, _⟩ | ⟨o, hg, _, h2⟩
  · rw [h2] at h; cases h
  · obtain ⟨pre, g, post, hcl, hgc, hpre⟩ := generateDataKey_some hg
    rcases h2 with ⟨_, h'⟩ | ⟨_, _, h'⟩ | ⟨hv, kid, hk, h', _⟩
    · rw [h'] at h; cases h
    · rw [h'] at h; split at h <;> cases h
    · rw [h'] at h
      have henv : env = ⟨.sealed o.key.id pt, sched (clients.filterMap (regionalKek cloud kid o))⟩ := by
        cases h; rfl
      have hp : env.keks.Perm (clients.filterMap (regionalKek cloud kid o)) := by rw [henv]; exact hperm _
      refine ⟨pre, g, post, o, kid, hcl, hpre, hgc, hk, hv, by rw [henv], hp, ?_, ?_, ?_⟩
      · intro c hc ha
        exact hp.symm.subset (List.mem_filterMap.mpr ⟨c, hc, by simp [regionalKek, ha]⟩)
      · intro c hc ha b hb
        exact hp.symm.subset (List.mem_filterMap.mpr ⟨c, hc, by simp [regionalKek, ha, hb]⟩)
      · intro k hk'
        obtain ⟨c, hc, hck⟩ := List.mem_filterMap.mp (hp.subset hk')
        refine ⟨c, hc, ?_⟩
        unfold regionalKek at hck
        by_cases ha : c.arn = kid
        · simp only [ha, if_true, Option.some.injEq] at hck
          subst hck; exact ⟨rfl, ha.symm ▸ rfl, Or.inl ⟨ha, rfl⟩⟩
        · simp only [ha, if_false, Option.map_eq_some_iff] at hck
          obtain ⟨b, hb, hkb⟩ := hck
          subst hkb; exact ⟨rfl, rfl, Or.inr ⟨ha, hb⟩⟩


theorem filterMap_map_sublist {α β γ : Type} (f : α → Option β) (g : β → γ) (h : α → γ)
    (hf : ∀ a b, f a = some b → g b = h a) (l : List α) : ((l.filterMap f).map g).Sublist (l.map h) := by
  induction l with
  | nil => simp
  | cons a l ih =>
    cases hfa : f a with
    | none => simpa [List.filterMap_cons, hfa] using ih.cons _
    | some b => simp [hfa, hf a b hfa, ih]

/-- what an envelope wrapped through regional KMS services that follow the contract looks like. -/
theorem honest_envelope (pw : Plugin) (fw : Faults) (sched : List Kek → List Kek) (hperm : ∀ l, (sched l).Perm l)
    (A : List Client) (pt : Nat) (env : Envelope) (hkid : ∀ c, fw.keyId c = some c.arn)
    (hA : (A.map (·.region)).Nodup) (hw : (encryptKey pw fw.cloud sched A pt).res = .ok env) :
    fw.newKey.valid = true ∧ env.encKey = .sealed fw.newKey.id pt ∧ (env.keks.map (·.region)).Nodup ∧
    (∀ k ∈ env.keks, ∃ a ∈ A, k.region = a.region ∧ k.arn = a.arn ∧ k.blob = ⟨a.arn, fw.newKey⟩) := by
  obtain ⟨pre, g, post, o, kid, hcl, _, hgc, hk, hv, henc, hp, _, _, hall⟩ :=
    encryptKey_ok_spec pw fw.cloud sched hperm A pt env hw
  have ho : o = ⟨fw.keyId g, fw.newKey, ⟨g.arn, fw.newKey⟩⟩ := by
    simp only [Faults.cloud] at hgc
    split at hgc
    · cases hgc
    · cases hgc; rfl
  have hkid' : kid = g.arn := by
    rw [ho, hkid] at hk; cases hk; rfl
  have hkey : o.key = fw.newKey := by rw [ho]
  have hblob : o.blob = ⟨g.arn, fw.newKey⟩ := by rw [ho]
  refine ⟨by rw [← hkey]; exact hv, by rw [henc, hkey], ?_, ?_⟩
  · have hsub := filterMap_map_sublist (regionalKek fw.cloud kid o) (·.region) (·.region) (by
      intro a b hab
      unfold regionalKek at hab
      split at hab
      · cases hab; rfl
      · obtain ⟨_, _, rfl⟩ := Option.map_eq_some_iff.mp hab; rfl) A
    exact (hp.map (·.region)).nodup_iff.mpr (hsub.nodup hA)
  · intro k hk'
    obtain ⟨c, hc, h1, h2, h3⟩ := hall k hk'
    refine ⟨c, hc, h1, h2, ?_⟩
    rcases h3 with ⟨ha, hb⟩ | ⟨_, hb⟩
    · rw [hb, hblob, ha, hkid']
    · simp only [Faults.cloud] at hb
      split at hb
      · cases hb
      · rw [← Option.some.inj hb, hkey]


end AsherahVerif.Kms
