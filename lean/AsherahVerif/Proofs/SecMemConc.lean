import AsherahVerif.Proofs.SecMemWorld
/-
The inductive invariant of the interleaving system (Model/SecMem.lean part (b)): any number of
goroutines, each free to call access / touch-the-bytes / release / Close / IsClosed at any time, under
an arbitrary scheduler and arbitrary faults.  `cstep_inv` is the induction step; it uses the exact
case tables of access / release / close proved for all fault lists in Proofs/SecMem.lean.
-/
namespace AsherahVerif.SecMem

/-! ### lists of threads -/

theorem depthSum_set (ts : List Thread) (i : Nat) (t t' : Thread) (h : ts[i]? = some t) :
    depthSum (ts.set i t') + t.depth = depthSum ts + t'.depth := by
  induction ts generalizing i with
  | nil => simp at h
  | cons a l ih =>
    cases i with
    | zero =>
      simp only [List.getElem?_cons_zero, Option.some.injEq] at h
      subst h
      simp only [List.set_cons_zero, depthSum]; omega
    | succ n =>
      simp only [List.getElem?_cons_succ] at h
      have := ih n h
      simp only [List.set_cons_succ, depthSum]; omega

theorem depth_le_sum (ts : List Thread) (i : Nat) (t : Thread) (h : ts[i]? = some t) : t.depth ≤ depthSum ts := by
  induction ts generalizing i with
  | nil => simp at h
  | cons a l ih =>
    cases i with
    | zero =>
      simp only [List.getElem?_cons_zero, Option.some.injEq] at h
      subst h
      simp only [depthSum]; omega
    | succ n =>
      simp only [List.getElem?_cons_succ] at h
      have := ih n h
      simp only [depthSum]; omega

theorem depthSum_signalAll (ts : List Thread) : depthSum (signalAll ts) = depthSum ts := by
  induction ts with
  | nil => rfl
  | cons a l ih =>
    simp only [signalAll, List.map_cons, depthSum] at ih ⊢
    rw [ih]
    cases a.wait <;> rfl

theorem mem_signalAll {ts : List Thread} {t : Thread} (h : t ∈ signalAll ts) :
    t.wait ≠ some false ∧ ∃ t0 ∈ ts, t.depth = t0.depth := by
  simp only [signalAll, List.mem_map] at h
  obtain ⟨a, ha, rfl⟩ := h
  cases hw : a.wait <;> simp [hw] <;> exact ⟨a, ha, rfl⟩

theorem mem_set_thread {l : List Thread} {i : Nat} {x y : Thread} (h : y ∈ l.set i x) : y = x ∨ y ∈ l := by
  induction l generalizing i with
  | nil => simp at h
  | cons a t ih =>
    cases i with
    | zero => simp only [List.set_cons_zero, List.mem_cons] at h; rcases h with h | h <;> simp [h]
    | succ n =>
      simp only [List.set_cons_succ, List.mem_cons] at h
      rcases h with h | h
      · simp [h]
      · rcases ih h with h | h <;> simp [h]

theorem depthSum_zero_of_all {ts : List Thread} (h : depthSum ts = 0) : ∀ t ∈ ts, t.depth = 0 := by
  induction ts with
  | nil => intro t ht; cases ht
  | cons a l ih =>
    simp only [depthSum] at h
    intro t ht
    simp only [List.mem_cons] at ht
    rcases ht with rfl | ht
    · omega
    · exact ih (by omega) t ht

theorem depthSum_replicate (n : Nat) : depthSum (List.replicate n ({} : Thread)) = 0 := by
  induction n with
  | zero => rfl
  | succ k ih => simp [List.replicate_succ, depthSum, ih]

/-! ### fault-free steps -/

theorem access_nil_ne_err (pf : Proto) (s : Sec) : (access pf s []).res ≠ .err := by
  unfold access
  split
  · simp
  · split
    · simp [Run.call, Prim.alwaysFails]
    · simp

theorem release_nil (s : Sec) : (release s []).res = .ok := by
  simp only [release]
  split <;> simp [Run.call, Prim.alwaysFails]

/-- `close()` run by `Close` (which has set `closing`), in terms of the secret before. -/
theorem closeInner_closing (s : Sec) (hm : s.page.mapped = true) (fl : List Bool) :
    (closeInner { s with closing := true } fl).sec.counter = s.counter ∧
    (closeInner { s with closing := true } fl).sec.closing = true ∧
    (closeInner { s with closing := true } fl).sec.born = s.born ∧
    (closeInner { s with closing := true } fl).sec.impl = s.impl ∧
    ((closeInner { s with closing := true } fl).res = .ok →
      (closeInner { s with closing := true } fl).sec.closed = true ∧
      (closeInner { s with closing := true } fl).sec.page.mapped = false ∧
      (closeInner { s with closing := true } fl).sec.page.locked = false ∧
      (closeInner { s with closing := true } fl).sec.page.content = .zero ∧
      inuseDelta (closeInner { s with closing := true } fl).evs = -1) ∧
    ((closeInner { s with closing := true } fl).res ≠ .ok →
      (closeInner { s with closing := true } fl).sec.closed = s.closed ∧
      (closeInner { s with closing := true } fl).sec.page.mapped = true ∧
      inuseDelta (closeInner { s with closing := true } fl).evs = 0 ∧ fl ≠ []) ∧
    ((closeInner { s with closing := true } fl).res = .panic → s.impl = .mg) ∧
    (closeInner { s with closing := true } fl).res ≠ .crash := by
  have hm' : ({ s with closing := true } : Sec).page.mapped = true := hm
  have h := closeInner_facts { s with closing := true } hm' fl
  have hn := closeInner_nil { s with closing := true } hm'
  obtain ⟨hres, hsame, hok, hfail, _, _, hpan, _⟩ := h
  refine ⟨hsame.2.2.2.2.1, hsame.2.2.2.2.2, hsame.2.2.1, hsame.1, ?_, ?_, hpan, ?_⟩
  · intro hr; obtain ⟨k1, k2, k3, k4, k5, _⟩ := hok hr; exact ⟨k1, k2, k3, k4, k5⟩
  · intro hr; obtain ⟨k1, k2, k3, _, _⟩ := hfail hr
    refine ⟨k1, k2, k3, ?_⟩
    intro h; subst h; exact hr hn
  · rcases hres with h | h | h <;> simp [h]

/-! ### the invariant -/

/-- the page is as creation left it (apart from its protection). -/
def Sec.intact (s : Sec) : Prop :=
  s.page.mapped = true ∧ s.page.locked = true ∧ s.page.dontdump = true ∧ s.page.content = s.born

structure CInv (st : CState) : Prop where
  counter : st.sec.counter = depthSum st.threads
  noCrash : st.crashed = false
  noBad : st.badRead = false
  /-- while the secret is not closing nothing has touched its page -/
  fresh : st.sec.closing = false → st.sec.closed = false ∧ st.sec.intact
  /-- while readers are inside, the secret is open, intact and read-only — with or without faults -/
  inside : st.sec.counter ≠ 0 → st.sec.closed = false ∧ st.sec.intact ∧ st.sec.page.prot = .ro
  open_ : st.sec.closed = false → st.sec.page.mapped = true
  /-- a closed secret was wiped, then unlocked and unmapped, and nobody is inside -/
  gone : st.sec.closed = true → st.sec.page.mapped = false ∧ st.sec.page.locked = false ∧
         st.sec.page.content = .zero ∧ st.sec.counter = 0
  /-- no lost wake-up: a closer that sleeps unsignalled is waiting for a reader that is still inside -/
  waiters : ∀ t ∈ st.threads, t.wait = some false → st.sec.counter ≠ 0
  /-- a goroutine suspended in Close's `cond.Wait` has set `closing` -/
  waiting : ∀ t ∈ st.threads, t.wait ≠ none → st.sec.closing = true
  /-- a Close has returned nil only once the secret is closed -/
  rets : st.closeRets ≠ 0 → st.sec.closed = true
  inuse : st.inuse = if st.sec.closed then 0 else 1
  /-- memguard's library panic needs a fault; protectedmemory never panics -/
  panic : st.panicked = true → st.sec.impl = .mg ∧ st.faulted = true
  /-- without faults: an open secret is intact and PROT_NONE whenever nobody is inside -/
  nofault : st.faulted = false → st.panicked = false ∧
            (st.sec.closed = false → st.sec.intact ∧ (st.sec.counter = 0 → st.sec.page.prot = .none))

/-- the protocol facts the invariant needs. -/
structure Proto.Ok (pf : Proto) : Prop where
  checks : pf.accessChecksClosing = true
  waits : pf.closeWaits = true
  broadcasts : pf.releaseBroadcasts = true

theorem cinit_inv (pf : Proto) (s : Sec) (hs : s.idle = true) (n : Nat) : CInv (cinit pf s n) := by
  obtain ⟨h1, h2, h3, h4, h5, h6, h7, h8, _⟩ := idle_elim hs
  have hi : s.intact := ⟨h4, h5, h6, h8⟩
  have hw : ∀ t ∈ (cinit pf s n).threads, t.wait = none := by
    intro t ht
    simp only [cinit, List.mem_replicate] at ht
    rw [ht.2]
  exact {
    counter := by simp [cinit, h3, depthSum_replicate]
    noCrash := rfl
    noBad := rfl
    fresh := fun _ => ⟨h2, hi⟩
    inside := fun h => absurd h3 h
    open_ := fun _ => h4
    gone := fun h => by simp [cinit, h2] at h
    waiters := fun t ht h => by rw [hw t ht] at h; cases h
    waiting := fun t ht h => absurd (hw t ht) h
    rets := fun h => by simp [cinit] at h
    inuse := by simp [cinit, h2]
    panic := fun h => by simp [cinit] at h
    nofault := fun _ => ⟨rfl, fun _ => ⟨hi, fun _ => h7⟩⟩ }

/-- `closeStep` (the body of Close's loop, run by thread `tid` holding the lock) keeps the invariant. -/
theorem closeStep_inv (st : CState) (hpf : st.pf.Ok) (tid : Nat) (t : Thread) (ht : st.threads[tid]? = some t)
    (fl : List Bool) (hi : CInv st) (hf : fl ≠ [] → st.faulted = true) :
    CInv (closeStep st tid t { st.sec with closing := true } fl) := by
  have hsum := depthSum_set st.threads tid t
  unfold closeStep closeBody
  cases hc : st.sec.closed
  · -- not closed
    by_cases h0 : st.sec.counter = 0
    · -- nobody inside: close() runs
      simp only [hc, Bool.false_eq_true, if_false, h0, beq_self_eq_true, Bool.true_or, if_true]
      obtain ⟨c1, c2, c3, c4, hok, hfail, hpan, hncr⟩ := closeInner_closing st.sec (hi.open_ hc) fl
      simp only [hc, h0] at c1 c2 c3 c4 hok hfail hpan hncr
      generalize closeInner { impl := st.sec.impl, id := st.sec.id, len := st.sec.len, born := st.sec.born, page := st.sec.page, closing := true, closed := false, counter := 0 } fl = o at c1 c2 c3 c4 hok hfail hpan hncr
      have hthreads : depthSum (st.threads.set tid { t with wait := none }) = depthSum st.threads := by
        have := hsum { t with wait := none } ht; simp only at this; omega
      have hwait : ∀ x ∈ st.threads.set tid { t with wait := none }, x.wait = some false → o.sec.counter ≠ 0 := by
        intro x hx hw
        rcases mem_set_thread hx with rfl | hx
        · cases hw
        · exact absurd h0 (hi.waiters x hx hw)
      by_cases hr : o.res = .ok
      · obtain ⟨k1, k2, k3, k4, k5⟩ := hok hr
        exact {
          counter := by simp only [c1, hthreads]; rw [← hi.counter, h0]
          noCrash := by simp [hi.noCrash, hr]
          noBad := hi.noBad
          fresh := fun h => by rw [c2] at h; cases h
          inside := fun h => absurd c1 h
          open_ := fun h => by rw [k1] at h; cases h
          gone := fun _ => ⟨k2, k3, k4, c1⟩
          waiters := hwait
          waiting := fun _ _ _ => c2
          rets := fun _ => k1
          inuse := by simp only [k1, if_true, k5, hi.inuse, hc]; simp
          panic := fun h => by
            simp only [hr] at h
            have := hi.panic (by simpa using h)
            exact ⟨by rw [c4]; exact this.1, this.2⟩
          nofault := fun hnf => ⟨by simp [hr, (hi.nofault hnf).1], fun h => by rw [k1] at h; cases h⟩ }
      · obtain ⟨k1, k2, k3, k4⟩ := hfail hr
        have hfl : st.faulted = true := hf k4
        exact {
          counter := by simp only [c1, hthreads]; rw [← hi.counter, h0]
          noCrash := by simp [hi.noCrash, hncr]
          noBad := hi.noBad
          fresh := fun h => by rw [c2] at h; cases h
          inside := fun h => absurd c1 h
          open_ := fun _ => k2
          gone := fun h => by rw [k1] at h; cases h
          waiters := hwait
          waiting := fun _ _ _ => c2
          rets := fun h => by
            have h' : st.closeRets ≠ 0 := by simpa [hr] using h
            have := hi.rets h'; rw [hc] at this; cases this
          inuse := by simp only [k1, k3, hi.inuse, hc]; simp
          panic := fun _ => by
            refine ⟨?_, hfl⟩
            show o.sec.impl = .mg
            rw [c4]
            by_cases hp : o.res = .panic
            · exact hpan hp
            · exact (hi.panic (by simp_all)).1
          nofault := fun hnf => by rw [hfl] at hnf; cases hnf }
    · -- readers inside: cond.Wait
      have hcw : st.pf.closeWaits = true := hpf.waits
      have hbeq : (st.sec.counter == 0) = false := by simp [h0]
      simp only [hc, Bool.false_eq_true, if_false, hbeq, hcw, Bool.not_true, Bool.or_false]
      have hthreads : depthSum (st.threads.set tid { t with wait := some false }) = depthSum st.threads := by
        have := hsum { t with wait := some false } ht; simp only at this; omega
      obtain ⟨i1, i2, i3⟩ := hi.inside h0
      exact {
        counter := by simp only [hthreads]; exact hi.counter
        noCrash := hi.noCrash
        noBad := hi.noBad
        fresh := fun h => by cases h
        inside := fun _ => ⟨rfl, i2, i3⟩
        open_ := fun _ => hi.open_ hc
        gone := fun h => by cases h
        waiters := fun _ _ _ => h0
        waiting := fun _ _ _ => rfl
        rets := fun h => by have := hi.rets h; rw [hc] at this; cases this
        inuse := by simpa [hc] using hi.inuse
        panic := hi.panic
        nofault := fun hnf => ⟨(hi.nofault hnf).1, fun _ => ⟨i2, fun h => absurd h h0⟩⟩ }
  · -- already closed: return nil
    simp only [hc, if_true]
    have hthreads : depthSum (st.threads.set tid { t with wait := none }) = depthSum st.threads := by
      have := hsum { t with wait := none } ht; simp only at this; omega
    obtain ⟨g1, g2, g3, g4⟩ := hi.gone hc
    exact {
      counter := by simp only [hthreads]; exact hi.counter
      noCrash := by simp [hi.noCrash]
      noBad := hi.noBad
      fresh := fun h => by cases h
      inside := fun h => absurd g4 h
      open_ := fun h => by cases h
      gone := fun _ => ⟨g1, g2, g3, g4⟩
      waiters := fun x hx hw => by
        rcases mem_set_thread hx with rfl | hx
        · cases hw
        · exact hi.waiters x hx hw
      waiting := fun _ _ _ => rfl
      rets := fun _ => rfl
      inuse := by simp [inuseDelta, hi.inuse, hc]
      panic := by simpa using hi.panic
      nofault := fun hnf => ⟨by simpa using (hi.nofault hnf).1, fun h => by cases h⟩ }

/-- the ghost fault flag only weakens what is claimed. -/
theorem CInv.faulted (st : CState) (hi : CInv st) (b : Bool) : CInv { st with faulted := st.faulted || b } :=
  { counter := hi.counter, noCrash := hi.noCrash, noBad := hi.noBad, fresh := hi.fresh, inside := hi.inside,
    open_ := hi.open_, gone := hi.gone, waiters := hi.waiters, waiting := hi.waiting, rets := hi.rets, inuse := hi.inuse,
    panic := fun h => ⟨(hi.panic h).1, by simp [(hi.panic h).2]⟩,
    nofault := fun h => hi.nofault (by
      cases hf : st.faulted
      · rfl
      · simp [hf] at h) }

theorem closeStep_pf (st : CState) (tid : Nat) (t : Thread) (s : Sec) (fl : List Bool) :
    (closeStep st tid t s fl).pf = st.pf := by
  unfold closeStep; split <;> rfl

/-- a step of a thread (running or waiting) from a state satisfying the invariant. -/
theorem cstepCore_inv (st : CState) (hpf : st.pf.Ok) (hi : CInv st) (tid : Nat) (t : Thread)
    (ht : st.threads[tid]? = some t) (a : Act) (fl : List Bool) (hf : fl ≠ [] → st.faulted = true) :
    CInv (cstepCore st tid t a fl) ∧ (cstepCore st tid t a fl).pf = st.pf := by
  have hsum := depthSum_set st.threads tid t
  have hle := depth_le_sum st.threads tid t ht
  have hmem : t ∈ st.threads := List.mem_of_getElem? ht
  unfold cstepCore
  rcases hw : t.wait with _ | sig
  · -- running
    cases a with
    | access =>
      simp only
      have hs := access_spec' st.pf st.sec fl
      generalize access st.pf st.sec fl = o at hs
      rcases hs with ⟨h1, h2, _, _, _⟩ | ⟨hc, ⟨h1, h2, _, _⟩ | ⟨h1, h3, h2, _⟩ | ⟨h1, h3, h2, _⟩⟩
      · -- refused
        simp only [h1, h2]
        exact ⟨hi, by first | rfl | trivial⟩
      · -- Protect(RO) failed
        simp only [h1, h2]
        exact ⟨hi, by first | rfl | trivial⟩
      · -- first reader
        obtain ⟨hcl, hcd⟩ := hc hpf.checks
        obtain ⟨_, f2⟩ := hi.fresh hcl
        simp only [h1, h2, beq_self_eq_true, if_true]
        refine ⟨?_, by first | rfl | trivial⟩
        have hd : depthSum (st.threads.set tid { depth := t.depth + 1, wait := none }) + t.depth = depthSum st.threads + (t.depth + 1) := hsum _ ht
        have hcz : depthSum st.threads = 0 := by rw [← hi.counter]; exact h3
        exact {
          counter := by show 1 = depthSum (st.threads.set tid { depth := t.depth + 1, wait := none }); omega
          noCrash := hi.noCrash
          noBad := hi.noBad
          fresh := fun _ => ⟨hcd, f2⟩
          inside := fun _ => ⟨hcd, f2, rfl⟩
          open_ := hi.open_
          gone := fun h => by rw [hcd] at h; cases h
          waiters := fun _ _ _ => by simp
          waiting := fun x hx hne => by
            rcases mem_set_thread hx with rfl | hx
            · exact absurd rfl hne
            · exact hi.waiting x hx hne
          rets := hi.rets
          inuse := hi.inuse
          panic := hi.panic
          nofault := fun hnf => ⟨(hi.nofault hnf).1, fun _ => ⟨f2, fun h => by cases h⟩⟩ }
      · -- a further reader
        obtain ⟨hcl, hcd⟩ := hc hpf.checks
        obtain ⟨i1, i2, i3⟩ := hi.inside h3
        simp only [h1, h2, beq_self_eq_true, if_true]
        refine ⟨?_, by first | rfl | trivial⟩
        have hd : depthSum (st.threads.set tid { depth := t.depth + 1, wait := none }) + t.depth = depthSum st.threads + (t.depth + 1) := hsum _ ht
        exact {
          counter := by show st.sec.counter + 1 = depthSum (st.threads.set tid { depth := t.depth + 1, wait := none }); have := hi.counter; omega
          noCrash := hi.noCrash
          noBad := hi.noBad
          fresh := hi.fresh
          inside := fun _ => ⟨i1, i2, i3⟩
          open_ := hi.open_
          gone := fun h => by rw [hcd] at h; cases h
          waiters := fun _ _ _ => by simp
          waiting := fun x hx hne => by
            rcases mem_set_thread hx with rfl | hx
            · exact absurd rfl hne
            · exact hi.waiting x hx hne
          rets := hi.rets
          inuse := hi.inuse
          panic := hi.panic
          nofault := fun hnf => ⟨(hi.nofault hnf).1, fun _ => ⟨i2, fun h => by simp at h⟩⟩ }
    | touch =>
      simp only
      split
      · exact ⟨hi, by first | rfl | trivial⟩
      · rename_i hd
        have hd' : t.depth ≠ 0 := by simpa using hd
        have hc0 : st.sec.counter ≠ 0 := by rw [hi.counter]; omega
        obtain ⟨_, ⟨m1, _, _, m4⟩, m5⟩ := hi.inside hc0
        have ht : touch st.sec = .bytes st.sec.born := by simp [touch, Page.readable, m1, m5, m4]
        rw [ht]
        simp only [bne_self_eq_false, Bool.or_false]
        exact ⟨hi, by first | rfl | trivial⟩
    | release =>
      simp only
      split
      · exact ⟨hi, by first | rfl | trivial⟩
      · rename_i hd
        have hd' : t.depth ≠ 0 := by simpa using hd
        have hc0 : st.sec.counter ≠ 0 := by rw [hi.counter]; omega
        obtain ⟨i1, i2, i3⟩ := hi.inside hc0
        have hs := release_spec' st.sec fl
        have hrn : fl = [] → (release st.sec fl).res = .ok := fun h => by rw [h]; exact release_nil st.sec
        generalize release st.sec fl = o at hs hrn
        have hb : st.pf.releaseBroadcasts = true := hpf.broadcasts
        simp only [hb, if_true]
        have hdd : depthSum (st.threads.set tid { depth := t.depth - 1, wait := none }) + t.depth = depthSum st.threads + (t.depth - 1) := hsum _ ht
        have hsig := depthSum_signalAll (st.threads.set tid { depth := t.depth - 1, wait := none })
        have hwt : ∀ x ∈ signalAll (st.threads.set tid { depth := t.depth - 1, wait := none }), x.wait ≠ none → st.sec.closing = true := by
          intro x hx hne
          simp only [signalAll, List.mem_map] at hx
          obtain ⟨y, hy, rfl⟩ := hx
          rcases mem_set_thread hy with rfl | hy
          · simp at hne
          · apply hi.waiting y hy
            intro h; simp [h] at hne
        refine ⟨?_, by first | rfl | trivial⟩
        rcases hs with ⟨r0, r1, r2, _⟩ | ⟨r0, r1, r2, _⟩ | ⟨r0, r1, r2, _⟩
        · -- last reader, protection dropped
          have hc1 : st.sec.counter = 1 := by omega
          simp only [r2]
          exact {
            counter := by show _ = depthSum (signalAll _); rw [hsig]; have := hi.counter; simp only; omega
            noCrash := hi.noCrash
            noBad := hi.noBad
            fresh := fun h => ⟨i1, i2⟩
            inside := fun h => by simp at h
            open_ := fun _ => i2.1
            gone := fun h => by rw [i1] at h; cases h
            waiters := fun x hx hf => absurd hf (mem_signalAll hx).1
            waiting := hwt
            rets := hi.rets
            inuse := hi.inuse
            panic := hi.panic
            nofault := fun hnf => ⟨(hi.nofault hnf).1, fun _ => ⟨i2, fun _ => rfl⟩⟩ }
        · -- last reader, Protect(NoAccess) failed: the page stays read-only, nobody inside
          have hfl : st.faulted = true := by
            apply hf; intro h; have := hrn h; rw [r1] at this; cases this
          simp only [r2]
          exact {
            counter := by show _ = depthSum (signalAll _); rw [hsig]; have := hi.counter; simp only; omega
            noCrash := hi.noCrash
            noBad := hi.noBad
            fresh := fun h => ⟨i1, i2⟩
            inside := fun h => by simp at h
            open_ := fun _ => i2.1
            gone := fun h => by rw [i1] at h; cases h
            waiters := fun x hx hf => absurd hf (mem_signalAll hx).1
            waiting := hwt
            rets := hi.rets
            inuse := hi.inuse
            panic := hi.panic
            nofault := fun hnf => by rw [hfl] at hnf; cases hnf }
        · -- other readers remain
          simp only [r2]
          exact {
            counter := by show _ = depthSum (signalAll _); rw [hsig]; have := hi.counter; simp only; omega
            noCrash := hi.noCrash
            noBad := hi.noBad
            fresh := hi.fresh
            inside := fun _ => ⟨i1, i2, i3⟩
            open_ := hi.open_
            gone := fun h => by rw [i1] at h; cases h
            waiters := fun x hx hf => absurd hf (mem_signalAll hx).1
            waiting := hwt
            rets := hi.rets
            inuse := hi.inuse
            panic := hi.panic
            nofault := fun hnf => ⟨(hi.nofault hnf).1, fun _ => ⟨i2, fun h => by simp only at h; omega⟩⟩ }
    | closeCall =>
      simp only
      exact ⟨closeStep_inv st hpf tid t ht fl hi hf, closeStep_pf _ _ _ _ _⟩
    | wake => exact ⟨hi, by first | rfl | trivial⟩
    | isClosed => exact ⟨hi, by first | rfl | trivial⟩
  · -- suspended in cond.Wait
    have hcl : st.sec.closing = true := hi.waiting t hmem (by rw [hw]; simp)
    have hsec' : ∀ (s : Sec), s.closing = true → ({ s with closing := true } : Sec) = s := by
      intro s h; cases s; simp only at h; subst h; rfl
    have hsec := hsec' st.sec hcl
    cases sig <;> cases a <;> (try simp only) <;> first
      | exact ⟨hi, by first | rfl | trivial⟩
      | (have := closeStep_inv st hpf tid t ht fl hi hf
         rw [hsec] at this
         exact ⟨this, closeStep_pf _ _ _ _ _⟩)

/-- **the induction step**: every atomic step of every goroutine, under any faults, keeps the
invariant (given the three protocol facts). -/
theorem cstep_inv (st : CState) (hpf : st.pf.Ok) (hi : CInv st) (tid : Nat) (a : Act) (fl : List Bool) :
    CInv (cstep st tid a fl) ∧ (cstep st tid a fl).pf = st.pf := by
  unfold cstep
  split
  · exact ⟨hi, rfl⟩
  · cases ht : st.threads[tid]? with
    | none => exact ⟨hi, rfl⟩
    | some t =>
      simp only
      have hf : fl ≠ [] → (st.faulted || !fl.isEmpty) = true := by
        intro h; cases fl with
        | nil => exact absurd rfl h
        | cons _ _ => simp
      exact cstepCore_inv { st with faulted := st.faulted || !fl.isEmpty } hpf (hi.faulted st _) tid t ht a fl hf

theorem crun_inv (st : CState) (hpf : st.pf.Ok) (hi : CInv st) (sched : List (Nat × Act × List Bool)) :
    CInv (crun st sched) ∧ (crun st sched).pf = st.pf := by
  induction sched generalizing st with
  | nil => exact ⟨hi, rfl⟩
  | cons p t ih =>
    obtain ⟨tid, a, fl⟩ := p
    simp only [crun]
    obtain ⟨h1, h2⟩ := cstep_inv st hpf hi tid a fl
    obtain ⟨h3, h4⟩ := ih (cstep st tid a fl) (by rw [h2]; exact hpf) h1
    exact ⟨h3, by rw [h4, h2]⟩

end AsherahVerif.SecMem
