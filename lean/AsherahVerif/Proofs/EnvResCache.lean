import AsherahVerif.Proofs.EnvResKey
/-
C09 — the key-cache layer (`key_cache.go`) for the `never` and `simple` caches: run equations for
the read path, and the effect of `write` / `load` / `GetOrLoad` / `GetOrLoadLatest` / `Close` on
the resource invariant.
-/
set_option linter.unusedVariables false
namespace AsherahVerif.Env

/-- `c.keys.Get` of a never / simple cache as a pure function. -/
def lookup (kc : KeyCache) (m : KeyMeta) : Option CEntry :=
  match kc.mode with
  | .never => none
  | _ => assocGet kc.ents m

def readKey (kc : KeyCache) (m : KeyMeta) : KeyMeta :=
  if m.created = 0 then (getLatestMeta kc m.kid).getD m else m

theorem cacheGet_run (w : World) (c : Nat) (m : KeyMeta) (h : (w.caches.getD c default).mode ≠ .bounded) :
    cacheGet c m w = (.ok (lookup (w.caches.getD c default) m), w) := by
  simp only [cacheGet, bind_run, getCache, lookup]
  cases hm : (w.caches.getD c default).mode with
  | never => rfl
  | simple => rfl
  | bounded => exact absurd hm h

theorem cacheRead_run (w : World) (c : Nat) (m : KeyMeta) (h : (w.caches.getD c default).mode ≠ .bounded) :
    cacheRead c m w = (.ok (lookup (w.caches.getD c default) (readKey (w.caches.getD c default) m)), w) := by
  simp only [cacheRead, bind_run, getCache, readKey]
  exact cacheGet_run w c _ h

theorem getFresh_run (w : World) (c : Nat) (m : KeyMeta) (i : Int) (h : (w.caches.getD c default).mode ≠ .bounded) :
    ∃ r, getFresh c m i w = (.ok r, w) ∧
      ∀ o b, r = (some o, b) → ∃ e, lookup (w.caches.getD c default) (readKey (w.caches.getD c default) m) = some e ∧ e.obj = o := by
  simp only [getFresh, bind_run, cacheRead_run w c m h]
  cases hl : lookup (w.caches.getD c default) (readKey (w.caches.getD c default) m) with
  | none => exact ⟨_, rfl, fun o b hb => by cases hb⟩
  | some e =>
    simp only [bind_run, keyObj, get_run]
    split
    · exact ⟨_, rfl, fun o b hb => by cases hb; exact ⟨e, rfl, rfl⟩⟩
    · exact ⟨_, rfl, fun o b hb => by cases hb; exact ⟨e, rfl, rfl⟩⟩

theorem cacheSet_run_simple (w : World) (c : Nat) (m : KeyMeta) (e : CEntry) (h : (w.caches.getD c default).mode = .simple) :
    cacheSet c m e w = (.ok (), { w with caches := setAt w.caches c fun _ =>
      { (w.caches.getD c default) with ents := assocSet (w.caches.getD c default).ents m e } }) := by
  simp only [cacheSet, bind_run, getCache, h]
  rfl

theorem cacheSet_run_never (w : World) (c : Nat) (m : KeyMeta) (e : CEntry) (h : (w.caches.getD c default).mode = .never) :
    cacheSet c m e w = (.ok (), w) := by
  simp only [cacheSet, bind_run, getCache, h]
  rfl
def writeKey (m : KeyMeta) (kcreated : Int) : KeyMeta := if m.created = 0 then ⟨m.kid, kcreated⟩ else m

def cacheWriteTail (c : Nat) (m' : KeyMeta) (e : CEntry) : M Unit := do
  let kc ← getCache c
  let existing := match kc.mode with
    | .never => none
    | _ => assocGet kc.ents m'
  let _ ← cacheGet c m'
  match existing with
  | some old => if old.obj ≠ e.obj then keyRelease old.obj
  | none => pure ()
  cacheSet c m' e

def setLatestFlag (kc : KeyCache) (m : KeyMeta) (k : KeyObj) : Bool :=
  if m.created = 0 then true
  else match getLatestMeta kc m.kid with
    | none => true
    | some l => l.created < k.created

def cacheWrite' (c : Nat) (m : KeyMeta) (e : CEntry) : M Unit := fun w =>
  let k := w.keys.getD e.obj default
  let kc := w.caches.getD c default
  let m' := writeKey m k.created
  let w1 := if setLatestFlag kc m k then { w with caches := setAt w.caches c fun _ => { kc with latest := assocSet kc.latest m.kid m' } } else w
  cacheWriteTail c m' e w1

theorem cacheWrite_eq (c : Nat) (m : KeyMeta) (e : CEntry) (w : World) : cacheWrite c m e w = cacheWrite' c m e w := by
  simp only [cacheWrite, cacheWrite', setLatestFlag, bind_run, keyObj, getCache, writeKey]
  by_cases h0 : m.created = 0
  · simp only [h0, ↓reduceIte, setCache, modify_run, cacheWriteTail, bind_run, getCache]
    rfl
  · simp only [h0, ↓reduceIte]
    cases hl : getLatestMeta (w.caches.getD c default) m.kid with
    | none =>
      simp only [↓reduceIte, setCache, modify_run, cacheWriteTail, bind_run, getCache]
      rfl
    | some l =>
      simp only []
      by_cases h1 : l.created < (w.keys.getD e.obj default).created
      · simp only [h1, decide_true, ↓reduceIte, setCache, modify_run, cacheWriteTail, bind_run, getCache]
        rfl
      · simp only [h1, decide_false, ↓reduceIte, cacheWriteTail, bind_run, getCache]
        rfl

theorem keyCloseRaw_frame (o : Nat) (w : World) :
    (keyCloseRaw o w).1 = .ok () ∧ (keyCloseRaw o w).2.caches = w.caches := by
  simp only [keyCloseRaw, bind_run, keyObj]
  split <;> simp [secretClose, modify_run, bind_run]

theorem keyRelease_frame (o : Nat) (w : World) :
    (keyRelease o w).1 = .ok () ∧ (keyRelease o w).2.caches = w.caches := by
  simp only [keyRelease, bind_run, modify_run, keyObj]
  split
  · simp
  · exact keyCloseRaw_frame o _

def writeHolds (h : Nat → Int) (kc : KeyCache) (m' : KeyMeta) (e : CEntry) : Nat → Int :=
  match assocGet kc.ents m' with
  | some old => if old.obj = e.obj then h else hadd h e.obj (-1)
  | none => hadd h e.obj (-1)

theorem cacheWriteTail_spec (T : CTab) (raw : Raw) (h : Nat → Int) (c : Nat) (m' : KeyMeta) (e : CEntry) (kc1 : KeyCache)
    (hd : T.dead c = false) (hmode : kc1.mode = .simple) (hpos : ∀ o, 0 ≤ h o) :
    Spec (fun w => RIc T raw h w ∧ w.caches[c]? = some kc1 ∧ ∃ k, w.keys[e.obj]? = some k ∧ k.created = m'.created)
      (cacheWriteTail c m' e)
      (fun _ w' => RIc T raw (writeHolds h kc1 m' e) w' ∧ ∃ kc', w'.caches[c]? = some kc' ∧ assocGet kc'.ents m' = some e)
      (fun _ => False) := by
  apply Spec.intro_ok
  rintro w ⟨hi, hkc, k, hk, hkcr⟩
  have hgd : w.caches.getD c default = kc1 := getD_eq_of_getElem? hkc
  have hnb : (w.caches.getD c default).mode ≠ .bounded := by rw [hgd, hmode]; decide
  -- the final `cacheSet`, from any world that still has `kc1` at `c`
  have fin : ∀ (w2 : World) (h2 : Nat → Int), RIc T raw h2 w2 → w2.caches[c]? = some kc1 →
      (∃ k, w2.keys[e.obj]? = some k ∧ k.created = m'.created) →
      (∀ o, writeHolds h kc1 m' e o + ((objsOf { kc1 with ents := assocSet kc1.ents m' e }).count o : Int) =
        h2 o + ((objsOf kc1).count o : Int)) →
      ∃ a w', cacheSet c m' e w2 = (.ok a, w') ∧
        RIc T raw (writeHolds h kc1 m' e) w' ∧ ∃ kc', w'.caches[c]? = some kc' ∧ assocGet kc'.ents m' = some e := by
    intro w2 h2 hi2 hkc2 hk2 hh
    have hgd2 : w2.caches.getD c default = kc1 := getD_eq_of_getElem? hkc2
    rw [cacheSet_run_simple w2 c m' e (by rw [hgd2, hmode]), hgd2]
    have hok1 := hi2.ents c kc1 hkc2 hd
    refine ⟨(), _, rfl, hi2.updCache c kc1 { kc1 with ents := assocSet kc1.ents m' e } hkc2 hd rfl ?_ hh rfl rfl rfl,
      { kc1 with ents := assocSet kc1.ents m' e }, ?_, assocGet_assocSet_self _ _ _⟩
    · refine ⟨?_, assocSet_keys_nodup _ _ hok1.nodup, hok1.latest⟩
      intro m2 e2 hme
      rcases mem_assocSet hme with ⟨rfl, rfl⟩ | ⟨hme', _⟩
      · exact hk2
      · exact hok1.entKey m2 e2 hme'
    · show (setAt w2.caches c _)[c]? = _
      rw [setAt_getElem?]; simp [hkc2]
  unfold cacheWriteTail
  simp only [bind_run, getCache, hgd, hmode, cacheGet_run w c m' hnb]
  have hok := hi.ents c kc1 hkc hd
  cases hex : assocGet kc1.ents m' with
  | none =>
    simp only []
    apply fin w h hi hkc ⟨k, hk, hkcr⟩
    intro o
    have := count_assocSet_of_none e CEntry.obj hex o
    unfold objsOf
    simp only [writeHolds, hex, hadd]
    rw [this]
    split <;> split <;> omega
  | some old =>
    simp only []
    have hcount := fun o => count_assocSet_of_some e CEntry.obj hok.nodup hex o
    by_cases hsame : old.obj = e.obj
    · simp only [hsame, ne_eq, not_true_eq_false, ↓reduceIte, pure_run]
      apply fin w h hi hkc ⟨k, hk, hkcr⟩
      intro o
      have := hcount o
      unfold objsOf
      simp only [writeHolds, hex, hsame, ↓reduceIte]
      simp only [hsame] at this
      omega
    · simp only [ne_eq, hsame, not_false_eq_true, ↓reduceIte]
      have hcnt : 1 ≤ cntOf T h w old.obj := by
        unfold cntOf
        have : 0 < entCount T.dead w.caches old.obj :=
          entCount_pos_iff.2 ⟨c, kc1, hkc, hd, List.mem_map.2 ⟨(m', old), assocGet_mem hex, rfl⟩⟩
        have := hpos old.obj
        omega
      have hrel := keyRelease_specc T raw h old.obj w ⟨hi, hcnt⟩
      have hfr := keyRelease_frame old.obj w
      have hext := keyRelease_ext old.obj w
      cases hr : keyRelease old.obj w with
      | mk r w2 =>
        rw [hr] at hrel hfr hext
        simp only at hfr
        rw [hfr.1] at hrel
        simp only [bind_run, hr, hfr.1]
        obtain ⟨k2, hk2, hk2c, _⟩ := hext.keys _ _ hk
        apply fin w2 _ hrel (by rw [hfr.2]; exact hkc) ⟨k2, hk2, hk2c.trans hkcr⟩
        intro o
        have := hcount o
        unfold objsOf
        simp only [writeHolds, hex, hsame, ↓reduceIte, hadd]
        have hne : e.obj ≠ old.obj := fun e' => hsame e'.symm
        split at this <;> split at this <;> split <;> split <;> omega

theorem cacheWrite_spec (T : CTab) (raw : Raw) (h : Nat → Int) (c : Nat) (m : KeyMeta) (e : CEntry) (kc : KeyCache) (k : KeyObj)
    (hd : T.dead c = false) (hmode : kc.mode = .simple) (hpos : ∀ o, 0 ≤ h o)
    (hcr : m.created ≠ 0 → k.created = m.created) :
    Spec (fun w => RIc T raw h w ∧ w.caches[c]? = some kc ∧ w.keys[e.obj]? = some k)
      (cacheWrite c m e)
      (fun _ w' => RIc T raw (writeHolds h kc (writeKey m k.created) e) w' ∧
        ∃ kc', w'.caches[c]? = some kc' ∧ assocGet kc'.ents (writeKey m k.created) = some e)
      (fun _ => False) := by
  rintro w ⟨hi, hkc, hk⟩
  rw [cacheWrite_eq]
  have hgd : w.caches.getD c default = kc := getD_eq_of_getElem? hkc
  have hgk : w.keys.getD e.obj default = k := getD_eq_of_getElem? hk
  have hcr' : k.created = (writeKey m k.created).created := by
    unfold writeKey; split
    · rfl
    · rename_i h0; exact hcr h0
  simp only [cacheWrite', hgd, hgk]
  cases setLatestFlag kc m k
  · exact cacheWriteTail_spec T raw h c _ e kc hd hmode hpos w ⟨hi, hkc, k, hk, hcr'⟩
  · -- the latest alias is (re)mapped first
    let kc1 : KeyCache := { kc with latest := assocSet kc.latest m.kid (writeKey m k.created) }
    have hok := hi.ents c kc hkc hd
    have hi1 : RIc T raw h { w with caches := setAt w.caches c fun _ => kc1 } := by
      refine hi.updCache c kc kc1 hkc hd rfl ⟨hok.entKey, hok.nodup, ?_⟩ (fun o => rfl) rfl rfl rfl
      intro kid l hl
      rcases mem_assocSet hl with ⟨rfl, rfl⟩ | ⟨hl', _⟩
      · unfold writeKey; split <;> rfl
      · exact hok.latest kid l hl'
    exact cacheWriteTail_spec T raw h c _ e kc1 hd hmode hpos _
      ⟨hi1, by show (setAt w.caches c _)[c]? = _; rw [setAt_getElem?]; simp [hkc, kc1], k, hk, hcr'⟩
end AsherahVerif.Env
