import AsherahVerif.Proofs.EnvResKey
/-
C09 — the key-cache layer (`key_cache.go`) for the `never` and `simple` caches: run equations for
the read path, and the effect of `write` / `load` / `GetOrLoad` / `GetOrLoadLatest` / `Close` on
the resource invariant.
-/
set_option linter.unusedVariables false
namespace AsherahVerif.Env

/-- `c.keys.Get` of a never / simple cache as a pure function. -/
def lookup (kc : KeyCache) (m : KeyMeta) : Option CEntry :=
  match kc.mode with
  | .never => none
  | _ => assocGet kc.ents m

def readKey (kc : KeyCache) (m : KeyMeta) : KeyMeta :=
  if m.created = 0 then (getLatestMeta kc m.kid).getD m else m

theorem cacheGet_run (w : World) (c : Nat) (m : KeyMeta) (h : (w.caches.getD c default).mode ≠ .bounded) :
    cacheGet c m w = (.ok (lookup (w.caches.getD c default) m), w) := by
  simp only [cacheGet, bind_run, getCache, lookup]
  cases hm : (w.caches.getD c default).mode with
  | never => rfl
  | simple => rfl
  | bounded => exact absurd hm h

theorem cacheRead_run (w : World) (c : Nat) (m : KeyMeta) (h : (w.caches.getD c default).mode ≠ .bounded) :
    cacheRead c m w = (.ok (lookup (w.caches.getD c default) (readKey (w.caches.getD c default) m)), w) := by
  simp only [cacheRead, bind_run, getCache, readKey]
  exact cacheGet_run w c _ h

theorem getFresh_run (w : World) (c : Nat) (m : KeyMeta) (i : Int) (h : (w.caches.getD c default).mode ≠ .bounded) :
    ∃ r, getFresh c m i w = (.ok r, w) ∧
      ∀ o b, r = (some o, b) → ∃ e, lookup (w.caches.getD c default) (readKey (w.caches.getD c default) m) = some e ∧ e.obj = o := by
  simp only [getFresh, bind_run, cacheRead_run w c m h]
  cases hl : lookup (w.caches.getD c default) (readKey (w.caches.getD c default) m) with
  | none => exact ⟨_, rfl, fun o b hb => by cases hb⟩
  | some e =>
    simp only [bind_run, keyObj, get_run]
    split
    · exact ⟨_, rfl, fun o b hb => by cases hb; exact ⟨e, rfl, rfl⟩⟩
    · exact ⟨_, rfl, fun o b hb => by cases hb; exact ⟨e, rfl, rfl⟩⟩

theorem cacheSet_run_simple (w : World) (c : Nat) (m : KeyMeta) (e : CEntry) (h : (w.caches.getD c default).mode = .simple) :
    cacheSet c m e w = (.ok (), { w with caches := setAt w.caches c fun _ =>
      { (w.caches.getD c default) with ents := assocSet (w.caches.getD c default).ents m e } }) := by
  simp only [cacheSet, bind_run, getCache, h]
  rfl

theorem cacheSet_run_never (w : World) (c : Nat) (m : KeyMeta) (e : CEntry) (h : (w.caches.getD c default).mode = .never) :
    cacheSet c m e w = (.ok (), w) := by
  simp only [cacheSet, bind_run, getCache, h]
  rfl
def writeKey (m : KeyMeta) (kcreated : Int) : KeyMeta := if m.created = 0 then ⟨m.kid, kcreated⟩ else m

def cacheWriteTail (c : Nat) (m' : KeyMeta) (e : CEntry) : M Unit := do
  let kc ← getCache c
  let existing := match kc.mode with
    | .never => none
    | _ => assocGet kc.ents m'
  let _ ← cacheGet c m'
  match existing with
  | some old => if old.obj ≠ e.obj then keyRelease old.obj
  | none => pure ()
  cacheSet c m' e

def setLatestFlag (kc : KeyCache) (m : KeyMeta) (k : KeyObj) : Bool :=
  if m.created = 0 then true
  else match getLatestMeta kc m.kid with
    | none => true
    | some l => l.created < k.created

def cacheWrite' (c : Nat) (m : KeyMeta) (e : CEntry) : M Unit := fun w =>
  let k := w.keys.getD e.obj default
  let kc := w.caches.getD c default
  let m' := writeKey m k.created
  let w1 := if setLatestFlag kc m k then { w with caches := setAt w.caches c fun _ => { kc with latest := assocSet kc.latest m.kid m' } } else w
  cacheWriteTail c m' e w1

theorem cacheWrite_eq (c : Nat) (m : KeyMeta) (e : CEntry) (w : World) : cacheWrite c m e w = cacheWrite' c m e w := by
  simp only [cacheWrite, cacheWrite', setLatestFlag, bind_run, keyObj, getCache, writeKey]
  by_cases h0 : m.created = 0
  · simp only [h0, ↓reduceIte, setCache, modify_run, cacheWriteTail, bind_run, getCache]
    rfl
  · simp only [h0, ↓reduceIte]
    cases hl : getLatestMeta (w.caches.getD c default) m.kid with
    | none =>
      simp only [↓reduceIte, setCache, modify_run, cacheWriteTail, bind_run, getCache]
      rfl
    | some l =>
      simp only []
      by_cases h1 : l.created < (w.keys.getD e.obj default).created
      · simp only [h1, decide_true, ↓reduceIte, setCache, modify_run, cacheWriteTail, bind_run, getCache]
        rfl
      · simp only [h1, decide_false, ↓reduceIte, cacheWriteTail, bind_run, getCache]
        rfl

theorem keyCloseRaw_frame (o : Nat) (w : World) :
    (keyCloseRaw o w).1 = .ok () ∧ (keyCloseRaw o w).2.caches = w.caches := by
  simp only [keyCloseRaw, bind_run, keyObj]
  split <;> simp [secretClose, modify_run, bind_run]

theorem keyRelease_frame (o : Nat) (w : World) :
    (keyRelease o w).1 = .ok () ∧ (keyRelease o w).2.caches = w.caches := by
  simp only [keyRelease, bind_run, modify_run, keyObj]
  split
  · simp
  · exact keyCloseRaw_frame o _

def writeHolds (h : Nat → Int) (kc : KeyCache) (m' : KeyMeta) (e : CEntry) : Nat → Int :=
  match assocGet kc.ents m' with
  | some old => if old.obj = e.obj then h else hadd h e.obj (-1)
  | none => hadd h e.obj (-1)

theorem cacheWriteTail_spec (T : CTab) (raw : Raw) (h : Nat → Int) (c : Nat) (m' : KeyMeta) (e : CEntry) (kc1 : KeyCache)
    (hd : T.dead c = false) (hmode : kc1.mode = .simple) (hpos : ∀ o, 0 ≤ h o) :
    Spec (fun w => RIc T raw h w ∧ w.caches[c]? = some kc1 ∧ ∃ k, w.keys[e.obj]? = some k ∧ k.created = m'.created)
      (cacheWriteTail c m' e)
      (fun _ w' => RIc T raw (writeHolds h kc1 m' e) w' ∧ ∃ kc', w'.caches[c]? = some kc' ∧ assocGet kc'.ents m' = some e)
      (fun _ => False) := by
  apply Spec.intro_ok
  rintro w ⟨hi, hkc, k, hk, hkcr⟩
  have hgd : w.caches.getD c default = kc1 := getD_eq_of_getElem? hkc
  have hnb : (w.caches.getD c default).mode ≠ .bounded := by rw [hgd, hmode]; decide
  -- the final `cacheSet`, from any world that still has `kc1` at `c`
  have fin : ∀ (w2 : World) (h2 : Nat → Int), RIc T raw h2 w2 → w2.caches[c]? = some kc1 →
      (∃ k, w2.keys[e.obj]? = some k ∧ k.created = m'.created) →
      (∀ o, writeHolds h kc1 m' e o + ((objsOf { kc1 with ents := assocSet kc1.ents m' e }).count o : Int) =
        h2 o + ((objsOf kc1).count o : Int)) →
      ∃ a w', cacheSet c m' e w2 = (.ok a, w') ∧
        RIc T raw (writeHolds h kc1 m' e) w' ∧ ∃ kc', w'.caches[c]? = some kc' ∧ assocGet kc'.ents m' = some e := by
    intro w2 h2 hi2 hkc2 hk2 hh
    have hgd2 : w2.caches.getD c default = kc1 := getD_eq_of_getElem? hkc2
    rw [cacheSet_run_simple w2 c m' e (by rw [hgd2, hmode]), hgd2]
    have hok1 := hi2.ents c kc1 hkc2 hd
    refine ⟨(), _, rfl, hi2.updCache c kc1 { kc1 with ents := assocSet kc1.ents m' e } hkc2 hd rfl ?_ hh rfl rfl rfl,
      { kc1 with ents := assocSet kc1.ents m' e }, ?_, assocGet_assocSet_self _ _ _⟩
    · refine ⟨?_, assocSet_keys_nodup _ _ hok1.nodup, hok1.latest, fun hn => by rw [hmode] at hn; cases hn⟩
      intro m2 e2 hme
      rcases mem_assocSet hme with ⟨rfl, rfl⟩ | ⟨hme', _⟩
      · exact hk2
      · exact hok1.entKey m2 e2 hme'
    · show (setAt w2.caches c _)[c]? = _
      rw [setAt_getElem?]; simp [hkc2]
  unfold cacheWriteTail
  simp only [bind_run, getCache, hgd, hmode, cacheGet_run w c m' hnb]
  have hok := hi.ents c kc1 hkc hd
  cases hex : assocGet kc1.ents m' with
  | none =>
    simp only []
    apply fin w h hi hkc ⟨k, hk, hkcr⟩
    intro o
    have := count_assocSet_of_none e CEntry.obj hex o
    unfold objsOf
    simp only [writeHolds, hex, hadd]
    rw [this]
    split <;> split <;> omega
  | some old =>
    simp only []
    have hcount := fun o => count_assocSet_of_some e CEntry.obj hok.nodup hex o
    by_cases hsame : old.obj = e.obj
    · simp only [hsame, ne_eq, not_true_eq_false, ↓reduceIte, pure_run]
      apply fin w h hi hkc ⟨k, hk, hkcr⟩
      intro o
      have := hcount o
      unfold objsOf
      simp only [writeHolds, hex, hsame, ↓reduceIte]
      simp only [hsame] at this
      omega
    · simp only [ne_eq, hsame, not_false_eq_true, ↓reduceIte]
      have hcnt : 1 ≤ cntOf T h w old.obj := by
        unfold cntOf
        have : 0 < entCount T.dead w.caches old.obj :=
          entCount_pos_iff.2 ⟨c, kc1, hkc, hd, List.mem_map.2 ⟨(m', old), assocGet_mem hex, rfl⟩⟩
        have := hpos old.obj
        omega
      have hrel := keyRelease_specc T raw h old.obj w ⟨hi, hcnt⟩
      have hfr := keyRelease_frame old.obj w
      have hext := keyRelease_ext old.obj w
      cases hr : keyRelease old.obj w with
      | mk r w2 =>
        rw [hr] at hrel hfr hext
        simp only at hfr
        rw [hfr.1] at hrel
        simp only [bind_run, hr, hfr.1]
        obtain ⟨k2, hk2, hk2c, _⟩ := hext.keys _ _ hk
        apply fin w2 _ hrel (by rw [hfr.2]; exact hkc) ⟨k2, hk2, hk2c.trans hkcr⟩
        intro o
        have := hcount o
        unfold objsOf
        simp only [writeHolds, hex, hsame, ↓reduceIte, hadd]
        have hne : e.obj ≠ old.obj := fun e' => hsame e'.symm
        split at this <;> split at this <;> split <;> split <;> omega

theorem cacheWrite_spec (T : CTab) (raw : Raw) (h : Nat → Int) (c : Nat) (m : KeyMeta) (e : CEntry) (kc : KeyCache) (k : KeyObj)
    (hd : T.dead c = false) (hmode : kc.mode = .simple) (hpos : ∀ o, 0 ≤ h o)
    (hcr : m.created ≠ 0 → k.created = m.created) :
    Spec (fun w => RIc T raw h w ∧ w.caches[c]? = some kc ∧ w.keys[e.obj]? = some k)
      (cacheWrite c m e)
      (fun _ w' => RIc T raw (writeHolds h kc (writeKey m k.created) e) w' ∧
        ∃ kc', w'.caches[c]? = some kc' ∧ assocGet kc'.ents (writeKey m k.created) = some e)
      (fun _ => False) := by
  rintro w ⟨hi, hkc, hk⟩
  rw [cacheWrite_eq]
  have hgd : w.caches.getD c default = kc := getD_eq_of_getElem? hkc
  have hgk : w.keys.getD e.obj default = k := getD_eq_of_getElem? hk
  have hcr' : k.created = (writeKey m k.created).created := by
    unfold writeKey; split
    · rfl
    · rename_i h0; exact hcr h0
  simp only [cacheWrite', hgd, hgk]
  cases setLatestFlag kc m k
  · exact cacheWriteTail_spec T raw h c _ e kc hd hmode hpos w ⟨hi, hkc, k, hk, hcr'⟩
  · -- the latest alias is (re)mapped first
    let kc1 : KeyCache := { kc with latest := assocSet kc.latest m.kid (writeKey m k.created) }
    have hok := hi.ents c kc hkc hd
    have hi1 : RIc T raw h { w with caches := setAt w.caches c fun _ => kc1 } := by
      refine hi.updCache c kc kc1 hkc hd rfl ⟨hok.entKey, hok.nodup, ?_, hok.nev⟩ (fun o => rfl) rfl rfl rfl
      intro kid l hl
      rcases mem_assocSet hl with ⟨rfl, rfl⟩ | ⟨hl', _⟩
      · unfold writeKey; split <;> rfl
      · exact hok.latest kid l hl'
    exact cacheWriteTail_spec T raw h c _ e kc1 hd hmode hpos _
      ⟨hi1, by show (setAt w.caches c _)[c]? = _; rw [setAt_getElem?]; simp [hkc, kc1], k, hk, hcr'⟩


theorem readKey_eq_writeKey {keys : List KeyObj} {kc : KeyCache} {m : KeyMeta} {e : CEntry} {ke : KeyObj}
    (hok : CacheOK keys kc) (hl : assocGet kc.ents (readKey kc m) = some e) (hk : keys[e.obj]? = some ke) :
    readKey kc m = writeKey m ke.created := by
  obtain ⟨k', hk', hc'⟩ := hok.entKey _ _ (assocGet_mem hl)
  rw [hk] at hk'; cases hk'
  unfold readKey writeKey at *
  by_cases h0 : m.created = 0
  · simp only [h0, if_true] at hc' ⊢
    cases hg : getLatestMeta kc m.kid with
    | none =>
      rw [hg] at hc'
      simp only [Option.getD_none] at hc' ⊢
      cases m; simp_all
    | some l =>
      rw [hg] at hc'
      simp only [Option.getD_some] at hc' ⊢
      have := hok.latest _ _ (assocGet_mem hg)
      cases l; simp_all
  · simp [h0]

/-- what the caches need from a key loader: on success a fresh raw key object (created as asked
when a creation stamp was asked for), on failure nothing is left behind. -/
def LoaderOK (T : CTab) (loader : KeyMeta → M Nat) (m : KeyMeta) : Prop :=
  ∀ H, Spec (RI T .none H) (loader m)
    (fun o w => RI T (.obj o) H w ∧ (m.created ≠ 0 → ∃ k, w.keys[o]? = some k ∧ k.created = m.created))
    (RI T .none H)

theorem RIc.cache_in_range {T : CTab} {raw : Raw} {h : Nat → Int} {w : World} (hi : RIc T raw h w) {c : Nat}
    (hm : T.mode c = .simple) : ∃ kc, w.caches[c]? = some kc ∧ kc.mode = .simple := by
  have := hi.mode c
  rw [hm] at this
  cases hc : w.caches[c]? with
  | none =>
    simp only [List.getD_eq_getElem?_getD, hc, Option.getD_none] at this
    cases this
  | some kc =>
    simp only [List.getD_eq_getElem?_getD, hc, Option.getD_some] at this
    exact ⟨kc, rfl, this⟩

/-- wrap the freshly loaded raw key and put it into open cache `c`: the wrapper's first reference
becomes the cache's; an entry it replaces is released. -/
theorem wrapWrite_spec (T : CTab) (H : List Nat) (c : Nat) (m : KeyMeta) (k : Nat) (la : Int)
    (hd : T.dead c = false) (hmode : T.mode c = .simple) :
    Spec (fun w => RI T (.obj k) H w ∧ (m.created ≠ 0 → ∃ ko, w.keys[k]? = some ko ∧ ko.created = m.created))
      (keyWrap k >>= fun _ => cacheWrite c m { loadedAt := la, obj := k })
      (fun _ w => RI T .none H w ∧ 0 < entCount T.dead w.caches k) (fun _ => False) := by
  apply Spec.intro_ok
  rintro w ⟨hi, hcr⟩
  obtain ⟨kc, hkc, hkcm⟩ := RIc.cache_in_range hi hmode
  have hklt := hi.rawObj k rfl
  have hk : w.keys[k]? = some w.keys[k] := List.getElem?_eq_getElem hklt
  simp only [bind_run]
  have hw1 := (keyWrap_spec T H k).run_ok hi (rfl : keyWrap k w = (.ok (), _))
  simp only [show keyWrap k w = (.ok (), { w with keys := setAt w.keys k fun x => { x with refs := 1 } }) from rfl]
  obtain ⟨hi1, hent⟩ := hw1
  have hk1 : (setAt w.keys k fun x => { x with refs := 1 })[k]? = some { w.keys[k] with refs := 1 } := by
    rw [setAt_getElem?]; simp [hk]
  have hsp := cacheWrite_spec T .none (hcount (k :: H)) c m { loadedAt := la, obj := k } kc
    { w.keys[k] with refs := 1 } hd hkcm (hcount_nonneg _)
    (by intro h0; obtain ⟨k', hk', hc'⟩ := hcr h0; rw [hk] at hk'; cases hk'; exact hc')
    _ ⟨hi1, hkc, hk1⟩
  cases hr : cacheWrite c m { loadedAt := la, obj := k } { w with keys := setAt w.keys k fun x => { x with refs := 1 } } with
  | mk r w3 =>
    rw [hr] at hsp
    cases r with
    | error e => exact hsp.elim
    | ok u =>
      obtain ⟨hi3, kc', hkc', hget⟩ := hsp
      refine ⟨(), w3, rfl, ?_, ?_⟩
      · have hwh : writeHolds (hcount (k :: H)) kc (writeKey m (w.keys[k]).created) { loadedAt := la, obj := k } = hcount H := by
          have hno : ∀ old, assocGet kc.ents (writeKey m (w.keys[k]).created) = some old → old.obj ≠ k := by
            intro old hold heq
            have : 0 < entCount T.dead w.caches k :=
              entCount_pos_iff.2 ⟨c, kc, hkc, hd, List.mem_map.2 ⟨(_, old), assocGet_mem hold, heq⟩⟩
            simp only at hent
            omega
          unfold writeHolds
          rw [hcount_cons, hadd_hadd_cancel]
          cases hg : assocGet kc.ents (writeKey m (w.keys[k]).created) with
          | none => rfl
          | some old => simp only [hno old hg, if_false]
        simp only at hi3
        rw [hwh] at hi3
        exact hi3
      · exact entCount_pos_iff.2 ⟨c, kc', hkc', hd, List.mem_map.2 ⟨(_, _), assocGet_mem hget, rfl⟩⟩

theorem cacheLoad_spec (T : CTab) (H : List Nat) (c : Nat) (m : KeyMeta) (loader : KeyMeta → M Nat)
    (hd : T.dead c = false) (hmode : T.mode c = .simple) (hl : LoaderOK T loader m) :
    Spec (RI T .none H) (cacheLoad c m loader)
      (fun o w => RI T .none H w ∧ 0 < entCount T.dead w.caches o) (RI T .none H) := by
  unfold cacheLoad
  refine Spec.bind (hl H) (fun _ h => h) ?_
  intro k
  apply Spec.intro_ok
  rintro w ⟨hi, hcr⟩
  obtain ⟨kc, hkc, hkcm⟩ := RIc.cache_in_range hi hmode
  have hgd : w.caches.getD c default = kc := getD_eq_of_getElem? hkc
  have hnb : (w.caches.getD c default).mode ≠ .bounded := by rw [hgd, hkcm]; decide
  have hklt := hi.rawObj k rfl
  have hk : w.keys[k]? = some w.keys[k] := List.getElem?_eq_getElem hklt
  simp only [bind_run, keyObj, cacheRead_run w c m hnb, hgd]
  have hok := hi.ents c kc hkc hd
  -- caching the freshly loaded key
  have newBranch : ∃ a w', (do
        let w ← get
        keyWrap k
        cacheWrite c m { loadedAt := w.now, obj := k }
        pure k : M Nat) w = (.ok a, w') ∧ RI T .none H w' ∧ 0 < entCount T.dead w'.caches a := by
    have hsp := wrapWrite_spec T H c m k w.now hd hmode w ⟨hi, hcr⟩
    simp only [bind_run, get_run] at hsp ⊢
    cases hr : keyWrap k w with
    | mk r1 w1 =>
      rw [hr] at hsp
      cases r1 with
      | error e => exact hsp.elim
      | ok u =>
        simp only at hsp ⊢
        cases hr2 : cacheWrite c m { loadedAt := w.now, obj := k } w1 with
        | mk r2 w2 =>
          rw [hr2] at hsp
          cases r2 with
          | error e => exact hsp.elim
          | ok u2 => exact ⟨k, w2, rfl, hsp⟩
  cases hl : lookup kc (readKey kc m) with
  | none => exact newBranch
  | some e =>
    simp only [bind_run, keyObj]
    split
    · -- the entry already holds this key: refresh it, close the redundant copy
      have hla : assocGet kc.ents (readKey kc m) = some e := by
        unfold lookup at hl; rw [hkcm] at hl; exact hl
      obtain ⟨ke, hke, _⟩ := hok.entKey _ _ (assocGet_mem hla)
      have hne : e.obj ≠ k := by
        intro heq
        have h1 : 0 < entCount T.dead w.caches e.obj :=
          entCount_pos_iff.2 ⟨c, kc, hkc, hd, List.mem_map.2 ⟨(_, e), assocGet_mem hla, rfl⟩⟩
        have h2 := ((hi.acc k _ hk).1 rfl).2.2
        unfold cntOf at h2
        have := hcount_nonneg H k
        rw [heq] at h1
        omega
      simp only [bind_run, modify_run, get_run]
      -- 1. revoked flag of the cached key
      have hi1 : RI T (.obj k) H { w with keys := setAt w.keys e.obj fun x => { x with revoked := (w.keys.getD k default).revoked } } := by
        have hacc := hi.acc e.obj ke hke
        exact RIc.updKey hi e.obj (fun x => { x with revoked := (w.keys.getD k default).revoked }) ke hke (fun x => ⟨rfl, rfl, rfl⟩) ⟨rfl, fun _ h => h, hi.rawObj⟩
          (fun o' _ => ⟨rfl, Iff.rfl⟩) (fun _ => trivial) hacc rfl rfl rfl
      -- 2. close the freshly loaded copy
      have hcl := keyCloseRaw_spec T (hcount H) k _ hi1
      have hfr := keyCloseRaw_frame k { w with keys := setAt w.keys e.obj fun x => { x with revoked := (w.keys.getD k default).revoked } }
      have hext := (keyCloseRaw_ext k { w with keys := setAt w.keys e.obj fun x => { x with revoked := (w.keys.getD k default).revoked } })
      cases hr : keyCloseRaw k { w with keys := setAt w.keys e.obj fun x => { x with revoked := (w.keys.getD k default).revoked } } with
      | mk r w2 =>
        rw [hr] at hcl hfr hext
        simp only at hfr
        rw [hfr.1] at hcl
        simp only [hfr.1]
        have hke1 : (setAt w.keys e.obj fun x => { x with revoked := (w.keys.getD k default).revoked })[e.obj]? =
            some { ke with revoked := (w.keys.getD k default).revoked } := by
          rw [setAt_getElem?]; simp [hke]
        obtain ⟨ke2, hke2, hke2c, _⟩ := hext.keys _ _ hke1
        have hkc2 : w2.caches[c]? = some kc := by rw [hfr.2]; exact hkc
        -- 3. write the refreshed entry back under the same key
        have hsp := cacheWrite_spec T .none (hcount H) c m { loadedAt := w.now, obj := e.obj } kc ke2 hd hkcm (hcount_nonneg _)
          (by
            intro h0
            have := readKey_eq_writeKey hok hla hke
            have hc' := (hok.entKey _ _ (assocGet_mem hla))
            obtain ⟨k', hk', hc'⟩ := hc'
            rw [hke] at hk'; cases hk'
            unfold readKey at hc'; simp only [h0, if_false] at hc'
            rw [hke2c]; exact hc')
          w2 ⟨hcl, hkc2, hke2⟩
        cases hr2 : cacheWrite c m { loadedAt := w.now, obj := e.obj } w2 with
        | mk r2 w3 =>
          rw [hr2] at hsp
          cases r2 with
          | error e => exact hsp.elim
          | ok u =>
            obtain ⟨hi3, kc', hkc', hget⟩ := hsp
            refine ⟨e.obj, w3, rfl, ?_, ?_⟩
            · have hrw : writeKey m ke2.created = readKey kc m := by
                rw [hke2c]; exact (readKey_eq_writeKey hok hla hke).symm
              have hwh : writeHolds (hcount H) kc (writeKey m ke2.created) { loadedAt := w.now, obj := e.obj } = hcount H := by
                unfold writeHolds
                rw [hrw, hla]
                simp
              rw [hwh] at hi3
              exact hi3
            · exact entCount_pos_iff.2 ⟨c, kc', hkc', hd, List.mem_map.2 ⟨(_, _), assocGet_mem hget, rfl⟩⟩
    · exact newBranch

theorem Spec.pure_pre {α : Type} {P : World → Prop} {φ : Prop} {x : M α} {Q : α → World → Prop} {E : World → Prop}
    (h : φ → Spec P x Q E) : Spec (fun w => P w ∧ φ) x Q E := fun w hw => h hw.2 w hw.1

theorem getCache_mode_spec (T : CTab) (raw : Raw) (H : List Nat) (c : Nat) :
    Spec (RI T raw H) (getCache c) (fun kc w => RI T raw H w ∧ kc.mode = T.mode c) (fun _ => False) := by
  intro w hi
  exact ⟨hi, hi.mode c⟩

/-- a hit of `getFresh` in an open cache is an object the cache holds a reference on. -/
theorem getFresh_spec (T : CTab) (raw : Raw) (H : List Nat) (c : Nat) (m : KeyMeta) (i : Int) (hd : T.dead c = false) :
    Spec (RI T raw H) (getFresh c m i)
      (fun r w => RI T raw H w ∧ ∀ o, r.1 = some o → 0 < entCount T.dead w.caches o) (fun _ => False) := by
  apply Spec.intro_ok
  intro w hi
  have hnb : (w.caches.getD c default).mode ≠ .bounded := by rw [hi.mode c]; exact hi.nb c
  obtain ⟨r, hr, hob⟩ := getFresh_run w c m i hnb
  refine ⟨r, w, hr, hi, ?_⟩
  intro o ho
  obtain ⟨e, hl, he⟩ := hob o r.2 (by cases r; simp_all)
  unfold lookup at hl
  cases hc : w.caches[c]? with
  | none =>
    simp only [List.getD_eq_getElem?_getD, hc, Option.getD_none] at hl
    cases hl
  | some kc =>
    simp only [List.getD_eq_getElem?_getD, hc, Option.getD_some] at hl
    have hla : assocGet kc.ents (readKey kc m) = some e := by
      cases hm : kc.mode <;> simp only [hm] at hl
      · cases hl
      · exact hl
      · exact hl
    exact entCount_pos_iff.2 ⟨c, kc, hc, hd, List.mem_map.2 ⟨(_, e), assocGet_mem hla, he⟩⟩

theorem LoaderOK.plain {T : CTab} {loader : KeyMeta → M Nat} {m : KeyMeta} (hl : LoaderOK T loader m) (H : List Nat) :
    Spec (RI T .none H) (loader m) (fun o => RI T (.obj o) H) (RI T .none H) :=
  (hl H).weaken (fun _ h => h) (fun _ _ h => h.1) (fun _ h => h)

theorem keyWrap_plain (T : CTab) (H : List Nat) (o : Nat) :
    Spec (RI T (.obj o) H) (keyWrap o) (fun _ => RI T .none (o :: H)) (fun _ => False) :=
  (keyWrap_spec T H o).weaken (fun _ h => h) (fun _ _ h => h.1) (fun _ h => h)

theorem Spec.with_pre {α : Type} {P : World → Prop} {x : M α} {Q : α → World → Prop} {E : World → Prop}
    (h : (∃ w, P w) → Spec P x Q E) : Spec P x Q E := fun w hw => h ⟨w, hw⟩ w hw

theorem tracked_spec (T : CTab) (H : List Nat) (k : Nat) :
    Spec (fun w => RI T .none H w ∧ 0 < entCount T.dead w.caches k)
      (keyIncr k >>= fun _ => (pure k : M Nat)) (fun o => RI T .none (o :: H)) (RI T .none H) :=
  Spec.bind (keyIncr_spec T .none H k) (fun _ h => h.elim) fun _ => Spec.pure _ fun _ h => h

/-- `keyCacher.GetOrLoad`: on success the caller holds one reference on the returned key; on
failure nothing is held. -/
theorem getOrLoad_spec (T : CTab) (H : List Nat) (c : Nat) (m : KeyMeta) (i : Int) (loader : KeyMeta → M Nat)
    (hd : T.dead c = false) (hl : LoaderOK T loader m) :
    Spec (RI T .none H) (getOrLoad c m i loader) (fun o => RI T .none (o :: H)) (RI T .none H) := by
  refine Spec.with_pre fun ⟨w0, hw0⟩ => ?_
  have hnbT := hw0.nb c
  unfold getOrLoad
  refine Spec.bind (getCache_mode_spec T .none H c) (fun _ h => h.elim) ?_
  intro kc
  apply Spec.pure_pre
  intro hmode
  split
  · -- neverCache: load, wrap, hand the only reference to the caller
    refine Spec.bind (hl.plain H) (fun _ h => h) fun k => ?_
    exact Spec.bind (keyWrap_plain T H k) (fun _ h => h.elim) fun _ => Spec.pure _ fun _ h => h
  · rename_i hnever
    have hsimple : T.mode c = .simple := by
      rw [hmode] at hnever
      cases hm : T.mode c with
      | never => exact absurd hm hnever
      | simple => rfl
      | bounded => exact absurd hm hnbT
    have slow : Spec (RI T .none H) (cacheLoad c m loader >>= fun k => keyIncr k >>= fun _ => (pure k : M Nat))
        (fun o => RI T .none (o :: H)) (RI T .none H) :=
      Spec.bind (cacheLoad_spec T H c m loader hd hsimple hl) (fun _ h => h) (tracked_spec T H)
    refine Spec.bind (getFresh_spec T .none H c m i hd) (fun _ h => h.elim) fun r => ?_
    split
    · exact (tracked_spec T H _).weaken (fun w hw => ⟨hw.1, hw.2 _ rfl⟩) (fun _ _ h => h) (fun _ h => h)
    · refine Spec.bind ((getFresh_spec T .none H c m i hd).weaken (fun _ h => h.1) (fun _ _ h => h) (fun _ h => h)) (fun _ h => h.elim) fun r => ?_
      split
      · exact (tracked_spec T H _).weaken (fun w hw => ⟨hw.1, hw.2 _ rfl⟩) (fun _ _ h => h) (fun _ h => h)
      · exact slow.weaken (fun _ h => h.1) (fun _ _ h => h) (fun _ h => h)

/-- the part of `GetOrLoadLatest` after the cache lookup / load: validity check and reload. -/
theorem getOrLoadLatest_rest (T : CTab) (H : List Nat) (c : Nat) (kid : KeyId) (ea : Int) (loader : KeyMeta → M Nat)
    (hd : T.dead c = false) (hsimple : T.mode c = .simple) (hl : LoaderOK T loader ⟨kid, 0⟩) (key : Nat) :
    Spec (fun w => RI T .none H w ∧ 0 < entCount T.dead w.caches key)
      (do
        let ko ← keyObj key
        let w ← get
        if isKeyInvalid ko w.now ea = true then do
            let reloaded ← loader { kid := kid, created := 0 }
            let ro ← keyObj reloaded
            let w ← get
            keyWrap reloaded
            cacheWrite c { kid := kid, created := ro.created } { loadedAt := w.now, obj := reloaded }
            keyIncr reloaded
            pure reloaded
          else do
            keyIncr key
            pure key : M Nat)
      (fun o => RI T .none (o :: H)) (RI T .none H) := by
  refine Spec.bind (R := fun _ w => RI T .none H w ∧ 0 < entCount T.dead w.caches key) (E₁ := fun _ => False)
    (fun w hw => hw) (fun _ h => h.elim) fun ko => ?_
  refine Spec.bind (R := fun _ w => RI T .none H w ∧ 0 < entCount T.dead w.caches key) (E₁ := fun _ => False)
    (fun w hw => hw) (fun _ h => h.elim) fun wnow => ?_
  split
  · -- reload
    refine Spec.bind ((hl H).weaken (fun _ h => h.1) (fun _ _ h => h.1) (fun _ h => h)) (fun _ h => h) fun reloaded => ?_
    refine Spec.bind (R := fun ro w => RI T (.obj reloaded) H w ∧ ro = w.keys.getD reloaded default) (E₁ := fun _ => False)
      (fun w hw => ⟨hw, rfl⟩) (fun _ h => h.elim) fun ro => ?_
    refine Spec.bind (R := fun _ w => RI T (.obj reloaded) H w ∧ ro = w.keys.getD reloaded default) (E₁ := fun _ => False)
      (fun w hw => hw) (fun _ h => h.elim) fun w2 => ?_
    have hww := wrapWrite_spec T H c ⟨kid, ro.created⟩ reloaded w2.now hd hsimple
    have : Spec (fun w => RI T (.obj reloaded) H w ∧ ro = w.keys.getD reloaded default)
        (keyWrap reloaded >>= fun _ => cacheWrite c ⟨kid, ro.created⟩ { loadedAt := w2.now, obj := reloaded })
        (fun _ w => RI T .none H w ∧ 0 < entCount T.dead w.caches reloaded) (fun _ => False) := by
      refine hww.weaken ?_ (fun _ _ h => h) (fun _ h => h)
      rintro w ⟨hi, hro⟩
      refine ⟨hi, fun _ => ?_⟩
      have hlt := hi.rawObj reloaded rfl
      refine ⟨_, List.getElem?_eq_getElem hlt, ?_⟩
      rw [hro, getD_eq_of_getElem? (List.getElem?_eq_getElem hlt)]
    intro w hw
    have h1 := this w hw
    simp only [bind_run] at h1 ⊢
    cases hr : keyWrap reloaded w with
    | mk r1 w1 =>
      rw [hr] at h1
      cases r1 with
      | error e => exact h1.elim
      | ok u =>
        simp only at h1 ⊢
        cases hr2 : cacheWrite c ⟨kid, ro.created⟩ { loadedAt := w2.now, obj := reloaded } w1 with
        | mk r2 w3 =>
          rw [hr2] at h1
          cases r2 with
          | error e => exact h1.elim
          | ok u2 =>
            simp only at h1 ⊢
            have := tracked_spec T H reloaded w3 h1
            simp only [bind_run] at this
            exact this
  · exact tracked_spec T H key

/-- `keyCacher.GetOrLoadLatest`, including the reload of an invalid (revoked / expired) latest key. -/
theorem getOrLoadLatest_spec (T : CTab) (H : List Nat) (c : Nat) (kid : KeyId) (i ea : Int) (loader : KeyMeta → M Nat)
    (hd : T.dead c = false) (hl : LoaderOK T loader ⟨kid, 0⟩) :
    Spec (RI T .none H) (getOrLoadLatest c kid i ea loader) (fun o => RI T .none (o :: H)) (RI T .none H) := by
  refine Spec.with_pre fun ⟨w0, hw0⟩ => ?_
  have hnbT := hw0.nb c
  unfold getOrLoadLatest
  refine Spec.bind (getCache_mode_spec T .none H c) (fun _ h => h.elim) ?_
  intro kc
  apply Spec.pure_pre
  intro hmode
  split
  · refine Spec.bind (hl.plain H) (fun _ h => h) fun k => ?_
    exact Spec.bind (keyWrap_plain T H k) (fun _ h => h.elim) fun _ => Spec.pure _ fun _ h => h
  · rename_i hnever
    have hsimple : T.mode c = .simple := by
      rw [hmode] at hnever
      cases hm : T.mode c with
      | never => exact absurd hm hnever
      | simple => rfl
      | bounded => exact absurd hm hnbT
    refine Spec.bind (getFresh_spec T .none H c _ i hd) (fun _ h => h.elim) fun r => ?_
    split
    · dsimp only
      exact Spec.bind (R := fun key w => RI T .none H w ∧ 0 < entCount T.dead w.caches key) (E₁ := RI T .none H)
        (Spec.pure _ fun w hw => ⟨hw.1, hw.2 _ rfl⟩) (fun _ h => h) (getOrLoadLatest_rest T H c kid ea loader hd hsimple hl)
    · dsimp only
      exact Spec.bind (R := fun key w => RI T .none H w ∧ 0 < entCount T.dead w.caches key) (E₁ := RI T .none H)
        ((cacheLoad_spec T H c _ loader hd hsimple hl).weaken (fun _ h => h.1) (fun _ _ h => h) (fun _ h => h)) (fun _ h => h)
        (getOrLoadLatest_rest T H c kid ea loader hd hsimple hl)

/-! ### closing a cache -/

theorem releaseAll_spec (T : CTab) (raw : Raw) (H : List Nat) (l : List Nat) :
    Spec (RI T raw (l ++ H)) (releaseAll l) (fun _ => RI T raw H) (fun _ => False) := by
  induction l with
  | nil => exact Spec.pure _ fun _ h => h
  | cons v rest ih =>
    unfold releaseAll
    exact Spec.bind (keyRelease_spec T raw (rest ++ H) v) (fun _ h => h) fun _ => ih

/-- the cache table after `Close` of cache `c`. -/
def CTab.kill (T : CTab) (c : Nat) : CTab := { T with dead := fun j => j == c || T.dead j }

theorem hcount_append (l H : List Nat) (o : Nat) : hcount (l ++ H) o = hcount H o + ((l.count o : Nat) : Int) := by
  unfold hcount; rw [List.count_append]; omega

/-- `keyCache.Close` / `neverCache.Close` of an open cache: every entry's reference is released
(closing the keys nobody else holds), and the cache is dead from then on. -/
theorem cacheClose_spec (T : CTab) (H : List Nat) (c : Nat) (hd : T.dead c = false) :
    Spec (RI T .none H) (cacheClose c) (fun _ => RI (T.kill c) .none H) (fun _ => False) := by
  unfold cacheClose
  intro w hi
  have hnb := hi.nb c
  have hmode := hi.mode c
  simp only [bind_run, getCache]
  cases hc : w.caches[c]? with
  | none =>
    have hgd : w.caches.getD c default = default := by simp [List.getD_eq_getElem?_getD, hc]
    rw [hgd]
    show RI (T.kill c) .none H w
    refine RIc.congr_T hi ?_ (fun _ => rfl) rfl
    intro c' hc'
    have : c' ≠ c := by
      intro e; subst e
      rw [List.getElem?_eq_none_iff] at hc; omega
    simp [CTab.kill, this]
  | some kc =>
    have hgd : w.caches.getD c default = kc := getD_eq_of_getElem? hc
    rw [hgd] at hmode ⊢
    have hk := RIc.kill hi c kc hc hd
    have hk' : RI (T.kill c) .none (objsOf kc ++ H) w := by
      refine RIc.congr_h hk ?_
      intro o; rw [hcount_append]
    cases hm : kc.mode with
    | never =>
      simp only []
      have hnev := (hi.ents c kc hc hd).nev hm
      show RI (T.kill c) .none H w
      have : objsOf kc = [] := by unfold objsOf; rw [hnev]; rfl
      rw [this] at hk'; exact hk'
    | simple =>
      simp only []
      exact releaseAll_spec (T.kill c) .none H (objsOf kc) w hk'
    | bounded => rw [hm] at hmode; exact absurd hmode.symm hnb

end AsherahVerif.Env
