import AsherahVerif.Proofs.EnvResKey
/-
C09 — the key-cache layer (`key_cache.go`) for the `never` and `simple` caches: run equations for
the read path, and the effect of `write` / `load` / `GetOrLoad` / `GetOrLoadLatest` / `Close` on
the resource invariant.
-/
set_option linter.unusedVariables false
namespace AsherahVerif.Env.Res

/-- `c.keys.Get` of a never / simple cache as a pure function. -/
def lookup (kc : KeyCache) (m : KeyMeta) : Option CEntry :=
  match kc.mode with
  | .never => none
  | _ => assocGet kc.ents m

def readKey (kc : KeyCache) (m : KeyMeta) : KeyMeta :=
  if m.created = 0 then (getLatestMeta kc m.kid).getD m else m

theorem cacheGet_run (w : World) (c : Nat) (m : KeyMeta) (h : (w.caches.getD c default).mode ≠ .bounded) :
    cacheGet c m w = (.ok (lookup (w.caches.getD c default) m), w) := by
  simp only [cacheGet, bind_run, getCache, lookup]
  cases hm : (w.caches.getD c default).mode with
  | never => rfl
  | simple => rfl
  | bounded => exact absurd hm h

theorem cacheRead_run (w : World) (c : Nat) (m : KeyMeta) (h : (w.caches.getD c default).mode ≠ .bounded) :
    cacheRead c m w = (.ok (lookup (w.caches.getD c default) (readKey (w.caches.getD c default) m)), w) := by
  simp only [cacheRead, bind_run, getCache, readKey]
  exact cacheGet_run w c _ h

theorem getFresh_run (w : World) (c : Nat) (m : KeyMeta) (i : Int) (h : (w.caches.getD c default).mode ≠ .bounded) :
    ∃ r, getFresh c m i w = (.ok r, w) ∧
      ∀ o b, r = (some o, b) → ∃ e, lookup (w.caches.getD c default) (readKey (w.caches.getD c default) m) = some e ∧ e.obj = o := by
  simp only [getFresh, bind_run, cacheRead_run w c m h]
  cases hl : lookup (w.caches.getD c default) (readKey (w.caches.getD c default) m) with
  | none => exact ⟨_, rfl, fun o b hb => by cases hb⟩
  | some e =>
    simp only [bind_run, keyObj, get_run]
    split
    · exact ⟨_, rfl, fun o b hb => by cases hb; exact ⟨e, rfl, rfl⟩⟩
    · exact ⟨_, rfl, fun o b hb => by cases hb; exact ⟨e, rfl, rfl⟩⟩

theorem cacheSet_run_simple (w : World) (c : Nat) (m : KeyMeta) (e : CEntry) (h : (w.caches.getD c default).mode = .simple) :
    cacheSet c m e w = (.ok (), { w with caches := setAt w.caches c fun _ =>
      { (w.caches.getD c default) with ents := assocSet (w.caches.getD c default).ents m e } }) := by
  simp only [cacheSet, bind_run, getCache, h]
  rfl

theorem cacheSet_run_never (w : World) (c : Nat) (m : KeyMeta) (e : CEntry) (h : (w.caches.getD c default).mode = .never) :
    cacheSet c m e w = (.ok (), w) := by
  simp only [cacheSet, bind_run, getCache, h]
  rfl
def writeKey (m : KeyMeta) (kcreated : Int) : KeyMeta := if m.created = 0 then ⟨m.kid, kcreated⟩ else m

def cacheWriteTail (c : Nat) (m' : KeyMeta) (e : CEntry) : M Unit := do
  let kc ← getCache c
  let existing := match kc.mode with
    | .never => none
    | _ => assocGet kc.ents m'
  let _ ← cacheGet c m'
  match existing with
  | some old => if old.obj ≠ e.obj then keyRelease old.obj
  | none => pure ()
  cacheSet c m' e

def setLatestFlag (kc : KeyCache) (m : KeyMeta) (k : KeyObj) : Bool :=
  if m.created = 0 then true
  else match getLatestMeta kc m.kid with
    | none => true
    | some l => l.created < k.created

def cacheWrite' (c : Nat) (m : KeyMeta) (e : CEntry) : M Unit := fun w =>
  let k := w.keys.getD e.obj default
  let kc := w.caches.getD c default
  let m' := writeKey m k.created
  let w1 := if setLatestFlag kc m k then { w with caches := setAt w.caches c fun _ => { kc with latest := assocSet kc.latest m.kid m' } } else w
  cacheWriteTail c m' e w1

theorem cacheWrite_eq (c : Nat) (m : KeyMeta) (e : CEntry) (w : World) : cacheWrite c m e w = cacheWrite' c m e w := by
  simp only [cacheWrite, cacheWrite', setLatestFlag, bind_run, keyObj, getCache, writeKey]
  by_cases h0 : m.created = 0
  · simp only [h0, ↓reduceIte, setCache, modify_run, cacheWriteTail, bind_run, getCache]
    rfl
  · simp only [h0, ↓reduceIte]
    cases hl : getLatestMeta (w.caches.getD c default) m.kid with
    | none =>
      simp only [↓reduceIte, setCache, modify_run, cacheWriteTail, bind_run, getCache]
      rfl
    | some l =>
      simp only []
      by_cases h1 : l.created < (w.keys.getD e.obj default).created
      · simp only [h1, decide_true, ↓reduceIte, setCache, modify_run, cacheWriteTail, bind_run, getCache]
        rfl
      · simp only [h1, decide_false, ↓reduceIte, cacheWriteTail, bind_run, getCache]
        rfl

theorem keyCloseRaw_frame (o : Nat) (w : World) :
    (keyCloseRaw o w).1 = .ok () ∧ (keyCloseRaw o w).2.caches = w.caches := by
  simp only [keyCloseRaw, bind_run, keyObj]
  split <;> simp [secretClose, modify_run, bind_run]

theorem keyRelease_frame (o : Nat) (w : World) :
    (keyRelease o w).1 = .ok () ∧ (keyRelease o w).2.caches = w.caches := by
  simp only [keyRelease, bind_run, modify_run, keyObj]
  split
  · simp
  · exact keyCloseRaw_frame o _


/-! ### bounded caches: the slot table, `Get`, `Set` and `Close` through the E2 cache model -/

theorem slotOf_some_iff {kc : KeyCache} (hn : kc.slots.Nodup) (m : KeyMeta) (s : Nat) :
    slotOf kc m = some s ↔ kc.slots[s]? = some m := by
  unfold slotOf
  simp only
  constructor
  · intro h
    split at h
    · rename_i hlt
      cases h
      rw [List.getElem?_eq_getElem hlt]
      have := List.findIdx_getElem (w := hlt)
      simp at this
      simp [this]
    · cases h
  · intro h
    have hlt := getElem?_lt h
    have hm : m ∈ kc.slots := List.mem_of_getElem? h
    have hi : kc.slots.findIdx (· = m) < kc.slots.length := by
      apply List.findIdx_lt_length_of_exists
      exact ⟨m, hm, by simp⟩
    have hg := List.findIdx_getElem (w := hi)
    simp at hg
    have e : kc.slots.findIdx (· = m) = s := by
      have h1 : kc.slots[kc.slots.findIdx (· = m)] = kc.slots[s] := by
        rw [hg]; rw [List.getElem?_eq_getElem hlt] at h; simp at h; exact h.symm
      exact (List.getElem_inj hn).1 h1
    rw [if_pos hi, e]

theorem slotOf_none_iff {kc : KeyCache} (m : KeyMeta) : slotOf kc m = none ↔ m ∉ kc.slots := by
  unfold slotOf
  simp only
  constructor
  · intro h hm
    have hi : kc.slots.findIdx (· = m) < kc.slots.length := by
      apply List.findIdx_lt_length_of_exists
      exact ⟨m, hm, by simp⟩
    simp [hi] at h
  · intro h
    have : ¬ kc.slots.findIdx (· = m) < kc.slots.length := by
      intro hi
      have hg := List.findIdx_getElem (w := hi)
      simp at hg
      exact h (hg ▸ List.getElem_mem hi)
    simp [this]


/-- a cache update that only touches the eviction policy's bookkeeping (a `Get` hit). -/
theorem RIc.updPol {T : CTab} {raw : Raw} {h : Nat → Int} {w : World} (hi : RIc T raw h w)
    (c : Nat) (kc : KeyCache) (p : Cache.Cache) (hkc : w.caches[c]? = some kc) (hd : T.dead c = false)
    (hb : kc.mode = .bounded → BOK { kc with pol := p }) :
    RIc T raw h { w with caches := setAt w.caches c fun _ => { kc with pol := p } } := by
  have hok := hi.ents c kc hkc hd
  exact hi.updCache c kc { kc with pol := p } hkc hd rfl
    ⟨hok.entKey, hok.nodup, hok.latest, hok.nev, hb⟩ (fun o => rfl) rfl rfl rfl

/-- `c.keys.Get(id)` for every cache mode: the invariant is kept, the entries of the cache are
untouched, and a hit returns the entry stored under that key. -/
theorem cacheGet_eff {T : CTab} {raw : Raw} {h : Nat → Int} {w : World} {c : Nat} {kc : KeyCache} (m : KeyMeta)
    (hi : RIc T raw h w) (hkc : w.caches[c]? = some kc) (hd : T.dead c = false) :
    ∃ r w' kc', cacheGet c m w = (.ok r, w') ∧ RIc T raw h w' ∧ w'.keys = w.keys ∧
      w'.caches[c]? = some kc' ∧ kc'.ents = kc.ents ∧ kc'.mode = kc.mode ∧ kc'.latest = kc.latest ∧
      (∀ e, r = some e → kc.mode ≠ .never ∧ assocGet kc.ents m = some e) := by
  have hgd : w.caches.getD c default = kc := getD_eq_of_getElem? hkc
  simp only [cacheGet, bind_run, getCache, hgd]
  cases hm : kc.mode with
  | never => exact ⟨none, w, kc, rfl, hi, rfl, hkc, rfl, hm, rfl, fun e he => by cases he⟩
  | simple => exact ⟨_, w, kc, rfl, hi, rfl, hkc, rfl, hm, rfl, fun e he => ⟨by simp, he⟩⟩
  | bounded =>
    simp only []
    cases hs : slotOf kc m with
    | none => exact ⟨none, w, kc, rfl, hi, rfl, hkc, rfl, hm, rfl, fun e he => by cases he⟩
    | some s =>
      simp only [setCache, modify_run, bind_run]
      have hbok := (hi.ents c kc hkc hd).bnd hm
      have heff := Cache.Res.step_get_eff hbok.inv hbok.live hbok.noexp s (fun _ => false)
      have hinv := (Cache.step_inv hbok.inv (.get s) (fun _ => false)).1
      have hi' := hi.updPol c kc (Cache.step kc.pol (.get s) fun _ => false).cache hkc hd (fun _ =>
        ⟨hinv, heff.2.2.1, heff.2.2.2, hbok.slots, by show ∀ s, s ∈ Cache.keysOf _ → _; rw [heff.2.1]; exact hbok.valid,
          by show ∀ m : KeyMeta, _ ↔ ∃ s, _ ∧ s ∈ Cache.keysOf _; rw [heff.2.1]; exact hbok.keys⟩)
      have hkc' : (setAt w.caches c fun _ => { kc with pol := (Cache.step kc.pol (.get s) fun _ => false).cache })[c]? =
          some { kc with pol := (Cache.step kc.pol (.get s) fun _ => false).cache } := by
        rw [setAt_getElem?]; simp [hkc]
      simp only [hm] at hi' hkc'
      cases hres : (Cache.step kc.pol (.get s) fun _ => false).res with
      | val v => exact ⟨_, _, _, rfl, hi', rfl, hkc', rfl, rfl, rfl, fun e he => ⟨by simp, he⟩⟩
      | _ => exact ⟨none, _, _, rfl, hi', rfl, hkc', rfl, rfl, rfl, fun e he => by cases he⟩


section assocDel
variable {κ α : Type} [DecidableEq κ]

theorem mem_assocDel {l : List (κ × α)} {k k' : κ} {v : α} : (k', v) ∈ assocDel l k ↔ (k', v) ∈ l ∧ k' ≠ k := by
  unfold assocDel; simp [List.mem_filter]

theorem assocDel_keys_sublist (l : List (κ × α)) (k : κ) : ((assocDel l k).map (·.1)).Sublist (l.map (·.1)) := by
  unfold assocDel; exact (List.filter_sublist).map _

theorem mem_keys_assocDel {l : List (κ × α)} {k k' : κ} : k' ∈ (assocDel l k).map (·.1) ↔ k' ∈ l.map (·.1) ∧ k' ≠ k := by
  simp only [List.mem_map]
  constructor
  · rintro ⟨⟨a, b⟩, h, rfl⟩
    have := mem_assocDel.1 h
    exact ⟨⟨(a, b), this.1, rfl⟩, this.2⟩
  · rintro ⟨⟨⟨a, b⟩, h, rfl⟩, hne⟩
    exact ⟨(a, b), mem_assocDel.2 ⟨h, hne⟩, rfl⟩

theorem assocDel_of_none {l : List (κ × α)} {k : κ} (h : assocGet l k = none) : assocDel l k = l := by
  unfold assocDel
  apply List.filter_eq_self.2
  intro p hp
  have := assocGet_none_iff.1 h
  simp only [ne_eq, decide_eq_true_eq]
  intro e; exact this (e ▸ List.mem_map.2 ⟨p, hp, rfl⟩)

theorem count_assocDel_of_some {l : List (κ × α)} {k : κ} {old : α} (g : α → Nat)
    (hn : (l.map (·.1)).Nodup) (h : assocGet l k = some old) (x : Nat) :
    ((assocDel l k).map (fun p => g p.2)).count x + (if g old = x then 1 else 0) = (l.map (fun p => g p.2)).count x := by
  induction l with
  | nil => simp [assocGet_nil] at h
  | cons p t ih =>
    rw [assocGet_cons] at h
    simp only [List.map_cons, List.nodup_cons] at hn
    by_cases hp : p.1 = k
    · simp only [hp, if_true] at h
      cases h
      have hk : k ∉ t.map (·.1) := hp ▸ hn.1
      have htail : assocDel t k = t := assocDel_of_none (assocGet_none_iff.2 hk)
      have : assocDel (p :: t) k = t := by
        rw [← htail]
        unfold assocDel
        simp [List.filter_cons, hp]
      rw [this]
      simp only [List.map_cons, List.count_cons, beq_iff_eq]
    · simp only [hp, if_false] at h
      have := ih hn.2 h
      have e : assocDel (p :: t) k = p :: assocDel t k := by
        unfold assocDel; simp [List.filter_cons, hp]
      rw [e]
      simp only [List.map_cons, List.count_cons, beq_iff_eq]
      omega

theorem assocGet_assocDel_ne {l : List (κ × α)} {k k' : κ} (hne : k' ≠ k) : assocGet (assocDel l k) k' = assocGet l k' := by
  induction l with
  | nil => rfl
  | cons p t ih =>
    by_cases hp : p.1 = k
    · have e : assocDel (p :: t) k = assocDel t k := by unfold assocDel; simp [List.filter_cons, hp]
      rw [e, ih, assocGet_cons]
      have : p.1 ≠ k' := fun e' => hne (e'.symm.trans hp)
      simp [this]
    · have e : assocDel (p :: t) k = p :: assocDel t k := by unfold assocDel; simp [List.filter_cons, hp]
      rw [e, assocGet_cons, assocGet_cons, ih]
end assocDel


theorem mem_keys_assocSet {κ α : Type} [DecidableEq κ] {l : List (κ × α)} {k k' : κ} {v : α} :
    k' ∈ (assocSet l k v).map (·.1) ↔ k' = k ∨ k' ∈ l.map (·.1) := by
  simp only [List.mem_map]
  constructor
  · rintro ⟨⟨a, b⟩, h, rfl⟩
    rcases mem_assocSet h with ⟨h1, _⟩ | ⟨h1, _⟩
    · exact Or.inl h1
    · exact Or.inr ⟨(a, b), h1, rfl⟩
  · rintro (rfl | ⟨⟨a, b⟩, h, rfl⟩)
    · exact ⟨(k', v), mem_assocSet_self l k' v, rfl⟩
    · by_cases e : a = k
      · subst e; exact ⟨(a, v), mem_assocSet_self l a v, rfl⟩
      · cases hg : assocGet l k with
        | none => rw [assocSet_of_none v hg]; exact ⟨(a, b), List.mem_append_left _ h, rfl⟩
        | some old =>
          rw [assocSet_of_some v hg]
          exact ⟨(a, b), List.mem_map.2 ⟨(a, b), h, by simp [e]⟩, rfl⟩

/-- the bounded `Set`, with the slot table `slotsA` (the old one, or the old one with the new key
appended) and the slot `s` of the key made explicit. -/
theorem cacheSet_core {T : CTab} {raw : Raw} {h2 : Nat → Int} {w2 : World} {c : Nat} {m' : KeyMeta} {e : CEntry} {kc1 : KeyCache}
    (hi2 : RIc T raw h2 w2) (hkc2 : w2.caches[c]? = some kc1) (hd : T.dead c = false) (hm : kc1.mode = .bounded)
    (hk2 : ∃ k, w2.keys[e.obj]? = some k ∧ k.created = m'.created) (hpos : assocGet kc1.ents m' = none → ∀ o, 0 ≤ h2 o)
    (slotsA : List KeyMeta) (s : Nat) (hA : slotsA = kc1.slots ∨ slotsA = kc1.slots ++ [m'])
    (hs1 : slotsA[s]? = some m') (hsN : slotsA.Nodup)
    (hsm : s ∈ Cache.keysOf kc1.pol.items ↔ m' ∈ kc1.ents.map (·.1)) :
    ∃ w' kcN, releaseAll
        (List.filterMap (fun em => Option.map (fun x => x.obj) (assocGet kc1.ents em))
          (List.filterMap (fun x => slotsA[x.fst]?) (Cache.step kc1.pol (Cache.Op.set s 0) fun x => false).cbs))
        { w2 with caches := setAt w2.caches c fun _ =>
          { mode := kc1.mode,
            ents := assocSet (List.foldl (fun acc em => assocDel acc em) kc1.ents
              (List.filterMap (fun x => slotsA[x.fst]?) (Cache.step kc1.pol (Cache.Op.set s 0) fun x => false).cbs)) m' e,
            latest := kc1.latest, slots := slotsA,
            pol := (Cache.step kc1.pol (Cache.Op.set s 0) fun x => false).cache } } = (.ok (), w') ∧
      RIc T raw (fun o => h2 o + ((objsOf kc1).count o : Int) -
        ((objsOf { kc1 with ents := assocSet kc1.ents m' e }).count o : Int)) w' ∧
      w'.caches[c]? = some kcN ∧ assocGet kcN.ents m' = some e ∧ kcN.mode = kc1.mode := by
  have hok := hi2.ents c kc1 hkc2 hd
  have hb := hok.bnd hm
  have eff := Cache.Res.step_set_eff hb.inv hb.live hb.noexp s 0 (fun _ => false)
  have hinv' := (Cache.step_inv hb.inv (.set s 0) (fun _ => false)).1
  have hslen : kc1.slots.length ≤ slotsA.length := by rcases hA with e | e <;> rw [e] <;> simp
  have hsold : ∀ s', s' < kc1.slots.length → slotsA[s']? = kc1.slots[s']? := by
    intro s' hlt
    rcases hA with e | e
    · rw [e]
    · rw [e, List.getElem?_append_left hlt]
  obtain ⟨ke, hke, hkec⟩ := hk2
  -- the parts of `CacheOK` that do not depend on the case
  have entKeyOf : ∀ (l : List (KeyMeta × CEntry)), (∀ m x, (m, x) ∈ l → (m, x) ∈ kc1.ents) →
      ∀ m x, (m, x) ∈ assocSet l m' e → ∃ k, w2.keys[x.obj]? = some k ∧ k.created = m.created := by
    intro l hl m x hmx
    rcases mem_assocSet hmx with ⟨rfl, rfl⟩ | ⟨hmx', _⟩
    · exact ⟨ke, hke, hkec⟩
    · exact hok.entKey m x (hl m x hmx')
  rcases eff.2.2 with ⟨hcbs, hkeys⟩ | ⟨it, hit, hne, hsn, hcbs, hkeys⟩
  · -- no eviction
    rw [hcbs]
    simp only [List.filterMap_nil, List.foldl_nil]
    let kcN : KeyCache := { mode := kc1.mode, ents := assocSet kc1.ents m' e, latest := kc1.latest, slots := slotsA, pol := (Cache.step kc1.pol (Cache.Op.set s 0) fun x => false).cache }
    refine ⟨_, kcN, rfl, ?_, by show (setAt w2.caches c _)[c]? = _; rw [setAt_getElem?]; simp [hkc2, kcN], assocGet_assocSet_self _ _ _, rfl⟩
    refine hi2.updCache c kc1 kcN hkc2 hd rfl ?_ (fun o => by show _ + ((objsOf kcN).count o : Int) = _; simp only [objsOf, kcN]; omega) rfl rfl rfl
    refine ⟨entKeyOf _ (fun _ _ h => h), assocSet_keys_nodup _ _ hok.nodup, hok.latest, fun hn => (by rw [hm] at hn; cases hn), fun _ => ?_⟩
    refine ⟨hinv', eff.1, eff.2.1, hsN, ?_, ?_⟩
    · intro s' hs'
      rcases (hkeys s').1 hs' with rfl | h'
      · exact getElem?_lt hs1
      · exact Nat.lt_of_lt_of_le (hb.valid s' h') hslen
    · intro m
      show m ∈ (assocSet kc1.ents m' e).map (·.1) ↔ ∃ s', slotsA[s']? = some m ∧ s' ∈ Cache.keysOf _
      rw [mem_keys_assocSet]
      constructor
      · rintro (rfl | hmm)
        · exact ⟨s, hs1, (hkeys s).2 (Or.inl rfl)⟩
        · obtain ⟨s', h1, h2⟩ := (hb.keys m).1 hmm
          exact ⟨s', by rw [hsold s' (getElem?_lt h1)]; exact h1, (hkeys s').2 (Or.inr h2)⟩
      · rintro ⟨s', h1, h2⟩
        rcases (hkeys s').1 h2 with rfl | h'
        · rw [hs1] at h1; cases h1; exact Or.inl rfl
        · rw [hsold s' (hb.valid s' h')] at h1
          exact Or.inr ((hb.keys m).2 ⟨s', h1, h'⟩)
  · -- one entry is evicted: its key is released
    have hsvlt := hb.valid it.key hit
    have hmv : slotsA[it.key]? = some kc1.slots[it.key] := by rw [hsold _ hsvlt]; exact List.getElem?_eq_getElem hsvlt
    have hmvents : kc1.slots[it.key] ∈ kc1.ents.map (·.1) := (hb.keys _).2 ⟨it.key, List.getElem?_eq_getElem hsvlt, hit⟩
    have hm'ents : m' ∉ kc1.ents.map (·.1) := fun h => hsn (hsm.2 h)
    have hmvne : kc1.slots[it.key] ≠ m' := fun e' => hm'ents (e' ▸ hmvents)
    obtain ⟨oldv, holdv⟩ : ∃ oldv, assocGet kc1.ents kc1.slots[it.key] = some oldv := by
      cases hg : assocGet kc1.ents kc1.slots[it.key] with
      | none => exact absurd hmvents (assocGet_none_iff.1 hg)
      | some x => exact ⟨x, rfl⟩
    rw [hcbs]
    simp only [List.filterMap_cons, List.filterMap_nil, hmv, List.foldl_cons, List.foldl_nil, holdv, Option.map_some]
    let entsN := assocSet (assocDel kc1.ents kc1.slots[it.key]) m' e
    let kcN : KeyCache := { mode := kc1.mode, ents := entsN, latest := kc1.latest, slots := slotsA, pol := (Cache.step kc1.pol (Cache.Op.set s 0) fun x => false).cache }
    let w1 : World := { w2 with caches := setAt w2.caches c fun _ => kcN }
    have hnoneN : assocGet (assocDel kc1.ents kc1.slots[it.key]) m' = none := by
      rw [assocGet_assocDel_ne (fun e' => hmvne e'.symm)]; exact assocGet_none_iff.2 hm'ents
    have hnone1 : assocGet kc1.ents m' = none := assocGet_none_iff.2 hm'ents
    -- accounting
    let h1 : Nat → Int := fun o => h2 o - ((if e.obj = o then 1 else 0 : Nat) : Int) + ((if oldv.obj = o then 1 else 0 : Nat) : Int)
    have hcN : ∀ o, (objsOf kcN).count o + (if oldv.obj = o then 1 else 0) = (objsOf kc1).count o + (if e.obj = o then 1 else 0) := by
      intro o
      have a1 := count_assocSet_of_none e CEntry.obj hnoneN o
      have a2 := count_assocDel_of_some CEntry.obj hok.nodup holdv o
      show ((entsN.map fun p => p.2.obj).count o) + _ = ((kc1.ents.map fun p => p.2.obj).count o) + _
      simp only [entsN]
      omega
    have hkcN : w1.caches[c]? = some kcN := by show (setAt w2.caches c _)[c]? = _; rw [setAt_getElem?]; simp [hkc2]
    have hi1 : RIc T raw h1 w1 := by
      refine hi2.updCache c kc1 kcN hkc2 hd rfl ?_ (fun o => by have := hcN o; simp only [h1]; omega) rfl rfl rfl
      refine ⟨entKeyOf _ (fun _ _ h => (mem_assocDel.1 h).1), assocSet_keys_nodup _ _ (List.Nodup.sublist (assocDel_keys_sublist _ _) hok.nodup),
        hok.latest, fun hn => (by rw [hm] at hn; cases hn), fun _ => ?_⟩
      refine ⟨hinv', eff.1, eff.2.1, hsN, ?_, ?_⟩
      · intro s' hs'
        rcases (hkeys s').1 hs' with rfl | h'
        · exact getElem?_lt hs1
        · exact Nat.lt_of_lt_of_le (hb.valid s' h'.1) hslen
      · intro m
        show m ∈ entsN.map (·.1) ↔ ∃ s', slotsA[s']? = some m ∧ s' ∈ Cache.keysOf _
        simp only [entsN]
        rw [mem_keys_assocSet, mem_keys_assocDel]
        constructor
        · rintro (rfl | ⟨hmm, hmne⟩)
          · exact ⟨s, hs1, (hkeys s).2 (Or.inl rfl)⟩
          · obtain ⟨s', q1, q2⟩ := (hb.keys m).1 hmm
            refine ⟨s', by rw [hsold s' (getElem?_lt q1)]; exact q1, (hkeys s').2 (Or.inr ⟨q2, ?_⟩)⟩
            intro e'; subst e'
            rw [List.getElem?_eq_getElem hsvlt] at q1; cases q1; exact hmne rfl
        · rintro ⟨s', q1, q2⟩
          rcases (hkeys s').1 q2 with rfl | ⟨h', hne'⟩
          · rw [hs1] at q1; cases q1; exact Or.inl rfl
          · have hlt' := hb.valid s' h'
            rw [hsold s' hlt'] at q1
            refine Or.inr ⟨(hb.keys m).2 ⟨s', q1, h'⟩, ?_⟩
            intro e'; subst e'
            rw [List.getElem?_eq_getElem hlt'] at q1
            simp only [Option.some.injEq] at q1
            exact hne' ((List.getElem_inj hb.slots).1 q1)
    -- the release of the evicted key
    have hcnt : 1 ≤ cntOf T h1 w1 oldv.obj := by
      unfold cntOf
      simp only [h1, if_true]
      have := hpos hnone1 oldv.obj
      by_cases he : e.obj = oldv.obj
      · have : 0 < entCount T.dead w1.caches oldv.obj :=
          entCount_pos_iff.2 ⟨c, kcN, hkcN, hd, List.mem_map.2 ⟨(m', e), mem_assocSet_self _ _ _, he⟩⟩
        simp only [he, if_true]; omega
      · simp only [he, if_false]; omega
    have hrel := keyRelease_specc T raw h1 oldv.obj w1 ⟨hi1, hcnt⟩
    have hfr := keyRelease_frame oldv.obj w1
    simp only [releaseAll, bind_run]
    cases hr : keyRelease oldv.obj w1 with
    | mk r w' =>
      rw [hr] at hrel hfr
      simp only at hfr
      rw [hfr.1] at hrel
      simp only [hfr.1, pure_run]
      refine ⟨w', kcN, rfl, ?_, by rw [hfr.2]; exact hkcN, assocGet_assocSet_self _ _ _, rfl⟩
      refine RIc.congr_h hrel ?_
      intro o
      have a1 := count_assocSet_of_none e CEntry.obj hnone1 o
      show hadd h1 oldv.obj (-1) o = h2 o + ((kc1.ents.map fun p => p.2.obj).count o : Int) -
        (((assocSet kc1.ents m' e).map fun p => p.2.obj).count o : Int)
      simp only [hadd, h1]
      by_cases q : o = oldv.obj
      · subst q; simp only [if_true]; omega
      · have : ¬ oldv.obj = o := fun e' => q e'.symm
        simp only [q, this, if_false]; omega

theorem cacheSet_eff_bounded {T : CTab} {raw : Raw} {h2 : Nat → Int} {w2 : World} {c : Nat} {m' : KeyMeta} {e : CEntry} {kc1 : KeyCache}
    (hi2 : RIc T raw h2 w2) (hkc2 : w2.caches[c]? = some kc1) (hd : T.dead c = false) (hm : kc1.mode = .bounded)
    (hk2 : ∃ k, w2.keys[e.obj]? = some k ∧ k.created = m'.created) (hpos : assocGet kc1.ents m' = none → ∀ o, 0 ≤ h2 o) :
    ∃ a w', cacheSet c m' e w2 = (.ok a, w') ∧
      RIc T raw (fun o => h2 o + ((objsOf kc1).count o : Int) -
        ((objsOf { kc1 with ents := assocSet kc1.ents m' e }).count o : Int)) w' ∧
      ∃ kc', w'.caches[c]? = some kc' ∧ assocGet kc'.ents m' = some e ∧ kc'.mode = kc1.mode := by
  have hgd : w2.caches.getD c default = kc1 := getD_eq_of_getElem? hkc2
  have hok := hi2.ents c kc1 hkc2 hd
  have hb := hok.bnd hm
  simp only [cacheSet, bind_run, getCache, hgd, hm]
  cases hs : slotOf kc1 m' with
  | some s =>
    simp only [setCache, modify_run]
    have hs1 := (slotOf_some_iff hb.slots m' s).1 hs
    have hsm : s ∈ Cache.keysOf kc1.pol.items ↔ m' ∈ kc1.ents.map (·.1) := by
      rw [hb.keys m']
      constructor
      · intro h; exact ⟨s, hs1, h⟩
      · rintro ⟨s', q1, q2⟩
        have hlt := getElem?_lt q1
        have hlt1 := getElem?_lt hs1
        rw [List.getElem?_eq_getElem hlt] at q1
        rw [List.getElem?_eq_getElem hlt1] at hs1
        simp only [Option.some.injEq] at q1 hs1
        have : s' = s := (List.getElem_inj hb.slots).1 (q1.trans hs1.symm)
        exact this ▸ q2
    obtain ⟨w', kcN, h1, h2', h3, h4, h5⟩ := cacheSet_core hi2 hkc2 hd hm hk2 hpos kc1.slots s (Or.inl rfl) hs1 hb.slots hsm
    exact ⟨(), w', h1, h2', kcN, h3, h4, by rw [h5, hm]⟩
  | none =>
    simp only [setCache, modify_run]
    have hnot := (slotOf_none_iff m').1 hs
    have hs1 : (kc1.slots ++ [m'])[kc1.slots.length]? = some m' := by simp
    have hsN : (kc1.slots ++ [m']).Nodup := by
      rw [List.nodup_append]
      refine ⟨hb.slots, by simp, ?_⟩
      intro a ha b hb'; simp at hb'; subst hb'; intro e'; subst e'; exact hnot ha
    have hsm : kc1.slots.length ∈ Cache.keysOf kc1.pol.items ↔ m' ∈ kc1.ents.map (·.1) := by
      constructor
      · intro h; have := hb.valid _ h; omega
      · intro h
        obtain ⟨s', q1, _⟩ := (hb.keys m').1 h
        exact absurd (List.mem_of_getElem? q1) hnot
    obtain ⟨w', kcN, h1, h2', h3, h4, h5⟩ := cacheSet_core hi2 hkc2 hd hm hk2 hpos (kc1.slots ++ [m']) kc1.slots.length (Or.inr rfl) hs1 hsN hsm
    simp only [hm] at h1
    exact ⟨(), w', h1, h2', kcN, h3, h4, by rw [h5, hm]⟩

theorem nodup_filterMap {α β : Type} (f : α → Option β) (hinj : ∀ a a' b, f a = some b → f a' = some b → a = a') :
    ∀ l : List α, l.Nodup → (l.filterMap f).Nodup := by
  intro l
  induction l with
  | nil => intro _; exact List.nodup_nil
  | cons a t ih =>
    intro hn
    simp only [List.nodup_cons] at hn
    simp only [List.filterMap_cons]
    cases hf : f a with
    | none => exact ih hn.2
    | some b =>
      simp only []
      rw [List.nodup_cons]
      refine ⟨?_, ih hn.2⟩
      intro hm
      obtain ⟨a', ha', hfa'⟩ := List.mem_filterMap.1 hm
      have := hinj a a' b hf hfa'
      exact hn.1 (this ▸ ha')

/-- the keys of a bounded cache's entries are the slot-table images of the policy's keys. -/
theorem BOK.keys_perm {kc : KeyCache} {keys : List KeyObj} (hok : CacheOK keys kc) (hb : BOK kc) :
    (List.filterMap (fun s => kc.slots[s]?) (Cache.keysOf kc.pol.items)).Perm (kc.ents.map (·.1)) := by
  rw [List.perm_ext_iff_of_nodup]
  · intro m
    rw [hb.keys m, List.mem_filterMap]
    constructor
    · rintro ⟨s, q1, q2⟩; exact ⟨s, q2, q1⟩
    · rintro ⟨s, q1, q2⟩; exact ⟨s, q2, q1⟩
  · apply nodup_filterMap _ _ _ hb.inv.itemsNodup
    intro a a' b ha ha'
    have l1 := getElem?_lt ha
    have l2 := getElem?_lt ha'
    rw [List.getElem?_eq_getElem l1] at ha
    rw [List.getElem?_eq_getElem l2] at ha'
    simp only [Option.some.injEq] at ha ha'
    exact (List.getElem_inj hb.slots).1 (ha.trans ha'.symm)
  · exact hok.nodup

/-- a bounded key cache never holds more entries than its capacity. -/
theorem BOK.ents_le_cap {kc : KeyCache} {keys : List KeyObj} (hok : CacheOK keys kc) (hb : BOK kc) :
    kc.ents.length ≤ kc.pol.cap := by
  have h1 := (hb.keys_perm hok).length_eq
  have h2 : (List.filterMap (fun s => kc.slots[s]?) (Cache.keysOf kc.pol.items)).length ≤ (Cache.keysOf kc.pol.items).length :=
    List.length_filterMap_le _ _
  have h3 := hb.inv.size
  simp only [List.length_map, Cache.keysOf] at h1 h2
  omega

/-- in a bounded cache the callbacks of `Close`, mapped through the slot table and the entries,
are exactly the cached key objects. -/
theorem close_victims_perm {kc : KeyCache} {keys : List KeyObj} (hok : CacheOK keys kc) (hb : BOK kc) :
    (List.filterMap (fun em => Option.map (fun x => x.obj) (assocGet kc.ents em))
      (List.filterMap (fun x => kc.slots[x.fst]?) (Cache.step kc.pol Cache.Op.close fun x => false).cbs)).Perm (objsOf kc) := by
  have h1 := Cache.Res.step_close_eff hb.inv hb.live (fun _ => false)
  have e1 : List.filterMap (fun x => kc.slots[x.fst]?) (Cache.step kc.pol Cache.Op.close fun x => false).cbs =
      List.filterMap (fun s => kc.slots[s]?) ((Cache.step kc.pol Cache.Op.close fun x => false).cbs.map (·.1)) := by
    rw [List.filterMap_map]; rfl
  rw [e1]
  have h2 := h1.filterMap (fun s => kc.slots[s]?)
  -- the metas of the policy's keys are exactly the keys of the entries
  have hM : (List.filterMap (fun s => kc.slots[s]?) (Cache.keysOf kc.pol.items)).Perm (kc.ents.map (·.1)) := by
    rw [List.perm_ext_iff_of_nodup]
    · intro m
      rw [hb.keys m, List.mem_filterMap]
      constructor
      · rintro ⟨s, q1, q2⟩; exact ⟨s, q2, q1⟩
      · rintro ⟨s, q1, q2⟩; exact ⟨s, q2, q1⟩
    · apply nodup_filterMap _ _ _ hb.inv.itemsNodup
      intro a a' b ha ha'
      have l1 := getElem?_lt ha
      have l2 := getElem?_lt ha'
      rw [List.getElem?_eq_getElem l1] at ha
      rw [List.getElem?_eq_getElem l2] at ha'
      simp only [Option.some.injEq] at ha ha'
      exact (List.getElem_inj hb.slots).1 (ha.trans ha'.symm)
    · exact hok.nodup
  have h3 := (h2.trans hM).filterMap (fun em => Option.map (fun x => x.obj) (assocGet kc.ents em))
  refine h3.trans ?_
  have : List.filterMap (fun em => Option.map (fun x => x.obj) (assocGet kc.ents em)) (kc.ents.map (·.1)) = objsOf kc := by
    unfold objsOf
    rw [List.filterMap_map]
    have hg : ∀ p, p ∈ kc.ents → assocGet kc.ents p.1 = some p.2 := fun p hp => assocGet_of_mem hok.nodup hp
    generalize kc.ents = l at hg ⊢
    have : ∀ l' : List (KeyMeta × CEntry), (∀ p, p ∈ l' → assocGet l p.1 = some p.2) →
        List.filterMap ((fun em => Option.map (fun x => x.obj) (assocGet l em)) ∘ fun x => x.1) l' = l'.map fun p => p.2.obj := by
      intro l'
      induction l' with
      | nil => intro _; rfl
      | cons p t ih =>
        intro h
        simp only [List.filterMap_cons, Function.comp, h p List.mem_cons_self, Option.map_some, List.map_cons]
        rw [← ih (fun q hq => h q (List.mem_cons_of_mem _ hq))]
    exact this l hg
  rw [this]



/-! ### `write` -/

/-- `c.keys.Set(id, e)` on an open `simple` or bounded cache: the entry is in afterwards; the cache
gives up the reference of the entry it replaced (it stays with the caller, see `cacheWriteTail`),
and releases the key of an entry it evicts. In terms of the held-reference function: as if `e` had
simply replaced / been added to the entries. -/
theorem cacheSet_eff {T : CTab} {raw : Raw} {h2 : Nat → Int} {w2 : World} {c : Nat} {m' : KeyMeta} {e : CEntry} {kc1 : KeyCache}
    (hi2 : RIc T raw h2 w2) (hkc2 : w2.caches[c]? = some kc1) (hd : T.dead c = false) (hm : kc1.mode ≠ .never)
    (hk2 : ∃ k, w2.keys[e.obj]? = some k ∧ k.created = m'.created) (hpos : assocGet kc1.ents m' = none → ∀ o, 0 ≤ h2 o) :
    ∃ a w', cacheSet c m' e w2 = (.ok a, w') ∧
      RIc T raw (fun o => h2 o + ((objsOf kc1).count o : Int) -
        ((objsOf { kc1 with ents := assocSet kc1.ents m' e }).count o : Int)) w' ∧
      ∃ kc', w'.caches[c]? = some kc' ∧ assocGet kc'.ents m' = some e ∧ kc'.mode = kc1.mode := by
  cases hmode : kc1.mode with
  | never => exact absurd hmode hm
  | bounded =>
    have := cacheSet_eff_bounded hi2 hkc2 hd hmode hk2 hpos
    rw [hmode] at this; exact this
  | simple =>
    have hgd2 : w2.caches.getD c default = kc1 := getD_eq_of_getElem? hkc2
    rw [cacheSet_run_simple w2 c m' e (by rw [hgd2, hmode]), hgd2]
    have hok1 := hi2.ents c kc1 hkc2 hd
    refine ⟨(), _, rfl, hi2.updCache c kc1 { kc1 with ents := assocSet kc1.ents m' e } hkc2 hd rfl ?_ (fun o => by simp only [objsOf]; omega) rfl rfl rfl,
      { kc1 with ents := assocSet kc1.ents m' e }, ?_, assocGet_assocSet_self _ _ _, hmode⟩
    · refine ⟨?_, assocSet_keys_nodup _ _ hok1.nodup, hok1.latest, fun hn => (by rw [hmode] at hn; cases hn),
        fun hn => (by rw [hmode] at hn; cases hn)⟩
      intro m2 e2 hme
      rcases mem_assocSet hme with ⟨rfl, rfl⟩ | ⟨hme', _⟩
      · exact hk2
      · exact hok1.entKey m2 e2 hme'
    · show (setAt w2.caches c _)[c]? = _
      rw [setAt_getElem?]; simp [hkc2]

def writeHolds (h : Nat → Int) (kc : KeyCache) (m' : KeyMeta) (e : CEntry) : Nat → Int :=
  match assocGet kc.ents m' with
  | some old => if old.obj = e.obj then h else hadd h e.obj (-1)
  | none => hadd h e.obj (-1)

theorem writeHolds_congr (h : Nat → Int) {kc kc' : KeyCache} (he : kc'.ents = kc.ents) (m' : KeyMeta) (e : CEntry) :
    writeHolds h kc' m' e = writeHolds h kc m' e := by unfold writeHolds; rw [he]

theorem cacheWriteTail_spec (T : CTab) (raw : Raw) (h : Nat → Int) (c : Nat) (m' : KeyMeta) (e : CEntry) (kc1 : KeyCache)
    (hd : T.dead c = false) (hmode : kc1.mode ≠ .never) (hpos : ∀ o, 0 ≤ h o) :
    Spec (fun w => RIc T raw h w ∧ w.caches[c]? = some kc1 ∧ ∃ k, w.keys[e.obj]? = some k ∧ k.created = m'.created)
      (cacheWriteTail c m' e)
      (fun _ w' => RIc T raw (writeHolds h kc1 m' e) w' ∧ ∃ kc', w'.caches[c]? = some kc' ∧ assocGet kc'.ents m' = some e)
      (fun _ => False) := by
  apply Spec.intro_ok
  rintro w0 ⟨hi0, hkc0, k0, hk0, hkcr⟩
  have hgd0 : w0.caches.getD c default = kc1 := getD_eq_of_getElem? hkc0
  -- the peek `c.keys.Get(id)` (bounded: touches the policy's bookkeeping only)
  obtain ⟨rg, w, kcg, hrg, hi, hkeys, hkc, hgents, hgmode, _, _⟩ := cacheGet_eff m' hi0 hkc0 hd
  have hmodeg : kcg.mode ≠ .never := by rw [hgmode]; exact hmode
  have hk : w.keys[e.obj]? = some k0 := by rw [hkeys]; exact hk0
  -- the final `cacheSet`, from any world that still has `kcg` at `c`
  have fin : ∀ (w2 : World) (h2 : Nat → Int), RIc T raw h2 w2 → w2.caches[c]? = some kcg → (assocGet kcg.ents m' = none → ∀ o, 0 ≤ h2 o) →
      (∃ k, w2.keys[e.obj]? = some k ∧ k.created = m'.created) →
      (∀ o, writeHolds h kc1 m' e o + ((objsOf { kcg with ents := assocSet kcg.ents m' e }).count o : Int) =
        h2 o + ((objsOf kcg).count o : Int)) →
      ∃ a w', cacheSet c m' e w2 = (.ok a, w') ∧
        RIc T raw (writeHolds h kc1 m' e) w' ∧ ∃ kc', w'.caches[c]? = some kc' ∧ assocGet kc'.ents m' = some e := by
    intro w2 h2 hi2 hkc2 hpos2 hk2 hh
    obtain ⟨a, w', hr, hri, kc', h1, h2', _⟩ := cacheSet_eff hi2 hkc2 hd hmodeg hk2 hpos2
    refine ⟨a, w', hr, RIc.congr_h hri (fun o => ?_), kc', h1, h2'⟩
    have := hh o
    omega
  unfold cacheWriteTail
  simp only [bind_run, getCache, hgd0, hrg]
  have hex : (match kc1.mode with | .never => none | _ => assocGet kc1.ents m') = assocGet kc1.ents m' := by
    cases hm : kc1.mode <;> first | exact absurd hm hmode | rfl
  have hok := hi.ents c kcg hkc hd
  cases hexg : assocGet kc1.ents m' with
  | none =>
    simp only []
    apply fin w h hi hkc (fun _ => hpos) ⟨k0, hk, hkcr⟩
    intro o
    have := count_assocSet_of_none e CEntry.obj (hgents ▸ hexg) o
    unfold objsOf
    simp only [writeHolds, hexg, hadd]
    rw [this]
    split <;> split <;> omega
  | some old =>
    simp only []
    have hexg' : assocGet kcg.ents m' = some old := hgents ▸ hexg
    have hcount := fun o => count_assocSet_of_some e CEntry.obj hok.nodup hexg' o
    by_cases hsame : old.obj = e.obj
    · simp only [hsame, ne_eq, not_true_eq_false, ↓reduceIte, pure_run]
      apply fin w h hi hkc (fun _ => hpos) ⟨k0, hk, hkcr⟩
      intro o
      have := hcount o
      unfold objsOf
      simp only [writeHolds, hexg, hsame, ↓reduceIte]
      simp only [hsame] at this
      omega
    · simp only [ne_eq, hsame, not_false_eq_true, ↓reduceIte]
      have hcnt : 1 ≤ cntOf T h w old.obj := by
        unfold cntOf
        have : 0 < entCount T.dead w.caches old.obj :=
          entCount_pos_iff.2 ⟨c, kcg, hkc, hd, List.mem_map.2 ⟨(m', old), assocGet_mem hexg', rfl⟩⟩
        have := hpos old.obj
        omega
      have hrel := keyRelease_specc T raw h old.obj w ⟨hi, hcnt⟩
      have hfr := keyRelease_frame old.obj w
      have hext := keyRelease_ext old.obj w
      cases hr : keyRelease old.obj w with
      | mk r w2 =>
        rw [hr] at hrel hfr hext
        simp only at hfr
        rw [hfr.1] at hrel
        simp only [bind_run, hr, hfr.1]
        obtain ⟨k2, hk2, hk2c, _⟩ := hext.keys _ _ hk
        have hne : e.obj ≠ old.obj := fun e' => hsame e'.symm
        apply fin w2 _ hrel (by rw [hfr.2]; exact hkc) (fun hn => by rw [hexg'] at hn; cases hn) ⟨k2, hk2, hk2c.trans hkcr⟩
        intro o
        have := hcount o
        unfold objsOf
        simp only [writeHolds, hexg, hsame, ↓reduceIte, hadd]
        split at this <;> split at this <;> split <;> split <;> omega

theorem cacheWrite_spec (T : CTab) (raw : Raw) (h : Nat → Int) (c : Nat) (m : KeyMeta) (e : CEntry) (kc : KeyCache) (k : KeyObj)
    (hd : T.dead c = false) (hmode : kc.mode ≠ .never) (hpos : ∀ o, 0 ≤ h o)
    (hcr : m.created ≠ 0 → k.created = m.created) :
    Spec (fun w => RIc T raw h w ∧ w.caches[c]? = some kc ∧ w.keys[e.obj]? = some k)
      (cacheWrite c m e)
      (fun _ w' => RIc T raw (writeHolds h kc (writeKey m k.created) e) w' ∧
        ∃ kc', w'.caches[c]? = some kc' ∧ assocGet kc'.ents (writeKey m k.created) = some e)
      (fun _ => False) := by
  rintro w ⟨hi, hkc, hk⟩
  rw [cacheWrite_eq]
  have hgd : w.caches.getD c default = kc := getD_eq_of_getElem? hkc
  have hgk : w.keys.getD e.obj default = k := getD_eq_of_getElem? hk
  have hcr' : k.created = (writeKey m k.created).created := by
    unfold writeKey; split
    · rfl
    · rename_i h0; exact hcr h0
  simp only [cacheWrite', hgd, hgk]
  cases setLatestFlag kc m k
  · exact cacheWriteTail_spec T raw h c _ e kc hd hmode hpos w ⟨hi, hkc, k, hk, hcr'⟩
  · -- the latest alias is (re)mapped first
    let kc1 : KeyCache := { kc with latest := assocSet kc.latest m.kid (writeKey m k.created) }
    have hok := hi.ents c kc hkc hd
    have hi1 : RIc T raw h { w with caches := setAt w.caches c fun _ => kc1 } := by
      refine hi.updCache c kc kc1 hkc hd rfl ⟨hok.entKey, hok.nodup, ?_, hok.nev, fun hb =>
        ⟨(hok.bnd hb).inv, (hok.bnd hb).live, (hok.bnd hb).noexp, (hok.bnd hb).slots, (hok.bnd hb).valid, (hok.bnd hb).keys⟩⟩ (fun o => rfl) rfl rfl rfl
      intro kid l hl
      rcases mem_assocSet hl with ⟨rfl, rfl⟩ | ⟨hl', _⟩
      · unfold writeKey; split <;> rfl
      · exact hok.latest kid l hl'
    exact cacheWriteTail_spec T raw h c _ e kc1 hd hmode hpos _
      ⟨hi1, by show (setAt w.caches c _)[c]? = _; rw [setAt_getElem?]; simp [hkc, kc1], k, hk, hcr'⟩


theorem readKey_eq_writeKey {keys : List KeyObj} {kc : KeyCache} {m : KeyMeta} {e : CEntry} {ke : KeyObj}
    (hok : CacheOK keys kc) (hl : assocGet kc.ents (readKey kc m) = some e) (hk : keys[e.obj]? = some ke) :
    readKey kc m = writeKey m ke.created := by
  obtain ⟨k', hk', hc'⟩ := hok.entKey _ _ (assocGet_mem hl)
  rw [hk] at hk'; cases hk'
  unfold readKey writeKey at *
  by_cases h0 : m.created = 0
  · simp only [h0, if_true] at hc' ⊢
    cases hg : getLatestMeta kc m.kid with
    | none =>
      rw [hg] at hc'
      simp only [Option.getD_none] at hc' ⊢
      cases m; simp_all
    | some l =>
      rw [hg] at hc'
      simp only [Option.getD_some] at hc' ⊢
      have := hok.latest _ _ (assocGet_mem hg)
      cases l; simp_all
  · simp [h0]

/-- what the caches need from a key loader: on success a fresh raw key object (created as asked
when a creation stamp was asked for), on failure nothing is left behind. -/
def LoaderOK (T : CTab) (loader : KeyMeta → M Nat) (m : KeyMeta) : Prop :=
  ∀ H, Spec (RI T .none H) (loader m)
    (fun o w => RI T (.obj o) H w ∧ (m.created ≠ 0 → ∃ k, w.keys[o]? = some k ∧ k.created = m.created))
    (RI T .none H)

theorem RIc.cache_in_range {T : CTab} {raw : Raw} {h : Nat → Int} {w : World} (hi : RIc T raw h w) {c : Nat}
    (hm : T.mode c ≠ .never) : ∃ kc, w.caches[c]? = some kc ∧ kc.mode ≠ .never := by
  have := hi.mode c
  cases hc : w.caches[c]? with
  | none =>
    simp only [List.getD_eq_getElem?_getD, hc, Option.getD_none] at this
    exact absurd this.symm hm
  | some kc =>
    simp only [List.getD_eq_getElem?_getD, hc, Option.getD_some] at this
    exact ⟨kc, rfl, by rw [this]; exact hm⟩

/-- wrap the freshly loaded raw key and put it into open cache `c`: the wrapper's first reference
becomes the cache's; an entry it replaces is released. -/
theorem wrapWrite_spec (T : CTab) (H : List Nat) (c : Nat) (m : KeyMeta) (k : Nat) (la : Int)
    (hd : T.dead c = false) (hmode : T.mode c ≠ .never) :
    Spec (fun w => RI T (.obj k) H w ∧ (m.created ≠ 0 → ∃ ko, w.keys[k]? = some ko ∧ ko.created = m.created))
      (keyWrap k >>= fun _ => cacheWrite c m { loadedAt := la, obj := k })
      (fun _ w => RI T .none H w ∧ 0 < entCount T.dead w.caches k) (fun _ => False) := by
  apply Spec.intro_ok
  rintro w ⟨hi, hcr⟩
  obtain ⟨kc, hkc, hkcm⟩ := RIc.cache_in_range hi hmode
  have hklt := hi.rawObj k rfl
  have hk : w.keys[k]? = some w.keys[k] := List.getElem?_eq_getElem hklt
  simp only [bind_run]
  have hw1 := (keyWrap_spec T H k).run_ok hi (rfl : keyWrap k w = (.ok (), _))
  simp only [show keyWrap k w = (.ok (), { w with keys := setAt w.keys k fun x => { x with refs := 1 } }) from rfl]
  obtain ⟨hi1, hent⟩ := hw1
  have hk1 : (setAt w.keys k fun x => { x with refs := 1 })[k]? = some { w.keys[k] with refs := 1 } := by
    rw [setAt_getElem?]; simp [hk]
  have hsp := cacheWrite_spec T .none (hcount (k :: H)) c m { loadedAt := la, obj := k } kc
    { w.keys[k] with refs := 1 } hd hkcm (hcount_nonneg _)
    (by intro h0; obtain ⟨k', hk', hc'⟩ := hcr h0; rw [hk] at hk'; cases hk'; exact hc')
    _ ⟨hi1, hkc, hk1⟩
  cases hr : cacheWrite c m { loadedAt := la, obj := k } { w with keys := setAt w.keys k fun x => { x with refs := 1 } } with
  | mk r w3 =>
    rw [hr] at hsp
    cases r with
    | error e => exact hsp.elim
    | ok u =>
      obtain ⟨hi3, kc', hkc', hget⟩ := hsp
      refine ⟨(), w3, rfl, ?_, ?_⟩
      · have hwh : writeHolds (hcount (k :: H)) kc (writeKey m (w.keys[k]).created) { loadedAt := la, obj := k } = hcount H := by
          have hno : ∀ old, assocGet kc.ents (writeKey m (w.keys[k]).created) = some old → old.obj ≠ k := by
            intro old hold heq
            have : 0 < entCount T.dead w.caches k :=
              entCount_pos_iff.2 ⟨c, kc, hkc, hd, List.mem_map.2 ⟨(_, old), assocGet_mem hold, heq⟩⟩
            simp only at hent
            omega
          unfold writeHolds
          rw [hcount_cons, hadd_hadd_cancel]
          cases hg : assocGet kc.ents (writeKey m (w.keys[k]).created) with
          | none => rfl
          | some old => simp only [hno old hg, if_false]
        simp only at hi3
        rw [hwh] at hi3
        exact hi3
      · exact entCount_pos_iff.2 ⟨c, kc', hkc', hd, List.mem_map.2 ⟨(_, _), assocGet_mem hget, rfl⟩⟩

theorem readKey_congr {kc kc' : KeyCache} (h : kc'.latest = kc.latest) (m : KeyMeta) : readKey kc' m = readKey kc m := by
  unfold readKey getLatestMeta; rw [h]

/-- `read` for every cache mode (see `cacheGet_eff`). -/
theorem cacheRead_eff {T : CTab} {raw : Raw} {h : Nat → Int} {w : World} {c : Nat} {kc : KeyCache} (m : KeyMeta)
    (hi : RIc T raw h w) (hkc : w.caches[c]? = some kc) (hd : T.dead c = false) :
    ∃ r w' kc', cacheRead c m w = (.ok r, w') ∧ RIc T raw h w' ∧ w'.keys = w.keys ∧
      w'.caches[c]? = some kc' ∧ kc'.ents = kc.ents ∧ kc'.mode = kc.mode ∧ kc'.latest = kc.latest ∧
      (∀ e, r = some e → kc.mode ≠ .never ∧ assocGet kc.ents (readKey kc m) = some e) := by
  have hgd : w.caches.getD c default = kc := getD_eq_of_getElem? hkc
  simp only [cacheRead, bind_run, getCache, hgd]
  exact cacheGet_eff (readKey kc m) hi hkc hd

theorem cacheLoad_spec (T : CTab) (H : List Nat) (c : Nat) (m : KeyMeta) (loader : KeyMeta → M Nat)
    (hd : T.dead c = false) (hmode : T.mode c ≠ .never) (hl : LoaderOK T loader m) :
    Spec (RI T .none H) (cacheLoad c m loader)
      (fun o w => RI T .none H w ∧ 0 < entCount T.dead w.caches o) (RI T .none H) := by
  unfold cacheLoad
  refine Spec.bind (hl H) (fun _ h => h) ?_
  intro k
  apply Spec.intro_ok
  rintro w0 ⟨hi0, hcr0⟩
  obtain ⟨kc0, hkc0, hkcm0⟩ := RIc.cache_in_range hi0 hmode
  obtain ⟨r, w, kc, hrd, hi, hkeys, hkc, hents, hkcmode, hlat, hrspec⟩ := cacheRead_eff m hi0 hkc0 hd
  have hkcm : kc.mode ≠ .never := by rw [hkcmode]; exact hkcm0
  have hcr : m.created ≠ 0 → ∃ k_1, w.keys[k]? = some k_1 ∧ k_1.created = m.created := by rw [hkeys]; exact hcr0
  have hko : w0.keys.getD k default = w.keys.getD k default := by rw [hkeys]
  have hklt := hi.rawObj k rfl
  have hk : w.keys[k]? = some w.keys[k] := List.getElem?_eq_getElem hklt
  simp only [bind_run, keyObj, hrd, hko]
  have hok := hi.ents c kc hkc hd
  -- caching the freshly loaded key
  have newBranch : ∃ a w', (do
        let w ← get
        keyWrap k
        cacheWrite c m { loadedAt := w.now, obj := k }
        pure k : M Nat) w = (.ok a, w') ∧ RI T .none H w' ∧ 0 < entCount T.dead w'.caches a := by
    have hsp := wrapWrite_spec T H c m k w.now hd hmode w ⟨hi, hcr⟩
    simp only [bind_run, get_run] at hsp ⊢
    cases hr : keyWrap k w with
    | mk r1 w1 =>
      rw [hr] at hsp
      cases r1 with
      | error e => exact hsp.elim
      | ok u =>
        simp only at hsp ⊢
        cases hr2 : cacheWrite c m { loadedAt := w.now, obj := k } w1 with
        | mk r2 w2 =>
          rw [hr2] at hsp
          cases r2 with
          | error e => exact hsp.elim
          | ok u2 => exact ⟨k, w2, rfl, hsp⟩
  cases r with
  | none => exact newBranch
  | some e =>
    simp only [bind_run, keyObj]
    split
    · -- the entry already holds this key: refresh it, close the redundant copy
      have hla : assocGet kc.ents (readKey kc m) = some e := by
        rw [hents, readKey_congr hlat]; exact (hrspec e rfl).2
      obtain ⟨ke, hke, _⟩ := hok.entKey _ _ (assocGet_mem hla)
      have hne : e.obj ≠ k := by
        intro heq
        have h1 : 0 < entCount T.dead w.caches e.obj :=
          entCount_pos_iff.2 ⟨c, kc, hkc, hd, List.mem_map.2 ⟨(_, e), assocGet_mem hla, rfl⟩⟩
        have h2 := ((hi.acc k _ hk).1 rfl).2.2
        unfold cntOf at h2
        have := hcount_nonneg H k
        rw [heq] at h1
        omega
      simp only [bind_run, modify_run, get_run]
      -- 1. revoked flag of the cached key
      have hi1 : RI T (.obj k) H { w with keys := setAt w.keys e.obj fun x => { x with revoked := (w.keys.getD k default).revoked } } := by
        have hacc := hi.acc e.obj ke hke
        exact RIc.updKey hi e.obj (fun x => { x with revoked := (w.keys.getD k default).revoked }) ke hke (fun x => ⟨rfl, rfl, rfl, rfl⟩) ⟨rfl, fun _ _ h => h, hi.rawObj⟩
          (fun o' _ => ⟨rfl, Iff.rfl⟩) (fun _ => trivial) hacc rfl rfl rfl
      -- 2. close the freshly loaded copy
      have hcl := keyCloseRaw_spec T (hcount H) k _ hi1
      have hfr := keyCloseRaw_frame k { w with keys := setAt w.keys e.obj fun x => { x with revoked := (w.keys.getD k default).revoked } }
      have hext := (keyCloseRaw_ext k { w with keys := setAt w.keys e.obj fun x => { x with revoked := (w.keys.getD k default).revoked } })
      cases hr : keyCloseRaw k { w with keys := setAt w.keys e.obj fun x => { x with revoked := (w.keys.getD k default).revoked } } with
      | mk r w2 =>
        rw [hr] at hcl hfr hext
        simp only at hfr
        rw [hfr.1] at hcl
        simp only [hfr.1]
        have hke1 : (setAt w.keys e.obj fun x => { x with revoked := (w.keys.getD k default).revoked })[e.obj]? =
            some { ke with revoked := (w.keys.getD k default).revoked } := by
          rw [setAt_getElem?]; simp [hke]
        obtain ⟨ke2, hke2, hke2c, _⟩ := hext.keys _ _ hke1
        have hkc2 : w2.caches[c]? = some kc := by rw [hfr.2]; exact hkc
        -- 3. write the refreshed entry back under the same key
        have hsp := cacheWrite_spec T .none (hcount H) c m { loadedAt := w.now, obj := e.obj } kc ke2 hd hkcm (hcount_nonneg _)
          (by
            intro h0
            have := readKey_eq_writeKey hok hla hke
            have hc' := (hok.entKey _ _ (assocGet_mem hla))
            obtain ⟨k', hk', hc'⟩ := hc'
            rw [hke] at hk'; cases hk'
            unfold readKey at hc'; simp only [h0, if_false] at hc'
            rw [hke2c]; exact hc')
          w2 ⟨hcl, hkc2, hke2⟩
        cases hr2 : cacheWrite c m { loadedAt := w.now, obj := e.obj } w2 with
        | mk r2 w3 =>
          rw [hr2] at hsp
          cases r2 with
          | error e => exact hsp.elim
          | ok u =>
            obtain ⟨hi3, kc', hkc', hget⟩ := hsp
            refine ⟨e.obj, w3, rfl, ?_, ?_⟩
            · have hrw : writeKey m ke2.created = readKey kc m := by
                rw [hke2c]; exact (readKey_eq_writeKey hok hla hke).symm
              have hwh : writeHolds (hcount H) kc (writeKey m ke2.created) { loadedAt := w.now, obj := e.obj } = hcount H := by
                unfold writeHolds
                rw [hrw, hla]
                simp
              rw [hwh] at hi3
              exact hi3
            · exact entCount_pos_iff.2 ⟨c, kc', hkc', hd, List.mem_map.2 ⟨(_, _), assocGet_mem hget, rfl⟩⟩
    · exact newBranch


theorem Spec.pure_pre {α : Type} {P : World → Prop} {φ : Prop} {x : M α} {Q : α → World → Prop} {E : World → Prop}
    (h : φ → Spec P x Q E) : Spec (fun w => P w ∧ φ) x Q E := fun w hw => h hw.2 w hw.1

theorem getCache_mode_spec (T : CTab) (raw : Raw) (H : List Nat) (c : Nat) :
    Spec (RI T raw H) (getCache c) (fun kc w => RI T raw H w ∧ kc.mode = T.mode c) (fun _ => False) := by
  intro w hi
  exact ⟨hi, hi.mode c⟩

/-- a hit of `getFresh` in an open cache is an object the cache holds a reference on. -/
theorem getFresh_spec (T : CTab) (raw : Raw) (H : List Nat) (c : Nat) (m : KeyMeta) (i : Int) (hd : T.dead c = false) :
    Spec (RI T raw H) (getFresh c m i)
      (fun r w => RI T raw H w ∧ ∀ o, r.1 = some o → 0 < entCount T.dead w.caches o) (fun _ => False) := by
  apply Spec.intro_ok
  intro w hi
  cases hc : w.caches[c]? with
  | none =>
    -- no such cache: `getCache` yields the default (never) cache
    have hgd : w.caches.getD c default = default := by simp [List.getD_eq_getElem?_getD, hc]
    have : cacheRead c m w = (.ok none, w) := by
      simp only [cacheRead, bind_run, getCache, cacheGet, hgd]; rfl
    simp only [getFresh, bind_run, this]
    exact ⟨_, w, rfl, hi, fun o ho => by cases ho⟩
  | some kc =>
    obtain ⟨r, w', kc', hrd, hi', hkeys, hkc', hents, _, _, hr⟩ := cacheRead_eff m hi hc hd
    simp only [getFresh, bind_run, hrd]
    cases r with
    | none => exact ⟨_, w', rfl, hi', fun o ho => by cases ho⟩
    | some e =>
      have hpos : 0 < entCount T.dead w'.caches e.obj :=
        entCount_pos_iff.2 ⟨c, kc', hkc', hd, List.mem_map.2 ⟨(_, e), assocGet_mem (hents ▸ (hr e rfl).2), rfl⟩⟩
      simp only [bind_run, keyObj, get_run]
      split
      · exact ⟨_, w', rfl, hi', fun o ho => by cases ho; exact hpos⟩
      · exact ⟨_, w', rfl, hi', fun o ho => by cases ho; exact hpos⟩

theorem LoaderOK.plain {T : CTab} {loader : KeyMeta → M Nat} {m : KeyMeta} (hl : LoaderOK T loader m) (H : List Nat) :
    Spec (RI T .none H) (loader m) (fun o => RI T (.obj o) H) (RI T .none H) :=
  (hl H).weaken (fun _ h => h) (fun _ _ h => h.1) (fun _ h => h)

theorem keyWrap_plain (T : CTab) (H : List Nat) (o : Nat) :
    Spec (RI T (.obj o) H) (keyWrap o) (fun _ => RI T .none (o :: H)) (fun _ => False) :=
  (keyWrap_spec T H o).weaken (fun _ h => h) (fun _ _ h => h.1) (fun _ h => h)

theorem Spec.with_pre {α : Type} {P : World → Prop} {x : M α} {Q : α → World → Prop} {E : World → Prop}
    (h : (∃ w, P w) → Spec P x Q E) : Spec P x Q E := fun w hw => h ⟨w, hw⟩ w hw

theorem tracked_spec (T : CTab) (H : List Nat) (k : Nat) :
    Spec (fun w => RI T .none H w ∧ 0 < entCount T.dead w.caches k)
      (keyIncr k >>= fun _ => (pure k : M Nat)) (fun o => RI T .none (o :: H)) (RI T .none H) :=
  Spec.bind (keyIncr_spec T .none H k) (fun _ h => h.elim) fun _ => Spec.pure _ fun _ h => h

/-- `keyCacher.GetOrLoad`: on success the caller holds one reference on the returned key; on
failure nothing is held. -/
theorem getOrLoad_spec (T : CTab) (H : List Nat) (c : Nat) (m : KeyMeta) (i : Int) (loader : KeyMeta → M Nat)
    (hd : T.dead c = false) (hl : LoaderOK T loader m) :
    Spec (RI T .none H) (getOrLoad c m i loader) (fun o => RI T .none (o :: H)) (RI T .none H) := by
  unfold getOrLoad
  refine Spec.bind (getCache_mode_spec T .none H c) (fun _ h => h.elim) ?_
  intro kc
  apply Spec.pure_pre
  intro hmode
  split
  · -- neverCache: load, wrap, hand the only reference to the caller
    refine Spec.bind (hl.plain H) (fun _ h => h) fun k => ?_
    exact Spec.bind (keyWrap_plain T H k) (fun _ h => h.elim) fun _ => Spec.pure _ fun _ h => h
  · rename_i hnever
    have hsimple : T.mode c ≠ .never := by
      rw [hmode] at hnever
      intro hm; exact hnever hm
    have slow : Spec (RI T .none H) (cacheLoad c m loader >>= fun k => keyIncr k >>= fun _ => (pure k : M Nat))
        (fun o => RI T .none (o :: H)) (RI T .none H) :=
      Spec.bind (cacheLoad_spec T H c m loader hd hsimple hl) (fun _ h => h) (tracked_spec T H)
    refine Spec.bind (getFresh_spec T .none H c m i hd) (fun _ h => h.elim) fun r => ?_
    split
    · exact (tracked_spec T H _).weaken (fun w hw => ⟨hw.1, hw.2 _ rfl⟩) (fun _ _ h => h) (fun _ h => h)
    · refine Spec.bind ((getFresh_spec T .none H c m i hd).weaken (fun _ h => h.1) (fun _ _ h => h) (fun _ h => h)) (fun _ h => h.elim) fun r => ?_
      split
      · exact (tracked_spec T H _).weaken (fun w hw => ⟨hw.1, hw.2 _ rfl⟩) (fun _ _ h => h) (fun _ h => h)
      · exact slow.weaken (fun _ h => h.1) (fun _ _ h => h) (fun _ h => h)

/-- the part of `GetOrLoadLatest` after the cache lookup / load: validity check and reload. -/
theorem getOrLoadLatest_rest (T : CTab) (H : List Nat) (c : Nat) (kid : KeyId) (ea : Int) (loader : KeyMeta → M Nat)
    (hd : T.dead c = false) (hsimple : T.mode c ≠ .never) (hl : LoaderOK T loader ⟨kid, 0⟩) (key : Nat) :
    Spec (fun w => RI T .none H w ∧ 0 < entCount T.dead w.caches key)
      (do
        let ko ← keyObj key
        let w ← get
        if isKeyInvalid ko w.now ea = true then do
            let reloaded ← loader { kid := kid, created := 0 }
            let ro ← keyObj reloaded
            let w ← get
            keyWrap reloaded
            cacheWrite c { kid := kid, created := ro.created } { loadedAt := w.now, obj := reloaded }
            keyIncr reloaded
            pure reloaded
          else do
            keyIncr key
            pure key : M Nat)
      (fun o => RI T .none (o :: H)) (RI T .none H) := by
  refine Spec.bind (R := fun _ w => RI T .none H w ∧ 0 < entCount T.dead w.caches key) (E₁ := fun _ => False)
    (fun w hw => hw) (fun _ h => h.elim) fun ko => ?_
  refine Spec.bind (R := fun _ w => RI T .none H w ∧ 0 < entCount T.dead w.caches key) (E₁ := fun _ => False)
    (fun w hw => hw) (fun _ h => h.elim) fun wnow => ?_
  split
  · -- reload
    refine Spec.bind ((hl H).weaken (fun _ h => h.1) (fun _ _ h => h.1) (fun _ h => h)) (fun _ h => h) fun reloaded => ?_
    refine Spec.bind (R := fun ro w => RI T (.obj reloaded) H w ∧ ro = w.keys.getD reloaded default) (E₁ := fun _ => False)
      (fun w hw => ⟨hw, rfl⟩) (fun _ h => h.elim) fun ro => ?_
    refine Spec.bind (R := fun _ w => RI T (.obj reloaded) H w ∧ ro = w.keys.getD reloaded default) (E₁ := fun _ => False)
      (fun w hw => hw) (fun _ h => h.elim) fun w2 => ?_
    have hww := wrapWrite_spec T H c ⟨kid, ro.created⟩ reloaded w2.now hd hsimple
    have : Spec (fun w => RI T (.obj reloaded) H w ∧ ro = w.keys.getD reloaded default)
        (keyWrap reloaded >>= fun _ => cacheWrite c ⟨kid, ro.created⟩ { loadedAt := w2.now, obj := reloaded })
        (fun _ w => RI T .none H w ∧ 0 < entCount T.dead w.caches reloaded) (fun _ => False) := by
      refine hww.weaken ?_ (fun _ _ h => h) (fun _ h => h)
      rintro w ⟨hi, hro⟩
      refine ⟨hi, fun _ => ?_⟩
      have hlt := hi.rawObj reloaded rfl
      refine ⟨_, List.getElem?_eq_getElem hlt, ?_⟩
      rw [hro, getD_eq_of_getElem? (List.getElem?_eq_getElem hlt)]
    intro w hw
    have h1 := this w hw
    simp only [bind_run] at h1 ⊢
    cases hr : keyWrap reloaded w with
    | mk r1 w1 =>
      rw [hr] at h1
      cases r1 with
      | error e => exact h1.elim
      | ok u =>
        simp only at h1 ⊢
        cases hr2 : cacheWrite c ⟨kid, ro.created⟩ { loadedAt := w2.now, obj := reloaded } w1 with
        | mk r2 w3 =>
          rw [hr2] at h1
          cases r2 with
          | error e => exact h1.elim
          | ok u2 =>
            simp only at h1 ⊢
            have := tracked_spec T H reloaded w3 h1
            simp only [bind_run] at this
            exact this
  · exact tracked_spec T H key

/-- `keyCacher.GetOrLoadLatest`, including the reload of an invalid (revoked / expired) latest key. -/
theorem getOrLoadLatest_spec (T : CTab) (H : List Nat) (c : Nat) (kid : KeyId) (i ea : Int) (loader : KeyMeta → M Nat)
    (hd : T.dead c = false) (hl : LoaderOK T loader ⟨kid, 0⟩) :
    Spec (RI T .none H) (getOrLoadLatest c kid i ea loader) (fun o => RI T .none (o :: H)) (RI T .none H) := by
  unfold getOrLoadLatest
  refine Spec.bind (getCache_mode_spec T .none H c) (fun _ h => h.elim) ?_
  intro kc
  apply Spec.pure_pre
  intro hmode
  split
  · refine Spec.bind (hl.plain H) (fun _ h => h) fun k => ?_
    exact Spec.bind (keyWrap_plain T H k) (fun _ h => h.elim) fun _ => Spec.pure _ fun _ h => h
  · rename_i hnever
    have hsimple : T.mode c ≠ .never := by
      rw [hmode] at hnever
      intro hm; exact hnever hm
    refine Spec.bind (getFresh_spec T .none H c _ i hd) (fun _ h => h.elim) fun r => ?_
    split
    · dsimp only
      exact Spec.bind (R := fun key w => RI T .none H w ∧ 0 < entCount T.dead w.caches key) (E₁ := RI T .none H)
        (Spec.pure _ fun w hw => ⟨hw.1, hw.2 _ rfl⟩) (fun _ h => h) (getOrLoadLatest_rest T H c kid ea loader hd hsimple hl)
    · dsimp only
      exact Spec.bind (R := fun key w => RI T .none H w ∧ 0 < entCount T.dead w.caches key) (E₁ := RI T .none H)
        ((cacheLoad_spec T H c _ loader hd hsimple hl).weaken (fun _ h => h.1) (fun _ _ h => h) (fun _ h => h)) (fun _ h => h)
        (getOrLoadLatest_rest T H c kid ea loader hd hsimple hl)


/-! ### closing a cache -/

theorem releaseAll_spec (T : CTab) (raw : Raw) (H : List Nat) (l : List Nat) :
    Spec (RI T raw (l ++ H)) (releaseAll l) (fun _ => RI T raw H) (fun _ => False) := by
  induction l with
  | nil => exact Spec.pure _ fun _ h => h
  | cons v rest ih =>
    unfold releaseAll
    exact Spec.bind (keyRelease_spec T raw (rest ++ H) v) (fun _ h => h) fun _ => ih

/-- the cache table after `Close` of cache `c`. -/
def CTab.kill (T : CTab) (c : Nat) : CTab := { T with dead := fun j => j == c || T.dead j }

theorem hcount_append (l H : List Nat) (o : Nat) : hcount (l ++ H) o = hcount H o + ((l.count o : Nat) : Int) := by
  unfold hcount; rw [List.count_append]; omega

/-- replacing the contents of a cache that is already dead. -/
theorem RIc.updDead {T : CTab} {raw : Raw} {h : Nat → Int} {w : World} (hi : RIc T raw h w)
    (c : Nat) (kc kc' : KeyCache) (hkc : w.caches[c]? = some kc) (hd : T.dead c = true) (hmode : kc'.mode = kc.mode) :
    RIc T raw h { w with caches := setAt w.caches c fun _ => kc' } := by
  have hcnt : ∀ o, cntOf T h { w with caches := setAt w.caches c fun _ => kc' } o = cntOf T h w o := by
    intro o; unfold cntOf
    show ((entCount T.dead (setAt w.caches c fun _ => kc') o : Nat) : Int) + h o = _
    rw [entCount_setAt_dead _ _ _ hd]
  refine ⟨hi.len, hi.rawSec, hi.rawObj, hi.sec, hi.mat, hi.led, ?_, hi.hval, ?_, ?_, ?_⟩
  · intro o k hk; rw [hcnt]; exact hi.acc o k hk
  · intro c' kc0 hc' hd'
    have hc'' : (setAt w.caches c fun _ => kc')[c']? = some kc0 := hc'
    rw [setAt_getElem?] at hc''
    by_cases e : c' = c
    · subst e; rw [hd] at hd'; cases hd'
    · simp only [e, if_false] at hc''; exact hi.ents c' kc0 hc'' hd'
  · intro c'
    rw [← hi.mode c']
    show ((setAt w.caches c fun _ => kc').getD c' default).mode = _
    by_cases hlt : c' < w.caches.length
    · rw [setAt_getD _ _ _ _ _ hlt]
      by_cases e : c' = c
      · subst e; simp only [if_true, hmode, getD_eq_of_getElem? hkc]
      · simp only [e, if_false]
    · simp only [List.getD_eq_getElem?_getD]
      rw [List.getElem?_eq_none (by rw [setAt_length]; omega), List.getElem?_eq_none (by omega)]
  · show (setAt w.caches c fun _ => kc').length = T.n
    rw [setAt_length]; exact hi.clen

/-- `keyCache.Close` / `neverCache.Close` of an open cache: every entry's reference is released
(closing the keys nobody else holds), and the cache is dead from then on. -/
theorem cacheClose_spec (T : CTab) (H : List Nat) (c : Nat) (hd : T.dead c = false) :
    Spec (RI T .none H) (cacheClose c) (fun _ => RI (T.kill c) .none H) (fun _ => False) := by
  unfold cacheClose
  intro w hi
  have hmode := hi.mode c
  simp only [bind_run, getCache]
  cases hc : w.caches[c]? with
  | none =>
    have hgd : w.caches.getD c default = default := by simp [List.getD_eq_getElem?_getD, hc]
    rw [hgd]
    show RI (T.kill c) .none H w
    refine RIc.congr_T hi ?_ (fun _ => rfl) rfl
    intro c' hc'
    have : c' ≠ c := by
      intro e; subst e
      rw [List.getElem?_eq_none_iff] at hc; omega
    simp [CTab.kill, this]
  | some kc =>
    have hgd : w.caches.getD c default = kc := getD_eq_of_getElem? hc
    rw [hgd] at hmode ⊢
    have hk := RIc.kill hi c kc hc hd
    have hk' : RI (T.kill c) .none (objsOf kc ++ H) w := by
      refine RIc.congr_h hk ?_
      intro o; rw [hcount_append]
    cases hm : kc.mode with
    | never =>
      simp only []
      have hnev := (hi.ents c kc hc hd).nev hm
      show RI (T.kill c) .none H w
      have : objsOf kc = [] := by unfold objsOf; rw [hnev]; rfl
      rw [this] at hk'; exact hk'
    | simple =>
      simp only []
      exact releaseAll_spec (T.kill c) .none H (objsOf kc) w hk'
    | bounded =>
      simp only [setCache, bind_run, modify_run]
      have hok := hi.ents c kc hc hd
      have hperm := close_victims_perm hok (hok.bnd hm)
      let kc' : KeyCache := { kc with pol := (Cache.step kc.pol Cache.Op.close fun _ => false).cache, ents := [] }
      have hdead : (T.kill c).dead c = true := by simp [CTab.kill]
      have h1 := RIc.updDead hk c kc kc' hc hdead rfl
      have h1' : RI (T.kill c) .none
          (List.filterMap (fun em => Option.map (fun x => x.obj) (assocGet kc.ents em))
            (List.filterMap (fun x => kc.slots[x.fst]?) (Cache.step kc.pol Cache.Op.close fun x => false).cbs) ++ H)
          { w with caches := setAt w.caches c fun _ => kc' } := by
        refine RIc.congr_h h1 ?_
        intro o; rw [hcount_append, hperm.count_eq o]
      have := releaseAll_spec (T.kill c) .none H _ _ h1'
      simp only [hm, kc'] at this ⊢
      exact this


end AsherahVerif.Env.Res
