import AsherahVerif.Proofs.EnvTimeF5
/-
Timed calculus under faults, part 6: the public operations and histories.

`I1 w` (every cache entry points to an existing key object) is the only fact about a reachable
world the fault-tolerant statements need; it is kept by every operation whose `store` calls were not
hit by a fault, for every fault list otherwise.  `ReachF w`: `w` is the end of a history in which no
fault hit a metastore `store` (`opSff`); such histories include every allowed history (`Reach`).
-/
set_option linter.unusedVariables false
namespace AsherahVerif.Env.TimeF
open AsherahVerif.Env

variable {fl : List Fault} {t : Int}

/-- every cache entry points to an existing key object. -/
def I1 (w : World) : Prop := ∀ c m e, (m, e) ∈ entsOf w c → e.obj < w.keys.length

theorem I1.below {w w' : World} (h : I1 w) (hext : Ext w w') (hc : w'.caches = w.caches) : I1 w' := by
  intro c m e hm
  unfold entsOf cacheAt at hm
  rw [hc] at hm
  exact Nat.lt_of_lt_of_le (h c m e hm) (ext_keys_len hext)

/-- `EncryptPayload` under faults. -/
theorem encryptPayload_f {x : Ctx} {s0 : List Row} (payload : Nat) (b : Bool) (w : World)
    (h : A fl (DeltaF x t s0) t w) :
    Wp (encryptPayload x payload b) w fun r w' => Bad fl w' ∨ (I1 w' ∧ DeltaF x t s0 w'.store ∧
      ∀ d : Drr, r = .ok d → ∃ c, drrIk d = some ⟨x.ikId, c⟩ ∧ NE x t c) := by
  unfold encryptPayload
  refine Wp.bindB (getOrLoadLatest_f (fun _ => gen_loadLatestOrCreateIntermediateKey x b) x.ikCache x.ikId
    x.pol.revokeInterval x.pol.expireAfter (fun _ h _ => h) (loadLatestOrCreateIntermediateKey_f b) w h)
    (badQ_base _) (by
      intro ik
      refine Resp.finallyDo (R := LG) ?_ (gen_keyRelease ik)
      resp_auto [gen_secretRandom, gen_keyCloseRaw, gen_newKeyObj]
      · exact gen_withKey _ _ fun dm => gen_aeadEncrypt _ _
      · exact gen_withKey _ _ fun im => gen_withKey _ _ fun dm => gen_aeadEncrypt _ _) ?_
  intro r w1 ⟨h1, hk1⟩
  cases r with
  | error e => exact Or.inr ⟨h1.ents, h1.delta, fun d hd => by cases hd⟩
  | ok ik =>
    simp only []
    obtain ⟨ko, hko, hne⟩ := hk1 ik rfl
    apply Wp.mono (encTail_wp x payload ik w1 ko hko)
    intro r w2 ⟨hq, hd⟩
    refine Or.inr ⟨I1.below h1.ents hq.qes.ext hq.qes.q.caches, ?_, fun d hr => ⟨ko.created, hd d hr, hne⟩⟩
    rw [hq.qes.store]; exact h1.delta

theorem I1.same {w w' : World} (h : I1 w) (hc : w'.caches = w.caches) (hk : w'.keys = w.keys) : I1 w' := by
  intro c m e hm
  unfold entsOf cacheAt at hm
  rw [hc] at hm
  rw [hk]; exact h c m e hm

theorem A.begin {w : World} (hi : I1 w) (fl : List Fault) {D : List Row → Prop} (hD : D w.store) :
    A fl D w.now (beginOp fl w).2 :=
  ⟨rfl, J.beginOp fl w, hi.same rfl rfl, hD⟩

/-- the public `encrypt` under faults. -/
theorem encrypt_f {w : World} (hi : I1 w) (s pay : Nat) (fl : List Fault) (b : Bool) :
    Wp (encrypt s pay fl b) w fun r w' => Bad fl w' ∨ (I1 w' ∧ DeltaF (sessionCtx w s) w.now w.store w'.store ∧
      ∀ d : Drr, r = .ok d → ∃ c, drrIk d = some ⟨(sessionCtx w s).ikId, c⟩ ∧ NE (sessionCtx w s) w.now c) := by
  unfold encrypt
  refine Wp.bind_unit rfl ?_
  apply Wp.bind; apply Wp.get; simp only []
  have hx : sessionCtx (beginOp fl w).2 s = sessionCtx w s := rfl
  rw [hx]
  exact encryptPayload_f pay b (beginOp fl w).2 (A.begin hi fl (fun r hr => Or.inl hr))

/-- `DecryptDataRowRecord` under faults keeps `I1`. -/
theorem decryptDataRowRecord_f {D : List Row → Prop} (x : Ctx) (d : Drr) (b : Bool) (w : World) (h : A fl D t w) :
    Wp (decryptDataRowRecord x d b) w fun r w' => Bad fl w' ∨ I1 w' := by
  unfold decryptDataRowRecord
  cases d.key with
  | none => exact Or.inr h.ents
  | some dk =>
    simp only []
    cases dk.parent with
    | none => exact Or.inr h.ents
    | some p =>
      simp only []
      split
      · exact Or.inr h.ents
      · refine Wp.bindB (getOrLoad_f (fun m => gen_loadIntermediateKey x m b) x.ikCache p (loadIntermediateKey_f x p b)
          x.pol.revokeInterval w h) (badQ_base _) (by lg_auto) ?_
        intro r w1 h1
        cases r with
        | error e => exact Or.inr h1.ents
        | ok ik =>
          simp only []
          apply Wp.finallyDo
          have i2 : I1 (decryptRow ik dk d.data w1).2 :=
            I1.below h1.ents (decryptRow_ext ik dk d.data w1) (decryptRow_q0 ik dk d.data w1).caches
          exact Or.inr (i2.below (keyRelease_ext _ _) (keyRelease_q0 _ _).caches)

/-- the public `decrypt` under faults keeps `I1`. -/
theorem decrypt_f {w : World} (hi : I1 w) (s : Nat) (d : Drr) (fl : List Fault) (b : Bool) :
    Wp (decrypt s d fl b) w fun r w' => Bad fl w' ∨ I1 w' := by
  unfold decrypt
  refine Wp.bind_unit rfl ?_
  apply Wp.bind; apply Wp.get; simp only []
  exact decryptDataRowRecord_f (D := fun _ => True) _ d b (beginOp fl w).2 (A.begin hi fl trivial)

/-! ### the other operations -/

theorem cacheClose_i1 (c : Nat) (w : World) (h : I1 w) : I1 (cacheClose c w).2 := by
  unfold cacheClose
  simp only [bind_run, getCache_run]
  cases hmode : (cacheAt w c).mode with
  | never => exact h
  | simple =>
    simp only []
    exact h.below (releaseAll_ext _ w) (releaseAll_q0 _ w).caches
  | bounded =>
    simp only []
    rw [setCache_bind_run]
    generalize hkc : ({ mode := CacheMode.bounded, latest := (cacheAt w c).latest, slots := (cacheAt w c).slots, pol := (Cache.step (cacheAt w c).pol Cache.Op.close fun x => false).cache } : KeyCache) = kc
    have hm' : kc.mode = (cacheAt w c).mode := by rw [← hkc]; exact hmode.symm
    have he' : kc.ents = [] := by rw [← hkc]
    obtain ⟨hcw, -, he⟩ := setCache_cw c kc w hm'
    have h1 : I1 (setCache c kc w).2 := by
      intro c' m e hm
      rw [he] at hm
      split at hm
      · rw [he'] at hm; cases hm
      · exact h c' m e hm
    exact h1.below (releaseAll_ext _ _) (releaseAll_q0 _ _).caches

theorem addCache_i1 (kc : KeyCache) (w : World) (h : I1 w) (h1 : kc.ents = []) (h2 : kc.latest = []) :
    I1 (addCache kc w).2 := by
  intro c m e hm
  rw [(addCache_views kc w h1 h2 c).1] at hm
  exact h c m e hm

theorem newFactory_i1 (p : Policy) (a b c d : Nat) (w : World) (h : I1 w) : I1 (newFactory p a b c d w).2 := by
  have key : Wp (newFactory p a b c d) w fun _ w' => I1 w' := by
    unfold newFactory
    apply Wp.addCache_bind
    have h1 := addCache_i1 _ w h (cacheOf_ents p.cacheSK p.skKind a b).1 (cacheOf_ents p.cacheSK p.skKind a b).2
    split
    · apply Wp.addCache_bind
      have h2 := addCache_i1 _ _ h1 (cacheOf_ents true p.ikKind c d).1 (cacheOf_ents true p.ikKind c d).2
      apply Wp.bind; apply Wp.pure; simp only []
      exact h2.same rfl rfl
    · apply Wp.bind; apply Wp.pure; simp only []
      exact h1.same rfl rfl
  exact key

theorem getSession_i1 (f part c d : Nat) (w : World) (h : I1 w) : I1 (getSession f part c d w).2 := by
  have key : Wp (getSession f part c d) w fun _ w' => I1 w' := by
    unfold getSession
    apply Wp.bind; apply Wp.get; simp only []
    cases (w.facs.getD f default).sharedIk with
    | some c' =>
      simp only []
      apply Wp.bind; apply Wp.pure; simp only []
      exact h.same rfl rfl
    | none =>
      simp only []
      apply Wp.addCache_bind
      have h1 := addCache_i1 _ w h (cacheOf_ents (w.facs.getD f default).pol.cacheIK (w.facs.getD f default).pol.ikKind c d).1
        (cacheOf_ents (w.facs.getD f default).pol.cacheIK (w.facs.getD f default).pol.ikKind c d).2
      exact h1.same rfl rfl
  exact key

theorem closeSession_i1 (s : Nat) (w : World) (h : I1 w) : I1 (closeSession s w).2 := by
  have key : Wp (closeSession s) w fun _ w' => I1 w' := by
    unfold closeSession
    apply Wp.bind; apply Wp.get; simp only []
    apply Wp.bind; apply Wp.modify; simp only []
    have h1 : I1 { w with sessions := setAt w.sessions s fun x => { x with closed := true } } := h.same rfl rfl
    split
    · exact h1
    · exact cacheClose_i1 _ _ h1
  exact key

theorem closeFactory_i1 (f : Nat) (w : World) (h : I1 w) : I1 (closeFactory f w).2 := by
  have key : Wp (closeFactory f) w fun _ w' => I1 w' := by
    unfold closeFactory
    apply Wp.bind; apply Wp.get; simp only []
    apply Wp.bind; apply Wp.modify; simp only []
    have h1 : I1 { w with facs := setAt w.facs f fun x => { x with closed := true } } := h.same rfl rfl
    cases (w.facs.getD f default).sharedIk with
    | none =>
      simp only []
      first
        | exact cacheClose_i1 _ _ h1
        | (apply Wp.bind; apply Wp.pure; simp only []; exact cacheClose_i1 _ _ h1)
    | some c =>
      simp only []
      refine Wp.bind_world (fun e => cacheClose_i1 _ _ h1) (fun _ => ?_)
      exact cacheClose_i1 _ _ (cacheClose_i1 _ _ h1)
  exact key

/-! ### histories -/

/-- **no fault hits a metastore `store`**: every fault token the operation's `store` calls consumed
is `.ok` (decided on the call log the operation leaves behind: the `i`-th logged call consumed the
`i`-th token of the operation's fault list). -/
def opSff (w : World) (op : Op) : Bool :=
  match op with
  | .encrypt _ _ fl => sff fl (applyOp w op).2.log
  | .decrypt _ _ fl => sff fl (applyOp w op).2.log
  | _ => true

/-- histories none of whose operations had a `store` call hit by a fault; every other fault (metastore
reads, KMS, AEAD, secret allocator), every operation, out-of-band revocation and row damage included. -/
def histSff : World → List Op → Bool
  | _, [] => true
  | w, op :: rest => opSff w op && histSff (applyOp w op).2 rest

def ReachF (w : World) : Prop := ∃ t ops, histSff (World.init t) ops = true ∧ (runOps (World.init t) ops).2 = w

theorem histSff_append (w : World) (a b : List Op) :
    histSff w (a ++ b) = (histSff w a && histSff (runOps w a).2 b) := by
  induction a generalizing w with
  | nil => simp [histSff, runOps]
  | cons op rest ih => simp only [List.cons_append, histSff, runOps, ih, Bool.and_assoc]

theorem ReachF.init (t : Int) : ReachF (World.init t) := ⟨t, [], rfl, rfl⟩

theorem ReachF.step {w : World} (h : ReachF w) (op : Op) (ha : opSff w op = true) : ReachF (applyOp w op).2 := by
  obtain ⟨t, ops, hok, hw⟩ := h
  refine ⟨t, ops ++ [op], ?_, ?_⟩
  · rw [histSff_append, hok, hw]; simp [histSff, ha]
  · rw [runOps_append, hw]; rfl

/-- every allowed (fault-free) operation is store-fault-free. -/
theorem opSff_of_allowed {w : World} {op : Op} (ha : allowed w op = true) : opSff w op = true := by
  cases op with
  | encrypt s pay fl =>
    simp only [allowed, Bool.and_eq_true, List.isEmpty_iff] at ha
    obtain ⟨rfl, -⟩ := ha
    exact sff_nil _
  | decrypt s d fl =>
    simp only [allowed, Bool.and_eq_true, List.isEmpty_iff] at ha
    obtain ⟨rfl, -⟩ := ha
    exact sff_nil _
  | _ => rfl

theorem histSff_of_histOk (w : World) (ops : List Op) (h : histOk w ops = true) : histSff w ops = true := by
  induction ops generalizing w with
  | nil => rfl
  | cons op rest ih =>
    simp only [histOk, Bool.and_eq_true] at h
    simp only [histSff, Bool.and_eq_true]
    exact ⟨opSff_of_allowed h.1, ih _ h.2⟩

/-- the fault-tolerant histories include every allowed history. -/
theorem reachF_of_reach {w : World} (h : Reach w) : ReachF w := by
  obtain ⟨t, ops, hok, hw⟩ := h
  exact ⟨t, ops, histSff_of_histOk _ _ hok, hw⟩

/-- every operation whose `store` calls were not hit by a fault keeps `I1`. -/
theorem I1.step {w : World} (h : I1 w) (op : Op) (ha : opSff w op = true) : I1 (applyOp w op).2 := by
  cases op with
  | newFactory p a b c d => rw [applyOp_world]; exact newFactory_i1 p a b c d w h
  | getSession f part c d => rw [applyOp_world]; exact getSession_i1 f part c d w h
  | encrypt s pay fl =>
    have hw := encrypt_f h s pay fl true
    unfold Wp at hw
    have hnb := not_bad_of_sff (fl := fl) (w := (applyOp w (.encrypt s pay fl)).2) ha
    rw [applyOp_world] at hnb ⊢
    rcases hw with hb | ⟨hi, -⟩
    · exact absurd hb hnb
    · exact hi
  | decrypt s d fl =>
    have hw := decrypt_f h s d fl true
    unfold Wp at hw
    have hnb := not_bad_of_sff (fl := fl) (w := (applyOp w (.decrypt s d fl)).2) ha
    rw [applyOp_world] at hnb ⊢
    rcases hw with hb | hi
    · exact absurd hb hnb
    · exact hi
  | closeSession s =>
    rw [applyOp_world]
    exact closeSession_i1 s _ (h.same (w' := (beginOp [] w).2) rfl rfl)
  | closeFactory f =>
    rw [applyOp_world]
    exact closeFactory_i1 f _ (h.same (w' := (beginOp [] w).2) rfl rfl)
  | advance d => rw [applyOp_world]; exact h.same rfl rfl
  | revoke m => rw [applyOp_world]; exact h.same rfl rfl
  | corruptRow m dp => rw [applyOp_world]; exact h.same rfl rfl

theorem ReachF.i1 {w : World} (h : ReachF w) : I1 w := by
  obtain ⟨t, ops, hok, hw⟩ := h
  subst hw
  suffices ∀ (ops : List Op) (w0 : World), I1 w0 → histSff w0 ops = true → I1 (runOps w0 ops).2 by
    refine this ops _ ?_ hok
    intro c m e hm
    simp [entsOf, cacheAt, World.init] at hm
    rw [show (default : KeyCache).ents = [] from rfl] at hm; cases hm
  intro ops
  induction ops with
  | nil => intro w0 hi _; exact hi
  | cons op rest ih =>
    intro w0 hi hok
    simp only [histSff, Bool.and_eq_true] at hok
    exact ih _ (hi.step op hok.1) hok.2

end AsherahVerif.Env.TimeF
